(* Stage 1 of the refinement proof, second part: Find(key, true) on a key that is stored,
   on every tree-shaped state whose in-order walk is sorted: the descent of node.find ends
   on the FIRST item carrying the key. *)
From Coq Require Import List ZArith NArith Bool Lia.
From Coq Require Import ZifyBool ZifyNat ZifyN.
From SopVerif Require Import OMap OMapProofs OMapProofs2 Btree BtreeSim BtreeProofs BtreeProofs2 BtreeLemmas BtreeShape.
Import ListNotations.
Local Open Scope Z_scope.

(* ------------------------------------------------------------------ pieces of a node's list *)
Definition piece (n : node) (kids : list (list item)) (i : nat) : list item :=
  nth i kids [] ++ (if Nat.ltb i (Z.to_nat (ncount n)) then [nth i (nslots n) zero_item] else []).

Lemma node_list_pieces : forall n kids, node_list n kids = flat_map (piece n kids) (seq 0 (S (Z.to_nat (ncount n)))).
Proof. reflexivity. Qed.

Lemma seq_split3 : forall c j, (j <= c)%nat -> seq 0 (S c) = seq 0 j ++ j :: seq (S j) (c - j).
Proof.
  intros c j H. replace (S c) with (j + S (c - j))%nat by lia. rewrite seq_app. cbn [seq plus]. reflexivity.
Qed.

Lemma node_list_split : forall n kids j, (j <= Z.to_nat (ncount n))%nat ->
  node_list n kids = flat_map (piece n kids) (seq 0 j) ++ piece n kids j ++
                     flat_map (piece n kids) (seq (S j) (Z.to_nat (ncount n) - j)).
Proof.
  intros n kids j H. rewrite node_list_pieces, (seq_split3 _ j H), flat_map_app. cbn [flat_map]. reflexivity.
Qed.

Lemma piece_inner : forall n kids i, (i < Z.to_nat (ncount n))%nat ->
  piece n kids i = nth i kids [] ++ [nth i (nslots n) zero_item].
Proof. intros n kids i H. unfold piece. apply Nat.ltb_lt in H. rewrite H. reflexivity. Qed.

Lemma piece_last : forall n kids, piece n kids (Z.to_nat (ncount n)) = nth (Z.to_nat (ncount n)) kids [].
Proof. intros. unfold piece. rewrite Nat.ltb_irrefl, app_nil_r. reflexivity. Qed.

(* inside a sorted node list: a child's items are below the slot that follows them, a slot is
   below everything after it, and everything before a slot is below it *)
Lemma kid_le_slot : forall n kids i x, sorted (node_list n kids) -> (i < Z.to_nat (ncount n))%nat ->
  In x (nth i kids []) -> ikey x <= ikey (nth i (nslots n) zero_item).
Proof.
  intros n kids i x Hs Hi Hx. rewrite (node_list_split n kids i ltac:(lia)), (piece_inner _ _ _ Hi) in Hs.
  apply sorted_app in Hs as [_ [Hs _]]. apply sorted_app in Hs as [Hs _]. apply sorted_app in Hs as [_ [_ Hs]].
  apply Hs; [exact Hx|left; reflexivity].
Qed.

Lemma slot_le_after : forall n kids i x, sorted (node_list n kids) -> (i < Z.to_nat (ncount n))%nat ->
  In x (flat_map (piece n kids) (seq (S i) (Z.to_nat (ncount n) - i))) ->
  ikey (nth i (nslots n) zero_item) <= ikey x.
Proof.
  intros n kids i x Hs Hi Hx. rewrite (node_list_split n kids i ltac:(lia)), (piece_inner _ _ _ Hi) in Hs.
  apply sorted_app in Hs as [_ [Hs _]]. apply sorted_app in Hs as [_ [_ Hs]].
  apply Hs; [apply in_or_app; right; left; reflexivity|exact Hx].
Qed.

Lemma before_le_slot : forall n kids i x, sorted (node_list n kids) -> (i < Z.to_nat (ncount n))%nat ->
  In x (flat_map (piece n kids) (seq 0 i)) -> ikey x <= ikey (nth i (nslots n) zero_item).
Proof.
  intros n kids i x Hs Hi Hx. rewrite (node_list_split n kids i ltac:(lia)), (piece_inner _ _ _ Hi) in Hs.
  apply sorted_app in Hs as [_ [_ Hs]]. apply Hs; [exact Hx|].
  apply in_or_app. left. apply in_or_app. right. left. reflexivity.
Qed.

Lemma before_le_kid : forall n kids i x y, sorted (node_list n kids) -> (i <= Z.to_nat (ncount n))%nat ->
  In x (flat_map (piece n kids) (seq 0 i)) -> In y (nth i kids []) -> ikey x <= ikey y.
Proof.
  intros n kids i x y Hs Hi Hx Hy. rewrite (node_list_split n kids i Hi) in Hs.
  apply sorted_app in Hs as [_ [_ Hs]]. apply Hs; [exact Hx|].
  apply in_or_app. left. unfold piece. apply in_or_app. left. exact Hy.
Qed.

Lemma slot_in_before : forall n kids i j, (i < j)%nat -> (j <= Z.to_nat (ncount n))%nat ->
  In (nth i (nslots n) zero_item) (flat_map (piece n kids) (seq 0 j)).
Proof.
  intros n kids i j Hij Hj. apply in_flat_map. exists i. split; [apply in_seq; lia|].
  rewrite piece_inner by lia. apply in_or_app. right. left. reflexivity.
Qed.

Lemma sorted_of_nth : forall l, (forall i j a b, (i < j)%nat -> nth_error l i = Some a -> nth_error l j = Some b -> ikey a <= ikey b) ->
  sorted l.
Proof.
  induction l as [|x r IH]; intros H; cbn; auto. split.
  - intros y Hy. apply In_nth_error in Hy as [j Hj]. apply (H 0%nat (S j) x y); [lia|reflexivity|exact Hj].
  - apply IH. intros i j a b Hij Ha Hb. apply (H (S i) (S j)); auto. lia.
Qed.

(* the occupied slots of a node inside a sorted list are sorted *)
Lemma occupied_sorted : forall n kids, 0 <= ncount n <= Z.of_nat (length (nslots n)) ->
  sorted (node_list n kids) -> sorted (occupied n).
Proof.
  intros n kids Hc Hs. apply sorted_of_nth. intros i j a b Hij Ha Hb.
  assert (Hj : (j < Z.to_nat (ncount n))%nat).
  { assert (j < length (occupied n))%nat by (apply nth_error_Some; congruence). rewrite occupied_length in H; lia. }
  unfold occupied in Ha, Hb. rewrite nth_error_firstn_lt in Ha, Hb by lia.
  assert (Ea : a = nth i (nslots n) zero_item) by (symmetry; apply nth_error_nth; exact Ha).
  assert (Eb : b = nth j (nslots n) zero_item) by (symmetry; apply nth_error_nth; exact Hb).
  subst a b. apply (before_le_slot n kids j); auto. apply slot_in_before; lia.
Qed.

(* ------------------------------------------------------------------ lower bound across a split *)
Lemma lb_app_lt : forall A B k, (forall x, In x A -> ikey x < k) -> lb (A ++ B) k = (length A + lb B k)%nat.
Proof.
  induction A as [|a A IH]; intros B k H; [reflexivity|]. cbn [app lb length].
  pose proof (H a (or_introl eq_refl)). destruct (ikey a <? k) eqn:E; [|lia].
  rewrite IH; [reflexivity|]. intros x Hx. apply H. right. exact Hx.
Qed.

Lemma lb_app_ge : forall A B k, (exists x, In x A /\ k <= ikey x) -> lb (A ++ B) k = lb A k /\ (lb A k < length A)%nat.
Proof.
  induction A as [|a A IH]; intros B k [x [Hx Hk]]; [destruct Hx|]. cbn [app lb length].
  destruct (ikey a <? k) eqn:E.
  - apply Z.ltb_lt in E. destruct Hx as [Hx|Hx]; [subst x; lia|]. destruct (IH B k (ex_intro _ x (conj Hx Hk))) as [H1 H2]. rewrite H1. split; lia.
  - split; [reflexivity|lia].
Qed.

Lemma has_key_app : forall A B k, has_key (A ++ B) k = has_key A k || has_key B k.
Proof. intros. unfold has_key. apply existsb_app. Qed.

Lemma has_key_false_lt : forall A k, (forall x, In x A -> ikey x < k) -> has_key A k = false.
Proof.
  intros A k H. destruct (has_key A k) eqn:E; [|reflexivity].
  apply has_key_In in E as [x [Hx Hk]]. specialize (H x Hx). lia.
Qed.

Lemma nth_error_app_add : forall (A B : list item) m, nth_error (A ++ B) (length A + m) = nth_error B m.
Proof. intros. rewrite nth_error_app2 by lia. f_equal. lia. Qed.

Lemma split_find : forall B K T k, (forall x, In x B -> ikey x < k) -> (forall x, In x T -> k <= ikey x) ->
  has_key (B ++ K ++ T) k = has_key K k || has_key T k /\
  (has_key K k = true -> nth_error (B ++ K ++ T) (lb (B ++ K ++ T) k) = nth_error K (lb K k)) /\
  ((forall x, In x K -> ikey x < k) -> forall t T', T = t :: T' ->
     nth_error (B ++ K ++ T) (lb (B ++ K ++ T) k) = Some t).
Proof.
  intros B K T k HB HT. split; [|split].
  - rewrite !has_key_app, (has_key_false_lt B k HB). reflexivity.
  - intros HK. rewrite (lb_app_lt B _ k HB), nth_error_app_add.
    apply has_key_In in HK as [x [Hx Hk]].
    assert (Hge : k <= ikey x) by lia.
    destruct (lb_app_ge K T k (ex_intro _ x (conj Hx Hge))) as [H1 H2].
    rewrite H1. apply nth_error_app1. exact H2.
  - intros HK t T' ->. rewrite (lb_app_lt B _ k HB), nth_error_app_add, (lb_app_lt K _ k HK), nth_error_app_add.
    cbn [lb]. pose proof (HT t (or_introl eq_refl)). destruct (ikey t <? k) eqn:E; [lia|]. reflexivity.
Qed.

(* ------------------------------------------------------------------ one node *)
Section OneNode.
  Variables (n : node) (kids : list (list item)) (k : Z).
  Hypothesis Hcnt : 1 <= ncount n.
  Hypothesis Hlen : ncount n <= Z.of_nat (length (nslots n)).
  Hypothesis Hsorted : sorted (node_list n kids).

  Let cnt := Z.to_nat (ncount n).
  Let idx := lb (occupied n) k.
  Let B := flat_map (piece n kids) (seq 0 idx).
  Let K := nth idx kids [].
  Let sl := nth idx (nslots n) zero_item.
  Let A := flat_map (piece n kids) (seq (S idx) (cnt - idx)).
  Let T := (if Nat.ltb idx cnt then [sl] else []) ++ A.

  Lemma idx_le : (idx <= cnt)%nat.
  Proof. unfold idx, cnt. pose proof (lb_le (occupied n) k). rewrite occupied_length in H; lia. Qed.

  Lemma node_split : node_list n kids = B ++ K ++ T.
  Proof.
    pose proof idx_le as Hi. unfold B, K, T, A, sl. rewrite (node_list_split n kids idx Hi). f_equal.
    unfold piece. fold cnt. rewrite <- app_assoc. reflexivity.
  Qed.

  Lemma occ_sorted : sorted (occupied n).
  Proof. apply (occupied_sorted n kids); [lia|exact Hsorted]. Qed.

  Lemma slot_key : forall i, (i < cnt)%nat -> key_at (occupied n) i = ikey (nth i (nslots n) zero_item).
  Proof.
    intros i Hi. pose proof (key_at_occupied n (Z.of_nat i) ltac:(unfold cnt in Hi; lia) Hlen) as H.
    rewrite Nat2Z.id in H. rewrite H. unfold slot, zget. destruct (Z.of_nat i <? 0) eqn:E; [lia|]. rewrite Nat2Z.id. reflexivity.
  Qed.

  Lemma B_lt : forall x, In x B -> ikey x < k.
  Proof.
    intros x Hx. unfold B in Hx. apply in_flat_map in Hx as [i [Hi Hx]]. apply in_seq in Hi.
    pose proof idx_le as Hle.
    assert (Hsl : ikey (nth i (nslots n) zero_item) < k).
    { rewrite <- slot_key by (fold cnt; lia). apply lb_before_idx. fold idx. lia. }
    rewrite piece_inner in Hx by (fold cnt; lia). apply in_app_or in Hx as [Hx|[<-|[]]]; [|exact Hsl].
    pose proof (kid_le_slot n kids i x Hsorted ltac:(fold cnt; lia) Hx). lia.
  Qed.

  Lemma T_ge : forall x, In x T -> k <= ikey x.
  Proof.
    intros x Hx. unfold T in Hx. pose proof idx_le as Hle.
    destruct (Nat.ltb idx cnt) eqn:E.
    - apply Nat.ltb_lt in E.
      assert (Hsl : k <= ikey sl).
      { unfold sl. rewrite <- slot_key by exact E. apply lb_after_idx; [apply occ_sorted|].
        fold idx. rewrite occupied_length by lia. fold cnt. lia. }
      apply in_app_or in Hx as [[<-|[]]|Hx]; [exact Hsl|].
      pose proof (slot_le_after n kids idx x Hsorted E Hx). fold sl in H. lia.
    - apply Nat.ltb_ge in E. assert (idx = cnt) by lia. cbn [app] in Hx. unfold A in Hx.
      rewrite H, Nat.sub_diag in Hx. destruct Hx.
  Qed.

  Lemma K_le_sl : forall x, (idx < cnt)%nat -> In x K -> ikey x <= ikey sl.
  Proof. intros x Hi Hx. apply (kid_le_slot n kids idx x Hsorted Hi Hx). Qed.

  Lemma K_sorted : sorted K.
  Proof.
    pose proof Hsorted as Hs. rewrite node_split in Hs. apply sorted_app in Hs as [_ [Hs _]].
    apply sorted_app in Hs as [Hs _]. exact Hs.
  Qed.

  (* the key is in the node's list iff it is in the child at the search position or on the slot there *)
  Lemma node_has_key : has_key (node_list n kids) k =
    has_key K k || (Nat.ltb idx cnt && (ikey sl =? k)).
  Proof.
    assert (Hsl : (idx < cnt)%nat -> k <= ikey sl).
    { intros Hi. apply T_ge. unfold T. apply Nat.ltb_lt in Hi. rewrite Hi. left. reflexivity. }
    rewrite node_split. destruct (split_find B K T k B_lt T_ge) as [H _]. rewrite H. f_equal.
    unfold T. destruct (Nat.ltb idx cnt) eqn:E; cbn [app andb].
    - unfold has_key at 1. cbn [existsb]. destruct (ikey sl =? k) eqn:Ek; [reflexivity|]. cbn [orb].
      fold (has_key A k). destruct (has_key A k) eqn:Ea; [|reflexivity]. exfalso.
      apply has_key_In in Ea as [y [Hy Hk]]. apply Nat.ltb_lt in E.
      pose proof (slot_le_after n kids idx y Hsorted E Hy). fold sl in H0.
      specialize (Hsl E). lia.
    - apply Nat.ltb_ge in E. pose proof idx_le. assert (idx = cnt) by lia. unfold A. rewrite H1, Nat.sub_diag. reflexivity.
  Qed.

  Lemma node_first_in_kid : has_key K k = true ->
    nth_error (node_list n kids) (lb (node_list n kids) k) = nth_error K (lb K k).
  Proof. intros H. rewrite node_split. destruct (split_find B K T k B_lt T_ge) as [_ [H2 _]]. apply H2. exact H. Qed.

  Lemma node_first_on_slot : has_key K k = false -> (idx < cnt)%nat -> ikey sl = k ->
    nth_error (node_list n kids) (lb (node_list n kids) k) = Some sl.
  Proof.
    intros HK Hi Hk. rewrite node_split. destruct (split_find B K T k B_lt T_ge) as [_ [_ H3]].
    apply (H3 ltac:(intros x Hx; pose proof (K_le_sl x Hi Hx);
                     destruct (Z.eq_dec (ikey x) k) as [e|]; [|lia];
                     assert (has_key K k = true) by (apply has_key_In; eauto); congruence) sl A).
    unfold T. apply Nat.ltb_lt in Hi. rewrite Hi. reflexivity.
  Qed.
End OneNode.

(* ------------------------------------------------------------------ the descent of node.find *)
Definition fnode_of (r : N * Z * N * Z) : N := fst (fst (fst r)).
Definition fidx_of (r : N * Z * N * Z) : Z := snd (fst (fst r)).

Lemma slot_nat : forall n i, slot n (Z.of_nat i) = nth i (nslots n) zero_item.
Proof. intros. unfold slot, zget. destruct (Z.of_nat i <? 0) eqn:E; [lia|]. rewrite Nat2Z.id. reflexivity. Qed.

Lemma child_id_nat : forall n ch i, nchildren n = Some ch -> child_id n (Z.of_nat i) = nth i ch 0%N.
Proof. intros n ch i H. unfold child_id, zget. rewrite H. destruct (Z.of_nat i <? 0) eqn:E; [lia|]. rewrite Nat2Z.id. reflexivity. Qed.

(* Find(key, true): if the key occurs in the subtree the descent ends on the first item carrying
   it; otherwise the incoming "found so far" is returned unchanged *)
Lemma find_loop_first : forall h s k id l, shape (bnodes s) h id l -> sorted l ->
  forall fuel, (h <= fuel)%nat -> forall fn fi,
  let r := find_loop fuel s k true id fn fi in
  (has_key l k = true -> exists n', getn s (fnode_of r) = Some n' /\ 0 <= fidx_of r < ncount n' /\
                                    nth_error l (lb l k) = Some (slot n' (fidx_of r))) /\
  (has_key l k = false -> fnode_of r = fn /\ fidx_of r = fi).
Proof.
  induction h as [|h IH]; intros s k id l Hs Hsort fuel Hf fn fi; [inversion Hs|].
  inversion Hs as [h' id' n kids Hid Hget Hcnt Hlen Hnone Hsome]; subst.
  destruct fuel as [|f]; [lia|]. cbn [find_loop].
  assert (Hgetn : getn s id = Some n).
  { unfold getn. destruct (N.eqb id 0) eqn:E; [apply N.eqb_eq in E; congruence|exact Hget]. }
  rewrite Hgetn.
  assert (Hpos : (0 <? ncount n) = true) by lia. rewrite Hpos. cbn [andb].
  pose proof (occupied_sorted n kids ltac:(lia) Hsort) as Hocc.
  rewrite (node_search_is_lb n k ltac:(lia) Hocc).
  set (idx := lb (occupied n) k). rewrite slot_nat.
  set (sl := nth idx (nslots n) zero_item).
  pose proof (idx_le n k Hcnt Hlen) as Hile. fold idx in Hile.
  pose proof (node_has_key n kids k Hcnt Hlen Hsort) as Hhk. fold idx sl in Hhk.
  pose proof (node_first_in_kid n kids k Hcnt Hlen Hsort) as Hkid. fold idx in Hkid.
  pose proof (node_first_on_slot n kids k Hcnt Hlen Hsort) as Hslot. fold idx sl in Hslot.
  pose proof (K_sorted n kids k Hcnt Hlen Hsort) as HKs. fold idx in HKs.
  assert (Hlt : (Z.of_nat idx <? ncount n) = Nat.ltb idx (Z.to_nat (ncount n))).
  { destruct (Nat.ltb idx (Z.to_nat (ncount n))) eqn:E; [apply Nat.ltb_lt in E|apply Nat.ltb_ge in E]; lia. }
  rewrite Hlt. rewrite andb_false_r.
  set (hit := Nat.ltb idx (Z.to_nat (ncount n)) && (ikey sl =? k)) in *.
  (* the answer when the search stops at this node *)
  assert (Hstop : has_key (nth idx kids []) k = false ->
    let r := ((if hit then id else fn), (if hit then Z.of_nat idx else fi), id, Z.of_nat idx) in
    (has_key (node_list n kids) k = true -> exists n', getn s (fnode_of r) = Some n' /\ 0 <= fidx_of r < ncount n' /\
        nth_error (node_list n kids) (lb (node_list n kids) k) = Some (slot n' (fidx_of r))) /\
    (has_key (node_list n kids) k = false -> fnode_of r = fn /\ fidx_of r = fi)).
  { intros HK. cbv zeta. unfold fnode_of, fidx_of. cbn [fst snd]. rewrite Hhk, HK. cbn [orb]. fold hit.
    destruct hit eqn:Eh.
    - split; [|discriminate]. intros _. unfold hit in Eh. apply andb_true_iff in Eh as [E1 E2].
      apply Nat.ltb_lt in E1. exists n. split; [exact Hgetn|]. split; [lia|].
      rewrite slot_nat. fold sl. apply Hslot; auto. lia.
    - split; [discriminate|]. intros _. split; reflexivity. }
  destruct (has_children n) eqn:Ehc.
  - destruct (nchildren n) as [ch|] eqn:Ech; [|unfold has_children in Ehc; rewrite Ech in Ehc; discriminate].
    rewrite (child_id_nat n ch idx Ech).
    destruct (Hsome ch eq_refl idx Hile) as [[H0 Hk0]|[Hn0 Hsh]].
    + rewrite H0. cbn [N.eqb]. apply Hstop. rewrite Hk0. reflexivity.
    + destruct (N.eqb (nth idx ch 0%N) 0) eqn:E; [apply N.eqb_eq in E; congruence|].
      specialize (IH s k _ _ Hsh HKs f ltac:(lia) (if hit then id else fn) (if hit then Z.of_nat idx else fi)).
      cbv zeta in IH. destruct IH as [IH1 IH2].
      destruct (has_key (nth idx kids []) k) eqn:HK.
      * split.
        -- intros _. destruct (IH1 eq_refl) as [n' [Hg [Hr Hn]]]. exists n'. split; [exact Hg|]. split; [exact Hr|].
           rewrite (Hkid eq_refl). exact Hn.
        -- rewrite Hhk. cbn [orb]. discriminate.
      * destruct (IH2 eq_refl) as [E1 E2]. specialize (Hstop eq_refl). cbv zeta in Hstop.
        unfold fnode_of, fidx_of in *. cbn [fst snd] in Hstop. rewrite E1, E2. exact Hstop.
  - apply Hstop. destruct (nchildren n) as [ch|] eqn:Ech.
    + (* an empty child array cannot carry a shaped child; all kids are empty *)
      unfold has_children in Ehc. rewrite Ech in Ehc. destruct ch; [|discriminate].
      destruct (Hsome [] eq_refl idx Hile) as [[_ Hk0]|[Hn0 _]]; [rewrite Hk0; reflexivity|].
      destruct idx; cbn in Hn0; congruence.
    + rewrite (Hnone eq_refl idx). reflexivity.
Qed.

(* ------------------------------------------------------------------ Find(key, true) on a stored key *)
Lemma b_inorder_ext : forall x y, bnodes x = bnodes y -> broot x = broot y -> b_inorder x = b_inorder y.
Proof. intros x y H1 H2. unfold b_inorder, fuel_of. rewrite H1, H2. reflexivity. Qed.

Theorem find_first_hit_sim : forall cfg b s k, RelT b s -> sorted (items s) -> has_key (items s) k = true ->
  exists b' s', sim_step cfg b s (OFind k true) = Some (b', s') /\ RelT b' s' /\
                cur s' = CAt (lb (items s) k) /\ items s' = items s.
Proof.
  intros cfg b s k [Hi Hc Hca Hcur Hck Hsh] Hsort Hhas.
  assert (Hne : items s <> []) by (intros E; rewrite E in Hhas; discriminate).
  assert (Hbc : bcount b <> 0).
  { unfold ocount in Hc. destruct (items s); [congruence|cbn in Hc; lia]. }
  destruct (Hsh Hbc) as [h [Hshape Hh]].
  unfold sim_step. cbn [bstep ostep bres]. unfold b_find.
  assert (E0 : (bcount b =? 0) = false) by lia. rewrite E0.
  rewrite andb_false_r. cbn [andb].
  set (b0 := if is_selected b then load_current b else b).
  assert (Hb0 : bnodes b0 = bnodes b /\ broot b0 = broot b /\ bcount b0 = bcount b /\ fuel_of b0 = fuel_of b /\
                (forall id, getn b0 id = getn b id)).
  { unfold b0, load_current. destruct (is_selected b); [destruct (N.eqb (bcur_node b) 0)|]; repeat split; reflexivity. }
  destruct Hb0 as [Hn0 [Hr0 [Hc0 [Hf0 Hg0]]]].
  rewrite Hf0, Hr0.
  assert (Hshape0 : shape (bnodes b0) h (broot b) (b_inorder b)) by (rewrite Hn0; exact Hshape).
  assert (Hsort' : sorted (b_inorder b)) by (rewrite <- Hi; exact Hsort).
  pose proof (find_loop_first h b0 k (broot b) (b_inorder b) Hshape0 Hsort'
                (fuel_of b) Hh 0%N 0) as [Hhit _].
  cbv zeta in Hhit. rewrite <- Hi in Hhit. destruct (Hhit Hhas) as [n' [Hg [Hrange Hnth]]].
  set (r := find_loop (fuel_of b) b0 k true (broot b) 0 0) in *.
  destruct r as [[[fnode fidx] lid] lidx] eqn:Er. unfold fnode_of, fidx_of in *. cbn [fst snd] in *.
  assert (Hfn : N.eqb fnode 0 = false).
  { destruct (N.eqb fnode 0) eqn:E; [|reflexivity]. unfold getn in Hg. rewrite E in Hg. discriminate. }
  unfold find_finish. rewrite Hfn. cbn [negb fst snd].
  set (b' := load_current (set_current b0 fnode fidx)).
  assert (Hb' : b' = with_cached (set_current b0 fnode fidx) true).
  { unfold b', load_current. cbn [bcur_node set_current]. rewrite Hfn. reflexivity. }
  assert (Hin : b_inorder b' = b_inorder b).
  { apply b_inorder_ext; rewrite Hb'; cbn [bnodes broot with_cached set_current]; assumption. }
  unfold find_first. destruct (items s) as [|x0 r0] eqn:El; [congruence|]. rewrite <- El in *.
  rewrite Hhas.
  exists b', (set_cur s (CAt (lb (items s) k)) true).
  assert (Hgb' : getn b' fnode = Some n') by (rewrite Hb'; change (getn (with_cached (set_current b0 fnode fidx) true) fnode) with (getn b0 fnode); exact Hg).
  assert (Hcurs : same_cursor (set_cur s (CAt (lb (items s) k)) true) b' = true).
  { unfold same_cursor. cbn [cur set_cur items].
    assert (Hcn : bcur_node b' = fnode) by (rewrite Hb'; reflexivity).
    assert (Hci : bcur_idx b' = fidx) by (rewrite Hb'; reflexivity).
    rewrite Hcn, Hci, Hfn, Hgb', Hnth. cbn [negb andb]. rewrite item_eqb_refl.
    assert (((0 <=? fidx) && (fidx <? ncount n'))%bool = true) by lia. rewrite H. reflexivity. }
  assert (Hkey : current_key (set_cur s (CAt (lb (items s) k)) true) = bcurrent_key b').
  { unfold current_key, bcurrent_key, cur_item, cursor_item. cbn [cached cur set_cur items]. rewrite Hnth.
    assert (Hcn : bcur_node b' = fnode) by (rewrite Hb'; reflexivity).
    assert (Hci : bcur_idx b' = fidx) by (rewrite Hb'; reflexivity).
    assert (Hbca : bcached b' = true) by (rewrite Hb'; reflexivity).
    rewrite Hbca, Hcn, Hci, Hgb'. reflexivity. }
  assert (Hcount : bcount b' = bcount b) by (rewrite Hb'; cbn [bcount with_cached set_current]; exact Hc0).
  split; [|split; [|split; reflexivity]].
  - rewrite agree_intro; auto.
    + unfold ocount. cbn [items set_cur]. fold (ocount s). rewrite Hc, Hcount. reflexivity.
    + rewrite Hb'. reflexivity.
    + cbn [items set_cur]. rewrite Hin. exact Hi.
  - constructor; auto.
    + cbn [items set_cur]. rewrite Hin. exact Hi.
    + unfold ocount. cbn [items set_cur]. fold (ocount s). rewrite Hc, Hcount. reflexivity.
    + rewrite Hb'. reflexivity.
    + intros _. exists h. rewrite Hin. split.
      * rewrite Hb'. cbn [bnodes broot with_cached set_current]. rewrite Hn0, Hr0. exact Hshape.
      * rewrite Hb'. unfold fuel_of in *. cbn [bnodes with_cached set_current]. rewrite Hn0. exact Hh.
Qed.

(* Stage 1 of the refinement proof, fourth part: Last and Previous on tree-shaped states with
   parent links - the mirror image of BtreeNext.v (climbing left, descending to the last item). *)
From Coq Require Import List ZArith NArith Bool Lia.
From Coq Require Import ZifyBool ZifyNat ZifyN.
From SopVerif Require Import OMap OMapProofs OMapProofs2 Btree BtreeSim BtreeProofs BtreeProofs2 BtreeLemmas BtreeShape BtreeFind BtreeNext.
Import ListNotations.
Local Open Scope Z_scope.

(* everything of a node's list that precedes child i: it ends with slot i-1 *)
Definition front (n : node) (kids : list (list item)) (i : nat) : list item := flat_map (piece n kids) (seq 0 i).

Lemma front_S : forall n kids i, (i < Z.to_nat (ncount n))%nat ->
  front n kids (S i) = front n kids i ++ nth i kids [] ++ [nth i (nslots n) zero_item].
Proof.
  intros n kids i Hi. unfold front. rewrite seq_S, flat_map_app. cbn [flat_map plus]. rewrite app_nil_r.
  rewrite piece_inner by exact Hi. reflexivity.
Qed.

Definition last_of (l : list item) : option item := match rev l with y :: _ => Some y | [] => None end.

Lemma last_of_app_one : forall l x, last_of (l ++ [x]) = Some x.
Proof. intros. unfold last_of. rewrite rev_app_distr. reflexivity. Qed.

Lemma last_of_nil_app : forall a b, last_of b = None -> last_of (a ++ b) = last_of a.
Proof.
  intros a b H. unfold last_of in *. rewrite rev_app_distr. destruct (rev b) eqn:E; [|discriminate].
  cbn [app]. reflexivity.
Qed.

Lemma last_of_app_some : forall a b y, last_of b = Some y -> last_of (a ++ b) = Some y.
Proof.
  intros a b y H. unfold last_of in *. rewrite rev_app_distr. destruct (rev b); [discriminate|]. cbn [app]. exact H.
Qed.

Lemma last_of_none : forall l, last_of l = None -> l = [].
Proof.
  intros l H. unfold last_of in H. destruct (rev l) eqn:E; [|discriminate].
  apply (f_equal (@rev item)) in E. rewrite rev_involutive in E. exact E.
Qed.

Lemma last_of_last : forall l, l <> [] -> last_of l = Some (last l zero_item).
Proof.
  intros l H. destruct (exists_last H) as [l' [x E]]. subst. rewrite last_of_app_one, last_last. reflexivity.
Qed.

(* one step of climbing left at a node: slot i-1 if it exists, else up to the parent *)
Lemma climb_left_here : forall s L h id p n kids i f,
  pnode (bnodes s) L h id p n kids -> (i <= Z.to_nat (ncount n))%nat ->
  match last_of (front n kids i) with
  | Some y => lands s L (S h) id p (node_list n kids) (climb_left (S f) L s id (Z.of_nat i - 1)) y
  | None => climb_left (S f) L s id (Z.of_nat i - 1) =
            if is_root n then nil_result s
            else match getn s p with
                 | Some pn => climb_left f L s p (index_of_child L pn id - 1)
                 | None => (s, false)
                 end
  end.
Proof.
  intros s L h id p n kids i f Hn Hi. pose proof Hn as [Hid [Hget [Hpar [Hcnt [Hlen _]]]]].
  assert (Hg : getn s id = Some n) by (apply getn_of; auto).
  cbn [climb_left]. destruct i as [|i].
  - unfold front. cbn [seq flat_map last_of rev]. assert (E : (0 <=? Z.of_nat 0 - 1) = false) by lia. rewrite E, Hg.
    destruct (is_root n); [reflexivity|]. rewrite Hpar. reflexivity.
  - rewrite (front_S n kids i ltac:(lia)), app_assoc, last_of_app_one.
    assert (E : (0 <=? Z.of_nat (S i) - 1) = true) by lia. rewrite E.
    exists 0%nat, id, n, kids, [], [], i. split; [f_equal; f_equal; lia|]. split; [apply LocHere; exact Hn|]. split; [lia|reflexivity].
Qed.

(* climbing left out of a located node: lands on the last item of what precedes *)
Lemma climb_left_loc : forall s L d H top p T nid n' kids' A B,
  loc (bnodes s) L d H top p T nid n' kids' A B ->
  forall i, (i <= Z.to_nat (ncount n'))%nat -> forall fuel e, (fuel = S d + e)%nat ->
  match last_of (A ++ front n' kids' i) with
  | Some y => lands s L H top p T (climb_left fuel L s nid (Z.of_nat i - 1)) y
  | None => climb_left fuel L s nid (Z.of_nat i - 1) =
            match getn s top with
            | Some tn => if is_root tn then nil_result s
                         else match getn s p with
                              | Some pn => climb_left e L s p (index_of_child L pn top - 1)
                              | None => (s, false)
                              end
            | None => nil_result s
            end
  end.
Proof.
  intros s L d H top p T nid n' kids' A B Hl.
  induction Hl as [h id p n kids Hn|d h id p n kids ch j nid n' kids' A B Hn Hch Hj Hnz Hloc IH];
    intros i Hi fuel e Hf.
  - pose proof Hn as [Hid [Hget _]].
    assert (Hg : getn s id = Some n) by (apply getn_of; auto).
    cbn [app]. subst fuel. cbn [plus].
    pose proof (climb_left_here s L h id p n kids i e Hn Hi) as Hc.
    destruct (last_of (front n kids i)); [exact Hc|]. rewrite Hc, Hg. reflexivity.
  - pose proof Hn as [Hid [Hget [Hpar [Hcnt [Hlen [Hnone Hsome]]]]]].
    assert (Hg : getn s id = Some n) by (apply getn_of; auto).
    destruct (Hsome ch Hch j Hj) as [[H0 _]|[_ [Hidx Hcs]]]; [congruence|].
    subst fuel. specialize (IH i Hi (S (S d) + e)%nat (S e) ltac:(lia)).
    rewrite <- app_assoc.
    destruct (last_of (A ++ front n' kids' i)) as [y|] eqn:Er.
    + rewrite (last_of_app_some _ _ _ Er). cbn [plus] in IH |- *. eapply lands_child; eauto.
    + rewrite (last_of_nil_app _ _ Er). cbn [plus] in IH |- *. rewrite IH.
      assert (Hgc : exists cn, getn s (nth j ch 0%N) = Some cn /\ nparent cn = id).
      { destruct (pshape_inv _ _ _ _ _ _ Hcs) as [h2 [n2 [k2 [_ [_ [Hid2 [Hget2 [Hpar2 _]]]]]]]].
        exists n2. split; [apply getn_of; auto|exact Hpar2]. }
      destruct Hgc as [cn [Hgcn Hpc]]. rewrite Hgcn.
      assert (Hnr : is_root cn = false).
      { unfold is_root. rewrite Hpc. destruct (N.eqb id 0) eqn:E; [apply N.eqb_eq in E; congruence|reflexivity]. }
      rewrite Hnr, Hg, Hidx.
      pose proof (climb_left_here s L h id p n kids j e Hn Hj) as Hc. fold (front n kids j).
      destruct (last_of (front n kids j)); [exact Hc|]. rewrite Hc. reflexivity.
Qed.

(* descending to the last item of a subtree (goLeftDown from position Count) *)
Lemma down_last : forall H s L c p T, pshape (bnodes s) L H c p T -> forall fuel, (H <= fuel)%nat ->
  forall n, getn s c = Some n ->
  lands s L H c p T (go_left_down fuel L s c (ncount n)) (last T zero_item).
Proof.
  induction H as [|h IH]; intros s L c p T Hps fuel Hf n0 Hg0; [inversion Hps|].
  destruct (pshape_inv _ _ _ _ _ _ Hps) as [h0 [n [kids [EH [ET Hn]]]]]. injection EH as EH. subst h0 T.
  pose proof Hn as [Hid [Hget [Hpar [Hcnt [Hlen [Hnone Hsome]]]]]].
  assert (Hg : getn s c = Some n) by (apply getn_of; auto).
  rewrite Hg in Hg0. inversion Hg0; subst n0. clear Hg0.
  destruct fuel as [|f]; [lia|]. cbn [go_left_down]. rewrite Hg.
  destruct (node_list_last n kids Hcnt) as [pre Hl].
  assert (Hcz : ncount n = Z.of_nat (Z.to_nat (ncount n))) by lia.
  assert (Hhere : nth (Z.to_nat (ncount n)) kids [] = [] ->
    lands s L (S h) c p (node_list n kids) (set_current s c (ncount n - 1), true) (last (node_list n kids) zero_item)).
  { intros Hk.
    assert (Hlst : last (node_list n kids) zero_item = nth (Z.to_nat (ncount n - 1)) (nslots n) zero_item)
      by (rewrite Hl, Hk, last_app_cons; reflexivity).
    rewrite Hlst.
    exists 0%nat, c, n, kids, [], [], (Z.to_nat (ncount n - 1)).
    split; [f_equal; f_equal; lia|]. split; [apply LocHere; exact Hn|]. split; [lia|reflexivity]. }
  destruct (has_children n) eqn:Ehc.
  - destruct (nchildren n) as [ch|] eqn:Ech; [|unfold has_children in Ehc; rewrite Ech in Ehc; discriminate].
    assert (Hcid : child_id n (ncount n) = nth (Z.to_nat (ncount n)) ch 0%N).
    { unfold child_id, zget. rewrite Ech. destruct (ncount n <? 0) eqn:E; [lia|reflexivity]. }
    rewrite Hcid.
    destruct (Hsome ch eq_refl (Z.to_nat (ncount n)) ltac:(lia)) as [[H0 Hk]|[Hn0 [Hidx Hcs]]].
    + rewrite H0. cbn [N.eqb]. unfold fuel_of. cbn [climb_left].
      assert (E : (0 <=? ncount n - 1) = true) by lia. rewrite E. apply Hhere. exact Hk.
    + destruct (N.eqb (nth (Z.to_nat (ncount n)) ch 0%N) 0) eqn:E; [apply N.eqb_eq in E; congruence|].
      assert (Hgc : exists cn, getn s (nth (Z.to_nat (ncount n)) ch 0%N) = Some cn).
      { destruct (pshape_inv _ _ _ _ _ _ Hcs) as [h2 [n2 [k2 [_ [_ [Hid2 [Hget2 _]]]]]]]. exists n2. apply getn_of; auto. }
      destruct Hgc as [cn Hgcn]. rewrite Hgcn.
      pose proof (IH s L _ _ _ Hcs f ltac:(lia) cn Hgcn) as Hld.
      assert (Hne : nth (Z.to_nat (ncount n)) kids [] <> []) by (eapply shape_nonempty; eapply pshape_shape; eauto).
      assert (Hlast : last (node_list n kids) zero_item = last (nth (Z.to_nat (ncount n)) kids []) zero_item).
      { rewrite Hl, last_app_cons. apply last_cons_nonempty. exact Hne. }
      rewrite Hlast. assert (Hle : (Z.to_nat (ncount n) <= Z.to_nat (ncount n))%nat) by lia.
      exact (lands_child s L h c p n kids ch _ _ _ Hn Ech Hle Hn0 Hld).
  - assert (Hk : nth (Z.to_nat (ncount n)) kids [] = []).
    { destruct (nchildren n) as [ch|] eqn:Ech; [|apply Hnone; reflexivity].
      unfold has_children in Ehc. rewrite Ech in Ehc. destruct ch; [|discriminate].
      destruct (Hsome [] eq_refl (Z.to_nat (ncount n)) ltac:(lia)) as [[_ Hk0]|[Hn0 _]]; [exact Hk0|].
      destruct (Z.to_nat (ncount n)); cbn in Hn0; congruence. }
    apply Hhere. exact Hk.
Qed.

Lemma go_left_down_S : forall f L s id slotIndex, go_left_down (S f) L s id slotIndex =
  match getn s id with
  | None => (set_current s 0 0, false)
  | Some n =>
      if has_children n then
        if N.eqb (child_id n slotIndex) 0 then climb_left (fuel_of s) L s id (slotIndex - 1)
        else match getn s (child_id n slotIndex) with
             | Some c => go_left_down f L s (child_id n slotIndex) (ncount c)
             | None => (set_current s 0 0, false)
             end
      else (set_current s id (slotIndex - 1), true)
  end.
Proof. reflexivity. Qed.

(* moveToPrevious from slot idx of a located node: lands on the item that precedes it *)
Lemma prev_loc : forall s L d H root T nid n' kids' A B idx,
  loc (bnodes s) L d H root 0%N T nid n' kids' A B -> (H <= fuel_of s)%nat ->
  bcur_idx s = Z.of_nat idx -> (idx < Z.to_nat (ncount n'))%nat ->
  match last_of (prefix_of n' kids' A idx) with
  | Some y => lands s L H root 0%N T (move_to_previous L s nid) y
  | None => move_to_previous L s nid = nil_result s
  end.
Proof.
  intros s L d H root T nid n' kids' A B idx Hl Hfuel Hcur Hidx.
  destruct (loc_node_h _ _ _ _ _ _ _ _ _ _ _ _ Hl) as [h' [p' [Hn Hh]]].
  pose proof Hn as [Hid [Hget [Hpar [Hcnt [Hlen [Hnone Hsome]]]]]].
  assert (Hg : getn s nid = Some n') by (apply getn_of; auto).
  destruct (loc_top _ _ _ _ _ _ _ _ _ _ _ _ Hl) as [tn [Htget [Htpar Htid]]].
  assert (Hgt : getn s root = Some tn) by (apply getn_of; auto).
  assert (Hroot : is_root tn = true) by (unfold is_root; rewrite Htpar; reflexivity).
  pose proof (loc_depth _ _ _ _ _ _ _ _ _ _ _ _ Hl) as Hd.
  unfold prefix_of. fold (front n' kids' idx).
  assert (Hclimb : nth idx kids' [] = [] ->
    match last_of (A ++ front n' kids' idx ++ nth idx kids' []) with
    | Some y => lands s L H root 0%N T (climb_left (fuel_of s) L s nid (Z.of_nat idx - 1)) y
    | None => climb_left (fuel_of s) L s nid (Z.of_nat idx - 1) = nil_result s
    end).
  { intros Hk. rewrite Hk, app_nil_r.
    pose proof (climb_left_loc s L d H root 0%N T nid n' kids' A B Hl idx ltac:(lia) (fuel_of s) (fuel_of s - S d)%nat ltac:(lia)) as Hc.
    destruct (last_of (A ++ front n' kids' idx)); [exact Hc|].
    rewrite Hc, Hgt, Hroot. reflexivity. }
  unfold move_to_previous. rewrite Hg, Hcur.
  destruct (has_children n') eqn:Ehc.
  - destruct (nchildren n') as [ch|] eqn:Ech; [|unfold has_children in Ehc; rewrite Ech in Ehc; discriminate].
    change (go_left_down (fuel_of s)) with (go_left_down (S (S (length (bnodes s))))).
    rewrite go_left_down_S. rewrite Hg, Ehc, (child_id_nat n' ch idx Ech).
    destruct (Hsome ch eq_refl idx ltac:(lia)) as [[H0 Hk]|[Hn0 [Hix Hcs]]].
    + rewrite H0. cbn [N.eqb]. apply Hclimb. exact Hk.
    + destruct (N.eqb (nth idx ch 0%N) 0) eqn:E; [apply N.eqb_eq in E; congruence|].
      assert (Hgc : exists cn, getn s (nth idx ch 0%N) = Some cn).
      { destruct (pshape_inv _ _ _ _ _ _ Hcs) as [h2 [n2 [k2 [_ [_ [Hid2 [Hget2 _]]]]]]]. exists n2. apply getn_of; auto. }
      destruct Hgc as [cn Hgcn]. rewrite Hgcn.
      assert (Hne : nth idx kids' [] <> []) by (eapply shape_nonempty; eapply pshape_shape; eauto).
      rewrite app_assoc, (last_of_app_some _ _ _ (last_of_last _ Hne)).
      apply (lands_lift s L d H root 0%N T nid n' kids' A B _ _ Hl).
      intros h2 pm Hle2 Hn2.
      assert (HSi : (idx <= Z.to_nat (ncount n'))%nat) by lia.
      apply (lands_child s L h2 nid pm n' kids' ch idx _ _ Hn2 Ech HSi Hn0).
      destruct Hn2 as [_ [_ [_ [_ [_ [_ Hsome2]]]]]].
      destruct (Hsome2 ch Ech idx HSi) as [[H0' _]|[_ [_ Hcs2]]]; [congruence|].
      assert (Hfu : (h2 <= S (length (bnodes s)))%nat) by (unfold fuel_of in Hfuel; lia).
      pose proof (down_last h2 s L _ _ _ Hcs2 (S (length (bnodes s))) Hfu cn Hgcn) as Hdl. cbv beta iota. exact Hdl.
  - apply Hclimb.
    destruct (nchildren n') as [ch|] eqn:Ech; [|apply Hnone; reflexivity].
    unfold has_children in Ehc. rewrite Ech in Ehc. destruct ch; [|discriminate].
    destruct (Hsome [] eq_refl idx ltac:(lia)) as [[_ Hk0]|[Hn0 _]]; [exact Hk0|].
    destruct idx; cbn in Hn0; congruence.
Qed.

(* ------------------------------------------------------------------ Previous *)
Lemma last_of_split : forall l y, last_of l = Some y -> exists l0, l = l0 ++ [y].
Proof.
  intros l y H. unfold last_of in H. destruct (rev l) as [|z r] eqn:E; [discriminate|]. inversion H; subst.
  exists (rev r). apply (f_equal (@rev item)) in E. rewrite rev_involutive in E. exact E.
Qed.

Theorem prev_sim : forall cfg b s, RelN (cL cfg) b s ->
  exists b' s', sim_step cfg b s OPrev = Some (b', s') /\ RelN (cL cfg) b' s'.
Proof.
  intros cfg b s HR. pose proof (reln_observables _ _ _ HR) as [Hsame Hkey].
  destruct HR as [Hi Hc Hca Hnd Hcur Hshp].
  unfold sim_step. cbn [bstep ostep lift bres]. unfold b_prev, move_prev.
  assert (Hstay : exists b' s', (if agree s (ok_res false) b (ok_res false) then Some (b, s) else None) = Some (b', s') /\ RelN (cL cfg) b' s').
  { exists b, s. split; [rewrite agree_intro; auto|constructor; auto]. }
  destruct (items s) as [|x0 r0] eqn:El.
  { assert (E0 : (bcount b =? 0) = true) by (unfold ocount in Hc; rewrite El in Hc; cbn in Hc; lia).
    rewrite E0. cbn [orb fst snd]. exact Hstay. }
  rewrite <- El in *.
  assert (E0 : (bcount b =? 0) = false) by (unfold ocount in Hc; rewrite El in Hc; cbn in Hc; lia).
  rewrite E0. cbn [orb]. unfold cursor_rel in Hcur.
  destruct (cur s) as [|i|] eqn:Ec.
  - unfold is_selected. rewrite Hcur. cbn [N.eqb negb andb fst snd]. exact Hstay.
  - destruct Hcur as [d [H [nid [n' [kids' [A [B [idx [Hl [HH [Hn [Hx [Hlt Hpos]]]]]]]]]]]]].
    destruct (loc_node_h _ _ _ _ _ _ _ _ _ _ _ _ Hl) as [h' [p' [[Hid [Hget _]] _]]].
    assert (Hg : getn b nid = Some n') by (apply getn_of; auto).
    assert (Hne : N.eqb nid 0 = false) by (destruct (N.eqb nid 0) eqn:E; [apply N.eqb_eq in E; congruence|reflexivity]).
    unfold is_selected. rewrite Hn, Hne, Hx. assert (Hnn : (0 <=? Z.of_nat idx) = true) by lia. rewrite Hnn.
    cbn [negb andb]. rewrite Hg. assert (Hcnt : (ncount n' <=? Z.of_nat idx) = false) by lia. rewrite Hcnt.
    pose proof (loc_decomp _ _ _ _ _ _ _ _ _ _ _ _ idx Hl Hlt) as Hd.
    pose proof (prev_loc b (cL cfg) d H (broot b) (b_inorder b) nid n' kids' A B idx Hl HH Hx Hlt) as Hprev.
    destruct (last_of (prefix_of n' kids' A idx)) as [y|] eqn:Ep.
    + (* there is a predecessor *)
      destruct (last_of_split _ _ Ep) as [P0 HP0].
      assert (Hi0 : i = S (length P0)) by (rewrite Hpos, HP0, app_length; cbn [length]; lia).
      destruct Hprev as [d2 [id2 [n2 [kids2 [A2 [B2 [j [Hr [Hl2 [Hj Hy]]]]]]]]]].
      rewrite Hr. cbn [fst snd]. rewrite Hi0.
      destruct (loc_node_h _ _ _ _ _ _ _ _ _ _ _ _ Hl2) as [h2 [p2 [[Hid2 [Hget2 _]] _]]].
      assert (Hne2 : N.eqb id2 0 = false) by (destruct (N.eqb id2 0) eqn:E; [apply N.eqb_eq in E; congruence|reflexivity]).
      set (b' := load_current (set_current b id2 (Z.of_nat j))).
      assert (Hb' : b' = with_cached (set_current b id2 (Z.of_nat j)) true).
      { unfold b', load_current. cbn [bcur_node set_current]. rewrite Hne2. reflexivity. }
      pose proof (loc_decomp _ _ _ _ _ _ _ _ _ _ _ _ j Hl2 Hj) as Hd2. rewrite Hy in Hd2.
      assert (Hpos2 : prefix_of n2 kids2 A2 j = P0).
      { apply (split_unique (b_inorder b) (prefix_of n2 kids2 A2 j) P0 y
                 (nth (S j) kids2 [] ++ rest_from n2 kids2 (S j) ++ B2)
                 (nth idx (nslots n') zero_item :: nth (S idx) kids' [] ++ rest_from n' kids' (S idx) ++ B));
          [rewrite <- Hi; exact Hnd|exact Hd2|].
        rewrite Hd, HP0, <- app_assoc. reflexivity. }
      assert (HR' : RelN (cL cfg) b' (set_cur s (CAt (length P0)) true)).
      { constructor.
        - cbn [items set_cur]. rewrite Hb'. exact Hi.
        - unfold ocount. cbn [items set_cur]. fold (ocount s). rewrite Hc, Hb'. reflexivity.
        - rewrite Hb'. reflexivity.
        - exact Hnd.
        - unfold cursor_rel. cbn [cur set_cur]. exists d2, H, id2, n2, kids2, A2, B2, j.
          rewrite Hb'. cbn [bnodes broot bcur_node bcur_idx with_cached set_current]. repeat split; auto.
          rewrite Hpos2. reflexivity.
        - rewrite Hb'. exact Hshp. }
      exists b', (set_cur s (CAt (length P0)) true). split; [|exact HR'].
      pose proof (reln_observables _ _ _ HR') as [Hsame' Hkey'].
      rewrite agree_intro; auto; try (rewrite Hb'; reflexivity);
        try (destruct HR' as [_ Hc' _ _ _ _]; exact Hc'); try (destruct HR' as [Hi' _ _ _ _ _]; exact Hi').
    + (* the cursor was on the first item *)
      assert (Hi0 : i = 0%nat) by (rewrite Hpos, (last_of_none _ Ep); reflexivity).
      rewrite Hprev, Hi0. unfold nil_result. cbn [fst snd].
      set (b' := load_current (set_current b 0 0)).
      exists b', (set_cur s CNone false). split.
      * rewrite agree_intro; auto.
      * constructor; auto. unfold cursor_rel. reflexivity.
  - destruct Hcur as [Hne [Hor Hz]].
    assert (Hne' : N.eqb (bcur_node b) 0 = false) by (destruct (N.eqb (bcur_node b) 0) eqn:E; [apply N.eqb_eq in E; congruence|reflexivity]).
    unfold is_selected. rewrite Hne'. cbn [negb andb].
    destruct (0 <=? bcur_idx b) eqn:E1; cbn [negb orb fst snd]; [|exact Hstay].
    destruct (getn b (bcur_node b)) as [n|]; [|exact Hstay].
    destruct Hor as [Hor|Hor]; [lia|].
    assert (Hge : (ncount n <=? bcur_idx b) = true) by lia. rewrite Hge. exact Hstay.
Qed.

(* ------------------------------------------------------------------ Last under the same relation *)
Lemma last_loc : forall H s L c p T, pshape (bnodes s) L H c p T -> forall fuel, (H <= fuel)%nat ->
  exists id' d n' kids' A',
    move_to_last_loop fuel s c = Some id' /\
    loc (bnodes s) L d H c p T id' n' kids' A' [] /\ nth (Z.to_nat (ncount n')) kids' [] = [].
Proof.
  induction H as [|h IH]; intros s L c p T Hps fuel Hf; [inversion Hps|].
  destruct (pshape_inv _ _ _ _ _ _ Hps) as [h0 [n [kids [EH [ET Hn]]]]]. injection EH as EH. subst h0 T.
  pose proof Hn as [Hid [Hget [Hpar [Hcnt [Hlen [Hnone Hsome]]]]]].
  destruct fuel as [|f]; [lia|]. cbn [move_to_last_loop].
  assert (Hg : getn s c = Some n) by (apply getn_of; auto). rewrite Hg.
  assert (Hhere : nth (Z.to_nat (ncount n)) kids [] = [] -> exists id' d n' kids' A',
            Some c = Some id' /\ loc (bnodes s) L d (S h) c p (node_list n kids) id' n' kids' A' [] /\
            nth (Z.to_nat (ncount n')) kids' [] = []).
  { intros Hk. exists c, 0%nat, n, kids, []. split; [reflexivity|]. split; [apply LocHere; exact Hn|exact Hk]. }
  destruct (nchildren n) as [ch|] eqn:Ech.
  - assert (Hcid : child_id n (ncount n) = nth (Z.to_nat (ncount n)) ch 0%N).
    { unfold child_id, zget. rewrite Ech. destruct (ncount n <? 0) eqn:E; [lia|reflexivity]. }
    rewrite Hcid.
    destruct (Hsome ch eq_refl (Z.to_nat (ncount n)) ltac:(lia)) as [[H0 Hk]|[Hn0 [Hidx Hcs]]].
    + rewrite H0. cbn [N.eqb]. apply Hhere. exact Hk.
    + destruct (N.eqb (nth (Z.to_nat (ncount n)) ch 0%N) 0) eqn:E; [apply N.eqb_eq in E; congruence|].
      assert (Hgc : exists cn, getn s (nth (Z.to_nat (ncount n)) ch 0%N) = Some cn).
      { destruct (pshape_inv _ _ _ _ _ _ Hcs) as [h2 [n2 [k2 [_ [_ [Hid2 [Hget2 _]]]]]]]. exists n2. apply getn_of; auto. }
      destruct Hgc as [cn Hgcn]. rewrite Hgcn.
      destruct (IH s L _ _ _ Hcs f ltac:(lia)) as [id' [d [n' [kids' [A' [Hloop [Hl Hk]]]]]]].
      exists id', (S d), n', kids', (flat_map (piece n kids) (seq 0 (Z.to_nat (ncount n))) ++ A').
      split; [exact Hloop|]. split; [|exact Hk].
      assert (Hle : (Z.to_nat (ncount n) <= Z.to_nat (ncount n))%nat) by lia.
      pose proof (LocChild (bnodes s) L d h c p n kids ch (Z.to_nat (ncount n)) id' n' kids' A' [] Hn Ech Hle Hn0 Hl) as Hloc.
      rewrite rest_from_last in Hloc. exact Hloc.
  - apply Hhere. apply Hnone. reflexivity.
Qed.

Theorem last_simN : forall cfg b s, RelN (cL cfg) b s ->
  exists b' s', sim_step cfg b s OLast = Some (b', s') /\ RelN (cL cfg) b' s'.
Proof.
  intros cfg b s HR. pose proof (reln_observables _ _ _ HR) as [Hsame Hkey].
  destruct HR as [Hi Hc Hca Hnd Hcur Hshp].
  unfold sim_step. cbn [bstep ostep bres]. unfold b_last.
  destruct (items s) as [|x0 r0] eqn:El.
  { assert (E0 : (bcount b =? 0) = true) by (unfold ocount in Hc; rewrite El in Hc; cbn in Hc; lia).
    rewrite E0. cbn [fst snd]. exists b, s. split; [rewrite agree_intro; auto; rewrite El; auto|constructor; auto; rewrite El; auto]. }
  assert (E0 : (bcount b =? 0) = false) by (unfold ocount in Hc; rewrite El in Hc; cbn in Hc; lia).
  rewrite E0. rewrite <- El in *.
  destruct (Hshp ltac:(lia)) as [H [Hps HH]].
  destruct (last_loc H b (cL cfg) (broot b) 0%N (b_inorder b) Hps (fuel_of b) HH) as [id' [d [n' [kids' [A' [Hloop [Hl Hk]]]]]]].
  destruct (loc_node_h _ _ _ _ _ _ _ _ _ _ _ _ Hl) as [h2 [p2 [[Hid2 [Hget2 [_ [Hcnt2 _]]]] _]]].
  assert (Hg : getn b id' = Some n') by (apply getn_of; auto).
  assert (Hne2 : N.eqb id' 0 = false) by (destruct (N.eqb id' 0) eqn:E; [apply N.eqb_eq in E; congruence|reflexivity]).
  unfold move_to_last. rewrite Hloop, Hg, Hne2. cbn [negb fst snd].
  set (idx := Z.to_nat (ncount n' - 1)).
  assert (Hidx : ncount n' - 1 = Z.of_nat idx) by (unfold idx; lia).
  assert (Hlt : (idx < Z.to_nat (ncount n'))%nat) by (unfold idx; lia).
  set (b' := load_current (set_current b id' (ncount n' - 1))).
  assert (Hb' : b' = with_cached (set_current b id' (Z.of_nat idx)) true).
  { unfold b', load_current. cbn [bcur_node set_current]. rewrite Hne2, Hidx. reflexivity. }
  pose proof (loc_decomp _ _ _ _ _ _ _ _ _ _ _ _ idx Hl Hlt) as Hd.
  assert (HSidx : S idx = Z.to_nat (ncount n')) by (unfold idx; lia).
  rewrite HSidx, Hk, rest_from_last in Hd. cbn [app] in Hd.
  assert (Hpos : pred (length (items s)) = length (prefix_of n' kids' A' idx)).
  { rewrite Hi, Hd, app_length. cbn [length]. lia. }
  assert (HR' : RelN (cL cfg) b' (set_cur s (CAt (pred (length (items s)))) true)).
  { constructor.
    - cbn [items set_cur]. rewrite Hb'. exact Hi.
    - unfold ocount. cbn [items set_cur]. fold (ocount s). rewrite Hc, Hb'. reflexivity.
    - rewrite Hb'. reflexivity.
    - exact Hnd.
    - unfold cursor_rel. cbn [cur set_cur]. exists d, H, id', n', kids', A', [], idx.
      rewrite Hb'. cbn [bnodes broot bcur_node bcur_idx with_cached set_current]. repeat split; auto.
    - rewrite Hb'. exact Hshp. }
  exists b', (set_cur s (CAt (pred (length (items s)))) true). split; [|exact HR'].
  pose proof (reln_observables _ _ _ HR') as [Hsame' Hkey'].
  destruct (items s) as [|x1 r1] eqn:E2 in |- * at 1; [congruence|].
  rewrite agree_intro; auto; try (rewrite Hb'; reflexivity); try (rewrite <- E2; assumption);
    try (destruct HR' as [_ Hc' _ _ _ _]; rewrite <- E2; exact Hc'); try (destruct HR' as [Hi' _ _ _ _ _]; rewrite <- E2; exact Hi').
Qed.

(* navigation: every sequence of First / Last / Next / Previous calls simulates *)
Definition is_nav_op (o : op) : Prop := o = OFirst \/ o = OLast \/ o = ONext \/ o = OPrev.

Theorem nav_refines : forall cfg b s ops, RelN (cL cfg) b s -> Forall is_nav_op ops -> sim_from cfg b s ops = true.
Proof.
  intros cfg b s ops HR Hall.
  apply (sim_lift cfg (RelN (cL cfg)) is_nav_op); auto.
  intros b0 s0 o HR0 [->|[->|[->| ->]]]; [apply first_simN|apply last_simN|apply next_sim|apply prev_sim]; exact HR0.
Qed.

(* Model of the JSON map-key comparers: /repo/jsondb/mapkey.indexspec.go
   (IndexSpecification.Comparer) and /repo/jsondb/mapkey.go (defaultComparer).
   Both are STATEFUL: each field's comparer is chosen by btree.CoerceComparer from
   the first x value seen and cached; the default comparer also freezes its sorted
   field list from the first x map. Definitions only (proofs: MapKeyProofs.v). *)
From Coq Require Import List ZArith NArith Bool.
From SopVerif Require Import FloatCmp Compare.
Import ListNotations.
Local Open Scope Z_scope.

(* map[string]any as an association list; m[f] of a missing field is the nil interface *)
Definition jmap := list (list N * key).

Definition name_eqb (a b : list N) : bool := list_eqb N.eqb a b.

Fixpoint lookup (f : list N) (m : jmap) : key :=
  match m with
  | [] => KNil
  | (g, v) :: r => if name_eqb f g then v else lookup f r
  end.

(* one field of the comparer state: name, sort direction, cached comparer (nil = not coerced yet) *)
Record fstate := mkF { f_name : list N; f_asc : bool; f_ck : option ckind }.

Section WithFmt.
  Variable fmtv : key -> list N.

  (* the loop shared by both comparers:
       if comparer[i] == nil { comparer[i] = CoerceComparer(x[field]) }
       res := comparer[i](x[field], y[field]); if res != 0 { return res (negated if descending) }   *)
  Fixpoint fields_cmp (fl : list fstate) (x y : jmap) : Z * list fstate :=
    match fl with
    | [] => (0, [])
    | f :: r =>
        let vx := lookup (f_name f) x in
        let vy := lookup (f_name f) y in
        let ck := match f_ck f with Some c => c | None => coerce vx end in
        let f' := mkF (f_name f) (f_asc f) (Some ck) in
        let res := apply_ck fmtv ck vx vy in
        if res =? 0 then
          let '(r', fl') := fields_cmp r x y in (r', f' :: fl')
        else ((if f_asc f then res else - res), f' :: r)
    end.

  (* ---- IndexSpecification.Comparer *)
  Definition spec_init (fields : list (list N * bool)) : list fstate :=
    map (fun p => mkF (fst p) (snd p) None) fields.
  Definition spec_cmp := fields_cmp.

  (* ---- defaultComparer: the sorted field list is taken from the first x map *)
  Fixpoint insert_name (f : list N) (l : list (list N)) : list (list N) :=
    match l with
    | [] => [f]
    | g :: r => let c := bytes_cmp f g in
                if c =? 0 then l                 (* map keys are unique *)
                else if c <? 0 then f :: l
                else g :: insert_name f r
    end.
  Definition sorted_fields (m : jmap) : list (list N) :=
    fold_right insert_name [] (map fst m).           (* sort.Strings over the keys of m *)

  Definition def_state := option (list fstate).      (* None: defaultComparerSortedFields == nil *)
  Definition def_cmp (st : def_state) (x y : jmap) : Z * def_state :=
    let fl := match st with
              | Some fl => fl
              | None => map (fun f => mkF f true None) (sorted_fields x)
              end in
    let '(r, fl') := fields_cmp fl x y in (r, Some fl').

  (* ---- histories: earlier comparisons made with the same comparer object *)
  Definition run_spec (st : list fstate) (h : list (jmap * jmap)) : list fstate :=
    fold_left (fun st p => snd (spec_cmp st (fst p) (snd p))) h st.
  Definition run_def (st : def_state) (h : list (jmap * jmap)) : def_state :=
    fold_left (fun st p => snd (def_cmp st (fst p) (snd p))) h st.

  (* results of a whole sequence (for the correspondence check) *)
  Fixpoint trace_spec (st : list fstate) (h : list (jmap * jmap)) : list Z :=
    match h with
    | [] => []
    | p :: r => let '(z, st') := spec_cmp st (fst p) (snd p) in z :: trace_spec st' r
    end.
  Fixpoint trace_def (st : def_state) (h : list (jmap * jmap)) : list Z :=
    match h with
    | [] => []
    | p :: r => let '(z, st') := def_cmp st (fst p) (snd p) in z :: trace_def st' r
    end.
End WithFmt.

(* ---- uniformly typed keys: every field has one key type across all keys (missing = nil) *)
Definition typed (ft : list N -> kty) (m : jmap) : Prop :=
  forall f, has_ty (lookup f m) (ft f) = true.

(* Proofs about HandleProto, part 5: preservation of Inv by the steps that change locks, and by rollback. *)
From Coq Require Import List ZArith NArith Bool Lia PeanoNat.
From SopVerif Require Import Proto ProtoProofs HandleProto HandleProtoProofs HandleProtoInv HandleProtoInv2 HandleProtoInv3.
Import ListNotations.
Local Open Scope N_scope.

(* others keep their locks when i acquires keys that are free or its own *)
Lemma stable_acquire s i ks j tj bl txs' :
  Inv s -> get_tx s j = Some tj ->
  stable s (mkSt (sreg s) bl (acquire (slocks s) i ks) txs' (shist s)) j tj.
Proof.
  intros I Hj Hc Hh l Hl. cbn [slocks sreg]. split; [|eauto].
  rewrite lock_of_acquire. rewrite (o_lock _ _ _ (i_tx _ I _ _ Hj) Hc Hh l Hl). reflexivity.
Qed.

Lemma own_after_acquire lk i ks l : free_or_own lk i ks = true -> In l ks -> lock_of (acquire lk i ks) l = Some i.
Proof.
  intros Hf Hin. rewrite lock_of_acquire. pose proof (forallb_In _ _ _ Hf Hin) as H. cbn beta in H.
  destruct (lock_of lk l) as [o|].
  - apply Nat.eqb_eq in H. subst. reflexivity.
  - rewrite (mem_true_In _ _ Hin). reflexivity.
Qed.

Lemma step_LLock s i s' : Inv s -> step strict s (LLock i) = Some s' -> Inv s'.
Proof.
  intros I H. open_tx H t Et. destruct (_ && _) eqn:E; [|discriminate]. inversion H; subst s'. split_andb. live_pc.
  pose proof (i_tx _ I _ _ Et) as O. rewrite (keys_norem _ (proj1 (o_norem _ _ _ O))) in *.
  eapply inv_assemble with (t := t); try reflexivity; try eassumption.
  - intros j tj _ Hj. apply stable_acquire; assumption.
  - eapply txn_ok_frame with (s := mkSt (sreg s) (sblobs s) (acquire (slocks s) i (upd_lids t)) (stxs s) (shist s)).
    2:{ apply stable_refl; reflexivity. }
    assert (Hp : t_pend t = []) by (apply (pend_nil_of_pc _ _ _ O H0); intros k; rewrite H2; destruct k; reflexivity).
    constructor; cbn [with_pc t_crashed t_rem t_marked t_pc t_pend t_claimed t_plog t_upd slocks sreg]; unfold upd_lids; cbn [t_upd]; try discriminate.
    + exact (o_norem _ _ _ O).
    + exact (o_nd _ _ _ O).
    + intros _ _ l Hl. apply own_after_acquire; assumption.
    + rewrite Hp. intros _ k h [].
    + intros _ _ c Hin. rewrite (o_start _ _ _ O (or_introl H2)) in Hin. destruct Hin.
    + exact (o_plog _ _ _ O).
    + intros _. exact (o_start _ _ _ O (or_introl H2)).
  - exact (i_hist _ I).
  - exact (i_hok _ I).
Qed.

(* ------------------------------------------------------------------ unlocking *)

Lemma stable_unlock_owned s i ks j tj bl txs' :
  Inv s -> j <> i -> get_tx s j = Some tj ->
  stable s (mkSt (sreg s) bl (unlock_owned (slocks s) i ks) txs' (shist s)) j tj.
Proof.
  intros I Hne Hj Hc Hh l Hl. cbn [slocks sreg]. split; [|eauto].
  pose proof (o_lock _ _ _ (i_tx _ I _ _ Hj) Hc Hh l Hl) as E. rewrite E.
  unfold unlock_owned. apply lock_of_filter_first; [exact E|]. cbn [fst snd].
  destruct (Nat.eqb_spec j i); [contradiction|]. rewrite andb_false_r. reflexivity.
Qed.

Lemma step_LUnlock s i s' : Inv s -> step strict s (LUnlock i) = Some s' -> Inv s'.
Proof.
  intros I H. open_tx H t Et. pose proof (i_tx _ I _ _ Et) as O.
  destruct (live t && pc_eqb (t_pc t) PInstalled) eqn:E1.
  - inversion H; subst s'. split_andb. live_pc.
    eapply inv_assemble with (t := t); try reflexivity; try eassumption.
    + intros j tj Hne Hj. apply stable_unlock_owned; assumption.
    + eapply txn_ok_frame with (s := s); [|intros _ X; cbn in X; discriminate].
      eapply txn_ok_restage; try (rs H1 O).
      apply (pend_nil_of_pc _ _ _ O H0). intros k. rewrite H1. destruct k; reflexivity.
    + exact (i_hist _ I).
    + exact (i_hok _ I).
  - destruct (live t && pc_eqb (t_pc t) PRolling && negb (nonempty (t_pend t))) eqn:E2; [|discriminate]. inversion H; subst s'. split_andb. live_pc.
    eapply inv_assemble with (t := t); try reflexivity; try eassumption.
    + intros j tj Hne Hj. apply stable_unlock_owned; assumption.
    + eapply txn_ok_frame with (s := s); [|intros _ X; cbn in X; discriminate].
      eapply txn_ok_restage; try (rs H3 O).
    + exact (i_hist _ I).
    + exact (i_hok _ I).
Qed.

Lemma step_LLockExpire s l s' : Inv s -> step strict s (LLockExpire l) = Some s' -> Inv s'.
Proof.
  intros I H. cbn [step] in H. destruct (lock_of (slocks s) l) as [o|] eqn:El; [|discriminate].
  cbn [strict h_lock negb orb] in H.
  destruct (match get_tx s o with Some t => t_crashed t | None => true end) eqn:Ec; [|discriminate]. inversion H; subst s'.
  eapply inv_env; [exact I|reflexivity| |exact (i_hist _ I)|exact (i_hok _ I)].
  intros j tj Hj Hc Hh l' Hl'. cbn [slocks sreg]. split; [|eauto].
  pose proof (o_lock _ _ _ (i_tx _ I _ _ Hj) Hc Hh l' Hl') as E.
  unfold unlock_one. apply lock_of_filter. intros o'. cbn [fst].
  destruct (N.eqb_spec l' l) as [->|]; [|reflexivity].
  exfalso. rewrite El in E. inversion E; subst o. rewrite Hj in Ec. congruence.
Qed.

(* ------------------------------------------------------------------ rollback *)

Lemma undo_batch_ok s i t b :
  txn_ok s i t -> t_crashed t = false ->
  forall k h, In (k, h) (fst (undo_batch s t b)) ->
    k = WUndo /\ In (lid h) (upd_lids t) /\ exists h0, lookup (sreg s) (lid h) = Some h0 /\ ver h = ver h0.
Proof.
  intros O Hc k h Hin. unfold undo_batch in Hin. cbn [fst] in Hin.
  destruct (o_norem _ _ _ O) as [Hr _]. unfold rem_lids in Hin. rewrite Hr in Hin. cbn [map reg_get flat_map undelete tag] in Hin.
  assert (Hin' : In (k, h) (tag WUndo (rb_updated_handles (reg_get (sreg s) (upd_lids t))))) by (destruct b; exact Hin).
  apply in_tag in Hin'. destruct Hin' as [-> Hin']. split; [reflexivity|].
  destruct (rb_updated_spec _ _ Hin') as (h1 & H1 & El & Ev).
  destruct (reg_get_lookup _ _ _ H1) as [Hl Hlk]. rewrite El. split; [exact Hl|]. exists h1. split; [exact Hlk|exact Ev].
Qed.

Lemma start_rollback_inv s i t b :
  Inv s -> get_tx s i = Some t -> t_crashed t = false -> hold_pc (t_pc t) = true -> t_pc t <> PLocked ->
  Inv (start_rollback s i t b).
Proof.
  intros I Et Hc Hh Hnl. pose proof (i_tx _ I _ _ Et) as O.
  unfold start_rollback. destruct (undo_batch s t b) as [pd bl] eqn:Eb.
  eapply inv_assemble with (t := t); try reflexivity; try eassumption.
  - intros j tj _ _. apply stable_refl; reflexivity.
  - eapply txn_ok_frame with (s := s); [|apply stable_refl; reflexivity].
    constructor; cbn [t_crashed t_rem t_marked t_pc t_pend t_claimed t_plog t_upd]; unfold upd_lids; cbn [t_upd]; try discriminate.
    + exact (o_norem _ _ _ O).
    + exact (o_nd _ _ _ O).
    + intros _ _. exact (o_lock _ _ _ O Hc Hh).
    + intros _ k h Hin. destruct (undo_batch_ok s i t b O Hc k h) as (-> & Hl & h0 & Hlk & Hv); [rewrite Eb; exact Hin|].
      split; [reflexivity|]. split; [exact Hl|]. exists h0. split; [exact Hlk|exact Hv].
    + intros _ _. exact (o_pres _ _ _ O Hc Hh).
    + intros [X|X]; discriminate.
  - exact (i_hist _ I).
  - exact (i_hok _ I).
Qed.

Lemma step_LRollback s i s' : Inv s -> step strict s (LRollback i) = Some s' -> Inv s'.
Proof.
  intros I H. open_tx H t Et. destruct (live t) eqn:Hl; [|discriminate]. live_pc.
  pose proof (i_tx _ I _ _ Et) as O.
  destruct (t_pc t) eqn:Hpc; try discriminate.
  - (* PLocked *) inversion H; subst s'.
    eapply inv_local with (t := t); try reflexivity; try eassumption.
    constructor; cbn [with_pend t_crashed t_rem t_marked t_pc t_pend t_claimed t_plog t_upd]; unfold upd_lids; cbn [t_upd]; try discriminate.
    + exact (o_norem _ _ _ O).
    + exact (o_nd _ _ _ O).
    + intros _ _. apply (o_lock _ _ _ O Hl). rewrite Hpc. reflexivity.
    + intros _ k h [].
    + intros _ _ c Hin. rewrite (o_start _ _ _ O (or_intror Hpc)) in Hin. destruct Hin.
    + exact (o_plog _ _ _ O).
    + intros [X|X]; discriminate.
  - (* PClaiming: the claims written so far stay *) inversion H; subst s'.
    eapply inv_local with (t := t); try reflexivity; try eassumption.
    constructor; cbn [with_pend t_crashed t_rem t_marked t_pc t_pend t_claimed t_plog t_upd]; unfold upd_lids; cbn [t_upd]; try discriminate.
    + exact (o_norem _ _ _ O).
    + exact (o_nd _ _ _ O).
    + intros _ _. apply (o_lock _ _ _ O Hl). rewrite Hpc. reflexivity.
    + intros _ k h [].
    + intros _ _. apply (o_pres _ _ _ O Hl). rewrite Hpc. reflexivity.
    + exact (o_plog _ _ _ O).
    + intros [X|X]; discriminate.
  - inversion H; subst s'. apply start_rollback_inv; try assumption; rewrite Hpc; [reflexivity|discriminate].
  - inversion H; subst s'. apply start_rollback_inv; try assumption; rewrite Hpc; [reflexivity|discriminate].
  - inversion H; subst s'. apply start_rollback_inv; try assumption; rewrite Hpc; [reflexivity|discriminate].
  - destruct (nonempty (t_pend t)); [discriminate|]. inversion H; subst s'.
    apply start_rollback_inv; try assumption; rewrite Hpc; [reflexivity|discriminate].
Qed.

(* ------------------------------------------------------------------ the last lock check and the phase-2 batch *)

Lemma flip_batch_ok s i t :
  txn_ok s i t -> t_crashed t = false -> t_pc t = PLogged ->
  let batch := tag WFlip (map flip (t_claimed t)) ++ tag WTouch (map touch (t_marked t)) in
  (forall k h, In (k, h) batch -> k = WFlip /\ In (lid h) (upd_lids t) /\ exists h0, lookup (sreg s) (lid h) = Some h0 /\ ver h = (ver h0 + 1)%Z)
  /\ NoDup (map (fun p => lid (snd p)) batch).
Proof.
  intros O Hc Hpc batch. subst batch. destruct (o_norem _ _ _ O) as [_ Hm]. rewrite Hm. cbn [map tag app]. rewrite app_nil_r.
  assert (Hh : hold_pc (t_pc t) = true) by (rewrite Hpc; reflexivity).
  assert (Hi : img_pc (t_pc t) = true) by (rewrite Hpc; reflexivity).
  split.
  - intros k h Hin. apply in_tag in Hin. destruct Hin as [-> Hin]. apply in_map_iff in Hin. destruct Hin as (c & <- & Hin).
    split; [reflexivity|]. destruct (o_pres _ _ _ O Hc Hh c Hin) as (Hl & h0 & Hlk).
    split; [exact Hl|]. exists h0. split; [exact Hlk|]. cbn [flip ver lid]. rewrite (o_img _ _ _ O Hc Hi c h0 Hin Hlk). reflexivity.
  - unfold tag. rewrite !map_map. cbn [snd flip lid]. exact (o_img_nd _ _ _ O Hi).
Qed.

Lemma all_own_free lk i ks : all_own lk i ks = true -> free_or_own lk i ks = true.
Proof.
  unfold all_own, free_or_own. rewrite !forallb_forall. intros H l Hl. specialize (H l Hl).
  destruct (lock_of lk l); [exact H|reflexivity].
Qed.

Lemma step_LCheck s i s' : Inv s -> step strict s (LCheck i) = Some s' -> Inv s'.
Proof.
  intros I H. open_tx H t Et. destruct (_ && _) eqn:E; [|discriminate]. split_andb. live_pc.
  pose proof (i_tx _ I _ _ Et) as O. rewrite (keys_norem _ (proj1 (o_norem _ _ _ O))) in H.
  destruct (flip_batch_ok s i t O H0 H1) as [Hb Hnd].
  set (batch := tag WFlip (map flip (t_claimed t)) ++ tag WTouch (map touch (t_marked t))) in *.
  assert (OK' : forall s1, slocks s1 = slocks s \/ slocks s1 = acquire (slocks s) i (upd_lids t) ->
                 (slocks s1 = acquire (slocks s) i (upd_lids t) -> free_or_own (slocks s) i (upd_lids t) = true) ->
                 sreg s1 = sreg s -> txn_ok s1 i (with_pend t PFlipping batch)).
  { intros s1 Hlk Hfo Hr.
    constructor; cbn [with_pend t_crashed t_rem t_marked t_pc t_pend t_claimed t_plog t_upd]; unfold upd_lids; cbn [t_upd]; try discriminate.
    - exact (o_norem _ _ _ O).
    - exact (o_nd _ _ _ O).
    - intros _ _ l Hl. destruct Hlk as [Hlk|Hlk]; rewrite Hlk.
      + apply (o_lock _ _ _ O H0); [rewrite H1; reflexivity|exact Hl].
      + apply own_after_acquire; [exact (Hfo Hlk)|exact Hl].
    - intros _ k h Hin. destruct (Hb k h Hin) as (-> & Hl & h0 & Hlk' & Hv). split; [reflexivity|]. split; [exact Hl|].
      exists h0. rewrite Hr. split; [exact Hlk'|exact Hv].
    - intros _. exact Hnd.
    - intros _ _ c Hin. rewrite Hr. apply (o_pres _ _ _ O H0); [rewrite H1; reflexivity|exact Hin].
    - exact (o_plog _ _ _ O).
    - intros [X|X]; discriminate. }
  destruct (all_own (slocks s) i (upd_lids t)) eqn:Ea.
  - inversion H; subst s'.
    eapply inv_assemble with (t := t); try reflexivity; try eassumption.
    + intros j tj _ _. apply stable_refl; reflexivity.
    + apply OK'; [left; reflexivity|intros _; apply all_own_free; exact Ea|reflexivity].
    + exact (i_hist _ I).
    + exact (i_hok _ I).
  - destruct (free_or_own (slocks s) i (upd_lids t)) eqn:Ef.
    + inversion H; subst s'.
      eapply inv_assemble with (t := t); try reflexivity; try eassumption.
      * intros j tj _ Hj. apply stable_acquire; assumption.
      * apply OK'; [right; reflexivity|intros _; reflexivity|reflexivity].
      * exact (i_hist _ I).
      * exact (i_hok _ I).
    + inversion H; subst s'. apply start_rollback_inv; try assumption; rewrite H1; [reflexivity|discriminate].
Qed.

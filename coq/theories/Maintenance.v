(* Maintenance.v — executable model of SOP's crash-recovery maintenance (property C09).

   Transcribed from:
     common/twophasecommittransaction.go   Begin (the only caller of onIdle)
     common/twophasecommittransaction2.go  onIdle, processPriorityRollbackOnRestart,
                                           processScheduledPriorityRollback, processExpiredLogs
     common/transactionlogger.go           doPriorityRollbacks, processExpiredTransactionLogs, rollback
     common/noderepository.backend.go      rollbackNewRootNodes, rollbackAddedNodes, rollbackRemovedNodes,
                                           removeNodes, commitUpdatedNodes (allocation branch)
     fs/transactionlog.go                  GetOne, GetOneOfHour, getOne (hour-bucket age filter, AgeLimit)
     fs/transactionprioritylog.go          GetBatch (hour-bucket age filter, priorityLogMinAgeInMin)
     handle.go                             AllocateID, IsExpiredInactive, ClearInactiveID
   Definitions only (no lemmas).  Time is a logical clock in milliseconds (sop.Now / file mtimes). *)
From Coq Require Import List ZArith NArith Bool.
From SopVerif Require Import Gen.Consts Gen.MaintConsts.
Import ListNotations.
Local Open Scope Z_scope.

(* ---------------------------------------------------------------- durable state *)

Definition ref := (N * N)%type.                       (* (store, id) *)
Definition ref_eqb (a b : ref) : bool := N.eqb (fst a) (fst b) && N.eqb (snd a) (snd b).
Definition ref_in (r : ref) (l : list ref) : bool := existsb (ref_eqb r) l.

Record mhandle := mkMH { h_store : N; h_lid : N; h_a : N; h_b : N; h_activeB : bool; h_ver : Z; h_wip : Z; h_del : bool }.
Definition h_ref (h : mhandle) : ref := (h_store h, h_lid h).
Definition h_active (h : mhandle) : N := if h_activeB h then h_b h else h_a h.
Definition h_inactive (h : mhandle) : N := if h_activeB h then h_a h else h_b h.

(* one line of translogs/<tid>.log: commit function, whether a payload was logged, decoded payload *)
Record entry := mkEntry { e_step : Z; e_has : bool; e_name : N; e_vids : list ref; e_bids : list ref; e_tv : list ref; e_deltas : list (N * Z) }.
Record tlogf := mkTLog { tl_tid : N; tl_mtime : Z; tl_entries : list entry }.
Record plogf := mkPLog { pl_tid : N; pl_mtime : Z; pl_handles : list mhandle }.
Record storeS := mkStoreS { st_id : N; st_count : Z; st_inlist : bool; st_info : bool; st_folder : bool }.
Record disk := mkDisk { d_reg : list mhandle; d_blobs : list ref; d_stores : list storeS; d_tlogs : list tlogf; d_plogs : list plogf }.

(* the maintenance scheduling globals of package common (process-global variables) *)
Record maint := mkMaint {
  m_lastPrio : Z;         (* lastPriorityOnIdleTime *)
  m_lastIdle : Z;         (* lastOnIdleRunTime *)
  m_hour : option Z;      (* hourBeingProcessed: None = "", Some h = hour bucket (hours since epoch) *)
  m_found : bool;         (* priorityLogFound *)
  m_startup : bool;       (* onStartUpFlag *)
  m_hbp : bool }.         (* the "HBP" hour lock is held under a key no later transaction owns (see GetOne) *)

Definition fresh_maint : maint := mkMaint 0 0 None false true false.

(* ---------------------------------------------------------------- storage operations *)

Definition reg_get (d : disk) (r : ref) : option mhandle := find (fun h => ref_eqb (h_ref h) r) (d_reg d).
Definition set_reg (d : disk) (l : list mhandle) : disk := mkDisk l (d_blobs d) (d_stores d) (d_tlogs d) (d_plogs d).
Definition set_blobs (d : disk) (l : list ref) : disk := mkDisk (d_reg d) l (d_stores d) (d_tlogs d) (d_plogs d).
Definition set_stores (d : disk) (l : list storeS) : disk := mkDisk (d_reg d) (d_blobs d) l (d_tlogs d) (d_plogs d).
Definition set_tlogs (d : disk) (l : list tlogf) : disk := mkDisk (d_reg d) (d_blobs d) (d_stores d) l (d_plogs d).
Definition set_plogs (d : disk) (l : list plogf) : disk := mkDisk (d_reg d) (d_blobs d) (d_stores d) (d_tlogs d) l.

(* Registry.Update / UpdateNoLocks of one handle: overwrite the slot of an existing logical id *)
Definition reg_put1 (l : list mhandle) (h : mhandle) : list mhandle :=
  map (fun x => if ref_eqb (h_ref x) (h_ref h) then h else x) l.
Definition reg_put (d : disk) (hs : list mhandle) : disk := set_reg d (fold_left reg_put1 hs (d_reg d)).
Definition reg_remove (d : disk) (rs : list ref) : disk := set_reg d (filter (fun h => negb (ref_in (h_ref h) rs)) (d_reg d)).
Definition blob_remove (d : disk) (rs : list ref) : disk := set_blobs d (filter (fun b => negb (ref_in b rs)) (d_blobs d)).
Definition tlog_remove (d : disk) (tid : N) : disk := set_tlogs d (filter (fun t => negb (N.eqb (tl_tid t) tid)) (d_tlogs d)).
Definition plog_remove (d : disk) (tid : N) : disk := set_plogs d (filter (fun p => negb (N.eqb (pl_tid p) tid)) (d_plogs d)).

(* StoreRepository.Remove: store list entry, folder (registry, blobs, storeinfo) *)
Definition sr_remove (d : disk) (s : N) : disk :=
  mkDisk (filter (fun h => negb (N.eqb (h_store h) s)) (d_reg d))
         (filter (fun b => negb (N.eqb (fst b) s)) (d_blobs d))
         (filter (fun x => negb (N.eqb (st_id x) s)) (d_stores d))
         (d_tlogs d) (d_plogs d).

(* StoreRepository.Update with count deltas (stores without storeinfo are skipped) *)
Definition sr_update1 (l : list storeS) (sd : N * Z) : list storeS :=
  map (fun x => if N.eqb (st_id x) (fst sd) && st_info x
                then mkStoreS (st_id x) (st_count x + snd sd) (st_inlist x) (st_info x) (st_folder x) else x) l.
Definition sr_update (d : disk) (ds : list (N * Z)) : disk := set_stores d (fold_left sr_update1 ds (d_stores d)).

(* ---------------------------------------------------------------- handle.go *)

Definition hourMs : Z := 3600000.
Definition minMs : Z := 60000.

(* IsExpiredInactive: wip > 0 && wip < now - 1h *)
Definition is_expired_inactive (now : Z) (h : mhandle) : bool :=
  (0 <? h_wip h) && (h_wip h <? now - handleInactiveExpiryHours * hourMs).

Definition a_and_b_in_use (h : mhandle) : bool := negb (N.eqb (h_a h) 0) && negb (N.eqb (h_b h) 0).

(* AllocateID with fresh id [nid] at time [now] *)
Definition allocate_id (now : Z) (nid : N) (h : mhandle) : option mhandle :=
  if a_and_b_in_use h then None
  else Some (if h_activeB h
             then mkMH (h_store h) (h_lid h) nid (h_b h) (h_activeB h) (h_ver h) now (h_del h)
             else mkMH (h_store h) (h_lid h) (h_a h) nid (h_activeB h) (h_ver h) now (h_del h)).

Definition clear_inactive (h : mhandle) : mhandle :=
  if h_activeB h
  then mkMH (h_store h) (h_lid h) 0 (h_b h) (h_activeB h) (h_ver h) 0 (h_del h)
  else mkMH (h_store h) (h_lid h) (h_a h) 0 (h_activeB h) (h_ver h) 0 (h_del h).

(* The per-handle step of commitUpdatedNodes for a writer that read version [rv]:
   None = "return false" (conflict: refetch and retry), Some h' = the handle written back with
   the staged inactive id. *)
Definition stage_update (now : Z) (nid : N) (rv : Z) (h : mhandle) : option mhandle :=
  if (h_del h && negb (is_expired_inactive now h)) || negb (Z.eqb (h_ver h) rv) then None
  else
    let h1 := if h_del h && is_expired_inactive now h
              then mkMH (h_store h) (h_lid h) (h_a h) (h_b h) (h_activeB h) (h_ver h) (h_wip h) false else h in
    match allocate_id now nid h1 with
    | Some h2 => Some h2
    | None => if is_expired_inactive now h1 then allocate_id now nid (clear_inactive h1) else None
    end.

(* ---------------------------------------------------------------- log-driven rollback (transactionLog.rollback) *)

(* rollbackRemovedNodes: clear the deleted mark / wip of the handles that exist *)
Definition undo_removed (d : disk) (vids : list ref) : disk :=
  let hs := flat_map (fun r => match reg_get d r with Some h => [h] | None => [] end) vids in
  let hs' := flat_map (fun h => if h_del h || (0 <? h_wip h)
                                then [mkMH (h_store h) (h_lid h) (h_a h) (h_b h) (h_activeB h) (h_ver h) 0 false] else []) hs in
  reg_put d hs'.

(* rollbackNewRootNodes as executed by a transaction whose logger.committedState is [cs] *)
Definition undo_new_root (cs : Z) (d : disk) (vids bids : list ref) : disk :=
  match vids with
  | [] => d
  | _ =>
    let d1 := blob_remove d bids in
    if cs <=? commitNewRootNodes then d1
    else reg_remove d1 (flat_map (fun r => match reg_get d1 r with Some h => [h_ref h] | None => [] end) vids)
  end.

(* one entry of the reverse walk; result: new disk, and true when rollback returned (log removed) *)
Definition rb_step (cs : Z) (tid : N) (last : Z) (e : entry) (d : disk) : disk * bool :=
  let s := e_step e in
  if Z.eqb s addActivelyPersistedItem then ((if e_has e then blob_remove d (e_bids e) else d), false)
  else if Z.eqb s createStore then ((if e_has e then sr_remove d (e_name e) else d), false)
  else if Z.eqb s finalizeCommit then
    if negb (e_has e) then
      if deleteObsoleteEntries <=? last then (tlog_remove d tid, true) else (d, false)
    else
      let d1 := if Z.eqb last deleteTrackedItemsValues then blob_remove d (e_tv e) else d in
      if deleteObsoleteEntries <=? last
      then (tlog_remove (reg_remove (blob_remove d1 (e_bids e)) (e_vids e)) tid, true)
      else (d1, false)
  else if Z.eqb s commitStoreInfo then ((if (commitStoreInfo <? last) && e_has e then sr_update d (e_deltas e) else d), false)
  else if Z.eqb s commitAddedNodes then
    ((if (commitAddedNodes <? last) && e_has e
      then match e_vids e with [] => d | _ => reg_remove (blob_remove d (e_bids e)) (e_vids e) end else d), false)
  else if Z.eqb s commitRemovedNodes then
    ((if (commitRemovedNodes <? last) && e_has e then undo_removed d (e_vids e) else d), false)
  else if Z.eqb s commitUpdatedNodes then
    ((if (commitUpdatedNodes <=? last) && e_has e then blob_remove d (e_bids e) else d), false)
  else if Z.eqb s commitNewRootNodes then
    ((if (commitNewRootNodes <? last) && e_has e then undo_new_root cs d (e_vids e) (e_bids e) else d), false)
  else if Z.eqb s commitTrackedItemsValues then
    ((if (commitTrackedItemsValues <=? last) && e_has e then blob_remove d (e_tv e) else d), false)
  else (d, false).

Fixpoint rb_walk (cs : Z) (tid : N) (last : Z) (rev_entries : list entry) (d : disk) : disk :=
  match rev_entries with
  | [] => tlog_remove d tid
  | e :: rest =>
      let '(d1, stop) := rb_step cs tid last e d in
      if stop then d1 else rb_walk cs tid last rest d1
  end.

Definition tlog_rollback (cs : Z) (d : disk) (t : tlogf) : disk :=
  match rev (tl_entries t) with
  | [] => tlog_remove d (tl_tid t)
  | e :: _ => rb_walk cs (tl_tid t) (e_step e) (rev (tl_entries t)) d
  end.

(* ---------------------------------------------------------------- age filters (hour buckets) *)

Definition hour_of (t : Z) : Z := t / hourMs.
Definition hour_floor (t : Z) : Z := hour_of t * hourMs.

(* fs/transactionlog.go getOne: cappedHour.Compare(ft) >= 0 *)
Definition tlog_eligible (now mtime : Z) : bool := hour_floor mtime <=? hour_floor now - tlogAgeLimitMin * minMs.
(* fs/transactionprioritylog.go GetBatch *)
Definition plog_eligible (now mtime : Z) : bool := hour_floor mtime <=? hour_floor now - priorityLogMinAgeInMin * minMs.

(* oldest first *)
Fixpoint oldest_tlog (l : list tlogf) : option tlogf :=
  match l with
  | [] => None
  | t :: r => match oldest_tlog r with
              | Some u => if tl_mtime u <? tl_mtime t then Some u else Some t
              | None => Some t
              end
  end.
Definition get_one (now : Z) (d : disk) : option tlogf := oldest_tlog (filter (fun t => tlog_eligible now (tl_mtime t)) (d_tlogs d)).

(* ---------------------------------------------------------------- priority rollback (doPriorityRollbacks) *)

Fixpoint insert_plog (p : plogf) (l : list plogf) : list plogf :=
  match l with
  | [] => [p]
  | q :: r => if pl_mtime q <=? pl_mtime p then q :: insert_plog p r else p :: l
  end.
Definition sort_plogs (l : list plogf) : list plogf := fold_right insert_plog [] l.

Definition get_batch (ignoreAge : bool) (now : Z) (d : disk) : list plogf :=
  firstn 20 (sort_plogs (filter (fun p => ignoreAge || plog_eligible now (pl_mtime p)) (d_plogs d))).

(* version check of one logged handle against the registry: logged.ver = cur.ver or logged.ver+1 = cur.ver *)
Definition ver_repairable (d : disk) (h : mhandle) : bool :=
  match reg_get d (h_ref h) with
  | Some c => Z.eqb (h_ver h) (h_ver c) || Z.eqb (h_ver h + 1) (h_ver c)
  | None => false
  end.

(* one priority log: None = abort the whole sweep with RestoreRegistryFileSectorFailure *)
Definition prio_one (d : disk) (p : plogf) : option disk :=
  if forallb (ver_repairable d) (pl_handles p)
  then Some (plog_remove (reg_put d (pl_handles p)) (pl_tid p))
  else None.

Fixpoint prio_batch (d : disk) (l : list plogf) : disk * bool (* aborted *) :=
  match l with
  | [] => (d, false)
  | p :: r => match prio_one d p with
              | Some d1 => prio_batch d1 r
              | None => (d, true)
              end
  end.

(* result: disk, "found" as returned to the caller *)
Fixpoint prio_sweep (fuel : nat) (ignoreAge : bool) (now : Z) (d : disk) (consumed : bool) : disk * bool :=
  match fuel with
  | O => (d, consumed)
  | S f =>
    match get_batch ignoreAge now d with
    | [] => (d, consumed)
    | b => let '(d1, aborted) := prio_batch d b in
           if aborted then (d1, false)
           else if ignoreAge then prio_sweep f ignoreAge now d1 true else (d1, true)
    end
  end.

Definition do_priority_rollbacks (ignoreAge : bool) (now : Z) (d : disk) : disk * bool :=
  prio_sweep (S (length (d_plogs d))) ignoreAge now d false.

(* ---------------------------------------------------------------- the four routines of onIdle *)

Definition set_m (m : maint) (lp li : Z) (h : option Z) (f s b : bool) : maint := mkMaint lp li h f s b.

(* processPriorityRollbackOnRestart (standalone: in-memory L2 cache) *)
Definition proc_restart (now : Z) (st : disk * maint) : disk * maint :=
  let '(d, m) := st in
  if m_startup m
  then let '(d1, _) := do_priority_rollbacks true now d in
       (d1, mkMaint now (m_lastIdle m) (m_hour m) false false (m_hbp m))
  else st.

(* processScheduledPriorityRollback *)
Definition proc_scheduled (now : Z) (st : disk * maint) : disk * maint :=
  let '(d, m) := st in
  let interval := if m_found m then priorityRollbackQuickCheckIntervalSeconds else priorityRollbackCheckIntervalSeconds in
  if m_lastPrio m <? now - interval * 1000
  then let '(d1, found) := do_priority_rollbacks false now d in
       (d1, mkMaint now (m_lastIdle m) (m_hour m) found (m_startup m) (m_hbp m))
  else st.

(* transactionLog.processExpiredTransactionLogs (+ GetOne / GetOneOfHour) for a maintenance
   transaction whose logger.committedState is [cs] *)
Definition proc_expired_logs (cs : Z) (now : Z) (st : disk * maint) : disk * maint :=
  let '(d, m) := st in
  match m_hour m with
  | None =>
      if m_hbp m then st                                   (* Lock("HBP") fails: NilUUID, "" *)
      else match get_one now d with
           | None => st
           | Some t => (tlog_rollback cs d t,
                        mkMaint (m_lastPrio m) (m_lastIdle m) (Some (hour_of (tl_mtime t))) (m_found m) (m_startup m) true)
           end
  | Some h =>
      if 4 <? hour_of now - h
      then (d, mkMaint (m_lastPrio m) (m_lastIdle m) None (m_found m) (m_startup m) (m_hbp m))
      else match get_one now d with
           | None => (d, mkMaint (m_lastPrio m) (m_lastIdle m) None (m_found m) (m_startup m) (m_hbp m))
           | Some t => (tlog_rollback cs d t, m)
           end
  end.

(* processExpiredLogs *)
Definition proc_expired (cs : Z) (now : Z) (st : disk * maint) : disk * maint :=
  let '(d, m) := st in
  let interval := match m_hour m with Some _ => cleanupQuickCheckIntervalMinutes | None => cleanupCheckIntervalMinutes end in
  if m_lastIdle m <? now - interval * minMs
  then proc_expired_logs cs now (d, mkMaint (m_lastPrio m) now (m_hour m) (m_found m) (m_startup m) (m_hbp m))
  else st.

(* the body of onIdle behind its guard *)
Definition maintenance (cs : Z) (now : Z) (st : disk * maint) : disk * maint :=
  proc_expired cs now (proc_scheduled now (proc_restart now st)).

(* onIdle EXACTLY as written: `if len(t.btreesBackend) == 0 { return }` first *)
Definition on_idle (nbtrees : nat) (cs : Z) (now : Z) (st : disk * maint) : disk * maint :=
  match nbtrees with
  | O => st
  | S _ => maintenance cs now st
  end.

(* Transaction.Begin: phaseDone := 0; onIdle.  A transaction that has just begun has opened no
   B-tree yet (OpenBtree/NewBtree require HasBegun), so the store list is empty. *)
Definition begin_txn (now : Z) (st : disk * maint) : disk * maint := on_idle 0 0 now st.

(* a sequence of maintenance entries behind the guard at the given instants *)
Fixpoint maintenance_seq (cs : Z) (nows : list Z) (st : disk * maint) : disk * maint :=
  match nows with
  | [] => st
  | t :: r => maintenance_seq cs r (maintenance cs t st)
  end.

(* a sequence of public-path transactions: each is Begin followed by a body that only touches
   its own log files (frame), modelled by an arbitrary function applied after begin_txn *)
Fixpoint public_seq (bodies : list (Z * (disk -> disk))) (st : disk * maint) : disk * maint :=
  match bodies with
  | [] => st
  | (now, body) :: r =>
      let '(d, m) := begin_txn now st in
      public_seq r (body d, m)
  end.

(* ---------------------------------------------------------------- observations *)

Definition has_tlog (d : disk) (tid : N) : bool := existsb (fun t => N.eqb (tl_tid t) tid) (d_tlogs d).
Definition has_plog (d : disk) (tid : N) : bool := existsb (fun p => N.eqb (pl_tid p) tid) (d_plogs d).
(* a registry handle whose active blob is missing: the store cannot be read *)
Definition dangling (d : disk) (h : mhandle) : bool := negb (h_del h) && negb (ref_in (h_store h, h_active h) (d_blobs d)).
Definition dangling_handles (d : disk) : list mhandle := filter (dangling d) (d_reg d).

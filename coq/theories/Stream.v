(* C31 — model of /repo/streamingdata (reader.go, writer.go, encoder.go,
   streamingdatastore.go) over an abstract ordered collection with a cursor.
   DEFINITIONS ONLY (lemmas live in StreamProofs.v).

   The reader modelled as [read true] is the REPAIRED reader
   (fixes/C31-reader-advance-chunk.patch: chunkIndex is advanced when the
   buffered remainder of a chunk is drained); [read false] is the reader as it
   is in the unchanged repository (kept to document the defect).

   B-tree abstraction (assumption A1, see design/C31.md): the store is a set of
   (key, value) items with unique keys ordered by StreamingDataKey.Compare
   (Key, then ChunkIndex) and ONE cursor that is either unset or designates a
   key. Find on a hit selects the item; Next moves to the least key greater
   than the selected one (unset at the end); GetCurrentKey of an unset cursor
   is the zero item (zero TK, chunk 0). Where the real cursor depends on the
   shape of the tree (after a Find miss: "nearest" item of the last node
   visited; after a successful Add: the old slot reference, which may now hold
   another item) the model asks an ORACLE [orc tick items key]; every theorem
   quantifies over all oracles, i.e. holds whatever the cursor does there. *)
From Coq Require Import List ZArith NArith Bool.
Import ListNotations.

Definition sdk := (N * Z)%type.          (* StreamingDataKey{Key, ChunkIndex} *)
Definition chunk := list N.              (* []byte *)
Definition items := list (sdk * chunk).  (* association list, first match wins *)
Definition kzero : N := 0%N.             (* zero value of TK *)

Definition sdk_eqb (a b : sdk) : bool := N.eqb (fst a) (fst b) && Z.eqb (snd a) (snd b).
(* StreamingDataKey.Compare(a,b) < 0 *)
Definition sdk_ltb (a b : sdk) : bool :=
  N.ltb (fst a) (fst b) || (N.eqb (fst a) (fst b) && Z.ltb (snd a) (snd b)).

Fixpoint lookup (s : items) (k : sdk) : option chunk :=
  match s with
  | [] => None
  | (k', v) :: t => if sdk_eqb k' k then Some v else lookup t k
  end.

Definition mem (s : items) (k : sdk) : bool :=
  match lookup s k with Some _ => true | None => false end.

(* least key strictly greater than c (in-order successor) *)
Fixpoint succ_key (s : items) (c : sdk) : option sdk :=
  match s with
  | [] => None
  | (k, _) :: t =>
      let r := succ_key t c in
      if sdk_ltb c k then
        match r with
        | Some k' => if sdk_ltb k' k then Some k' else Some k
        | None => Some k
        end
      else r
  end.

Definition set_val (s : items) (k : sdk) (v : chunk) : items :=
  map (fun e => if sdk_eqb (fst e) k then (fst e, v) else e) s.

Definition remove_key (s : items) (k : sdk) : items :=
  filter (fun e => negb (sdk_eqb (fst e) k)) s.

(* ------------------------------------------------------------------ *)
(* B-tree with cursor                                                  *)

Record bt := mkBt { bitems : items; bcur : option sdk; btick : nat }.

Definition oracle := nat -> items -> sdk -> option sdk.

Section Model.
Variable orc : oracle.

(* Btree.Find(key,false): empty store leaves the cursor alone; a hit selects
   the item; a miss leaves the cursor somewhere tree-shape dependent. *)
Definition bt_find (b : bt) (k : sdk) : bool * bt :=
  match bitems b with
  | [] => (false, b)
  | _ :: _ =>
      if mem (bitems b) k then (true, mkBt (bitems b) (Some k) (btick b))
      else (false, mkBt (bitems b) (orc (btick b) (bitems b) k) (S (btick b)))
  end.

(* Btree.Next *)
Definition bt_next (b : bt) : bool * bt :=
  match bcur b with
  | None => (false, b)
  | Some c =>
      match succ_key (bitems b) c with
      | Some n => (true, mkBt (bitems b) (Some n) (btick b))
      | None => (false, mkBt (bitems b) None (btick b))
      end
  end.

(* Btree.GetCurrentKey().Key : zero item when nothing is selected *)
Definition bt_curkey (b : bt) : sdk :=
  match bcur b with Some c => c | None => (kzero, 0%Z) end.

(* Btree.GetCurrentValue : zero value (nil) when nothing is selected *)
Definition bt_curval (b : bt) : chunk :=
  match bcur b with
  | Some c => match lookup (bitems b) c with Some v => v | None => [] end
  | None => []
  end.

(* Btree.Add on a unique store: a duplicate is refused and selected *)
Definition bt_add (b : bt) (k : sdk) (v : chunk) : bool * bt :=
  if mem (bitems b) k then (false, mkBt (bitems b) (Some k) (btick b))
  else (true, mkBt ((k, v) :: bitems b) (orc (btick b) (bitems b) k) (S (btick b))).

(* Btree.UpdateCurrentValue *)
Definition bt_update_cur (b : bt) (v : chunk) : bool * bt :=
  match bcur b with
  | Some c => if mem (bitems b) c then (true, mkBt (set_val (bitems b) c v) (Some c) (btick b)) else (false, b)
  | None => (false, b)
  end.

(* Btree.RemoveCurrentItem : the cursor is unset afterwards *)
Definition bt_remove_cur (b : bt) : bool * bt :=
  match bcur b with
  | Some c => if mem (bitems b) c then (true, mkBt (remove_key (bitems b) c) None (btick b)) else (false, b)
  | None => (false, b)
  end.

(* Btree.Remove(key) = Find + RemoveCurrentItem *)
Definition bt_remove (b : bt) (k : sdk) : bool * bt :=
  let '(ok, b1) := bt_find b k in
  if ok then bt_remove_cur b1 else (false, b1).

(* ------------------------------------------------------------------ *)
(* the "current key + 1 == wanted ? Next : Find" positioning step that
   reader.Read and writer.Write (update mode) both contain verbatim *)
Definition seek (b : bt) (k : N) (i : Z) : bool * bt :=
  let ck := bt_curkey b in
  if sdk_eqb (fst ck, (snd ck + 1)%Z) (k, i) then
    let '(found, b1) := bt_next b in
    if found && negb (sdk_eqb (bt_curkey b1) (k, i)) then (false, b1) else (found, b1)
  else bt_find b (k, i).

(* ------------------------------------------------------------------ *)
(* reader.go                                                           *)

Record reader := mkReader { rkey : N; ridx : Z; rchunk : option chunk; rcount : nat }.

Definition new_reader (k : N) (i : Z) : reader := mkReader k i None 0.

(* Read(p) with len(p) = p. Result: (bytes copied into p, io.EOF?).
   fixed = true : repaired reader; fixed = false : reader of the unchanged repository. *)
Definition read (fixed : bool) (b : bt) (r : reader) (p : nat) : (chunk * bool) * bt * reader :=
  match rchunk r with
  | Some ch =>
      let d := firstn p (skipn (rcount r) ch) in
      let c := length d in
      if Nat.leb (length ch) (c + rcount r)
      then ((d, false), b, mkReader (rkey r) (if fixed then (ridx r + 1)%Z else ridx r) None 0)
      else ((d, false), b, mkReader (rkey r) (ridx r) (Some ch) (rcount r + c))
  | None =>
      let '(found, b1) := seek b (rkey r) (ridx r) in
      if negb found then (([], true), b1, r)
      else
        let ba := bt_curval b1 in
        let d := firstn p ba in
        if Nat.ltb (length d) (length ba)
        then ((d, false), b1, mkReader (rkey r) (ridx r) (Some ba) (length d))
        else ((d, false), b1, mkReader (rkey r) (ridx r + 1)%Z None 0)
  end.

(* successive Reads with the given buffer sizes *)
Fixpoint reads (fixed : bool) (b : bt) (r : reader) (sizes : list nat) : list (chunk * bool) :=
  match sizes with
  | [] => []
  | p :: t => let '(res, b1, r1) := read fixed b r p in res :: reads fixed b1 r1 t
  end.

(* ------------------------------------------------------------------ *)
(* writer.go                                                           *)

Record writer := mkWriter { wkey : N; widx : Z; wadd : bool }.
Definition bump (w : writer) : writer := mkWriter (wkey w) (widx w + 1)%Z (wadd w).

(* Write(p): (no error?, store, writer) *)
Definition write (b : bt) (w : writer) (p : chunk) : bool * bt * writer :=
  if wadd w then
    let '(ok, b1) := bt_add b (wkey w, widx w) p in
    if ok then (true, b1, bump w) else (false, b1, w)
  else
    let '(found, b1) := seek b (wkey w) (widx w) in
    if found then
      let '(ok, b2) := bt_update_cur b1 p in
      if ok then (true, b2, bump w) else (false, b2, w)
    else
      let '(ok, b2) := bt_add b1 (wkey w, widx w) p in
      if ok then (true, b2, bump w) else (false, b2, w).

(* json.Encoder.Encode = one Write per value; stops at the first error *)
Fixpoint write_all (b : bt) (w : writer) (cs : list chunk) : bool * bt * writer :=
  match cs with
  | [] => (true, b, w)
  | c :: t =>
      let '(ok, b1, w1) := write b w c in
      if ok then write_all b1 w1 t else (false, b1, w1)
  end.

(* encoder.go Close: in update mode delete the chunks from chunkIndex on.
   The Go loop has no bound; fuel exhaustion is reported as an error so that
   no theorem can hold because of it. *)
Fixpoint close_loop (fuel : nat) (b : bt) (w : writer) : bool * bt * writer :=
  match fuel with
  | O => (false, b, w)
  | S f =>
      let '(found, b1) := bt_find b (wkey w, widx w) in
      if negb found then (true, b1, w)
      else
        let '(ok, b2) := bt_remove_cur b1 in
        if ok then close_loop f b2 (bump w) else (false, b2, w)
  end.

Definition enc_close (b : bt) (w : writer) : bool * bt * writer :=
  if wadd w then (true, b, w) else close_loop (S (length (bitems b))) b w.

(* ------------------------------------------------------------------ *)
(* streamingdatastore.go                                               *)

Inductive status := StOk | StNotFound | StErr.

Definition sd_find_one (b : bt) (k : N) : bool * bt := bt_find b (k, 0%Z).

(* Add(key) then Encode each value then Close *)
Definition sd_add (b : bt) (k : N) (cs : list chunk) : status * bt :=
  let '(ok, b1, w1) := write_all b (mkWriter k 0%Z true) cs in
  if ok then
    let '(ok2, b2, _) := enc_close b1 w1 in ((if ok2 then StOk else StErr), b2)
  else (StErr, b1).

(* UpdateCurrentValue: writer in update mode on the key under the cursor *)
Definition sd_update_current (b : bt) (cs : list chunk) : status * bt :=
  match bitems b with
  | [] => (StErr, b)
  | _ :: _ =>
      let '(ok, b1, w1) := write_all b (mkWriter (fst (bt_curkey b)) 0%Z false) cs in
      if ok then
        let '(ok2, b2, _) := enc_close b1 w1 in ((if ok2 then StOk else StErr), b2)
      else (StErr, b1)
  end.

(* Update(key) then Encode each value then Close *)
Definition sd_update (b : bt) (k : N) (cs : list chunk) : status * bt :=
  let '(found, b1) := sd_find_one b k in
  if found then sd_update_current b1 cs else (StNotFound, b1).

Definition sd_upsert (b : bt) (k : N) (cs : list chunk) : status * bt :=
  let '(found, b1) := sd_find_one b k in
  if found then sd_update b1 k cs else sd_add b1 k cs.

(* RemoveCurrentItem: collect (key, chunk index) of the cursor and of every
   following item with the same Key, then Remove each *)
Fixpoint collect (fuel : nat) (b : bt) (key : N) (acc : list sdk) : bool * list sdk * bt :=
  match fuel with
  | O => (false, acc, b)
  | S f =>
      let acc' := acc ++ [(key, snd (bt_curkey b))] in
      let '(ok, b1) := bt_next b in
      if negb ok || negb (N.eqb (fst (bt_curkey b1)) key) then (true, acc', b1)
      else collect f b1 key acc'
  end.

Fixpoint remove_keys (b : bt) (ks : list sdk) (succeeded : bool) : bool * bt :=
  match ks with
  | [] => (succeeded, b)
  | k :: t => let '(ok, b1) := bt_remove b k in remove_keys b1 t (succeeded && ok)
  end.

Definition sd_remove_current (b : bt) : status * bt :=
  match bitems b with
  | [] => (StErr, b)
  | _ :: _ =>
      let '(fuel_ok, ks, b1) := collect (S (length (bitems b))) b (fst (bt_curkey b)) [] in
      if fuel_ok then
        let '(ok, b2) := remove_keys b1 ks true in ((if ok then StOk else StNotFound), b2)
      else (StErr, b1)
  end.

Definition sd_remove (b : bt) (k : N) : status * bt :=
  let '(found, b1) := sd_find_one b k in
  if found then sd_remove_current b1 else (StNotFound, b1).

(* GetCurrentValue: a reader on the item under the cursor *)
Definition sd_reader (b : bt) : reader :=
  let ck := bt_curkey b in new_reader (fst ck) (snd ck).

End Model.

(* ------------------------------------------------------------------ *)
(* specification vocabulary (computable)                               *)

(* chunk i of a chunk list, None outside 0..len-1 *)
Definition nthZ (cs : list chunk) (i : Z) : option chunk :=
  if (i <? 0)%Z then None else nth_error cs (Z.to_nat i).

(* sorted dump of a store, for comparison with the implementation *)
Fixpoint ins_sorted (e : sdk * chunk) (l : items) : items :=
  match l with
  | [] => [e]
  | x :: t => if sdk_ltb (fst e) (fst x) then e :: x :: t else x :: ins_sorted e t
  end.
Definition sort_items (s : items) : items := fold_right ins_sorted [] s.

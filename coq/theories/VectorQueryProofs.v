(* C33 — query results and the live set, on states related to the reference semantics by Inv. *)
From Coq Require Import List ZArith NArith Bool Lia Permutation Sorting.Sorted.
From SopVerif Require Import Vector VectorProofs VectorRefineProofs.
Import ListNotations.
Local Open Scope Z_scope.

Lemma NoDup_app_intro : forall (A : Type) (l1 l2 : list A),
  NoDup l1 -> NoDup l2 -> (forall x, In x l1 -> ~ In x l2) -> NoDup (l1 ++ l2).
Proof.
  induction l1 as [|a l1 IH]; intros l2 H1 H2 Hd; cbn [app]; [exact H2|].
  inversion H1 as [|? ? Hn Hd1]; subst. constructor.
  - intros Hin. apply in_app_or in Hin. destruct Hin as [Hin|Hin]; [contradiction|].
    apply (Hd a (or_introl eq_refl)), Hin.
  - apply IH; [exact Hd1|exact H2|]. intros x Hx. apply Hd. right; exact Hx.
Qed.

Definition bucket (s : st) (sim : vec -> Z) (c : Z) : list (N * Z) :=
  map (fun e => (ve_id e, sim (ve_vec e))) (filter (fun e => (ve_cid e =? c) && negb (ve_del e)) (vectors s)).

Lemma candidates_index : forall s probes sim,
  candidates false s probes sim = flat_map (bucket s sim) probes.
Proof. reflexivity. Qed.

Lemma bucket_in : forall s sim c h, In h (bucket s sim c) ->
  exists e, In e (vectors s) /\ ve_cid e = c /\ ve_del e = false /\ h = (ve_id e, sim (ve_vec e)).
Proof.
  intros s sim c h H. unfold bucket in H. apply in_map_iff in H. destruct H as [e [He Hin]].
  apply filter_In in Hin. destruct Hin as [Hin Hf]. apply andb_true_iff in Hf. destruct Hf as [Hc Hd].
  apply Z.eqb_eq in Hc. apply negb_true_iff in Hd. exists e. auto.
Qed.

Lemma bucket_ids : forall s sim c, map fst (bucket s sim c) =
  map ve_id (filter (fun e => (ve_cid e =? c) && negb (ve_del e)) (vectors s)).
Proof. intros. unfold bucket. rewrite map_map. reflexivity. Qed.

Lemma candidates_in : forall s probes sim h, In h (candidates false s probes sim) ->
  exists e, In e (vectors s) /\ In (ve_cid e) probes /\ ve_del e = false /\ h = (ve_id e, sim (ve_vec e)).
Proof.
  intros s probes sim h H. rewrite candidates_index in H. apply in_flat_map in H.
  destruct H as [c [Hc Hb]]. destruct (bucket_in _ _ _ _ Hb) as [e [H1 [H2 [H3 H4]]]].
  exists e. subst c. auto.
Qed.

Lemma candidates_nodup : forall s probes sim,
  NoDup probes -> NoDup (map ve_id (vectors s)) -> NoDup (map fst (candidates false s probes sim)).
Proof.
  intros s probes sim Hp Hv. rewrite candidates_index.
  induction probes as [|c ps IH]; cbn [flat_map map]; [constructor|].
  inversion Hp as [|? ? Hn Hp']; subst. rewrite map_app. apply NoDup_app_intro.
  - rewrite bucket_ids. apply NoDup_map_filter, Hv.
  - apply IH, Hp'.
  - intros id H1 H2. apply in_map_iff in H1. destruct H1 as [h1 [Hid1 Hh1]].
    apply in_map_iff in H2. destruct H2 as [h2 [Hid2 Hh2]].
    destruct (bucket_in _ _ _ _ Hh1) as [e1 [He1 [Hc1 [_ ->]]]].
    apply in_flat_map in Hh2. destruct Hh2 as [c' [Hc' Hb2]].
    destruct (bucket_in _ _ _ _ Hb2) as [e2 [He2 [Hc2 [_ ->]]]].
    cbn [fst] in Hid1, Hid2. assert (e1 = e2) by (eapply NoDup_map_inj; eauto; congruence).
    subst e2. apply Hn. congruence.
Qed.

Section Query.
Variables (s : st) (r : rstate).
Hypothesis I : Inv s r.
Variables (probes : list Z) (sim : vec -> Z) (k : Z) (flt : N -> bool).
Hypothesis probes_nodup : NoDup probes.

Lemma ranked_in : forall id sc, In (id, sc) (ranked false s probes sim flt) ->
  exists v p, rfind r id = Some (v, p) /\ flt p = true /\ sc = sim v.
Proof.
  intros id sc H. unfold ranked in H. apply filter_In in H. destruct H as [Hin Hp].
  apply (Permutation_in _ (sort_desc_perm _)) in Hin.
  destruct (candidates_in _ _ _ _ Hin) as [e [He [_ [Hd Hh]]]]. inversion Hh; subst id sc.
  unfold passes in Hp. cbn [fst] in Hp.
  destruct (inv_v s r I e He) as [k0 [p [Hc [_ [Hdel Hl]]]]]. rewrite Hc in Hp.
  apply andb_true_iff in Hp. destruct Hp as [Hnd Hf]. apply negb_true_iff in Hnd.
  exists (ve_vec e), p. split; [apply Hl, Hnd|]. split; [exact Hf|reflexivity].
Qed.

Lemma ranked_nodup : NoDup (map fst (ranked false s probes sim flt)).
Proof.
  unfold ranked. apply NoDup_map_filter.
  eapply Permutation_NoDup; [apply Permutation_map, Permutation_sym, sort_desc_perm|].
  apply candidates_nodup; [exact probes_nodup|apply (inv_vnodup s r I)].
Qed.

Lemma ranked_desc : desc (ranked false s probes sim flt).
Proof. unfold ranked. apply StronglySorted_filter, sort_desc_sorted. Qed.

Theorem query_sound :
  let R := query false s probes sim k flt in
  (length R <= Z.to_nat k)%nat
  /\ NoDup (map fst R)
  /\ (forall id sc, In (id, sc) R -> exists v p, rfind r id = Some (v, p) /\ flt p = true /\ sc = sim v)
  /\ desc R.
Proof.
  cbv zeta. split; [apply query_length|]. unfold query. split; [|split].
  - rewrite <- firstn_map. apply NoDup_firstn, ranked_nodup.
  - intros id sc H. apply In_firstn in H. apply ranked_in, H.
  - apply desc_firstn, ranked_desc.
Qed.

(* nothing better was skipped: every surviving candidate left out scores no higher than every hit *)
Theorem query_best : forall h h', In h (query false s probes sim k flt) ->
  In h' (ranked false s probes sim flt) -> ~ In h' (query false s probes sim k flt) -> snd h' <= snd h.
Proof.
  intros h h' Hh Hh' Hn. unfold query in *.
  pose proof ranked_desc as Hd. remember (ranked false s probes sim flt) as F eqn:HF. clear HF.
  remember (Z.to_nat k) as n eqn:Hn'. clear Hn'.
  revert n Hh Hn. induction F as [|a F IH]; intros n Hh Hn; [destruct n; destruct Hh|].
  destruct n as [|n]; [destruct Hh|]. cbn [firstn] in *.
  inversion Hd as [|? ? Hd' Hall]; subst. rewrite Forall_forall in Hall.
  destruct Hh' as [->|Hh']; [exfalso; apply Hn; left; reflexivity|].
  destruct Hh as [->|Hh]; [apply Hall, Hh'|].
  apply (IH Hh' Hd' n Hh). intros H. apply Hn. right; exact H.
Qed.
End Query.

(* ------------------------------------------------------------------ the live set *)
Lemma live_ids_in : forall s r id, Inv s r ->
  (In id (live_ids s) <-> exists v p, rfind r id = Some (v, p)).
Proof.
  intros s r id I. unfold live_ids. rewrite in_map_iff. split.
  - intros [[i [k p]] [Hi Hin]]. cbn [fst] in Hi. subst i. apply filter_In in Hin.
    destruct Hin as [Hin Hd]. cbn [fst snd] in Hd. apply negb_true_iff in Hd.
    apply (csorted_cfind_in _ _ _ (inv_csorted s r I)) in Hin.
    destruct (inv_c s r I id k p Hin) as [_ [_ [_ [_ [e [He [Hid Hkey]]]]]]].
    destruct (inv_v s r I e He) as [k' [p' [Hc' [_ [_ Hl]]]]]. rewrite Hid, Hin in Hc'.
    inversion Hc'; subst k' p'. exists (ve_vec e), p. rewrite <- Hid. apply Hl, Hd.
  - intros [v [p Hr]]. destruct (cfind (content s) id) as [[k q]|] eqn:Hc.
    + destruct (ck_del k) eqn:Hd.
      * destruct (inv_c s r I id k q Hc) as [_ [_ [_ [Hdel _]]]]. rewrite (Hdel Hd) in Hr. discriminate.
      * exists (id, (k, q)). split; [reflexivity|]. apply filter_In. split.
        -- apply (csorted_cfind_in _ _ _ (inv_csorted s r I)), Hc.
        -- cbn [fst snd]. rewrite Hd. reflexivity.
    + rewrite (inv_n s r I id Hc) in Hr. discriminate.
Qed.

Lemma live_ids_nodup : forall s r, Inv s r -> NoDup (live_ids s).
Proof.
  intros s r I. unfold live_ids. apply NoDup_map_filter, csorted_nodup, (inv_csorted s r I).
Qed.

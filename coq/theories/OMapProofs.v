(* Proofs about the specification layer OMap: invariants of every accepted run,
   scans, counts, rejection of key-changing updates, find positions, ranges. *)
From Coq Require Import List ZArith NArith Bool Lia Arith.
From Coq Require Import ZifyBool ZifyNat ZifyN.
From SopVerif Require Import OMap.
Import ListNotations.
Local Open Scope Z_scope.

(* ------------------------------------------------------------------ sortedness *)
Fixpoint sorted (l : list item) : Prop :=
  match l with
  | [] => True
  | x :: r => (forall y, In y r -> ikey x <= ikey y) /\ sorted r
  end.

Lemma sortedb_sorted : forall l, sortedb l = true <-> sorted l.
Proof.
  induction l as [|x r IH]; [cbn; tauto|].
  destruct r as [|y r'].
  - cbn. split; auto. intros _. split; [intros ? []|exact I].
  - change (sortedb (x :: y :: r')) with ((ikey x <=? ikey y) && sortedb (y :: r')).
    rewrite andb_true_iff, IH. split.
    + intros [Hxy Hs]. split; [|exact Hs].
      intros z [<-|Hz]; [lia|]. destruct Hs as [Hy _]. specialize (Hy z Hz). lia.
    + intros [Hx Hs]. split; [|exact Hs]. specialize (Hx y (or_introl eq_refl)). lia.
Qed.

Lemma sorted_app : forall a b, sorted (a ++ b) <->
  sorted a /\ sorted b /\ (forall x y, In x a -> In y b -> ikey x <= ikey y).
Proof.
  induction a as [|x a IH]; intros b; cbn.
  - split; [intros H; repeat split; auto; intros ? ? []|tauto].
  - rewrite IH. split.
    + intros [Hx [Ha [Hb Hab]]]. repeat split; auto.
      * intros y Hy. apply Hx, in_or_app; auto.
      * intros x' y [<-|Hx'] Hy; [apply Hx, in_or_app; auto|auto].
    + intros [[Hx Ha] [Hb Hab]]. repeat split; auto.
      intros y Hy. apply in_app_or in Hy as [Hy|Hy]; auto.
Qed.

(* ------------------------------------------------------------------ list surgery *)
Lemma insert_at_split : forall n x l, (n <= length l)%nat ->
  insert_at n x l = firstn n l ++ x :: skipn n l.
Proof.
  induction n as [|n IH]; intros x l Hn; [reflexivity|].
  destruct l as [|y r]; [cbn in Hn; lia|]. cbn in *. f_equal. apply IH. lia.
Qed.

Lemma remove_at_split : forall n l, remove_at n l = firstn n l ++ skipn (S n) l.
Proof.
  induction n as [|n IH]; intros [|y r]; cbn; auto. f_equal. apply IH.
Qed.

Lemma set_at_split : forall n x l, (n < length l)%nat ->
  set_at n x l = firstn n l ++ x :: skipn (S n) l.
Proof.
  induction n as [|n IH]; intros x [|y r] Hn; cbn in *; try lia; auto. f_equal. apply IH. lia.
Qed.

Lemma set_at_length : forall n x l, length (set_at n x l) = length l.
Proof. induction n; intros x [|y r]; cbn; auto. Qed.

Lemma set_at_ge : forall n x l, (length l <= n)%nat -> set_at n x l = l.
Proof.
  induction n as [|n IH]; intros x [|y r] Hn; cbn in *; auto; try lia. f_equal. apply IH. lia.
Qed.

Lemma insert_at_length : forall n x l, length (insert_at n x l) = S (length l).
Proof. induction n; intros x [|y r]; cbn; auto. Qed.

Lemma remove_at_length : forall n l, (n < length l)%nat -> S (length (remove_at n l)) = length l.
Proof.
  induction n as [|n IH]; intros [|y r] Hn; cbn in *; try lia. rewrite IH; lia.
Qed.

Lemma nth_split_at : forall (l : list item) n x, nth_error l n = Some x ->
  l = firstn n l ++ x :: skipn (S n) l.
Proof.
  induction l as [|y r IH]; intros [|n] x H; cbn in *; try discriminate.
  - congruence.
  - f_equal. apply IH. exact H.
Qed.

(* ------------------------------------------------------------------ lb / ub *)
Lemma lb_le : forall l k, (lb l k <= length l)%nat.
Proof. induction l as [|x r IH]; intros k; cbn; [lia|]. destruct (ikey x <? k); [specialize (IH k)|]; lia. Qed.

Lemma ub_le : forall l k, (ub l k <= length l)%nat.
Proof. induction l as [|x r IH]; intros k; cbn; [lia|]. destruct (ikey x <=? k); [specialize (IH k)|]; lia. Qed.

Lemma lb_before : forall l k x, In x (firstn (lb l k) l) -> ikey x < k.
Proof.
  induction l as [|y r IH]; intros k x H; cbn in *; [tauto|].
  destruct (ikey y <? k) eqn:E; cbn in H; [|tauto].
  destruct H as [<-|H]; [lia|eauto].
Qed.

Lemma lb_after : forall l k x, sorted l -> In x (skipn (lb l k) l) -> k <= ikey x.
Proof.
  induction l as [|y r IH]; intros k x Hs H; cbn in *; [tauto|].
  destruct Hs as [Hy Hs].
  destruct (ikey y <? k) eqn:E; cbn in H; [eauto|].
  destruct H as [<-|H]; [lia|]. specialize (Hy x H). lia.
Qed.

Lemma ub_before : forall l k x, In x (firstn (ub l k) l) -> ikey x <= k.
Proof.
  induction l as [|y r IH]; intros k x H; cbn in *; [tauto|].
  destruct (ikey y <=? k) eqn:E; cbn in H; [|tauto].
  destruct H as [<-|H]; [lia|eauto].
Qed.

Lemma ub_after : forall l k x, sorted l -> In x (skipn (ub l k) l) -> k < ikey x.
Proof.
  induction l as [|y r IH]; intros k x Hs H; cbn in *; [tauto|].
  destruct Hs as [Hy Hs].
  destruct (ikey y <=? k) eqn:E; cbn in H; [eauto|].
  destruct H as [<-|H]; [lia|]. specialize (Hy x H). lia.
Qed.

Lemma has_key_In : forall l k, has_key l k = true <-> exists x, In x l /\ ikey x = k.
Proof.
  intros l k. unfold has_key. rewrite existsb_exists. split; intros [x [Hx Hk]]; exists x; split; auto; lia.
Qed.

Lemma split_at : forall (l : list item) n, l = firstn n l ++ skipn n l.
Proof. intros. symmetry. apply firstn_skipn. Qed.

(* the item at the lower bound carries the key when the key is present *)
Lemma lb_hit : forall l k, sorted l -> has_key l k = true ->
  exists x, nth_error l (lb l k) = Some x /\ ikey x = k.
Proof.
  induction l as [|y r IH]; intros k Hs Hh; [discriminate|].
  destruct Hs as [Hy Hs]. cbn.
  destruct (ikey y <? k) eqn:E.
  - cbn. apply IH; auto. apply has_key_In in Hh as [x [[<-|Hx] Hk]]; [lia|].
    apply has_key_In. eauto.
  - cbn. exists y. split; auto. apply has_key_In in Hh as [x [[<-|Hx] Hk]]; auto.
    specialize (Hy x Hx). lia.
Qed.

Lemma sorted_nth : forall l i j a b, sorted l -> (i <= j)%nat ->
  nth_error l i = Some a -> nth_error l j = Some b -> ikey a <= ikey b.
Proof.
  induction l as [|x r IH]; intros i j a b Hs Hij Ha Hb; [destruct i; discriminate|].
  destruct Hs as [Hx Hs]. destruct i as [|i], j as [|j]; cbn in *; try lia.
  - inversion Ha; inversion Hb; subst. lia.
  - inversion Ha; subst. apply Hx. eapply nth_error_In; eauto.
  - apply (IH i j a b Hs); [lia|exact Ha|exact Hb].
Qed.

Lemma nth_error_in_skipn : forall (l : list item) e p y, nth_error l p = Some y -> (e <= p)%nat -> In y (skipn e l).
Proof.
  induction l as [|x r IH]; intros e p y H He; [destruct p; discriminate|].
  destruct e as [|e]; [cbn [skipn]; eapply nth_error_In; exact H|].
  destruct p as [|p]; [lia|]. cbn in *. apply (IH e p y H). lia.
Qed.

Lemma nth_error_in_firstn : forall (l : list item) e p y, nth_error l p = Some y -> (p < e)%nat -> In y (firstn e l).
Proof.
  induction l as [|x r IH]; intros e p y H He; [destruct p; discriminate|].
  destruct e as [|e]; [lia|]. destruct p as [|p]; cbn in *; [inversion H; auto|].
  right. apply (IH e p y H). lia.
Qed.

Lemma ub_hit : forall l k, sorted l -> has_key l k = true ->
  (0 < ub l k)%nat /\ exists x, nth_error l (pred (ub l k)) = Some x /\ ikey x = k.
Proof.
  intros l k Hs Hh. apply has_key_In in Hh as [y [Hy Hk]].
  apply In_nth_error in Hy as [p Hp].
  assert (Hpe : (p < ub l k)%nat).
  { destruct (Nat.lt_ge_cases p (ub l k)) as [H|H]; [exact H|].
    pose proof (ub_after l k y Hs (nth_error_in_skipn _ _ _ _ Hp H)). lia. }
  pose proof (ub_le l k) as Hle. pose proof (ub_before l k) as Hb.
  destruct (ub l k) as [|e]; [lia|]. split; [lia|]. cbn [pred].
  destruct (nth_error l e) as [x|] eqn:Ex.
  - exists x. split; auto.
    pose proof (Hb x (nth_error_in_firstn _ (S e) e _ Ex (Nat.lt_succ_diag_r e))).
    assert (Hpe' : (p <= e)%nat) by lia.
    pose proof (sorted_nth l p e y x Hs Hpe' Hp Ex). lia.
  - apply nth_error_None in Ex. lia.
Qed.

Lemma lb_miss_eq_ub : forall l k, has_key l k = false -> lb l k = ub l k.
Proof.
  induction l as [|y r IH]; intros k Hh; [reflexivity|]. cbn in *.
  apply orb_false_iff in Hh as [Hy Hr].
  destruct (ikey y <? k) eqn:E1, (ikey y <=? k) eqn:E2; try lia; auto.
Qed.

(* ------------------------------------------------------------------ invariant *)
Definition ids_ok (l : list item) (nx : N) : Prop :=
  NoDup (map iid l) /\ (0 < nx)%N /\ forall x, In x l -> (0 < iid x < nx)%N.

Record Inv (u : bool) (s : omap) : Prop := mkInv {
  inv_sorted : sorted (items s);
  inv_ids : ids_ok (items s) (next_iid s);
  inv_unique : u = true -> NoDup (map ikey (items s));
  inv_cur : forall i, cur s = CAt i -> (i < length (items s))%nat
}.

Lemma Inv_empty : forall u, Inv u empty_omap.
Proof.
  intros u. constructor; cbn; auto.
  - split; [constructor|split; [reflexivity|intros ? []]].
  - intros _. constructor.
  - discriminate.
Qed.

Lemma sorted_insert_lb : forall l k x, sorted l -> ikey x = k -> sorted (insert_at (lb l k) x l).
Proof.
  intros l k x Hs Hk. rewrite insert_at_split by apply lb_le.
  rewrite (split_at l (lb l k)) in Hs. apply sorted_app in Hs as [Ha [Hb Hab]].
  apply sorted_app. split; [exact Ha|]. split.
  - cbn. split; [|exact Hb]. intros y Hy. rewrite Hk.
    apply (lb_after l k); auto. rewrite (split_at l (lb l k)). apply sorted_app. auto.
  - intros a b Ha' [<-|Hb']; [|auto]. apply lb_before in Ha'. lia.
Qed.

Lemma In_insert_at : forall n x l y, In y (insert_at n x l) <-> y = x \/ In y l.
Proof.
  induction n as [|n IH]; intros x l y; [cbn; intuition|].
  destruct l as [|z r]; cbn; [intuition|]. rewrite IH. intuition.
Qed.

Lemma In_remove_at : forall n l y, In y (remove_at n l) -> In y l.
Proof.
  induction n as [|n IH]; intros [|z r] y H; cbn in *; auto. destruct H; eauto.
Qed.

Lemma In_set_at : forall n x l z, In z (set_at n x l) -> z = x \/ In z l.
Proof.
  induction n as [|n IH]; intros x [|y r] z H; cbn in *; auto.
  - destruct H; auto.
  - destruct H; auto. apply IH in H. tauto.
Qed.

Lemma sorted_remove_at : forall n l, sorted l -> sorted (remove_at n l).
Proof.
  induction n as [|n IH]; intros [|z r] Hs; cbn; auto.
  - destruct Hs; auto.
  - destruct Hs as [Hz Hs]. split; [|apply IH; auto].
    intros y Hy. apply Hz. eapply In_remove_at; eauto.
Qed.

Lemma sorted_set_at : forall n x y l, sorted l -> nth_error l n = Some y -> ikey x = ikey y ->
  sorted (set_at n x l).
Proof.
  induction n as [|n IH]; intros x y [|z r] Hs Hn Hk; cbn in *; try discriminate.
  - inversion Hn; subst. destruct Hs as [Hy Hs]. split; auto. intros w Hw. rewrite Hk. auto.
  - destruct Hs as [Hz Hs]. split; [|eapply IH; eauto].
    intros w Hw. apply In_set_at in Hw as [->|Hw]; [|auto].
    rewrite Hk. apply Hz. eapply nth_error_In; eauto.
Qed.

Lemma map_insert_at : forall {B} (f : item -> B) n x l,
  map f (insert_at n x l) = firstn n (map f l) ++ f x :: skipn n (map f l) \/ (length l < n)%nat.
Proof.
  intros B f n x l. destruct (Nat.le_gt_cases n (length l)) as [H|H]; [left|right; lia].
  rewrite insert_at_split by exact H. rewrite map_app. cbn. rewrite firstn_map, skipn_map. reflexivity.
Qed.

Lemma NoDup_mid : forall {B} (a b : list B) v, NoDup (a ++ b) -> ~ In v (a ++ b) -> NoDup (a ++ v :: b).
Proof.
  induction a as [|x a IH]; intros b v Hnd Hv; cbn in *.
  - constructor; auto.
  - inversion Hnd as [|? ? Hx Hnd']; subst. constructor.
    + intros Hin. apply in_app_or in Hin as [Hin|[Hin|Hin]].
      * apply Hx, in_or_app; auto.
      * subst. apply Hv; auto.
      * apply Hx, in_or_app; auto.
    + apply IH; auto.
Qed.

Lemma NoDup_insert : forall {B} (l : list B) n v, NoDup l -> ~ In v l -> NoDup (firstn n l ++ v :: skipn n l).
Proof.
  intros B l n v Hnd Hv. apply NoDup_mid; rewrite firstn_skipn; auto.
Qed.

Lemma NoDup_map_remove_at : forall {B} (f : item -> B) n l, NoDup (map f l) -> NoDup (map f (remove_at n l)).
Proof.
  intros B f. induction n as [|n IH]; intros [|z r] H; cbn in *; auto.
  - inversion H; auto.
  - inversion H as [|? ? Hz Hr]; subst. constructor; [|apply IH; auto].
    intros Hin. apply Hz. apply in_map_iff in Hin as [y [Hy1 Hy2]].
    apply in_map_iff. exists y. split; auto. eapply In_remove_at; eauto.
Qed.

Lemma map_set_at_same : forall {B} (f : item -> B) n x y l,
  nth_error l n = Some y -> f x = f y -> map f (set_at n x l) = map f l.
Proof.
  intros B f n. induction n as [|n IH]; intros x y [|z r] Hn Hf; cbn in *; try discriminate.
  - inversion Hn; subst. rewrite Hf. reflexivity.
  - f_equal. eapply IH; eauto.
Qed.

(* index_of finds the position of an id *)
Lemma index_of_Some : forall l id i, index_of l id = Some i ->
  (i < length l)%nat /\ exists x, nth_error l i = Some x /\ iid x = id.
Proof.
  induction l as [|y r IH]; intros id i H; cbn in *; [discriminate|].
  destruct (N.eqb (iid y) id) eqn:E.
  - inversion H; subst. split; [lia|]. exists y. split; auto. apply N.eqb_eq; auto.
  - destruct (index_of r id) eqn:E2; [|discriminate]. inversion H; subst.
    destruct (IH _ _ E2) as [Hl Hx]. split; [lia|exact Hx].
Qed.

Lemma resolve_CAt : forall l h i, resolve l h = Some (CAt i) -> (i < length l)%nat.
Proof.
  intros l [|id|] i H; cbn in H; try discriminate.
  destruct (index_of l id) eqn:E; [|discriminate]. inversion H; subst.
  apply index_of_Some in E. tauto.
Qed.

Lemma hint_on_key_spec : forall l h k i, hint_on_key l h k = Some i ->
  (i < length l)%nat /\ key_at l i = k.
Proof.
  intros l h k i H. unfold hint_on_key in H.
  destruct (resolve l h) as [[|j|]|]; try discriminate.
  destruct (Nat.ltb j (length l) && (key_at l j =? k)) eqn:E; [|discriminate].
  inversion H; subst. apply andb_true_iff in E as [E1 E2]. split; [apply Nat.ltb_lt; auto|lia].
Qed.

Lemma hint_near_spec : forall l h p i, hint_near l h p = Some i ->
  (i < length l)%nat /\ (i = p \/ S i = p).
Proof.
  intros l h p i H. unfold hint_near in H.
  destruct (resolve l h) as [[|j|]|]; try discriminate.
  destruct (Nat.ltb j (length l) && (Nat.eqb j p || Nat.eqb (S j) p)) eqn:E; [|discriminate].
  inversion H; subst. apply andb_true_iff in E as [E1 E2]. split; [apply Nat.ltb_lt; auto|].
  apply orb_true_iff in E2 as [E2|E2]; apply Nat.eqb_eq in E2; auto.
Qed.

(* ------------------------------------------------------------------ per-call preservation *)

Lemma Inv_set_cur : forall u s c ca, Inv u s ->
  (forall i, c = CAt i -> (i < length (items s))%nat) -> Inv u (set_cur s c ca).
Proof. intros u s c ca [H1 H2 H3 H4] Hc. constructor; cbn; auto. Qed.

Lemma find_any_inv : forall u s k h s' b, Inv u s -> find_any s k h = Some (s', b) ->
  Inv u s' /\ items s' = items s /\ next_iid s' = next_iid s.
Proof.
  intros u s k h s' b HI H. unfold find_any in H.
  destruct (items s) as [|x0 r0] eqn:El; [inversion H; subst; auto|].
  rewrite <- El in *.
  destruct (selected s && match cur_item s with Some x => ikey x =? k | None => false end).
  { inversion H; subst. split; [|auto]. apply Inv_set_cur; auto. apply (inv_cur u s HI). }
  destruct (has_key (items s) k).
  - destruct (hint_on_key (items s) h k) eqn:E; [|discriminate]. inversion H; subst.
    split; [|auto]. apply Inv_set_cur; auto. intros i Hi. inversion Hi; subst.
    apply hint_on_key_spec in E. tauto.
  - destruct (hint_near (items s) h (lb (items s) k)) eqn:E; [|discriminate]. inversion H; subst.
    split; [|auto]. apply Inv_set_cur; auto. intros i Hi. inversion Hi; subst.
    apply hint_near_spec in E. tauto.
Qed.

Lemma nonempty_pos : forall (l : list item) x r, l = x :: r -> (0 < length l)%nat.
Proof. intros; subst; cbn; lia. Qed.

Lemma find_first_inv : forall u s k h s' b, Inv u s -> find_first s k h = Some (s', b) ->
  Inv u s' /\ items s' = items s /\ next_iid s' = next_iid s.
Proof.
  intros u s k h s' b HI H. unfold find_first in H.
  destruct (items s) as [|x0 r0] eqn:El; [inversion H; subst; auto|].
  rewrite <- El in *.
  destruct (has_key (items s) k) eqn:Hh.
  - inversion H; subst. split; [|auto]. apply Inv_set_cur; auto. intros i Hi. inversion Hi; subst.
    destruct (lb_hit _ _ (inv_sorted u s HI) Hh) as [x [Hn _]]. apply nth_error_Some. congruence.
  - destruct (hint_near (items s) h (lb (items s) k)) eqn:E; [|discriminate]. inversion H; subst.
    split; [|auto]. apply Inv_set_cur; auto. intros i Hi. inversion Hi; subst.
    apply hint_near_spec in E. tauto.
Qed.

Lemma find_desc_inv : forall u s k h s' b, Inv u s -> find_desc s k h = Some (s', b) ->
  Inv u s' /\ items s' = items s /\ next_iid s' = next_iid s.
Proof.
  intros u s k h s' b HI H. unfold find_desc in H.
  destruct (items s) as [|x0 r0] eqn:El; [inversion H; subst; auto|].
  rewrite <- El in *.
  destruct (has_key (items s) k) eqn:Hh.
  - inversion H; subst. split; [|auto]. apply Inv_set_cur; auto. intros i Hi. inversion Hi; subst.
    destruct (ub_hit _ _ (inv_sorted u s HI) Hh) as [_ [x [Hn _]]]. apply nth_error_Some. congruence.
  - destruct (hint_near (items s) h (ub (items s) k)) eqn:E; [|discriminate]. inversion H; subst.
    split; [|auto]. apply Inv_set_cur; auto. intros i Hi. inversion Hi; subst.
    apply hint_near_spec in E. tauto.
Qed.

Lemma do_add_inv : forall u uq s k v h s' b, Inv u s -> (u = true -> uq = true) ->
  do_add uq s k v h = Some (s', b) -> Inv u s'.
Proof.
  intros u uq s k v h s' b HI Huq H. unfold do_add in H.
  destruct (uq && has_key (items s) k) eqn:E.
  - destruct (hint_on_key (items s) h k) eqn:E2; [|discriminate]. inversion H; subst.
    apply Inv_set_cur; auto. intros i Hi. inversion Hi; subst. apply hint_on_key_spec in E2. tauto.
  - set (x := mkItem (next_iid s) k v) in *.
    destruct (resolve (insert_at (lb (items s) k) x (items s)) h) as [c|] eqn:E2; [|discriminate].
    destruct (havoc_ok (cur s) c); [|discriminate]. inversion H; subst. clear H.
    destruct HI as [Hs [Hnd [Hpos Hid]] Hu Hc].
    constructor; cbn.
    + apply sorted_insert_lb; auto.
    + split; [|split; [lia|]].
      * destruct (map_insert_at iid (lb (items s) k) x (items s)) as [->|Hbad]; [|pose proof (lb_le (items s) k); lia].
        apply NoDup_insert; auto. cbn. intros Hin. apply in_map_iff in Hin as [y [Hy1 Hy2]].
        specialize (Hid y Hy2). lia.
      * intros y Hy. apply In_insert_at in Hy as [->|Hy]; [cbn; lia|]. specialize (Hid y Hy). lia.
    + intros Hu'. specialize (Hu Hu'). rewrite (Huq Hu') in E. cbn in E.
      destruct (map_insert_at ikey (lb (items s) k) x (items s)) as [->|Hbad]; [|pose proof (lb_le (items s) k); lia].
      apply NoDup_insert; auto. cbn. intros Hin. apply in_map_iff in Hin as [y [Hy1 Hy2]].
      assert (has_key (items s) k = true); [|congruence]. apply has_key_In. eauto.
    + intros i Hi. subst c. apply resolve_CAt in E2. exact E2.
Qed.

Lemma update_current_inv : forall u s k v s' r, Inv u s -> update_current s k v = (s', r) ->
  Inv u s' /\ map key_id (items s') = map key_id (items s).
Proof.
  intros u s k v s' r HI H. unfold update_current in H.
  destruct (cur s) as [|i|] eqn:Ec; try (inversion H; subst; auto; fail).
  destruct (nth_error (items s) i) as [x|] eqn:En; [|inversion H; subst; auto].
  destruct (ikey x =? k) eqn:Ek; [|inversion H; subst; auto].
  destruct v as [v'|]; [|inversion H; subst; auto].
  inversion H; subst. clear H.
  assert (Hk : k = ikey x) by lia. subst k.
  destruct HI as [Hs [Hnd [Hpos Hid]] Hu Hc].
  split.
  - constructor; cbn.
    + eapply sorted_set_at; eauto.
    + split; [|split; [exact Hpos|]].
      * erewrite map_set_at_same; eauto.
      * intros y Hy. apply In_set_at in Hy as [->|Hy]; [|auto]. cbn. apply Hid. eapply nth_error_In; eauto.
    + intros Hu'. erewrite map_set_at_same; eauto.
    + intros j Hj. rewrite set_at_length. apply Hc. congruence.
  - cbn. eapply map_set_at_same; eauto.
Qed.

Lemma update_current_value_inv : forall u s v s' r, Inv u s -> update_current_value s v = (s', r) ->
  Inv u s' /\ map key_id (items s') = map key_id (items s).
Proof.
  intros u s v s' r HI H. unfold update_current_value in H.
  destruct (cur s) as [|i|] eqn:Ec; try (inversion H; subst; auto; fail).
  destruct (nth_error (items s) i) as [x|] eqn:En; [|inversion H; subst; auto].
  inversion H; subst. clear H.
  destruct HI as [Hs [Hnd [Hpos Hid]] Hu Hc].
  split.
  - constructor; cbn.
    + eapply sorted_set_at; eauto.
    + split; [|split; [exact Hpos|]].
      * erewrite map_set_at_same; eauto.
      * intros y Hy. apply In_set_at in Hy as [->|Hy]; [|auto]. cbn. apply Hid. eapply nth_error_In; eauto.
    + intros Hu'. erewrite map_set_at_same; eauto.
    + intros j Hj. rewrite set_at_length. apply Hc. congruence.
  - cbn. eapply map_set_at_same; eauto.
Qed.

Lemma remove_current_inv : forall u s s' r, Inv u s -> remove_current s = (s', r) -> Inv u s'.
Proof.
  intros u s s' r HI H. unfold remove_current in H.
  destruct (cur s) as [|i|] eqn:Ec; try (inversion H; subst; auto; fail).
  destruct (Nat.ltb i (length (items s))); [|inversion H; subst; auto].
  inversion H; subst. clear H.
  destruct HI as [Hs [Hnd [Hpos Hid]] Hu Hc].
  constructor; cbn.
  - apply sorted_remove_at; auto.
  - split; [apply NoDup_map_remove_at; auto|split; [exact Hpos|]]. intros y Hy. apply In_remove_at in Hy. auto.
  - intros Hu'. apply NoDup_map_remove_at; auto.
  - discriminate.
Qed.

Lemma move_next_inv : forall u s s' r, Inv u s -> move_next s = (s', r) -> Inv u s' /\ items s' = items s.
Proof.
  intros u s s' r HI H. unfold move_next in H.
  destruct (items s) as [|x0 r0] eqn:El; [inversion H; subst; auto|]. rewrite <- El in *.
  destruct (cur s) as [|i|] eqn:Ec; try (inversion H; subst; auto; fail).
  destruct (Nat.ltb (S i) (length (items s))) eqn:E; inversion H; subst; (split; [|auto]);
    apply Inv_set_cur; auto; intros j Hj; inversion Hj; subst. apply Nat.ltb_lt in E. exact E.
Qed.

Lemma move_prev_inv : forall u s s' r, Inv u s -> move_prev s = (s', r) -> Inv u s' /\ items s' = items s.
Proof.
  intros u s s' r HI H. unfold move_prev in H.
  destruct (items s) as [|x0 r0] eqn:El; [inversion H; subst; auto|]. rewrite <- El in *.
  destruct (cur s) as [|i|] eqn:Ec; try (inversion H; subst; auto; fail).
  destruct i as [|j]; inversion H; subst; (split; [|auto]);
    apply Inv_set_cur; auto; intros j' Hj; inversion Hj; subst.
  pose proof (inv_cur u s HI (S j') Ec). lia.
Qed.

Lemma range_from_cur : forall l j to ys c n, range_from l j to = (ys, c) -> c = CAt n ->
  (j <= n < j + length l)%nat.
Proof.
  induction l as [|x r IH]; intros j to ys c n H Hc; cbn in H.
  - inversion H; subst. discriminate.
  - destruct (to <? ikey x).
    + inversion H; subst. inversion H2; subst. cbn. lia.
    + destruct (range_from r (S j) to) as [ys' c'] eqn:E. inversion H; subst.
      specialize (IH _ _ _ _ _ E eq_refl). cbn. lia.
Qed.

Lemma range_down_cur : forall l j to ys c n, range_down l j to = (ys, c) -> c = CAt n ->
  (S j >= length l)%nat -> (n <= j /\ S j - length l <= n)%nat.
Proof.
  induction l as [|x r IH]; intros j to ys c n H Hc Hj; cbn in H.
  - inversion H; subst. discriminate.
  - destruct (ikey x <? to).
    + inversion H; subst. inversion H2; subst. cbn. lia.
    + destruct (range_down r (pred j) to) as [ys' c'] eqn:E. inversion H; subst.
      cbn in Hj. destruct r as [|y r'].
      * cbn in E. inversion E.
      * assert (S (pred j) >= length (y :: r'))%nat by (cbn in *; lia).
        specialize (IH _ _ _ _ _ E eq_refl H0). cbn in *. lia.
Qed.

Lemma do_range_inv : forall u s from to s' r, Inv u s -> do_range s from to = (s', r) ->
  Inv u s' /\ items s' = items s.
Proof.
  intros u s from to s' r HI H. unfold do_range in H.
  destruct (items s) as [|x0 r0] eqn:El; [inversion H; subst; auto|]. rewrite <- El in *.
  destruct (range_from (skipn (lb (items s) from) (items s)) (lb (items s) from) to) as [ys c] eqn:E.
  inversion H; subst. split; [|auto]. apply Inv_set_cur; auto. intros n Hn.
  pose proof (range_from_cur _ _ _ _ _ _ E Hn) as Hr. rewrite skipn_length in Hr.
  pose proof (lb_le (items s) from). lia.
Qed.

Lemma do_range_desc_inv : forall u s from to s' r, Inv u s -> do_range_desc s from to = (s', r) ->
  Inv u s' /\ items s' = items s.
Proof.
  intros u s from to s' r HI H. unfold do_range_desc in H.
  destruct (items s) as [|x0 r0] eqn:El; [inversion H; subst; auto|]. rewrite <- El in *.
  destruct (range_down (rev (firstn (ub (items s) from) (items s))) (pred (ub (items s) from)) to) as [ys c] eqn:E.
  inversion H; subst. split; [|auto]. apply Inv_set_cur; auto. intros n Hn.
  pose proof (ub_le (items s) from) as Hub.
  destruct (ub (items s) from) as [|e] eqn:Eu.
  - cbn in E. inversion E; subst. discriminate.
  - assert (Hlen : length (rev (firstn (S e) (items s))) = S e) by (rewrite rev_length, firstn_length; lia).
    pose proof (range_down_cur _ _ _ _ _ _ E Hn) as Hr. rewrite Hlen in Hr. cbn in Hr.
    assert (n <= e)%nat by (apply Hr; lia). lia.
Qed.

Lemma get_current_inv : forall u s f s' r, Inv u s -> get_current s f = (s', r) -> Inv u s' /\ items s' = items s.
Proof.
  intros u s f s' r HI H. unfold get_current in H.
  destruct (cur_item s); inversion H; subst; (split; [|auto]); apply Inv_set_cur; auto; apply (inv_cur u s HI).
Qed.

Lemma scan_id_lt : forall l from id j, scan_id l from id = Some j -> (j < length l)%nat.
Proof.
  induction l as [|x r IH]; intros from id j H; cbn in H; [discriminate|].
  destruct from as [|f].
  - destruct (N.eqb (iid x) id); [inversion H; cbn; lia|].
    destruct (scan_id r 0 id) eqn:E; [|discriminate]. inversion H; subst. apply IH in E. cbn. lia.
  - destruct (scan_id r f id) eqn:E; [|discriminate]. inversion H; subst. apply IH in E. cbn. lia.
Qed.

Theorem ostep_inv : forall u s o h s' r, Inv u s -> ostep u s o h = Some (s', r) -> Inv u s'.
Proof.
  intros u s o h s' r HI H. destruct o; cbn [ostep] in H.
  - (* add *) destruct (do_add u s k v (h_cur h)) as [[s1 b]|] eqn:E; [|discriminate]. inversion H; subst.
    eapply (do_add_inv u _ s k v _ _ _ HI); [|exact E]; auto.
  - destruct (do_add true s k v (h_cur h)) as [[s1 b]|] eqn:E; [|discriminate]. inversion H; subst.
    eapply (do_add_inv u _ s k v _ _ _ HI); [|exact E]; auto.
  - (* upsert *) destruct (has_key (items s) k) eqn:Hh.
    + destruct (hint_on_key (items s) (h_cur h) k) eqn:E; [|discriminate].
      unfold lift in H. inversion H as [H1]. apply update_current_inv with (u := u) in H1; [tauto|].
      apply Inv_set_cur; auto. intros i Hi. inversion Hi; subst. apply hint_on_key_spec in E. tauto.
    + destruct (do_add true s k v (h_cur h)) as [[s1 b]|] eqn:E; [|discriminate]. inversion H; subst.
      eapply (do_add_inv u _ s k v _ _ _ HI); [|exact E]; auto.
  - (* update *) destruct (find_any s k (h_cur h)) as [[s1 [|]]|] eqn:E; try discriminate.
    + apply find_any_inv with (u := u) in E as [HI1 _]; auto. unfold lift in H. inversion H as [H1].
      apply update_current_inv with (u := u) in H1; tauto.
    + apply find_any_inv with (u := u) in E as [HI1 _]; auto. inversion H; subst. auto.
  - destruct (find_any s k (h_cur h)) as [[s1 [|]]|] eqn:E; try discriminate.
    + apply find_any_inv with (u := u) in E as [HI1 _]; auto. unfold lift in H. inversion H as [H1].
      apply update_current_inv with (u := u) in H1; tauto.
    + apply find_any_inv with (u := u) in E as [HI1 _]; auto. inversion H; subst. auto.
  - unfold lift in H. inversion H as [H1]. apply update_current_inv with (u := u) in H1; tauto.
  - unfold lift in H. inversion H as [H1]. apply update_current_value_inv with (u := u) in H1; tauto.
  - unfold lift in H. inversion H as [H1]. apply update_current_inv with (u := u) in H1; tauto.
  - (* remove *)
    destruct (find_any s k (if has_key (items s) k then HItem (h_rem h) else h_cur h)) as [[s1 [|]]|] eqn:E; try discriminate.
    + apply find_any_inv with (u := u) in E as [HI1 _]; auto. unfold lift in H. inversion H as [H1].
      eapply remove_current_inv; eauto.
    + apply find_any_inv with (u := u) in E as [HI1 _]; auto. inversion H; subst. auto.
  - unfold lift in H. inversion H as [H1]. eapply remove_current_inv; eauto.
  - (* first *) destruct (items s) as [|x0 r0] eqn:El; inversion H; subst; auto.
    apply Inv_set_cur; auto. intros i Hi. inversion Hi; subst. rewrite El. cbn. lia.
  - destruct (items s) as [|x0 r0] eqn:El; inversion H; subst; auto.
    apply Inv_set_cur; auto. intros i Hi. inversion Hi; subst. rewrite El. cbn. lia.
  - unfold lift in H. inversion H as [H1]. apply move_next_inv with (u := u) in H1; tauto.
  - unfold lift in H. inversion H as [H1]. apply move_prev_inv with (u := u) in H1; tauto.
  - (* find *) destruct first.
    + destruct (find_first s k (h_cur h)) as [[s1 b]|] eqn:E; [|discriminate]. inversion H; subst.
      apply find_first_inv with (u := u) in E; tauto.
    + destruct (find_any s k (h_cur h)) as [[s1 b]|] eqn:E; [|discriminate]. inversion H; subst.
      apply find_any_inv with (u := u) in E; tauto.
  - destruct (find_desc s k (h_cur h)) as [[s1 b]|] eqn:E; [|discriminate]. inversion H; subst.
    apply find_desc_inv with (u := u) in E; tauto.
  - (* findWithID *)
    destruct (find_first s k (h_cur h)) as [[s1 [|]]|] eqn:E; try discriminate.
    + apply find_first_inv with (u := u) in E as [HI1 [Hit _]]; auto.
      destruct (scan_id (items s) (lb (items s) k) id) eqn:Es; inversion H; subst;
        apply Inv_set_cur; auto; intros i Hi; inversion Hi; subst.
      rewrite Hit. eapply scan_id_lt; eauto.
    + apply find_first_inv with (u := u) in E as [HI1 _]; auto. inversion H; subst. auto.
  - unfold lift in H. inversion H as [H1]. apply get_current_inv with (u := u) in H1; tauto.
  - unfold lift in H. inversion H as [H1]. apply get_current_inv with (u := u) in H1; tauto.
  - unfold lift in H. inversion H as [H1]. apply do_range_inv with (u := u) in H1; tauto.
  - unfold lift in H. inversion H as [H1]. apply do_range_desc_inv with (u := u) in H1; tauto.
Qed.

Theorem orun_inv : forall u ops s s' rs, Inv u s -> orun u s ops = Some (s', rs) -> Inv u s'.
Proof.
  intros u ops. induction ops as [|[o h] r IH]; intros s s' rs HI H; cbn in H.
  - inversion H; subst. exact HI.
  - destruct (ostep u s o h) as [[s1 res]|] eqn:E; [|discriminate].
    destruct (orun u s1 r) as [[s2 rs']|] eqn:E2; [|discriminate]. inversion H; subst.
    eapply IH; [|exact E2]. eapply ostep_inv; eauto.
Qed.

(* Proofs about the commit-protocol model Proto.v, part 2: the SUCCESS half and the store COUNT facts,
   for every transaction t and every initial disk d (no bound on any list).

   Main results
   - run_success / commit_success_outcome: a well-formed transaction (SW d t) run without an injected fault
     reports Committed, and the final disk is the explicit term finalD d t.
   - commit_success_view: in that final disk (a) every updated node resolves to its new physical id, at the
     read version + 1, and the new blob is present; (b) every removed node is gone from the registry;
     (c) every new root / added node resolves to its own id and its blob is present; (d) every other logical
     id has exactly its pre-commit handle; (e) no transaction log and no priority log are left;
     (f) count_of d' s = count_of d s + delta_of (deltas t) s for every store s.
   - failed_commit_preserves_counts: for EVERY fault position, a run that does not report Committed leaves
     count_of unchanged for every store, provided rb_stores t negates deltas t store by store and
     (tracked t = true or all deltas sum to zero).
   - SW_nonvacuous, counts_hyp_nonvacuous, run_ex: the hypotheses are satisfiable; concrete final disk.

   What had to be assumed beyond the obvious, and what the model does that one might not expect
   1. plog d = None (SW_plog) is needed for (e): a transaction without updated and removed nodes neither
      writes nor removes its priority log, so a stale priority log would survive (plog d' = plog d).
   2. Freshness (SW_fresh_upd, SW_fresh_new) is needed for the blob-presence parts of (a) and (c): cleanup
      deletes the old active blob of every updated and removed node and obsolete t AFTER the new blobs were
      written; a new physical id equal to such an id would be deleted again.  The registry parts of
      (a)-(d), (e) and (f) do not use freshness.
   3. tlog d = false (SW_tlog) is not used by any proof: TlogAdd creates the log, the final TlogRemove
      removes it.  NoDup (map fst (deltas t)) is not needed for (f): count_add adds to the first entry of a
      store and find reads the first entry, so repeated entries simply add up (delta_of sums them).
   4. cleanup is best effort: Committed is reported even if its RegRemove failed.  (b) holds because under
      SW every removed id is present when cleanup runs (Guards.G_present), so the RegRemove is performed;
      NoDup (map lid (reg d)) is needed there because reg_del deletes only the first handle of an id.
   5. For failed_commit_preserves_counts no hypothesis about backend errors is needed: every call issued
      before a rollback starts (phase 1, log finalizeCommit, the phase-2 RegUpd) is one on which
      apply_call never returns None, so the first failing call is always the injected one, the fault is
      used up, and the rollback's SrUpdate (rb_stores t) is performed; backend errors (RegRemove of a missing
      id, TlogRemove without a log) can occur only inside rollback/cleanup, after that SrUpdate.
      A Conflict arises only while committedState <= commitRemovedNodes, where neither SrUpdate is issued,
      so a pending fault does no harm there.
   6. The count theorem is FALSE for tracked t = false with nonzero deltas (untracked_counts_refuted): phase 1
      is then a no-op, SrUpdate (deltas t) is never issued, but a failing phase 2 runs rollback with
      committedState = finalizeCommit > commitStoreInfo, which issues SrUpdate (rb_stores t).  Hence the
      hypothesis "tracked t = true \/ all deltas are zero".  (Whether the real Phase2Commit also returns early
      for a transaction without tracked items is outside this model.)
   7. rb_stores t must negate deltas t for EVERY store.  The model comment says rb_stores lists only stores
      not created by this transaction; a store created here with a nonzero delta violates the hypothesis, and
      indeed its count is then not rolled back by SrUpdate (in the real system the store itself is removed). *)
From Coq Require Import List ZArith NArith Bool Lia.
From Coq Require Import ZifyBool ZifyNat ZifyN.
From SopVerif Require Import Proto ProtoProofs.
Import ListNotations.
Local Open Scope N_scope.

(* ------------------------------------------------------------------ counts *)

Definition upd_counts (c : list (N * Z)) (ds : list (N * Z)) : list (N * Z) :=
  fold_left (fun c p => count_add c (fst p) (snd p)) ds c.

Definition cnt (c : list (N * Z)) (s : N) : Z :=
  match find (fun p => fst p =? s) c with Some p => snd p | None => 0%Z end.

Lemma count_of_cnt d s : count_of d s = cnt (counts d) s.
Proof. reflexivity. Qed.

(* sum of the deltas recorded for store s *)
Fixpoint delta_of (ds : list (N * Z)) (s : N) : Z :=
  match ds with
  | [] => 0%Z
  | (s', z) :: r => ((if N.eqb s' s then z else 0) + delta_of r s)%Z
  end.

Lemma cnt_count_add c s' dz s : cnt (count_add c s' dz) s = (cnt c s + (if N.eqb s' s then dz else 0))%Z.
Proof.
  unfold cnt. induction c as [|[k z] c IH]; cbn [count_add find fst snd].
  - destruct (s' =? s); cbn [snd]; lia.
  - destruct (N.eqb_spec k s') as [E|E]; cbn [find fst snd].
    + subst k. destruct (s' =? s); cbn [snd]; [reflexivity|].
      destruct (find (fun p => fst p =? s) c); lia.
    + destruct (N.eqb_spec k s) as [E2|E2]; cbn [snd].
      * destruct (N.eqb_spec s' s) as [E3|E3]; [congruence|lia].
      * exact IH.
Qed.

Lemma cnt_upd ds : forall c s, cnt (upd_counts c ds) s = (cnt c s + delta_of ds s)%Z.
Proof.
  unfold upd_counts. induction ds as [|[k z] ds IH]; intros c s; cbn [fold_left delta_of fst snd].
  - lia.
  - rewrite IH, cnt_count_add. lia.
Qed.

(* ------------------------------------------------------------------ the monad without faults *)

Definition StepTo (p : st -> flow * st) (s : st) (d' : disk) : Prop :=
  exists s', p s = (Go, s') /\ fault s' = None /\ dk s' = d'.

Lemma disk_eta d : mkD (reg d) (blobs d) (counts d) (tlog d) (plog d) = d.
Proof. destruct d; reflexivity. Qed.

Lemma issue_ok c s d' : fault s = None -> apply_call (dk s) c = Some d' ->
  issue c s = (true, mkS d' ((c, true) :: tr s) None (cs s)).
Proof. intros F A. unfold issue. rewrite F, A. reflexivity. Qed.

Lemma step_issue c s d d' : fault s = None -> dk s = d -> apply_call d c = Some d' -> StepTo (lift (issue c)) s d'.
Proof.
  intros F D A. subst d. unfold StepTo, lift. rewrite (issue_ok _ _ _ F A).
  eexists; split; [reflexivity|split; reflexivity].
Qed.

Lemma step_log f s d : fault s = None -> dk s = d ->
  StepTo (lift (log f)) s (mkD (reg d) (blobs d) (counts d) true (plog d)).
Proof.
  intros F D. subst d. unfold StepTo, lift, log.
  rewrite (issue_ok (TlogAdd f) (mkS (dk s) (tr s) (fault s) f) _ F eq_refl).
  eexists; split; [reflexivity|split; reflexivity].
Qed.

Lemma step_seq a b s d1 d2 : StepTo a s d1 -> (forall s1, fault s1 = None -> dk s1 = d1 -> StepTo b s1 d2) ->
  StepTo (seq a b) s d2.
Proof.
  intros [s1 [E1 [F1 D1]]] Hb. destruct (Hb s1 F1 D1) as [s2 [E2 [F2 D2]]].
  exists s2. unfold seq. rewrite E1. auto.
Qed.

Lemma step_skip (p : st -> flow * st) s d : fault s = None -> dk s = d -> StepTo (when false p) s d.
Proof. intros F D. exists s. cbn [when]. auto. Qed.

Lemma best_ok c s d d' : fault s = None -> dk s = d -> apply_call d c = Some d' ->
  fault (best (issue c) s) = None /\ dk (best (issue c) s) = d'.
Proof. intros F D A. subst d. unfold best. rewrite (issue_ok _ _ _ F A). split; reflexivity. Qed.

Lemma log_ok f s : fault s = None -> exists s', log f s = (true, s') /\ fault s' = None
  /\ dk s' = mkD (reg (dk s)) (blobs (dk s)) (counts (dk s)) true (plog (dk s)).
Proof.
  intros F. unfold log. rewrite (issue_ok (TlogAdd f) (mkS (dk s) (tr s) (fault s) f) _ F eq_refl).
  eexists; split; [reflexivity|split; reflexivity].
Qed.

Lemma blob_add_nil b : blob_add b [] = b.
Proof. reflexivity. Qed.

Lemma blob_del_nil b : blob_del b [] = b.
Proof.
  unfold blob_del. induction b as [|x b IH]; [reflexivity|]. cbn [filter]. cbn [mem existsb negb]. f_equal. exact IH.
Qed.

(* --- the steps of phase 1 *)

Lemma step_blobadd ids s d : fault s = None -> dk s = d ->
  StepTo (when (nonempty ids) (lift (issue (BlobAdd ids)))) s
         (mkD (reg d) (blob_add (blobs d) ids) (counts d) (tlog d) (plog d)).
Proof.
  intros F D. destruct ids as [|x xs]; cbn [nonempty].
  - rewrite blob_add_nil, disk_eta. apply step_skip; assumption.
  - cbn [when]. eapply step_issue; [exact F|exact D|reflexivity].
Qed.

Lemma step_sr ds s d : fault s = None -> dk s = d ->
  StepTo (when (nonempty ds) (lift (issue (SrUpdate ds)))) s
         (mkD (reg d) (blobs d) (upd_counts (counts d) ds) (tlog d) (plog d)).
Proof.
  intros F D. destruct ds as [|x xs]; cbn [nonempty].
  - unfold upd_counts. cbn [fold_left]. rewrite disk_eta. apply step_skip; assumption.
  - cbn [when]. eapply step_issue; [exact F|exact D|reflexivity].
Qed.

Lemma step_roots t s d : fault s = None -> dk s = d -> reg_get (reg d) (roots t) = [] ->
  StepTo (p_roots t) s
         (mkD (fold_left reg_set (map new_handle (roots t)) (reg d)) (blob_add (blobs d) (roots t))
              (counts d) (tlog d) (plog d)).
Proof.
  intros F D G. unfold p_roots. destruct (roots t) as [|x xs] eqn:E; cbn [nonempty].
  - cbn [map fold_left]. rewrite blob_add_nil, disk_eta. apply step_skip; assumption.
  - cbn [when]. eapply step_seq.
    + eapply step_issue; [exact F|exact D|reflexivity].
    + intros s1 F1 D1. unfold StepTo. cbv beta. rewrite D1, G. cbn [nonempty].
      eapply step_seq.
      * eapply step_issue; [exact F1|exact D1|reflexivity].
      * intros s2 F2 D2. eapply step_issue; [exact F2|exact D2|reflexivity].
Qed.

Lemma step_fetched t s d : fault s = None -> dk s = d -> versions_match (reg d) (fetched t) = true ->
  StepTo (p_fetched t) s d.
Proof.
  intros F D G. unfold p_fetched. destruct (nonempty (fetched t)).
  - cbn [when]. eapply step_seq.
    + eapply step_issue; [exact F|exact D|reflexivity].
    + intros s1 F1 D1. unfold StepTo. cbv beta. rewrite D1, G. exists s1. auto.
  - apply step_skip; assumption.
Qed.

Lemma step_updated t s d hs : fault s = None -> dk s = d -> claims (reg d) (updated t) = Some hs ->
  StepTo (p_updated t) s
         (mkD (fold_left reg_set hs (reg d)) (blob_add (blobs d) (map snd (updated t))) (counts d) (tlog d) (plog d)).
Proof.
  intros F D G. unfold p_updated. destruct (updated t) as [|x xs] eqn:E; cbn [nonempty].
  - cbn [claims] in G. inversion G; subst hs. cbn [map fold_left]. rewrite blob_add_nil, disk_eta.
    apply step_skip; assumption.
  - cbn [when]. eapply step_seq.
    + eapply step_issue; [exact F|exact D|reflexivity].
    + intros s1 F1 D1. unfold StepTo. cbv beta. rewrite D1, G.
      eapply step_seq.
      * eapply step_issue; [exact F1|exact D1|reflexivity].
      * intros s2 F2 D2. eapply step_issue; [exact F2|exact D2|reflexivity].
Qed.

Lemma step_removed t s d hs : fault s = None -> dk s = d -> marks (reg d) (removed t) = Some hs ->
  StepTo (p_removed t) s (mkD (fold_left reg_set hs (reg d)) (blobs d) (counts d) (tlog d) (plog d)).
Proof.
  intros F D G. unfold p_removed. destruct (removed t) as [|x xs] eqn:E; cbn [nonempty].
  - cbn [marks] in G. inversion G; subst hs. cbn [fold_left]. rewrite disk_eta. apply step_skip; assumption.
  - cbn [when]. eapply step_seq.
    + eapply step_issue; [exact F|exact D|reflexivity].
    + intros s1 F1 D1. unfold StepTo. cbv beta. rewrite D1, G.
      eapply step_issue; [exact F1|exact D1|reflexivity].
Qed.

Lemma step_added t s d : fault s = None -> dk s = d ->
  StepTo (p_added t) s
         (mkD (fold_left reg_set (map added_handle (added t)) (reg d)) (blob_add (blobs d) (added t))
              (counts d) (tlog d) (plog d)).
Proof.
  intros F D. unfold p_added. destruct (added t) as [|x xs] eqn:E; cbn [nonempty].
  - cbn [map fold_left]. rewrite blob_add_nil, disk_eta. apply step_skip; assumption.
  - cbn [when]. eapply step_seq.
    + eapply step_issue; [exact F|exact D|reflexivity].
    + intros s1 F1 D1. eapply step_issue; [exact F1|exact D1|reflexivity].
Qed.

Lemma step_plogadd t s d : fault s = None -> dk s = d ->
  StepTo (fun s => let uh := cur_handles s (map (fun x => fst (fst x)) (updated t)) in
                   let rh := cur_handles s (map fst (removed t)) in
                   when (nonempty uh || nonempty rh) (lift (issue (PlogAdd (uh ++ rh)))) s) s
         (let uh := reg_get (reg d) (map (fun x => fst (fst x)) (updated t)) in
          let rh := reg_get (reg d) (map fst (removed t)) in
          mkD (reg d) (blobs d) (counts d) (tlog d)
              (if nonempty uh || nonempty rh then Some (uh ++ rh) else plog d)).
Proof.
  intros F D. unfold StepTo. cbv beta zeta. unfold cur_handles. rewrite D.
  destruct (nonempty _ || nonempty _).
  - cbn [when]. eapply step_issue; [exact F|exact D|reflexivity].
  - rewrite disk_eta. apply step_skip; assumption.
Qed.

(* --- the explicit intermediate registries of a successful commit *)

Definition ulids (t : txn) : list N := map (fun x => fst (fst x)) (updated t).
Definition rlids (t : txn) : list N := map fst (removed t).
Definition reg1 (d : disk) (t : txn) := fold_left reg_set (map new_handle (roots t)) (reg d).
Definition uhs (d : disk) (t : txn) := match claims (reg1 d t) (updated t) with Some hs => hs | None => [] end.
Definition reg2 (d : disk) (t : txn) := fold_left reg_set (uhs d t) (reg1 d t).
Definition mhs (d : disk) (t : txn) := match marks (reg2 d t) (removed t) with Some hs => hs | None => [] end.
Definition reg3 (d : disk) (t : txn) := fold_left reg_set (mhs d t) (reg2 d t).
Definition reg4 (d : disk) (t : txn) := fold_left reg_set (map added_handle (added t)) (reg3 d t).
Definition blobs4 (d : disk) (t : txn) :=
  blob_add (blob_add (blob_add (blob_add (blobs d) (vals t)) (roots t)) (map snd (updated t))) (added t).
Definition uh4 (d : disk) (t : txn) := reg_get (reg4 d t) (ulids t).
Definition rh4 (d : disk) (t : txn) := reg_get (reg4 d t) (rlids t).
Definition flips (d : disk) (t : txn) := map flip (uh4 d t) ++ map touch (rh4 d t).
Definition reg5 (d : disk) (t : txn) := fold_left reg_set (flips d t) (reg4 d t).
Definition remh (d : disk) (t : txn) := skipn (length (updated t)) (flips d t).
Definition updh (d : disk) (t : txn) := firstn (length (updated t)) (flips d t).
Definition unused (d : disk) (t : txn) := map inactive (updh d t) ++ map active (remh d t).
Definition reg6 (d : disk) (t : txn) := fold_left reg_del (map lid (remh d t)) (reg5 d t).
Definition blobs6 (d : disk) (t : txn) := blob_del (blob_del (blobs4 d t) (unused d t)) (obsolete t).
Definition finalD (d : disk) (t : txn) : disk :=
  mkD (reg6 d t) (blobs6 d t) (upd_counts (counts d) (deltas t)) false None.

(* the guards that make every step of the commit succeed *)
Record Guards (d : disk) (t : txn) : Prop := mkG {
  G_tracked : tracked t = true;
  G_roots : reg_get (reg d) (roots t) = [];
  G_fetched : versions_match (reg1 d t) (fetched t) = true;
  G_claims : claims (reg1 d t) (updated t) = Some (uhs d t);
  G_marks : marks (reg2 d t) (removed t) = Some (mhs d t);
  G_present : forallb (fun l => match lookup (reg5 d t) l with Some _ => true | None => false end)
                      (map lid (remh d t)) = true;
  G_plog : plog d = None
}.

Lemma phase1_success d t s : Guards d t -> fault s = None -> dk s = d ->
  StepTo (phase1 t) s
         (mkD (reg4 d t) (blobs4 d t) (upd_counts (counts d) (deltas t)) true
              (if nonempty (uh4 d t) || nonempty (rh4 d t) then Some (uh4 d t ++ rh4 d t) else plog d)).
Proof.
  intros G F D. unfold phase1. rewrite (G_tracked _ _ G). cbn [when].
  eapply step_seq; [eapply step_log; [exact F|exact D]|]. intros s1 F1 D1. cbn [reg blobs counts tlog plog] in D1.
  eapply step_seq; [eapply step_log; [exact F1|exact D1]|]. clear s1 F1 D1. intros s1 F1 D1. cbn [reg blobs counts tlog plog] in D1.
  eapply step_seq; [eapply step_blobadd; [exact F1|exact D1]|]. clear s1 F1 D1. intros s1 F1 D1. cbn [reg blobs counts tlog plog] in D1.
  eapply step_seq; [eapply step_log; [exact F1|exact D1]|]. clear s1 F1 D1. intros s1 F1 D1. cbn [reg blobs counts tlog plog] in D1.
  eapply step_seq; [eapply step_roots; [exact F1|exact D1|exact (G_roots _ _ G)]|]. clear s1 F1 D1. intros s1 F1 D1. cbn [reg blobs counts tlog plog] in D1.
  eapply step_seq; [eapply step_log; [exact F1|exact D1]|]. clear s1 F1 D1. intros s1 F1 D1. cbn [reg blobs counts tlog plog] in D1.
  eapply step_seq; [eapply step_fetched; [exact F1|exact D1|exact (G_fetched _ _ G)]|]. clear s1 F1 D1. intros s1 F1 D1. cbn [reg blobs counts tlog plog] in D1.
  eapply step_seq; [eapply step_updated; [exact F1|exact D1|exact (G_claims _ _ G)]|]. clear s1 F1 D1. intros s1 F1 D1. cbn [reg blobs counts tlog plog] in D1.
  eapply step_seq; [eapply step_log; [exact F1|exact D1]|]. clear s1 F1 D1. intros s1 F1 D1. cbn [reg blobs counts tlog plog] in D1.
  eapply step_seq; [eapply step_log; [exact F1|exact D1]|]. clear s1 F1 D1. intros s1 F1 D1. cbn [reg blobs counts tlog plog] in D1.
  eapply step_seq; [eapply step_removed; [exact F1|exact D1|exact (G_marks _ _ G)]|]. clear s1 F1 D1. intros s1 F1 D1. cbn [reg blobs counts tlog plog] in D1.
  eapply step_seq; [eapply step_log; [exact F1|exact D1]|]. clear s1 F1 D1. intros s1 F1 D1. cbn [reg blobs counts tlog plog] in D1.
  eapply step_seq; [eapply step_added; [exact F1|exact D1]|]. clear s1 F1 D1. intros s1 F1 D1. cbn [reg blobs counts tlog plog] in D1.
  eapply step_seq; [eapply step_log; [exact F1|exact D1]|]. clear s1 F1 D1. intros s1 F1 D1. cbn [reg blobs counts tlog plog] in D1.
  eapply step_seq; [eapply step_sr; [exact F1|exact D1]|]. clear s1 F1 D1. intros s1 F1 D1. cbn [reg blobs counts tlog plog] in D1.
  eapply step_seq; [eapply step_log; [exact F1|exact D1]|]. clear s1 F1 D1. intros s1 F1 D1. cbn [reg blobs counts tlog plog] in D1.
  exact (step_plogadd t s1 _ F1 D1).
Qed.

(* --- phase 2 and cleanup *)

Lemma best_blobremove ids s d : fault s = None -> dk s = d ->
  fault (if nonempty ids then best (issue (BlobRemove ids)) s else s) = None
  /\ dk (if nonempty ids then best (issue (BlobRemove ids)) s else s)
     = mkD (reg d) (blob_del (blobs d) ids) (counts d) (tlog d) (plog d).
Proof.
  intros F D. destruct ids as [|x xs]; cbn [nonempty].
  - rewrite blob_del_nil, disk_eta. auto.
  - eapply best_ok; [exact F|exact D|reflexivity].
Qed.

Lemma cleanup_success fl t s d0 :
  fault s = None -> dk s = d0 ->
  forallb (fun l => match lookup (reg d0) l with Some _ => true | None => false end)
          (map lid (skipn (length (updated t)) fl)) = true ->
  dk (cleanup fl t s)
  = mkD (fold_left reg_del (map lid (skipn (length (updated t)) fl)) (reg d0))
        (blob_del (blob_del (blobs d0)
                            (map inactive (firstn (length (updated t)) fl) ++ map active (skipn (length (updated t)) fl)))
                  (obsolete t))
        (counts d0) false (plog d0).
Proof.
  intros F D G. unfold cleanup.
  destruct (log_ok deleteObsoleteEntries s F) as [s1 [E1 [F1 D1]]]. rewrite E1. rewrite D in D1.
  cbv zeta.
  set (un := map inactive (firstn (length (updated t)) fl) ++ map active (skipn (length (updated t)) fl)).
  destruct (best_blobremove un s1 _ F1 D1) as [F2 D2]. cbn [reg blobs counts tlog plog] in D2.
  set (s2 := if nonempty un then best (issue (BlobRemove un)) s1 else s1) in *.
  assert (A3 : apply_call (dk s2) (RegRemove (map lid (skipn (length (updated t)) fl)))
               = Some (mkD (fold_left reg_del (map lid (skipn (length (updated t)) fl)) (reg d0))
                           (blob_del (blobs d0) un) (counts d0) true (plog d0))).
  { rewrite D2. cbn [apply_call reg blobs counts tlog plog]. rewrite G. reflexivity. }
  destruct (best_ok _ s2 _ _ F2 eq_refl A3) as [F3 D3].
  set (s3 := best (issue (RegRemove (map lid (skipn (length (updated t)) fl)))) s2) in *.
  destruct (log_ok deleteTrackedItemsValues s3 F3) as [s4 [E4 [F4 D4]]]. rewrite E4. rewrite D3 in D4.
  cbn [reg blobs counts tlog plog] in D4.
  destruct (best_blobremove (obsolete t) s4 _ F4 D4) as [F5 D5]. cbn [reg blobs counts tlog plog] in D5.
  set (s5 := if nonempty (obsolete t) then best (issue (BlobRemove (obsolete t))) s4 else s4) in *.
  assert (A6 : apply_call (dk s5) TlogRemove
               = Some (mkD (fold_left reg_del (map lid (skipn (length (updated t)) fl)) (reg d0))
                           (blob_del (blob_del (blobs d0) un) (obsolete t)) (counts d0) false (plog d0))).
  { rewrite D5. reflexivity. }
  exact (proj2 (best_ok _ s5 _ _ F5 eq_refl A6)).
Qed.

Lemma nonempty_flips (uh rh : list handle) :
  nonempty (map flip uh ++ map touch rh) = nonempty uh || nonempty rh.
Proof. destruct uh; destruct rh; reflexivity. Qed.

Lemma commit_success d t : Guards d t ->
  exists s', commit t (init d None) = (Committed, s') /\ dk s' = finalD d t.
Proof.
  intros G.
  destruct (phase1_success d t (init d None) G eq_refl eq_refl) as [s1 [E1 [F1 D1]]].
  unfold commit. rewrite E1.
  destruct (log_ok finalizeCommit s1 F1) as [s2 [E2 [F2 D2]]]. rewrite E2. rewrite D1 in D2.
  cbn [reg blobs counts tlog plog] in D2. cbv zeta.
  assert (Hfl : to_flip t s2 = flips d t) by (unfold to_flip, cur_handles; rewrite D2; reflexivity).
  rewrite Hfl. pose proof (G_present _ _ G) as GP. unfold remh in GP.
  unfold flips at 1. rewrite nonempty_flips. rewrite (G_plog _ _ G) in D2.
  destruct (nonempty (uh4 d t) || nonempty (rh4 d t)) eqn:NE.
  - assert (A3 : apply_call (dk s2) (RegUpd true (flips d t))
                 = Some (mkD (reg5 d t) (blobs4 d t) (upd_counts (counts d) (deltas t)) true
                             (Some (uh4 d t ++ rh4 d t)))) by (rewrite D2; reflexivity).
    rewrite (issue_ok _ _ _ F2 A3).
    eexists; split; [reflexivity|].
    match goal with |- dk (cleanup _ _ (best (issue PlogRemove) ?s)) = _ =>
      destruct (best_ok PlogRemove s _ _ eq_refl eq_refl eq_refl) as [F4 D4] end.
    cbn [dk reg blobs counts tlog plog apply_call] in D4.
    rewrite (cleanup_success _ t _ _ F4 D4); [reflexivity|exact GP].
  - eexists; split; [reflexivity|].
    assert (E0 : flips d t = []).
    { unfold flips. apply orb_false_elim in NE. destruct NE as [N1 N2].
      destruct (uh4 d t); [|discriminate]. destruct (rh4 d t); [|discriminate]. reflexivity. }
    rewrite (cleanup_success _ t _ _ F2 D2).
    + unfold finalD, reg6, blobs6, unused, updh, remh, reg5. rewrite E0. reflexivity.
    + cbn [reg]. unfold reg5 in GP. rewrite E0 in GP. cbn [fold_left] in GP. rewrite E0. exact GP.
Qed.

Theorem run_success d t : Guards d t -> exists tr, run t d None = (Committed, finalD d t, tr).
Proof.
  intros G. destruct (commit_success d t G) as [s' [E D]]. unfold run. rewrite E, D. eexists; reflexivity.
Qed.

(* ------------------------------------------------------------------ registry list lemmas *)

Lemma lookup_fold_set_notin hs : forall r l, (forall h, In h hs -> lid h <> l) ->
  lookup (fold_left reg_set hs r) l = lookup r l.
Proof.
  induction hs as [|x hs IH]; cbn [fold_left]; intros r l Hn; [reflexivity|].
  rewrite IH by (intros h Hh; apply Hn; right; exact Hh).
  rewrite lookup_reg_set. destruct (N.eqb_spec (lid x) l) as [E|E]; [|reflexivity].
  exfalso. exact (Hn x (or_introl eq_refl) E).
Qed.

Lemma lookup_fold_set_in hs : forall r h, NoDup (map lid hs) -> In h hs ->
  lookup (fold_left reg_set hs r) (lid h) = Some h.
Proof.
  induction hs as [|x hs IH]; cbn [fold_left map]; intros r h Hnd Hin; [contradiction|].
  inversion Hnd as [|? ? Hx Hnd']; subst. destruct Hin as [E|Hin].
  - subst x. rewrite lookup_fold_set_notin.
    + rewrite lookup_reg_set, N.eqb_refl. reflexivity.
    + intros h' Hh' E. apply Hx. rewrite <- E. apply in_map. exact Hh'.
  - apply IH; assumption.
Qed.

Lemma lookup_None_notin r l : ~ In l (map lid r) -> lookup r l = None.
Proof.
  induction r as [|x r IH]; cbn [map lookup]; intros Hn; [reflexivity|].
  destruct (N.eqb_spec (lid x) l) as [E|E]; [exfalso; apply Hn; left; exact E|].
  apply IH. intros H; apply Hn; right; exact H.
Qed.

Lemma lookup_Some_in r l h : lookup r l = Some h -> In l (map lid r).
Proof. intros H. destruct (lookup_In _ _ _ H) as [Hin E]. rewrite <- E. apply in_map. exact Hin. Qed.

Lemma In_lid_reg_set r h l : In l (map lid (reg_set r h)) -> l = lid h \/ In l (map lid r).
Proof.
  intros H. apply in_map_iff in H. destruct H as [x [E Hx]]. destruct (In_reg_set _ _ _ Hx) as [H|H].
  - left. congruence.
  - right. rewrite <- E. apply in_map. exact H.
Qed.

Lemma nodup_reg_set r h : NoDup (map lid r) -> NoDup (map lid (reg_set r h)).
Proof.
  induction r as [|x r IH]; cbn [reg_set map]; intros Hnd.
  - constructor; [intros []|constructor].
  - inversion Hnd as [|? ? Hx Hnd']; subst. destruct (N.eqb_spec (lid x) (lid h)) as [E|E]; cbn [map].
    + rewrite <- E. constructor; assumption.
    + constructor; [|apply IH; exact Hnd']. intros H. destruct (In_lid_reg_set _ _ _ H) as [H1|H1]; [congruence|contradiction].
Qed.

Lemma nodup_fold_set hs : forall r, NoDup (map lid r) -> NoDup (map lid (fold_left reg_set hs r)).
Proof.
  induction hs as [|x hs IH]; cbn [fold_left]; intros r H; [exact H|]. apply IH. apply nodup_reg_set. exact H.
Qed.

Lemma lookup_reg_del_same r l : NoDup (map lid r) -> lookup (reg_del r l) l = None.
Proof.
  induction r as [|x r IH]; cbn [reg_del map]; intros Hnd; [reflexivity|].
  inversion Hnd as [|? ? Hx Hnd']; subst. destruct (N.eqb_spec (lid x) l) as [E|E].
  - apply lookup_None_notin. rewrite <- E. exact Hx.
  - cbn [lookup]. destruct (N.eqb_spec (lid x) l) as [E2|_]; [contradiction|]. apply IH. exact Hnd'.
Qed.

Lemma nodup_reg_del r l : NoDup (map lid r) -> NoDup (map lid (reg_del r l)).
Proof.
  induction r as [|x r IH]; cbn [reg_del map]; intros Hnd; [constructor|].
  inversion Hnd as [|? ? Hx Hnd']; subst. destruct (lid x =? l); [exact Hnd'|].
  cbn [map]. constructor; [|apply IH; exact Hnd']. intros H. apply Hx.
  apply in_map_iff in H. destruct H as [y [E Hy]]. rewrite <- E. apply in_map. eapply In_reg_del; exact Hy.
Qed.

Lemma lookup_none_reg_del r i l : lookup r l = None -> lookup (reg_del r i) l = None.
Proof.
  induction r as [|x r IH]; cbn [reg_del lookup]; intros H; [reflexivity|].
  destruct (lid x =? l) eqn:E; [discriminate|]. destruct (lid x =? i); [exact H|].
  cbn [lookup]. rewrite E. apply IH. exact H.
Qed.

Lemma lookup_fold_del_none ids : forall r l, lookup r l = None -> lookup (fold_left reg_del ids r) l = None.
Proof.
  induction ids as [|i ids IH]; cbn [fold_left]; intros r l H; [exact H|]. apply IH. apply lookup_none_reg_del. exact H.
Qed.

Lemma lookup_fold_del_in ids : forall r l, NoDup (map lid r) -> In l ids -> lookup (fold_left reg_del ids r) l = None.
Proof.
  induction ids as [|i ids IH]; cbn [fold_left]; intros r l Hnd Hin; [contradiction|].
  destruct (N.eq_dec i l) as [E|E].
  - subst i. apply lookup_fold_del_none. apply lookup_reg_del_same. exact Hnd.
  - destruct Hin as [Hin|Hin]; [contradiction|]. apply IH; [apply nodup_reg_del; exact Hnd|exact Hin].
Qed.

Lemma reg_get_exact r ids hs : Forall2 (fun l h => lookup r l = Some h) ids hs -> reg_get r ids = hs.
Proof.
  intros H. induction H as [|l h ids hs E _ IH]; [reflexivity|].
  unfold reg_get in *. cbn [flat_map]. rewrite E, IH. reflexivity.
Qed.

Lemma reg_get_nil r ids : (forall l, In l ids -> lookup r l = None) -> reg_get r ids = [].
Proof.
  induction ids as [|i ids IH]; intros H; [reflexivity|].
  unfold reg_get in *. cbn [flat_map]. rewrite (H i (or_introl eq_refl)). cbn [app]. apply IH.
  intros l Hl. apply H. right. exact Hl.
Qed.

Lemma Forall2_map_l {A B} (f : A -> B) (P : B -> A -> Prop) (l : list A) :
  (forall x, In x l -> P (f x) x) -> Forall2 P (map f l) l.
Proof.
  induction l as [|x l IH]; intros H; cbn [map]; constructor.
  - apply H. left. reflexivity.
  - apply IH. intros y Hy. apply H. right. exact Hy.
Qed.

Lemma NoDup_app_inv {A} (a b : list A) : NoDup (a ++ b) -> NoDup a /\ NoDup b /\ (forall x, In x a -> ~ In x b).
Proof.
  induction a as [|x a IH]; cbn [app]; intros H.
  - split; [constructor|split; [exact H|intros x []]].
  - inversion H as [|? ? Hx Hnd]; subst. destruct (IH Hnd) as [Ha [Hb Hd]]. split; [|split].
    + constructor; [|exact Ha]. intros Hin. apply Hx. apply in_or_app. left. exact Hin.
    + exact Hb.
    + intros y [E|Hy]; [subst y; intros Hin; apply Hx; apply in_or_app; right; exact Hin|apply Hd; exact Hy].
Qed.

Lemma In_blob_add_new ids : forall b x, In x ids -> In x (blob_add b ids).
Proof.
  unfold blob_add. induction ids as [|i ids IH]; cbn [fold_left]; intros b x H; [contradiction|].
  destruct H as [E|H]; [|apply IH; exact H]. subst i.
  apply (In_blob_add ids). destruct (mem x b) eqn:M; [apply mem_In; exact M|apply in_or_app; right; left; reflexivity].
Qed.

(* ------------------------------------------------------------------ handle facts *)

Lemma claim_props h v p h' : claim h v p = Some h' ->
  lid h' = lid h /\ active h' = active h /\ inactive h' = p /\ ver h' = ver h /\ ver h = v.
Proof.
  unfold claim. destruct (del h && negb (expired h)); cbn [orb]; [discriminate|].
  destruct (Z.eqb_spec (ver h) v) as [Ev|Ev]; cbn [negb]; [|discriminate].
  set (h1 := if del h && expired h then set_del h false (wip h) else h).
  assert (H1 : lid h1 = lid h /\ active h1 = active h /\ ver h1 = ver h).
  { unfold h1. destruct (del h && expired h); [|auto]. destruct (set_del_props h false (wip h)) as [A [B [_ C]]]. auto. }
  destruct H1 as [A1 [B1 C1]].
  assert (Hal : forall g g', allocate g p = Some g' ->
                  lid g' = lid g /\ active g' = active g /\ inactive g' = p /\ ver g' = ver g).
  { intros g g'. unfold allocate. destruct (both_in_use g); [discriminate|]. intros E; inversion E; subst.
    destruct (set_inactive_props g p 2) as [A [B [C D]]]. auto. }
  destruct (allocate h1 p) as [h2|] eqn:E.
  - intros E2; inversion E2; subst. destruct (Hal _ _ E) as [A [B [C D]]].
    rewrite A, B, D, A1, B1, C1. auto.
  - destruct (expired h1); [|discriminate]. intros E2. destruct (Hal _ _ E2) as [A [B [C D]]].
    unfold clear_inactive in *. destruct (set_inactive_props h1 0 0) as [A' [B' [_ D']]].
    rewrite A, B, D, A', B', D', A1, B1, C1. auto.
Qed.

Lemma claims_exists r u :
  (forall x, In x u -> exists h h', lookup r (fst (fst x)) = Some h /\ claim h (snd (fst x)) (snd x) = Some h') ->
  exists hs, claims r u = Some hs.
Proof.
  induction u as [|[[l v] p] u IH]; intros H; cbn [claims]; [eauto|].
  destruct (H _ (or_introl eq_refl)) as [h [h' [E1 E2]]]. cbn [fst snd] in E1, E2. rewrite E1, E2.
  destruct IH as [hs Ehs]; [intros x Hx; apply H; right; exact Hx|]. rewrite Ehs. eauto.
Qed.

Lemma claims_spec r u : forall hs, claims r u = Some hs ->
  Forall2 (fun x h' => exists h, lookup r (fst (fst x)) = Some h /\ claim h (snd (fst x)) (snd x) = Some h') u hs.
Proof.
  induction u as [|[[l v] p] u IH]; cbn [claims]; intros hs E.
  - inversion E. constructor.
  - destruct (lookup r l) as [h|] eqn:El; [|discriminate].
    destruct (claim h v p) as [h'|] eqn:Ec; [|discriminate].
    destruct (claims r u) as [hs'|]; [|discriminate]. inversion E; subst.
    constructor; [exists h; cbn [fst snd]; auto|apply IH; reflexivity].
Qed.

Lemma marks_spec r u :
  (forall x, In x u -> exists h, lookup r (fst x) = Some h /\ del h = false /\ ver h = snd x) ->
  exists ms, marks r u = Some ms
    /\ Forall2 (fun x m => exists h, lookup r (fst x) = Some h /\ m = set_del h true 2) u ms.
Proof.
  induction u as [|[l v] u IH]; intros H; cbn [marks].
  - exists []. split; [reflexivity|constructor].
  - destruct (H _ (or_introl eq_refl)) as [h [E1 [E2 E3]]]. cbn [fst snd] in E1, E3. rewrite E1, E2, E3.
    rewrite Z.eqb_refl. cbn [negb orb].
    destruct IH as [ms [Em F2]]; [intros x Hx; apply H; right; exact Hx|]. rewrite Em.
    eexists; split; [reflexivity|]. constructor; [exists h; auto|exact F2].
Qed.

Lemma Forall2_In_r {A B} (R : A -> B -> Prop) u hs y : Forall2 R u hs -> In y hs -> exists x, In x u /\ R x y.
Proof.
  intros H. induction H as [|a b u hs Hab _ IH]; intros Hin; [contradiction|].
  destruct Hin as [E|Hin]; [subst y; exists a; split; [left; reflexivity|exact Hab]|].
  destruct (IH Hin) as [x [Hx HR]]. exists x. split; [right; exact Hx|exact HR].
Qed.

Lemma Forall2_In_l {A B} (R : A -> B -> Prop) u hs x : Forall2 R u hs -> In x u -> exists y, In y hs /\ R x y.
Proof.
  intros H. induction H as [|a b u hs Hab _ IH]; intros Hin; [contradiction|].
  destruct Hin as [E|Hin]; [subst x; exists b; split; [left; reflexivity|exact Hab]|].
  destruct (IH Hin) as [y [Hy HR]]. exists y. split; [right; exact Hy|exact HR].
Qed.

Lemma Forall2_map_eq {A B C} (f : A -> C) (g : B -> C) u hs :
  Forall2 (fun x y => g y = f x) u hs -> map g hs = map f u.
Proof. intros H. induction H as [|a b u hs Hab _ IH]; cbn [map]; [reflexivity|]. rewrite Hab, IH. reflexivity. Qed.

Lemma Forall2_weaken {A B} (R1 R2 : A -> B -> Prop) u hs :
  (forall x y, R1 x y -> R2 x y) -> Forall2 R1 u hs -> Forall2 R2 u hs.
Proof. intros Hi H. induction H; constructor; auto. Qed.

Lemma firstn_app_exact {A} (l1 l2 : list A) : firstn (length l1) (l1 ++ l2) = l1.
Proof. induction l1 as [|x l1 IH]; cbn [length firstn app]; [destruct l2; reflexivity|]. rewrite IH. reflexivity. Qed.

Lemma skipn_app_exact {A} (l1 l2 : list A) : skipn (length l1) (l1 ++ l2) = l2.
Proof. induction l1 as [|x l1 IH]; cbn [length skipn app]; [reflexivity|exact IH]. Qed.

Lemma inactive_flip h : inactive (flip h) = active h.
Proof. destruct h as [l a b ab v w dl]; destruct ab; reflexivity. Qed.
Lemma active_flip h : active (flip h) = inactive h.
Proof. destruct h as [l a b ab v w dl]; destruct ab; reflexivity. Qed.
Lemma active_touch h : active (touch h) = active h.
Proof. destruct h as [l a b ab v w dl]; destruct ab; reflexivity. Qed.

Lemma lids_new l : map lid (map new_handle l) = l.
Proof. induction l as [|x l IH]; cbn [map lid new_handle]; [reflexivity|]. rewrite IH. reflexivity. Qed.
Lemma lids_added l : map lid (map added_handle l) = l.
Proof. induction l as [|x l IH]; cbn [map lid added_handle]; [reflexivity|]. rewrite IH. reflexivity. Qed.

(* ------------------------------------------------------------------ well-formed single transaction *)

(* SW d t: what a consistent single transaction t satisfies with respect to the pre-commit disk d.
   Beyond the conditions that make each commit step succeed, two kinds of hypotheses are needed:
   - SW_plog (no stale priority log): when the transaction has no updated and no removed node, the
     commit neither writes nor removes the priority log, so plog d' = plog d;
   - SW_fresh_upd / SW_fresh_new: the blob ids the commit writes (new physical ids of updated nodes, ids of
     new roots and added nodes) are not the active blob of a pre-commit handle and are not listed in
     obsolete t: cleanup deletes exactly the old active blobs of updated/removed nodes and obsolete t,
     so a non-fresh id would be deleted again by cleanup.
   SW_tlog is listed because a consistent pre-state has no log of this transaction; no proof below uses it. *)
Record SW (d : disk) (t : txn) : Prop := mkSW {
  SW_tracked : tracked t = true;
  SW_ids : NoDup (roots t ++ map (fun x => fst (fst x)) (updated t) ++ map fst (removed t) ++ added t);
  SW_roots_new : forall l, In l (roots t) -> lookup (reg d) l = None;
  SW_added_new : forall l, In l (added t) -> lookup (reg d) l = None;
  SW_upd : forall l v p, In (l, v, p) (updated t) ->
             exists h h', lookup (reg d) l = Some h /\ claim h v p = Some h';
  SW_rem : forall l v, In (l, v) (removed t) ->
             exists h, lookup (reg d) l = Some h /\ del h = false /\ ver h = v;
  SW_fetched : versions_match (reg d) (fetched t) = true;
  SW_fetched_dom : forall x, In x (fetched t) -> exists h, lookup (reg d) (fst x) = Some h;
  SW_tlog : tlog d = false;
  SW_plog : plog d = None;
  SW_reg : NoDup (map lid (reg d));
  SW_fresh_upd : forall l v p, In (l, v, p) (updated t) -> ~ In p (actives d) /\ ~ In p (obsolete t);
  SW_fresh_new : forall l, In l (roots t ++ added t) -> ~ In l (actives d) /\ ~ In l (obsolete t)
}.

Section Success.
Variable d : disk.
Variable t : txn.
Hypothesis HW : SW d t.

Lemma ids_facts :
  NoDup (roots t) /\ NoDup (ulids t) /\ NoDup (rlids t) /\ NoDup (added t) /\ NoDup (ulids t ++ rlids t)
  /\ (forall l, In l (roots t) -> ~ In l (ulids t) /\ ~ In l (rlids t) /\ ~ In l (added t))
  /\ (forall l, In l (ulids t) -> ~ In l (rlids t) /\ ~ In l (added t))
  /\ (forall l, In l (rlids t) -> ~ In l (added t)).
Proof.
  pose proof (SW_ids _ _ HW) as H. fold (ulids t) (rlids t) in H.
  destruct (NoDup_app_inv _ _ H) as [N1 [N234 D1]].
  destruct (NoDup_app_inv _ _ N234) as [N2 [N34 D2]].
  destruct (NoDup_app_inv _ _ N34) as [N3 [N4 D3]].
  rewrite app_assoc in N234. destruct (NoDup_app_inv _ _ N234) as [N23 _].
  split; [exact N1|]. split; [exact N2|]. split; [exact N3|]. split; [exact N4|]. split; [exact N23|].
  split; [|split].
  - intros l Hl. split; [|split]; intros Hin; apply (D1 _ Hl); apply in_or_app.
    + left. exact Hin.
    + right. apply in_or_app. left. exact Hin.
    + right. apply in_or_app. right. exact Hin.
  - intros l Hl. split; intros Hin; apply (D2 _ Hl); apply in_or_app; [left|right]; exact Hin.
  - exact D3.
Qed.

Lemma reg1_other l : ~ In l (roots t) -> lookup (reg1 d t) l = lookup (reg d) l.
Proof.
  intros Hn. unfold reg1. apply lookup_fold_set_notin. intros h Hh E. apply Hn.
  apply in_map_iff in Hh. destruct Hh as [x [Ex Hx]]. subst h. cbn [lid new_handle] in E. subst x. exact Hx.
Qed.

Lemma reg1_root l : In l (roots t) -> lookup (reg1 d t) l = Some (new_handle l).
Proof.
  intros Hl. unfold reg1. destruct ids_facts as [N1 _].
  apply (lookup_fold_set_in (map new_handle (roots t)) (reg d) (new_handle l)).
  - rewrite lids_new. exact N1.
  - apply in_map. exact Hl.
Qed.

Lemma in_ulids x : In x (updated t) -> In (fst (fst x)) (ulids t).
Proof. intros H. unfold ulids. apply (in_map (fun x => fst (fst x))). exact H. Qed.
Lemma in_rlids x : In x (removed t) -> In (fst x) (rlids t).
Proof. intros H. unfold rlids. apply in_map. exact H. Qed.

Lemma upd_pre x : In x (updated t) ->
  exists h h', lookup (reg d) (fst (fst x)) = Some h /\ claim h (snd (fst x)) (snd x) = Some h'.
Proof. destruct x as [[l v] p]. intros H. exact (SW_upd _ _ HW l v p H). Qed.

Lemma not_root_of_some l h : lookup (reg d) l = Some h -> ~ In l (roots t).
Proof. intros E Hin. rewrite (SW_roots_new _ _ HW l Hin) in E. discriminate. Qed.

Lemma claims_ok1 : claims (reg1 d t) (updated t) = Some (uhs d t).
Proof.
  destruct (claims_exists (reg1 d t) (updated t)) as [hs E].
  - intros x Hx. destruct (upd_pre x Hx) as [h [h' [E1 E2]]]. exists h, h'.
    rewrite reg1_other by (eapply not_root_of_some; exact E1). auto.
  - unfold uhs. rewrite E. reflexivity.
Qed.

Lemma Forall2_In_strengthen {A B} (R : A -> B -> Prop) u hs :
  Forall2 R u hs -> Forall2 (fun x y => In x u /\ R x y) u hs.
Proof.
  intros H. induction H as [|a b u hs Hab _ IH]; constructor.
  - split; [left; reflexivity|exact Hab].
  - eapply Forall2_weaken; [|exact IH]. cbv beta. intros x y [Hx HR]. split; [right; exact Hx|exact HR].
Qed.

Lemma uhs_F2 : Forall2 (fun x h' => In x (updated t) /\ exists h, lookup (reg d) (fst (fst x)) = Some h
                                   /\ claim h (snd (fst x)) (snd x) = Some h') (updated t) (uhs d t).
Proof.
  pose proof (Forall2_In_strengthen _ _ _ (claims_spec _ _ _ claims_ok1)) as F2.
  eapply Forall2_weaken; [|exact F2]. cbv beta. intros x h' [Hx [h [E1 E2]]].
  split; [exact Hx|]. exists h. split; [|exact E2].
  destruct (upd_pre x Hx) as [h0 [_ [E0 _]]].
  rewrite <- reg1_other by (eapply not_root_of_some; exact E0). exact E1.
Qed.

Lemma uhs_lids : map lid (uhs d t) = ulids t.
Proof.
  unfold ulids. apply Forall2_map_eq. eapply Forall2_weaken; [|exact uhs_F2]. cbv beta.
  intros x h' [_ [h [E1 E2]]]. destruct (claim_props _ _ _ _ E2) as [A _]. rewrite A.
  exact (proj2 (lookup_In _ _ _ E1)).
Qed.

Lemma uhs_in h' : In h' (uhs d t) ->
  exists x h, In x (updated t) /\ lookup (reg d) (fst (fst x)) = Some h
              /\ claim h (snd (fst x)) (snd x) = Some h' /\ lid h' = fst (fst x).
Proof.
  intros Hin. destruct (Forall2_In_r _ _ _ _ uhs_F2 Hin) as [x [_ [Hx [h [E1 E2]]]]].
  exists x, h. repeat split; try assumption.
  destruct (claim_props _ _ _ _ E2) as [A _]. rewrite A. exact (proj2 (lookup_In _ _ _ E1)).
Qed.

Lemma upd_in x : In x (updated t) ->
  exists h h', In h' (uhs d t) /\ lookup (reg d) (fst (fst x)) = Some h
               /\ claim h (snd (fst x)) (snd x) = Some h' /\ lid h' = fst (fst x).
Proof.
  intros Hin. destruct (Forall2_In_l _ _ _ _ uhs_F2 Hin) as [h' [Hh' [_ [h [E1 E2]]]]].
  exists h, h'. repeat split; try assumption.
  destruct (claim_props _ _ _ _ E2) as [A _]. rewrite A. exact (proj2 (lookup_In _ _ _ E1)).
Qed.

Lemma uhs_lid_in h' : In h' (uhs d t) -> In (lid h') (ulids t).
Proof. intros H. rewrite <- uhs_lids. apply in_map. exact H. Qed.

Lemma reg2_other l : ~ In l (ulids t) -> lookup (reg2 d t) l = lookup (reg1 d t) l.
Proof.
  intros Hn. unfold reg2. apply lookup_fold_set_notin. intros h Hh E. apply Hn. rewrite <- E. apply uhs_lid_in. exact Hh.
Qed.

Lemma reg2_upd h' : In h' (uhs d t) -> lookup (reg2 d t) (lid h') = Some h'.
Proof.
  intros Hin. unfold reg2. apply lookup_fold_set_in; [|exact Hin]. rewrite uhs_lids.
  destruct ids_facts as [_ [N2 _]]. exact N2.
Qed.

Lemma rem_pre x : In x (removed t) -> exists h, lookup (reg d) (fst x) = Some h /\ del h = false /\ ver h = snd x.
Proof. destruct x as [l v]. intros H. exact (SW_rem _ _ HW l v H). Qed.

Lemma reg2_rem x : In x (removed t) -> lookup (reg2 d t) (fst x) = lookup (reg d) (fst x).
Proof.
  intros Hx. destruct (rem_pre x Hx) as [h [E _]].
  destruct ids_facts as [_ [_ [_ [_ [_ [_ [D2 _]]]]]]].
  rewrite reg2_other.
  - apply reg1_other. eapply not_root_of_some; exact E.
  - intros Hu. exact (proj1 (D2 _ Hu) (in_rlids x Hx)).
Qed.

Lemma marks_ok1 : marks (reg2 d t) (removed t) = Some (mhs d t)
  /\ Forall2 (fun x m => In x (removed t) /\ exists h, lookup (reg d) (fst x) = Some h /\ m = set_del h true 2)
             (removed t) (mhs d t).
Proof.
  destruct (marks_spec (reg2 d t) (removed t)) as [ms [E F2]].
  - intros x Hx. rewrite (reg2_rem x Hx). exact (rem_pre x Hx).
  - unfold mhs. rewrite E. split; [reflexivity|].
    eapply Forall2_weaken; [|exact (Forall2_In_strengthen _ _ _ F2)]. cbv beta.
    intros x m [Hx [h [E1 E2]]]. split; [exact Hx|]. exists h. rewrite <- (reg2_rem x Hx). auto.
Qed.

Lemma mhs_lids : map lid (mhs d t) = rlids t.
Proof.
  unfold rlids. apply Forall2_map_eq. eapply Forall2_weaken; [|exact (proj2 marks_ok1)]. cbv beta.
  intros x m [_ [h [E1 E2]]]. subst m. cbn [lid set_del]. exact (proj2 (lookup_In _ _ _ E1)).
Qed.

Lemma mhs_in m : In m (mhs d t) ->
  exists x h, In x (removed t) /\ lookup (reg d) (fst x) = Some h /\ m = set_del h true 2 /\ lid m = fst x.
Proof.
  intros Hin. destruct (Forall2_In_r _ _ _ _ (proj2 marks_ok1) Hin) as [x [_ [Hx [h [E1 E2]]]]].
  exists x, h. repeat split; try assumption. subst m. cbn [lid set_del]. exact (proj2 (lookup_In _ _ _ E1)).
Qed.

Lemma rem_in x : In x (removed t) -> exists m, In m (mhs d t) /\ lid m = fst x.
Proof.
  intros Hin. destruct (Forall2_In_l _ _ _ _ (proj2 marks_ok1) Hin) as [m [Hm [_ [h [E1 E2]]]]].
  exists m. split; [exact Hm|]. subst m. cbn [lid set_del]. exact (proj2 (lookup_In _ _ _ E1)).
Qed.

Lemma mhs_lid_in m : In m (mhs d t) -> In (lid m) (rlids t).
Proof. intros H. rewrite <- mhs_lids. apply in_map. exact H. Qed.

Lemma reg3_other l : ~ In l (rlids t) -> lookup (reg3 d t) l = lookup (reg2 d t) l.
Proof.
  intros Hn. unfold reg3. apply lookup_fold_set_notin. intros h Hh E. apply Hn. rewrite <- E. apply mhs_lid_in. exact Hh.
Qed.

Lemma reg3_rem m : In m (mhs d t) -> lookup (reg3 d t) (lid m) = Some m.
Proof.
  intros Hin. unfold reg3. apply lookup_fold_set_in; [|exact Hin]. rewrite mhs_lids.
  destruct ids_facts as [_ [_ [N3 _]]]. exact N3.
Qed.

Lemma reg4_other l : ~ In l (added t) -> lookup (reg4 d t) l = lookup (reg3 d t) l.
Proof.
  intros Hn. unfold reg4. apply lookup_fold_set_notin. intros h Hh E. apply Hn.
  apply in_map_iff in Hh. destruct Hh as [x [Ex Hx]]. subst h. cbn [lid added_handle] in E. subst x. exact Hx.
Qed.

Lemma reg4_added l : In l (added t) -> lookup (reg4 d t) l = Some (added_handle l).
Proof.
  intros Hl. unfold reg4. destruct ids_facts as [_ [_ [_ [N4 _]]]].
  apply (lookup_fold_set_in (map added_handle (added t)) (reg3 d t) (added_handle l)).
  - rewrite lids_added. exact N4.
  - apply in_map. exact Hl.
Qed.

Lemma uh4_eq : uh4 d t = uhs d t.
Proof.
  unfold uh4. apply reg_get_exact. rewrite <- uhs_lids. apply Forall2_map_l. intros h Hh.
  pose proof (uhs_lid_in h Hh) as Hu. destruct ids_facts as [_ [_ [_ [_ [_ [_ [D2 _]]]]]]].
  destruct (D2 _ Hu) as [Nr Na].
  rewrite reg4_other by exact Na. rewrite reg3_other by exact Nr. apply reg2_upd. exact Hh.
Qed.

Lemma rh4_eq : rh4 d t = mhs d t.
Proof.
  unfold rh4. apply reg_get_exact. rewrite <- mhs_lids. apply Forall2_map_l. intros m Hm.
  pose proof (mhs_lid_in m Hm) as Hr. destruct ids_facts as [_ [_ [_ [_ [_ [_ [_ D3]]]]]]].
  rewrite reg4_other by exact (D3 _ Hr). apply reg3_rem. exact Hm.
Qed.

Lemma flips_eq : flips d t = map flip (uhs d t) ++ map touch (mhs d t).
Proof. unfold flips. rewrite uh4_eq, rh4_eq. reflexivity. Qed.

Lemma len_uhs : length (updated t) = length (map flip (uhs d t)).
Proof.
  rewrite map_length. rewrite <- (map_length lid (uhs d t)), uhs_lids. unfold ulids. rewrite map_length. reflexivity.
Qed.

Lemma updh_eq : updh d t = map flip (uhs d t).
Proof. unfold updh. rewrite flips_eq, len_uhs. apply firstn_app_exact. Qed.

Lemma remh_eq : remh d t = map touch (mhs d t).
Proof. unfold remh. rewrite flips_eq, len_uhs. apply skipn_app_exact. Qed.

Lemma remh_lids : map lid (remh d t) = rlids t.
Proof.
  rewrite remh_eq, map_map. rewrite <- mhs_lids. apply map_ext. intros m. reflexivity.
Qed.

Lemma flips_lids : map lid (flips d t) = ulids t ++ rlids t.
Proof.
  rewrite flips_eq, map_app, !map_map. rewrite <- uhs_lids, <- mhs_lids. f_equal; apply map_ext; intros h; reflexivity.
Qed.

Lemma reg5_other l : ~ In l (ulids t) -> ~ In l (rlids t) -> lookup (reg5 d t) l = lookup (reg4 d t) l.
Proof.
  intros Nu Nr. unfold reg5. apply lookup_fold_set_notin. intros h Hh E.
  assert (Hl : In l (ulids t ++ rlids t)) by (rewrite <- flips_lids, <- E; apply in_map; exact Hh).
  apply in_app_or in Hl. tauto.
Qed.

Lemma reg5_in h : In h (flips d t) -> lookup (reg5 d t) (lid h) = Some h.
Proof.
  intros Hin. unfold reg5. apply lookup_fold_set_in; [|exact Hin]. rewrite flips_lids.
  destruct ids_facts as [_ [_ [_ [_ [N23 _]]]]]. exact N23.
Qed.

Lemma reg5_upd h' : In h' (uhs d t) -> lookup (reg5 d t) (lid h') = Some (flip h').
Proof.
  intros Hin. apply (reg5_in (flip h')). rewrite flips_eq. apply in_or_app. left. apply in_map. exact Hin.
Qed.

Lemma reg5_rem m : In m (mhs d t) -> lookup (reg5 d t) (lid m) = Some (touch m).
Proof.
  intros Hin. apply (reg5_in (touch m)). rewrite flips_eq. apply in_or_app. right. apply in_map. exact Hin.
Qed.

Lemma nodup_reg5 : NoDup (map lid (reg5 d t)).
Proof.
  unfold reg5, reg4, reg3, reg2, reg1. repeat apply nodup_fold_set. exact (SW_reg _ _ HW).
Qed.

Lemma reg6_rem l : In l (rlids t) -> lookup (reg6 d t) l = None.
Proof.
  intros Hl. unfold reg6. rewrite remh_lids. apply lookup_fold_del_in; [exact nodup_reg5|exact Hl].
Qed.

Lemma reg6_other l : ~ In l (rlids t) -> lookup (reg6 d t) l = lookup (reg5 d t) l.
Proof. intros Hl. unfold reg6. rewrite remh_lids. apply lookup_fold_del. exact Hl. Qed.

Lemma SW_Guards : Guards d t.
Proof.
  constructor.
  - exact (SW_tracked _ _ HW).
  - apply reg_get_nil. exact (SW_roots_new _ _ HW).
  - unfold versions_match. apply forallb_forall. intros x Hx.
    destruct (SW_fetched_dom _ _ HW x Hx) as [h E].
    rewrite reg1_other by (eapply not_root_of_some; exact E).
    pose proof (SW_fetched _ _ HW) as Hv. unfold versions_match in Hv. rewrite forallb_forall in Hv. exact (Hv x Hx).
  - exact claims_ok1.
  - exact (proj1 marks_ok1).
  - apply forallb_forall. intros l Hl. rewrite remh_lids, <- mhs_lids in Hl. apply in_map_iff in Hl.
    destruct Hl as [m [E Hm]]. subst l. rewrite (reg5_rem m Hm). reflexivity.
  - exact (SW_plog _ _ HW).
Qed.

Lemma in_actives h l : lookup (reg d) l = Some h -> In (active h) (actives d).
Proof. intros E. unfold actives. apply in_map. exact (proj1 (lookup_In _ _ _ E)). Qed.

(* cleanup deletes only blobs that were the active blob of a pre-commit handle (and obsolete t) *)
Lemma unused_sub x : In x (unused d t) -> In x (actives d).
Proof.
  unfold unused. rewrite updh_eq, remh_eq, !map_map. intros H. apply in_app_or in H. destruct H as [H|H].
  - apply in_map_iff in H. destruct H as [h' [E Hh']]. rewrite inactive_flip in E. subst x.
    destruct (uhs_in h' Hh') as [y [h [_ [E1 [E2 _]]]]].
    destruct (claim_props _ _ _ _ E2) as [_ [A _]]. rewrite A. eapply in_actives; exact E1.
  - apply in_map_iff in H. destruct H as [m [E Hm]]. rewrite active_touch in E. subst x.
    destruct (mhs_in m Hm) as [y [h [_ [E1 [E2 _]]]]]. subst m.
    destruct (set_del_props h true 2) as [_ [A _]]. rewrite A. eapply in_actives; exact E1.
Qed.

Lemma blobs6_in x : In x (blobs4 d t) -> ~ In x (actives d) -> ~ In x (obsolete t) -> In x (blobs6 d t).
Proof.
  intros H Na No. unfold blobs6. apply In_blob_del; [|exact No]. apply In_blob_del; [exact H|].
  intros Hu. apply Na. apply unused_sub. exact Hu.
Qed.

Lemma final_updated l v p : In (l, v, p) (updated t) ->
  resolve (finalD d t) l = Some p
  /\ (exists h, lookup (reg (finalD d t)) l = Some h /\ ver h = (v + 1)%Z)
  /\ In p (blobs (finalD d t)).
Proof.
  intros Hx. destruct (upd_in _ Hx) as [h [h' [Hh' [E1 [E2 E3]]]]]. cbn [fst snd] in E1, E2, E3.
  destruct (claim_props _ _ _ _ E2) as [_ [_ [Ai [Av Av']]]].
  assert (Hu : In l (ulids t)) by exact (in_ulids _ Hx).
  destruct ids_facts as [_ [_ [_ [_ [_ [_ [D2 _]]]]]]]. destruct (D2 _ Hu) as [Nr _].
  assert (EL : lookup (reg6 d t) l = Some (flip h')).
  { rewrite reg6_other by exact Nr. rewrite <- E3. apply reg5_upd. exact Hh'. }
  unfold finalD; cbn [reg blobs]. unfold resolve. unfold finalD; cbn [reg]. rewrite EL. cbv beta iota. split; [|split].
  - rewrite active_flip, Ai. reflexivity.
  - exists (flip h'). split; [reflexivity|]. cbn [ver flip]. rewrite Av, Av'. reflexivity.
  - destruct (SW_fresh_upd _ _ HW l v p Hx) as [Na No]. apply blobs6_in; [|exact Na|exact No].
    unfold blobs4. apply In_blob_add. apply In_blob_add_new. apply (in_map snd _ _ Hx).
Qed.

Lemma final_removed l v : In (l, v) (removed t) -> lookup (reg (finalD d t)) l = None.
Proof. intros Hx. unfold finalD; cbn [reg]. apply reg6_rem. exact (in_rlids _ Hx). Qed.

Lemma final_root l : In l (roots t) -> lookup (reg6 d t) l = Some (new_handle l).
Proof.
  intros Hl. destruct ids_facts as [_ [_ [_ [_ [_ [D1 _]]]]]]. destruct (D1 _ Hl) as [Nu [Nr Na]].
  rewrite reg6_other, reg5_other, reg4_other, reg3_other, reg2_other by assumption. apply reg1_root. exact Hl.
Qed.

Lemma final_added l : In l (added t) -> lookup (reg6 d t) l = Some (added_handle l).
Proof.
  intros Hl. destruct ids_facts as [_ [_ [_ [_ [_ [_ [D2 D3]]]]]]].
  assert (Nr : ~ In l (rlids t)) by (intros H; exact (D3 _ H Hl)).
  assert (Nu : ~ In l (ulids t)) by (intros H; exact (proj2 (D2 _ H) Hl)).
  rewrite reg6_other, reg5_other by assumption. apply reg4_added. exact Hl.
Qed.

Lemma final_new l : In l (roots t ++ added t) ->
  resolve (finalD d t) l = Some l /\ In l (blobs (finalD d t)).
Proof.
  intros Hl. destruct (SW_fresh_new _ _ HW l Hl) as [Na No]. unfold resolve. unfold finalD; cbn [reg blobs].
  apply in_app_or in Hl. destruct Hl as [Hl|Hl].
  - rewrite (final_root l Hl). split; [reflexivity|]. apply blobs6_in; [|exact Na|exact No].
    unfold blobs4. apply In_blob_add. apply In_blob_add. apply In_blob_add_new. exact Hl.
  - rewrite (final_added l Hl). split; [reflexivity|]. apply blobs6_in; [|exact Na|exact No].
    unfold blobs4. apply In_blob_add_new. exact Hl.
Qed.

Lemma final_other l : ~ In l (roots t) -> ~ In l (ulids t) -> ~ In l (rlids t) -> ~ In l (added t) ->
  lookup (reg (finalD d t)) l = lookup (reg d) l.
Proof.
  intros N1 N2 N3 N4. unfold finalD; cbn [reg].
  rewrite reg6_other, reg5_other, reg4_other, reg3_other, reg2_other, reg1_other by assumption. reflexivity.
Qed.

End Success.

(* ------------------------------------------------------------------ the success half *)

Theorem commit_success_outcome d t : SW d t -> exists d' tr, run t d None = (Committed, d', tr).
Proof.
  intros HW. destruct (run_success d t (SW_Guards d t HW)) as [tr E]. exists (finalD d t), tr. exact E.
Qed.

Theorem commit_success_view d t d' tr :
  SW d t -> run t d None = (Committed, d', tr) ->
  (* (a) *) (forall l v p, In (l, v, p) (updated t) ->
              resolve d' l = Some p /\ (exists h, lookup (reg d') l = Some h /\ ver h = (v + 1)%Z) /\ In p (blobs d'))
  (* (b) *) /\ (forall l v, In (l, v) (removed t) -> lookup (reg d') l = None)
  (* (c) *) /\ (forall l, In l (roots t ++ added t) -> resolve d' l = Some l /\ In l (blobs d'))
  (* (d) *) /\ (forall l, ~ In l (roots t) -> ~ In l (map (fun x => fst (fst x)) (updated t)) ->
                          ~ In l (map fst (removed t)) -> ~ In l (added t) ->
                          lookup (reg d') l = lookup (reg d) l)
  (* (e) *) /\ tlog d' = false /\ plog d' = None
  (* (f) *) /\ (forall s, count_of d' s = (count_of d s + delta_of (deltas t) s)%Z).
Proof.
  intros HW Hrun. destruct (run_success d t (SW_Guards d t HW)) as [tr' E]. rewrite E in Hrun.
  inversion Hrun; subst d' tr'. clear Hrun.
  split; [exact (final_updated d t HW)|]. split; [exact (final_removed d t HW)|].
  split; [exact (final_new d t HW)|]. split; [exact (final_other d t HW)|].
  split; [reflexivity|]. split; [reflexivity|].
  intros s. rewrite !count_of_cnt. unfold finalD; cbn [counts]. apply cnt_upd.
Qed.

(* ------------------------------------------------------------------ counts under an arbitrary fault *)

(* calls other than StoreRepository.Update *)
Definition nsr (c : call) : bool := match c with SrUpdate _ => false | _ => true end.
(* calls on which the backend itself never reports an error *)
Definition nbe (c : call) : bool := match c with TlogRemove | RegRemove _ => false | _ => true end.

Lemma apply_call_counts c d0 d1 : nsr c = true -> apply_call d0 c = Some d1 -> counts d1 = counts d0.
Proof.
  destruct c as [s| |ids|ids|ids|hs|b hs|ids|ds|hs| |]; cbn [nsr apply_call]; intros N A; try discriminate;
    try (inversion A; reflexivity).
  - destruct (tlog d0); inversion A; reflexivity.
  - destruct (forallb _ ids); inversion A; reflexivity.
Qed.

Lemma nbe_some c d0 : nbe c = true -> apply_call d0 c <> None.
Proof. destruct c; cbn [nbe apply_call]; intros N; discriminate. Qed.

Lemma issue_spec c s :
  cs (snd (issue c s)) = cs s
  /\ (nsr c = true -> counts (dk (snd (issue c s))) = counts (dk s))
  /\ (fst (issue c s) = false -> dk (snd (issue c s)) = dk s /\ (nbe c = true -> fault (snd (issue c s)) = None))
  /\ (fst (issue c s) = true -> apply_call (dk s) c = Some (dk (snd (issue c s))))
  /\ (fault s = None -> fault (snd (issue c s)) = None).
Proof.
  unfold issue. destruct (fault s) as [[|n]|] eqn:F.
  - cbn [fst snd cs dk fault]. repeat split; auto; discriminate.
  - destruct (apply_call (dk s) c) as [d1|] eqn:A; cbn [fst snd cs dk fault].
    + repeat split; auto; try discriminate. intros N. eapply apply_call_counts; eassumption.
    + repeat split; auto; try discriminate. intros N. exfalso. exact (nbe_some c (dk s) N A).
  - destruct (apply_call (dk s) c) as [d1|] eqn:A; cbn [fst snd cs dk fault].
    + repeat split; auto; try discriminate. intros N. eapply apply_call_counts; eassumption.
    + repeat split; auto; try discriminate.
Qed.

Lemma log_spec f s :
  cs (snd (log f s)) = f
  /\ counts (dk (snd (log f s))) = counts (dk s)
  /\ (fst (log f s) = false -> fault (snd (log f s)) = None)
  /\ (fault s = None -> fault (snd (log f s)) = None).
Proof.
  unfold log. destruct (issue_spec (TlogAdd f) (mkS (dk s) (tr s) (fault s) f)) as [A [B [C [_ D]]]].
  cbn [cs dk fault] in *. split; [exact A|]. split; [exact (B eq_refl)|]. split; [|exact D].
  intros Hf. exact (proj2 (C Hf) eq_refl).
Qed.

Lemma best_spec c s : nsr c = true ->
  counts (dk (best (issue c) s)) = counts (dk s) /\ cs (best (issue c) s) = cs s
  /\ (fault s = None -> fault (best (issue c) s) = None).
Proof. intros N. unfold best. destruct (issue_spec c s) as [A [B [_ [_ D]]]]. auto. Qed.

(* steps before `log commitStoreInfo`: counts untouched, committedState stays below commitStoreInfo *)
Definition LowStep (a : st -> flow * st) : Prop :=
  forall s, cs s <= 8 -> counts (dk (snd (a s))) = counts (dk s) /\ cs (snd (a s)) <= 8.

Lemma low_issue c : nsr c = true -> LowStep (lift (issue c)).
Proof.
  intros N s Hs. unfold lift. destruct (issue_spec c s) as [A [B _]]. specialize (B N).
  destruct (issue c s) as [[|] s1]; cbn [snd] in *; rewrite A; auto.
Qed.

Lemma low_log f : f <= 8 -> LowStep (lift (log f)).
Proof.
  intros Hf s Hs. unfold lift. destruct (log_spec f s) as [A [B _]].
  destruct (log f s) as [[|] s1]; cbn [snd] in *; rewrite A; auto.
Qed.

Lemma low_seq a b : LowStep a -> LowStep b -> LowStep (seq a b).
Proof.
  intros Ha Hb s Hs. unfold seq. destruct (Ha s Hs) as [A1 A2]. destruct (a s) as [[| |] s1]; cbn [snd] in *; auto.
  destruct (Hb s1 A2) as [B1 B2]. rewrite B1, A1. auto.
Qed.

Lemma low_when c a : LowStep a -> LowStep (when c a).
Proof. intros Ha s Hs. unfold when. destruct c; [exact (Ha s Hs)|cbn [snd]; auto]. Qed.

Lemma low_roots t : LowStep (p_roots t).
Proof.
  unfold p_roots. apply low_when. apply low_seq; [apply low_issue; reflexivity|].
  intros s Hs. cbv beta. destruct (nonempty (reg_get (reg (dk s)) (roots t))); [cbn [snd]; auto|].
  apply low_seq; [apply low_issue; reflexivity|apply low_issue; reflexivity|exact Hs].
Qed.

Lemma low_fetched t : LowStep (p_fetched t).
Proof.
  unfold p_fetched. apply low_when. apply low_seq; [apply low_issue; reflexivity|].
  intros s Hs. cbv beta. destruct (versions_match _ _); cbn [snd]; auto.
Qed.

Lemma low_updated t : LowStep (p_updated t).
Proof.
  unfold p_updated. apply low_when. apply low_seq; [apply low_issue; reflexivity|].
  intros s Hs. cbv beta. destruct (claims (reg (dk s)) (updated t)) as [hs|]; [|cbn [snd]; auto].
  apply low_seq; [apply low_issue; reflexivity|apply low_issue; reflexivity|exact Hs].
Qed.

Lemma low_removed t : LowStep (p_removed t).
Proof.
  unfold p_removed. apply low_when. apply low_seq; [apply low_issue; reflexivity|].
  intros s Hs. cbv beta. destruct (marks (reg (dk s)) (removed t)) as [hs|]; [|cbn [snd]; auto].
  apply low_issue; [reflexivity|exact Hs].
Qed.

Lemma low_added t : LowStep (p_added t).
Proof.
  unfold p_added. apply low_when. apply low_seq; apply low_issue; reflexivity.
Qed.

(* result of phase 1 when started with committedState below commitStoreInfo:
   either nothing happened to the counts and the state is at most commitStoreInfo (and phase 1 did not succeed),
   or the deltas were applied, the state is beforeFinalize, and a failure is an injected one (fault used up) *)
Definition Post (t : txn) (c0 : list (N * Z)) (r : flow * st) : Prop :=
  (cs (snd r) <= 9 /\ counts (dk (snd r)) = c0 /\ fst r <> Go)
  \/ (cs (snd r) = 10 /\ counts (dk (snd r)) = upd_counts c0 (deltas t)
      /\ (fst r = Go \/ (fst r = Stop /\ fault (snd r) = None))).

Definition TailSpec (t : txn) (b : st -> flow * st) : Prop :=
  forall s, cs s <= 8 -> Post t (counts (dk s)) (b s).

Lemma tail_seq t a b : LowStep a -> TailSpec t b -> TailSpec t (seq a b).
Proof.
  intros Ha Hb s Hs. unfold seq. destruct (Ha s Hs) as [A1 A2]. destruct (a s) as [[| |] s1] eqn:E; cbn [snd] in *.
  - rewrite <- A1. apply Hb. exact A2.
  - left. cbn [fst snd]. split; [lia|]. split; [exact A1|discriminate].
  - left. cbn [fst snd]. split; [lia|]. split; [exact A1|discriminate].
Qed.

Lemma tail_base t :
  TailSpec t
    (seq (lift (log commitStoreInfo))
    (seq (when (nonempty (deltas t)) (lift (issue (SrUpdate (deltas t)))))
    (seq (lift (log beforeFinalize))
         (fun s =>
            let uh := cur_handles s (map (fun x => fst (fst x)) (updated t)) in
            let rh := cur_handles s (map fst (removed t)) in
            when (nonempty uh || nonempty rh) (lift (issue (PlogAdd (uh ++ rh)))) s)))).
Proof.
  intros s Hs. unfold seq at 1. unfold lift at 1.
  destruct (log_spec commitStoreInfo s) as [A1 [B1 _]].
  destruct (log commitStoreInfo s) as [[|] s1]; cbn [fst snd] in *.
  2:{ left. cbn [fst snd]. rewrite A1. split; [unfold commitStoreInfo; lia|]. split; [exact B1|discriminate]. }
  unfold seq at 1.
  assert (H2 : forall r, (when (nonempty (deltas t)) (lift (issue (SrUpdate (deltas t))))) s1 = r ->
            cs (snd r) = 9 /\ ((fst r = Go /\ counts (dk (snd r)) = upd_counts (counts (dk s)) (deltas t))
                               \/ (fst r = Stop /\ counts (dk (snd r)) = counts (dk s)))).
  { intros r Er. subst r. destruct (deltas t) as [|x xs] eqn:Ed; cbn [nonempty when].
    - cbn [fst snd]. split; [exact A1|]. left. split; [reflexivity|]. unfold upd_counts. cbn [fold_left]. exact B1.
    - rewrite <- Ed. unfold lift. destruct (issue_spec (SrUpdate (deltas t)) s1) as [A2 [_ [C2 [D2 _]]]].
      destruct (issue (SrUpdate (deltas t)) s1) as [[|] s2]; cbn [fst snd] in *.
      + split; [rewrite A2; exact A1|]. left. split; [reflexivity|].
        specialize (D2 eq_refl). cbn [apply_call] in D2. inversion D2 as [D2']. cbn [counts]. rewrite B1. reflexivity.
      + split; [rewrite A2; exact A1|]. right. split; [reflexivity|]. rewrite (proj1 (C2 eq_refl)). exact B1. }
  destruct (when (nonempty (deltas t)) (lift (issue (SrUpdate (deltas t)))) s1) as [fl2 s2].
  destruct (H2 _ eq_refl) as [A2 [[F2 B2]|[F2 B2]]]; cbn [fst snd] in *; subst fl2.
  2:{ left. cbn [fst snd]. rewrite A2. split; [lia|]. split; [exact B2|discriminate]. }
  unfold seq at 1. unfold lift at 1.
  destruct (log_spec beforeFinalize s2) as [A3 [B3 [C3 _]]].
  destruct (log beforeFinalize s2) as [[|] s3]; cbn [fst snd] in *.
  2:{ right. cbn [fst snd]. split; [exact A3|]. split; [rewrite B3; exact B2|]. right. split; [reflexivity|exact (C3 eq_refl)]. }
  cbv beta zeta. right.
  destruct (nonempty _ || nonempty _); cbn [when].
  - unfold lift. match goal with |- context [issue ?c s3] => destruct (issue_spec c s3) as [A4 [B4 [C4 _]]];
      destruct (issue c s3) as [[|] s4] end; cbn [fst snd] in *.
    + split; [rewrite A4; exact A3|]. split; [rewrite (B4 eq_refl), B3; exact B2|]. left. reflexivity.
    + split; [rewrite A4; exact A3|]. split; [rewrite (B4 eq_refl), B3; exact B2|]. right.
      split; [reflexivity|exact (proj2 (C4 eq_refl) eq_refl)].
  - cbn [fst snd]. split; [exact A3|]. split; [rewrite B3; exact B2|]. left. reflexivity.
Qed.

Lemma phase1_post t s : tracked t = true -> cs s <= 8 -> Post t (counts (dk s)) (phase1 t s).
Proof.
  intros Ht Hs. unfold phase1. rewrite Ht. cbn [when]. revert s Hs. fold (TailSpec t).
  apply tail_seq; [apply low_log; unfold lockTrackedItems; lia|].
  apply tail_seq; [apply low_log; unfold commitTrackedItemsValues; lia|].
  apply tail_seq; [apply low_when; apply low_issue; reflexivity|].
  apply tail_seq; [apply low_log; unfold commitNewRootNodes; lia|].
  apply tail_seq; [apply low_roots|].
  apply tail_seq; [apply low_log; unfold areFetchedItemsIntact; lia|].
  apply tail_seq; [apply low_fetched|].
  apply tail_seq; [apply low_updated|].
  apply tail_seq; [apply low_log; unfold commitUpdatedNodes; lia|].
  apply tail_seq; [apply low_log; unfold commitRemovedNodes; lia|].
  apply tail_seq; [apply low_removed|].
  apply tail_seq; [apply low_log; unfold commitAddedNodes; lia|].
  apply tail_seq; [apply low_added|].
  apply tail_base.
Qed.

(* --- rollback: only its StoreRepository.Update touches the counts *)

Lemma rollback_gen (P Q : st -> Prop) t b s :
  (forall c s', nsr c = true -> P s' -> P (best (issue c) s')) ->
  (forall c s', nsr c = true -> Q s' -> Q (best (issue c) s')) ->
  (forall s', P s' -> Q (if (commitStoreInfo <? cs s) && nonempty (rb_stores t)
                         then best (issue (SrUpdate (rb_stores t))) s' else s')) ->
  (forall s', Q s' -> Q (mkS (dk s') (tr s') (fault s') 0)) ->
  P s -> Q (rollback t b s).
Proof.
  intros HP HQ HPQ Hfin H0. unfold rollback.
  set (s1 := if beforeFinalize <=? cs s then best (issue PlogRemove) s else s).
  assert (H1 : P s1) by (unfold s1; destruct (beforeFinalize <=? cs s); [apply HP; [reflexivity|exact H0]|exact H0]).
  set (s2 := if (commitStoreInfo <? cs s) && nonempty (rb_stores t) then best (issue (SrUpdate (rb_stores t))) s1 else s1).
  assert (H2 : Q s2) by (unfold s2; apply HPQ; exact H1).
  set (s3 := if (commitAddedNodes <? cs s) && nonempty (added t)
             then best (issue (RegRemove (added t))) (best (issue (BlobRemove (added t))) s2) else s2).
  assert (H3 : Q s3).
  { unfold s3. destruct ((commitAddedNodes <? cs s) && nonempty (added t)); [|exact H2].
    apply HQ; [reflexivity|]. apply HQ; [reflexivity|exact H2]. }
  set (s4 := if (commitRemovedNodes <? cs s) && nonempty (removed t)
             then (let s' := best (issue (RegGet (map fst (removed t)))) s3 in
                   best (issue (RegUpd false (undelete (cur_handles s' (map fst (removed t)))))) s')
             else s3).
  assert (H4 : Q s4).
  { unfold s4. destruct ((commitRemovedNodes <? cs s) && nonempty (removed t)); [|exact H3].
    cbv zeta. apply HQ; [reflexivity|]. apply HQ; [reflexivity|exact H3]. }
  set (s5 := if (commitUpdatedNodes <? cs s) && nonempty (updated t)
             then (let s' := best (issue (RegGet (map (fun x => fst (fst x)) (updated t)))) s4 in
                   let hs := cur_handles s' (map (fun x => fst (fst x)) (updated t)) in
                   best (issue (RegUpd false (rb_updated_handles hs))) (best (issue (BlobRemove (rb_updated_blobs hs))) s'))
             else s4).
  assert (H5 : Q s5).
  { unfold s5. destruct ((commitUpdatedNodes <? cs s) && nonempty (updated t)); [|exact H4].
    cbv zeta. apply HQ; [reflexivity|]. apply HQ; [reflexivity|]. apply HQ; [reflexivity|exact H4]. }
  set (s6 := if (commitNewRootNodes <? cs s) && nonempty (roots t)
             then (let s' := best (issue (RegGet (roots t))) (best (issue (BlobRemove (roots t))) s5) in
                   let present := map lid (cur_handles s' (roots t)) in
                   if nonempty present then best (issue (RegRemove present)) s' else s')
             else s5).
  assert (H6 : Q s6).
  { unfold s6. destruct ((commitNewRootNodes <? cs s) && nonempty (roots t)); [|exact H5].
    cbv zeta.
    assert (Hs' : Q (best (issue (RegGet (roots t))) (best (issue (BlobRemove (roots t))) s5))).
    { apply HQ; [reflexivity|]. apply HQ; [reflexivity|exact H5]. }
    match goal with |- Q (if ?c then _ else _) => destruct c end; [|exact Hs']. apply HQ; [reflexivity|exact Hs']. }
  set (s7 := if b && (commitTrackedItemsValues <=? cs s) && nonempty (rb_vals t)
             then best (issue (BlobRemove (rb_vals t))) s6 else s6).
  assert (H7 : Q s7).
  { unfold s7. destruct (b && (commitTrackedItemsValues <=? cs s) && nonempty (rb_vals t)); [|exact H6].
    apply HQ; [reflexivity|exact H6]. }
  apply Hfin. apply HQ; [reflexivity|exact H7].
Qed.

Lemma rollback_low t b s : cs s <= 9 -> counts (dk (rollback t b s)) = counts (dk s).
Proof.
  intros Hs.
  apply (rollback_gen (fun s' => counts (dk s') = counts (dk s)) (fun s' => counts (dk s') = counts (dk s))).
  - intros c s' N H. rewrite (proj1 (best_spec c s' N)). exact H.
  - intros c s' N H. rewrite (proj1 (best_spec c s' N)). exact H.
  - intros s' H. replace (commitStoreInfo <? cs s) with false by (unfold commitStoreInfo; lia). exact H.
  - intros s' H. exact H.
  - reflexivity.
Qed.

Lemma rollback_high t b s : 9 < cs s -> fault s = None ->
  counts (dk (rollback t b s)) = upd_counts (counts (dk s)) (rb_stores t).
Proof.
  intros Hs F.
  apply (rollback_gen (fun s' => counts (dk s') = counts (dk s) /\ fault s' = None)
                      (fun s' => counts (dk s') = upd_counts (counts (dk s)) (rb_stores t))).
  - intros c s' N [H1 H2]. destruct (best_spec c s' N) as [A [_ B]]. rewrite A. auto.
  - intros c s' N H. rewrite (proj1 (best_spec c s' N)). exact H.
  - intros s' [H1 H2]. replace (commitStoreInfo <? cs s) with true by (unfold commitStoreInfo; lia). cbn [andb].
    destruct (rb_stores t) as [|x xs] eqn:E; cbn [nonempty].
    + unfold upd_counts. cbn [fold_left]. exact H1.
    + rewrite <- E. destruct (best_ok (SrUpdate (rb_stores t)) s' _ _ H2 eq_refl eq_refl) as [_ D].
      rewrite D. cbn [counts]. rewrite H1. reflexivity.
  - intros s' H. exact H.
  - auto.
Qed.

Lemma priority_rollback_spec s : fault s = None ->
  fault (priority_rollback s) = None /\ counts (dk (priority_rollback s)) = counts (dk s)
  /\ cs (priority_rollback s) = cs s.
Proof.
  intros F. unfold priority_rollback.
  destruct (best_spec PlogGet s eq_refl) as [A1 [B1 C1]]. specialize (C1 F).
  set (s1 := best (issue PlogGet) s) in *.
  destruct (plog (dk s1)) as [hs|].
  - destruct (issue_spec (RegUpd false hs) s1) as [A2 [B2 [_ [_ D2]]]]. specialize (B2 eq_refl). specialize (D2 C1).
    destruct (issue (RegUpd false hs) s1) as [[|] s2]; cbn [snd] in *.
    + destruct (best_spec PlogRemove s2 eq_refl) as [A3 [B3 C3]].
      split; [exact (C3 D2)|]. split; [rewrite A3, B2; exact A1|rewrite B3, A2; exact B1].
    + split; [exact D2|]. split; [rewrite B2; exact A1|rewrite A2; exact B1].
  - destruct (best_spec PlogRemove s1 eq_refl) as [A3 [B3 C3]].
    split; [exact (C3 C1)|]. split; [rewrite A3; exact A1|rewrite B3; exact B1].
Qed.

(* Phase2Commit with its error paths, as it appears inside commit *)
Definition phase2 (t : txn) (s1 : st) : outcome * st :=
  match log finalizeCommit s1 with
  | (false, s2) => (Failed, rollback t true (best (issue PlogRemove) s2))
  | (true, s2) =>
      let fl := to_flip t s2 in
      if nonempty fl then
        match issue (RegUpd true fl) s2 with
        | (false, s3) => (Failed, rollback t true (priority_rollback s3))
        | (true, s3) => (Committed, cleanup fl t (best (issue PlogRemove) s3))
        end
      else (Committed, cleanup fl t s2)
  end.

Lemma commit_unfold t s0 :
  commit t s0 = match phase1 t s0 with
                | (Stop, s1) => (Failed, rollback t true s1)
                | (Conflict, s1) => (Conflicted, rollback t false s1)
                | (Go, s1) => phase2 t s1
                end.
Proof. reflexivity. Qed.

(* a phase 2 that does not commit has failed by injection, hence its rollback does update the store counts *)
Lemma phase2_fail t s1 o s' : phase2 t s1 = (o, s') -> o <> Committed ->
  counts (dk s') = upd_counts (counts (dk s1)) (rb_stores t).
Proof.
  unfold phase2. intros E Hne.
  destruct (log_spec finalizeCommit s1) as [A1 [B1 [C1 _]]].
  destruct (log finalizeCommit s1) as [[|] s2]; cbn [fst snd] in *.
  - cbv zeta in E. destruct (nonempty (to_flip t s2)); [|inversion E; subst; contradiction].
    destruct (issue_spec (RegUpd true (to_flip t s2)) s2) as [A2 [_ [C2 _]]].
    destruct (issue (RegUpd true (to_flip t s2)) s2) as [[|] s3]; cbn [fst snd] in *;
      [inversion E; subst; contradiction|].
    inversion E; subst o s'. destruct (C2 eq_refl) as [D2 F2]. specialize (F2 eq_refl).
    destruct (priority_rollback_spec s3 F2) as [F3 [B3 A3]].
    rewrite rollback_high; [|rewrite A3, A2, A1; unfold finalizeCommit; lia|exact F3].
    rewrite B3, D2, B1. reflexivity.
  - inversion E; subst o s'. specialize (C1 eq_refl).
    destruct (best_spec PlogRemove s2 eq_refl) as [A2 [B2 C2]].
    rewrite rollback_high; [|rewrite B2, A1; unfold finalizeCommit; lia|exact (C2 C1)].
    rewrite A2, B1. reflexivity.
Qed.

(* Hypotheses, precisely:
   - Htr: either the transaction has tracked items, or its deltas sum to zero for every store.  With
     tracked t = false the model's phase 1 is a no-op (SrUpdate (deltas t) is never issued) but a failing
     phase 2 still runs rollback with committedState = finalizeCommit > commitStoreInfo, which issues
     SrUpdate (rb_stores t): without Htr the counts would change by delta_of (rb_stores t).
   - Hneg: rb_stores t negates deltas t store by store.
   No hypothesis about backend errors is needed: phase 1, `log finalizeCommit` and the phase-2 RegUpd only
   issue calls on which apply_call never returns None (nbe), so a failing call before any rollback is
   always the injected one, the fault is used up, and the rollback's SrUpdate is performed.  A Conflict can
   only arise while committedState <= commitRemovedNodes, where neither SrUpdate is issued. *)
Theorem failed_commit_preserves_counts t d f o d' tr' :
  (tracked t = true \/ forall s, delta_of (deltas t) s = 0%Z) ->
  (forall s, delta_of (rb_stores t) s = (- delta_of (deltas t) s)%Z) ->
  run t d f = (o, d', tr') -> o <> Committed ->
  forall s, count_of d' s = count_of d s.
Proof.
  intros Htr Hneg Hrun Hne s. unfold run in Hrun.
  destruct (commit t (init d f)) as [o1 s1] eqn:E. inversion Hrun; subst o d' tr'. clear Hrun.
  rewrite !count_of_cnt. rewrite commit_unfold in E.
  assert (Hcs : cs (init d f) <= 8) by (cbn [init cs]; lia).
  destruct (tracked t) eqn:Ht.
  - pose proof (phase1_post t (init d f) Ht Hcs) as HP. cbn [init dk] in HP.
    unfold Post in HP. destruct (phase1 t (init d f)) as [[| |] s0]; cbn [fst snd] in HP.
    + destruct HP as [[_ [_ Hgo]]|[Hc [Hk _]]]; [contradiction|].
      rewrite (phase2_fail _ _ _ _ E Hne), Hk, !cnt_upd. rewrite Hneg. lia.
    + inversion E; subst o1 s1. destruct HP as [[Hc [Hk _]]|[Hc [Hk [Hgo|[_ Hf]]]]]; [| discriminate |].
      * rewrite rollback_low by exact Hc. rewrite Hk. reflexivity.
      * rewrite rollback_high; [|lia|exact Hf]. rewrite Hk, !cnt_upd. rewrite Hneg. lia.
    + inversion E; subst o1 s1. destruct HP as [[Hc [Hk _]]|[Hc [Hk [Hgo|[Hst _]]]]]; try discriminate.
      rewrite rollback_low by exact Hc. rewrite Hk. reflexivity.
  - destruct Htr as [Htr|Hz]; [discriminate|].
    unfold phase1 in E. rewrite Ht in E. cbn [when] in E.
    rewrite (phase2_fail _ _ _ _ E Hne). cbn [init dk]. rewrite cnt_upd, Hneg, Hz. lia.
Qed.

(* the hypothesis on tracked t cannot be dropped: an untracked transaction with deltas [(1,1)] / rb_stores
   [(1,-1)] whose first call (log finalizeCommit) is failed by injection ends with store 1 at 7 - 1 = 6 *)
Example untracked_counts_refuted :
  exists t d f o d' tr',
    (forall s, delta_of (rb_stores t) s = (- delta_of (deltas t) s)%Z)
    /\ run t d f = (o, d', tr') /\ o <> Committed /\ count_of d 1 = 7%Z /\ count_of d' 1 = 6%Z.
Proof.
  exists (mkT false [] [] [] [] [] [] [] [] [(1, 1%Z)] [(1, (-1)%Z)]).
  exists (mkD [] [] [(1, 7%Z)] false None). exists (Some O).
  eexists. eexists. eexists. split; [|split; [vm_compute; reflexivity|split; [discriminate|split; reflexivity]]].
  intros s. cbn [rb_stores deltas delta_of]. destruct (N.eqb 1 s); lia.
Qed.

(* SW_plog cannot be dropped for (e): a transaction with no updated and no removed node commits and leaves a
   stale priority log where it was *)
Example stale_plog_survives :
  exists t d d' tr', tracked t = true /\ run t d None = (Committed, d', tr') /\ plog d = Some [] /\ plog d' = Some [].
Proof.
  exists (mkT true [] [] [] [] [] [] [] [5] [] []). exists (mkD [] [] [] false (Some [])).
  eexists. eexists. split; [reflexivity|]. split; [vm_compute; reflexivity|]. split; reflexivity.
Qed.

(* ------------------------------------------------------------------ non-vacuity *)

(* three registered nodes 10, 11, 12 of store 1 (7 items), an old value blob 50;
   the transaction updates node 10 (new physical id 30), removes node 11, adds node 40, creates the root 20
   of a second (empty) store, has read node 12, writes the value blob 60 and makes blob 50 obsolete;
   store 1 and store 2 each gain one item *)
Definition d_ex : disk :=
  mkD [mkH 10 10 0 false 3%Z 0 false; mkH 11 11 0 false 2%Z 0 false; mkH 12 12 0 false 5%Z 0 false]
      [10; 11; 12; 50] [(1, 7%Z)] false None.
Definition t_ex : txn :=
  mkT true [60] [60] [50] [20] [(12, 5%Z)] [(10, 3%Z, 30)] [(11, 2%Z)] [40]
      [(1, 1%Z); (2, 1%Z)] [(1, (-1)%Z); (2, (-1)%Z)].

Example SW_nonvacuous : SW d_ex t_ex.
Proof.
  constructor.
  - reflexivity.
  - cbn. repeat (constructor; [cbn; intros H; intuition discriminate|]). constructor.
  - intros l [E|[]]. subst l. reflexivity.
  - intros l [E|[]]. subst l. reflexivity.
  - intros l v p [E|[]]. inversion E; subst l v p. eexists. eexists. split; reflexivity.
  - intros l v [E|[]]. inversion E; subst l v. eexists. split; [reflexivity|]. split; reflexivity.
  - reflexivity.
  - intros x [E|[]]. subst x. eexists. reflexivity.
  - reflexivity.
  - reflexivity.
  - cbn. repeat (constructor; [cbn; intros H; intuition discriminate|]). constructor.
  - intros l v p [E|[]]. inversion E; subst l v p. split; cbn; intros H; intuition discriminate.
  - intros l [E|[E|[]]]; subst l; split; cbn; intros H; intuition discriminate.
Qed.

Example counts_hyp_nonvacuous :
  tracked t_ex = true /\ forall s, delta_of (rb_stores t_ex) s = (- delta_of (deltas t_ex) s)%Z.
Proof.
  split; [reflexivity|]. intros s. cbn [t_ex rb_stores deltas delta_of].
  destruct (N.eqb 1 s); destruct (N.eqb 2 s); lia.
Qed.

(* node 10 now resolves to blob 30 at version 4, node 11 is gone, 20 and 40 are registered, node 12 is untouched;
   blobs 10 (old content of node 10), 11 and 50 were deleted; the counts are 7 + 1 and 0 + 1 *)
Example run_ex :
  fst (run t_ex d_ex None)
  = (Committed,
     mkD [mkH 10 10 30 true 4%Z 1 false; mkH 12 12 0 false 5%Z 0 false;
          mkH 20 20 0 false 0%Z 0 false; mkH 40 40 0 false 1%Z 0 false]
         [12; 60; 20; 30; 40] [(1, 8%Z); (2, 1%Z)] false None)
  /\ length (snd (run t_ex d_ex None)) = 32%nat
  /\ forallb snd (snd (run t_ex d_ex None)) = true.
Proof. vm_compute. repeat split. Qed.

(* Print Assumptions commit_success_outcome commit_success_view failed_commit_preserves_counts: closed under the global context *)

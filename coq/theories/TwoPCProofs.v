(* Lemmas about the SinglePhaseTransaction model (TwoPC.v): the complete shape of the call log of
   Begin / Commit / Rollback for any number of participants and any behaviour of SOP's transaction
   and of the participants, by induction on the participant list. *)
From Coq Require Import List Bool Arith Lia.
From SopVerif Require Import TwoPC.
Import ListNotations.

(* participants i .. i+n-1 each called once with operation o and outcome ok, in order *)
Definition parts_ev (o : op) (ok : bool) (i n : nat) : list event :=
  map (fun j => Ev (Part j) o ok) (seq i n).

(* participants i .. i+n-1 each called exactly once with operation o, in order, whatever the outcomes *)
Definition all_shape (o : op) (i n : nat) (l : list event) : Prop :=
  map e_who l = map Part (seq i n) /\ Forall (fun e => e_op e = o) l.

(* a occurs in L and b occurs later *)
Definition before (a b : event) (L : list event) : Prop := exists x y z, L = x ++ a :: y ++ b :: z.

Definition rollback_shape (n : nat) (rb : list event) : Prop :=
  exists ok l, rb = Ev Sop ORollback ok :: l /\ all_shape ORollback 0 n l.

Lemma parts_ev_S : forall o ok i n, parts_ev o ok i (S n) = Ev (Part i) o ok :: parts_ev o ok (S i) n.
Proof. reflexivity. Qed.

Lemma parts_ev_In : forall o ok i n e, In e (parts_ev o ok i n) <-> exists j, i <= j < i + n /\ e = Ev (Part j) o ok.
Proof.
  intros o ok i n e. unfold parts_ev. rewrite in_map_iff. split.
  - intros [j [He Hj]]. apply in_seq in Hj. exists j. split; [lia|congruence].
  - intros [j [Hj He]]. exists j. split; [congruence|apply in_seq; lia].
Qed.

Lemma all_shape_In : forall o i n l j, all_shape o i n l -> i <= j < i + n -> exists ok, In (Ev (Part j) o ok) l.
Proof.
  intros o i n l j [Hw Ho] Hj.
  assert (Hin : In (Part j) (map e_who l)) by (rewrite Hw; apply in_map; apply in_seq; lia).
  apply in_map_iff in Hin. destruct Hin as [e [He Hin]].
  rewrite Forall_forall in Ho. specialize (Ho e Hin). destruct e as [w o' ok]. cbn in *. subst. exists ok. exact Hin.
Qed.

Lemma all_shape_op : forall o i n l e, all_shape o i n l -> In e l -> e_op e = o /\ exists j, i <= j < i + n /\ e_who e = Part j.
Proof.
  intros o i n l e [Hw Ho] Hin. rewrite Forall_forall in Ho. split; [apply Ho; exact Hin|].
  assert (H : In (e_who e) (map Part (seq i n))) by (rewrite <- Hw; apply in_map; exact Hin).
  apply in_map_iff in H. destruct H as [j [Hj Hs]]. apply in_seq in Hs. exists j. split; [lia|congruence].
Qed.

Section WrapperProofs.
  Variables SS PS : Type.
  Variable sstep : SS -> op -> bool * SS.
  Variable pstep : PS -> op -> bool * PS.

  Lemma until_fail_spec : forall o ps i l r ps',
    until_fail PS pstep o i ps = (l, r, ps') ->
    length ps' = length ps /\
    ((r = true /\ l = parts_ev o true i (length ps)) \/
     (r = false /\ exists k, k < length ps /\ l = parts_ev o true i k ++ [Ev (Part (i + k)) o false])).
  Proof.
    intros o ps. induction ps as [|p rest IH]; intros i l r ps' H; cbn [until_fail] in H.
    - inversion H; subst. split; [reflexivity|]. left. split; reflexivity.
    - destruct (pstep p o) as [ok p'] eqn:Ep. destruct ok.
      + destruct (until_fail PS pstep o (S i) rest) as [[l0 r0] rest'] eqn:E0. inversion H; subst. clear H.
        destruct (IH _ _ _ _ E0) as [Hlen Hcase]. split; [cbn [length]; congruence|].
        destruct Hcase as [[Hr Hl]|[Hr [k [Hk Hl]]]].
        * left. split; [exact Hr|]. cbn [length]. rewrite parts_ev_S, Hl. reflexivity.
        * right. split; [exact Hr|]. exists (S k). split; [cbn [length]; lia|].
          rewrite parts_ev_S, Hl. replace (i + S k) with (S i + k) by lia. reflexivity.
      + inversion H; subst. split; [reflexivity|]. right. split; [reflexivity|].
        exists 0. split; [cbn [length]; lia|]. replace (i + 0) with i by lia. reflexivity.
  Qed.

  Lemma for_all_spec : forall o ps i l r ps',
    for_all PS pstep o i ps = (l, r, ps') ->
    length ps' = length ps /\ all_shape o i (length ps) l /\ (r = true <-> Forall (fun e => e_ok e = true) l).
  Proof.
    intros o ps. induction ps as [|p rest IH]; intros i l r ps' H; cbn [for_all] in H.
    - inversion H; subst. split; [reflexivity|]. split; [split; [reflexivity|constructor]|]. split; [constructor|reflexivity].
    - destruct (pstep p o) as [ok p'] eqn:Ep.
      destruct (for_all PS pstep o (S i) rest) as [[l0 r0] rest'] eqn:E0. inversion H; subst. clear H.
      destruct (IH _ _ _ _ E0) as [Hlen [[Hw Ho] Hr]]. split; [cbn [length]; congruence|]. split.
      + split; [cbn [length map seq e_who]; rewrite Hw; reflexivity|constructor; [reflexivity|exact Ho]].
      + rewrite andb_true_iff, Hr. split.
        * intros [H1 H2]. constructor; [exact H1|exact H2].
        * intro H. inversion H; subst. split; assumption.
  Qed.

  (* ---------------------------------------------------------------- Rollback *)

  Lemma w_rollback_spec : forall s ps,
    let r := w_rollback SS PS sstep pstep s ps in
    rollback_shape (length ps) (o_log r) /\ length (o_parts r) = length ps /\
    o_sop r = snd (sstep s ORollback) /\
    (o_ok r = true <-> Forall (fun e => e_ok e = true) (o_log r)).
  Proof.
    intros s ps. unfold w_rollback. destruct (sstep s ORollback) as [ok s'] eqn:Es.
    destruct (for_all PS pstep ORollback 0 ps) as [[l res] ps'] eqn:Ef. cbn [o_log o_ok o_sop o_parts snd].
    destruct (for_all_spec _ _ _ _ _ _ Ef) as [Hlen [Hsh Hr]].
    split; [exists ok, l; split; [reflexivity|exact Hsh]|]. split; [exact Hlen|]. split; [reflexivity|].
    rewrite andb_true_iff, Hr. split.
    - intros [H1 H2]. constructor; assumption.
    - intro H. inversion H; subst. split; assumption.
  Qed.

  (* ---------------------------------------------------------------- Begin *)

  Definition begin_shape (n : nat) (L : list event) (ok : bool) : Prop :=
    (ok = true /\ L = Ev Sop OBegin true :: parts_ev OBegin true 0 n) \/
    (ok = false /\ L = [Ev Sop OBegin false]) \/
    (ok = false /\ exists k rb, k < n /\
        L = (Ev Sop OBegin true :: parts_ev OBegin true 0 k ++ [Ev (Part k) OBegin false]) ++ rb /\
        rollback_shape k rb).

  Lemma parts_ev_length : forall o ok i n, length (parts_ev o ok i n) = n.
  Proof. intros. unfold parts_ev. rewrite map_length, seq_length. reflexivity. Qed.

  Lemma w_begin_spec : forall s ps,
    let r := w_begin SS PS sstep pstep s ps in
    begin_shape (length ps) (o_log r) (o_ok r) /\ length (o_parts r) = length ps.
  Proof.
    intros s ps. unfold w_begin. destruct (sstep s OBegin) as [ok s'] eqn:Es. destruct ok.
    - destruct (until_fail PS pstep OBegin 0 ps) as [[l res] ps'] eqn:Eu.
      destruct (until_fail_spec _ _ _ _ _ _ Eu) as [Hlen Hcase].
      destruct Hcase as [[Hr Hl]|[Hr [k [Hk Hl]]]]; subst res l.
      + cbn [o_log o_ok o_parts]. split; [|exact Hlen]. left. split; reflexivity.
      + assert (Hi : pred (length (parts_ev OBegin true 0 k ++ [Ev (Part (0 + k)) OBegin false])) = k).
        { rewrite app_length, parts_ev_length. cbn [length]. lia. }
        rewrite Hi. cbn [o_log o_ok o_parts].
        destruct (w_rollback_spec s' (firstn k ps')) as [Hsh [Hlr _]].
        assert (Hk' : length (firstn k ps') = k) by (rewrite firstn_length; lia).
        rewrite Hk' in Hsh, Hlr. split.
        * right. right. split; [reflexivity|]. exists k. eexists. split; [exact Hk|]. split; [reflexivity|exact Hsh].
        * rewrite app_length, Hlr, skipn_length. lia.
    - cbn [o_log o_ok o_parts]. split; [|reflexivity]. right. left. split; reflexivity.
  Qed.

  (* ---------------------------------------------------------------- Commit *)

  Definition commit_shape (n : nat) (L : list event) (ok : bool) : Prop :=
    (ok = false /\ exists rb, L = [Ev Sop OP1 false] ++ rb /\ rollback_shape n rb) \/
    (ok = false /\ exists k rb, k < n /\
        L = (Ev Sop OP1 true :: parts_ev OP1 true 0 k ++ [Ev (Part k) OP1 false]) ++ rb /\ rollback_shape n rb) \/
    (ok = false /\ exists rb,
        L = (Ev Sop OP1 true :: parts_ev OP1 true 0 n ++ [Ev Sop OP2 false]) ++ rb /\ rollback_shape n rb) \/
    (ok = true /\ exists l2,
        L = Ev Sop OP1 true :: parts_ev OP1 true 0 n ++ Ev Sop OP2 true :: l2 /\ all_shape OP2 0 n l2).

  Lemma fail_with_spec : forall pre s ps,
    let r := fail_with SS PS sstep pstep pre s ps in
    o_ok r = false /\ (exists rb, o_log r = pre ++ rb /\ rollback_shape (length ps) rb) /\
    o_sop r = snd (sstep s ORollback) /\ length (o_parts r) = length ps.
  Proof.
    intros pre s ps. unfold fail_with. cbn [o_log o_ok o_sop o_parts].
    destruct (w_rollback_spec s ps) as [Hsh [Hlen [Hs _]]].
    split; [reflexivity|]. split; [eexists; split; [reflexivity|exact Hsh]|]. split; assumption.
  Qed.

  Lemma w_commit_spec : forall s ps,
    let r := w_commit SS PS sstep pstep s ps in
    commit_shape (length ps) (o_log r) (o_ok r) /\ length (o_parts r) = length ps.
  Proof.
    intros s ps. unfold w_commit. destruct (sstep s OP1) as [ok1 s1] eqn:E1. destruct ok1; cbn [negb].
    - destruct (until_fail PS pstep OP1 0 ps) as [[l1 okp] ps1] eqn:Eu.
      destruct (until_fail_spec _ _ _ _ _ _ Eu) as [Hlen1 Hcase].
      destruct okp; cbn [negb].
      + destruct Hcase as [[_ Hl]|[Hr _]]; [|discriminate]. subst l1.
        destruct (sstep s1 OP2) as [ok2 s2] eqn:E2. destruct ok2; cbn [negb].
        * destruct (for_all PS pstep OP2 0 ps1) as [[l2 r2] ps2] eqn:Ef. cbn [o_log o_ok o_parts].
          destruct (for_all_spec _ _ _ _ _ _ Ef) as [Hlen2 [Hsh _]]. rewrite Hlen1 in Hsh.
          split; [|congruence]. right. right. right. split; [reflexivity|]. exists l2. split; [reflexivity|exact Hsh].
        * destruct (fail_with_spec (Ev Sop OP1 true :: parts_ev OP1 true 0 (length ps) ++ [Ev Sop OP2 false]) s2 ps1)
            as [Hok [[rb [Hl Hsh]] [_ Hlen]]].
          rewrite Hlen1 in Hsh, Hlen. split; [|exact Hlen]. right. right. left. split; [exact Hok|].
          exists rb. split; [exact Hl|exact Hsh].
      + destruct Hcase as [[Hr _]|[_ [k [Hk Hl]]]]; [discriminate|]. subst l1.
        destruct (fail_with_spec (Ev Sop OP1 true :: parts_ev OP1 true 0 k ++ [Ev (Part (0 + k)) OP1 false]) s1 ps1)
          as [Hok [[rb [Hl Hsh]] [_ Hlen]]].
        rewrite Hlen1 in Hsh, Hlen. split; [|exact Hlen]. right. left. split; [exact Hok|].
        exists k, rb. split; [exact Hk|]. split; [exact Hl|exact Hsh].
    - destruct (fail_with_spec [Ev Sop OP1 false] s1 ps) as [Hok [[rb [Hl Hsh]] [_ Hlen]]].
      split; [|exact Hlen]. left. split; [exact Hok|]. exists rb. split; [exact Hl|exact Hsh].
  Qed.
End WrapperProofs.

(* ------------------------------------------------------------------ consequences of the shapes *)

Lemma rollback_shape_sop : forall n rb, rollback_shape n rb -> exists ok, In (Ev Sop ORollback ok) rb.
Proof. intros n rb [ok [l [H _]]]. subst. exists ok. left. reflexivity. Qed.

Lemma rollback_shape_part : forall n rb j, rollback_shape n rb -> j < n -> exists ok, In (Ev (Part j) ORollback ok) rb.
Proof.
  intros n rb j [ok [l [H Hsh]]] Hj. subst. destruct (all_shape_In _ _ _ _ j Hsh) as [okj Hin]; [lia|].
  exists okj. right. exact Hin.
Qed.

Lemma rollback_shape_ops : forall n rb e, rollback_shape n rb -> In e rb -> e_op e = ORollback.
Proof.
  intros n rb e [ok [l [H Hsh]]] Hin. subst. destruct Hin as [Hin|Hin]; [subst; reflexivity|].
  apply (all_shape_op _ _ _ _ _ Hsh Hin).
Qed.

Lemma before_intro : forall (pre : list event) a rb b, In a pre -> In b rb -> before a b (pre ++ rb).
Proof.
  intros pre a rb b Ha Hb. apply in_split in Ha. destruct Ha as [x [y Ha]]. apply in_split in Hb. destruct Hb as [u [v Hb]].
  subst. exists x, (y ++ u), v. repeat (rewrite <- app_assoc; cbn [app]). reflexivity.
Qed.

Lemma before_In : forall a b L, before a b L -> In a L /\ In b L.
Proof.
  intros a b L [x [y [z H]]]. subst. split.
  - apply in_or_app. right. left. reflexivity.
  - apply in_or_app. right. right. apply in_or_app. right. left. reflexivity.
Qed.

(* ------------------------------------------------------------------ the property lemmas (stated again in Props/C16.v) *)

Section C16Lemmas.
  Variables SS PS : Type.
  Variable sstep : SS -> op -> bool * SS.
  Variable pstep : PS -> op -> bool * PS.
  Notation commit := (w_commit SS PS sstep pstep).
  Notation rollback := (w_rollback SS PS sstep pstep).
  Notation begin := (w_begin SS PS sstep pstep).

  (* The complete characterisation of what Commit does: one of four call logs. *)
  Lemma c16_commit_log : forall s ps,
    commit_shape (length ps) (o_log (commit s ps)) (o_ok (commit s ps)).
  Proof. intros s ps. apply (w_commit_spec SS PS sstep pstep s ps). Qed.

  Lemma in_prefix_cases : forall e b k x,
    In e (Ev Sop OP1 b :: parts_ev OP1 true 0 k ++ [x]) ->
    e = Ev Sop OP1 b \/ (exists j, j < k /\ e = Ev (Part j) OP1 true) \/ e = x.
  Proof.
    intros e b k x [H|H]; [left; congruence|]. apply in_app_or in H. destruct H as [H|[H|[]]].
    - right. left. apply parts_ev_In in H. destruct H as [j [Hj He]]. exists j. split; [lia|exact He].
    - right. right. congruence.
  Qed.

  (* No participant's second phase runs unless every first phase succeeded and SOP's own second phase
     succeeded — and they all did so BEFORE it; the only failures in such a log are second phases of
     participants (which Commit ignores by design). *)
  Lemma c16_p2_guard : forall s ps i ok,
    let L := o_log (commit s ps) in
    In (Ev (Part i) OP2 ok) L ->
    o_ok (commit s ps) = true
    /\ before (Ev Sop OP1 true) (Ev Sop OP2 true) L
    /\ (forall j, j < length ps -> before (Ev (Part j) OP1 true) (Ev Sop OP2 true) L)
    /\ before (Ev Sop OP2 true) (Ev (Part i) OP2 ok) L
    /\ (forall e, In e L -> e_ok e = false -> e_op e = OP2 /\ e_who e <> Sop).
  Proof.
    intros s ps i ok L Hin. subst L. destruct (c16_commit_log s ps) as [H|[H|[H|H]]].
    - exfalso. destruct H as [_ [rb [HL Hsh]]]. rewrite HL in Hin. destruct Hin as [Hin|Hin]; [discriminate|].
      apply (rollback_shape_ops _ _ _ Hsh) in Hin. discriminate.
    - exfalso. destruct H as [_ [k [rb [_ [HL Hsh]]]]]. rewrite HL in Hin. apply in_app_or in Hin. destruct Hin as [Hin|Hin].
      + apply in_prefix_cases in Hin. destruct Hin as [Hin|[[j [_ Hin]]|Hin]]; discriminate.
      + apply (rollback_shape_ops _ _ _ Hsh) in Hin. discriminate.
    - exfalso. destruct H as [_ [rb [HL Hsh]]]. rewrite HL in Hin. apply in_app_or in Hin. destruct Hin as [Hin|Hin].
      + apply in_prefix_cases in Hin. destruct Hin as [Hin|[[j [_ Hin]]|Hin]]; discriminate.
      + apply (rollback_shape_ops _ _ _ Hsh) in Hin. discriminate.
    - destruct H as [Hok [l2 [HL Hsh]]]. rewrite HL in *. split; [exact Hok|].
      set (P := parts_ev OP1 true 0 (length ps)) in *.
      assert (Hl2 : In (Ev (Part i) OP2 ok) l2).
      { destruct Hin as [Hin|Hin]; [discriminate|]. apply in_app_or in Hin. destruct Hin as [Hin|[Hin|Hin]]; [|discriminate|exact Hin].
        apply parts_ev_In in Hin. destruct Hin as [j [_ Hin]]. discriminate. }
      split; [exists [], P, l2; reflexivity|]. split.
      { intros j Hj. assert (Hp : In (Ev (Part j) OP1 true) P) by (apply parts_ev_In; exists j; split; [lia|reflexivity]).
        apply in_split in Hp. destruct Hp as [u [v Hp]]. exists (Ev Sop OP1 true :: u), v, l2. rewrite Hp.
        cbn [app]. rewrite <- app_assoc. reflexivity. }
      split.
      { replace (Ev Sop OP1 true :: P ++ Ev Sop OP2 true :: l2) with ((Ev Sop OP1 true :: P ++ [Ev Sop OP2 true]) ++ l2)
          by (cbn [app]; rewrite <- app_assoc; reflexivity).
        apply before_intro; [|exact Hl2]. right. apply in_or_app. right. left. reflexivity. }
      intros e He Hf. destruct He as [He|He]; [subst; discriminate|]. apply in_app_or in He. destruct He as [He|[He|He]].
      + apply parts_ev_In in He. destruct He as [j [_ He]]. subst. discriminate.
      + subst. discriminate.
      + destruct (all_shape_op _ _ _ _ _ Hsh He) as [Ho [j [_ Hw]]]. split; [exact Ho|]. rewrite Hw. discriminate.
  Qed.

  (* If anything fails before that (SOP's first phase, a participant's first phase, SOP's second phase):
     Commit reports an error, SOP's Rollback is called and every participant is asked to roll back, all
     AFTER the failure; no participant's second phase runs and SOP's second phase has not succeeded. *)
  Lemma c16_rollback_fanout : forall s ps,
    let L := o_log (commit s ps) in
    o_ok (commit s ps) = false ->
    exists f, In f L /\ e_ok f = false /\ (e_op f = OP1 \/ (e_op f = OP2 /\ e_who f = Sop))
      /\ (exists okr, before f (Ev Sop ORollback okr) L)
      /\ (forall j, j < length ps -> exists okj, before f (Ev (Part j) ORollback okj) L)
      /\ (forall i ok, ~ In (Ev (Part i) OP2 ok) L)
      /\ ~ In (Ev Sop OP2 true) L.
  Proof.
    intros s ps L Hok.
    assert (Hno : forall i ok, ~ In (Ev (Part i) OP2 ok) L).
    { intros i ok Hin. destruct (c16_p2_guard s ps i ok Hin) as [H _]. congruence. }
    subst L. destruct (c16_commit_log s ps) as [H|[H|[H|H]]].
    - destruct H as [_ [rb [HL Hsh]]]. exists (Ev Sop OP1 false). rewrite HL in *.
      split; [left; reflexivity|]. split; [reflexivity|]. split; [left; reflexivity|]. split.
      { destruct (rollback_shape_sop _ _ Hsh) as [okr Hr]. exists okr. apply before_intro; [left; reflexivity|exact Hr]. }
      split.
      { intros j Hj. destruct (rollback_shape_part _ _ j Hsh Hj) as [okj Hr]. exists okj. apply before_intro; [left; reflexivity|exact Hr]. }
      split; [exact Hno|]. intros [Hin|Hin]; [discriminate|]. apply (rollback_shape_ops _ _ _ Hsh) in Hin. discriminate.
    - destruct H as [_ [k [rb [Hk [HL Hsh]]]]]. exists (Ev (Part k) OP1 false). rewrite HL in *.
      assert (Hf : In (Ev (Part k) OP1 false) (Ev Sop OP1 true :: parts_ev OP1 true 0 k ++ [Ev (Part k) OP1 false]))
        by (right; apply in_or_app; right; left; reflexivity).
      split; [apply in_or_app; left; exact Hf|]. split; [reflexivity|]. split; [left; reflexivity|]. split.
      { destruct (rollback_shape_sop _ _ Hsh) as [okr Hr]. exists okr. apply before_intro; assumption. }
      split.
      { intros j Hj. destruct (rollback_shape_part _ _ j Hsh Hj) as [okj Hr]. exists okj. apply before_intro; assumption. }
      split; [exact Hno|]. intro Hin. apply in_app_or in Hin. destruct Hin as [Hin|Hin].
      + apply in_prefix_cases in Hin. destruct Hin as [Hin|[[j [_ Hin]]|Hin]]; discriminate.
      + apply (rollback_shape_ops _ _ _ Hsh) in Hin. discriminate.
    - destruct H as [_ [rb [HL Hsh]]]. exists (Ev Sop OP2 false). rewrite HL in *.
      assert (Hf : In (Ev Sop OP2 false) (Ev Sop OP1 true :: parts_ev OP1 true 0 (length ps) ++ [Ev Sop OP2 false]))
        by (right; apply in_or_app; right; left; reflexivity).
      split; [apply in_or_app; left; exact Hf|]. split; [reflexivity|]. split; [right; split; reflexivity|]. split.
      { destruct (rollback_shape_sop _ _ Hsh) as [okr Hr]. exists okr. apply before_intro; assumption. }
      split.
      { intros j Hj. destruct (rollback_shape_part _ _ j Hsh Hj) as [okj Hr]. exists okj. apply before_intro; assumption. }
      split; [exact Hno|]. intro Hin. apply in_app_or in Hin. destruct Hin as [Hin|Hin].
      + apply in_prefix_cases in Hin. destruct Hin as [Hin|[[j [_ Hin]]|Hin]]; discriminate.
      + apply (rollback_shape_ops _ _ _ Hsh) in Hin. discriminate.
    - destruct H as [Ht _]. congruence.
  Qed.

  (* Commit fails exactly when a first phase or SOP's second phase fails; when it succeeds every
     participant's second phase has run exactly once and nobody was rolled back. *)
  Lemma c16_commit_outcome : forall s ps,
    let L := o_log (commit s ps) in
    (o_ok (commit s ps) = false <->
       exists f, In f L /\ e_ok f = false /\ (e_op f = OP1 \/ (e_op f = OP2 /\ e_who f = Sop))) /\
    (o_ok (commit s ps) = true ->
       (exists l2, L = Ev Sop OP1 true :: parts_ev OP1 true 0 (length ps) ++ Ev Sop OP2 true :: l2
                   /\ all_shape OP2 0 (length ps) l2)
       /\ forall e, In e L -> e_op e <> ORollback).
  Proof.
    intros s ps L. split; [split|].
    - intro Hok. destruct (c16_rollback_fanout s ps Hok) as [f [H1 [H2 [H3 _]]]]. exists f. auto.
    - intros [f [Hin [Hf Hop]]]. destruct (o_ok (commit s ps)) eqn:Hok; [|reflexivity]. exfalso.
      subst L. destruct (c16_commit_log s ps) as [H|[H|[H|H]]]; try (destruct H as [H _]; congruence).
      destruct H as [_ [l2 [HL Hsh]]]. rewrite HL in Hin.
      destruct Hin as [Hin|Hin]; [subst; discriminate|]. apply in_app_or in Hin. destruct Hin as [Hin|[Hin|Hin]].
      + apply parts_ev_In in Hin. destruct Hin as [j [_ Hin]]. subst. discriminate.
      + subst. discriminate.
      + destruct (all_shape_op _ _ _ _ _ Hsh Hin) as [Ho [j [_ Hw]]]. destruct Hop as [Hop|[_ Hop]]; congruence.
    - intro Hok. subst L. destruct (c16_commit_log s ps) as [H|[H|[H|H]]]; try (destruct H as [H _]; congruence).
      destruct H as [_ [l2 [HL Hsh]]]. split; [exists l2; split; assumption|]. rewrite HL.
      intros e Hin. destruct Hin as [Hin|Hin]; [subst; discriminate|]. apply in_app_or in Hin. destruct Hin as [Hin|[Hin|Hin]].
      + apply parts_ev_In in Hin. destruct Hin as [j [_ Hin]]. subst. discriminate.
      + subst. discriminate.
      + destruct (all_shape_op _ _ _ _ _ Hsh Hin) as [Ho _]. congruence.
  Qed.

  (* Rollback itself reaches SOP and every participant exactly once, in order, whichever rollbacks fail;
     it reports success exactly when all of them succeeded. *)
  Lemma c16_rollback_reaches_all : forall s ps,
    rollback_shape (length ps) (o_log (rollback s ps)) /\
    (o_ok (rollback s ps) = true <-> Forall (fun e => e_ok e = true) (o_log (rollback s ps))).
  Proof. intros s ps. destruct (w_rollback_spec SS PS sstep pstep s ps) as [H1 [_ [_ H2]]]. split; assumption. Qed.

  (* Begin: the complete list of call logs *)
  Lemma c16_begin_log : forall s ps,
    begin_shape (length ps) (o_log (begin s ps)) (o_ok (begin s ps)) /\ length (o_parts (begin s ps)) = length ps.
  Proof. intros s ps. apply (w_begin_spec SS PS sstep pstep s ps). Qed.

  Lemma in_begin_prefix_cases : forall e k,
    In e (Ev Sop OBegin true :: parts_ev OBegin true 0 k ++ [Ev (Part k) OBegin false]) ->
    e = Ev Sop OBegin true \/ (exists j, j < k /\ e = Ev (Part j) OBegin true) \/ e = Ev (Part k) OBegin false.
  Proof.
    intros e k [H|H]; [left; congruence|]. apply in_app_or in H. destruct H as [H|[H|[]]].
    - right. left. apply parts_ev_In in H. destruct H as [j [Hj He]]. exists j. split; [lia|exact He].
    - right. right. congruence.
  Qed.

  Lemma c16_begin_sop_failure : forall s ps,
    In (Ev Sop OBegin false) (o_log (begin s ps)) ->
    o_ok (begin s ps) = false /\ o_log (begin s ps) = [Ev Sop OBegin false].
  Proof.
    intros s ps Hin. destruct (c16_begin_log s ps) as [[H|[H|H]] _].
    - exfalso. destruct H as [_ HL]. rewrite HL in Hin. destruct Hin as [Hin|Hin]; [discriminate|].
      apply parts_ev_In in Hin. destruct Hin as [j [_ Hin]]. discriminate.
    - exact H.
    - exfalso. destruct H as [_ [k [rb [_ [HL Hsh]]]]]. rewrite HL in Hin. apply in_app_or in Hin. destruct Hin as [Hin|Hin].
      + apply in_begin_prefix_cases in Hin. destruct Hin as [Hin|[[j [_ Hin]]|Hin]]; discriminate.
      + apply (rollback_shape_ops _ _ _ Hsh) in Hin. discriminate.
  Qed.

  Lemma c16_begin_fanout : forall s ps k,
    let L := o_log (begin s ps) in
    let f := Ev (Part k) OBegin false in
    In f L ->
    o_ok (begin s ps) = false
    /\ In (Ev Sop OBegin true) L
    /\ (exists okr, before f (Ev Sop ORollback okr) L)
    /\ (forall j, j < k -> In (Ev (Part j) OBegin true) L /\ exists okj, before f (Ev (Part j) ORollback okj) L)
    /\ (forall j o ok, k <= j -> In (Ev (Part j) o ok) L -> Ev (Part j) o ok = f).
  Proof.
    intros s ps k L f Hin. subst L f. destruct (c16_begin_log s ps) as [[H|[H|H]] _].
    - exfalso. destruct H as [_ HL]. rewrite HL in Hin. destruct Hin as [Hin|Hin]; [discriminate|].
      apply parts_ev_In in Hin. destruct Hin as [j [_ Hin]]. discriminate.
    - exfalso. destruct H as [_ HL]. rewrite HL in Hin. destruct Hin as [Hin|[]]. discriminate.
    - destruct H as [Hok [k' [rb [Hk [HL Hsh]]]]]. rewrite HL in *.
      assert (k = k').
      { apply in_app_or in Hin. destruct Hin as [Hin|Hin].
        - apply in_begin_prefix_cases in Hin. destruct Hin as [Hin|[[j [_ Hin]]|Hin]]; try discriminate. congruence.
        - apply (rollback_shape_ops _ _ _ Hsh) in Hin. discriminate. }
      subst k'.
      assert (Hf : In (Ev (Part k) OBegin false) (Ev Sop OBegin true :: parts_ev OBegin true 0 k ++ [Ev (Part k) OBegin false]))
        by (right; apply in_or_app; right; left; reflexivity).
      split; [exact Hok|]. split; [left; reflexivity|]. split.
      { destruct (rollback_shape_sop _ _ Hsh) as [okr Hr]. exists okr. apply before_intro; assumption. }
      split.
      { intros j Hj. split.
        - apply in_or_app. left. right. apply in_or_app. left. apply parts_ev_In. exists j. split; [lia|reflexivity].
        - destruct (rollback_shape_part _ _ j Hsh Hj) as [okj Hr]. exists okj. apply before_intro; assumption. }
      intros j o ok Hj He. apply in_app_or in He. destruct He as [He|He].
      + apply in_begin_prefix_cases in He. destruct He as [He|[[j' [Hj' He]]|He]]; [discriminate| |exact He].
        inversion He; subst. lia.
      + destruct Hsh as [okr [l [Hrb Hall]]]. subst rb. destruct He as [He|He]; [discriminate|].
        destruct (all_shape_op _ _ _ _ _ Hall He) as [_ [j' [Hj' Hw]]]. cbn [e_who] in Hw. inversion Hw; subst. lia.
  Qed.

  Lemma before_app_r : forall a b (L X : list event), before a b L -> before a b (L ++ X).
  Proof.
    intros a b L X [x [y [z H]]]. subst. exists x, y, (z ++ X).
    repeat (rewrite <- app_assoc; cbn [app]). reflexivity.
  Qed.

  (* whoever has begun is rolled back whenever a top-level call of the session reports an error *)
  Lemma c16_session : forall cleanup s ps w,
    let '(L, res, _, _) := run_session SS PS sstep pstep SCommit cleanup s ps in
    In false res ->
    In (Ev w OBegin true) (o_log (begin s ps)) ->
    exists ok, before (Ev w OBegin true) (Ev w ORollback ok) L.
  Proof.
    intros cleanup s ps w. unfold run_session.
    destruct (c16_begin_log s ps) as [Hshape Hlen].
    destruct (o_ok (begin s ps)) eqn:Hok.
    - intros Hres Hb. destruct Hres as [Hres|[Hres|[]]]; [discriminate|].
      destruct Hshape as [[_ HL]|[[Hc _]|[Hc _]]]; try discriminate.
      set (b := begin s ps) in *.
      assert (Hw : w = Sop \/ exists j, j < length (o_parts b) /\ w = Part j).
      { rewrite HL in Hb. destruct Hb as [Hb|Hb]; [left; congruence|]. right.
        apply parts_ev_In in Hb. destruct Hb as [j [Hj He]]. exists j. split; [lia|congruence]. }
      assert (Hrb : exists pre rb, o_log (commit (o_sop b) (o_parts b)) = pre ++ rb /\ rollback_shape (length (o_parts b)) rb).
      { destruct (c16_commit_log (o_sop b) (o_parts b)) as [H|[H|[H|H]]].
        - destruct H as [_ [rb [H1 H2]]]. eauto.
        - destruct H as [_ [k [rb [_ [H1 H2]]]]]. eauto.
        - destruct H as [_ [rb [H1 H2]]]. eauto.
        - destruct H as [Ht _]. congruence. }
      destruct Hrb as [pre [rb [HLc Hsh]]].
      assert (Hr : exists ok, In (Ev w ORollback ok) (o_log (commit (o_sop b) (o_parts b)))).
      { rewrite HLc. destruct Hw as [Hw|[j [Hj Hw]]]; subst w.
        - destruct (rollback_shape_sop _ _ Hsh) as [ok Hr]. exists ok. apply in_or_app. right. exact Hr.
        - destruct (rollback_shape_part _ _ j Hsh Hj) as [ok Hr]. exists ok. apply in_or_app. right. exact Hr. }
      destruct Hr as [ok Hr]. exists ok. apply before_intro; assumption.
    - assert (Hin : In (Ev w OBegin true) (o_log (begin s ps)) ->
                    exists ok, before (Ev w OBegin true) (Ev w ORollback ok) (o_log (begin s ps))).
      { intro Hb. destruct Hshape as [[Hc _]|[[_ HL]|[_ [k [rb [Hk [HL Hsh]]]]]]]; [discriminate| |].
        - rewrite HL in Hb. destruct Hb as [Hb|[]]. discriminate.
        - rewrite HL in *. apply in_app_or in Hb. destruct Hb as [Hb|Hb].
          + assert (Hw : w = Sop \/ exists j, j < k /\ w = Part j).
            { apply in_begin_prefix_cases in Hb. destruct Hb as [Hb|[[j [Hj Hb]]|Hb]]; [left; congruence| |discriminate].
              right. exists j. split; [exact Hj|congruence]. }
            destruct Hw as [Hw|[j [Hj Hw]]]; subst w.
            * destruct (rollback_shape_sop _ _ Hsh) as [ok Hr]. exists ok. apply before_intro; assumption.
            * destruct (rollback_shape_part _ _ j Hsh Hj) as [ok Hr]. exists ok. apply before_intro; assumption.
          + apply (rollback_shape_ops _ _ _ Hsh) in Hb. discriminate. }
      destruct cleanup; cbn; intros _ Hb; destruct (Hin Hb) as [ok Hbf]; exists ok.
      + apply before_app_r. exact Hbf.
      + exact Hbf.
  Qed.
End C16Lemmas.

(* SOP's own outcome with the phase state machine of common.Transaction *)
Lemma c16_sop_outcome : forall (PS : Type) (pstep : PS -> op -> bool * PS) sc ps committed0,
  sf_p2 sc <> FAfter -> sf_rollback sc <> FBefore ->
  let r := w_commit sop_state PS lifecycle pstep (SopState Begun committed0 sc) ps in
  s_phase (o_sop r) = Done /\
  (o_ok r = true -> s_committed (o_sop r) = true) /\
  (o_ok r = false -> s_committed (o_sop r) = committed0).
Proof.
  intros PS pstep sc ps c0 H2 Hr r. subst r. unfold w_commit, fail_with, w_rollback.
  destruct sc as [fb f1 f2 fr]. cbn [sf_p2 sf_rollback] in H2, Hr.
  destruct (until_fail PS pstep OP1 0 ps) as [[l1 okp] ps1] eqn:Eu.
  destruct f1, okp, f2, fr; try congruence; cbn -[for_all until_fail];
    rewrite ?Eu; cbn -[for_all until_fail];
    repeat match goal with
    | |- context [for_all ?a ?b ?c ?d ?e] => destruct (for_all a b c d e) as [[? ?] ?]
    end; cbn; repeat split; intros; congruence.
Qed.

(* a failed Begin leaves SOP's transaction not begun (ended by its Rollback, or never started) *)
Lemma c16_begin_sop_outcome : forall (PS : Type) (pstep : PS -> op -> bool * PS) sc ps,
  sf_begin sc <> FAfter -> sf_rollback sc <> FBefore ->
  let r := w_begin sop_state PS lifecycle pstep (sop_init sc) ps in
  o_ok r = false -> has_begun (s_phase (o_sop r)) = false /\ s_committed (o_sop r) = false.
Proof.
  intros PS pstep sc ps Hb Hr r. subst r. unfold w_begin, w_rollback, sop_init.
  destruct sc as [fb f1 f2 fr]. cbn [sf_begin sf_rollback] in Hb, Hr.
  destruct (until_fail PS pstep OBegin 0 ps) as [[l res] ps'] eqn:Eu.
  destruct fb, res, fr; try congruence; cbn -[for_all until_fail firstn skipn];
    rewrite ?Eu; cbn -[for_all until_fail firstn skipn];
    repeat match goal with
    | |- context [for_all ?a ?b ?c ?d ?e] => destruct (for_all a b c d e) as [[? ?] ?]
    end; cbn; intros; repeat split; congruence.
Qed.

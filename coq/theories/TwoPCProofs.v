(* Lemmas about the SinglePhaseTransaction model (TwoPC.v): the complete shape of the call log of
   Begin / Commit / Rollback for any number of participants and any behaviour of SOP's transaction
   and of the participants, by induction on the participant list. *)
From Coq Require Import List Bool Arith Lia.
From SopVerif Require Import TwoPC.
Import ListNotations.

(* participants i .. i+n-1 each called once with operation o and outcome ok, in order *)
Definition parts_ev (o : op) (ok : bool) (i n : nat) : list event :=
  map (fun j => Ev (Part j) o ok) (seq i n).

(* participants i .. i+n-1 each called exactly once with operation o, in order, whatever the outcomes *)
Definition all_shape (o : op) (i n : nat) (l : list event) : Prop :=
  map e_who l = map Part (seq i n) /\ Forall (fun e => e_op e = o) l.

(* a occurs in L and b occurs later *)
Definition before (a b : event) (L : list event) : Prop := exists x y z, L = x ++ a :: y ++ b :: z.

Definition rollback_shape (n : nat) (rb : list event) : Prop :=
  exists ok l, rb = Ev Sop ORollback ok :: l /\ all_shape ORollback 0 n l.

Lemma parts_ev_S : forall o ok i n, parts_ev o ok i (S n) = Ev (Part i) o ok :: parts_ev o ok (S i) n.
Proof. reflexivity. Qed.

Lemma parts_ev_In : forall o ok i n e, In e (parts_ev o ok i n) <-> exists j, i <= j < i + n /\ e = Ev (Part j) o ok.
Proof.
  intros o ok i n e. unfold parts_ev. rewrite in_map_iff. split.
  - intros [j [He Hj]]. apply in_seq in Hj. exists j. split; [lia|congruence].
  - intros [j [Hj He]]. exists j. split; [congruence|apply in_seq; lia].
Qed.

Lemma all_shape_In : forall o i n l j, all_shape o i n l -> i <= j < i + n -> exists ok, In (Ev (Part j) o ok) l.
Proof.
  intros o i n l j [Hw Ho] Hj.
  assert (Hin : In (Part j) (map e_who l)) by (rewrite Hw; apply in_map; apply in_seq; lia).
  apply in_map_iff in Hin. destruct Hin as [e [He Hin]].
  rewrite Forall_forall in Ho. specialize (Ho e Hin). destruct e as [w o' ok]. cbn in *. subst. exists ok. exact Hin.
Qed.

Lemma all_shape_op : forall o i n l e, all_shape o i n l -> In e l -> e_op e = o /\ exists j, i <= j < i + n /\ e_who e = Part j.
Proof.
  intros o i n l e [Hw Ho] Hin. rewrite Forall_forall in Ho. split; [apply Ho; exact Hin|].
  assert (H : In (e_who e) (map Part (seq i n))) by (rewrite <- Hw; apply in_map; exact Hin).
  apply in_map_iff in H. destruct H as [j [Hj Hs]]. apply in_seq in Hs. exists j. split; [lia|congruence].
Qed.

Section WrapperProofs.
  Variables SS PS : Type.
  Variable sstep : SS -> op -> bool * SS.
  Variable pstep : PS -> op -> bool * PS.

  Lemma until_fail_spec : forall o ps i l r ps',
    until_fail PS pstep o i ps = (l, r, ps') ->
    length ps' = length ps /\
    ((r = true /\ l = parts_ev o true i (length ps)) \/
     (r = false /\ exists k, k < length ps /\ l = parts_ev o true i k ++ [Ev (Part (i + k)) o false])).
  Proof.
    intros o ps. induction ps as [|p rest IH]; intros i l r ps' H; cbn [until_fail] in H.
    - inversion H; subst. split; [reflexivity|]. left. split; reflexivity.
    - destruct (pstep p o) as [ok p'] eqn:Ep. destruct ok.
      + destruct (until_fail PS pstep o (S i) rest) as [[l0 r0] rest'] eqn:E0. inversion H; subst. clear H.
        destruct (IH _ _ _ _ E0) as [Hlen Hcase]. split; [cbn [length]; congruence|].
        destruct Hcase as [[Hr Hl]|[Hr [k [Hk Hl]]]].
        * left. split; [exact Hr|]. cbn [length]. rewrite parts_ev_S, Hl. reflexivity.
        * right. split; [exact Hr|]. exists (S k). split; [cbn [length]; lia|].
          rewrite parts_ev_S, Hl. replace (i + S k) with (S i + k) by lia. reflexivity.
      + inversion H; subst. split; [reflexivity|]. right. split; [reflexivity|].
        exists 0. split; [cbn [length]; lia|]. replace (i + 0) with i by lia. reflexivity.
  Qed.

  Lemma for_all_spec : forall o ps i l r ps',
    for_all PS pstep o i ps = (l, r, ps') ->
    length ps' = length ps /\ all_shape o i (length ps) l /\ (r = true <-> Forall (fun e => e_ok e = true) l).
  Proof.
    intros o ps. induction ps as [|p rest IH]; intros i l r ps' H; cbn [for_all] in H.
    - inversion H; subst. split; [reflexivity|]. split; [split; [reflexivity|constructor]|]. split; [constructor|reflexivity].
    - destruct (pstep p o) as [ok p'] eqn:Ep.
      destruct (for_all PS pstep o (S i) rest) as [[l0 r0] rest'] eqn:E0. inversion H; subst. clear H.
      destruct (IH _ _ _ _ E0) as [Hlen [[Hw Ho] Hr]]. split; [cbn [length]; congruence|]. split.
      + split; [cbn [length map seq e_who]; rewrite Hw; reflexivity|constructor; [reflexivity|exact Ho]].
      + rewrite andb_true_iff, Hr. split.
        * intros [H1 H2]. constructor; [exact H1|exact H2].
        * intro H. inversion H; subst. split; assumption.
  Qed.

  (* ---------------------------------------------------------------- Rollback *)

  Lemma w_rollback_spec : forall s ps,
    let r := w_rollback SS PS sstep pstep s ps in
    rollback_shape (length ps) (o_log r) /\ length (o_parts r) = length ps /\
    o_sop r = snd (sstep s ORollback) /\
    (o_ok r = true <-> Forall (fun e => e_ok e = true) (o_log r)).
  Proof.
    intros s ps. unfold w_rollback. destruct (sstep s ORollback) as [ok s'] eqn:Es.
    destruct (for_all PS pstep ORollback 0 ps) as [[l res] ps'] eqn:Ef. cbn [o_log o_ok o_sop o_parts snd].
    destruct (for_all_spec _ _ _ _ _ _ Ef) as [Hlen [Hsh Hr]].
    split; [exists ok, l; split; [reflexivity|exact Hsh]|]. split; [exact Hlen|]. split; [reflexivity|].
    rewrite andb_true_iff, Hr. split.
    - intros [H1 H2]. constructor; assumption.
    - intro H. inversion H; subst. split; assumption.
  Qed.

  (* ---------------------------------------------------------------- Begin *)

  Definition begin_shape (n : nat) (L : list event) (ok : bool) : Prop :=
    (ok = true /\ L = Ev Sop OBegin true :: parts_ev OBegin true 0 n) \/
    (ok = false /\ L = [Ev Sop OBegin false]) \/
    (ok = false /\ exists k, k < n /\ L = Ev Sop OBegin true :: parts_ev OBegin true 0 k ++ [Ev (Part k) OBegin false]).

  Lemma w_begin_spec : forall s ps,
    let r := w_begin SS PS sstep pstep s ps in
    begin_shape (length ps) (o_log r) (o_ok r) /\ length (o_parts r) = length ps /\ o_sop r = snd (sstep s OBegin).
  Proof.
    intros s ps. unfold w_begin. destruct (sstep s OBegin) as [ok s'] eqn:Es. destruct ok.
    - destruct (until_fail PS pstep OBegin 0 ps) as [[l res] ps'] eqn:Eu. cbn [o_log o_ok o_sop o_parts snd].
      destruct (until_fail_spec _ _ _ _ _ _ Eu) as [Hlen Hcase]. split; [|split; [exact Hlen|reflexivity]].
      destruct Hcase as [[Hr Hl]|[Hr [k [Hk Hl]]]]; subst.
      + left. split; reflexivity.
      + right. right. split; [reflexivity|]. exists k. split; [exact Hk|reflexivity].
    - cbn [o_log o_ok o_sop o_parts snd]. split; [|split; reflexivity]. right. left. split; reflexivity.
  Qed.

  (* ---------------------------------------------------------------- Commit *)

  Definition commit_shape (n : nat) (L : list event) (ok : bool) : Prop :=
    (ok = false /\ exists rb, L = [Ev Sop OP1 false] ++ rb /\ rollback_shape n rb) \/
    (ok = false /\ exists k rb, k < n /\
        L = (Ev Sop OP1 true :: parts_ev OP1 true 0 k ++ [Ev (Part k) OP1 false]) ++ rb /\ rollback_shape n rb) \/
    (ok = false /\ exists rb,
        L = (Ev Sop OP1 true :: parts_ev OP1 true 0 n ++ [Ev Sop OP2 false]) ++ rb /\ rollback_shape n rb) \/
    (ok = true /\ exists l2,
        L = Ev Sop OP1 true :: parts_ev OP1 true 0 n ++ Ev Sop OP2 true :: l2 /\ all_shape OP2 0 n l2).

  Lemma fail_with_spec : forall pre s ps,
    let r := fail_with SS PS sstep pstep pre s ps in
    o_ok r = false /\ (exists rb, o_log r = pre ++ rb /\ rollback_shape (length ps) rb) /\
    o_sop r = snd (sstep s ORollback) /\ length (o_parts r) = length ps.
  Proof.
    intros pre s ps. unfold fail_with. cbn [o_log o_ok o_sop o_parts].
    destruct (w_rollback_spec s ps) as [Hsh [Hlen [Hs _]]].
    split; [reflexivity|]. split; [eexists; split; [reflexivity|exact Hsh]|]. split; assumption.
  Qed.

  Lemma w_commit_spec : forall s ps,
    let r := w_commit SS PS sstep pstep s ps in
    commit_shape (length ps) (o_log r) (o_ok r) /\ length (o_parts r) = length ps.
  Proof.
    intros s ps. unfold w_commit. destruct (sstep s OP1) as [ok1 s1] eqn:E1. destruct ok1; cbn [negb].
    - destruct (until_fail PS pstep OP1 0 ps) as [[l1 okp] ps1] eqn:Eu.
      destruct (until_fail_spec _ _ _ _ _ _ Eu) as [Hlen1 Hcase].
      destruct okp; cbn [negb].
      + destruct Hcase as [[_ Hl]|[Hr _]]; [|discriminate]. subst l1.
        destruct (sstep s1 OP2) as [ok2 s2] eqn:E2. destruct ok2; cbn [negb].
        * destruct (for_all PS pstep OP2 0 ps1) as [[l2 r2] ps2] eqn:Ef. cbn [o_log o_ok o_parts].
          destruct (for_all_spec _ _ _ _ _ _ Ef) as [Hlen2 [Hsh _]]. rewrite Hlen1 in Hsh.
          split; [|congruence]. right. right. right. split; [reflexivity|]. exists l2. split; [reflexivity|exact Hsh].
        * destruct (fail_with_spec (Ev Sop OP1 true :: parts_ev OP1 true 0 (length ps) ++ [Ev Sop OP2 false]) s2 ps1)
            as [Hok [[rb [Hl Hsh]] [_ Hlen]]].
          rewrite Hlen1 in Hsh, Hlen. split; [|exact Hlen]. right. right. left. split; [exact Hok|].
          exists rb. split; [exact Hl|exact Hsh].
      + destruct Hcase as [[Hr _]|[_ [k [Hk Hl]]]]; [discriminate|]. subst l1.
        destruct (fail_with_spec (Ev Sop OP1 true :: parts_ev OP1 true 0 k ++ [Ev (Part (0 + k)) OP1 false]) s1 ps1)
          as [Hok [[rb [Hl Hsh]] [_ Hlen]]].
        rewrite Hlen1 in Hsh, Hlen. split; [|exact Hlen]. right. left. split; [exact Hok|].
        exists k, rb. split; [exact Hk|]. split; [exact Hl|exact Hsh].
    - destruct (fail_with_spec [Ev Sop OP1 false] s1 ps) as [Hok [[rb [Hl Hsh]] [_ Hlen]]].
      split; [|exact Hlen]. left. split; [exact Hok|]. exists rb. split; [exact Hl|exact Hsh].
  Qed.
End WrapperProofs.

(* ------------------------------------------------------------------ consequences of the shapes *)

Lemma rollback_shape_sop : forall n rb, rollback_shape n rb -> exists ok, In (Ev Sop ORollback ok) rb.
Proof. intros n rb [ok [l [H _]]]. subst. exists ok. left. reflexivity. Qed.

Lemma rollback_shape_part : forall n rb j, rollback_shape n rb -> j < n -> exists ok, In (Ev (Part j) ORollback ok) rb.
Proof.
  intros n rb j [ok [l [H Hsh]]] Hj. subst. destruct (all_shape_In _ _ _ _ j Hsh) as [okj Hin]; [lia|].
  exists okj. right. exact Hin.
Qed.

Lemma rollback_shape_ops : forall n rb e, rollback_shape n rb -> In e rb -> e_op e = ORollback.
Proof.
  intros n rb e [ok [l [H Hsh]]] Hin. subst. destruct Hin as [Hin|Hin]; [subst; reflexivity|].
  apply (all_shape_op _ _ _ _ _ Hsh Hin).
Qed.

Lemma before_intro : forall (pre : list event) a rb b, In a pre -> In b rb -> before a b (pre ++ rb).
Proof.
  intros pre a rb b Ha Hb. apply in_split in Ha. destruct Ha as [x [y Ha]]. apply in_split in Hb. destruct Hb as [u [v Hb]].
  subst. exists x, (y ++ u), v. repeat (rewrite <- app_assoc; cbn [app]). reflexivity.
Qed.

Lemma before_In : forall a b L, before a b L -> In a L /\ In b L.
Proof.
  intros a b L [x [y [z H]]]. subst. split.
  - apply in_or_app. right. left. reflexivity.
  - apply in_or_app. right. right. apply in_or_app. right. left. reflexivity.
Qed.

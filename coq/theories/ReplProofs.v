(* Lemmas about the replication model Repl.v *)
From Coq Require Import List ZArith NArith Bool Lia.
From SopVerif Require Import Repl.
Import ListNotations.
Local Open Scope N_scope.

Definition req (m m' : reg) : Prop := forall t l, m t l = m' t l.
Definition feq {A} (f g : N -> A) : Prop := forall n, f n = g n.
Definition side_eq (a p : side) : Prop :=
  feq (s_has a) (s_has p) /\ feq (s_info a) (s_info p) /\ req (s_reg a) (s_reg p).
Definition synced (w : world) : Prop :=
  w_failed w = false /\ w_logging w = false /\ w_logs w = [] /\ side_eq (active w) (passive w).

Definition R3 (x y : reg * nat * bool) : Prop :=
  req (fst (fst x)) (fst (fst y)) /\ snd (fst x) = snd (fst y) /\ snd x = snd y.

Lemma req_refl m : req m m. Proof. intros t l; reflexivity. Qed.
Lemma req_rset m m' t l v : req m m' -> req (rset m t l v) (rset m' t l v).
Proof. intros H t' l'. unfold rset. destruct ((t' =? t) && (l' =? l)); auto. Qed.
Lemma req_rdrop m m' t : req m m' -> req (rdrop m t) (rdrop m' t).
Proof. intros H t' l'. unfold rdrop. destruct (t' =? t); auto. Qed.
Lemma feq_fset {A} (f g : N -> A) k v : feq f g -> feq (fset f k v) (fset g k v).
Proof. intros H n. unfold fset. destruct (n =? k); auto. Qed.

(* ---------- the list operations respect pointwise equality of maps ---------- *)
Lemma add_list_ext f t hs : forall i m m', req m m' -> R3 (add_list f i t hs m) (add_list f i t hs m').
Proof.
  induction hs as [|h r IH]; intros i m m' E; cbn [add_list].
  - repeat split; auto.
  - destruct (f i); [repeat split; auto|]. rewrite (E t (h_lid h)).
    destruct (m' t (h_lid h)); [repeat split; auto|]. apply IH, req_rset, E.
Qed.
Lemma set_list_ext f t hs : forall i m m', req m m' -> R3 (set_list f i t hs m) (set_list f i t hs m').
Proof.
  induction hs as [|h r IH]; intros i m m' E; cbn [set_list].
  - repeat split; auto.
  - destruct (f i); [repeat split; auto|]. apply IH, req_rset, E.
Qed.
Lemma zero_list_ext f t hs : forall i m m', req m m' -> R3 (zero_list f i t hs m) (zero_list f i t hs m').
Proof.
  induction hs as [|h r IH]; intros i m m' E; cbn [zero_list].
  - repeat split; auto.
  - destruct (f i); [repeat split; auto|]. apply IH, req_rset, E.
Qed.
Lemma rem_list_ext f t hs i m m' : req m m' -> R3 (rem_list f i t hs m) (rem_list f i t hs m').
Proof.
  intros E. unfold rem_list.
  assert (X : forallb (fun h => isSome (m t (h_lid h))) hs = forallb (fun h => isSome (m' t (h_lid h))) hs).
  { induction hs as [|h r IH]; cbn; auto. rewrite (E t (h_lid h)), IH. reflexivity. }
  rewrite X. clear X. destruct (forallb (fun h => isSome (m' t (h_lid h))) hs); [apply zero_list_ext, E|repeat split; auto].
Qed.

Section Payload.
  Variable one : faults -> nat -> N -> list handle -> reg -> reg * nat * bool.
  Hypothesis one_ext : forall f t hs i m m', req m m' -> R3 (one f i t hs m) (one f i t hs m').
  Fixpoint gen_payload (f : faults) (i : nat) (p : payload) (m : reg) : reg * nat * bool :=
    match p with
    | [] => (m, i, true)
    | (t, hs) :: r => let '(m1, i1, ok) := one f i t hs m in
                      if ok then gen_payload f i1 r m1 else (m1, i1, false)
    end.
  Lemma gen_payload_ext f p : forall i m m', req m m' -> R3 (gen_payload f i p m) (gen_payload f i p m').
  Proof.
    induction p as [|[t hs] r IH]; intros i m m' E; cbn [gen_payload].
    - repeat split; auto.
    - pose proof (one_ext f t hs i m m' E) as H.
      destruct (one f i t hs m) as [[m1 i1] ok], (one f i t hs m') as [[m1' i1'] ok'].
      destruct H as (H1 & H2 & H3); cbn in H1, H2, H3. subst i1' ok'.
      destruct ok; [apply IH, H1|repeat split; auto].
  Qed.
End Payload.

Lemma add_payload_gen f i p m : add_payload f i p m = gen_payload add_list f i p m.
Proof.
  revert i m; induction p as [|[t hs] r IH]; intros; cbn [add_payload gen_payload]; [reflexivity|].
  destruct (add_list f i t hs m) as [[m1 i1] ok]. destruct ok; [apply IH|reflexivity].
Qed.
Lemma set_payload_gen f i p m : set_payload f i p m = gen_payload set_list f i p m.
Proof.
  revert i m; induction p as [|[t hs] r IH]; intros; cbn [set_payload gen_payload]; [reflexivity|].
  destruct (set_list f i t hs m) as [[m1 i1] ok]. destruct ok; [apply IH|reflexivity].
Qed.
Lemma rem_payload_gen f i p m : rem_payload f i p m = gen_payload rem_list f i p m.
Proof.
  revert i m; induction p as [|[t hs] r IH]; intros; cbn [rem_payload gen_payload]; [reflexivity|].
  destruct (rem_list f i t hs m) as [[m1 i1] ok]. destruct ok; [apply IH|reflexivity].
Qed.

Lemma add_payload_ext f p i m m' : req m m' -> R3 (add_payload f i p m) (add_payload f i p m').
Proof. rewrite !add_payload_gen. apply gen_payload_ext. intros; apply add_list_ext; auto. Qed.
Lemma set_payload_ext f p i m m' : req m m' -> R3 (set_payload f i p m) (set_payload f i p m').
Proof. rewrite !set_payload_gen. apply gen_payload_ext. intros; apply set_list_ext; auto. Qed.
Lemma rem_payload_ext f p i m m' : req m m' -> R3 (rem_payload f i p m) (rem_payload f i p m').
Proof. rewrite !rem_payload_gen. apply gen_payload_ext. intros; apply rem_list_ext; auto. Qed.

Lemma replicate_reg_ext f i c m m' : req m m' -> R3 (replicate_reg f i c m) (replicate_reg f i c m').
Proof.
  intros E. unfold replicate_reg.
  pose proof (add_payload_ext f (c_roots c) i m m' E) as H1.
  destruct (add_payload f i (c_roots c) m) as [[m1 i1] ok1], (add_payload f i (c_roots c) m') as [[m1' i1'] ok1'].
  destruct H1 as (A1 & A2 & A3); cbn in A1, A2, A3; subst i1' ok1'.
  pose proof (add_payload_ext f (c_added c) i1 m1 m1' A1) as H2.
  destruct (add_payload f i1 (c_added c) m1) as [[m2 i2] ok2], (add_payload f i1 (c_added c) m1') as [[m2' i2'] ok2'].
  destruct H2 as (B1 & B2 & B3); cbn in B1, B2, B3; subst i2' ok2'.
  pose proof (set_payload_ext f (c_upd c) i2 m2 m2' B1) as H3.
  destruct (set_payload f i2 (c_upd c) m2) as [[m3 i3] ok3], (set_payload f i2 (c_upd c) m2') as [[m3' i3'] ok3'].
  destruct H3 as (C1 & C2 & C3); cbn in C1, C2, C3; subst i3' ok3'.
  pose proof (rem_payload_ext f (c_rem c) i3 m3 m3' C1) as H4.
  destruct (rem_payload f i3 (c_rem c) m3) as [[m4 i4] ok4], (rem_payload f i3 (c_rem c) m3') as [[m4' i4'] ok4'].
  destruct H4 as (D1 & D2 & D3); cbn in D1, D2, D3; subst i4' ok4'.
  repeat split; auto.
Qed.

(* ---------- fault-free runs: the write index is irrelevant and infos never fail ---------- *)
Lemma replicate_info_nofault ss : forall i j inf inf', feq inf inf' ->
  feq (fst (fst (replicate_info nofault i ss inf))) (fst (fst (replicate_info nofault j ss inf')))
  /\ snd (replicate_info nofault i ss inf) = true.
Proof.
  induction ss as [|s r IH]; intros i j inf inf' E; cbn [replicate_info nofault].
  - split; auto.
  - apply IH, feq_fset, E.
Qed.

(* ---------- a run that reports success did not hit a fault: it equals the fault-free run ---------- *)
Lemma add_list_ok f t hs : forall i j m, snd (add_list f i t hs m) = true ->
  fst (fst (add_list nofault j t hs m)) = fst (fst (add_list f i t hs m)) /\ snd (add_list nofault j t hs m) = true.
Proof.
  induction hs as [|h r IH]; intros i j m H; cbn [add_list nofault] in *; auto.
  destruct (f i); [discriminate|]. destruct (m t (h_lid h)); [discriminate|]. apply IH, H.
Qed.
Lemma set_list_ok f t hs : forall i j m, snd (set_list f i t hs m) = true ->
  fst (fst (set_list nofault j t hs m)) = fst (fst (set_list f i t hs m)) /\ snd (set_list nofault j t hs m) = true.
Proof.
  induction hs as [|h r IH]; intros i j m H; cbn [set_list nofault] in *; auto.
  destruct (f i); [discriminate|]. apply IH, H.
Qed.
Lemma zero_list_ok f t hs : forall i j m, snd (zero_list f i t hs m) = true ->
  fst (fst (zero_list nofault j t hs m)) = fst (fst (zero_list f i t hs m)) /\ snd (zero_list nofault j t hs m) = true.
Proof.
  induction hs as [|h r IH]; intros i j m H; cbn [zero_list nofault] in *; auto.
  destruct (f i); [discriminate|]. apply IH, H.
Qed.
Lemma rem_list_ok f t hs i j m : snd (rem_list f i t hs m) = true ->
  fst (fst (rem_list nofault j t hs m)) = fst (fst (rem_list f i t hs m)) /\ snd (rem_list nofault j t hs m) = true.
Proof.
  unfold rem_list. destruct (forallb _ hs); [apply zero_list_ok|discriminate].
Qed.

Section PayloadOk.
  Variable one : faults -> nat -> N -> list handle -> reg -> reg * nat * bool.
  Hypothesis one_ok : forall f t hs i j m, snd (one f i t hs m) = true ->
    fst (fst (one nofault j t hs m)) = fst (fst (one f i t hs m)) /\ snd (one nofault j t hs m) = true.
  Lemma gen_payload_ok f p : forall i j m, snd (gen_payload one f i p m) = true ->
    fst (fst (gen_payload one nofault j p m)) = fst (fst (gen_payload one f i p m))
    /\ snd (gen_payload one nofault j p m) = true.
  Proof.
    induction p as [|[t hs] r IH]; intros i j m H; cbn [gen_payload] in *; auto.
    pose proof (one_ok f t hs i j m) as O.
    destruct (one f i t hs m) as [[m1 i1] ok]. destruct ok; [|discriminate].
    destruct (O eq_refl) as [O1 O2]. destruct (one nofault j t hs m) as [[m1' j1] ok']. cbn in O1, O2. subst m1' ok'.
    apply IH, H.
  Qed.
End PayloadOk.

Lemma add_payload_ok f p i j m : snd (add_payload f i p m) = true ->
  fst (fst (add_payload nofault j p m)) = fst (fst (add_payload f i p m)) /\ snd (add_payload nofault j p m) = true.
Proof. rewrite !add_payload_gen. apply gen_payload_ok, add_list_ok. Qed.
Lemma set_payload_ok f p i j m : snd (set_payload f i p m) = true ->
  fst (fst (set_payload nofault j p m)) = fst (fst (set_payload f i p m)) /\ snd (set_payload nofault j p m) = true.
Proof. rewrite !set_payload_gen. apply gen_payload_ok, set_list_ok. Qed.
Lemma rem_payload_ok f p i j m : snd (rem_payload f i p m) = true ->
  fst (fst (rem_payload nofault j p m)) = fst (fst (rem_payload f i p m)) /\ snd (rem_payload nofault j p m) = true.
Proof. rewrite !rem_payload_gen. apply gen_payload_ok, rem_list_ok. Qed.

Lemma replicate_reg_ok f i j c m : snd (replicate_reg f i c m) = true ->
  fst (fst (replicate_reg nofault j c m)) = fst (fst (replicate_reg f i c m)) /\ snd (replicate_reg nofault j c m) = true.
Proof.
  intros H. unfold replicate_reg in *.
  destruct (add_payload f i (c_roots c) m) as [[m1 i1] ok1] eqn:E1.
  destruct (add_payload f i1 (c_added c) m1) as [[m2 i2] ok2] eqn:E2.
  destruct (set_payload f i2 (c_upd c) m2) as [[m3 i3] ok3] eqn:E3.
  destruct (rem_payload f i3 (c_rem c) m3) as [[m4 i4] ok4] eqn:E4.
  cbn in H. apply andb_prop in H as [H H4]. apply andb_prop in H as [H H3]. apply andb_prop in H as [H1 H2].
  subst ok1 ok2 ok3 ok4.
  pose proof (add_payload_ok f (c_roots c) i j m) as P1. rewrite E1 in P1. specialize (P1 eq_refl).
  destruct (add_payload nofault j (c_roots c) m) as [[n1 j1] k1]. cbn in P1. destruct P1 as [-> ->].
  pose proof (add_payload_ok f (c_added c) i1 j1 m1) as P2. rewrite E2 in P2. specialize (P2 eq_refl).
  destruct (add_payload nofault j1 (c_added c) m1) as [[n2 j2] k2]. cbn in P2. destruct P2 as [-> ->].
  pose proof (set_payload_ok f (c_upd c) i2 j2 m2) as P3. rewrite E3 in P3. specialize (P3 eq_refl).
  destruct (set_payload nofault j2 (c_upd c) m2) as [[n3 j3] k3]. cbn in P3. destruct P3 as [-> ->].
  pose proof (rem_payload_ok f (c_rem c) i3 j3 m3) as P4. rewrite E4 in P4. specialize (P4 eq_refl).
  destruct (rem_payload nofault j3 (c_rem c) m3) as [[n4 j4] k4]. cbn in P4. destruct P4 as [-> ->].
  split; reflexivity.
Qed.

Lemma replicate_info_ok f ss : forall i j inf, snd (replicate_info f i ss inf) = true ->
  fst (fst (replicate_info nofault j ss inf)) = fst (fst (replicate_info f i ss inf)).
Proof.
  induction ss as [|s r IH]; intros i j inf H; cbn [replicate_info nofault] in *; auto.
  destruct (f i); [discriminate|]. apply IH, H.
Qed.

(* ---------- world plumbing ---------- *)
Lemma active_with_sides w a p : active (with_sides w a p) = a.
Proof. unfold active, with_sides. destruct (w_tog w) eqn:E; cbn; rewrite ?E; reflexivity. Qed.
Lemma passive_with_sides w a p : passive (with_sides w a p) = p.
Proof. unfold passive, with_sides. destruct (w_tog w) eqn:E; cbn; rewrite ?E; reflexivity. Qed.
Lemma flags_with_sides w a p :
  w_failed (with_sides w a p) = w_failed w /\ w_logging (with_sides w a p) = w_logging w /\ w_logs (with_sides w a p) = w_logs w
  /\ w_tog (with_sides w a p) = w_tog w.
Proof. unfold with_sides. destruct (w_tog w) eqn:E; cbn; auto. Qed.
Lemma active_with_flags w x y z : active (with_flags w x y z) = active w.
Proof. reflexivity. Qed.
Lemma passive_with_flags w x y z : passive (with_flags w x y z) = passive w.
Proof. reflexivity. Qed.

(* ---------- fault-free, well-formed operations ---------- *)
Definition wf_op (w : world) (o : op) : Prop :=
  match o with
  | OCreate n si f => f = nofault /\ s_has (active w) n = false
  | OCommit c late f g => f = nofault /\ g = nofault /\ snd (commit_active c (active w)) = true
  | ODrop n f => f = nofault
  | OReinstate _ => False
  | OFailover => False
  | OReplaceDrive => False
  end.
Fixpoint wf_run (w : world) (ops : list op) : Prop :=
  match ops with
  | [] => True
  | o :: r => wf_op w o /\ wf_run (fst (step w o)) r
  end.

Lemma synced_with_sides w a p : w_failed w = false -> w_logging w = false -> w_logs w = [] -> side_eq a p ->
  synced (with_sides w a p).
Proof.
  intros F L G E. destruct (flags_with_sides w a p) as (A & B & C & _).
  unfold synced. rewrite A, B, C, active_with_sides, passive_with_sides. auto.
Qed.

Lemma step_synced w o : synced w -> wf_op w o -> synced (fst (step w o)) /\ snd (step w o) = ROk.
Proof.
  intros (F & L & G & SE) WF. destruct SE as (Eh & Ei & Er).
  destruct o as [n si f|c late f g|n f|b| |]; cbn [wf_op] in WF; try contradiction.
  - (* create *)
    destruct WF as [-> Hn]. unfold step. rewrite Hn. unfold create_passive, nofault. cbn [fst snd].
    split; [|reflexivity]. apply synced_with_sides; auto.
    repeat split; cbn [s_has s_info s_reg]; try apply feq_fset; auto.
  - (* commit *)
    destruct WF as (-> & -> & Hok). unfold step. unfold commit_active in *.
    pose proof (replicate_reg_ext nofault 0 c (s_reg (active w)) (s_reg (passive w)) Er) as X.
    destruct (replicate_reg nofault 0 c (s_reg (active w))) as [[ma ia] oka].
    pose proof (replicate_info_nofault (c_stores c) 0%nat 0%nat (s_info (active w)) (s_info (active w)) (fun _ => eq_refl)) as [_ Y].
    destruct (replicate_info nofault 0 (c_stores c) (s_info (active w))) as [[infa ja] oki] eqn:EI.
    cbn [snd] in Hok. subst oka. rewrite F, L. unfold commit_passive.
    destruct (replicate_reg nofault 0 c (s_reg (passive w))) as [[mp ip] okp].
    destruct X as (X1 & X2 & X3); cbn in X1, X2, X3. subst ip okp. cbn [negb andb].
    pose proof (replicate_info_nofault (c_stores c) 0%nat 0%nat (s_info (active w)) (s_info (passive w)) Ei) as [Z1 Z2].
    rewrite EI in Z1. cbn [fst] in Z1.
    pose proof (replicate_info_nofault (c_stores c) 0%nat 0%nat (s_info (passive w)) (s_info (passive w)) (fun _ => eq_refl)) as [_ Z3].
    destruct (replicate_info nofault 0 (c_stores c) (s_info (passive w))) as [[infp jp] okip]. cbn in Z1, Z3. subst okip.
    cbn [fst snd negb andb]. split; [|reflexivity].
    unfold synced. cbn [w_failed w_logging w_logs with_flags]. rewrite G.
    rewrite active_with_flags, passive_with_flags, active_with_sides, passive_with_sides.
    repeat split; auto.
  - (* drop *)
    subst f. unfold step. unfold drop_passive, nofault. cbn [fst snd]. split; [|reflexivity].
    apply synced_with_sides; auto.
    repeat split; cbn [s_has s_info s_reg drop_side]; try apply feq_fset; auto. apply req_rdrop, Er.
Qed.

Lemma run_synced ops : forall w, synced w -> wf_run w ops ->
  synced (fst (run w ops)) /\ Forall (fun r => r = ROk) (snd (run w ops)).
Proof.
  induction ops as [|o r IH]; intros w S WF; cbn [run].
  - split; [exact S|constructor].
  - destruct WF as [W1 W2]. destruct (step_synced w o S W1) as [S1 R1].
    destruct (step w o) as [w1 x] eqn:E. cbn [fst snd] in *. specialize (IH w1 S1 W2).
    destruct (run w1 r) as [w2 xs]. cbn [fst snd] in *. destruct IH as [I1 I2]. split; [exact I1|constructor; auto].
Qed.

(* ---------- a faulted commit ---------- *)
Lemma commit_fault_isolated w c late f g : w_failed w = false ->
  let w1 := fst (step w (OCommit c late f g)) in
  let w0 := fst (step w (OCommit c late nofault nofault)) in
  snd (step w (OCommit c late f g)) = ROk /\ snd (step w (OCommit c late nofault nofault)) = ROk
  /\ active w1 = active w0 /\ w_logs w1 = w_logs w0 /\ w_logging w1 = w_logging w0 /\ w_tog w1 = w_tog w0
  /\ (w_failed w1 = false -> passive w1 = passive w0 /\ w_failed w0 = false).
Proof.
  intros F. cbn [step]. rewrite F.
  destruct (commit_active c (active w)) as [a1 oka].
  destruct (commit_passive f g late c (passive w)) as [p1 ok] eqn:E1.
  destruct (commit_passive nofault nofault late c (passive w)) as [p0 ok0] eqn:E0.
  cbn [fst snd]. rewrite !active_with_flags, !passive_with_flags, !active_with_sides, !passive_with_sides.
  cbn [w_logs w_logging w_failed w_tog with_flags].
  destruct (flags_with_sides w a1 p1) as (_ & _ & _ & T1). destruct (flags_with_sides w a1 p0) as (_ & _ & _ & T0).
  repeat split; auto; try congruence.
  - (* not flagged => identical to the fault-free run *)
    destruct ok; cbn in H; [|discriminate]. clear H.
    unfold commit_passive in E1, E0.
    pose proof (replicate_reg_ok f 0 0 c (s_reg (passive w))) as RO.
    destruct (replicate_reg f 0 c (s_reg (passive w))) as [[m i] okr].
    destruct (replicate_reg nofault 0 c (s_reg (passive w))) as [[m0 i0] okr0].
    destruct okr.
    + destruct (RO eq_refl) as [Q1 Q2]. cbn in Q1, Q2. subst m0 okr0. cbn [negb andb] in E1, E0.
      pose proof (replicate_info_ok g (c_stores c) 0%nat 0%nat (s_info (passive w))) as IO.
      destruct (replicate_info g 0 (c_stores c) (s_info (passive w))) as [[inf j] oks].
      destruct (replicate_info nofault 0 (c_stores c) (s_info (passive w))) as [[inf0 j0] oks0].
      cbn [andb] in E1, E0. injection E1 as <- ->. injection E0 as <- _. cbn [fst snd] in IO. rewrite (IO eq_refl). reflexivity.
    + cbn [negb andb] in E1. destruct late; cbn in E1.
      * inversion E1.
      * destruct (replicate_info g 0 (c_stores c) (s_info (passive w))) as [[inf j] oks]. inversion E1.
  - destruct ok; cbn in H; [|discriminate]. clear H.
    unfold commit_passive in E1, E0.
    pose proof (replicate_reg_ok f 0 0 c (s_reg (passive w))) as RO.
    destruct (replicate_reg f 0 c (s_reg (passive w))) as [[m i] okr].
    destruct (replicate_reg nofault 0 c (s_reg (passive w))) as [[m0 i0] okr0].
    destruct okr.
    + destruct (RO eq_refl) as [Q1 Q2]. cbn in Q1, Q2. subst m0 okr0. cbn [negb andb] in E1, E0.
      pose proof (replicate_info_nofault (c_stores c) 0%nat 0%nat (s_info (passive w)) (s_info (passive w)) (fun _ => eq_refl)) as [_ Y].
      destruct (replicate_info nofault 0 (c_stores c) (s_info (passive w))) as [[inf0 j0] oks0].
      cbn in Y. subst oks0. inversion E0; subst. reflexivity.
    + cbn [negb andb] in E1. destruct late; cbn in E1.
      * inversion E1.
      * destruct (replicate_info g 0 (c_stores c) (s_info (passive w))) as [[inf j] oks]. inversion E1.
Qed.

(* ---------- reinstate ---------- *)
Lemma active_with_pcache w c : active (with_pcache w c) = active w.
Proof. reflexivity. Qed.
Lemma passive_with_pcache w c : passive (with_pcache w c) = passive w.
Proof. reflexivity. Qed.

Lemma reinstate_ok w :
  w_failed w = true -> w_logs w = [] ->
  (forall n, s_has (active w) n = true -> isSome (s_info (active w) n) = true) ->
  (forall n, s_has (active w) n = false -> s_info (passive w) n = s_info (active w) n /\ forall l, s_reg (passive w) n l = s_reg (active w) n l) ->
  snd (step w (OReinstate false)) = ROk /\ synced (fst (step w (OReinstate false))) /\ active (fst (step w (OReinstate false))) = active w.
Proof.
  intros F G H1 H2. cbn [step]. rewrite F, G. cbn [negb fast_forward fst snd].
  split; [reflexivity|]. split.
  - unfold synced. rewrite active_with_pcache, passive_with_pcache, active_with_flags, passive_with_flags,
      active_with_sides, passive_with_sides. cbn [w_failed w_logging w_logs with_flags with_pcache].
    split; [reflexivity|]. split; [reflexivity|]. split; [reflexivity|].
    unfold side_eq, copy_stores; cbn [s_has s_info s_reg]. split; [|split].
    + intros n. reflexivity.
    + intros n. destruct (s_has (active w) n) eqn:E; [reflexivity|destruct (H2 n E) as [X _]]; auto.
    + intros t l. destruct (s_has (active w) t) eqn:E.
      * rewrite (H1 t E). reflexivity.
      * destruct (H2 t E) as [_ Y]. symmetry; apply Y.
  - rewrite active_with_pcache, active_with_flags, active_with_sides. reflexivity.
Qed.

(* the passive-key cache entries of the listed stores are gone after a reinstate, whatever they were *)
Lemma reinstate_evicts w n : w_failed w = true ->
  s_has (active w) n = true -> w_pcache (fst (step w (OReinstate false))) n = None.
Proof.
  intros F H. cbn [step]. rewrite F. cbn [negb].
  destruct (fast_forward (w_logs w) (copy_stores (active w) (passive w))) as [[p2 logs] ok].
  destruct ok; cbn [fst with_pcache w_pcache]; unfold copy_cache; rewrite H; reflexivity.
Qed.

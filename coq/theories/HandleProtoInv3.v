(* Proofs about HandleProto, part 4: per-label preservation of Inv (steps of a transaction that do not write the registry). *)
From Coq Require Import List ZArith NArith Bool Lia PeanoNat.
From SopVerif Require Import Proto ProtoProofs HandleProto HandleProtoProofs HandleProtoInv HandleProtoInv2.
Import ListNotations.
Local Open Scope N_scope.

Ltac open_tx H t Et := cbn [step] in H; destruct (get_tx _ _) as [t|] eqn:Et; [|discriminate].
Ltac split_andb :=
  repeat match goal with
         | H : _ && _ = true |- _ => apply andb_true_iff in H; destruct H
         end.
Ltac live_pc :=
  repeat match goal with
         | H : live _ = true |- _ => unfold live in H; apply negb_true_iff in H
         | H : pc_eqb _ _ = true |- _ => apply pc_eqb_eq in H
         | H : negb (nonempty _) = true |- _ => apply negb_true_iff in H
         end.

Lemma nonempty_false {A} (l : list A) : nonempty l = false -> l = [].
Proof. destruct l; cbn; [reflexivity|discriminate]. Qed.

Ltac rs Hpc O :=
  cbn [with_pc with_pend with_plog t_pc t_plog t_pend t_upd t_rem t_marked t_claimed t_crashed];
  first [ exact O | reflexivity | discriminate
        | (intros _; rewrite Hpc; reflexivity)
        | (intros _; rewrite Hpc; discriminate)
        | (apply nonempty_false; assumption)
        | exact (o_plog _ _ _ O)
        | (intros X; cbn in X; discriminate)
        | (intros hs X; cbn in X; discriminate)
        | (intros [X|X]; cbn in X; discriminate) ].


Lemma keys_norem t : t_rem t = [] -> keys t = upd_lids t.
Proof. intros E. unfold keys, rem_lids. rewrite E. cbn. apply app_nil_r. Qed.

Lemma mem_true_In x l : In x l -> mem x l = true.
Proof. intros H. apply mem_In. exact H. Qed.

(* a transaction record that differs from an ok one only in stage / pending batch / log, outside the writing stages *)
Lemma txn_ok_restage s i t t' :
  txn_ok s i t ->
  t_upd t' = t_upd t -> t_rem t' = t_rem t -> t_marked t' = t_marked t -> t_claimed t' = t_claimed t ->
  t_crashed t' = t_crashed t -> t_pend t' = [] ->
  (hold_pc (t_pc t') = true -> hold_pc (t_pc t) = true) ->
  (img_pc (t_pc t') = true -> img_pc (t_pc t) = true) ->
  t_pc t' <> PFlipping ->
  (forall hs, t_plog t' = Some hs -> forall h, In h hs -> In h (t_claimed t)) ->
  (t_pc t' = PStart \/ t_pc t' = PLocked -> False) ->
  txn_ok s i t'.
Proof.
  intros O Eu Er Em Ec Ecr Ep Hh Hi Hnf Hpl Hns.
  assert (EU : upd_lids t' = upd_lids t) by (unfold upd_lids; rewrite Eu; reflexivity).
  constructor; rewrite ?EU, ?Er, ?Em, ?Ec, ?Ecr, ?Ep.
  - exact (o_norem _ _ _ O).
  - exact (o_nd _ _ _ O).
  - intros Hc H. exact (o_lock _ _ _ O Hc (Hh H)).
  - intros _ k h [].
  - intros E; contradiction.
  - intros Hc H. exact (o_pres _ _ _ O Hc (Hh H)).
  - intros Hc H. exact (o_img _ _ _ O Hc (Hi H)).
  - intros H. exact (o_img_nd _ _ _ O (Hi H)).
  - exact Hpl.
  - intros X. destruct (Hns X).
Qed.

(* ------------------------------------------------------------------ LBlob, LMark (no removals), LPlog, LPlogRm, LCleanBlobs, LCleanReg, LCrash *)

Lemma step_LBlob s i s' : Inv s -> step strict s (LBlob i) = Some s' -> Inv s'.
Proof.
  intros I H. open_tx H t Et. destruct (_ && _) eqn:E; [|discriminate]. inversion H; subst s'. split_andb. live_pc.
  pose proof (i_tx _ I _ _ Et) as O.
  eapply inv_local with (t := t) (t' := with_pc t PStaged); try reflexivity; try eassumption.
  eapply txn_ok_restage; try (rs H2 O).
Qed.

Lemma step_LMark s i s' : Inv s -> step strict s (LMark i) = Some s' -> Inv s'.
Proof.
  intros I H. open_tx H t Et. destruct (_ && _) eqn:E; [|discriminate]. split_andb. live_pc.
  pose proof (i_tx _ I _ _ Et) as O. destruct (o_norem _ _ _ O) as [Hr Hm].
  unfold rem_lids in H. rewrite Hr in H. cbn [map marks_over_claim existsb andb strict h_mark marks] in H.
  inversion H; subst s'.
  eapply inv_local with (t := t); try reflexivity; try eassumption.
  eapply txn_ok_restage;
    [exact O|reflexivity|cbn; symmetry; exact Hr|cbn; symmetry; exact Hm|reflexivity|cbn; symmetry; exact H0|reflexivity
    |cbn; intros _; rewrite H1; reflexivity|cbn; intros _; rewrite H1; reflexivity|cbn; discriminate|cbn; discriminate
    |cbn; intros [X|X]; discriminate].
Qed.

Lemma step_LPlog s i s' : Inv s -> step strict s (LPlog i) = Some s' -> Inv s'.
Proof.
  intros I H. open_tx H t Et. destruct (_ && _) eqn:E; [|discriminate]. inversion H; subst s'. split_andb. live_pc.
  pose proof (i_tx _ I _ _ Et) as O. destruct (o_norem _ _ _ O) as [Hr Hm].
  eapply inv_local with (t := t); try reflexivity; try eassumption.
  eapply txn_ok_restage; try (rs H2 O).
  cbn [with_plog t_plog]. intros hs Hs h Hin. rewrite Hm, app_nil_r in Hs. destruct (nonempty (t_claimed t)); inversion Hs; subst hs. exact Hin.
Qed.

Lemma step_LPlogRm s i s' : Inv s -> step strict s (LPlogRm i) = Some s' -> Inv s'.
Proof.
  intros I H. open_tx H t Et. destruct (_ && _) eqn:E; [|discriminate]. inversion H; subst s'. split_andb. live_pc.
  pose proof (i_tx _ I _ _ Et) as O.
  eapply inv_local with (t := t); try reflexivity; try eassumption.
  eapply txn_ok_restage; try (rs H2 O).
Qed.

Lemma step_LCleanBlobs s i s' : Inv s -> step strict s (LCleanBlobs i) = Some s' -> Inv s'.
Proof.
  intros I H. open_tx H t Et. destruct (_ && _) eqn:E; [|discriminate]. inversion H; subst s'. split_andb. live_pc.
  pose proof (i_tx _ I _ _ Et) as O.
  eapply inv_local with (t := t); try reflexivity; try eassumption.
  eapply txn_ok_restage; try (rs H1 O).
  apply (pend_nil_of_pc _ _ _ O H0). intros k. rewrite H1. destruct k; reflexivity.
Qed.

Lemma step_LCleanReg s i s' : Inv s -> step strict s (LCleanReg i) = Some s' -> Inv s'.
Proof.
  intros I H. open_tx H t Et. destruct (_ && _) eqn:E; [|discriminate]. split_andb. live_pc.
  pose proof (i_tx _ I _ _ Et) as O. destruct (o_norem _ _ _ O) as [Hr Hm]. rewrite Hm in H. cbn [map fold_left] in H.
  inversion H; subst s'.
  eapply inv_local with (t := t); try reflexivity; try eassumption.
  eapply txn_ok_restage; try (rs H1 O).
  apply (pend_nil_of_pc _ _ _ O H0). intros k. rewrite H1. destruct k; reflexivity.
Qed.

Lemma step_LCrash s i s' : Inv s -> step strict s (LCrash i) = Some s' -> Inv s'.
Proof.
  intros I H. open_tx H t Et. destruct (_ && _) eqn:E; [|discriminate]. inversion H; subst s'.
  pose proof (i_tx _ I _ _ Et) as O.
  eapply inv_local with (t := t); try reflexivity; try eassumption.
  constructor; cbn [t_crashed t_rem t_marked t_pc t_pend t_claimed t_plog]; try discriminate.
  - exact (o_norem _ _ _ O).
  - exact (o_nd _ _ _ O).
  - exact (o_pend_nd _ _ _ O).
  - exact (o_img_nd _ _ _ O).
  - exact (o_plog _ _ _ O).
  - exact (o_start _ _ _ O).
Qed.

(* ------------------------------------------------------------------ LClaim *)

Lemma step_LClaim s i s' : Inv s -> step strict s (LClaim i) = Some s' -> Inv s'.
Proof.
  intros I H. open_tx H t Et. destruct (_ && _) eqn:E; [|discriminate]. split_andb. live_pc.
  pose proof (i_tx _ I _ _ Et) as O.
  assert (Hp : t_pend t = []) by (apply (pend_nil_of_pc _ _ _ O H0); intros k; rewrite H1; destruct k; reflexivity).
  destruct (claims (sreg s) (t_upd t)) as [hs|] eqn:Ec; inversion H; subst s'; clear H.
  - destruct (claims_spec _ _ _ Ec) as [Hl Hv].
    eapply inv_local with (t := t); try reflexivity; try eassumption.
    constructor; cbn [t_crashed t_rem t_marked t_pc t_pend t_claimed t_plog t_upd]; unfold upd_lids; cbn [t_upd]; try discriminate.
    + split; [exact (proj1 (o_norem _ _ _ O))|reflexivity].
    + exact (o_nd _ _ _ O).
    + intros _ _. apply (o_lock _ _ _ O H0). rewrite H1. reflexivity.
    + intros _ k h Hin. apply in_tag in Hin. destruct Hin as [-> Hin]. split; [reflexivity|].
      split; [change (In (lid h) (map (fun x => fst (fst x)) (t_upd t))); rewrite <- Hl; apply in_map; exact Hin|].
      destruct (Hv _ Hin) as (h0 & Hlk & Hver). exists h0. split; [exact Hlk|exact Hver].
    + intros _ _ c Hin. split; [change (In (lid c) (map (fun x => fst (fst x)) (t_upd t))); rewrite <- Hl; apply in_map; exact Hin|].
      destruct (Hv _ Hin) as (h0 & Hlk & _). eauto.
    + intros _ _ c h0 Hin Hlk. destruct (Hv _ Hin) as (h0' & Hlk' & Hver). rewrite Hlk in Hlk'. inversion Hlk'; subst. symmetry; exact Hver.
    + intros _. rewrite Hl. exact (o_nd _ _ _ O).
    + intros [X|X]; discriminate.
  - eapply inv_local with (t := t); try reflexivity; try eassumption.
    eapply txn_ok_restage; try (rs H1 O).
Qed.

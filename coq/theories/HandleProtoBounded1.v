(* bounded exploration, configuration 1: two transactions that both update node 10 from version 3 *)
From Coq Require Import List ZArith NArith Bool.
From SopVerif Require Import Proto HandleProto HandleProtoProofs HandleProtoBounded.
Import ListNotations.
Local Open Scope N_scope.

Lemma bounded_uu : complete_and_ok (explore strict (all_labels 2 [10]) 60 s_uu chk_all) = true.
Proof. vm_compute. reflexivity. Qed.

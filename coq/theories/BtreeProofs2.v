(* What a successful simulation gives: the node-level run is an accepted run of the
   specification with the same results, so every spec-side theorem transfers
   (sorted contents, exact count, scans). *)
From Coq Require Import List ZArith NArith Bool Lia.
From SopVerif Require Import OMap OMapProofs Btree BtreeSim.
Import ListNotations.
Local Open Scope Z_scope.

Lemma item_eqb_eq : forall a b, item_eqb a b = true -> a = b.
Proof.
  intros [i1 k1 v1] [i2 k2 v2] H. unfold item_eqb in H. cbn in H.
  apply andb_true_iff in H as [H Hv]. apply andb_true_iff in H as [Hi Hk].
  apply N.eqb_eq in Hi. apply Z.eqb_eq in Hk. apply Z.eqb_eq in Hv. subst. reflexivity.
Qed.

Lemma items_eqb_eq : forall a b, items_eqb a b = true -> a = b.
Proof.
  induction a as [|x a IH]; intros [|y b] H; cbn in H; try discriminate; auto.
  apply andb_true_iff in H as [H1 H2]. f_equal; [apply item_eqb_eq; auto|apply IH; auto].
Qed.

Lemma ekind_eqb_eq : forall a b, ekind_eqb a b = true -> a = b.
Proof. intros [] [] H; cbn in H; try discriminate; reflexivity. Qed.

Lemma agree_spec : forall s r b rb, agree s r b rb = true ->
  rok r = rok rb /\ rerr r = rerr rb /\ rout r = rout rb /\ ocount s = bcount b /\
  current_key s = bcurrent_key b /\ items s = b_inorder b.
Proof.
  intros s r b rb H. unfold agree in H.
  repeat (apply andb_true_iff in H as [H ?]).
  repeat split.
  - apply Bool.eqb_prop. assumption.
  - apply ekind_eqb_eq. assumption.
  - apply items_eqb_eq. assumption.
  - apply Z.eqb_eq. assumption.
  - apply item_eqb_eq. assumption.
  - apply items_eqb_eq. assumption.
Qed.

(* the simulated run is an accepted run of the specification with identical results *)
Theorem sim_from_orun : forall cfg ops b s, sim_from cfg b s ops = true ->
  exists hs s' rs,
    length hs = length ops /\
    orun (cunique cfg) s (combine ops hs) = Some (s', rs) /\
    let '(b', rbs) := brun cfg b ops in
    map rok rs = map rok rbs /\ map rerr rs = map rerr rbs /\ map rout rs = map rout rbs /\
    (ops <> [] -> items s' = b_inorder b' /\ ocount s' = bcount b' /\ current_key s' = bcurrent_key b').
Proof.
  intros cfg. induction ops as [|o r IH]; intros b s H.
  - exists [], s, []. cbn. split; [reflexivity|]. split; [reflexivity|].
    repeat (split; [reflexivity|]). intros Hne. congruence.
  - cbn [sim_from] in H. unfold sim_step in H.
    destruct (bstep cfg b o) as [b1 rb] eqn:Eb.
    set (h := mkHints (hint_of b1) (removed_id (b_inorder b) (b_inorder b1))) in *.
    destruct (ostep (cunique cfg) s o h) as [[s1 r1]|] eqn:Eo; [|discriminate].
    destruct (agree s1 r1 b1 rb) eqn:Ea; [|discriminate].
    destruct (IH b1 s1 H) as [hs [s' [rs [Hl [Hrun Hres]]]]].
    exists (h :: hs), s', (r1 :: rs). split; [cbn; lia|]. split.
    + cbn [combine orun]. rewrite Eo, Hrun. reflexivity.
    + cbn [brun]. rewrite Eb. destruct (brun cfg b1 r) as [b' rbs] eqn:Er.
      apply agree_spec in Ea as [A1 [A2 [A3 [A4 [A5 A6]]]]].
      destruct Hres as [R1 [R2 [R3 R4]]]. cbn [map]. rewrite A1, A2, A3, R1, R2, R3.
      repeat split; auto.
      all: destruct r as [|o2 r2];
        [cbn in Er; inversion Er; subst; cbn in Hrun; destruct hs; cbn in Hrun; inversion Hrun; subst; auto
        |apply R4; discriminate].
Qed.

(* consequence: after any simulated run the node structure is an ordered collection *)
Theorem sim_run_ordered : forall cfg ops, sim_run cfg ops = true ->
  let b := fst (brun cfg empty_bstate ops) in
  sorted (b_inorder b) /\ bcount b = Z.of_nat (length (b_inorder b)) /\
  NoDup (map iid (b_inorder b)) /\ (cunique cfg = true -> NoDup (map ikey (b_inorder b))).
Proof.
  intros cfg ops H. cbv zeta. unfold sim_run in H.
  destruct ops as [|o r].
  { cbn. repeat split; auto; constructor. }
  destruct (sim_from_orun cfg (o :: r) empty_bstate empty_omap H) as [hs [s' [rs [Hl [Hrun Hres]]]]].
  destruct (brun cfg empty_bstate (o :: r)) as [b' rbs] eqn:Er. cbn [fst].
  destruct Hres as [_ [_ [_ R4]]]. destruct (R4 ltac:(discriminate)) as [Hi [Hc _]].
  pose proof (orun_inv _ _ _ _ _ (Inv_empty (cunique cfg)) Hrun) as [Hs [Hnd _] Hu _].
  rewrite <- Hi, <- Hc. repeat split; auto.
Qed.

(* Go's cmp.Compare on float32 / float64 values, given as IEEE-754 bit patterns.
   The only file of the comparer model that depends on Flocq.

   cmp.Compare[T](x, y):   xNaN := x != x; yNaN := y != y
                           if xNaN { if yNaN { return 0 }; return -1 }
                           if yNaN { return +1 }
                           if x < y { return -1 }; if x > y { return +1 }; return 0      *)
From Coq Require Import ZArith NArith.
From Flocq Require Import IEEE754.Binary IEEE754.Bits.
Local Open Scope Z_scope.

Definition go_fcmp {prec emax} (x y : binary_float prec emax) : Z :=
  if is_nan prec emax x then (if is_nan prec emax y then 0 else -1)
  else if is_nan prec emax y then 1
  else match Bcompare prec emax x y with
       | Some Lt => -1
       | Some Gt => 1
       | _ => 0
       end.

(* a float64 / float32 key is its bit pattern (math.Float64bits / Float32bits) *)
Definition f64 (bits : N) : binary64 := b64_of_bits (Z.of_N bits).
Definition f32 (bits : N) : binary32 := b32_of_bits (Z.of_N bits).

Definition fcmp64 (a b : N) : Z := go_fcmp (f64 a) (f64 b).
Definition fcmp32 (a b : N) : Z := go_fcmp (f32 a) (f32 b).

(* Correspondence cases for C26: damage pattern, read with RepairCorruptedShards on, then which shard files
   are byte-identical to a fresh encode, then a second damage pattern and a second read. *)
From Coq Require Import List NArith Bool Arith.
From SopVerif Require Import EC.
Import ListNotations.

Fixpoint blist_eqb (a b : list bool) : bool :=
  match a, b with
  | [], [] => true
  | x :: r, y :: s => Bool.eqb x y && blist_eqb r s
  | _, _ => false
  end.

Inductive c26case :=
| RepairCase (d p : nat) (size : N) (dmg : list kdmg) (impl_class : N) (impl_post : list bool)
             (dmg2 : list kdmg) (impl_class2 : N).

Definition c26_check (c : c26case) : bool :=
  match c with
  | RepairCase d p size dmg cls post dmg2 cls2 =>
      let gf := good_file d size c_md5 in
      let '(r, disk1) := c_getOne d p size true (apply_dmgs dmg (repeat gf (d + p))) in
      Nat.eqb (length dmg) (d + p) && N.eqb (class_of d size r) cls &&
      (if N.eqb cls 0
       then blist_eqb (map (dshard_eqb gf) disk1) post &&
            N.eqb (class_of d size (fst (c_getOne d p size false (apply_dmgs dmg2 disk1)))) cls2
       else true)
  end.

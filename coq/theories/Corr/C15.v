(* C15 tie: measured wall-clock Commit durations against the model's bound instantiated with
   measured per-call maxima.  All times in milliseconds relative to the Commit call (t0 = 0). *)
From Coq Require Import ZArith Bool List.
From SopVerif Require Import Gen.Consts Gen.TimeoutConsts Timeout.
Local Open Scope Z_scope.

Inductive c15case :=
| TimingCase (maxTime : Z) (deadline : option Z) (elapsed : Z) (ok : bool) (released : bool)
             (cCall nHandles nCalls regionWait retryStart : Z) (rounds : Z).

Definition c15_bound (maxTime : Z) (D : option Z) (c : cost) : Z :=
  (match D with Some d => Z.min d maxTime | None => maxTime end) + overheadB c.

Definition c15_check (c : c15case) : bool :=
  match c with
  | TimingCase mt D el ok rel cc nh nc rw rs rounds =>
      (el <=? c15_bound mt D (mkCost cc nh nc rw rs))        (* C15_bounded; ok/released are judged by the harness oracle *)
      && (rounds <=? mt / randomSleepUnit_ms + 1)             (* C15_iterations *)
  end.

(* Correspondence for crash points: the harness kills the committing process just before a chosen durable
   interface call (or in the middle of the per-handle writes of the phase-2 registry update) and decodes the
   durable state left behind; the model's crash state on the same inputs must be the same state. *)
From Coq Require Import List ZArith NArith Bool.
From SopVerif Require Import Proto ProtoCrash Corr.Proto.
Import ListNotations.
Local Open Scope N_scope.

Inductive crashcase :=
| CrashAt (t : txn) (pre : disk) (k : nat) (stores : list N) (post : disk)
| CrashTorn (t : txn) (pre : disk) (k : nat) (written : list N) (stores : list N) (post : disk).

Definition crash_check (c : crashcase) : bool :=
  match c with
  | CrashAt t pre k stores post => disk_eqb stores (snd (crash t pre k)) post
  | CrashTorn t pre k written stores post =>
      match crash_torn t pre k written with
      | Some d => disk_eqb stores d post
      | None => false
      end
  end.

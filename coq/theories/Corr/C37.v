(* Correspondence cases for C37: a recorded run of concurrent / crashing writers on the real filesystem backend,
   projected to the node-version protocol (observations per storage-interface call with the recorded handle
   images), is replayed on the HandleProto model.  c37_check = every observation is accepted (each recorded
   handle transition is a legal model step of the issuing commit attempt and the recorded images equal the
   model's), and the registry / blob set decoded from disk after the run agree with the model's final state. *)
From Coq Require Import List ZArith NArith Bool.
From SopVerif Require Import Proto HandleProto.
Import ListNotations.
Local Open Scope N_scope.

Inductive c37case :=
| C37Case (hy : hyps) (reg0 : list handle) (bl0 : list N)
          (specs : list (list (N * Z * N) * list (N * Z)))
          (tr : list obs)
          (final_reg : list handle) (final_bl : list N)
          (expect_single expect_data : bool).   (* what the direct oracle on the implementation found *)

(* equality up to the timestamp class (the model ages 2 -> 1 where the implementation keeps the timestamp) *)
Definition handle_eqb_modw (x y : handle) : bool :=
  (lid x =? lid y) && (ida x =? ida y) && (idb x =? idb y) && Bool.eqb (activeB x) (activeB y)
  && Z.eqb (ver x) (ver y) && Bool.eqb (wip x =? 0) (wip y =? 0) && Bool.eqb (del x) (del y).

Definition final_agrees (s : state) (fr : list handle) (fb : list N) : bool :=
  forallb (fun h => match lookup fr (lid h) with
                    | Some h' => handle_eqb_modw h h' && (del h || Bool.eqb (mem (active h) (sblobs s)) (mem (active h) fb))
                    | None => false
                    end) (sreg s)
  && forallb (fun h' => match lookup (sreg s) (lid h') with Some _ => true | None => false end) fr.

Definition c37_check (c : c37case) : bool :=
  match c with
  | C37Case hy r0 b0 specs tr fr fb es ed =>
      match accepts_run hy (init_state r0 b0 specs) tr with
      | Some s => final_agrees s fr fb && Bool.eqb (single_successor s) es && Bool.eqb (points_at_data s) ed
      | None => false
      end
  end.

(* diagnostics: index of the first rejected observation *)
Definition c37_where (c : c37case) : option nat :=
  match c with C37Case hy r0 b0 specs tr _ _ _ _ => first_reject hy (init_state r0 b0 specs) tr 0 end.

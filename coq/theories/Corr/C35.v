(* Correspondence cases for C35: a history of session-store operations executed
   on the real SessionStore (tools/httpserver, driver injected by go build
   -overlay), with the clock readings every operation took, its result and the
   key set of the session table after it. c35_check runs the model of
   Session.v — instantiated with injective stand-ins for HMAC / base64 / JSON —
   on the same history and compares every result and every key set. Presented
   tokens are described symbolically (which issued token, which mutation). *)
From Coq Require Import List NArith Bool.
From SopVerif Require Import Session.
Import ListNotations.
Local Open Scope N_scope.

(* injective stand-ins (the properties the theorems assume of the real functions
   are proved for these in Props/C35.v, so the assumptions are satisfiable) *)
Definition t_mac (k m : bytes) : bytes := N.of_nat (length k) :: k ++ m.
Definition t_b64 (x : bytes) : bytes := x.
Definition t_b64d (x : bytes) : option bytes := Some x.
Definition t_cenc (c : claims) : bytes :=
  N.of_nat (length (c_sub c)) :: c_sub c ++ N.of_nat (length (c_role c)) :: c_role c ++
  c_iat c :: c_exp c :: c_jti c.
Definition t_cdec (b : bytes) : option claims :=
  match b with
  | [] => None
  | n :: r =>
      let sub := firstn (N.to_nat n) r in
      match skipn (N.to_nat n) r with
      | [] => None
      | m :: r2 =>
          let role := firstn (N.to_nat m) r2 in
          match skipn (N.to_nat m) r2 with
          | iat :: exp :: jti => Some (mkClaims sub role iat exp jti)
          | _ => None
          end
      end
  end.
Definition t_header : bytes := [1].
Definition t_nonce (k : N) : bytes := [2000 + k].

Definition m_parse := parse t_mac t_b64 t_b64d t_cdec.
Definition m_sign := sign t_mac t_b64 t_cenc t_header.
Definition m_create_session := create_session t_mac t_b64 t_cenc t_header t_nonce.
Definition m_create_token := create_token t_mac t_b64 t_cenc t_header t_nonce.
Definition m_refresh := refresh t_mac t_b64 t_cenc t_header t_nonce.
Definition m_validate := validate t_mac t_b64 t_b64d t_cdec.

Inductive pres :=
| PTok (k : nat) (access : bool)                 (* the token issued by the k-th successful issue, unmodified *)
| PFlip (k : nat) (access : bool) (seg : nat)    (* one bit flipped in segment seg *)
| PResign (k : nat) (sec role : bytes) (expadd : N)  (* claims rewritten and re-signed with sec *)
| PSwapSig (k k2 : nat)                          (* header.payload of k with the signature of k2 *)
| PGarbage (n : N).                              (* truncated / extra segment / arbitrary string / empty *)

Definition issue_tok (s : sstate) (k : nat) (access : bool) : token :=
  match nth_error (log s) k with
  | None => TOpaque [7777; 0]
  | Some i => if access then i_access i else match i_refresh i with Some t => t | None => TOpaque [7777; 1] end
  end.

Definition interp (s : sstate) (p : pres) : token :=
  match p with
  | PTok k a => issue_tok s k a
  | PFlip k a seg =>
      match issue_tok s k a with
      | TOpaque b => TOpaque (b ++ [999])
      | TSigned h pl sg =>
          match seg with
          | O => TSigned (h ++ [999]) pl sg
          | S O => TSigned h (pl ++ [999]) sg
          | _ => TSigned h pl (sg ++ [999])
          end
      end
  | PResign k sec role expadd =>
      match issue_tok s k true with
      | TSigned h pl _ =>
          match t_cdec pl with
          | Some c => m_sign sec (mkClaims (c_sub c) (match role with [] => c_role c | _ => role end) (c_iat c) (c_exp c + expadd) (c_jti c))
          | None => TOpaque [7777; 2]
          end
      | t => t
      end
  | PSwapSig k k2 =>
      match issue_tok s k true, issue_tok s k2 true with
      | TSigned h pl _, TSigned _ _ sg2 => TSigned h pl sg2
      | _, _ => TOpaque [7777; 3]
      end
  | PGarbage n => TOpaque [7777; 4; n]
  end.

Inductive cop :=
| CCreateSession (user role : bytes) (ttl rttl now : N)
| CCreateToken (user role : bytes) (ttl now : N)
| CRefresh (p : pres) (ttl now1 now2 : N)
| CValidate (p : pres) (now1 now2 : N)
| CRevoke (p : pres)
| CSecret (sec : bytes).

Inductive cres :=
| XIssued                        (* create / refresh succeeded *)
| XOk (user role : bytes)        (* validate accepted *)
| XErr (expired : bool)          (* rejected; expired = the error said "expired" *)
| XDone.                         (* revoke / secret change *)

Fixpoint insert (x : N) (l : list N) : list N :=
  match l with
  | [] => [x]
  | y :: r => if x <=? y then x :: l else y :: insert x r
  end.
Definition sortN (l : list N) : list N := fold_right insert [] l.

Fixpoint code_in (lg : list issue) (j : N) (t : token) : N :=
  match lg with
  | [] => 999999
  | i :: r =>
      if token_eqb t (i_access i) then 2 * j
      else match i_refresh i with
           | Some rt => if token_eqb t rt then 2 * j + 1 else code_in r (j + 1) t
           | None => code_in r (j + 1) t
           end
  end.

Definition key_codes (s : sstate) : list N := sortN (map (fun kv => code_in (log s) 0 (fst kv)) (store s)).

Fixpoint listN_eqb (a b : list N) : bool :=
  match a, b with
  | [], [] => true
  | x :: r, y :: r' => N.eqb x y && listN_eqb r r'
  | _, _ => false
  end.

Definition err_eqb (e : err) (expired : bool) : bool :=
  match e with EExpired => expired | _ => negb expired end.

Definition cstep (s : sstate) (o : cop) : sstate * cres :=
  match o with
  | CCreateSession u r ttl rttl now =>
      let '(s', x) := m_create_session s u r ttl rttl now in
      (s', match x with ROk _ => XIssued | RErr e => XErr false end)
  | CCreateToken u r ttl now =>
      let '(s', x) := m_create_token s u r ttl now in
      (s', match x with ROk _ => XIssued | RErr e => XErr false end)
  | CRefresh p ttl n1 n2 =>
      let '(s', x) := m_refresh s (interp s p) ttl n1 n2 in
      (s', match x with ROk _ => XIssued | RErr EExpired => XErr true | RErr _ => XErr false end)
  | CValidate p n1 n2 =>
      let '(s', x) := m_validate s (interp s p) n1 n2 in
      (s', match x with ROk (u, r) => XOk u r | RErr EExpired => XErr true | RErr _ => XErr false end)
  | CRevoke p => (revoke s (interp s p), XDone)
  | CSecret sec => (mkS sec (store s) (ctr s) (log s), XDone)
  end.

Definition cres_eqb (a b : cres) : bool :=
  match a, b with
  | XIssued, XIssued => true
  | XOk u r, XOk u' r' => bytes_eqb u u' && bytes_eqb r r'
  | XErr e, XErr e' => Bool.eqb e e'
  | XDone, XDone => true
  | _, _ => false
  end.

Fixpoint crun (s : sstate) (l : list (cop * cres * list N)) : bool :=
  match l with
  | [] => true
  | (o, x, ks) :: r =>
      let '(s', mx) := cstep s o in
      cres_eqb mx x && listN_eqb (key_codes s') ks && crun s' r
  end.

Inductive c35case := SessCase (sec : bytes) (steps : list (cop * cres * list N)).

Definition c35_check (c : c35case) : bool :=
  match c with SessCase sec steps => crun (init sec) steps end.

(* Correspondence cases for C22.  The harness runs real registry updates with a DirectIO
   simulator that tears the block write and kills the writer process, or pauses reader and writer
   at chosen points; it records the raw block + backup file and what the next lookup returned.
   c22_check runs the model (reader_in_repo) on the same input and compares. *)
From Coq Require Import List ZArith NArith Bool.
From SopVerif Require Import Lib.Bytes Gen.Consts BlockIO BlockIOCorr.
Import ListNotations.

Inductive c22point := PRestore (k : N) | PCow (k : N) | PBlock (k : N) | PDone.
Definition to_wpoint (p : c22point) : wpoint :=
  match p with
  | PRestore k => WP_restore (N.to_nat k) | PCow k => WP_cow (N.to_nat k)
  | PBlock k => WP_block (N.to_nat k) | PDone => WP_done
  end.
Inductive c22phase := QStart | QCow (j : N) | QBlk (k : N) | QDone.
Definition to_wphase (p : c22phase) : wphase :=
  match p with
  | QStart => Ph_start | QCow j => Ph_cow (N.to_nat j) | QBlk k => Ph_blk (N.to_nat k) | QDone => Ph_done
  end.

Inductive c22case :=
(* an update of record id (62 bytes data) dies at p: disk observed after the death, then a lookup
   of id by a new process: its result and the disk afterwards *)
| C22Crash (d : disk) (id : list N) (ideal : N) (data : list N) (p : c22point)
           (crashed : disk) (res : gobs) (after : disk)
(* a lookup of id through a READ-ONLY registry on disk state d: result and disk afterwards *)
| C22ReadRO (d : disk) (id : list N) (ideal : N) (res : gobs) (after : disk)
(* a reader dies k bytes into its restore write *)
| C22ReadCrash (d : disk) (k : N) (crashed : disk)
(* lock-free lookup of id next to a non-crashing update: block read in phase p1, backup looked
   for in phase p2 *)
| C22Conc (d : disk) (id : list N) (ideal : N) (data : list N) (p1 p2 : c22phase) (res : gobs)
(* the reader read the block in phase p1, the writer died in phase pc, then the reader finished:
   disk observed afterwards *)
| C22CrashReader (d : disk) (id : list N) (ideal : N) (data : list N) (p1 pc : c22phase) (final : disk)
(* S15: reader read in phase p1, finished between the end of the block write and the backup
   removal; disk after the writer returned *)
| C22Undone (d : disk) (id : list N) (ideal : N) (data : list N) (p1 : c22phase) (final : disk).

Definition new_of (d : disk) (id : list N) (ideal : nat) (data : list N) : option (list N) :=
  match find_write (blk d) id ideal with
  | Some off => Some (new_block crc32p (blk d) off data)
  | None => None
  end.
Definition gobs_of_block (b : list N) (id : list N) (ideal : nat) : gres :=
  match find_read b id ideal with Some s => GFound s | None => GNotFound end.

Definition c22_check (c : c22case) : bool :=
  match c with
  | C22Crash d id ideal data p crashed res after =>
      let dc := reg_update_crash crc32p reader_in_repo d id (N.to_nat ideal) data (to_wpoint p) in
      let '(d', r) := reg_get crc32p reader_in_repo dc id (N.to_nat ideal) in
      disk_eqb dc crashed && gres_matches r res && disk_eqb d' after
  | C22ReadRO d id ideal res after =>
      let '(d', r) := reg_get_ro crc32p reader_in_repo d id (N.to_nat ideal) in
      gres_matches r res && disk_eqb d' after
  | C22ReadCrash d k crashed => disk_eqb (restore_crash crc32p d (N.to_nat k)) crashed
  | C22Conc d id ideal data p1 p2 res =>
      match new_of d id (N.to_nat ideal) data with
      | None => false
      | Some nb =>
          match conc_read crc32p reader_in_repo (blk d) (cow d) nb (to_wphase p1) (to_wphase p2) with
          | ROk b => gres_matches (gobs_of_block b id (N.to_nat ideal)) res
          | RErr _ => match res with GoErr => true | _ => false end
          end
      end
  | C22CrashReader d id ideal data p1 pc final =>
      match new_of d id (N.to_nat ideal) data with
      | None => false
      | Some nb => disk_eqb (crash_with_reader crc32p (blk d) (cow d) nb (to_wphase p1) (to_wphase pc)) final
      end
  | C22Undone d id ideal data p1 final =>
      match new_of d id (N.to_nat ideal) data with
      | None => false
      | Some nb => disk_eqb (writer_done_after_reader crc32p (blk d) nb (to_wphase p1)) final
      end
  end.

(* Correspondence for C33: one case = one recorded run of the real vector store
   (operations with the oracle answers read back from the store, interleaved with
   observations: Get results, full dumps of Content / Vectors / TempVectors / active
   version, query hit lists). c33_check replays the run on the model. *)
From Coq Require Import List ZArith NArith Bool.
From SopVerif Require Import Gen.VectorConsts Vector.
Import ListNotations.
Local Open Scope Z_scope.

(* float32 bit pattern -> value * 2^149 (exact), for the 1e-3 closeness test of phase 3 *)
Definition f32_scaled (b : Z) : Z :=
  let e := (b / 8388608) mod 256 in
  let m := b mod 8388608 in
  let mag := if e =? 0 then m else (m + 8388608) * 2 ^ (e - 1) in
  if b / 2147483648 =? 0 then mag else - mag.
Definition close_f32 (a b : Z) : bool :=
  Z.abs (f32_scaled a - f32_scaled b) * 1000 <? 2 ^ 149.

Definition ckey_eqb (a b : ckey) : bool :=
  (ck_cid a =? ck_cid b) && (ck_dist a =? ck_dist b) && (ck_ver a =? ck_ver b) && Bool.eqb (ck_del a) (ck_del b)
  && (ck_ncid a =? ck_ncid b) && (ck_ndist a =? ck_ndist b) && (ck_nver a =? ck_nver b).
Definition vent_eqb (a b : vent) : bool :=
  (ve_cid a =? ve_cid b) && (ve_dist a =? ve_dist b) && N.eqb (ve_id a) (ve_id b)
  && Bool.eqb (ve_del a) (ve_del b) && vec_eqb (ve_vec a) (ve_vec b).
Fixpoint list_eqb {A : Type} (eqb : A -> A -> bool) (a b : list A) : bool :=
  match a, b with
  | [], [] => true
  | x :: a', y :: b' => eqb x y && list_eqb eqb a' b'
  | _, _ => false
  end.
Definition centry_eqb (a b : centry) : bool :=
  N.eqb (fst a) (fst b) && ckey_eqb (fst (snd a)) (fst (snd b)) && N.eqb (snd (snd a)) (snd (snd b)).
Definition tentry_eqb (a b : N * vec) : bool := N.eqb (fst a) (fst b) && vec_eqb (snd a) (snd b).
Definition hit_eqb (a b : N * Z) : bool := N.eqb (fst a) (fst b) && (snd a =? snd b).
Definition get_eqb (a b : option (vec * N * Z)) : bool :=
  match a, b with
  | None, None => true
  | Some (v, p, c), Some (v', p', c') => vec_eqb v v' && N.eqb p p' && (c =? c')
  | _, _ => false
  end.

Inductive c33ev :=
| EOp (o : op)
| EGet (buf : bool) (id : N) (impl : option (vec * N * Z))
| EState (impl_active : Z) (impl_content : list centry) (impl_vectors : list vent) (impl_temp : list (N * vec))
| ELive (impl : list N)
  (* flt = (m, r): payload mod m = r; m = 0: no filter. simtab: score code of every stored vector against the query *)
| EQuery (buf : bool) (probes : list Z) (simtab : list (vec * Z)) (k : Z) (flt : N * N) (impl_hits : list (N * Z)).

Definition c33case := list c33ev.

Definition flt_of (f : N * N) : N -> bool :=
  fun p => if N.eqb (fst f) 0 then true else N.eqb (p mod fst f) (snd f).
Definition sim_of (tab : list (vec * Z)) : vec -> Z := fun v => alookup vec_eqb tab v 0.

Fixpoint count_hit (h : N * Z) (l : list (N * Z)) : nat :=
  match l with [] => O | x :: r => (if hit_eqb x h then 1 else 0) + count_hit h r end%nat.

(* the implementation's hit list is a valid top-k of the model's surviving candidates:
   right length, taken from the candidates (as a multiset), carrying exactly the k best scores in order *)
Definition hits_valid (F R : list (N * Z)) (k : Z) : bool :=
  Nat.eqb (length R) (Nat.min (Z.to_nat k) (length F))
  && list_eqb Z.eqb (map snd R) (firstn (length R) (map snd F))
  && forallb (fun h => Nat.leb (count_hit h R) (count_hit h F)) R.

Definition ev_check (s : st) (e : c33ev) : st * bool :=
  match e with
  | EOp o => (step close_f32 s o, true)
  | EGet buf id impl => (s, get_eqb (get buf s id) impl)
  | EState a c v t =>
      (s, (active s =? a) && list_eqb centry_eqb (content s) c && list_eqb vent_eqb (vectors s) v
          && list_eqb tentry_eqb (temp s) t)
  | ELive l => (s, list_eqb N.eqb (live_ids s) l)
  | EQuery buf probes tab k f hits =>
      (s, Nat.leb (length probes) vector_query_nprobe
          && hits_valid (ranked buf s probes (sim_of tab) (flt_of f)) hits k)
  end.

Fixpoint evs_check (s : st) (l : list c33ev) : bool :=
  match l with
  | [] => true
  | e :: r => let '(s', ok) := ev_check s e in ok && evs_check s' r
  end.

Definition c33_check (c : c33case) : bool := evs_check init c.

(* ---- compact constructors for cases.v (numeral arguments pick up the scope of their type) *)
Definition V (l : list N) : vec := map Z.of_N l.
Definition A (c d : Z) : Z * Z := (c, d).
Definition H (id : N) (sc : Z) : N * Z := (id, sc).
Definition CE (id : N) (k : ckey) (p : N) : centry := (id, (k, p)).
Definition TE (id : N) (v : list N) : N * vec := (id, V v).
Definition SC (v : list N) (sc : Z) : vec * Z := (V v, sc).
Definition MG (id : N) (v : list N) (c d : Z) : (N * vec) * (Z * Z) := ((id, V v), (c, d)).
Definition CS (id : N) (c d : Z) : N * (Z * Z) := (id, (c, d)).
Definition G (v : list N) (p : N) (c : Z) : option (vec * N * Z) := Some (V v, p, c).
Definition VE (c d : Z) (id : N) (del : bool) (v : list N) : vent := mkVE c d id del (V v).
Definition FL (m r : N) : N * N := (m, r).
Definition UPS (buf dedup : bool) (id : N) (v : list N) (p : N) (c d : Z) : c33ev := EOp (OUpsert buf dedup id (V v) p (c, d)).
Definition DEL (buf : bool) (id : N) : c33ev := EOp (ODelete buf id).
Definition OPT (buf dedup : bool) (cs : list (N * (Z * Z))) (mig : list ((N * vec) * (Z * Z))) : c33ev := EOp (OOptimize buf dedup cs mig).

(* index of the first event a run fails at (debugging aid) *)
Fixpoint first_bad (s : st) (l : list c33ev) (i : nat) : option nat :=
  match l with
  | [] => None
  | e :: r => let '(s', ok) := ev_check s e in if ok then first_bad s' r (S i) else Some i
  end.

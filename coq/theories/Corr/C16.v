(* Correspondence cases for C16: one case = one session on the real sop.SinglePhaseTransaction wrapping a
   real infs two-phase transaction (behind a recording/fault-injecting decorator) and n scripted
   participants. Recorded: every call made on SOP's transaction and on the participants with its
   outcome, the result of each top-level call, HasBegun() afterwards, and what a fresh reader finds in
   the store. c16_check runs the model on the same scripts and compares everything. *)
From Coq Require Import List NArith Bool.
From SopVerif Require Import TwoPC.
Import ListNotations.

Inductive c16case :=
| SessionCase (k : session) (cleanup : bool) (sc : sscript) (ps : list pscript)
              (impl_log : list event) (impl_results : list bool)
              (impl_has_begun : bool)
              (impl_store : N).   (* 0 = contents as before the session, 1 = the session's changes, 2 = anything else *)

Fixpoint list_eqb {A : Type} (eqb : A -> A -> bool) (a b : list A) : bool :=
  match a, b with
  | [], [] => true
  | x :: a', y :: b' => eqb x y && list_eqb eqb a' b'
  | _, _ => false
  end.

Definition c16_check (c : c16case) : bool :=
  match c with
  | SessionCase k cleanup sc ps ilog ires ibegun istore =>
      let '(log, res, s, _) := run_scripted k cleanup sc ps in
      list_eqb event_eqb log ilog
      && list_eqb Bool.eqb res ires
      && Bool.eqb (has_begun (s_phase s)) ibegun
      && N.eqb (if s_committed s then 1 else 0)%N istore
  end.

(* short constructors for cases.v *)
Definition E (w : who) (o : op) (ok : bool) : event := Ev w o ok.
Definition P (b p1 p2 r : bool) : pscript := PScript b p1 p2 r.

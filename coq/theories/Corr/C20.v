(* Correspondence cases for C20: a sequential history of commits and reads issued to several real OS
   processes on a single-node store (one logical id, here 7), with the content (write number) every read
   observed. c20_check runs the model CacheCoh.v on the same events and compares the observations —
   including the stale ones. *)
From Coq Require Import List NArith Bool.
From SopVerif Require Import CacheCoh.
Import ListNotations.
Local Open Scope N_scope.

Record c20case := mkC20 { ccfg : N -> N; cevs : list ev; cobs : list (option N) }.

Definition on_eqb (a b : option N) : bool :=
  match a, b with Some x, Some y => N.eqb x y | None, None => true | _, _ => false end.
Fixpoint obs_eqb (a b : list (option N)) : bool :=
  match a, b with
  | [], [] => true
  | x :: r, y :: s => on_eqb x y && obs_eqb r s
  | _, _ => false
  end.
Definition c20_check (c : c20case) : bool := obs_eqb (snd (run (ccfg c) st0 (cevs c))) (cobs c).

(* Correspondence cases for C09: the harness records the decoded durable state after a crash,
   what later processes did, and the durable state / maintenance globals they left; c09_check
   runs the model Maintenance.v on the same input and compares. *)
From Coq Require Import List ZArith NArith Bool.
From SopVerif Require Import Gen.Consts Gen.MaintConsts Maintenance.
Import ListNotations.
Local Open Scope Z_scope.

Fixpoint list_eqb {A} (eqb : A -> A -> bool) (a b : list A) : bool :=
  match a, b with
  | [], [] => true
  | x :: a', y :: b' => eqb x y && list_eqb eqb a' b'
  | _, _ => false
  end.

Definition mh_eqb (a b : mhandle) : bool :=
  N.eqb (h_store a) (h_store b) && N.eqb (h_lid a) (h_lid b) && N.eqb (h_a a) (h_a b) && N.eqb (h_b a) (h_b b)
  && Bool.eqb (h_activeB a) (h_activeB b) && Z.eqb (h_ver a) (h_ver b) && Z.eqb (h_wip a) (h_wip b) && Bool.eqb (h_del a) (h_del b).
Definition store_eqb (a b : storeS) : bool :=
  N.eqb (st_id a) (st_id b) && Z.eqb (st_count a) (st_count b) && Bool.eqb (st_inlist a) (st_inlist b)
  && Bool.eqb (st_info a) (st_info b) && Bool.eqb (st_folder a) (st_folder b).
Definition tlog_eqb (a b : tlogf) : bool :=
  N.eqb (tl_tid a) (tl_tid b) && Z.eqb (tl_mtime a) (tl_mtime b) && Nat.eqb (length (tl_entries a)) (length (tl_entries b)).
Definition plog_eqb (a b : plogf) : bool :=
  N.eqb (pl_tid a) (pl_tid b) && Z.eqb (pl_mtime a) (pl_mtime b) && list_eqb mh_eqb (pl_handles a) (pl_handles b).
Definition disk_eqb (a b : disk) : bool :=
  list_eqb mh_eqb (d_reg a) (d_reg b) && list_eqb ref_eqb (d_blobs a) (d_blobs b) && list_eqb store_eqb (d_stores a) (d_stores b)
  && list_eqb tlog_eqb (d_tlogs a) (d_tlogs b) && list_eqb plog_eqb (d_plogs a) (d_plogs b).

(* the implementation re-reads the clock inside the routines: allow a few seconds on timestamps *)
Definition near (a b : Z) : bool := (Z.abs (a - b) <? 5000).
Definition opt_eqb (a b : option Z) : bool :=
  match a, b with Some x, Some y => Z.eqb x y | None, None => true | _, _ => false end.
Definition maint_eqb (a b : maint) : bool :=
  near (m_lastPrio a) (m_lastPrio b) && near (m_lastIdle a) (m_lastIdle b) && opt_eqb (m_hour a) (m_hour b)
  && Bool.eqb (m_found a) (m_found b) && Bool.eqb (m_startup a) (m_startup b).

Inductive c09case :=
| PublicCase (d0 : disk) (btrees_at_begin : list nat) (nows : list Z) (d1 : disk)
| HookCase (nbtrees : nat) (d0 : disk) (m0 : maint) (nows : list Z) (d1 : disk) (m1 : maint)
| AgeCase (now mtime : Z) (impl_tlog impl_plog : bool).

Definition c09_check (c : c09case) : bool :=
  match c with
  | PublicCase d0 bts nows d1 =>
      (* every later transaction enters onIdle from Begin with the number of open B-trees the
         implementation reported; the transactions themselves work on a store that is projected away *)
      let st := fold_left (fun st bn => on_idle (fst bn) unknown (snd bn) st) (combine bts nows) (d0, fresh_maint) in
      Nat.eqb (length bts) (length nows) && disk_eqb (fst st) d1
  | HookCase nb d0 m0 nows d1 m1 =>
      let st := fold_left (fun st now => on_idle nb unknown now st) nows (d0, m0) in
      disk_eqb (fst st) d1 && maint_eqb (snd st) m1
  | AgeCase now mtime it ip =>
      Bool.eqb (tlog_eligible now mtime) it && Bool.eqb (plog_eligible now mtime) ip
  end.

(* Correspondence cases for C04 (and, through Corr/C05.v, C05): the harness runs 2-3 writer transactions
   on the real filesystem backend under a gate schedule and records, per writer, the results of its
   B-tree calls, whether Commit returned nil and how many refetch-and-merge rounds it went through, plus
   the store contents a fresh process reads afterwards. conc_check accepts the case iff the model
   (Merge.v) explains it: the recorded call results are what exec_ops computes on the writer's snapshot,
   and there is an order of the committed writers in which every commit_writer succeeds (direct install
   only if direct_ok) and that ends in exactly the recorded contents; a writer whose Commit failed must
   have a failing replay / an item-lock conflict in the model. *)
From Coq Require Import List ZArith NArith Bool.
From SopVerif Require Import Merge.
Import ListNotations.

Record wcase := mkWC {
  wc_ops : list (opkind * Z * N);
  wc_res : list bool;        (* implementation: result of each call *)
  wc_committed : bool;       (* implementation: Commit returned nil *)
  wc_merges : nat;           (* implementation: refetch-and-merge rounds *)
  wc_after : list nat;       (* writers whose Commit had returned when this one began *)
  wc_lockfail : bool         (* implementation (read off the trace): some refetch round started while the lock records
                                of the writer's previous lockTrackedItems were still in the cache, i.e. it was entered
                                through a failed node-key Lock/DualLock and not through the rollback that deletes them *)
}.

(* phase1Commit re-runs lockTrackedItems after a refetch; the replay gave the get/update/remove entries a
   fresh LockID, so an update/remove entry now collides with the writer's OWN record of the first
   lockTrackedItems unless a rollback removed it in between (get vs get is compatible) *)
Definition self_conflict (innode : bool) (w : wcase) (t : tracker) : bool :=
  (* with values outside the node the replay of an update re-registers the ORIGINAL entry (same LockID) *)
  wc_lockfail w && existsb (fun e => (akind_eqb (tk e) AUpd && innode) || akind_eqb (tk e) ARem) t.

Definition mk_ops (l : list (opkind * Z * N)) : list op := map (fun x => mkOp (fst (fst x)) (snd (fst x)) (snd x)) l.

Fixpoint mk_init (l : list (Z * N)) (id : N) : store :=
  match l with [] => [] | (k, v) :: r => ins k (mkItem id 0 v) (mk_init r (id + 1)%N) end.

Definition kv_eqb (a b : list (Z * N)) : bool :=
  Nat.eqb (length a) (length b) && forallb (fun p => Z.eqb (fst (fst p)) (fst (snd p)) && N.eqb (snd (fst p)) (snd (snd p))) (combine a b).
Definition bools_eqb (a b : list bool) : bool :=
  Nat.eqb (length a) (length b) && forallb (fun p => Bool.eqb (fst p) (snd p)) (combine a b).

(* all ways to pick one element and the rest *)
Fixpoint picks {A} (l : list A) : list (A * list A) :=
  match l with
  | [] => []
  | x :: r => (x, r) :: map (fun p => (fst p, x :: snd p)) (picks r)
  end.
Fixpoint perms_fuel {A} (n : nat) (l : list A) : list (list A) :=
  match n with
  | O => [[]]
  | S n' => match l with
            | [] => [[]]
            | _ => flat_map (fun p => map (cons (fst p)) (perms_fuel n' (snd p))) (picks l)
            end
  end.
Definition perms {A} (l : list A) := perms_fuel (length l) l.

Definition idbase : N := 1000.
Definition wstate_of (unique : bool) (snap : store) (i : nat) (w : wcase) : list bool * wstate :=
  run_ops unique snap (idbase * N.of_nat (S i))%N (mk_ops (wc_ops w)).

(* the refetch loop ranges over a Go map: try the tracker in both directions *)
Definition commit_any (unique innode : bool) (snap cur : store) (st : wstate) (n : nat) : option store :=
  match commit_writer unique innode snap cur st n with
  | Some s => Some s
  | None => commit_writer unique innode snap cur (mkW (wlocal st) (rev (wtrk st)) (wnext st)) n
  end.
Definition commit_all_orders_fail (unique innode : bool) (snap cur : store) (st : wstate) (n : nat) : bool :=
  match commit_writer unique innode snap cur st n, commit_writer unique innode snap cur (mkW (wlocal st) (rev (wtrk st)) (wnext st)) n with
  | Some _, Some _ => false
  | _, _ => true
  end.

(* snapshot of writer w in a run whose history (most recent first) is hist: the state right after the
   latest commit among wc_after, snap0 if it waited for nobody; None if one of them has not committed yet *)
Fixpoint snap_in (after : list nat) (hist : list (nat * store)) : option store :=
  match hist with
  | [] => None
  | (j, s) :: r => if memb j after then Some s else snap_in after r
  end.
Definition snapshot (snap0 : store) (w : wcase) (hist : list (nat * store)) (committed : list nat) : option store :=
  match wc_after w with
  | [] => Some snap0
  | a => if forallb (fun j => memb j (map fst hist) || negb (memb j committed)) a
         then match snap_in a hist with Some s => Some s | None => Some snap0 end
         else None
  end.

(* run the committed writers in the given order *)
Fixpoint run_order (unique innode : bool) (snap0 : store) (ws : list wcase) (committed : list nat)
         (order : list nat) (cur : store) (hist : list (nat * store)) : option (store * list (nat * store)) :=
  match order with
  | [] => Some (cur, hist)
  | i :: r =>
      match nth_error ws i with
      | None => None
      | Some w =>
          match snapshot snap0 w hist committed with
          | None => None
          | Some snap =>
              let '(res, st) := wstate_of unique snap i w in
              if bools_eqb res (wc_res w) && negb (self_conflict innode w (wtrk st))
              then match commit_any unique innode snap cur st (wc_merges w) with
                   | None => None
                   | Some cur' => run_order unique innode snap0 ws committed r cur' ((i, cur') :: hist)
                   end
              else None
          end
      end
  end.

(* item-lock conflict (itemActionTracker.lock): two writers track the same existing item, not both as get *)
Definition lock_conflict (t1 t2 : tracker) : bool :=
  existsb (fun e1 => negb (akind_eqb (tk e1) AAdd) &&
                     existsb (fun e2 => negb (akind_eqb (tk e2) AAdd) && N.eqb (tid e1) (tid e2) &&
                                        negb (akind_eqb (tk e1) AGet && akind_eqb (tk e2) AGet)) t2) t1.

(* a failed Commit is explained if, on some state of the run, the writer's replay (at least one round) or
   direct install cannot go through in some replay order, or it competes for an item lock *)
Definition failure_explained (unique innode : bool) (snap0 cur0 : store) (ws : list wcase) (committed : list nat)
           (hist : list (nat * store)) (i : nat) (w : wcase) : bool :=
  match snapshot snap0 w hist committed with
  | None => false
  | Some snap =>
      let '(res, st) := wstate_of unique snap i w in
      bools_eqb res (wc_res w) &&
      (self_conflict innode w (wtrk st) ||
       existsb (fun s => commit_all_orders_fail unique innode snap s st (Nat.max 1 (wc_merges w))) (cur0 :: map snd hist)
       || existsb (fun jw => negb (Nat.eqb (fst jw) i) &&
                             lock_conflict (wtrk st) (wtrk (snd (wstate_of unique snap (fst jw) (snd jw)))))
                  (combine (seq 0 (length ws)) ws))
  end.

Definition indices (ws : list wcase) (b : bool) : list nat :=
  map fst (filter (fun p => Bool.eqb (wc_committed (snd p)) b) (combine (seq 0 (length ws)) ws)).

Definition conc_check (unique innode : bool) (snap0 cur0 : store) (ws : list wcase) (final : list (Z * N)) : bool :=
  let committed := indices ws true in
  let failed := indices ws false in
  existsb (fun order =>
    match run_order unique innode snap0 ws committed order cur0 [] with
    | None => false
    | Some (cur, hist) =>
        kv_eqb (contents cur) final &&
        forallb (fun i => match nth_error ws i with
                          | Some w => failure_explained unique innode snap0 cur0 ws committed hist i w
                          | None => false end) failed
    end) (perms committed).

(* first root of an empty store: rootsched is the recorded order of the registry.Get / blobStore.Add /
   registry.Add calls of commitNewRootNodes. Writers that raced (saw an empty root) are decided by
   root_run; the others merge on top of what the root blob then holds. Predicted only when no root blob is
   written after a writer already found the root registered. *)
Fixpoint predictable (sch : list (nat * rcall)) (seen_nonempty : bool) (reg : bool) : bool :=
  match sch with
  | [] => true
  | (_, RGet) :: r => predictable r (seen_nonempty || reg) reg
  | (_, RBlob) :: r => negb seen_nonempty && predictable r seen_nonempty reg
  | (_, RReg) :: r => predictable r seen_nonempty true
  end.

Definition root_check (unique innode : bool) (ws : list wcase) (sch : list (nat * rcall)) (final : list (Z * N)) : bool :=
  if negb (predictable sch false false) then true else
  let st := root_run sch in
  let racers := r_saw_empty st in
  forallb (fun i => match nth_error ws i with Some w => wc_committed w | None => false end) (r_ok st) &&
  forallb (fun i => match nth_error ws i with Some w => negb (wc_committed w) | None => false end) (r_failed st) &&
  match r_blob st with
  | None => conc_check unique innode [] [] ws final
  | Some b =>
      match nth_error ws b with
      | None => false
      | Some wb =>
          let '(res, stb) := wstate_of unique [] b wb in
          bools_eqb res (wc_res wb) &&
          (* the racers are out of the game: only the others are replayed, on top of the blob owner's items *)
          let others := map (fun p => if memb (fst p) racers
                                      then mkWC (wc_ops (snd p)) (wc_res (snd p)) false 0 [] false else snd p)
                            (combine (seq 0 (length ws)) ws) in
          let committed := filter (fun i => negb (memb i racers)) (indices ws true) in
          existsb (fun order =>
            match run_order unique innode [] others committed order (wlocal stb) [] with
            | None => false
            | Some (cur, _) => kv_eqb (contents cur) final
            end) (perms committed)
      end
  end.

Inductive c04case :=
| ConcCase (unique innode : bool) (init : list (Z * N)) (ws : list wcase) (final : list (Z * N))
| RootCase (unique innode : bool) (ws : list wcase) (sch : list (nat * rcall)) (final : list (Z * N)).

Definition c04_check (c : c04case) : bool :=
  match c with
  | ConcCase u n init ws final => let s := mk_init init 1 in conc_check u n s s ws final
  | RootCase u n ws sch final => root_check u n ws sch final
  end.

(* Correspondence cases for C12 *)
From Coq Require Import List ZArith NArith Bool.
From SopVerif Require Import Gen.MaintConsts StoreCatalog.
Import ListNotations.
Local Open Scope Z_scope.

Inductive c12case :=
| AbortCase (actively_persisted_add : bool) (phase : nat) (impl_exists : bool)
| RaceCase (winner_commits_first : bool) (impl_loser_failed : bool) (impl_exists : bool)
| RetryCase (rivals : nat) (clash : bool) (impl_committed : bool) (impl_exists : bool)
| SerialCase (k : nat) (impl_list_entries : nat)
| RecreateCase (n : nat) (opts2 : Z) (impl_artefact_between : bool) (impl_count_after_two_adds : Z) (impl_opts : Z).

Definition c12_check (c : c12case) : bool :=
  match c with
  | AbortCase ap ph e => Bool.eqb (exists_after ap ph) e
  | RaceCase _ lf e =>
      (* the harness schedule: loser Get, winner Get, winner Add, loser Add *)
      let '(cat, k1, k2) := run_two [true; false; false; true] 1 4 ([], idle, idle) in
      Bool.eqb (match cr_out k2 with Some Failed => true | _ => false end) lf
      && Bool.eqb (match sr_get cat 1 with Some _ => true | None => false end) e
  | RetryCase rivals clash ic ie =>
      (* the creator modified the existing store too; every rival commit on it before the creator's
         Commit makes the creator's first round a conflict (detected at commitUpdatedNodes); the merge
         of the existing store succeeds iff no rival took the creator's key *)
      let rs := match rivals with O => [RoundCommitted] | S _ => [RoundConflict commitUpdatedNodes (negb clash); RoundCommitted] end in
      let '(cat, committed) := commit_loop rs [fresh_store 1 4] [1%N] in
      Bool.eqb committed ic && Bool.eqb (present cat 1) ie
  | SerialCase k n => Nat.eqb (count_name (fst (serial k [] 1 4)) 1) n
  | RecreateCase n o2 between cnt o =>
      let c0 := [mkStore 1 4 (Z.of_nat n) n] in
      let c1 := sr_remove c0 1 in
      let '(c2, out) := new_btree c1 1 o2 in
      Bool.eqb (match sr_get c1 1 with Some _ => true | None => false end) between
      && match out, sr_get c2 1 with
         | Created, Some s => Z.eqb (s_count s + 2) cnt && Z.eqb (s_opts s) o
         | _, _ => false
         end
  end.

(* Correspondence cases for C36: the harness re-runs the lockset pass of the translator on the
   source tree it was built against and reports, per object, the number of sites, the number of
   unguarded sites and an FNV-1a digest of the canonical site lines; c36_check recomputes all
   three from the Gen/AccessSites.v table the theorems of Props/C36.v were proved over. *)
From Coq Require Import List NArith Bool String Ascii.
From SopVerif Require Import Lib.Bytes RaceDiscipline Gen.AccessSites.
Import ListNotations.

Definition bytes_of_string (s : string) : list N := map N_of_ascii (list_ascii_of_string s).

Fixpoint list_N_eqb (a b : list N) : bool :=
  match a, b with
  | [], [] => true
  | x :: r, y :: t => N.eqb x y && list_N_eqb r t
  | _, _ => false
  end.

Definition fnv1a (bs : list N) : N :=
  fold_left (fun h b => N.modulo (N.mul (N.lxor h b) 16777619) 4294967296) bs 2166136261%N.

Definition mode_str (m : lmode) : string := match m with LExcl => "excl" | LShared => "shared" end.

Definition site_line (s : site) : string :=
  (site_sig s ++ "|" ++ concat "" (map (fun lm => fst lm ++ "/" ++ mode_str (snd lm) ++ ",") (s_held s)) ++ ";")%string.

Definition obj_digest (o : sobject) : N :=
  fnv1a (bytes_of_string (concat "" (map site_line (o_sites o)))).

Inductive c36case :=
| SiteCase (obj : list N) (nsites nunguarded digest : N).

Definition c36_check (c : c36case) : bool :=
  match c with
  | SiteCase name n u d =>
      match find (fun o => list_N_eqb (bytes_of_string (o_name o)) name) all_objects with
      | Some o =>
          N.eqb (N.of_nat (List.length (o_sites o))) n
          && N.eqb (N.of_nat (List.length (unguarded_sites (o_guard o) (o_sites o)))) u
          && N.eqb (obj_digest o) d
      | None => false
      end
  end.

(* Correspondence cases for C27: a history run on the real two-folder database (with the
   phase-2 payloads the implementation handed to Replicate, and injected passive-side faults),
   the per-operation results and FailedToReplicate flags it showed, and the decoded final
   state of both folders.  c27_check runs the model Repl.v on the same history. *)
From Coq Require Import List ZArith NArith Bool.
From SopVerif Require Import Repl.
Import ListNotations.
Local Open Scope N_scope.

Inductive cop :=
| CCreate (n : N) (si : sinfo) (fl : list bool) (dflt : bool)
| CCommit (c : commit) (late : bool) (fl : list bool) (dflt : bool) (gl : list bool) (gdflt : bool)
| CDrop (n : N) (fl : list bool) (dflt : bool)
| CReinstate (copy_fails : bool)
| CFailover
| CReplaceDrive.

Definition mkf (fl : list bool) (dflt : bool) : faults := fun i => nth i fl dflt.
Definition to_op (c : cop) : op :=
  match c with
  | CCreate n si fl d => OCreate n si (mkf fl d)
  | CCommit c late fl d gl gd => OCommit c late (mkf fl d) (mkf gl gd)
  | CDrop n fl d => ODrop n (mkf fl d)
  | CReinstate b => OReinstate b
  | CFailover => OFailover
  | CReplaceDrive => OReplaceDrive
  end.

Record obs := mkObs { o_list : list N; o_infos : list sinfo; o_reg : list (N * handle) }.

Inductive c27case :=
| ReplCase (ops : list cop) (results : list bool) (failed_after : list bool) (act pas : obs).

Definition handle_eqb (a b : handle) : bool :=
  (h_lid a =? h_lid b) && (h_a a =? h_a b) && (h_b a =? h_b b) && Bool.eqb (h_actB a) (h_actB b)
  && Z.eqb (h_ver a) (h_ver b) && (h_wip a =? h_wip b) && Bool.eqb (h_del a) (h_del b).
Definition sinfo_eqb (a b : sinfo) : bool :=
  (si_name a =? si_name b) && Z.eqb (si_count a) (si_count b) && (si_root a =? si_root b) && (si_ts a =? si_ts b).
Definition opt_eqb {A} (e : A -> A -> bool) (x y : option A) : bool :=
  match x, y with Some a, Some b => e a b | None, None => true | _, _ => false end.
Definition memN (n : N) (l : list N) : bool := existsb (N.eqb n) l.
Definition memK (k : N * N) (l : list (N * N)) : bool := existsb (fun q => (fst q =? fst k) && (snd q =? snd k)) l.

Definition payload_keys (p : payload) : list (N * N) :=
  flat_map (fun th => map (fun h => (fst th, h_lid h)) (snd th)) p.
Definition cop_names (c : cop) : list N :=
  match c with
  | CCreate n _ _ _ => [n] | CDrop n _ _ => [n]
  | CCommit c _ _ _ _ _ => map si_name (c_stores c) ++ map fst (c_roots c) ++ map fst (c_added c) ++ map fst (c_upd c) ++ map fst (c_rem c)
  | _ => []
  end.
Definition cop_keys (c : cop) : list (N * N) :=
  match c with
  | CCommit c _ _ _ _ _ => payload_keys (c_roots c) ++ payload_keys (c_added c) ++ payload_keys (c_upd c) ++ payload_keys (c_rem c)
  | _ => []
  end.

Definition side_matches (names : list N) (keys : list (N * N)) (s : side) (o : obs) : bool :=
  forallb (fun n => Bool.eqb (s_has s n) (memN n (o_list o))
                    && opt_eqb sinfo_eqb (s_info s n) (find (fun i => si_name i =? n) (o_infos o))) names
  && forallb (fun k => opt_eqb handle_eqb (s_reg s (fst k) (snd k))
                         (option_map snd (find (fun e => (fst e =? fst k) && (h_lid (snd e) =? snd k)) (o_reg o)))) keys
  && forallb (fun n => memN n names) (o_list o)
  && forallb (fun i => memN (si_name i) names) (o_infos o)
  && forallb (fun e => memK (fst e, h_lid (snd e)) keys) (o_reg o).

(* run, remembering result and FailedToReplicate after every operation *)
Fixpoint run_obs (w : world) (ops : list op) : world * list (bool * bool) :=
  match ops with
  | [] => (w, [])
  | o :: r => let '(w1, x) := step w o in
              let '(w2, xs) := run_obs w1 r in
              (w2, ((match x with ROk => true | RErr => false end), w_failed w1) :: xs)
  end.

Definition list_bool_eqb (a b : list bool) : bool :=
  Nat.eqb (length a) (length b) && forallb (fun p => Bool.eqb (fst p) (snd p)) (combine a b).

Definition c27_check (c : c27case) : bool :=
  match c with
  | ReplCase cops results failed_after oa op_ =>
      let '(w, trace) := run_obs empty_world (map to_op cops) in
      let names := flat_map cop_names cops in
      let keys := flat_map cop_keys cops in
      list_bool_eqb (map fst trace) results
      && list_bool_eqb (map snd trace) failed_after
      && side_matches names keys (active w) oa
      && (if w_failed w then true else side_matches names keys (passive w) op_)
  end.

(* diagnosis of a mismatch: results, flags, active side, passive side *)
Definition c27_diag (c : c27case) : list bool :=
  match c with
  | ReplCase cops results failed_after oa op_ =>
      let '(w, trace) := run_obs empty_world (map to_op cops) in
      let names := flat_map cop_names cops in
      let keys := flat_map cop_keys cops in
      [list_bool_eqb (map fst trace) results; list_bool_eqb (map snd trace) failed_after;
       side_matches names keys (active w) oa; w_failed w; side_matches names keys (passive w) op_]
  end.

(* Correspondence cases for C14: one call sequence executed on the real API
   (infs transaction on a fresh filesystem store directory), the result class of
   every call and the stored data read back by a fresh process afterwards. *)
From Coq Require Import List ZArith NArith Bool.
From SopVerif Require Import Lib.Bytes Lifecycle.
Import ListNotations.

Inductive c14case :=
| SeqCase (m : mode) (d0 : option store) (cs : list call) (impl_res : list result) (impl_disk : option store)
(* several sequences evaluated by one case (thorough tier: coqc's start-up dominates small shards) *)
| BatchCase (l : list c14case).

Fixpoint results_eqb (a b : list result) : bool :=
  match a, b with
  | [], [] => true
  | x :: r, y :: q => result_eqb x y && results_eqb r q
  | _, _ => false
  end.
Fixpoint items_eqb (a b : items) : bool :=
  match a, b with
  | [], [] => true
  | (k, v) :: r, (k', v') :: q => N.eqb k k' && N.eqb v v' && items_eqb r q
  | _, _ => false
  end.
Definition disk_eqb (a b : option store) : bool :=
  match a, b with
  | None, None => true
  | Some (c, x), Some (c', y) => Z.eqb c c' && items_eqb x y
  | _, _ => false
  end.

Definition is_item_op (c : call) : bool :=
  match c with CAdd _ _ _ | CFind _ _ | CUpdate _ _ _ | CRemove _ _ => true | _ => false end.

(* Result classes are compared exactly, with one exception: in a [stale] state (after a repeated
   Phase1Commit has swapped the tree's nodes under the program's cursor — already a reported defect)
   whether an item operation answers true or false depends on the B-tree's cursor cache, which this
   model does not track; there only success / error / no-handle must agree. *)
Definition result_agrees (st : bool) (c : call) (model impl : result) : bool :=
  if st && is_item_op c && is_success model then is_success impl else result_eqb model impl.

Fixpoint check_run (s : state) (cs : list call) (ir : list result) : option state :=
  match cs, ir with
  | [], [] => Some s
  | c :: cs', r :: ir' =>
      let '(mr, s1) := step s c in
      if result_agrees (stale s) c mr r then check_run s1 cs' ir' else None
  | _, _ => None
  end.

Definition c14_check_seq (m : mode) (d0 : option store) (cs : list call) (ir : list result) (idk : option store) : bool :=
  match check_run (init m d0) cs ir with
  | Some s => disk_eqb (view (disk s)) idk
  | None => false
  end.

Definition c14_check (c : c14case) : bool :=
  match c with
  | SeqCase m d0 cs ir idk => c14_check_seq m d0 cs ir idk
  | BatchCase l =>
      forallb (fun c' => match c' with
                         | SeqCase m d0 cs ir idk => c14_check_seq m d0 cs ir idk
                         | BatchCase _ => false
                         end) l
  end.

(* for debugging a mismatch: what the model says *)
Definition c14_model (c : c14case) : list result * option store :=
  match c with
  | SeqCase m d0 cs _ _ => let '(mr, s) := run (init m d0) cs in (mr, view (disk s))
  | BatchCase _ => ([], None)
  end.

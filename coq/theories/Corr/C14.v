(* Correspondence cases for C14: one call sequence executed on the real API
   (infs transaction on a fresh filesystem store directory), the result class of
   every call and the stored data read back by a fresh process afterwards. *)
From Coq Require Import List ZArith NArith Bool.
From SopVerif Require Import Lib.Bytes Lifecycle.
Import ListNotations.

Inductive c14case :=
| SeqCase (m : mode) (d0 : option store) (cs : list call) (impl_res : list result) (impl_disk : option store).

Fixpoint results_eqb (a b : list result) : bool :=
  match a, b with
  | [], [] => true
  | x :: r, y :: q => result_eqb x y && results_eqb r q
  | _, _ => false
  end.
Fixpoint items_eqb (a b : items) : bool :=
  match a, b with
  | [], [] => true
  | (k, v) :: r, (k', v') :: q => N.eqb k k' && N.eqb v v' && items_eqb r q
  | _, _ => false
  end.
Definition disk_eqb (a b : option store) : bool :=
  match a, b with
  | None, None => true
  | Some (c, x), Some (c', y) => Z.eqb c c' && items_eqb x y
  | _, _ => false
  end.

Definition c14_check (c : c14case) : bool :=
  match c with
  | SeqCase m d0 cs ir idk =>
      let '(mr, s) := run (init m d0) cs in
      results_eqb mr ir && disk_eqb (view (disk s)) idk
  end.

(* for debugging a mismatch: what the model says *)
Definition c14_model (c : c14case) : list result * option store :=
  match c with SeqCase m d0 cs _ _ => let '(mr, s) := run (init m d0) cs in (mr, view (disk s)) end.

(* Correspondence cases for C24: the harness records what the implementation
   produced; c24_check evaluates the model on the same input and compares. *)
From Coq Require Import List ZArith NArith Bool.
From SopVerif Require Import Lib.Bytes Gen.Consts Gen.HandleCodec Layout.
Import ListNotations.

Definition list_N_eqb (a b : list N) : bool :=
  (Nat.eqb (length a) (length b)) && forallb (fun p => N.eqb (fst p) (snd p)) (combine a b).

Definition handle_eqb (a b : handle) : bool := list_N_eqb (encode a) (encode b).

Inductive c24case :=
| EncCase (h : handle) (impl_bytes : list N)
| DecCase (bs : list N) (impl : option handle)
| OffCase (hashMod : Z) (id : uuid) (impl_block impl_slot : Z)
| WriteCase (slot : Z) (h : handle) (impl_slot_bytes : list N) (impl_crc_off : Z) (crc : N) (impl_crc_bytes : list N)
(* real registry write path: byte offsets of the block that changed when slot was written *)
| RegPathCase (slot : Z) (changed : list Z).

Definition c24_check (c : c24case) : bool :=
  match c with
  | EncCase h b => list_N_eqb (encode h) b
  | DecCase bs impl =>
      match decode bs, impl with
      | Some h, Some h' => handle_eqb h h'
      | None, None => true
      | _, _ => false
      end
  | OffCase m id b s =>
      let '(mb, ms) := id_offsets m id in Z.eqb mb b && Z.eqb ms s
  | WriteCase slot h sb off crc cb =>
      list_N_eqb (encode h) sb && Z.eqb off (B_ - crc_len) && list_N_eqb (le_bytes 4 crc) cb
      && Z.leb 0 slot && Z.ltb slot handlesPerBlock
  | RegPathCase slot changed =>
      Z.leb 0 slot && Z.ltb slot handlesPerBlock &&
      forallb (fun k => (Z.leb (fst (slot_range slot)) k && Z.ltb k (snd (slot_range slot)))
                        || (Z.leb (fst crc_range) k && Z.ltb k (snd crc_range))) changed
  end.

(* Correspondence cases for C31: the harness records what the implementation
   did; c31_check re-computes it with the model of the REPAIRED code (Stream.v)
   under three different cursor oracles (the result must not depend on where the
   B-tree leaves its cursor after a Find miss / an Add) and compares. *)
From Coq Require Import List ZArith NArith Bool.
From SopVerif Require Import Lib.Bytes Stream.
Import ListNotations.

Definition chunk_eqb (a b : chunk) : bool :=
  Nat.eqb (length a) (length b) && forallb (fun p => N.eqb (fst p) (snd p)) (combine a b).

Definition list_eqb {A : Type} (eqb : A -> A -> bool) (a b : list A) : bool :=
  Nat.eqb (length a) (length b) && forallb (fun p => eqb (fst p) (snd p)) (combine a b).

Definition item_eqb (a b : sdk * chunk) : bool := sdk_eqb (fst a) (fst b) && chunk_eqb (snd a) (snd b).
Definition res_eqb (a b : chunk * bool) : bool := chunk_eqb (fst a) (fst b) && Bool.eqb (snd a) (snd b).

(* three cursor oracles: unset; successor of the key, else first item; first item *)
Definition orc_none : oracle := fun _ _ _ => None.
Definition orc_succ : oracle := fun _ s k =>
  match succ_key s k with Some n => Some n | None => match s with [] => None | e :: _ => Some (fst e) end end.
Definition orc_last : oracle := fun t s _ =>
  match nth_error s (Nat.modulo t (S (length s))) with Some e => Some (fst e) | None => None end.
Definition oracles : list oracle := [orc_none; orc_succ; orc_last].

Inductive c31op :=
| OpAdd (k : N) (cs : list chunk)
| OpUpdate (k : N) (cs : list chunk)
| OpUpsert (k : N) (cs : list chunk)
| OpRemove (k : N).

Definition st_code (s : status) : N := match s with StOk => 0 | StNotFound => 1 | StErr => 2 end.

Definition run_op (orc : oracle) (b : bt) (o : c31op) : status * bt :=
  match o with
  | OpAdd k cs => sd_add orc b k cs
  | OpUpdate k cs => sd_update orc b k cs
  | OpUpsert k cs => sd_upsert orc b k cs
  | OpRemove k => sd_remove orc b k
  end.

(* every step: the op, the implementation's status, the implementation's sorted dump afterwards *)
Fixpoint run_steps (orc : oracle) (b : bt) (steps : list (c31op * N * items)) : bool :=
  match steps with
  | [] => true
  | (o, st, dump) :: t =>
      let '(s, b1) := run_op orc b o in
      N.eqb (st_code s) st && list_eqb item_eqb (sort_items (bitems b1)) dump && run_steps orc b1 t
  end.

Inductive c31case :=
(* raw reader: store dump, cursor before the first Read, reader key / start index,
   buffer sizes, and per Read the bytes returned and whether it was io.EOF *)
| ReadCase (store : items) (cur : option sdk) (k : N) (start : Z) (sizes : list N) (impl : list (chunk * bool))
(* add / update / upsert / remove program from an empty store *)
| ProgCase (steps : list (c31op * N * items)).

Definition c31_check (c : c31case) : bool :=
  match c with
  | ReadCase store cur k start sizes impl =>
      forallb (fun orc =>
        list_eqb res_eqb (reads orc true (mkBt store cur 0) (new_reader k start) (map N.to_nat sizes)) impl) oracles
  | ProgCase steps =>
      forallb (fun orc => run_steps orc (mkBt [] None 0) steps) oracles
  end.

(* Correspondence cases for C23: the harness corrupts the segment file of a real registry table,
   optionally plants a backup file, calls Get / Update and records result class, returned handle
   and the raw block + backup file afterwards; c23_check runs the model (reader_in_repo) on the
   same input and compares everything. *)
From Coq Require Import List ZArith NArith Bool.
From SopVerif Require Import Lib.Bytes Gen.Consts BlockIO BlockIOCorr.
Import ListNotations.

Inductive c23case :=
| C23Crc (f : N * list (N * list N)) (go_crc : N) (go_valid : bool)
| C23Get (d : disk) (id : list N) (ideal : N) (res : gobs) (after : disk)
| C23Upd (d : disk) (id : list N) (ideal : N) (data : list N) (res : uobs) (after : disk).

Definition c23_check (c : c23case) : bool :=
  match c with
  | C23Crc f go_crc go_valid =>
      let b := file_of (fst f) (snd f) in
      N.eqb (crc32p (firstn (length b - 4) b)) go_crc && Bool.eqb (valid crc32p b) go_valid
  | C23Get d id ideal res after =>
      let '(d', r) := reg_get crc32p reader_in_repo d id (N.to_nat ideal) in
      gres_matches r res && disk_eqb d' after
  | C23Upd d id ideal data res after =>
      let '(d', r) := reg_update crc32p reader_in_repo d id (N.to_nat ideal) data in
      ures_matches r res && disk_eqb d' after
  end.

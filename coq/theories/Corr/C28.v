(* Correspondence cases for C28: one case = one scripted interleaving.  The harness
   records, after every command, what the implementation answered and its whole lock
   table (and, for the Redis adapter, the IsLockOwner flags of every LockKey object);
   the checker steps the model over the same commands and compares everything.
   The in-memory model is nondeterministic (eviction victim = map iteration order):
   the implementation's step has to be ONE of the model's outcomes, and the check
   continues from that outcome. *)
From Coq Require Import List NArith Bool.
From SopVerif Require Import Locks.
Import ListNotations.
Local Open Scope N_scope.

Definition expiry_eqb (a b : expiry) : bool :=
  match a, b with
  | Some x, Some y => x =? y
  | None, None => true
  | _, _ => false
  end.
Definition entry_eqb (a b : entry) : bool := (fst a =? fst b) && expiry_eqb (snd a) (snd b).
Definition table_sub (a b : table) : bool :=
  forallb (fun e => match lookup (fst e) b with Some v => entry_eqb (snd e) v | None => false end) a.
Definition table_eqb (a b : table) : bool :=
  Nat.eqb (length a) (length b) && table_sub a b && table_sub b a.
Definition oowner_eqb (a b : option owner) : bool :=
  match a, b with Some x, Some y => x =? y | None, None => true | _, _ => false end.
Definition resp_eqb (a b : resp) : bool := Bool.eqb (fst a) (fst b) && oowner_eqb (snd a) (snd b).
Definition flags_sub (a b : flags) : bool := forallb (fun p => flag_mem (fst p) (snd p) b) a.
Definition flags_eqb (a b : flags) : bool := Nat.eqb (length a) (length b) && flags_sub a b && flags_sub b a.

Definition live_table (s : rdstate) : table :=
  filter (fun e => negb (expired (rd_now s) (snd (snd e)))) (rd_tbl s).

(* Flat encodings keep cases.v cheap to elaborate (nested tuples cost ~10 ms per step):
   a table is k;o;h;e quadruples (h = 0: no TTL), flags are o;k pairs, the owner
   reported by a failed Lock is 0 for NilUUID (owners are numbered from 1). *)
Fixpoint dec_table (l : list N) : table :=
  match l with
  | k :: o :: h :: e :: r => (k, (o, if h =? 0 then None else Some e)) :: dec_table r
  | _ => []
  end.
Fixpoint dec_flags (l : list N) : flags :=
  match l with
  | o :: k :: r => (o, k) :: dec_flags r
  | _ => []
  end.
Definition dec_other (o : N) : option owner := if o =? 0 then None else Some o.

Inductive imstep := IS (p : op) (ok : bool) (other : N) (post : list N).
Inductive rdstep := RS (p : op) (ok : bool) (other : N) (post : list N) (fl : list N).

Inductive c28case :=
| ImScript (cap : nat) (shards : list N) (dflt : N) (steps : list imstep)
| RdScript (steps : list rdstep).

Fixpoint im_check (cfg : imcfg) (s : imstate) (steps : list imstep) : bool :=
  match steps with
  | [] => true
  | IS p ok other post0 :: r =>
      let rs := (ok, dec_other other) in
      let post := dec_table post0 in
      match find (fun out : imstate * resp =>
                    resp_eqb (snd out) rs && table_eqb (im_tbl (fst out)) post)
                 (im_step cfg s p) with
      | Some out => im_check cfg (fst out) r
      | None => false
      end
  end.

Fixpoint rd_check (s : rdstate) (steps : list rdstep) : bool :=
  match steps with
  | [] => true
  | RS p ok other post0 fl0 :: r =>
      let rs := (ok, dec_other other) in
      let post := dec_table post0 in
      let fl := dec_flags fl0 in
      let out := rd_step s p in
      resp_eqb (snd out) rs && table_eqb (live_table (fst out)) post
      && flags_eqb (rd_flags (fst out)) fl && rd_check (fst out) r
  end.

Definition c28_check (c : c28case) : bool :=
  match c with
  | ImScript cap shards dflt steps =>
      (* shards: the shard index of key 0, 1, 2, ... as the implementation hashes the key names *)
      im_check (mkImCfg cap (fun k => nth (N.to_nat k) shards 0) dflt) im_init steps
  | RdScript steps => rd_check rd_init steps
  end.

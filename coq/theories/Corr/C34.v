(* Correspondence cases for C34: the harness records what sop.Authorize, sop.CheckPolicy,
   sop.EnforcePolicy, sop.CanPerformAction, sop.IsSystemReadOnly, sop.ActionToUICapability and
   sop.ResolveRBACMap returned; c34_check evaluates the model on the same input and compares. *)
From Coq Require Import List NArith Bool.
From SopVerif Require Import Gen.RbacConsts Rbac.
Import ListNotations.

(* what the implementation returned for one action *)
Record impl_out := mkOut {
  o_action : str;
  o_authorize : bool;      (* Authorize *)
  o_check : N;             (* CheckPolicy: 0 nil, 1 ErrSystemReadOnly, 2 ErrUnauthorized, 3 anything else *)
  o_enforce : N;           (* EnforcePolicy, same coding *)
  o_can : bool;            (* CanPerformAction *)
  o_cap : str              (* ActionToUICapability *)
}.

Inductive c34case :=
(* one caller, one resource, one ACL, every action of the domain *)
| PolicyCase (c : caller) (name : str) (acc : access) (impl_readonly : bool) (outs : list impl_out)
(* ResolveRBACMap: registered = whether a blueprint was registered under the asset type;
   ev = Some table when the blueprint has an evaluator (answering from the table);
   impl = the returned map, sorted by key *)
| MapCase (c : caller) (asset : str) (local : option access) (registered : bool) (acts : list str)
          (ev : option (list (str * bool))) (impl : list (str * bool)).

Definition out_ok (c : caller) (name : str) (acc : access) (o : impl_out) : bool :=
  let a := o_action o in
  Bool.eqb (authorize c acc a) (o_authorize o)
  && N.eqb (verdict_code (check_policy c name acc a)) (o_check o)
  && N.eqb (verdict_code (check_policy c name acc a)) (o_enforce o)
  && Bool.eqb (can_perform c name acc a) (o_can o)
  && str_eqb (action_to_ui_capability a) (o_cap o).

Definition opt_bool_eqb (a : option bool) (b : bool) : bool :=
  match a with Some x => Bool.eqb x b | None => false end.

(* equal as finite maps: same number of keys (the model's keys are distinct by construction of
   map_set, the implementation's because it is a Go map) and every implementation binding is in the model *)
Definition map_eq (model impl : list (str * bool)) : bool :=
  Nat.eqb (length model) (length impl)
  && forallb (fun kv => opt_bool_eqb (lookup (fst kv) model) (snd kv)) impl
  && forallb (fun kv => opt_bool_eqb (lookup (fst kv) impl) (snd kv)) model.

Definition asset_type : str := [116%N]. (* "t" *)

Definition c34_check (k : c34case) : bool :=
  match k with
  | PolicyCase c name acc ro outs =>
      Bool.eqb (is_system_readonly name) ro && forallb (out_ok c name acc) outs
  | MapCase c asset local registered acts ev impl =>
      let bp := mkBlueprint acts (match ev with Some t => Some (table_eval t) | None => None end) in
      let reg := if registered then register asset_type bp [] else [] in
      map_eq (resolve_rbac_map reg c asset_type asset local) impl
  end.

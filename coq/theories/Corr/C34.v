(* Correspondence cases for C34: the harness records what sop.Authorize, sop.CheckPolicy,
   sop.EnforcePolicy, sop.CanPerformAction, sop.IsSystemReadOnly, sop.ActionToUICapability and
   sop.ResolveRBACMap returned; c34_check evaluates the model on the same input and compares. *)
From Coq Require Import List NArith Bool Ascii String.
From SopVerif Require Import Gen.RbacConsts Rbac.
Import ListNotations.

(* Vocabulary of the harness domains: the harness prints these names instead of byte lists (parsing the
   literals dominates the evaluation time); VocabCase checks on every run that the harness table and
   these definitions agree. *)
Definition v0 : str := []. (* "" *)
Definition v1 : str := [97;108;105;99;101]%N. (* "alice" *)
Definition v2 : str := [98;111;98]%N. (* "bob" *)
Definition v3 : str := [65;108;105;99;101]%N. (* "Alice" *)
Definition v4 : str := [97;108;105;99;101;32]%N. (* "alice " *)
Definition v5 : str := [42]%N. (* "*" *)
Definition v6 : str := [115;121;115;116;101;109]%N. (* "system" *)
Definition v7 : str := [65;100;109;105;110]%N. (* "Admin" *)
Definition v8 : str := [85;115;101;114]%N. (* "User" *)
Definition v9 : str := [71;117;101;115;116]%N. (* "Guest" *)
Definition v10 : str := [88]%N. (* "X" *)
Definition v11 : str := [97;100;109;105;110]%N. (* "admin" *)
Definition v12 : str := [65;68;77;73;78]%N. (* "ADMIN" *)
Definition v13 : str := [65;100;109;105;110;32]%N. (* "Admin " *)
Definition v14 : str := [83;79;80]%N. (* "SOP" *)
Definition v15 : str := [76;111;110;103;84;101;114;109;77;101;109;111;114;121]%N. (* "LongTermMemory" *)
Definition v16 : str := [107;98;49]%N. (* "kb1" *)
Definition v17 : str := [115;111;112]%N. (* "sop" *)
Definition v18 : str := [83;111;112]%N. (* "Sop" *)
Definition v19 : str := [108;111;110;103;116;101;114;109;109;101;109;111;114;121]%N. (* "longtermmemory" *)
Definition v20 : str := [76;111;110;103;84;101;114;109;77;101;109;111;114;121;32]%N. (* "LongTermMemory " *)
Definition v21 : str := [83;79;80;47;120]%N. (* "SOP/x" *)
Definition v22 : str := [109;101;109;111;114;121;95;49]%N. (* "memory_1" *)
Definition v23 : str := [112;117;98;108;105;99]%N. (* "public" *)
Definition v24 : str := [112;114;105;118;97;116;101]%N. (* "private" *)
Definition v25 : str := [80;85;66;76;73;67]%N. (* "PUBLIC" *)
Definition v26 : str := [83;121;115;116;101;109]%N. (* "System" *)
Definition v27 : str := [105;110;116;101;114;110;97;108]%N. (* "internal" *)
Definition v28 : str := [115;121;115;116;101;109;32]%N. (* "system " *)
Definition v29 : str := [114;101;97;100]%N. (* "read" *)
Definition v30 : str := [119;114;105;116;101]%N. (* "write" *)
Definition v31 : str := [100;101;108;101;116;101]%N. (* "delete" *)
Definition v32 : str := [108;105;115;116]%N. (* "list" *)
Definition v33 : str := [97;105;95;115;101;108;101;99;116]%N. (* "ai_select" *)
Definition v34 : str := [101;120;101;99;117;116;101]%N. (* "execute" *)
Definition v35 : str := [82;101;97;100]%N. (* "Read" *)
Definition v36 : str := [115;104;97;114;101]%N. (* "share" *)
Definition v37 : str := [99;97;110;95;114;101;97;100]%N. (* "can_read" *)
Definition v38 : str := [99;97;110;95;101;100;105;116]%N. (* "can_edit" *)
Definition v39 : str := [99;97;110;95;100;101;108;101;116;101]%N. (* "can_delete" *)
Definition v40 : str := [99;97;110;95;97;105;95;115;101;108;101;99;116]%N. (* "can_ai_select" *)
Definition v41 : str := [114;111;111;116]%N. (* "root" *)
Definition vocab_size : nat := 42.

(* what the implementation returned for one action *)
Record impl_out := mkOut {
  o_action : str;
  o_authorize : bool;      (* Authorize *)
  o_check : N;             (* CheckPolicy: 0 nil, 1 ErrSystemReadOnly, 2 ErrUnauthorized, 3 anything else *)
  o_enforce : N;           (* EnforcePolicy, same coding *)
  o_can : bool;            (* CanPerformAction *)
  o_cap : str              (* ActionToUICapability *)
}.

Inductive c34case :=
(* one caller, one resource, one ACL, every action of the domain *)
| PolicyCase (c : caller) (name : str) (acc : access) (impl_readonly : bool) (outs : list impl_out)
(* ResolveRBACMap: registered = whether a blueprint was registered under the asset type;
   ev = Some table when the blueprint has an evaluator (answering from the table);
   impl = the returned map, sorted by key *)
(* consistency of the vocabulary table: (name used, byte list meant) *)
| VocabCase (l : list (str * str))
(* the enumerated domain, one resource name and one ACL at a time: impl holds, for every caller of
   enum_callers in order and every action of enum_actions in order, one character whose code is
   48 + the decision code (a string literal is the cheapest thing for coqc to parse) *)
| EnumCase (name : str) (acc : access) (impl_readonly : bool) (impl : string)
(* the harness's caller and action lists of the enumerated domain are enum_callers / enum_actions *)
| EnumDomainCase (callers : list caller) (actions : list str)
| MapCase (c : caller) (asset : str) (local : option access) (registered : bool) (acts : list str)
          (ev : option (list (str * bool))) (impl : list (str * bool)).

Definition out_ok (c : caller) (name : str) (acc : access) (o : impl_out) : bool :=
  let a := o_action o in
  Bool.eqb (authorize c acc a) (o_authorize o)
  && N.eqb (verdict_code (check_policy c name acc a)) (o_check o)
  && N.eqb (verdict_code (check_policy c name acc a)) (o_enforce o)
  && Bool.eqb (can_perform c name acc a) (o_can o)
  && str_eqb (action_to_ui_capability a) (o_cap o).

Definition opt_bool_eqb (a : option bool) (b : bool) : bool :=
  match a with Some x => Bool.eqb x b | None => false end.

(* equal as finite maps: same number of keys (the model's keys are distinct by construction of
   map_set, the implementation's because it is a Go map) and every implementation binding is in the model *)
Definition map_eq (model impl : list (str * bool)) : bool :=
  Nat.eqb (List.length model) (List.length impl)
  && forallb (fun kv => opt_bool_eqb (lookup (fst kv) model) (snd kv)) impl
  && forallb (fun kv => opt_bool_eqb (lookup (fst kv) impl) (snd kv)) model.

(* ---- the enumerated domain (harness: enumInput) *)
Definition enum_role_subsets : list (list str) :=
  [ []; [v7]; [v8]; [v7; v8]; [v10]; [v7; v10]; [v8; v10]; [v7; v8; v10] ].
Definition enum_callers : list caller :=
  flat_map (fun sys => flat_map (fun roles => map (fun u => mkCaller u roles sys) [v0; v1; v2]) enum_role_subsets)
           [false; true].
Definition enum_actions : list str := [v29; v30; v31; v32; v33; v34; v5].

Definition b2n (b : bool) : N := if b then 1%N else 0%N.
(* Authorize + 2 CanPerformAction + 4 code(CheckPolicy) + 16 code(EnforcePolicy) *)
Definition decision_code (c : caller) (name : str) (acc : access) (a : str) : N :=
  let v := verdict_code (check_policy c name acc a) in
  (b2n (authorize c acc a) + 2 * b2n (can_perform c name acc a) + 4 * v + 16 * v)%N.
Definition codes_of_string (s : string) : list N :=
  map (fun a => (N_of_ascii a - 48)%N) (list_ascii_of_string s).

Fixpoint list_eqb {A : Type} (eqb : A -> A -> bool) (a b : list A) : bool :=
  match a, b with
  | [], [] => true
  | x :: a', y :: b' => eqb x y && list_eqb eqb a' b'
  | _, _ => false
  end.
Definition caller_eqb (a b : caller) : bool :=
  str_eqb (c_user a) (c_user b) && list_eqb str_eqb (c_roles a) (c_roles b) && Bool.eqb (c_system a) (c_system b).

Definition asset_type : str := [116%N]. (* "t" *)

Definition c34_check (k : c34case) : bool :=
  match k with
  | PolicyCase c name acc ro outs =>
      Bool.eqb (is_system_readonly name) ro && forallb (out_ok c name acc) outs
  | VocabCase l => forallb (fun p => str_eqb (fst p) (snd p)) l
  | EnumCase name acc ro impl =>
      Bool.eqb (is_system_readonly name) ro
      && list_eqb N.eqb (flat_map (fun c => map (decision_code c name acc) enum_actions) enum_callers) (codes_of_string impl)
      && forallb (fun a => N.leb 48 (N_of_ascii a)) (list_ascii_of_string impl)
  | EnumDomainCase callers actions =>
      list_eqb caller_eqb enum_callers callers && list_eqb str_eqb enum_actions actions
  | MapCase c asset local registered acts ev impl =>
      let bp := mkBlueprint acts (match ev with Some t => Some (table_eval t) | None => None end) in
      let reg := if registered then register asset_type bp [] else [] in
      map_eq (resolve_rbac_map reg c asset_type asset local) impl
  end.

(* Correspondence cases for C25: the harness records the damage pattern it put on the real shard files and
   what BlobStoreWithEC.GetOne / Add did; c25_check runs the model (EC.v, repaired code, with the concrete
   symbolic Reed–Solomon c_verify / c_reconstruct) on the same pattern and compares outcome classes.
   RsVerifyCase / RsReconCase validate that concrete Reed–Solomon against klauspost/reedsolomon itself. *)
From Coq Require Import List NArith Bool Arith.
From SopVerif Require Import EC.
Import ListNotations.

Fixpoint olist_eqb (a b : list (option sdata)) : bool :=
  match a, b with
  | [], [] => true
  | Some x :: r, Some y :: s => sdata_eqb x y && olist_eqb r s
  | None :: r, None :: s => olist_eqb r s
  | _, _ => false
  end.

Inductive c25case :=
| ReadCase (d p : nat) (size : N) (dmg : list kdmg) (impl_class : N)
| WriteCase (d p : nat) (size : N) (wfail : list bool) (impl_ok : bool) (impl_read_class : N)
| RsVerifyCase (d p : nat) (Lc : N) (ss : list (option sdata)) (impl : bool)
| RsReconCase (d p : nat) (Lc : N) (ss : list (option sdata)) (impl : option (list (option sdata))).

Definition fresh_disk (d p : nat) (size : N) : list dshard := repeat (good_file d size c_md5) (d + p).

Definition c25_check (c : c25case) : bool :=
  match c with
  | ReadCase d p size dmg cls =>
      Nat.eqb (length dmg) (d + p) &&
      N.eqb (class_of d size (fst (c_getOne d p size false (apply_dmgs dmg (fresh_disk d p size))))) cls
  | WriteCase d p size wfail ok cls =>
      let '(r, disk) := add d p size c_md5 (nth_flag wfail) (repeat SMissing (d + p)) in
      Bool.eqb (match r with Ok _ => true | _ => false end) ok &&
      N.eqb (class_of d size (fst (c_getOne d p size false disk))) cls
  | RsVerifyCase d p Lc ss impl => Bool.eqb (c_verify (d + p) Lc ss) impl
  | RsReconCase d p Lc ss impl =>
      match c_reconstruct d (d + p) Lc ss, impl with
      | Some a, Some b => olist_eqb a b
      | None, None => true
      | _, _ => false
      end
  end.

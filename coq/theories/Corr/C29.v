(* Correspondence cases for C29: the harness records what btree.Compare /
   btree.CoerceComparer returned; c29_check evaluates the model on the same input.
   tbl is the %v oracle: renderings fmt produced for values whose formatting the
   model leaves abstract (only consulted on the `default:` branch). *)
From Coq Require Import List ZArith NArith Bool.
From SopVerif Require Import Lib.Bytes FloatCmp Compare.
Import ListNotations.

Inductive c29case :=
| CmpCase (tbl : list (key * list N)) (x y : key) (impl : Z)            (* btree.Compare(x, y) *)
| CoerceCase (tbl : list (key * list N)) (w x y : key) (impl : Z).      (* btree.CoerceComparer(w)(x, y) *)

Definition c29_check (c : c29case) : bool :=
  match c with
  | CmpCase tbl x y r =>
      wf_key x && wf_key y && Z.eqb (compare (fmt_of_table tbl) x y) r
  | CoerceCase tbl w x y r =>
      wf_key w && wf_key x && wf_key y && Z.eqb (apply_ck (fmt_of_table tbl) (coerce w) x y) r
  end.

(* Correspondence cases for C17/C18.  One case = one operation sequence on a fresh
   tree, with everything the implementation showed after every call.  bt_check
   (1) runs the specification monitor OMap.ostep along the recorded calls, the
   hints being the observed abstract cursor / removed item, and compares return
   value, error kind, output, Count() and GetCurrentKey();
   (2) runs the faithful node-level model Btree.bstep and compares, after every
   call, the same observables plus the raw cursor and the complete node
   structure (slots incl. emptied ones, child arrays, parent ids), node ids
   canonicalised by a depth-first walk from the root on both sides. *)
From Coq Require Import List ZArith NArith Bool.
From SopVerif Require Import OMap Btree BtreeSim BtreeWF.
Import ListNotations.
Local Open Scope Z_scope.

(* One recorded call: the operation (code + two arguments), the hints for the
   specification monitor (observed abstract cursor kind/id, item that left the
   tree) and a 32-bit digest of everything observed after the call. *)
Inductive cstep :=
| C0 (code hint digest : Z)            (* calls without argument *)
| C1 (code a hint digest : Z)          (* one argument *)
| C2 (code a b hint digest : Z)        (* two arguments *)
| CR (a hint hrem digest : Z).         (* Remove(a), with the item that left the tree *)

(* hint: 0 no current item, 1 emptied slot, n+2 the item with id n *)
Definition cs_parts (st : cstep) : Z * Z * Z * Z * Z * Z :=
  match st with
  | C0 c h d => (c, 0, 0, h, 0, d)
  | C1 c a h d => (c, a, (if c =? 6 then a else 0), h, 0, d)
  | C2 c a b h d => (c, a, b, h, 0, d)
  | CR a h r d => (8, a, 0, h, r, d)
  end.
Inductive btcase := BtCase (L : Z) (unique lb inmem spec : bool) (steps : list (list cstep)).

Definition erase_err (inmem : bool) (e : ekind) : ekind :=
  if inmem then match e with EErr => ENone | _ => e end else e.

Definition zb (z : Z) : bool := negb (z =? 0).
Definition zhint (h : Z) : hint := if h =? 0 then HNone else if h =? 1 then HGhost else HItem (Z.to_N (h - 2)).
Definition ek_code (e : ekind) : Z := match e with ENone => 0 | EErr => 1 | EPanic => 2 end.

Definition dec_op (c a b : Z) : op :=
  match Z.to_nat c with
  | 0%nat => OAdd a b | 1%nat => OAddIfNotExist a b | 2%nat => OUpsert a b | 3%nat => OUpdate a b
  | 4%nat => OUpdateKey a | 5%nat => OUpdateCurrentItem a b | 6%nat => OUpdateCurrentValue b
  | 7%nat => OUpdateCurrentKey a | 8%nat => ORemove a | 9%nat => ORemoveCurrent
  | 10%nat => OFirst | 11%nat => OLast | 12%nat => ONext | 13%nat => OPrev
  | 14%nat => OFind a (zb b) | 15%nat => OFindDesc a | 16%nat => OFindWithID a (Z.to_N b)
  | 17%nat => OGetCurrentValue | 18%nat => OGetCurrentItem | 19%nat => ORange a b
  | _ => ORangeDesc a b
  end.

(* ---------------------------------------------------------------- canonical node structure
   depth-first walk from the root; node ids renamed to visit order (1,2,..),
   nil stays 0, ids the walk does not reach become 1000000 *)
Fixpoint assoc (m : list (N * N)) (k : N) : option N :=
  match m with
  | [] => None
  | (a, b) :: r => if N.eqb a k then Some b else assoc r k
  end.

Fixpoint walk (fuel : nat) (m : nodemap) (id : N) (ren : list (N * N)) : list (N * N) :=
  match fuel with
  | O => ren
  | S f =>
      if N.eqb id 0 then ren else
      match assoc ren id with
      | Some _ => ren
      | None =>
          match nm_get m id with
          | None => ren
          | Some n =>
              let ren1 := ren ++ [(id, N.of_nat (S (length ren)))] in
              match nchildren n with
              | None => ren1
              | Some ch => fold_left (fun acc c => walk f m c acc) ch ren1
              end
          end
      end
  end.

Definition rename (ren : list (N * N)) (id : N) : Z :=
  if N.eqb id 0 then 0 else match assoc ren id with Some x => Z.of_N x | None => 1000000 end.

Definition flat_items (l : list item) : list Z :=
  flat_map (fun x => [Z.of_N (iid x); ikey x; ival x]) l.

Definition flat_node (ren : list (N * N)) (n : node) : list Z :=
  [rename ren (nparent n); ncount n] ++ flat_items (nslots n)
  ++ match nchildren n with
     | None => [0]
     | Some ch => 1 :: map (rename ren) ch
     end.

(* everything observable after a call, as a list of integers *)
Definition obs_vec (inmem : bool) (s : bstate) (r : result) : list Z :=
  let ren := walk (S (length (bnodes s))) (bnodes s) (broot s) [] in
  [if rok r then 1 else 0; ek_code (erase_err inmem (rerr r)); Z.of_nat (length (rout r))]
  ++ flat_items (rout r)
  ++ [bcount s; Z.of_N (iid (bcurrent_key s)); ikey (bcurrent_key s); if bcached s then 1 else 0;
      rename ren (bcur_node s); if N.eqb (bcur_node s) 0 then 0 else bcur_idx s;
      Z.of_nat (length (bnodes s)); Z.of_nat (length ren)]
  ++ flat_map (fun p => match nm_get (bnodes s) (fst p) with Some n => flat_node ren n | None => [] end) ren.

(* djb2 over the vector (entries offset to be non-negative), modulo 2^32 *)
Definition djb (l : list Z) : Z :=
  fold_left (fun h x => Z.land (h * 33 + (x + 1048576)) 4294967295) l 5381.

(* one call: the node-level model must reproduce the recorded digest; while the
   run is inside the specification (every step when spec = true, every step but
   the last otherwise) the monitor must accept the call and agree with the
   node-level model on result, output, count, GetCurrentKey, cursor and contents *)
Definition step_ok (cfg : bcfg) (inmem : bool) (b : bstate) (o : option omap) (st : cstep)
  : option (bstate * option omap * bool) :=
  match cs_parts st with
  | (c, a0, b0, h, hrem, d) =>
      let op := dec_op c a0 b0 in
      let '(b', r) := bstep cfg b op in
      if negb (Z.eqb (djb (obs_vec inmem b' r)) d) then None
      else if negb (clb cfg) && negb (wfb cfg b') then None   (* the invariant, on every reached state *)
      else
        match o with
        | None => Some (b', None, false)
        | Some s =>
            match ostep (cunique cfg) s op (mkHints (zhint h) (Z.to_N hrem)) with
            | Some (s', r') =>
                if Bool.eqb (rok r') (rok r) && ekind_eqb (rerr r') (rerr r) && items_eqb (rout r') (rout r)
                   && Z.eqb (ocount s') (bcount b') && item_eqb (current_key s') (bcurrent_key b')
                   && same_cursor s' b' && items_eqb (items s') (b_inorder b')
                then Some (b', Some s', true) else Some (b', None, false)
            | None => Some (b', None, false)
            end
        end
  end.

(* returns (digests all reproduced, number of leading steps inside the spec) *)
Fixpoint run_steps (cfg : bcfg) (inmem : bool) (b : bstate) (o : option omap) (steps : list cstep) (inspec : nat)
  : bool * nat :=
  match steps with
  | [] => (true, inspec)
  | st :: r =>
      match step_ok cfg inmem b o st with
      | None => (false, inspec)
      | Some (b', o', ok) => run_steps cfg inmem b' o' r (if ok then S inspec else inspec)
      end
  end.

Definition bt_check (c : btcase) : bool :=
  match c with
  | BtCase L u lb inmem spec chunks =>
      let steps := concat chunks in
      let '(ok, inspec) := run_steps (mkCfg L u lb) inmem empty_bstate (Some empty_omap) steps 0 in
      ok && (if spec then Nat.eqb inspec (length steps) else Nat.eqb (S inspec) (length steps))
  end.

(* debugging aid: number of leading steps whose digest the model reproduces *)
Fixpoint digest_prefix (cfg : bcfg) (inmem : bool) (b : bstate) (steps : list cstep) (i : nat) : nat :=
  match steps with
  | [] => i
  | st :: r =>
      let '(c, a0, b0, _, _, d) := cs_parts st in
      let '(b', res) := bstep cfg b (dec_op c a0 b0) in
      if Z.eqb (djb (obs_vec inmem b' res)) d then digest_prefix cfg inmem b' r (S i) else i
  end.

(* Correspondence cases for C38: a scenario executed on the real store (child
   processes, one per process segment) and the deep content every action showed;
   c38_check runs the heap model of Alias.v on the same scenario and compares
   every observation. *)
From Coq Require Import List NArith Bool Arith.
From SopVerif Require Import Alias.
Import ListNotations.

Inductive c38case :=
| AliasCase (in_node : bool) (init : list (list N)) (evs : list event) (impl : list obs).

Fixpoint number {A : Type} (k : N) (l : list A) : list (N * A) :=
  match l with
  | [] => []
  | x :: r => (k, x) :: number (N.succ k) r
  end.

Definition c38_check (c : c38case) : bool :=
  match c with
  | AliasCase _ init evs impl => obs_list_eqb (snd (run (init_state (number 0%N init)) evs)) impl
  end.

(* Correspondence for the commit-protocol model: the harness records, for one transaction run on the real
   filesystem backend, the classified node sets, the durable state before the commit, the injected fault,
   the projected trace of storage-interface calls with their success flags, the result class of Commit and
   the durable state afterwards. proto_check runs Proto.commit on the same inputs and compares all three. *)
From Coq Require Import List ZArith NArith Bool.
From SopVerif Require Import Lib.Bytes Proto.
Import ListNotations.
Local Open Scope N_scope.

Fixpoint insertN (x : N) (l : list N) : list N :=
  match l with [] => [x] | y :: r => if x <=? y then x :: l else y :: insertN x r end.
Definition sortN (l : list N) : list N := fold_right insertN [] l.
Fixpoint insertH (x : handle) (l : list handle) : list handle :=
  match l with [] => [x] | y :: r => if lid x <=? lid y then x :: l else y :: insertH x r end.
Definition sortH (l : list handle) : list handle := fold_right insertH [] l.

Fixpoint list_eqb {A} (e : A -> A -> bool) (a b : list A) : bool :=
  match a, b with
  | [], [] => true
  | x :: a', y :: b' => e x y && list_eqb e a' b'
  | _, _ => false
  end.
Definition pairNZ_eqb (a b : N * Z) : bool := (fst a =? fst b) && Z.eqb (snd a) (snd b).

(* calls are compared up to the order of the ids / handles inside one call (the implementation iterates Go maps);
   the payload of the priority log is not decoded by the harness *)
Definition call_eqb (a b : call) : bool :=
  match a, b with
  | TlogAdd x, TlogAdd y => x =? y
  | TlogRemove, TlogRemove => true
  | BlobAdd x, BlobAdd y => list_eqb N.eqb (sortN x) (sortN y)
  | BlobRemove x, BlobRemove y => list_eqb N.eqb (sortN x) (sortN y)
  | RegGet x, RegGet y => list_eqb N.eqb (sortN x) (sortN y)
  | RegAdd x, RegAdd y => list_eqb handle_eqb (sortH x) (sortH y)
  | RegUpd p x, RegUpd q y => Bool.eqb p q && list_eqb handle_eqb (sortH x) (sortH y)
  | RegRemove x, RegRemove y => list_eqb N.eqb (sortN x) (sortN y)
  | SrUpdate x, SrUpdate y => list_eqb pairNZ_eqb x y
  | PlogAdd x, PlogAdd y => list_eqb handle_eqb (sortH x) (sortH y)   (* the logged images are compared *)
  | PlogGet, PlogGet => true
  | PlogRemove, PlogRemove => true
  | _, _ => false
  end.
Definition ev_eqb (a b : call * bool) : bool := call_eqb (fst a) (fst b) && Bool.eqb (snd a) (snd b).

Definition outcome_eqb (a b : outcome) : bool :=
  match a, b with Committed, Committed | Failed, Failed | Conflicted, Conflicted => true | _, _ => false end.

(* durable states are compared as sets of handles and blob ids, per-store counts, presence of the transaction log and the content of the priority log *)
Definition disk_eqb (stores : list N) (a b : disk) : bool :=
  list_eqb handle_eqb (sortH (reg a)) (sortH (reg b))
  && list_eqb N.eqb (sortN (blobs a)) (sortN (blobs b))
  && forallb (fun s => Z.eqb (count_of a s) (count_of b s)) stores
  && Bool.eqb (tlog a) (tlog b)
  && match plog a, plog b with
     | Some x, Some y => list_eqb handle_eqb (sortH x) (sortH y)   (* the logged handle images *)
     | None, None => true
     | _, _ => false
     end.

Record protocase := mkCase {
  pc_txn : txn;
  pc_pre : disk;
  pc_fault : option nat;                 (* index into the projected call sequence *)
  pc_stores : list N;
  pc_trace : list (call * bool);         (* implementation: projected calls in order *)
  pc_outcome : outcome;
  pc_post : disk
}.

Definition proto_check (c : protocase) : bool :=
  let '(o, d, t) := run (pc_txn c) (pc_pre c) (pc_fault c) in
  outcome_eqb o (pc_outcome c) && list_eqb ev_eqb t (pc_trace c) && disk_eqb (pc_stores c) d (pc_post c).

(* diagnostic: first position where the traces differ (used when a mismatch is reported) *)
Fixpoint first_diff (a b : list (call * bool)) (i : nat) : option nat :=
  match a, b with
  | [], [] => None
  | x :: a', y :: b' => if ev_eqb x y then first_diff a' b' (S i) else Some i
  | _, _ => Some i
  end.
Definition proto_diag (c : protocase) : bool * option nat * bool :=
  let '(o, d, t) := run (pc_txn c) (pc_pre c) (pc_fault c) in
  (outcome_eqb o (pc_outcome c), first_diff t (pc_trace c) 0%nat, disk_eqb (pc_stores c) d (pc_post c)).

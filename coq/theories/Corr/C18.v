(* C18 shares the case type and the checker of C17 (Corr/C17.v): every call of a
   probe-heavy sequence is replayed through the specification monitor and the
   node-level model, cursor included. *)
From SopVerif Require Import OMap Btree Corr.C17.

Definition c18_check (c : btcase) : bool := bt_check c.

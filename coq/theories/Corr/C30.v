(* Correspondence cases for C30: one comparer object, a sequence of comparisons
   (warm-ups then the pair under test); the harness records every result the
   implementation returned, the model replays the sequence from the initial state. *)
From Coq Require Import List ZArith NArith Bool.
From SopVerif Require Import Lib.Bytes FloatCmp Compare MapKey.
Import ListNotations.

Inductive c30case :=
| SpecCase (tbl : list (key * list N)) (fields : list (list N * bool)) (seq : list (jmap * jmap)) (impl : list Z)
| DefCase (tbl : list (key * list N)) (seq : list (jmap * jmap)) (impl : list Z).

Definition wf_map (m : jmap) : bool := forallb (fun p => forallb byte_ok (fst p) && wf_key (snd p)) m.
Definition wf_seq (s : list (jmap * jmap)) : bool := forallb (fun p => wf_map (fst p) && wf_map (snd p)) s.

Definition c30_check (c : c30case) : bool :=
  match c with
  | SpecCase tbl fields seq impl =>
      wf_seq seq && list_eqb Z.eqb (trace_spec (fmt_of_table tbl) (spec_init fields) seq) impl
  | DefCase tbl seq impl =>
      wf_seq seq && list_eqb Z.eqb (trace_def (fmt_of_table tbl) None seq) impl
  end.

(* Correspondence cases for C02: the harness records the history of a run on the real code
   (per transaction: operations with the answers the implementation gave, commit outcome; the
   store content before and after) and its own verdicts; c02_check evaluates the verified
   checker of History.v on the same history and compares. *)
From Coq Require Import List NArith Bool.
From SopVerif Require Import History.
Import ListNotations.

Inductive c02case :=
(* impl_ser: verdict of the harness's own (unverified, Go) serializability search *)
| SerCase (h : history) (impl_ser : bool)
(* order: ids of the committed transactions in the order of their commit points observed by the
   recorder (writer: phase-2 registry flip; reader: last read-set validation); impl_ok: whether
   the Go replay in that order explained the history.  This is the prediction of
   Props/C02.v C02_writers_partial (serializable IN FLIP ORDER) checked on the implementation. *)
| OrderCase (h : history) (order : list N) (impl_ok : bool).

Definition order_explainsb (h : history) (ids : list N) : bool :=
  let o := pick_order (committed_of h) ids in
  Nat.eqb (length o) (length (committed_of h)) && Nat.eqb (length ids) (length o) && explainsb h o.

Definition c02_check (c : c02case) : bool :=
  match c with
  | SerCase h b => Bool.eqb (ser_check h) b
  | OrderCase h ids b => Bool.eqb (order_explainsb h ids) b
  end.

(* Correspondence cases for C03: a writer transaction is paused at one of its interface calls and
   a fresh reader transaction runs to completion; the case records what the reader saw.  c03_check
   evaluates what the model says a reader sees at that stage of the writer (including the
   modelled defect: the store count is merged by commitStores before the registry flip). *)
From Coq Require Import List NArith ZArith Bool.
From SopVerif Require Import History.
Import ListNotations.

(* stage of the paused writer:
   0 working (before Commit)            1 in phase 1, before StoreRepository.Update (commitStores)
   2 after commitStores, before the first phase-2 registry write
   3 inside phase 2 after the first flipped handle and before the commit returned
   4 writer finished, committed         5 writer finished, rolled back / failed *)
Inductive c03case :=
| PauseCase (pre post : state) (pre_count post_count : N) (stage : N)
            (obs : list op) (obs_count : N).

Definition explained (s : state) (obs : list op) : bool :=
  match apply_ops s obs with Some _ => true | None => false end.

(* stage 3: every single read is the old or the new value (no third value) *)
Definition each_old_or_new (pre post : state) (obs : list op) : bool :=
  forallb (fun o => explained pre [o] || explained post [o]) obs.

(* the reader's item view.  Stage 2 inherits the count defect: btree.Find / First short-circuit on
   StoreInfo.Count = 0, so when the merged (uncommitted) count is 0 the reader sees an empty store.
   Stage 3 (inside the non-atomic flip): no prediction (C02 owns the mixed snapshots). *)
Definition c03_model_items (pre post : state) (post_count stage : N) (obs : list op) : bool :=
  match stage with
  | 0%N | 1%N | 5%N => explained pre obs
  | 2%N => if N.eqb post_count 0 then explained [] obs else explained pre obs
  | 4%N => explained post obs
  | _ => true
  end.

Definition c03_model_count (pre_count post_count stage obs_count : N) : bool :=
  match stage with
  | 0%N | 1%N | 5%N => N.eqb obs_count pre_count
  | 2%N | 4%N => N.eqb obs_count post_count      (* 2: the modelled defect *)
  | _ => true
  end.

Definition c03_check (c : c03case) : bool :=
  match c with
  | PauseCase pre post pc qc stage obs oc =>
      c03_model_items pre post qc stage obs && c03_model_count pc qc stage oc
  end.

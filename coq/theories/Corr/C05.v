(* Correspondence cases for C05: the runs of Corr/C04.v on a unique store whose writers race on the SAME
   keys. c05_check = the model explains the run (c04_check) and, like the model's committed store, the
   contents read back by a fresh process have no two equal keys. *)
From Coq Require Import List ZArith NArith Bool.
From SopVerif Require Import Merge Corr.C04.
Import ListNotations.

Inductive c05case := U5 (c : c04case).

Definition case_unique (c : c04case) : bool :=
  match c with ConcCase u _ _ _ _ => u | RootCase u _ _ _ _ => u end.
Definition case_final (c : c04case) : list (Z * N) :=
  match c with ConcCase _ _ _ _ f => f | RootCase _ _ _ _ f => f end.

Definition c05_check (c : c05case) : bool :=
  match c with
  | U5 c => case_unique c && c04_check c && negb (adjacent_dup (map fst (case_final c)))
  end.

(* Correspondence cases for C13: the harness records what the implementation produced;
   c13_check evaluates the model on the same input and compares. *)
From Coq Require Import List ZArith NArith Bool.
From SopVerif Require Import Lib.Bytes StoreInfoPatchLib Gen.StoreInfoFields StoreInfoPatch.
Import ListNotations.

Definition opt_bytes_eq (a b : option (list N)) : bool :=
  match a, b with
  | Some x, Some y => list_N_eq x y
  | None, None => true
  | _, _ => false
  end.

Inductive c13case :=
| PatchCase (data field : list N) (v : Z) (impl : option (list N))          (* fs.patchJSONNumericField *)
| SerCase (s : storeinfo) (impl : list N)                                     (* encoding.Marshal(StoreInfo) *)
| StrCase (s : list N) (impl : list N)                                        (* json.Marshal(string) *)
| Utf8Case (s : list N) (impl : bool)                                         (* utf8.Valid *)
| UpdCase (file : list N) (cur caller : storeinfo) (impl_after : list N).     (* StoreRepository.Update, one store *)

Definition c13_check (c : c13case) : bool :=
  match c with
  | PatchCase d f v impl => opt_bytes_eq (patch_num d f v) impl
  | SerCase s impl => list_N_eq (ser s) impl
  | StrCase s impl => list_N_eq (ser_string s) impl
  | Utf8Case s impl => Bool.eqb (valid_utf8 s) impl
  | UpdCase file cur caller impl => list_N_eq (update_bytes file cur caller) impl
  end.

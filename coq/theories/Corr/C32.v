(* Correspondence cases for C32.  SearchCase: the documents indexed (docID, tokens as produced by
   the real tokenizer, in indexing order over all transactions), the query tokens, and per document
   returned by the real Index.Search the statistics the harness' reference BM25 used for it (the
   harness has already compared Go's float64 score with the formula over these numbers).
   TokCase: K1 for the concrete tokenizer model. *)
From Coq Require Import List ZArith NArith Bool.
From SopVerif Require Import Lib.Bytes Search SearchTok.
Import ListNotations.
Local Open Scope Z_scope.

Inductive c32case :=
| SearchCase (adds : corpus) (q : list bytes) (impl : hits)
| TokCase (text : bytes) (impl : list bytes).

Definition optz_eqb (a b : option Z) : bool :=
  match a, b with Some x, Some y => Z.eqb x y | None, None => true | _, _ => false end.
Definition contrib_eqb (a b : contrib) : bool :=
  let '(n, tl, nq, f, dl) := a in let '(n', tl', nq', f', dl') := b in
  Z.eqb n n' && Z.eqb tl tl' && Z.eqb nq nq' && Z.eqb f f' && optz_eqb dl dl'.
Fixpoint contribs_eqb (a b : list contrib) : bool :=
  match a, b with
  | [], [] => true
  | x :: r, y :: q => contrib_eqb x y && contribs_eqb r q
  | _, _ => false
  end.
Fixpoint hits_find (d : bytes) (h : hits) : option (list contrib) :=
  match h with [] => None | (d', cs) :: r => if beqb d d' then Some cs else hits_find d r end.
Fixpoint distinct_ids (h : hits) : bool :=
  match h with [] => true | (d, _) :: r => match hits_find d r with None => distinct_ids r | Some _ => false end end.
Definition hits_same (model impl : hits) : bool :=
  Nat.eqb (length model) (length impl) && distinct_ids impl &&
  forallb (fun dc => match hits_find (fst dc) model with Some cs => contribs_eqb cs (snd dc) | None => false end) impl.
Fixpoint toks_eqb (a b : list bytes) : bool :=
  match a, b with
  | [], [] => true
  | x :: r, y :: q => beqb x y && toks_eqb r q
  | _, _ => false
  end.

Definition c32_check (c : c32case) : bool :=
  match c with
  | SearchCase adds q impl =>
      let ix := idx_add_all empty_index adds in
      (* both tree-shape choices of the cursor position after a miss must give the implementation's answer *)
      hits_same (idx_search (repeat false (length q)) ix q) impl &&
      hits_same (idx_search (repeat true (length q)) ix q) impl
  | TokCase text impl => toks_eqb (tokenize text) impl
  end.

(* Correspondence cases for C21 (K2, structural): one case = one history run against the real
   fs registry. For every operation the harness records the API result, the number of segment
   files and the raw slots of the blocks of interest, decoded from the segment-file bytes.
   c21_check replays the history on the model and compares all of it, step by step.
   Handles are written once in a table and referred to by index. *)
From Coq Require Import List ZArith NArith Bool.
From SopVerif Require Import Lib.Bytes Gen.Consts Gen.HandleCodec Layout Hashmap.
Import ListNotations.

Inductive xop :=
| XAdd (l : list N)
| XUpdate (l : list N)
| XUpdateNoLocks (l : list N)
| XRemove (l : list N)
| XGet (l : list N).

Inductive xres :=
| XDone (code : N)        (* 0 ok, 1 max segments, 2 busy (add of a stored id), 3 not found, 4 different *)
| XGot (l : list N).

(* op, result, pre-state hazard flag computed by the harness from the disk bytes, number of segment
   files after the op, and the slots whose raw bytes changed during the op, flattened as
   segment; block; slot; k  with k = 0 for "now all zero bytes" and k = handle index + 1 otherwise.
   (Flat lists of numerals: tuples are an order of magnitude slower to parse.) *)
Inductive xstep := XStep (o : xop) (r : xres) (hz : bool) (nseg : N) (delta : list N).

(* The handles written in the history, 7 numerals per handle: the three ids as 128-bit big-endian
   numbers, IsActiveIDB, Version, WorkInProgressTimestamp (both non-negative here), IsDeleted. *)
Inductive c21case := C21Case (hm : Z) (tbl : list N) (blocks : list N) (steps : list xstep).

Definition be_bytes16 (v : N) : uuid := rev (le_bytes 16 v).
Fixpoint tbl_decode (l : list N) : list handle :=
  match l with
  | a :: b :: c :: d :: e :: f :: g :: r =>
      mkHandle (be_bytes16 a) (be_bytes16 b) (be_bytes16 c) (N.eqb d 1) (Z.of_N e) (Z.of_N f) (N.eqb g 1) :: tbl_decode r
  | _ => []
  end.

Definition handle_eqb (a b : handle) : bool :=
  uuid_eqb (LogicalID a) (LogicalID b) && uuid_eqb (PhysicalIDA a) (PhysicalIDA b) &&
  uuid_eqb (PhysicalIDB a) (PhysicalIDB b) && Bool.eqb (IsActiveIDB a) (IsActiveIDB b) &&
  Z.eqb (Version a) (Version b) && Z.eqb (WorkInProgressTimestamp a) (WorkInProgressTimestamp b) &&
  Bool.eqb (IsDeleted a) (IsDeleted b).

Definition hnth (tbl : list handle) (i : N) : handle := nth (N.to_nat i) tbl zero_handle.

Definition to_op (tbl : list handle) (o : xop) : op :=
  match o with
  | XAdd l => Add (map (hnth tbl) l)
  | XUpdate l => Update (map (hnth tbl) l)
  | XUpdateNoLocks l => UpdateNoLocks (map (hnth tbl) l)
  | XRemove l => Remove (map (fun i => LogicalID (hnth tbl i)) l)
  | XGet l => Get (map (fun i => LogicalID (hnth tbl i)) l)
  end.

Definition op_ids (o : op) : list uuid :=
  match o with
  | Add hs | Update hs | UpdateNoLocks hs => map LogicalID hs
  | Remove ids => ids
  | Get _ => []
  end.

Definition err_code (e : option err) : N :=
  match e with None => 0 | Some EMaxSeg => 1 | Some EBusy => 2 | Some ENotFound => 3 | Some EDifferent => 4 end.

Fixpoint handles_eqb (a b : list handle) : bool :=
  match a, b with
  | [], [] => true
  | x :: a', y :: b' => handle_eqb x y && handles_eqb a' b'
  | _, _ => false
  end.

Definition res_matches (tbl : list handle) (m : res) (x : xres) : bool :=
  match m, x with
  | RDone e, XDone c => N.eqb (err_code e) c
  | RGot hs, XGot l => handles_eqb hs (map (hnth tbl) l)
  | _, _ => false
  end.

Definition dump_block (t : table) (i b : nat) : list (nat * nat * nat * cell) :=
  flat_map (fun j => let c := get_cell t (i, b, j) in if is_zero c then [] else [(i, b, j, c)]) (seq 0 nslots).

Definition dump_table (t : table) (bl : list nat) : list (nat * nat * nat * cell) :=
  flat_map (fun i => flat_map (fun b => dump_block t i b) bl) (seq 0 (length t)).

(* the observed disk content, rebuilt from the deltas: non-empty slots sorted by position *)
Definition pos_ltb (p q : pos) : bool :=
  let '(a, b, c) := p in let '(a', b', c') := q in
  Nat.ltb a a' || (Nat.eqb a a' && (Nat.ltb b b' || (Nat.eqb b b' && Nat.ltb c c'))).

Fixpoint obs_put (p : pos) (k : N) (l : list (pos * N)) : list (pos * N) :=
  match l with
  | [] => if N.eqb k 0 then [] else [(p, k)]
  | (q, v) :: r =>
      if pos_eqb p q then (if N.eqb k 0 then r else (p, k) :: r)
      else if pos_ltb p q then (if N.eqb k 0 then l else (p, k) :: l)
      else (q, v) :: obs_put p k r
  end.

Fixpoint obs_apply (d : list N) (l : list (pos * N)) : list (pos * N) :=
  match d with
  | i :: b :: j :: k :: d' => obs_apply d' (obs_put (N.to_nat i, N.to_nat b, N.to_nat j) k l)
  | _ => l
  end.

Fixpoint dump_matches (tbl : list handle) (m : list (nat * nat * nat * cell)) (x : list (pos * N)) : bool :=
  match m, x with
  | [], [] => true
  | (i, b, j, c) :: m', (q, k) :: x' =>
      pos_eqb (i, b, j) q && negb (N.eqb k 0) && handle_eqb c (hnth tbl (k - 1)) && dump_matches tbl m' x'
  | _, _ => false
  end.

Fixpoint steps_check (hm : Z) (tbl : list handle) (bl : list nat) (t : table) (obs : list (pos * N)) (steps : list xstep) : bool :=
  match steps with
  | [] => true
  | XStep xo xr hz nseg d :: rest =>
      let o := to_op tbl xo in
      let pre_hz := existsb (hazard hm t) (op_ids o) in
      let '(t', r) := step hm t o in
      let obs' := obs_apply d obs in
      Bool.eqb pre_hz hz && res_matches tbl r xr && Nat.eqb (length t') (N.to_nat nseg) &&
      dump_matches tbl (dump_table t' bl) obs' && steps_check hm tbl bl t' obs' rest
  end.

Definition c21_check (c : c21case) : bool :=
  match c with
  | C21Case hm tbl bl steps => Z.ltb 0 hm && steps_check hm (tbl_decode tbl) (map N.to_nat bl) [] [] steps
  end.

(* Correspondence cases for C19: the harness runs whole histories (several
   transactions on one store on the real filesystem backend) and records, per
   operation, the result and the value-blob / value-cache calls the tracker made;
   per transaction, the tracker's state before commit, the calls of
   commit/rollback, and (optionally) what a FRESH process reads afterwards.
   c19_check runs the model on the same history and compares everything. *)
From Coq Require Import List ZArith NArith Bool.
From SopVerif Require Import Tracker.
Import ListNotations.
Local Open Scope N_scope.

(* tracker entry as dumped: uuid, action code (1 get 2 add 3 update 4 remove), item id, has value, needs fetch, version, version in db *)
Definition dentry := (N * N * N * bool * bool * Z * Z)%type.

Record c19txn := mkTx {
  tops : list (op * res * list bcall);
  tcommit : bool;
  tdump : list dentry;
  tfordel : list N;
  tcalls : list bcall;                       (* commit / rollback time *)
  tview : option (list (Z * option N))       (* fresh-process read after the transaction *)
}.
Inductive c19case :=
| mkCase (o : opts) (txns : list c19txn)
| SlotNorm (requested effective : Z).   (* sop.NewStoreInfo(SlotLength: requested).SlotLength = effective *)

Definition act_code (a : action) : N := match a with AGet => 1 | AAdd => 2 | AUpdate => 3 | ARemove => 4 end.

Definition res_eqb (a b : res) : bool :=
  match a, b with
  | RBool x, RBool y => Bool.eqb x y
  | RVal f v, RVal g u => Bool.eqb f g && N.eqb v u
  | RErr, RErr => true
  | _, _ => false
  end.

(* atomic calls as numbers so that lists can be compared up to order *)
Definition enc (k i v : N) : N := (k * 4294967296 + i) * 4294967296 + v.
Definition atoms (c : bcall) : list N :=
  match c with
  | BAdd l => map (fun p => enc 1 (fst p) (snd p)) l
  | BGet i => [enc 2 i 0]
  | BRemove l => map (fun i => enc 3 i 0) l
  | CGet i => [enc 4 i 0]
  | CSet i v => [enc 5 i v]
  | CDel i => [enc 6 i 0]
  end.
Fixpoint ins (x : N) (l : list N) : list N :=
  match l with [] => [x] | y :: r => if N.leb x y then x :: y :: r else y :: ins x r end.
Definition nsort (l : list N) : list N := fold_right ins [] l.
Fixpoint nlist_eqb (a b : list N) : bool :=
  match a, b with
  | [], [] => true
  | x :: r, y :: s => N.eqb x y && nlist_eqb r s
  | _, _ => false
  end.
Definition calls_eq_ordered (a b : list bcall) := nlist_eqb (flat_map atoms a) (flat_map atoms b).
Definition calls_eq_unordered (a b : list bcall) := nlist_eqb (nsort (flat_map atoms a)) (nsort (flat_map atoms b)).

Definition clear (s : session) : session :=
  let '(sl, t, w) := s in (sl, t, mkW (blobs w) (vcache w) (nextid w) []).
Definition strace (s : session) : list bcall := trace (snd s).

Fixpoint run_ops (o : opts) (s : session) (l : list (op * res * list bcall)) : session * bool :=
  match l with
  | [] => (s, true)
  | (p, r, cs) :: rest =>
      let '(s1, r1) := step o (clear s) p in
      let ok := res_eqb r r1 && calls_eq_ordered cs (strace s1) in
      let '(s2, ok2) := run_ops o s1 rest in (s2, ok && ok2)
  end.

Definition dentry_of (p : id * citem) : dentry :=
  let c := snd p in
  match cact c with
  | AGet => (fst p, 1, 0, false, false, 0%Z, 0%Z)   (* a get entry aliases the node slot: only its presence is compared *)
  | a => (fst p, act_code a, iid (cit c), is_some (ival (cit c)), ivnf (cit c), iver (cit c), cverdb c)
  end.
Definition dentry_key (d : dentry) : N := let '(u, _, _, _, _, _, _) := d in u.
Definition dentry_eqb (a b : dentry) : bool :=
  let '(u, ac, i, h, n, v, vd) := a in let '(u', ac', i', h', n', v', vd') := b in
  N.eqb u u' && N.eqb ac ac' && N.eqb i i' && Bool.eqb h h' && Bool.eqb n n' && Z.eqb v v' && Z.eqb vd vd'.
Fixpoint dins (x : dentry) (l : list dentry) : list dentry :=
  match l with [] => [x] | y :: r => if N.leb (dentry_key x) (dentry_key y) then x :: y :: r else y :: dins x r end.
Fixpoint dlist_eqb (a b : list dentry) : bool :=
  match a, b with
  | [], [] => true
  | x :: r, y :: s => dentry_eqb x y && dlist_eqb r s
  | _, _ => false
  end.
Definition dump_eq (t : tracker) (d : list dentry) (fd : list N) : bool :=
  dlist_eqb (fold_right dins [] (map dentry_of (items t))) (fold_right dins [] d) && nlist_eqb (forDel t) fd.

(* the fresh dump stops at the first unreadable value *)
Fixpoint cut (l : list (Z * option N)) : list (Z * option N) :=
  match l with
  | [] => []
  | (k, Some v) :: r => (k, Some v) :: cut r
  | (k, None) :: _ => [(k, None)]
  end.
Definition ov_eqb (a b : option N) : bool :=
  match a, b with Some x, Some y => N.eqb x y | None, None => true | _, _ => false end.
Fixpoint view_eqb (a b : list (Z * option N)) : bool :=
  match a, b with
  | [], [] => true
  | (k, v) :: r, (k', v') :: s => Z.eqb k k' && ov_eqb v v' && view_eqb r s
  | _, _ => false
  end.

Fixpoint run_txns (o : opts) (d : dstate) (l : list c19txn) : bool :=
  match l with
  | [] => true
  | x :: rest =>
      let '(s, ok1) := run_ops o (begin d) (tops x) in
      let ok2 := dump_eq (snd (fst s)) (tdump x) (tfordel x) in
      let d1 := if tcommit x then commit o (fst d) (clear s) else rollback o (fst d) (clear s) in
      let ok3 := calls_eq_unordered (tcalls x) (trace (snd d1)) in
      let ok4 := match tview x with None => true | Some v => view_eqb (cut (view d1)) v end in
      ok1 && ok2 && ok3 && ok4 && run_txns o d1 rest
  end.

Definition c19_check (c : c19case) : bool :=
  match c with
  | mkCase o txns => run_txns o d0 txns
  | SlotNorm r e => Z.eqb (slot_norm r) e
  end.

(* the driver's cases files call [mismatches] *)
Fixpoint mismatches_from {A} (f : A -> bool) (l : list A) (i : nat) : list nat :=
  match l with [] => [] | x :: r => if f x then mismatches_from f r (S i) else i :: mismatches_from f r (S i) end.

(* Proofs about the map-key comparers (MapKey.v): on uniformly typed keys the cached
   per-field comparers are history-free and the order is a total preorder. *)
From Coq Require Import List ZArith NArith Bool Lia.
From SopVerif Require Import FloatCmp Compare CompareLib CompareProofs MapKey.
Import ListNotations.
Local Open Scope Z_scope.

(* lexicographic composition of two comparisons *)
Lemma lex_step_laws : forall {A} (P : A -> Prop) (c1 c2 : A -> A -> Z),
  cmp_laws P c1 -> cmp_laws P c2 ->
  cmp_laws P (fun x y => if c1 x y =? 0 then c2 x y else c1 x y).
Proof.
  intros A P c1 c2 L1 L2. constructor.
  - intros a b Ha Hb. destruct (Z.eqb_spec (c1 a b) 0); [apply (cl_range _ _ L2)|apply (cl_range _ _ L1)]; assumption.
  - intros a Ha. rewrite (cl_refl _ _ L1 a Ha). simpl. apply (cl_refl _ _ L2 a Ha).
  - intros a b Ha Hb. pose proof (cl_antisym _ _ L1 a b Ha Hb) as H1.
    destruct (Z.eqb_spec (c1 a b) 0); destruct (Z.eqb_spec (c1 b a) 0); try lia.
    apply (cl_antisym _ _ L2); assumption.
  - intros a b d Ha Hb Hd.
    destruct (Z.eqb_spec (c1 a b) 0) as [E1|E1].
    + rewrite (cl_eq_l _ _ L1 a b d Ha Hb Hd E1).
      destruct (Z.eqb_spec (c1 b d) 0) as [E2|E2]; [|lia].
      apply (cl_trans _ _ L2); assumption.
    + destruct (Z.eqb_spec (c1 b d) 0) as [E2|E2].
      * intros H1 _. rewrite <- (cl_eq_r _ _ L1 a b d Ha Hb Hd E2).
        destruct (Z.eqb_spec (c1 a b) 0); lia.
      * intros H1 H2. pose proof (cl_lt_trans _ _ L1 a b d Ha Hb Hd ltac:(lia) H2) as H3.
        destruct (Z.eqb_spec (c1 a d) 0); lia.
Qed.

Section Typed.
  Variable fmtv : key -> list N.
  Variable ft : list N -> kty.            (* the one key type of every field *)

  (* the history-independent order: field by field, Compare on the field values *)
  Fixpoint lex_ref (fields : list (list N * bool)) (x y : jmap) : Z :=
    match fields with
    | [] => 0
    | (n, asc) :: r =>
        let c := compare fmtv (lookup n x) (lookup n y) in
        if c =? 0 then lex_ref r x y else if asc then c else - c
    end.

  Definition name_asc (f : fstate) : list N * bool := (f_name f, f_asc f).

  (* a cached comparer, if any, is the one of the field's type *)
  Definition st_ok (fl : list fstate) : Prop :=
    Forall (fun f => f_ck f = None \/ f_ck f = Some (ck_of_ty (ft (f_name f)))) fl.

  Lemma fields_cmp_typed : forall fl x y, st_ok fl -> typed ft x ->
    fst (fields_cmp fmtv fl x y) = lex_ref (map name_asc fl) x y /\
    st_ok (snd (fields_cmp fmtv fl x y)) /\
    map name_asc (snd (fields_cmp fmtv fl x y)) = map name_asc fl.
  Proof.
    induction fl as [|f fl IH]; intros x y Hok Hx; simpl.
    - repeat split. constructor.
    - inversion Hok as [|f' fl' Hf Hfl]; subst.
      assert (Hck : match f_ck f with Some c => c | None => coerce (lookup (f_name f) x) end
                    = ck_of_ty (ft (f_name f))).
      { destruct Hf as [Hf|Hf]; rewrite Hf; [apply coerce_of_ty; apply Hx|reflexivity]. }
      rewrite Hck. rewrite (apply_ck_typed fmtv (ft (f_name f)) _ _ (Hx (f_name f))).
      destruct (IH x y Hfl Hx) as [I1 [I2 I3]].
      destruct (Z.eqb_spec (compare fmtv (lookup (f_name f) x) (lookup (f_name f) y)) 0) as [E|E].
      + destruct (fields_cmp fmtv fl x y) as [r' fl'] eqn:Efc. simpl in *. repeat split.
        * exact I1.
        * constructor; [right; reflexivity|exact I2].
        * unfold name_asc at 1. simpl. f_equal. exact I3.
      + simpl. repeat split. constructor; [right; reflexivity|exact Hfl].
  Qed.

  Lemma lex_ref_laws : forall fields, cmp_laws (typed ft) (lex_ref fields).
  Proof.
    induction fields as [|[n asc] r IH].
    - constructor; simpl; unfold sgn3; intros; lia.
    - set (cf := fun x y : jmap => compare fmtv (lookup n x) (lookup n y)).
      assert (Lf : cmp_laws (typed ft) cf).
      { apply (laws_via _ (fun k => has_ty k (ft n) = true) (lookup n) cf (compare fmtv)).
        - intros a Ha. apply Ha.
        - reflexivity.
        - apply typed_laws. }
      set (c1 := fun x y : jmap => if asc then cf x y else - cf x y).
      assert (L1 : cmp_laws (typed ft) c1).
      { unfold c1. destruct asc; [exact Lf|apply laws_neg; exact Lf]. }
      pose proof (lex_step_laws _ c1 (lex_ref r) L1 IH) as L.
      eapply (laws_via _ (typed ft) (fun a => a)); [auto| |exact L].
      intros a b _ _. simpl. unfold c1, cf. destruct asc.
      + reflexivity.
      + destruct (Z.eqb_spec (compare fmtv (lookup n a) (lookup n b)) 0);
        destruct (Z.eqb_spec (- compare fmtv (lookup n a) (lookup n b)) 0); try lia; reflexivity.
  Qed.

  (* ---- IndexSpecification.Comparer *)
  Lemma spec_init_ok : forall fields, st_ok (spec_init fields) /\ map name_asc (spec_init fields) = fields.
  Proof.
    induction fields as [|[n a] r [I1 I2]]; simpl; split; try constructor; auto.
    - unfold name_asc at 1. simpl. f_equal. exact I2.
  Qed.

  Lemma run_spec_ok : forall h fl, st_ok fl -> (forall p, In p h -> typed ft (fst p)) ->
    st_ok (run_spec fmtv fl h) /\ map name_asc (run_spec fmtv fl h) = map name_asc fl.
  Proof.
    induction h as [|p h IH]; intros fl Hok Hh; simpl; [split; auto|].
    destruct (fields_cmp_typed fl (fst p) (snd p) Hok (Hh p (or_introl eq_refl))) as [_ [H2 H3]].
    destruct (IH _ H2 (fun q Hq => Hh q (or_intror Hq))) as [J1 J2].
    split; [exact J1|]. unfold spec_cmp in *. rewrite J2. exact H3.
  Qed.

  Theorem spec_typed : forall fields h x y, (forall p, In p h -> typed ft (fst p)) -> typed ft x ->
    fst (spec_cmp fmtv (run_spec fmtv (spec_init fields) h) x y) = lex_ref fields x y.
  Proof.
    intros fields h x y Hh Hx.
    destruct (spec_init_ok fields) as [I1 I2].
    destruct (run_spec_ok h _ I1 Hh) as [J1 J2].
    unfold spec_cmp. rewrite (proj1 (fields_cmp_typed _ x y J1 Hx)), J2, I2. reflexivity.
  Qed.

  (* ---- defaultComparer, all keys with one field set F *)
  Definition def_ok (F : list (list N)) (st : def_state) : Prop :=
    match st with
    | None => True
    | Some fl => st_ok fl /\ map name_asc fl = map (fun f => (f, true)) F
    end.

  Lemma def_init_ok : forall F, st_ok (map (fun f => mkF f true None) F) /\
    map name_asc (map (fun f => mkF f true None) F) = map (fun f => (f, true)) F.
  Proof. induction F as [|f F [I1 I2]]; simpl; split; try constructor; auto. f_equal. exact I2. Qed.

  Lemma def_cmp_typed : forall F st x y, def_ok F st -> typed ft x -> sorted_fields x = F ->
    fst (def_cmp fmtv st x y) = lex_ref (map (fun f => (f, true)) F) x y /\ def_ok F (snd (def_cmp fmtv st x y)).
  Proof.
    intros F st x y Hst Hx HF. unfold def_cmp.
    set (fl := match st with Some fl => fl | None => map (fun f => mkF f true None) (sorted_fields x) end).
    assert (Hfl : st_ok fl /\ map name_asc fl = map (fun f => (f, true)) F).
    { unfold fl. destruct st as [fl0|]; [exact Hst|]. rewrite HF. apply def_init_ok. }
    destruct Hfl as [H1 H2].
    destruct (fields_cmp_typed fl x y H1 Hx) as [K1 [K2 K3]].
    destruct (fields_cmp fmtv fl x y) as [r fl'] eqn:E. simpl in *.
    split; [rewrite K1, H2; reflexivity|]. split; [exact K2|]. rewrite K3. exact H2.
  Qed.

  Lemma run_def_ok : forall F h st, def_ok F st ->
    (forall p, In p h -> typed ft (fst p) /\ sorted_fields (fst p) = F) -> def_ok F (run_def fmtv st h).
  Proof.
    induction h as [|p h IH]; intros st Hst Hh; simpl; [exact Hst|].
    destruct (Hh p (or_introl eq_refl)) as [Hp1 Hp2].
    apply IH; [|intros q Hq; apply Hh; right; exact Hq].
    apply (def_cmp_typed F st (fst p) (snd p) Hst Hp1 Hp2).
  Qed.

  Theorem def_typed : forall F h x y,
    (forall p, In p h -> typed ft (fst p) /\ sorted_fields (fst p) = F) ->
    typed ft x -> sorted_fields x = F ->
    fst (def_cmp fmtv (run_def fmtv None h) x y) = lex_ref (map (fun f => (f, true)) F) x y.
  Proof.
    intros F h x y Hh Hx HF.
    apply (def_cmp_typed F _ x y (run_def_ok F h None I Hh) Hx HF).
  Qed.
End Typed.

(* C13 — the generic patch theorem instantiated on the generated StoreInfo member list, then
   StoreRepository.Update (fast path / fallback) and any history of commits. *)
From Coq Require Import List ZArith NArith Bool Lia.
From SopVerif Require Import Lib.Bytes StoreInfoPatchLib Gen.StoreInfoFields StoreInfoPatch StoreInfoPatchProofs.
Import ListNotations.
Local Open Scope Z_scope.

(* position of the two patched members in the generated list *)
Definition n_pre : nat := 7.
Definition pre_count (s : storeinfo) : list member := firstn n_pre (storeinfo_members s).
Definition post_ts (s : storeinfo) : list member := skipn (S (S n_pre)) (storeinfo_members s).

Lemma members_shape : forall s,
  storeinfo_members s =
  pre_count s ++ int_member fieldCount (si_count_field s) :: int_member fieldTimestamp (si_timestamp_field s) :: post_ts s.
Proof. reflexivity. Qed.

Lemma members_set : forall s c t,
  storeinfo_members (set_count_timestamp s c t) =
  pre_count s ++ int_member fieldCount c :: int_member fieldTimestamp t :: post_ts s.
Proof. reflexivity. Qed.

Lemma pre_count_simple : forall s, forallb (simple_member fieldCount) (pre_count s) = true.
Proof. reflexivity. Qed.

Lemma pre_ts_simple : forall s c,
  forallb (simple_member fieldTimestamp) (pre_count s ++ [int_member fieldCount c]) = true.
Proof. reflexivity. Qed.

Lemma ser_set : forall s c t,
  ser (set_count_timestamp s c t) =
  ser_object (pre_count s ++ int_member fieldCount c :: int_member fieldTimestamp t :: post_ts s).
Proof. intros. unfold ser. rewrite members_set. reflexivity. Qed.

Lemma ser_self : forall s, ser s = ser (set_count_timestamp s (si_count_field s) (si_timestamp_field s)).
Proof. reflexivity. Qed.

(* patching count / timestamp of a marshalled StoreInfo = marshalling the record with the new number *)
Theorem patch_count_remarshal : forall s c t v,
  patch_num (ser (set_count_timestamp s c t)) fieldCount v = Some (ser (set_count_timestamp s v t)).
Proof.
  intros. rewrite !ser_set.
  apply (patch_member_generic fieldCount (pre_count s)); [reflexivity|apply pre_count_simple].
Qed.

Theorem patch_timestamp_remarshal : forall s c t v,
  patch_num (ser (set_count_timestamp s c t)) fieldTimestamp v = Some (ser (set_count_timestamp s c v)).
Proof.
  intros. rewrite !ser_set.
  change (pre_count s ++ int_member fieldCount c :: int_member fieldTimestamp t :: post_ts s)
    with (pre_count s ++ [int_member fieldCount c] ++ int_member fieldTimestamp t :: post_ts s).
  change (pre_count s ++ int_member fieldCount c :: int_member fieldTimestamp v :: post_ts s)
    with (pre_count s ++ [int_member fieldCount c] ++ int_member fieldTimestamp v :: post_ts s).
  rewrite !app_assoc.
  apply (patch_member_generic fieldTimestamp); [reflexivity|apply pre_ts_simple].
Qed.

(* the serialisation only depends on the configuration members and the two numbers *)
Definition config_members (s : storeinfo) : list member := storeinfo_members (set_count_timestamp s 0 0).
Definition same_members_config (a b : storeinfo) : Prop := config_members a = config_members b.

Lemma pre_count_length : forall s, length (pre_count s) = n_pre.
Proof. reflexivity. Qed.

Lemma app_inv_len : forall (A : Type) (a b c d : list A), length a = length c -> a ++ b = c ++ d -> a = c /\ b = d.
Proof.
  induction a as [|x a IH]; intros b [|y c] d Hl H; cbn in *; try discriminate; [auto|].
  injection H as -> H. destruct (IH b c d) as [-> ->]; [lia|exact H|auto].
Qed.

Lemma same_config_ser : forall a b c t, same_members_config a b ->
  ser (set_count_timestamp a c t) = ser (set_count_timestamp b c t).
Proof.
  intros a b c t H. unfold same_members_config, config_members in H. rewrite !members_set in H.
  apply app_inv_len in H; [|rewrite !pre_count_length; reflexivity].
  destruct H as [Hp Hq]. apply (f_equal (@skipn member 2)) in Hq. change (post_ts a = post_ts b) in Hq.
  rewrite !ser_set, Hp, Hq. reflexivity.
Qed.

Lemma caller_of_config : forall cfg c, same_members_config (caller_of cfg c) cfg.
Proof. reflexivity. Qed.

(* one Update on an intact file: whatever path is taken, the new file is the marshalling of the
   stored configuration with the new count and the caller's timestamp *)
Theorem update_fast_path : forall s c t cur caller,
  si_Name cur <> [] -> si_NeedsMetaDataSave caller = false ->
  update_bytes (ser (set_count_timestamp s c t)) cur caller =
  ser (set_count_timestamp s (si_count_field cur + si_CountDelta caller) (si_timestamp_field caller)).
Proof.
  intros s c t cur caller Hn Hs. unfold update_bytes, update_with.
  destruct (si_Name cur) eqn:E; [congruence|]. rewrite Hs. cbn [is_nil negb andb].
  rewrite patch_count_remarshal, patch_timestamp_remarshal. reflexivity.
Qed.

Theorem update_any_path : forall s c t cur caller,
  same_members_config caller s ->
  update_bytes (ser (set_count_timestamp s c t)) cur caller =
  ser (set_count_timestamp s (si_count_field cur + si_CountDelta caller) (si_timestamp_field caller)).
Proof.
  intros s c t cur caller Hc. unfold update_bytes, update_with.
  rewrite patch_count_remarshal, patch_timestamp_remarshal.
  rewrite (same_config_ser _ _ _ _ Hc).
  destruct (negb (is_nil (si_Name cur)) && negb (si_NeedsMetaDataSave caller)); reflexivity.
Qed.

(* any history of commits *)
Lemma run_commits_from : forall cfg cs n t,
  fold_left (fun '(file, count) c =>
               let cur := set_count_timestamp cfg count 0 in
               (update_bytes file cur (caller_of cfg c), count + c_delta c))
            cs (ser (set_count_timestamp cfg n t), n) =
  (ser (set_count_timestamp cfg (fold_left (fun a c => a + c_delta c) cs n) (last_ts t cs)),
   fold_left (fun a c => a + c_delta c) cs n).
Proof.
  intros cfg cs. induction cs as [|c cs IH]; intros n t.
  - reflexivity.
  - cbn [fold_left]. rewrite (update_any_path cfg n t _ _ (caller_of_config cfg c)).
    cbn [si_count_field si_timestamp_field]. change (si_Count (set_count_timestamp cfg n 0)) with n.
    change (si_CountDelta (caller_of cfg c)) with (c_delta c).
    change (si_Timestamp (caller_of cfg c)) with (c_ts c).
    rewrite IH. unfold last_ts. reflexivity.
Qed.

Lemma sum_shift : forall cs n, fold_left (fun a c => a + c_delta c) cs n = n + sum_deltas cs.
Proof.
  unfold sum_deltas. induction cs as [|c cs IH]; intro n; cbn [fold_left]; [lia|].
  rewrite IH, (IH (0 + c_delta c)). lia.
Qed.

Theorem run_commits_bytes : forall cfg cs,
  run_commits update_bytes cfg cs =
  (ser (set_count_timestamp cfg (si_count_field cfg + sum_deltas cs) (last_ts (si_timestamp_field cfg) cs)),
   si_count_field cfg + sum_deltas cs).
Proof.
  intros. unfold run_commits. rewrite (ser_self cfg) at 1.
  rewrite run_commits_from, sum_shift. reflexivity.
Qed.

(* Lemmas about the maintenance model (property C09). *)
From Coq Require Import List ZArith NArith Bool Lia.
From SopVerif Require Import Gen.Consts Gen.MaintConsts Maintenance.
Import ListNotations.
Local Open Scope Z_scope.

(* The facts of the Go sources this model is transcribed from, re-read by the translator on
   every run (tools/gen/maintenance.go).  If one of them changes this file stops compiling. *)
Example source_facts :
  onIdle_guard_on_empty_store_list = true /\
  onIdle_callers = [[66;101;103;105;110]%N] (* "Begin" *) /\
  begin_calls_onIdle = true /\
  btreesBackend_writers = [[110;101;119;66;116;114;101;101]%N] (* "newBtree" *) /\
  length onIdle_routines = 4%nat /\
  countDelta_serialised = false /\
  rollbackNewRootNodes_state_guard = true /\
  (tlogAgeLimitMin, priorityLogMinAgeInMin, handleInactiveExpiryHours) = (70, 5, 1) /\
  (createStore, commitTrackedItemsValues, commitNewRootNodes, commitUpdatedNodes, commitRemovedNodes, commitAddedNodes,
   commitStoreInfo, finalizeCommit, deleteObsoleteEntries, deleteTrackedItemsValues, addActivelyPersistedItem)
  = (1, 3, 4, 6, 7, 8, 9, 11, 12, 13, 99).
Proof. repeat split; reflexivity. Qed.

(* ---------------------------------------------------------------- the public path *)

Lemma begin_txn_id : forall now st, begin_txn now st = st.
Proof. reflexivity. Qed.

(* a body only touches its own log files and leaves foreign ones alone *)
Definition keeps_tlog (tid : N) (body : disk -> disk) : Prop :=
  forall d, has_tlog d tid = true -> has_tlog (body d) tid = true.
Definition keeps_plog (tid : N) (body : disk -> disk) : Prop :=
  forall d, has_plog d tid = true -> has_plog (body d) tid = true.

Lemma public_seq_keeps_tlog : forall bodies tid d m,
  Forall (fun nb => keeps_tlog tid (snd nb)) bodies ->
  has_tlog d tid = true -> has_tlog (fst (public_seq bodies (d, m))) tid = true.
Proof.
  induction bodies as [|[now body] r IH]; intros tid d m HF H; cbn [public_seq].
  - exact H.
  - inversion HF as [|x l Hb Hr]; subst. rewrite begin_txn_id. apply IH; [exact Hr|]. apply Hb. exact H.
Qed.

Lemma public_seq_keeps_plog : forall bodies tid d m,
  Forall (fun nb => keeps_plog tid (snd nb)) bodies ->
  has_plog d tid = true -> has_plog (fst (public_seq bodies (d, m))) tid = true.
Proof.
  induction bodies as [|[now body] r IH]; intros tid d m HF H; cbn [public_seq].
  - exact H.
  - inversion HF as [|x l Hb Hr]; subst. rewrite begin_txn_id. apply IH; [exact Hr|]. apply Hb. exact H.
Qed.

Lemma public_seq_maint : forall bodies d m, snd (public_seq bodies (d, m)) = m.
Proof.
  induction bodies as [|[now body] r IH]; intros d m; cbn [public_seq]; [reflexivity|].
  rewrite begin_txn_id. apply IH.
Qed.

(* ---------------------------------------------------------------- log-driven rollback always removes the log *)

Lemma has_tlog_remove : forall d tid, has_tlog (tlog_remove d tid) tid = false.
Proof.
  intros d tid. unfold has_tlog, tlog_remove, set_tlogs; cbn [d_tlogs].
  induction (d_tlogs d) as [|t r IH]; cbn [filter existsb]; [reflexivity|].
  destruct (N.eqb (tl_tid t) tid) eqn:E; cbn [negb]; [exact IH|].
  cbn [existsb]. rewrite E. exact IH.
Qed.

Lemma has_tlog_remove_other : forall d tid u, u <> tid -> has_tlog (tlog_remove d tid) u = has_tlog d u.
Proof.
  intros d tid u Hne. unfold has_tlog, tlog_remove, set_tlogs; cbn [d_tlogs].
  induction (d_tlogs d) as [|t r IH]; cbn [filter existsb]; [reflexivity|].
  destruct (N.eqb (tl_tid t) tid) eqn:E; cbn [negb].
  - rewrite IH. apply N.eqb_eq in E. destruct (N.eqb (tl_tid t) u) eqn:E2; [apply N.eqb_eq in E2; congruence|reflexivity].
  - cbn [existsb]. rewrite IH. reflexivity.
Qed.

(* operations that do not touch the tlog table *)
Definition same_tlogs (d1 d2 : disk) : Prop := d_tlogs d1 = d_tlogs d2.

Lemma reg_put_tlogs : forall d hs, d_tlogs (reg_put d hs) = d_tlogs d. Proof. reflexivity. Qed.
Lemma reg_remove_tlogs : forall d rs, d_tlogs (reg_remove d rs) = d_tlogs d. Proof. reflexivity. Qed.
Lemma blob_remove_tlogs : forall d rs, d_tlogs (blob_remove d rs) = d_tlogs d. Proof. reflexivity. Qed.
Lemma sr_remove_tlogs : forall d s, d_tlogs (sr_remove d s) = d_tlogs d. Proof. reflexivity. Qed.
Lemma sr_update_tlogs : forall d ds, d_tlogs (sr_update d ds) = d_tlogs d. Proof. reflexivity. Qed.
Lemma undo_removed_tlogs : forall d v, d_tlogs (undo_removed d v) = d_tlogs d. Proof. reflexivity. Qed.
Lemma undo_new_root_tlogs : forall cs d v b, d_tlogs (undo_new_root cs d v b) = d_tlogs d.
Proof. intros cs d v b. unfold undo_new_root. destruct v; [reflexivity|]. destruct (cs <=? commitNewRootNodes); reflexivity. Qed.
Lemma plog_remove_tlogs : forall d t, d_tlogs (plog_remove d t) = d_tlogs d. Proof. reflexivity. Qed.

Lemma has_tlog_ext : forall d1 d2 tid, d_tlogs d1 = d_tlogs d2 -> has_tlog d1 tid = has_tlog d2 tid.
Proof. intros d1 d2 tid H. unfold has_tlog. rewrite H. reflexivity. Qed.

(* one step either stops having removed the log, or leaves the tlog table alone *)
Lemma rb_step_cases : forall cs tid last e d,
  (snd (rb_step cs tid last e d) = true /\ exists d', fst (rb_step cs tid last e d) = tlog_remove d' tid /\ d_tlogs d' = d_tlogs d)
  \/ (snd (rb_step cs tid last e d) = false /\ d_tlogs (fst (rb_step cs tid last e d)) = d_tlogs d).
Proof.
  intros cs tid last e d. unfold rb_step.
  repeat match goal with
  | |- context [if ?c then _ else _] => destruct c eqn:?
  | |- context [match ?l with [] => _ | _ :: _ => _ end] => destruct l eqn:?
  end; cbn [fst snd];
  try (right; split; [reflexivity|]; try reflexivity; try apply undo_new_root_tlogs; fail);
  try (left; split; [reflexivity|]; eexists; split; [reflexivity|]; reflexivity).
Qed.

Lemma rb_walk_removes : forall cs tid last es d,
  has_tlog (rb_walk cs tid last es d) tid = false /\
  (forall u, u <> tid -> has_tlog (rb_walk cs tid last es d) u = has_tlog d u).
Proof.
  intros cs tid last es. induction es as [|e r IH]; intros d; cbn [rb_walk].
  - split; [apply has_tlog_remove|]. intros u Hu. apply has_tlog_remove_other. exact Hu.
  - destruct (rb_step cs tid last e d) as [d1 stop] eqn:E.
    destruct (rb_step_cases cs tid last e d) as [[Hs [d' [Hd Ht]]]|[Hs Ht]]; rewrite E in *; cbn [fst snd] in *; subst.
    + split; [apply has_tlog_remove|]. intros u Hu. rewrite has_tlog_remove_other by exact Hu. apply has_tlog_ext. exact Ht.
    + destruct (IH d1) as [A B]. split; [exact A|]. intros u Hu. rewrite B by exact Hu. apply has_tlog_ext. exact Ht.
Qed.

Lemma tlog_rollback_removes : forall cs d t,
  has_tlog (tlog_rollback cs d t) (tl_tid t) = false /\
  (forall u, u <> tl_tid t -> has_tlog (tlog_rollback cs d t) u = has_tlog d u).
Proof.
  intros cs d t. unfold tlog_rollback. destruct (rev (tl_entries t)) as [|e r] eqn:E.
  - split; [apply has_tlog_remove|]. intros u Hu. apply has_tlog_remove_other. exact Hu.
  - apply rb_walk_removes.
Qed.

(* ---------------------------------------------------------------- get_one picks an eligible log of the table *)

Lemma oldest_tlog_in : forall l t, oldest_tlog l = Some t -> In t l.
Proof.
  induction l as [|x r IH]; intros t H; cbn [oldest_tlog] in H; [discriminate|].
  destruct (oldest_tlog r) as [u|] eqn:E.
  - destruct (tl_mtime u <? tl_mtime x); inversion H; subst; [right; apply IH; reflexivity|left; reflexivity].
  - inversion H; subst. left; reflexivity.
Qed.

Lemma oldest_tlog_some : forall l, l <> [] -> exists t, oldest_tlog l = Some t.
Proof.
  destruct l as [|x r]; intros H; [congruence|]. cbn [oldest_tlog].
  destruct (oldest_tlog r) as [u|]; [destruct (tl_mtime u <? tl_mtime x)|]; eexists; reflexivity.
Qed.

Lemma get_one_spec : forall now d t, get_one now d = Some t -> In t (d_tlogs d) /\ tlog_eligible now (tl_mtime t) = true.
Proof.
  intros now d t H. unfold get_one in H. apply oldest_tlog_in in H. apply filter_In in H. exact H.
Qed.

Lemma get_one_some : forall now d t, In t (d_tlogs d) -> tlog_eligible now (tl_mtime t) = true -> exists u, get_one now d = Some u.
Proof.
  intros now d t Hin He. unfold get_one. apply oldest_tlog_some.
  intro Hn. assert (In t (filter (fun t0 => tlog_eligible now (tl_mtime t0)) (d_tlogs d))) as X by (apply filter_In; split; assumption).
  rewrite Hn in X. exact X.
Qed.

(* ---------------------------------------------------------------- age filters in closed form *)

Lemma hour_floor_le : forall a b, hour_floor a <= hour_floor b - 70 * 60000 <-> hour_of a + 2 <= hour_of b.
Proof. intros a b. unfold hour_floor, hourMs. lia. Qed.

Lemma tlog_eligible_iff : forall now mtime, tlog_eligible now mtime = true <-> hour_of mtime + 2 <= hour_of now.
Proof.
  intros. unfold tlog_eligible, minMs. change tlogAgeLimitMin with 70. rewrite Z.leb_le. apply hour_floor_le.
Qed.

Lemma plog_eligible_iff : forall now mtime, plog_eligible now mtime = true <-> hour_of mtime + 1 <= hour_of now.
Proof.
  intros. unfold plog_eligible, minMs. change priorityLogMinAgeInMin with 5. rewrite Z.leb_le. unfold hour_floor, hourMs. lia.
Qed.

(* sufficient ages: 3 h for a transaction log, 1 h for a priority log; NOT sufficient: 1 h 59 min / 59 min *)
Lemma tlog_age_sufficient : forall now mtime, mtime + 3 * hourMs <= now -> tlog_eligible now mtime = true.
Proof.
  intros now mtime H. apply tlog_eligible_iff. unfold hour_of, hourMs in *.
  pose proof (Z.div_mod mtime 3600000 ltac:(lia)). pose proof (Z.mod_pos_bound mtime 3600000 ltac:(lia)).
  pose proof (Z.div_mod now 3600000 ltac:(lia)). pose proof (Z.mod_pos_bound now 3600000 ltac:(lia)). nia.
Qed.

Lemma plog_age_sufficient : forall now mtime, mtime + hourMs <= now -> plog_eligible now mtime = true.
Proof.
  intros now mtime H. apply plog_eligible_iff. unfold hour_of, hourMs in *.
  pose proof (Z.div_mod mtime 3600000 ltac:(lia)). pose proof (Z.mod_pos_bound mtime 3600000 ltac:(lia)).
  pose proof (Z.div_mod now 3600000 ltac:(lia)). pose proof (Z.mod_pos_bound now 3600000 ltac:(lia)). nia.
Qed.

(* ---------------------------------------------------------------- the expired-log routine behind the guard *)

(* First entry of a fresh process (lastOnIdleRunTime = 0, hour lock free): if an eligible log
   exists, one eligible log is rolled back and removed; no other log is touched. *)
Lemma proc_expired_fresh_removes_one : forall cs now d m,
  m_lastIdle m = 0 -> m_hour m = None -> m_hbp m = false -> cleanupCheckIntervalMinutes * minMs < now ->
  (exists t, In t (d_tlogs d) /\ tlog_eligible now (tl_mtime t) = true) ->
  exists t, In t (d_tlogs d) /\ tlog_eligible now (tl_mtime t) = true /\
    has_tlog (fst (proc_expired cs now (d, m))) (tl_tid t) = false /\
    (forall u, u <> tl_tid t -> has_tlog (fst (proc_expired cs now (d, m))) u = has_tlog d u).
Proof.
  intros cs now d m Hl Hh Hb Hnow [t0 [Hin He]].
  destruct (get_one_some now d t0 Hin He) as [t Ht].
  destruct (get_one_spec now d t Ht) as [Hin' He'].
  exists t. split; [exact Hin'|]. split; [exact He'|].
  unfold proc_expired. cbv beta iota. rewrite Hh, Hl.
  assert (0 <? now - cleanupCheckIntervalMinutes * minMs = true) as -> by (apply Z.ltb_lt; lia).
  unfold proc_expired_logs. cbv beta iota. cbn [m_hour m_hbp]. rewrite Hb, Ht. cbn [fst].
  apply tlog_rollback_removes.
Qed.

(* ---------------------------------------------------------------- the inactive-id part *)

(* A handle left by a crashed writer with BOTH physical ids in use (a staged inactive id) and a
   work-in-progress stamp: the next writer that read the current version is refused until the
   stamp is one hour old, and from then on succeeds, overwriting the stale inactive id. *)
Lemma stage_update_blocked_then_free : forall now nid rv h,
  a_and_b_in_use h = true -> h_del h = false -> h_ver h = rv -> 0 < h_wip h ->
  (now - handleInactiveExpiryHours * hourMs <= h_wip h -> stage_update now nid rv h = None) /\
  (h_wip h < now - handleInactiveExpiryHours * hourMs ->
     exists h', stage_update now nid rv h = Some h' /\ h_inactive h' = nid /\ h_active h' = h_active h /\ h_wip h' = now
                /\ h_ver h' = h_ver h /\ h_lid h' = h_lid h).
Proof.
  intros now nid rv [s l a b ab v w dl] Huse Hdel Hver Hwip. cbn [h_del h_ver h_wip] in *. subst dl rv.
  unfold stage_update, is_expired_inactive, allocate_id, clear_inactive. cbn [h_del h_ver h_wip h_a h_b h_activeB h_store h_lid andb orb negb].
  rewrite Z.eqb_refl. cbn [negb]. rewrite Huse.
  unfold a_and_b_in_use in *. cbn [h_a h_b] in *. apply andb_true_iff in Huse as [Ha Hb].
  split.
  - intros Hyoung. assert (w <? now - handleInactiveExpiryHours * hourMs = false) as -> by (apply Z.ltb_ge; lia).
    rewrite andb_false_r. reflexivity.
  - intros Hold. assert (0 <? w = true) as -> by (apply Z.ltb_lt; lia).
    assert (w <? now - handleInactiveExpiryHours * hourMs = true) as -> by (apply Z.ltb_lt; lia).
    cbn [andb]. destruct ab; cbn [h_a h_b h_activeB N.eqb negb andb].
    + eexists; split; [reflexivity|]. unfold h_inactive, h_active; cbn. repeat split; reflexivity.
    + rewrite andb_false_r. eexists; split; [reflexivity|]. unfold h_inactive, h_active; cbn. repeat split; reflexivity.
Qed.

(* a handle marked deleted by a crashed remover heals the same way in commitUpdatedNodes ... *)
Lemma stage_update_deleted_heals : forall now nid rv h,
  h_del h = true -> h_ver h = rv -> 0 < h_wip h -> h_wip h < now - handleInactiveExpiryHours * hourMs ->
  a_and_b_in_use h = false ->
  exists h', stage_update now nid rv h = Some h' /\ h_del h' = false.
Proof.
  intros now nid rv [s l a b ab v w dl] Hdel Hver Hwip Hold Huse. cbn [h_del h_ver h_wip] in *. subst dl rv.
  unfold stage_update, is_expired_inactive, allocate_id. cbn [h_del h_ver h_wip h_a h_b h_activeB h_store h_lid].
  rewrite Z.eqb_refl.
  assert (0 <? w = true) as -> by (apply Z.ltb_lt; lia).
  assert (w <? now - handleInactiveExpiryHours * hourMs = true) as -> by (apply Z.ltb_lt; lia).
  cbn [andb orb negb]. unfold a_and_b_in_use in *. cbn [h_a h_b] in *. rewrite Huse.
  destruct ab; eexists; split; reflexivity.
Qed.

(* ---------------------------------------------------------------- the priority sweep leaves the transaction logs alone *)

Lemma prio_one_tlogs : forall d p d1, prio_one d p = Some d1 -> d_tlogs d1 = d_tlogs d.
Proof. intros d p d1 H. unfold prio_one in H. destruct (forallb (ver_repairable d) (pl_handles p)); inversion H; reflexivity. Qed.

Lemma prio_batch_tlogs : forall l d, d_tlogs (fst (prio_batch d l)) = d_tlogs d.
Proof.
  induction l as [|p r IH]; intros d; cbn [prio_batch]; [reflexivity|].
  destruct (prio_one d p) as [d1|] eqn:E; [|reflexivity]. rewrite IH. eapply prio_one_tlogs; exact E.
Qed.

Lemma prio_sweep_tlogs : forall fuel ig now d c, d_tlogs (fst (prio_sweep fuel ig now d c)) = d_tlogs d.
Proof.
  induction fuel as [|f IH]; intros ig now d c; cbn [prio_sweep]; [reflexivity|].
  destruct (get_batch ig now d) as [|p r] eqn:E; [reflexivity|].
  pose proof (prio_batch_tlogs (p :: r) d) as Hb.
  destruct (prio_batch d (p :: r)) as [d1 ab]. cbn [fst] in Hb.
  destruct ab; [exact Hb|]. destruct ig; [rewrite IH; exact Hb|exact Hb].
Qed.

Lemma proc_restart_frame : forall now d m,
  d_tlogs (fst (proc_restart now (d, m))) = d_tlogs d /\
  m_lastIdle (snd (proc_restart now (d, m))) = m_lastIdle m /\ m_hour (snd (proc_restart now (d, m))) = m_hour m /\
  m_hbp (snd (proc_restart now (d, m))) = m_hbp m.
Proof.
  intros now d m. unfold proc_restart. destruct (m_startup m); [|repeat split].
  unfold do_priority_rollbacks. pose proof (prio_sweep_tlogs (S (length (d_plogs d))) true now d false) as H.
  destruct (prio_sweep (S (length (d_plogs d))) true now d false) as [d1 f]. cbn [fst snd] in *. repeat split; assumption.
Qed.

Lemma proc_scheduled_frame : forall now d m,
  d_tlogs (fst (proc_scheduled now (d, m))) = d_tlogs d /\
  m_lastIdle (snd (proc_scheduled now (d, m))) = m_lastIdle m /\ m_hour (snd (proc_scheduled now (d, m))) = m_hour m /\
  m_hbp (snd (proc_scheduled now (d, m))) = m_hbp m.
Proof.
  intros now d m. unfold proc_scheduled.
  destruct (m_lastPrio m <? now - (if m_found m then priorityRollbackQuickCheckIntervalSeconds else priorityRollbackCheckIntervalSeconds) * 1000); [|repeat split].
  unfold do_priority_rollbacks. pose proof (prio_sweep_tlogs (S (length (d_plogs d))) false now d false) as H.
  destruct (prio_sweep (S (length (d_plogs d))) false now d false) as [d1 f]. cbn [fst snd] in *. repeat split; assumption.
Qed.

(* The whole routine behind the guard, first entry of a fresh process: one eligible transaction
   log is rolled back and removed, every other log file stays. *)
Lemma maintenance_fresh_removes_one : forall cs now d m,
  m_lastIdle m = 0 -> m_hour m = None -> m_hbp m = false -> cleanupCheckIntervalMinutes * minMs < now ->
  (exists t, In t (d_tlogs d) /\ tlog_eligible now (tl_mtime t) = true) ->
  exists t, In t (d_tlogs d) /\ tlog_eligible now (tl_mtime t) = true /\
    has_tlog (fst (maintenance cs now (d, m))) (tl_tid t) = false /\
    (forall u, u <> tl_tid t -> has_tlog (fst (maintenance cs now (d, m))) u = has_tlog d u).
Proof.
  intros cs now d m Hl Hh Hb Hnow Hex. unfold maintenance.
  destruct (proc_restart_frame now d m) as [T1 [L1 [H1 B1]]].
  destruct (proc_restart now (d, m)) as [d1 m1] eqn:E1. cbn [fst snd] in *.
  destruct (proc_scheduled_frame now d1 m1) as [T2 [L2 [H2 B2]]].
  destruct (proc_scheduled now (d1, m1)) as [d2 m2] eqn:E2. cbn [fst snd] in *.
  assert (d_tlogs d2 = d_tlogs d) as T by congruence.
  destruct (proc_expired_fresh_removes_one cs now d2 m2) as [t [Hin [He [Hgone Hoth]]]]; try congruence.
  { destruct Hex as [t [Hin He]]. exists t. rewrite T. split; assumption. }
  exists t. rewrite T in Hin. split; [exact Hin|]. split; [exact He|]. split; [exact Hgone|].
  intros u Hu. rewrite Hoth by exact Hu. apply has_tlog_ext. exact T.
Qed.

(* ---------------------------------------------------------------- startup sweep of one priority log *)

Lemma plog_remove_single : forall d p, d_plogs d = [p] -> d_plogs (plog_remove (reg_put d (pl_handles p)) (pl_tid p)) = [].
Proof.
  intros d p H. unfold plog_remove, set_plogs, reg_put, set_reg; cbn [d_plogs]. rewrite H. cbn [filter]. rewrite N.eqb_refl. reflexivity.
Qed.

(* First entry of a fresh process (standalone: onStartUpFlag = true): a priority log is swept
   whatever its age; the registry gets the logged handle images and the file is removed. *)
Lemma get_batch_single : forall now d p, d_plogs d = [p] -> get_batch true now d = [p].
Proof. intros now d p H. unfold get_batch. rewrite H. reflexivity. Qed.

Lemma get_batch_none : forall ig now d, d_plogs d = [] -> get_batch ig now d = [].
Proof. intros ig now d H. unfold get_batch. rewrite H. reflexivity. Qed.

Lemma sweep_single : forall now d p,
  d_plogs d = [p] -> forallb (ver_repairable d) (pl_handles p) = true ->
  do_priority_rollbacks true now d = (plog_remove (reg_put d (pl_handles p)) (pl_tid p), true).
Proof.
  intros now d p Hp Hv. unfold do_priority_rollbacks. rewrite Hp.
  change (S (length [p])) with 2%nat.
  change (prio_sweep 2 true now d false) with
    (match get_batch true now d with
     | [] => (d, false)
     | b => let '(d1, aborted) := prio_batch d b in
            if aborted then (d1, false) else prio_sweep 1 true now d1 true
     end).
  rewrite (get_batch_single now d p Hp).
  change (prio_batch d [p]) with (match prio_one d p with Some d1 => prio_batch d1 [] | None => (d, true) end).
  unfold prio_one. rewrite Hv. cbn [prio_batch].
  change (prio_sweep 1 true now (plog_remove (reg_put d (pl_handles p)) (pl_tid p)) true) with
    (match get_batch true now (plog_remove (reg_put d (pl_handles p)) (pl_tid p)) with
     | [] => (plog_remove (reg_put d (pl_handles p)) (pl_tid p), true)
     | b => let '(d1, aborted) := prio_batch (plog_remove (reg_put d (pl_handles p)) (pl_tid p)) b in
            if aborted then (d1, false) else prio_sweep 0 true now d1 true
     end).
  rewrite (get_batch_none true now _ (plog_remove_single d p Hp)). reflexivity.
Qed.

Lemma restart_sweeps_single_plog : forall now d m p,
  m_startup m = true -> d_plogs d = [p] -> forallb (ver_repairable d) (pl_handles p) = true ->
  fst (proc_restart now (d, m)) = plog_remove (reg_put d (pl_handles p)) (pl_tid p) /\
  d_plogs (fst (proc_restart now (d, m))) = [] /\ m_startup (snd (proc_restart now (d, m))) = false.
Proof.
  intros now d m p Hs Hp Hv. unfold proc_restart. rewrite Hs, (sweep_single now d p Hp Hv). cbn [fst snd m_startup].
  split; [reflexivity|]. split; [apply plog_remove_single; exact Hp|reflexivity].
Qed.

(* ---------------------------------------------------------------- witnesses of the defects behind the guard *)

(* commit point: the writer crashed after the phase-2 registry flip and the removal of its
   priority log, before logging deleteObsoleteEntries.  Handle 10 already points to the new blob 12;
   the log still names 12 as the "inactive" blob staged by commitUpdatedNodes. *)
Definition wit_commit_point : disk :=
  mkDisk [mkMH 1 10 11 12 true 1 1 false] [(1%N,11%N); (1%N,12%N)] [mkStoreS 1 12 true true true]
         [mkTLog 7 0 [mkEntry 2 false 0 [] [] [] []; mkEntry 5 false 0 [] [] [] [];
                      mkEntry 6 true 0 [] [(1%N,12%N)] [] []; mkEntry 9 true 0 [] [] [] [(1%N,0)];
                      mkEntry 10 false 0 [] [] [] []; mkEntry 11 true 0 [] [(1%N,11%N)] [] []]] [].

Lemma commit_point_witness :
  dangling_handles wit_commit_point = [] /\
  exists t, d_tlogs wit_commit_point = [t] /\ dangling_handles (tlog_rollback 0 wit_commit_point t) <> [] /\
            has_tlog (tlog_rollback 0 wit_commit_point t) 7 = false.
Proof. split; [reflexivity|]. eexists; split; [reflexivity|]. split; [vm_compute; discriminate|reflexivity]. Qed.

(* new root: the crashed first commit of an empty store registered root handle 20 / blob 20; the
   rollback run by a maintenance transaction (committedState = unknown) removes the blob only. *)
Definition wit_new_root : disk :=
  mkDisk [mkMH 3 20 20 0 false 0 0 false] [(3%N,20%N)] [mkStoreS 3 0 true true true]
         [mkTLog 8 0 [mkEntry 2 false 0 [] [] [] []; mkEntry 4 true 0 [(3%N,20%N)] [(3%N,20%N)] [] []; mkEntry 5 false 0 [] [] [] []]] [].

Lemma new_root_witness :
  exists t, d_tlogs wit_new_root = [t] /\
    d_reg (tlog_rollback unknown wit_new_root t) = d_reg wit_new_root /\ d_blobs (tlog_rollback unknown wit_new_root t) = [] /\
    d_reg (tlog_rollback (commitNewRootNodes + 1) wit_new_root t) = [].
Proof. eexists; split; [reflexivity|]. repeat split; reflexivity. Qed.

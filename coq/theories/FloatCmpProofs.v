(* Order laws of Go's cmp.Compare on floats (FloatCmp.go_fcmp), via a rank of the
   non-NaN floats in the extended reals and Flocq's Bcompare_correct. *)
From Coq Require Import ZArith NArith Reals Lia Lra.
From Flocq Require Import Core.Raux IEEE754.Binary IEEE754.Bits.
From SopVerif Require Import FloatCmp CompareLib.
Local Open Scope Z_scope.

Section Laws.
Variables prec emax : Z.
Notation bf := (binary_float prec emax).
Notation nan := (is_nan prec emax).

(* rank of a non-NaN float: class (-inf, finite, +inf), then real value *)
Definition fclass (x : bf) : Z :=
  match x with B754_infinity _ _ true => -1 | B754_infinity _ _ false => 1 | _ => 0 end.
Definition fval (x : bf) : R :=
  match x with B754_infinity _ _ _ => 0%R | _ => B2R prec emax x end.

Definition rank_cmp (x y : bf) : comparison :=
  match Z.compare (fclass x) (fclass y) with
  | Eq => Rcompare (fval x) (fval y)
  | c => c
  end.

Lemma Bcompare_rank : forall x y : bf, nan x = false -> nan y = false ->
  Bcompare _ _ x y = Some (rank_cmp x y).
Proof.
  intros x y Hx Hy.
  destruct x as [sx|sx|sx px Hpx|sx mx ex Hbx]; try discriminate;
  destruct y as [sy|sy|sy py Hpy|sy my ey Hby]; try discriminate;
  try (rewrite Bcompare_correct by reflexivity; unfold rank_cmp; reflexivity);
  try (destruct sx; reflexivity); try (destruct sy; reflexivity).
  destruct sx, sy; unfold rank_cmp; simpl; try reflexivity; rewrite Rcompare_Eq; reflexivity.
Qed.

Definition c2z (c : comparison) : Z := match c with Lt => -1 | Eq => 0 | Gt => 1 end.

Lemma go_fcmp_rank : forall x y : bf,
  go_fcmp x y = if nan x then (if nan y then 0 else -1)
                else if nan y then 1 else c2z (rank_cmp x y).
Proof.
  intros x y. unfold go_fcmp.
  destruct (nan x) eqn:Hx; [reflexivity|].
  destruct (nan y) eqn:Hy; [reflexivity|].
  rewrite Bcompare_rank by assumption. destruct (rank_cmp x y); reflexivity.
Qed.

Lemma rank_cmp_refl : forall x, rank_cmp x x = Eq.
Proof. intros x. unfold rank_cmp. rewrite Z.compare_refl. apply Rcompare_Eq. reflexivity. Qed.

Lemma rank_cmp_sym : forall x y, rank_cmp y x = CompOpp (rank_cmp x y).
Proof.
  intros x y. unfold rank_cmp. rewrite (Z.compare_antisym (fclass x) (fclass y)).
  destruct (fclass x ?= fclass y); simpl; try reflexivity. apply Rcompare_sym.
Qed.

Lemma rank_cmp_le_trans : forall x y z, c2z (rank_cmp x y) <= 0 -> c2z (rank_cmp y z) <= 0 -> c2z (rank_cmp x z) <= 0.
Proof.
  intros x y z. unfold rank_cmp.
  destruct (Z.compare_spec (fclass x) (fclass y)) as [E1|E1|E1];
  destruct (Z.compare_spec (fclass y) (fclass z)) as [E2|E2|E2];
  destruct (Z.compare_spec (fclass x) (fclass z)) as [E3|E3|E3]; simpl; try lia;
  destruct (Rcompare_spec (fval x) (fval y)); destruct (Rcompare_spec (fval y) (fval z));
  destruct (Rcompare_spec (fval x) (fval z)); simpl; try lia; intros _ _; exfalso; lra.
Qed.

Theorem go_fcmp_laws : cmp_laws (fun _ : bf => True) go_fcmp.
Proof.
  constructor.
  - intros a b _ _. rewrite go_fcmp_rank. unfold sgn3.
    destruct (nan a), (nan b); try lia. destruct (rank_cmp a b); simpl; lia.
  - intros a _. rewrite go_fcmp_rank. destruct (nan a); [reflexivity|]. rewrite rank_cmp_refl. reflexivity.
  - intros a b _ _. rewrite !go_fcmp_rank. destruct (nan a), (nan b); try reflexivity.
    rewrite (rank_cmp_sym b a). destruct (rank_cmp b a); reflexivity.
  - intros a b d _ _ _. rewrite !go_fcmp_rank.
    destruct (nan a), (nan b), (nan d); simpl; try lia. apply rank_cmp_le_trans.
Qed.

(* ---- agreement with the natural order *)

(* NaN sorts below every other value and equals every NaN, whatever its payload *)
Lemma go_fcmp_nan_l : forall x y : bf, nan x = true -> go_fcmp x y = if nan y then 0 else -1.
Proof. intros x y H. unfold go_fcmp. rewrite H. reflexivity. Qed.
Lemma go_fcmp_nan_r : forall x y : bf, nan x = false -> nan y = true -> go_fcmp x y = 1.
Proof. intros x y H1 H2. unfold go_fcmp. rewrite H1, H2. reflexivity. Qed.

(* on finite values (zeros, subnormals, normals) it is the order of the real numbers they denote *)
Lemma go_fcmp_finite : forall x y : bf, is_finite _ _ x = true -> is_finite _ _ y = true ->
  go_fcmp x y = c2z (Rcompare (B2R _ _ x) (B2R _ _ y)).
Proof.
  intros x y Hx Hy. unfold go_fcmp.
  assert (Nx : nan x = false) by (destruct x; try discriminate; reflexivity).
  assert (Ny : nan y = false) by (destruct y; try discriminate; reflexivity).
  rewrite Nx, Ny, Bcompare_correct by assumption. destruct (Rcompare _ _); reflexivity.
Qed.

Lemma go_fcmp_finite_lt : forall x y : bf, is_finite _ _ x = true -> is_finite _ _ y = true ->
  (go_fcmp x y = -1 <-> (B2R _ _ x < B2R _ _ y)%R) /\
  (go_fcmp x y = 0 <-> B2R _ _ x = B2R _ _ y) /\
  (go_fcmp x y = 1 <-> (B2R _ _ x > B2R _ _ y)%R).
Proof.
  intros x y Hx Hy. rewrite go_fcmp_finite by assumption.
  destruct (Rcompare_spec (B2R _ _ x) (B2R _ _ y)); simpl; repeat split; intros; try lra; try lia; try discriminate.
Qed.

(* infinities bracket every finite value *)
Lemma go_fcmp_inf : forall (x : bf) s, nan x = false ->
  go_fcmp (B754_infinity _ _ s) x =
    match x with
    | B754_infinity _ _ s' => if Bool.eqb s s' then 0 else if s then -1 else 1
    | _ => if s then -1 else 1
    end.
Proof. intros x s Hx. destruct x; try discriminate; destruct s; try destruct s0; reflexivity. Qed.
End Laws.

Theorem fcmp64_laws : cmp_laws (fun _ : N => True) fcmp64.
Proof. apply (laws_via _ (fun _ => True) f64 fcmp64 go_fcmp); auto. apply go_fcmp_laws. Qed.

Theorem fcmp32_laws : cmp_laws (fun _ : N => True) fcmp32.
Proof. apply (laws_via _ (fun _ => True) f32 fcmp32 go_fcmp); auto. apply go_fcmp_laws. Qed.

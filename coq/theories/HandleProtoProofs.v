(* Proofs about HandleProto, part 1: soundness of the trace checker, the recovery step, the refutation
   witnesses (by computation), and a bounded exhaustive exploration. The unbounded invariants are in
   HandleProtoInv.v. *)
From Coq Require Import List ZArith NArith Bool Lia PeanoNat.
From SopVerif Require Import Proto ProtoProofs HandleProto.
Import ListNotations.
Local Open Scope N_scope.

(* ------------------------------------------------------------------ reachability *)

Inductive reachable (hy : hyps) (s0 : state) : state -> Prop :=
| reach_refl : reachable hy s0 s0
| reach_step s lab s' : reachable hy s0 s -> step hy s lab = Some s' -> reachable hy s0 s'.

Lemma exec_app hy ls1 : forall s ls2, exec hy s (ls1 ++ ls2) = match exec hy s ls1 with Some s' => exec hy s' ls2 | None => None end.
Proof.
  induction ls1 as [|l r IH]; intros s ls2; cbn [exec app]; [reflexivity|].
  destruct (step hy s l); [apply IH|reflexivity].
Qed.

Lemma exec_reachable hy s0 ls : forall s s', reachable hy s0 s -> exec hy s ls = Some s' -> reachable hy s0 s'.
Proof.
  induction ls as [|l r IH]; intros s s' Hr He; cbn [exec] in He.
  - inversion He; subst; exact Hr.
  - destruct (step hy s l) as [s1|] eqn:E; [|discriminate].
    eapply IH; [eapply reach_step; eassumption|exact He].
Qed.

Lemma reachable_exec hy s0 s : reachable hy s0 s -> exists ls, exec hy s0 ls = Some s.
Proof.
  induction 1 as [|s lab s' _ [ls IH] Hs].
  - exists []. reflexivity.
  - exists (ls ++ [lab]). rewrite exec_app, IH. cbn [exec]. rewrite Hs. reflexivity.
Qed.

(* ------------------------------------------------------------------ the trace checker only takes model steps *)

Lemma accept1_sound hy s o s' : accept1 hy s o = Some s' -> exists ls, exec hy s ls = Some s'.
Proof.
  intros H. destruct o; cbn [accept1] in H.
  - destruct ok; [exists [LLock i]; cbn [exec]; rewrite H; reflexivity|inversion H; exists []; reflexivity].
  - destruct (get_tx s i); [|discriminate]. destruct (handles_eqb _ read); [|discriminate].
    destruct (step hy s (LClaim i)) as [s1|] eqn:E; [|discriminate].
    destruct written as [hs|].
    + destruct (handles_eqb _ hs); [|discriminate].
      exists (LClaim i :: writes i (length hs)). cbn [exec]. rewrite E. exact H.
    + destruct (pc_eqb _ _); [|discriminate]. inversion H; subst. exists [LClaim i]. cbn [exec]. rewrite E. reflexivity.
  - destruct (get_tx s i); [|discriminate]. destruct (ids_eqb _ ids); [|discriminate].
    exists [LBlob i]. cbn [exec]. rewrite H. reflexivity.
  - destruct (get_tx s i); [|discriminate]. destruct (handles_eqb _ read); [|discriminate].
    destruct (step hy s (LMark i)) as [s1|] eqn:E; [|discriminate].
    destruct written as [hs|].
    + destruct (_ && _); [|discriminate].
      exists (LMark i :: writes i (length hs)). cbn [exec]. rewrite E. exact H.
    + destruct (pc_eqb _ _); [|discriminate]. inversion H; subst. exists [LMark i]. cbn [exec]. rewrite E. reflexivity.
  - exists [LPlog i]. cbn [exec]. rewrite H. reflexivity.
  - destruct (get_tx s i); [|discriminate]. destruct (Bool.eqb _ _); [|discriminate].
    exists [LCheck i]. cbn [exec]. rewrite H. reflexivity.
  - destruct (_ && _); [|discriminate]. exists (writes i (length written)). exact H.
  - exists [LPlogRm i]. cbn [exec]. rewrite H. reflexivity.
  - exists [LUnlock i]. cbn [exec]. rewrite H. reflexivity.
  - destruct (get_tx s i); [|discriminate]. destruct (same_set _ ids); [|discriminate].
    exists [LCleanBlobs i]. cbn [exec]. rewrite H. reflexivity.
  - destruct (get_tx s i); [|discriminate]. destruct (same_set _ ids); [|discriminate].
    exists [LCleanReg i]. cbn [exec]. rewrite H. reflexivity.
  - exists [LRollback i]. cbn [exec]. rewrite H. reflexivity.
  - destruct (get_tx s i) as [t|]; [|discriminate].
    match type of H with match step hy s (LPermute i ?x) with _ => _ end = _ => set (pd := x) in * end.
    destruct (step hy s (LPermute i pd)) as [s1|] eqn:E; [|discriminate].
    destruct (_ && _); [|discriminate]. exists (LPermute i pd :: writes i (length written)). cbn [exec]. rewrite E. exact H.
  - destruct (exec hy s (writes i torn)) as [s1|] eqn:E; [|discriminate].
    exists (writes i torn ++ [LCrash i]). rewrite exec_app, E. cbn [exec]. rewrite H. reflexivity.
  - exists [l]. cbn [exec]. destruct l; try discriminate; rewrite H; reflexivity.
Qed.

(* acceptance of a recorded trace = the trace is an execution of the model (so every invariant of reachable
   states holds of the state it ends in, and of every state in between) *)
Theorem accepts_sound hy s tr s' : accepts_run hy s tr = Some s' -> exists ls, exec hy s ls = Some s'.
Proof.
  revert s. induction tr as [|o r IH]; intros s H; cbn [accepts_run] in H.
  - inversion H; subst. exists []. reflexivity.
  - destruct (accept1 hy s o) as [s1|] eqn:E; [|discriminate].
    destruct (accept1_sound _ _ _ _ E) as [l1 H1]. destruct (IH _ H) as [l2 H2].
    exists (l1 ++ l2). rewrite exec_app, H1. exact H2.
Qed.

Corollary accepts_reachable hy s0 tr s' : accepts_run hy s0 tr = Some s' -> reachable hy s0 s'.
Proof.
  intros H. destruct (accepts_sound _ _ _ _ H) as [ls He].
  eapply exec_reachable; [apply reach_refl|exact He].
Qed.

(* ------------------------------------------------------------------ recovery: the priority rollback step *)

Lemma lookup_fold_set_nodup hs : forall r h, NoDup (map lid hs) -> In h hs -> lookup (fold_left reg_set hs r) (lid h) = Some h.
Proof.
  induction hs as [|x hs IH]; intros r h Hnd Hin; [destruct Hin|].
  cbn [fold_left]. inversion Hnd as [|? ? Hx Hnd']; subst. destruct Hin as [E|Hin].
  - subst x. clear IH.
    assert (G : forall hs' r', ~ In (lid h) (map lid hs') -> lookup r' (lid h) = Some h -> lookup (fold_left reg_set hs' r') (lid h) = Some h).
    { induction hs' as [|y hs' IH']; intros r' Hn Hl; [exact Hl|]. cbn [fold_left]. apply IH'.
      - intros C; apply Hn; right; exact C.
      - rewrite lookup_reg_set. destruct (N.eqb_spec (lid y) (lid h)) as [E|E]; [exfalso; apply Hn; left; exact E|exact Hl]. }
    apply G; [exact Hx|]. rewrite lookup_reg_set, N.eqb_refl. reflexivity.
  - apply IH; assumption.
Qed.

Lemma lookup_fold_set_other hs : forall r l, ~ In l (map lid hs) -> lookup (fold_left reg_set hs r) l = lookup r l.
Proof.
  induction hs as [|x hs IH]; intros r l Hn; [reflexivity|]. cbn [fold_left].
  rewrite IH by (intros C; apply Hn; right; exact C). rewrite lookup_reg_set.
  destruct (N.eqb_spec (lid x) l) as [E|E]; [exfalso; apply Hn; left; exact E|reflexivity].
Qed.

(* the two branches of doPriorityRollbacks for one priority log *)
Theorem prio_step_spec hy s c s' : step hy s (LPrio c) = Some s' ->
  exists t imgs, get_tx s c = Some t /\ t_plog t = Some imgs
    /\ (prio_ver_ok (sreg s) imgs = true ->
          (NoDup (map lid imgs) -> forall h, In h imgs -> lookup (sreg s') (lid h) = Some h)
          /\ (forall l, ~ In l (map lid imgs) -> lookup (sreg s') l = lookup (sreg s) l)
          /\ sblobs s' = sblobs s
          /\ (exists t', get_tx s' c = Some t' /\ t_plog t' = None))
    /\ (prio_ver_ok (sreg s) imgs = false -> sreg s' = sreg s /\ sblobs s' = sblobs s /\ stxs s' = stxs s /\ shist s' = EFailover c :: shist s).
Proof.
  cbn [step]. destruct (get_tx s c) as [t|] eqn:Et; [|discriminate].
  destruct (t_plog t) as [imgs|] eqn:Ep; [|discriminate].
  destruct (_ && free_or_own _ _ _); [|discriminate].
  intros H. exists t, imgs. split; [reflexivity|]. split; [exact Ep|].
  destruct (prio_ver_ok (sreg s) imgs); inversion H; subst s'; cbn [sreg sblobs stxs shist]; split; intros Hv; try discriminate.
  - split; [intros Hnd h Hin; apply lookup_fold_set_nodup; assumption|].
    split; [intros l Hn; apply lookup_fold_set_other; exact Hn|]. split; [reflexivity|].
    unfold get_tx in *. cbn [stxs].
    assert (G : forall (l : list txn) i x y, nth_error l i = Some x -> nth_error (set_nth l i y) i = Some y).
    { induction l as [|z l IH]; intros [|i] x y Hn; cbn in *; try discriminate; [reflexivity|eapply IH; exact Hn]. }
    eexists. split; [eapply G; exact Et|reflexivity].
  - repeat split.
Qed.

(* the logged image of an updated node is the claim of the handle that was read: same logical id, same active
   blob, same version, not deleted — restoring it puts the node back on its pre-commit version and content *)
Lemma allocate_keeps h p h' : allocate h p = Some h' -> lid h' = lid h /\ active h' = active h /\ ver h' = ver h /\ del h' = del h /\ inactive h' = p /\ wip h' = 2.
Proof.
  unfold allocate. destruct (both_in_use h); [discriminate|]. intros E; inversion E; subst h'.
  unfold set_inactive, active, inactive. destruct (activeB h); cbn; repeat split.
Qed.

Theorem claim_image h v p h' : claim h v p = Some h' ->
  lid h' = lid h /\ active h' = active h /\ ver h' = v /\ ver h = v /\ del h' = false /\ inactive h' = p /\ wip h' = 2.
Proof.
  unfold claim. destruct ((del h && negb (expired h)) || negb (ver h =? v)%Z) eqn:Eg; [discriminate|].
  apply orb_false_iff in Eg. destruct Eg as [Eg1 Eg2]. apply negb_false_iff, Z.eqb_eq in Eg2.
  set (h1 := if del h && expired h then set_del h false (wip h) else h).
  assert (P1 : lid h1 = lid h /\ active h1 = active h /\ ver h1 = ver h /\ del h1 = false).
  { subst h1. destruct (del h) eqn:Ed; cbn [andb].
    - destruct (expired h) eqn:Ee; [unfold set_del, active; cbn; repeat split|cbn in Eg1; discriminate].
    - repeat split; assumption. }
  destruct P1 as (Pl & Pa & Pv & Pd).
  destruct (allocate h1 p) as [h2|] eqn:Ea.
  - intros E; inversion E; subst h'. destruct (allocate_keeps _ _ _ Ea) as (A1 & A2 & A3 & A4 & A5 & A6).
    repeat split; congruence.
  - destruct (expired h1); [|discriminate]. intros Ea2.
    destruct (allocate_keeps _ _ _ Ea2) as (A1 & A2 & A3 & A4 & A5 & A6).
    assert (C : lid (clear_inactive h1) = lid h1 /\ active (clear_inactive h1) = active h1 /\ ver (clear_inactive h1) = ver h1 /\ del (clear_inactive h1) = del h1).
    { unfold clear_inactive, set_inactive, active. destruct (activeB h1); cbn; repeat split. }
    destruct C as (C1 & C2 & C3 & C4). repeat split; congruence.
Qed.

(* ------------------------------------------------------------------ refutation witnesses (by computation) *)

Definition r_w : list handle := [mkH 10 10 0 false 3%Z 0 false].
Definition s_uu : state := init_state r_w [10] [([(10, 3%Z, 30)], []); ([(10, 3%Z, 31)], [])].
Definition s_ur : state := init_state r_w [10] [([(10, 3%Z, 30)], []); ([], [(10, 3%Z)])].
Definition commit_steps (i : nat) : list label :=
  [LLock i; LClaim i; LWrite i; LBlob i; LMark i; LPlog i; LCheck i; LWrite i; LPlogRm i; LUnlock i; LCleanBlobs i; LCleanReg i].

(* a live committer stalls after its claim; its node lock expires (TTL = maxTime) and, an hour after the claim, so does the
   claim; a second committer of the same node version installs its successor; the first one wakes up, finds its locks
   gone, re-acquires them (nodesKeysNilOrLocked -> DualLock) and installs its own successor of the same version *)
Definition sched_expiry : list label :=
  [LLock 0; LClaim 0; LWrite 0; LBlob 0; LMark 0; LLockExpire 10; LAge 10] ++ commit_steps 1
  ++ [LPlog 0; LCheck 0; LWrite 0; LPlogRm 0; LUnlock 0; LCleanBlobs 0; LCleanReg 0].

(* a committer dies after writing its priority log; more than an hour later another one commits a successor of the node
   (the dead claim has expired) and cleans up the old blob; then the priority rollback restores the logged image *)
Definition sched_stale_log : list label :=
  [LLock 0; LClaim 0; LWrite 0; LBlob 0; LMark 0; LPlog 0; LCrash 0; LLockExpire 10; LAge 10] ++ commit_steps 1 ++ [LPrio 0].

(* same, without waiting an hour: the second transaction REMOVES the node (commitRemovedNodes ignores the claim) *)
Definition sched_mark_over_claim : list label :=
  [LLock 0; LClaim 0; LWrite 0; LBlob 0; LMark 0; LPlog 0; LCrash 0; LLockExpire 10]
  ++ [LLock 1; LClaim 1; LBlob 1; LMark 1; LWrite 1; LPlog 1; LCheck 1; LWrite 1; LPlogRm 1; LUnlock 1; LCleanBlobs 1; LPrio 0].

Definition final_bad (hy : hyps) (s : state) (ls : list label) (chk : state -> bool) : bool :=
  match exec hy s ls with Some s' => negb (chk s') | None => false end.
Definition blocked (hy : hyps) (s : state) (ls : list label) : bool :=
  match exec hy s ls with Some _ => false | None => true end.

Lemma expiry_witness : final_bad no_lock_hyp s_uu sched_expiry single_successor = true /\ blocked strict s_uu sched_expiry = true.
Proof. split; vm_compute; reflexivity. Qed.
Lemma stale_log_witness : final_bad no_recov_hyp s_uu sched_stale_log points_at_data = true /\ blocked strict s_uu sched_stale_log = true.
Proof. split; vm_compute; reflexivity. Qed.
Lemma mark_over_claim_witness : final_bad no_mark_hyp s_ur sched_mark_over_claim points_at_data = true /\ blocked strict s_ur sched_mark_over_claim = true.
Proof. split; vm_compute; reflexivity. Qed.

(* what the re-check of the node locks before finalizing does prevent: if the second committer still HOLDS the locks when
   the first one wakes up, the re-lock fails and the first one rolls back instead of installing *)
Definition sched_recheck_blocks : list label :=
  [LLock 0; LClaim 0; LWrite 0; LBlob 0; LMark 0; LPlog 0; LLockExpire 10; LLock 1; LCheck 0].
Lemma recheck_blocks_while_other_holds :
  match exec free s_uu sched_recheck_blocks with
  | Some s => match get_tx s 0 with Some t => pc_eqb (t_pc t) PRolling | None => false end
  | None => false
  end = true.
Proof. vm_compute. reflexivity. Qed.

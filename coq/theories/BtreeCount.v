(* Count bookkeeping of the node-level model, for every state, configuration (load
   balancing included) and call: StoreInfo.Count moves by +1 exactly on a successful add,
   by -1 exactly on a successful removal, and not at all otherwise. *)
From Coq Require Import List ZArith NArith Bool Lia.
From SopVerif Require Import OMap Btree.
Import ListNotations.
Local Open Scope Z_scope.

Lemma cnt_putn : forall s id n, bcount (putn s id n) = bcount s. Proof. reflexivity. Qed.
Lemma cnt_deln : forall s id, bcount (deln s id) = bcount s. Proof. reflexivity. Qed.
Lemma cnt_set_current : forall s id i, bcount (set_current s id i) = bcount s. Proof. reflexivity. Qed.
Lemma cnt_with_cached : forall s c, bcount (with_cached s c) = bcount s. Proof. reflexivity. Qed.
Lemma cnt_fresh : forall s, bcount (fst (fresh_node s)) = bcount s. Proof. reflexivity. Qed.
Lemma cnt_load : forall s, bcount (load_current s) = bcount s.
Proof. intros s. unfold load_current. destruct (N.eqb _ _); reflexivity. Qed.
Lemma cnt_with_count : forall s c, bcount (with_count s c) = c. Proof. reflexivity. Qed.

Lemma cnt_ucp : forall s id n, bcount (update_children_parent s id n) = bcount s.
Proof.
  intros s id n. unfold update_children_parent. destruct (nchildren n) as [ch|]; [|reflexivity].
  destruct (has_children n); [|reflexivity].
  revert s. induction ch as [|c ch IH]; intros s; cbn [fold_left]; [reflexivity|].
  rewrite IH. destruct (getn s c); reflexivity.
Qed.

Lemma cnt_new_child : forall L s id n i it, bcount (new_child_with_item L s id n i it) = bcount s.
Proof. intros. unfold new_child_with_item. cbn. reflexivity. Qed.

#[export] Hint Rewrite cnt_putn cnt_deln cnt_set_current cnt_with_cached cnt_load cnt_ucp cnt_new_child : cnt.

(* break every match / if in the goal, keeping the count equation trivial *)
Ltac brk :=
  repeat (cbn [fst snd bcount]; autorewrite with cnt;
          match goal with
          | |- context [match ?x with _ => _ end] => destruct x eqn:?
          | |- context [if ?x then _ else _] => destruct x eqn:?
          end);
  cbn [fst snd bcount]; autorewrite with cnt; try reflexivity; try lia.

Lemma cnt_climb_right : forall fuel L s id i, bcount (fst (climb_right fuel L s id i)) = bcount s.
Proof. induction fuel as [|f IH]; intros; cbn [climb_right]; brk. apply IH. Qed.
Lemma cnt_climb_left : forall fuel L s id i, bcount (fst (climb_left fuel L s id i)) = bcount s.
Proof. induction fuel as [|f IH]; intros; cbn [climb_left]; brk. apply IH. Qed.
#[export] Hint Rewrite cnt_climb_right cnt_climb_left : cnt.

Lemma cnt_go_right_down : forall fuel L s id i, bcount (fst (go_right_down fuel L s id i)) = bcount s.
Proof. induction fuel as [|f IH]; intros; cbn [go_right_down]; brk. apply IH. Qed.
Lemma cnt_go_left_down : forall fuel L s id i, bcount (fst (go_left_down fuel L s id i)) = bcount s.
Proof. induction fuel as [|f IH]; intros; cbn [go_left_down]; brk. apply IH. Qed.
#[export] Hint Rewrite cnt_go_right_down cnt_go_left_down : cnt.

Lemma cnt_move_to_next : forall L s id, bcount (fst (move_to_next L s id)) = bcount s.
Proof. intros. unfold move_to_next. brk. Qed.
Lemma cnt_move_to_previous : forall L s id, bcount (fst (move_to_previous L s id)) = bcount s.
Proof. intros. unfold move_to_previous. brk. Qed.
Lemma cnt_move_to_first : forall s id, bcount (fst (move_to_first s id)) = bcount s.
Proof. intros. unfold move_to_first. brk. Qed.
Lemma cnt_move_to_last : forall s id, bcount (fst (move_to_last s id)) = bcount s.
Proof. intros. unfold move_to_last. brk. Qed.
#[export] Hint Rewrite cnt_move_to_next cnt_move_to_previous cnt_move_to_first cnt_move_to_last : cnt.

Lemma cnt_find_finish : forall L s r, bcount (fst (find_finish L s r)) = bcount s.
Proof. intros L s [[[a b] c] d]. unfold find_finish. brk. Qed.
#[export] Hint Rewrite cnt_find_finish : cnt.

(* a helper for "let '(s1, x) := F in ..." after destruct: transport the count equation *)
Ltac via H :=
  match type of H with
  | ?e = (?b, _) => let E := fresh in
                    assert (E : bcount b = bcount (fst e)) by (rewrite H; reflexivity);
                    rewrite E; clear E; brk
  end.

Lemma cnt_b_find : forall cfg s k f, bcount (fst (b_find cfg s k f)) = bcount s.
Proof.
  intros. unfold b_find. brk.
  all: match goal with H : find_finish _ _ _ = _ |- _ => via H end.
Qed.
Lemma cnt_b_find_desc : forall cfg s k, bcount (fst (b_find_desc cfg s k)) = bcount s.
Proof.
  intros. unfold b_find_desc. brk.
  all: match goal with H : find_finish _ _ _ = _ |- _ => via H end.
Qed.
#[export] Hint Rewrite cnt_b_find cnt_b_find_desc : cnt.

Lemma cnt_b_first : forall cfg s, bcount (fst (b_first cfg s)) = bcount s.
Proof. intros. unfold b_first. brk. match goal with H : move_to_first _ _ = _ |- _ => via H end. Qed.
Lemma cnt_b_last : forall cfg s, bcount (fst (b_last cfg s)) = bcount s.
Proof. intros. unfold b_last. brk. match goal with H : move_to_last _ _ = _ |- _ => via H end. Qed.
Lemma cnt_b_next : forall cfg s, bcount (fst (b_next cfg s)) = bcount s.
Proof. intros. unfold b_next. brk. match goal with H : move_to_next _ _ _ = _ |- _ => via H end. Qed.
Lemma cnt_b_prev : forall cfg s, bcount (fst (b_prev cfg s)) = bcount s.
Proof. intros. unfold b_prev. brk. match goal with H : move_to_previous _ _ _ = _ |- _ => via H end. Qed.
#[export] Hint Rewrite cnt_b_first cnt_b_last cnt_b_next cnt_b_prev : cnt.

Lemma cnt_b_update_current : forall s k v, bcount (fst (b_update_current s k v)) = bcount s.
Proof. intros. unfold b_update_current. brk. Qed.
Lemma cnt_b_update_current_value : forall s v, bcount (fst (b_update_current_value s v)) = bcount s.
Proof. intros. unfold b_update_current_value. brk. Qed.
Lemma cnt_b_get_current : forall s f, bcount (fst (b_get_current s f)) = bcount s.
Proof. intros. unfold b_get_current. brk. Qed.
#[export] Hint Rewrite cnt_b_update_current cnt_b_update_current_value cnt_b_get_current : cnt.

Lemma cnt_b_update : forall cfg s k v, bcount (fst (b_update cfg s k v)) = bcount s.
Proof. intros. unfold b_update. brk; match goal with H : b_find _ _ _ _ = _ |- _ => via H end. Qed.
#[export] Hint Rewrite cnt_b_update : cnt.

(* ------------------------------------------------------------------ add *)
Lemma cnt_add_on_leaf : forall cfg s id n it index, bcount (fst (fst (add_on_leaf cfg s id n it index))) = bcount s.
Proof. intros. unfold add_on_leaf, fresh_node. brk. Qed.
#[export] Hint Rewrite cnt_add_on_leaf : cnt.

Lemma cnt_add_loop : forall fuel cfg uq s id it,
  bcount (fst (fst (fst (add_loop fuel cfg uq s id it)))) = bcount s.
Proof.
  induction fuel as [|f IH]; intros; cbn [add_loop]; brk; try apply IH.
  match goal with H : add_on_leaf ?c ?s0 ?i ?n0 ?x ?ix = (?b, _, _) |- _ =>
    let E := fresh in assert (E : bcount b = bcount (fst (fst (add_on_leaf c s0 i n0 x ix)))) by (rewrite H; reflexivity);
    rewrite E; autorewrite with cnt; reflexivity end.
Qed.

Lemma cnt_distribute_step : forall L s a, bcount (fst (distribute_step L s a)) = bcount s.
Proof. intros. unfold distribute_step. brk. Qed.
#[export] Hint Rewrite cnt_distribute_step : cnt.

Lemma cnt_distribute_loop : forall fuel L s a, bcount (distribute_loop fuel L s a) = bcount s.
Proof.
  induction fuel as [|f IH]; intros L s [act|]; cbn [distribute_loop]; try reflexivity.
  destruct (distribute_step L s act) as [s' a'] eqn:E. rewrite IH.
  change s' with (fst (s', a')). rewrite <- E. autorewrite with cnt. reflexivity.
Qed.

Lemma cnt_promote_step : forall L s a, bcount (fst (promote_step L s a)) = bcount s.
Proof. intros. unfold promote_step, fresh_node. brk. Qed.
#[export] Hint Rewrite cnt_promote_step : cnt.

Lemma cnt_promote_loop : forall fuel L s a, bcount (promote_loop fuel L s a) = bcount s.
Proof.
  induction fuel as [|f IH]; intros L s [act|]; cbn [promote_loop]; try reflexivity.
  destruct (promote_step L s act) as [s' a'] eqn:E. rewrite IH.
  change s' with (fst (s', a')). rewrite <- E. autorewrite with cnt. reflexivity.
Qed.

Lemma cnt_get_root : forall L s, bcount (fst (get_root L s)) = bcount s.
Proof. intros. unfold get_root, fresh_node. brk. Qed.
#[export] Hint Rewrite cnt_distribute_loop cnt_promote_loop cnt_get_root : cnt.

Theorem cnt_b_add : forall cfg uq s k v,
  bcount (fst (b_add cfg uq s k v)) = bcount s + (if snd (b_add cfg uq s k v) then 1 else 0).
Proof.
  intros. unfold b_add.
  destruct (get_root (cL cfg) s) as [s0 root] eqn:E0.
  destruct (add_loop (fuel_of s0) cfg uq s0 root (mkItem (bnext_iid s) k v)) as [[[s1 ok] d] p] eqn:E1.
  assert (H0 : bcount s0 = bcount s) by (change s0 with (fst (s0, root)); rewrite <- E0; apply cnt_get_root).
  assert (H1 : bcount s1 = bcount s0).
  { change s1 with (fst (fst (fst (s1, ok, d, p)))). rewrite <- E1. apply cnt_add_loop. }
  destruct ok; cbn [fst snd bcount]; autorewrite with cnt; lia.
Qed.

(* ------------------------------------------------------------------ remove *)
Lemma cnt_unlink : forall L s id n, bcount (unlink L s id n) = bcount s.
Proof. intros. unfold unlink. brk. Qed.
Lemma cnt_promote_single : forall L s id n, bcount (fst (promote_single_child L s id n)) = bcount s.
Proof. intros. unfold promote_single_child. brk. Qed.
#[export] Hint Rewrite cnt_unlink cnt_promote_single : cnt.

Lemma cnt_remove_on_nil : forall L s id n i, bcount (fst (remove_on_nil_child L s id n i)) = bcount s.
Proof. intros. unfold remove_on_nil_child. brk. Qed.
Lemma cnt_fix_vacated : forall L s id n, bcount (fix_vacated_slot L s id n) = bcount s.
Proof. intros. unfold fix_vacated_slot. brk. Qed.
#[export] Hint Rewrite cnt_remove_on_nil cnt_fix_vacated : cnt.

Ltac via3 H :=
  match type of H with
  | ?e = (?b, _) => let E := fresh in
                    assert (E : bcount b = bcount (fst e)) by (rewrite H; reflexivity);
                    autorewrite with cnt in E
  end.

Theorem cnt_b_remove_current : forall cfg s,
  bcount (fst (b_remove_current cfg s)) = bcount s - (if snd (b_remove_current cfg s) then 1 else 0).
Proof.
  intros. unfold b_remove_current.
  repeat (cbn [fst snd bcount]; autorewrite with cnt;
          match goal with
          | |- context [match ?x with _ => _ end] => destruct x eqn:?
          | |- context [if ?x then _ else _] => destruct x eqn:?
          end);
  cbn [fst snd bcount]; autorewrite with cnt;
  repeat match goal with
         | H : remove_on_nil_child _ _ _ _ _ = (_, _) |- _ => via3 H; clear H
         | H : move_to_next _ _ _ = (_, _) |- _ => via3 H; clear H
         end; rewrite ?cnt_with_count; lia.
Qed.

(* ------------------------------------------------------------------ loops of FindWithID / Range *)
Ltac fin :=
  repeat match goal with H : _ = (_, _) |- _ => via3 H; clear H end; try lia; try congruence.

Lemma cnt_find_id_loop : forall fuel cfg s id, bcount (fst (find_id_loop fuel cfg s id)) = bcount s.
Proof. induction fuel as [|f IH]; intros; cbn [find_id_loop]; brk; try rewrite IH; fin. Qed.
#[export] Hint Rewrite cnt_find_id_loop : cnt.

Lemma cnt_range_skip : forall fuel cfg s from, bcount (fst (range_skip fuel cfg s from)) = bcount s.
Proof. induction fuel as [|f IH]; intros; cbn [range_skip]; brk; try rewrite IH; fin. Qed.
Lemma cnt_range_skip_desc : forall fuel cfg s from, bcount (fst (range_skip_desc fuel cfg s from)) = bcount s.
Proof. induction fuel as [|f IH]; intros; cbn [range_skip_desc]; brk; try rewrite IH; fin. Qed.
Lemma cnt_range_collect : forall fuel cfg s to acc, bcount (fst (range_collect fuel cfg s to acc)) = bcount s.
Proof. induction fuel as [|f IH]; intros; cbn [range_collect]; brk; try rewrite IH; fin. Qed.
Lemma cnt_range_collect_desc : forall fuel cfg s to acc, bcount (fst (range_collect_desc fuel cfg s to acc)) = bcount s.
Proof. induction fuel as [|f IH]; intros; cbn [range_collect_desc]; brk; try rewrite IH; fin. Qed.
#[export] Hint Rewrite cnt_range_skip cnt_range_skip_desc cnt_range_collect cnt_range_collect_desc : cnt.

Lemma cnt_b_range : forall cfg s from to, bcount (fst (b_range cfg s from to)) = bcount s.
Proof. intros. unfold b_range. brk; fin. Qed.
Lemma cnt_b_range_desc : forall cfg s from to, bcount (fst (b_range_desc cfg s from to)) = bcount s.
Proof. intros. unfold b_range_desc. brk; fin. Qed.
#[export] Hint Rewrite cnt_b_range cnt_b_range_desc : cnt.

(* ------------------------------------------------------------------ every call *)
Definition count_delta (o : op) (r : result) (before after : Z) : Prop :=
  match o with
  | OAdd _ _ | OAddIfNotExist _ _ => after = before + (if rok r then 1 else 0)
  | OUpsert _ _ => after = before \/ after = before + 1
  | ORemove _ | ORemoveCurrent => after = before - (if rok r then 1 else 0)
  | _ => after = before
  end.

Theorem bstep_count : forall cfg b o,
  count_delta o (snd (bstep cfg b o)) (bcount b) (bcount (fst (bstep cfg b o))).
Proof.
  intros cfg b o. destruct o; cbn [bstep count_delta bres fst snd rok ok_res].
  - apply cnt_b_add.
  - apply cnt_b_add.
  - pose proof (cnt_b_add cfg true b k v) as H.
    destruct (b_add cfg true b k v) as [s1 ok]. cbn [fst snd] in *. destruct ok; cbn [fst snd].
    + right. lia.
    + left. autorewrite with cnt. lia.
  - autorewrite with cnt. reflexivity.
  - autorewrite with cnt. reflexivity.
  - autorewrite with cnt. reflexivity.
  - autorewrite with cnt. reflexivity.
  - autorewrite with cnt. reflexivity.
  - pose proof (cnt_b_find cfg b k false) as H.
    destruct (b_find cfg b k false) as [s1 ok]. cbn [fst] in H. destruct ok; cbn [fst snd rok ok_res].
    + rewrite <- H. apply cnt_b_remove_current.
    + lia.
  - apply cnt_b_remove_current.
  - autorewrite with cnt. reflexivity.
  - autorewrite with cnt. reflexivity.
  - autorewrite with cnt. reflexivity.
  - autorewrite with cnt. reflexivity.
  - autorewrite with cnt. reflexivity.
  - autorewrite with cnt. reflexivity.
  - pose proof (cnt_b_find cfg b k true) as H.
    destruct (b_find cfg b k true) as [s1 ok]. cbn [fst] in H. destruct ok; cbn [fst snd]; [|lia].
    unfold bres. cbn [fst]. autorewrite with cnt. exact H.
  - autorewrite with cnt. reflexivity.
  - autorewrite with cnt. reflexivity.
  - autorewrite with cnt. reflexivity.
  - autorewrite with cnt. reflexivity.
Qed.

(* C13 — byte-level JSON primitives used by the StoreInfo model. Definitions only.
   - the part of encoding/json.Marshal that StoreInfo needs (string escaping with
     escapeHTML=true, integers, booleans, UUID text, flat nested object, omitempty);
   - fs.findTopLevelJSONMember / fs.patchJSONNumericField as REPAIRED by
     fixes/C13-patch-top-level-key.patch (patch_num), and the code before the repair
     (patch_num_v0) which is kept only to document the defect.
   Bytes are N < 256; strings are byte lists (UTF-8). *)
From Coq Require Import List ZArith NArith Bool.
From Coq Require Decimal DecimalN.
From SopVerif Require Import Lib.Bytes.
Import ListNotations.
Local Open Scope N_scope.

(* ---------------------------------------------------------------- characters *)
Definition c_quote : N := 34.     
Definition c_bslash : N := 92.    
Definition c_colon : N := 58.
Definition c_comma : N := 44.
Definition c_lbrace : N := 123.
Definition c_rbrace : N := 125.
Definition c_lbrack : N := 91.
Definition c_rbrack : N := 93.

Definition is_ws (c : N) : bool := (c =? 32) || (c =? 9) || (c =? 10) || (c =? 13).

Fixpoint list_N_eq (a b : list N) : bool :=
  match a, b with
  | [], [] => true
  | x :: a', y :: b' => (x =? y) && list_N_eq a' b'
  | _, _ => false
  end.

Fixpoint take_while (p : N -> bool) (l : list N) : list N :=
  match l with [] => [] | c :: r => if p c then c :: take_while p r else [] end.
Fixpoint drop_while (p : N -> bool) (l : list N) : list N :=
  match l with [] => [] | c :: r => if p c then drop_while p r else l end.

(* ---------------------------------------------------------------- integers: strconv.AppendInt(_, v, 10) / encoding/json ints *)
Fixpoint uint_bytes (u : Decimal.uint) : list N :=
  match u with
  | Decimal.Nil => []
  | Decimal.D0 r => 48 :: uint_bytes r | Decimal.D1 r => 49 :: uint_bytes r
  | Decimal.D2 r => 50 :: uint_bytes r | Decimal.D3 r => 51 :: uint_bytes r
  | Decimal.D4 r => 52 :: uint_bytes r | Decimal.D5 r => 53 :: uint_bytes r
  | Decimal.D6 r => 54 :: uint_bytes r | Decimal.D7 r => 55 :: uint_bytes r
  | Decimal.D8 r => 56 :: uint_bytes r | Decimal.D9 r => 57 :: uint_bytes r
  end.

Definition dec_N (n : N) : list N := uint_bytes (N.to_uint n).
Definition dec_Z (z : Z) : list N :=
  match z with
  | Z0 => [48]
  | Zpos p => dec_N (Npos p)
  | Zneg p => 45 :: dec_N (Npos p)
  end.

(* ---------------------------------------------------------------- strings: encoding/json appendString, escapeHTML = true *)
Definition hex_digit (n : N) : N := if n <? 10 then 48 + n else 87 + n.   (* lower case *)

(* One step of the escaping loop at byte c with the following bytes r: the bytes emitted
   and how many FOLLOWING input bytes are consumed with it (U+2028 / U+2029 are three bytes). *)
Definition esc_unit (c : N) (r : list N) : list N * nat :=
  if (c =? 34) || (c =? 92) then ([92; c], 0%nat)
  else if c =? 8 then ([92; 98], 0%nat)
  else if c =? 12 then ([92; 102], 0%nat)
  else if c =? 10 then ([92; 110], 0%nat)
  else if c =? 13 then ([92; 114], 0%nat)
  else if c =? 9 then ([92; 116], 0%nat)
  else if (c <? 32) || (c =? 60) || (c =? 62) || (c =? 38) then
    ([92; 117; 48; 48; hex_digit (c / 16); hex_digit (c mod 16)], 0%nat)
  else if c =? 226 then
    match r with
    | a :: b :: _ =>
        if (a =? 128) && (b =? 168) then ([92; 117; 50; 48; 50; 56], 2%nat)
        else if (a =? 128) && (b =? 169) then ([92; 117; 50; 48; 50; 57], 2%nat)
        else ([c], 0%nat)
    | _ => ([c], 0%nat)
    end
  else ([c], 0%nat).

Fixpoint esc_go (s : list N) (skip : nat) : list N :=
  match s with
  | [] => []
  | c :: r =>
      match skip with
      | S k => esc_go r k
      | O => let '(out, k) := esc_unit c r in out ++ esc_go r k
      end
  end.
(* exact for valid UTF-8 input (invalid sequences become U+FFFD in Go and are out of scope) *)
Definition esc (s : list N) : list N := esc_go s 0.
Definition ser_string (s : list N) : list N := c_quote :: esc s ++ [c_quote].

(* utf8.Valid, used by the well-formedness predicate and checked against Go *)
Fixpoint utf8_go (s : list N) (need : nat) (lo hi : N) : bool :=
  match s with
  | [] => match need with O => true | _ => false end
  | c :: r =>
      match need with
      | S k => (lo <=? c) && (c <=? hi) && utf8_go r k 128 191
      | O =>
          if c <? 128 then utf8_go r 0 128 191
          else if (194 <=? c) && (c <=? 223) then utf8_go r 1 128 191
          else if c =? 224 then utf8_go r 2 160 191
          else if ((225 <=? c) && (c <=? 236)) || (c =? 238) || (c =? 239) then utf8_go r 2 128 191
          else if c =? 237 then utf8_go r 2 128 159
          else if c =? 240 then utf8_go r 3 144 191
          else if (241 <=? c) && (c <=? 243) then utf8_go r 3 128 191
          else if c =? 244 then utf8_go r 3 128 143
          else false
      end
  end.
Definition valid_utf8 (s : list N) : bool := utf8_go s 0 128 191.

(* ---------------------------------------------------------------- UUID text (google/uuid MarshalText) *)
Fixpoint hex_bytes (u : list N) : list N :=
  match u with [] => [] | b :: r => hex_digit (b / 16) :: hex_digit (b mod 16) :: hex_bytes r end.
Definition uuid_text (u : list N) : list N :=
  hex_bytes (firstn 4 u) ++ 45 :: hex_bytes (firstn 2 (skipn 4 u)) ++ 45 :: hex_bytes (firstn 2 (skipn 6 u)) ++ 45 ::
  hex_bytes (firstn 2 (skipn 8 u)) ++ 45 :: hex_bytes (skipn 10 u).

(* ---------------------------------------------------------------- members *)
Inductive sval :=
| SStr (s : list N)
| SInt (z : Z)
| SBool (b : bool)
| SUuid (u : list N)
| SRaw (bs : list N).   (* a value serialised by encoding/json elsewhere (slices, maps); [] = empty/nil *)

Inductive mval :=
| MScalar (v : sval)
| MObject (ms : list (list N * sval)).   (* nested struct without omitempty members *)

Record member := mkMember { m_key : list N; m_omitempty : bool; m_val : mval }.

Definition ser_bool (b : bool) : list N := if b then [116;114;117;101] else [102;97;108;115;101].

Definition ser_sval (v : sval) : list N :=
  match v with
  | SStr s => ser_string s
  | SInt z => dec_Z z
  | SBool b => ser_bool b
  | SUuid u => c_quote :: uuid_text u ++ [c_quote]
  | SRaw bs => bs
  end.

Definition ser_key (k : list N) : list N := c_quote :: k ++ [c_quote; c_colon].

Fixpoint ser_flat (first : bool) (ms : list (list N * sval)) : list N :=
  match ms with
  | [] => []
  | (k, v) :: r => (if first then [] else [c_comma]) ++ ser_key k ++ ser_sval v ++ ser_flat false r
  end.

Definition ser_mval (v : mval) : list N :=
  match v with
  | MScalar s => ser_sval s
  | MObject ms => c_lbrace :: ser_flat true ms ++ [c_rbrace]
  end.

(* omitempty: empty string, empty slice/map *)
Definition omitted (m : member) : bool :=
  m_omitempty m &&
  match m_val m with
  | MScalar (SStr []) => true
  | MScalar (SRaw []) => true
  | _ => false
  end.

Fixpoint ser_members (first : bool) (ms : list member) : list N :=
  match ms with
  | [] => []
  | m :: r =>
      if omitted m then ser_members first r
      else (if first then [] else [c_comma]) ++ ser_key (m_key m) ++ ser_mval (m_val m) ++ ser_members false r
  end.

Definition ser_object (ms : list member) : list N := c_lbrace :: ser_members true ms ++ [c_rbrace].

(* ---------------------------------------------------------------- the repaired patcher *)
Definition prepend (c : N) (r : option (list N * list N)) : option (list N * list N) :=
  match r with None => None | Some (p, q) => Some (c :: p, q) end.

(* body of a string literal: (raw contents, bytes after the closing quote); None = unterminated *)
Fixpoint str_body (bs : list N) : option (list N * list N) :=
  match bs with
  | [] => None
  | c :: r =>
      if c =? c_quote then Some ([], r)
      else if c =? c_bslash then
        match r with
        | [] => None
        | e :: r' => prepend c (prepend e (str_body r'))
        end
      else prepend c (str_body r)
  end.

(* fs.findTopLevelJSONMember: Some (pre, post) with data = pre ++ post and pre ending in the ':' of the
   member named f at nesting depth 1. skip = bytes of an already examined string literal still to pass. *)
Fixpoint find_member (f : list N) (bs : list N) (depth : Z) (skip : nat) : option (list N * list N) :=
  match bs with
  | [] => None
  | c :: r =>
      match skip with
      | S k => prepend c (find_member f r depth k)
      | O =>
          if (c =? c_lbrace) || (c =? c_lbrack) then prepend c (find_member f r (depth + 1) 0)
          else if (c =? c_rbrace) || (c =? c_rbrack) then prepend c (find_member f r (depth - 1) 0)
          else if c =? c_quote then
            match str_body r with
            | None => None
            | Some (s, rest) =>
                match drop_while is_ws rest with
                | c2 :: post =>
                    if (depth =? 1)%Z && list_N_eq s f && (c2 =? c_colon)
                    then Some (c :: s ++ c_quote :: take_while is_ws rest ++ [c_colon], post)
                    else prepend c (find_member f r depth (length s + 1))
                | [] => prepend c (find_member f r depth (length s + 1))
                end
            end
          else prepend c (find_member f r depth 0)
      end
  end.

Definition value_end (c : N) : bool := (c =? c_comma) || (c =? c_rbrace).

(* fs.patchJSONNumericField after the repair; None = error (the caller falls back to a full re-marshal) *)
Definition patch_num (data f : list N) (v : Z) : option (list N) :=
  match find_member f data 0 0 with
  | None => None
  | Some (pre, post) =>
      let ws := take_while is_ws post in
      let post1 := drop_while is_ws post in
      let old := take_while (fun c => negb (value_end c)) post1 in
      let rest := drop_while (fun c => negb (value_end c)) post1 in
      match old with
      | [] => None
      | _ => Some (pre ++ ws ++ dec_Z v ++ rest)
      end
  end.

(* ---------------------------------------------------------------- the patcher BEFORE the repair (documentation of the defect) *)
Fixpoint starts_with (p l : list N) : bool :=
  match p, l with
  | [], _ => true
  | x :: p', y :: l' => (x =? y) && starts_with p' l'
  | _, [] => false
  end.

(* bytes.Index: (before, from the match on) *)
Fixpoint index_split (p l : list N) : option (list N * list N) :=
  if starts_with p l then Some ([], l)
  else match l with [] => None | c :: r => prepend c (index_split p r) end.

Definition patch_num_v0 (data f : list N) (v : Z) : option (list N) :=
  let key := c_quote :: f ++ [c_quote] in
  match index_split key data with
  | None => None
  | Some (before, from_key) =>
      let after_key := skipn (length key) from_key in
      match index_split [c_colon] after_key with
      | None => None
      | Some (to_colon, from_colon) =>
          let post := tl from_colon in
          let ws := take_while is_ws post in
          let post1 := drop_while is_ws post in
          let old := take_while (fun c => negb (value_end c)) post1 in
          let rest := drop_while (fun c => negb (value_end c)) post1 in
          match old with
          | [] => None
          | _ => Some (before ++ key ++ to_colon ++ c_colon :: ws ++ dec_Z v ++ rest)
          end
      end
  end.

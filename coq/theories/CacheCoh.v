(* C20 model: the cache hierarchy around one registry + blob store.
   P processes (numbered by N). Per process: L1 handle MRU (cache.L1Cache.Handles, written only by the
   registry's Add/Update/UpdateNoLocks/Remove of THAT process), L1 node MRU keyed by physical id and
   holding the node version. L2 instances: [cfg p] is the L2 cache used by process p (clustered: one shared
   instance, cfg constant; standalone: one per process). Disk: registry (logical id -> handle) and blob
   store (physical id -> content). [written] is a ghost map: what was ever written under a physical id.
   Steps: a committed node update by a process (commitUpdatedNodes + phase2Commit + populateMru + cleanup
   collapsed: the registry write-through of fs/registry.go, the node SetStruct, the L1 population and the
   deletion of the superseded blob and its cache entries), nodeRepositoryBackend.get (with or without the
   phase-0 fast path), and an adversary evicting any single cache entry. Capacities/TTLs are subsumed by
   the adversary. Definitions only. *)
From Coq Require Import NArith Bool List.
Import ListNotations.
Local Open Scope N_scope.

Record handle := mkH { act : N; hver : N }.

Definition upd {A} (f : N -> A) (k : N) (v : A) : N -> A := fun x => if N.eqb x k then v else f x.
Definition upd2 {A} (f : N -> N -> A) (i k : N) (v : A) : N -> N -> A := upd f i (upd (f i) k v).

Record st := mkSt {
  reg : N -> option handle;
  blob : N -> option N;
  written : N -> option N;
  l1h : N -> N -> option handle;
  l1n : N -> N -> option (N * N);     (* version, content *)
  l2h : N -> N -> option handle;
  l2n : N -> N -> option N;
  next : N }.

Definition st0 : st :=
  mkSt (fun _ => None) (fun _ => None) (fun _ => None) (fun _ _ => None) (fun _ _ => None)
       (fun _ _ => None) (fun _ _ => None) 1.

Inductive ev :=
| Write (p l c : N)
| Read (p l : N) (fast : bool)
| EvL1h (p l : N) | EvL1n (p pid : N) | EvL2h (i l : N) | EvL2n (i pid : N).

(* registryOnDisk.Get for one id: L2 first, then disk (and the L2 entry is refreshed) *)
Definition reg_get (cfg : N -> N) (s : st) (p l : N) : option handle * st :=
  match l2h s (cfg p) l with
  | Some h => (Some h, s)
  | None =>
      match reg s l with
      | Some h => (Some h, mkSt (reg s) (blob s) (written s) (l1h s) (l1n s) (upd2 (l2h s) (cfg p) l (Some h)) (l2n s) (next s))
      | None => (None, s)
      end
  end.

(* a committed update of node l by process p with new content c (the commit's own version check and
   refetch make it act on the registry's current handle) *)
Definition write (cfg : N -> N) (s : st) (p l c : N) : st :=
  let n := next s in
  let v := match reg s l with Some h => hver h + 1 | None => 1 end in
  let h' := mkH n v in
  let drop {A} (f : N -> option A) : N -> option A :=
      match reg s l with Some h => upd f (act h) None | None => f end in
  mkSt (upd (reg s) l (Some h'))
       (upd (drop (blob s)) n (Some c))
       (upd (written s) n (Some c))
       (upd2 (l1h s) p l (Some h'))
       (upd (l1n s) p (upd (drop (l1n s p)) n (Some (v, c))))
       (upd2 (l2h s) (cfg p) l (Some h'))
       (upd (l2n s) (cfg p) (upd (drop (l2n s (cfg p))) n (Some c)))
       (n + 1).

Definition l1n_hit (s : st) (p : N) (h : handle) : option N :=
  match l1n s p (act h) with
  | Some (v, c) => if N.eqb v (hver h) then Some c else None
  | None => None
  end.

(* nodeRepositoryBackend.get; [fast] = transaction.phaseDone = 0 *)
Definition read (cfg : N -> N) (s : st) (p l : N) (fast : bool) : option N * st :=
  let fp := if fast then match l1h s p l with Some h => l1n_hit s p h | None => None end else None in
  match fp with
  | Some c => (Some c, s)
  | None =>
      let '(oh, s1) := reg_get cfg s p l in
      match oh with
      | None => (None, s1)
      | Some h =>
          match l1n_hit s1 p h with
          | Some c => (Some c, s1)
          | None =>
              match l2n s1 (cfg p) (act h) with
              | Some c =>
                  (Some c, mkSt (reg s1) (blob s1) (written s1) (l1h s1) (upd2 (l1n s1) p (act h) (Some (hver h, c))) (l2h s1) (l2n s1) (next s1))
              | None =>
                  match blob s1 (act h) with
                  | Some c =>
                      (Some c, mkSt (reg s1) (blob s1) (written s1) (l1h s1) (upd2 (l1n s1) p (act h) (Some (hver h, c)))
                                    (l2h s1) (upd2 (l2n s1) (cfg p) (act h) (Some c)) (next s1))
                  | None => (None, s1)
                  end
              end
          end
      end
  end.

Definition step (cfg : N -> N) (s : st) (e : ev) : st * option (option N) :=
  match e with
  | Write p l c => (write cfg s p l c, None)
  | Read p l f => let '(r, s1) := read cfg s p l f in (s1, Some r)
  | EvL1h p l => (mkSt (reg s) (blob s) (written s) (upd2 (l1h s) p l None) (l1n s) (l2h s) (l2n s) (next s), None)
  | EvL1n p x => (mkSt (reg s) (blob s) (written s) (l1h s) (upd2 (l1n s) p x None) (l2h s) (l2n s) (next s), None)
  | EvL2h i l => (mkSt (reg s) (blob s) (written s) (l1h s) (l1n s) (upd2 (l2h s) i l None) (l2n s) (next s), None)
  | EvL2n i x => (mkSt (reg s) (blob s) (written s) (l1h s) (l1n s) (l2h s) (upd2 (l2n s) i x None) (next s), None)
  end.

Fixpoint run (cfg : N -> N) (s : st) (es : list ev) : st * list (option N) :=
  match es with
  | [] => (s, [])
  | e :: r =>
      let '(s1, o) := step cfg s e in
      let '(s2, l) := run cfg s1 r in
      (s2, match o with Some x => x :: l | None => l end)
  end.

(* what the property demands of a read of l: the blob under the active id of the registry's handle *)
Definition latest (s : st) (l : N) : option N :=
  match reg s l with Some h => blob s (act h) | None => None end.

Definition clustered : N -> N := fun _ => 0.
Definition standalone : N -> N := fun p => p.

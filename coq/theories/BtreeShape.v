(* Stage 1 of the refinement proof (navigation on well-formed trees), first part:
   an inductive tree-shape predicate over the node map (nil children allowed, any
   slot length, unbalanced trees allowed), the in-order walk of a shaped tree, and the
   simulation of First on EVERY shaped state. *)
From Coq Require Import List ZArith NArith Bool Lia.
From Coq Require Import ZifyBool ZifyNat ZifyN.
From SopVerif Require Import OMap OMapProofs Btree BtreeSim BtreeProofs BtreeProofs2.
Import ListNotations.
Local Open Scope Z_scope.

(* in-order list of a node given the in-order lists of its children *)
Definition node_list (n : node) (kids : list (list item)) : list item :=
  flat_map (fun i => nth i kids [] ++
                     (if Nat.ltb i (Z.to_nat (ncount n)) then [nth i (nslots n) zero_item] else []))
           (seq 0 (S (Z.to_nat (ncount n)))).

(* shape m h id l: the node id roots a tree of height <= h whose in-order walk is l *)
Inductive shape (m : nodemap) : nat -> N -> list item -> Prop :=
| Shape : forall h id n kids,
    id <> 0%N -> nm_get m id = Some n -> 1 <= ncount n -> ncount n <= Z.of_nat (length (nslots n)) ->
    (nchildren n = None -> forall i, nth i kids [] = []) ->
    (forall ch, nchildren n = Some ch -> forall i, (i <= Z.to_nat (ncount n))%nat ->
        (nth i ch 0%N = 0%N /\ nth i kids [] = []) \/
        (nth i ch 0%N <> 0%N /\ shape m h (nth i ch 0%N) (nth i kids []))) ->
    shape m (S h) id (node_list n kids).

Lemma flat_map_ext_in' : forall {A B} (f g : A -> list B) l, (forall a, In a l -> f a = g a) ->
  flat_map f l = flat_map g l.
Proof.
  induction l as [|x r IH]; intros H; cbn; auto.
  rewrite (H x (or_introl eq_refl)), IH; auto. intros a Ha. apply H. right. exact Ha.
Qed.

Lemma inorder_nil_id : forall fuel m, inorder fuel m 0%N = [].
Proof. destruct fuel; reflexivity. Qed.

(* the model's in-order walk of a shaped tree is the shape's list *)
Lemma inorder_shape : forall m h id l, shape m h id l -> forall fuel, (h <= fuel)%nat -> inorder fuel m id = l.
Proof.
  intros m h. induction h as [|h IH]; intros id l Hs fuel Hf; [inversion Hs|].
  inversion Hs as [h' id' n kids Hid Hget Hcnt Hlen Hnone Hsome]; subst.
  destruct fuel as [|f]; [lia|]. cbn [inorder].
  destruct (N.eqb id 0) eqn:E; [apply N.eqb_eq in E; congruence|]. rewrite Hget.
  unfold node_list. apply flat_map_ext_in'. intros i Hi. apply in_seq in Hi. f_equal.
  destruct (nchildren n) as [ch|] eqn:Ech.
  - destruct (Hsome ch eq_refl i ltac:(lia)) as [[H0 Hk]|[Hn0 Hsh]].
    + rewrite H0, Hk. apply inorder_nil_id.
    + apply IH; [exact Hsh|lia].
  - symmetry. apply Hnone. reflexivity.
Qed.

Lemma node_list_head : forall n kids, 1 <= ncount n ->
  node_list n kids = nth 0 kids [] ++ nth 0 (nslots n) zero_item ::
                     flat_map (fun i => nth i kids [] ++
                                (if Nat.ltb i (Z.to_nat (ncount n)) then [nth i (nslots n) zero_item] else []))
                              (seq 1 (Z.to_nat (ncount n))).
Proof.
  intros n kids Hc. unfold node_list. cbn [seq flat_map].
  destruct (Nat.ltb 0 (Z.to_nat (ncount n))) eqn:E; [|apply Nat.ltb_ge in E; lia].
  rewrite <- app_assoc. reflexivity.
Qed.

Lemma shape_nonempty : forall m h id l, shape m h id l -> l <> [].
Proof.
  intros m h id l Hs. inversion Hs as [h' id' n kids Hid Hget Hcnt Hlen Hnone Hsome]; subst.
  rewrite node_list_head by exact Hcnt. intros H. apply app_eq_nil in H as [_ H]. discriminate.
Qed.

(* moveToFirst ends on the node whose first slot is the head of the in-order walk *)
Lemma first_shape : forall h s id l, shape (bnodes s) h id l -> forall fuel, (h <= fuel)%nat ->
  exists n', getn s (move_to_first_loop fuel s id) = Some n' /\ 1 <= ncount n' /\
             move_to_first_loop fuel s id <> 0%N /\ hd zero_item l = slot n' 0.
Proof.
  induction h as [|h IH]; intros s id l Hs fuel Hf; [inversion Hs|].
  inversion Hs as [h' id' n kids Hid Hget Hcnt Hlen Hnone Hsome]; subst.
  destruct fuel as [|f]; [lia|]. cbn [move_to_first_loop].
  assert (Hgetn : getn s id = Some n).
  { unfold getn. destruct (N.eqb id 0) eqn:E; [apply N.eqb_eq in E; congruence|exact Hget]. }
  rewrite Hgetn. rewrite node_list_head by exact Hcnt.
  assert (Hslot : slot n 0 = nth 0 (nslots n) zero_item) by reflexivity.
  destruct (nchildren n) as [ch|] eqn:Ech.
  - unfold child_id. rewrite Ech. change (zget 0%N ch 0) with (nth 0 ch 0%N).
    destruct (Hsome ch eq_refl 0%nat ltac:(lia)) as [[H0 Hk]|[Hn0 Hsh]].
    + rewrite H0. cbn [N.eqb]. rewrite Hk. cbn [app hd]. exists n. repeat split; auto.
    + destruct (N.eqb (nth 0 ch 0%N) 0) eqn:E; [apply N.eqb_eq in E; congruence|].
      destruct (IH s _ _ Hsh f ltac:(lia)) as [n' [Hg [Hc' [Hne Hhd]]]].
      assert (Hchild : exists cn, getn s (nth 0 ch 0%N) = Some cn).
      { inversion Hsh as [h2 id2 n2 kids2 Hid2 Hget2 _ _ _ _]; subst. exists n2. unfold getn.
        rewrite E. exact Hget2. }
      destruct Hchild as [cn Hcn]. rewrite Hcn.
      exists n'. repeat split; auto.
      pose proof (shape_nonempty _ _ _ _ Hsh) as Hk.
      destruct (nth 0 kids []) as [|x r]; [congruence|]. cbn [app hd] in *. exact Hhd.
  - rewrite (Hnone eq_refl 0%nat). cbn [app hd]. exists n. repeat split; auto.
Qed.

(* ------------------------------------------------------------------ the relation and First *)
Record RelT (b : bstate) (s : omap) : Prop := mkRelT {
  rt_items : items s = b_inorder b;
  rt_count : ocount s = bcount b;
  rt_cached : cached s = bcached b;
  rt_cursor : same_cursor s b = true;
  rt_curkey : current_key s = bcurrent_key b;
  rt_shape : bcount b <> 0 -> exists h, shape (bnodes b) h (broot b) (b_inorder b) /\ (h <= fuel_of b)%nat
}.

Lemma item_eqb_refl : forall x, item_eqb x x = true.
Proof. intros [i k v]. unfold item_eqb. cbn. rewrite N.eqb_refl, !Z.eqb_refl. reflexivity. Qed.
Lemma items_eqb_refl : forall l, items_eqb l l = true.
Proof. induction l as [|x r IH]; cbn; auto. rewrite item_eqb_refl, IH. reflexivity. Qed.

Lemma ekind_eqb_refl : forall e, ekind_eqb e e = true.
Proof. destruct e; reflexivity. Qed.

Lemma agree_intro : forall s r b rb, rok r = rok rb -> rerr r = rerr rb -> rout r = rout rb ->
  ocount s = bcount b -> current_key s = bcurrent_key b -> cached s = bcached b ->
  same_cursor s b = true -> items s = b_inorder b -> agree s r b rb = true.
Proof.
  intros s r b rb H1 H2 H3 H4 H5 H6 H7 H8. unfold agree.
  rewrite H1, H2, H3, H4, H5, H6, H7, H8.
  rewrite eqb_reflx, ekind_eqb_refl, items_eqb_refl, Z.eqb_refl, item_eqb_refl, eqb_reflx, items_eqb_refl.
  reflexivity.
Qed.

Theorem first_sim : forall cfg b s, RelT b s ->
  exists b' s', sim_step cfg b s OFirst = Some (b', s') /\ RelT b' s'.
Proof.
  intros cfg b s [Hi Hc Hca Hcur Hck Hsh].
  unfold sim_step. cbn [bstep ostep bres]. unfold b_first.
  destruct (bcount b =? 0) eqn:E0.
  - (* empty store: both layers answer false and change nothing *)
    assert (Hnil : items s = []).
    { unfold ocount in Hc. destruct (items s); [reflexivity|cbn in Hc; lia]. }
    cbn [fst snd]. rewrite Hnil.
    exists b, s. split; [|constructor; auto; intros; lia].
    rewrite agree_intro; auto.
  - destruct (Hsh ltac:(lia)) as [h [Hshape Hh]].
    destruct (first_shape h b (broot b) (b_inorder b) Hshape (fuel_of b) Hh) as [n' [Hg [Hc' [Hne Hhd]]]].
    pose proof (shape_nonempty _ _ _ _ Hshape) as Hnz.
    unfold move_to_first. cbn [fst snd].
    set (id' := move_to_first_loop (fuel_of b) b (broot b)) in *.
    set (b' := load_current (set_current b id' 0)).
    assert (Hb' : b' = with_cached (set_current b id' 0) true).
    { unfold b', load_current. cbn [bcur_node set_current]. destruct (N.eqb id' 0) eqn:E; [apply N.eqb_eq in E; congruence|reflexivity]. }
    assert (Hin : b_inorder b' = b_inorder b) by (rewrite Hb'; reflexivity).
    destruct (items s) as [|x0 r0] eqn:El; [rewrite <- Hi in Hnz; congruence|].
    rewrite <- El in *.
    exists b', (set_cur s (CAt 0) true).
    assert (Hx : nth_error (items s) 0 = Some (slot n' 0)).
    { rewrite <- Hhd, <- Hi, El. reflexivity. }
    assert (Hgb' : getn b' id' = Some n') by (rewrite Hb'; exact Hg).
    assert (Hcurs : same_cursor (set_cur s (CAt 0) true) b' = true).
    { unfold same_cursor. cbn [cur set_cur items]. rewrite Hb'. cbn [bcur_node bcur_idx with_cached set_current].
      destruct (N.eqb id' 0) eqn:E; [apply N.eqb_eq in E; congruence|]. cbn [negb andb].
      change (getn (with_cached (set_current b id' 0) true) id') with (getn b id'). rewrite Hg, Hx.
      rewrite item_eqb_refl. assert ((0 <? ncount n') = true) by lia. rewrite H. reflexivity. }
    assert (Hkey : current_key (set_cur s (CAt 0) true) = bcurrent_key b').
    { unfold current_key, bcurrent_key, cur_item, cursor_item. cbn [cached cur set_cur items]. rewrite Hx.
      rewrite Hb'. cbn [bcached bcur_node bcur_idx with_cached set_current].
      change (getn (with_cached (set_current b id' 0) true) id') with (getn b id'). rewrite Hg. reflexivity. }
    split.
    + rewrite agree_intro; auto.
      * unfold ocount. cbn [items set_cur]. fold (ocount s). rewrite Hc, Hb'. reflexivity.
      * rewrite Hb'. reflexivity.
      * cbn [items set_cur]. rewrite Hin. exact Hi.
    + constructor; auto.
      * cbn [items set_cur]. rewrite Hin. exact Hi.
      * unfold ocount. cbn [items set_cur]. fold (ocount s). rewrite Hc, Hb'. reflexivity.
      * rewrite Hb'. reflexivity.
      * intros _. exists h. rewrite Hin, Hb'. cbn [bnodes broot with_cached set_current]. split; [exact Hshape|exact Hh].
Qed.

(* ------------------------------------------------------------------ Last *)
Lemma seq_snoc : forall a n, seq a (S n) = seq a n ++ [(a + n)%nat].
Proof. intros. rewrite seq_S. reflexivity. Qed.

Lemma node_list_last : forall n kids, 1 <= ncount n ->
  exists pre, node_list n kids =
    pre ++ nth (Z.to_nat (ncount n - 1)) (nslots n) zero_item :: nth (Z.to_nat (ncount n)) kids [].
Proof.
  intros n kids Hc. unfold node_list.
  remember (Z.to_nat (ncount n)) as c eqn:Ec.
  destruct c as [|c']; [lia|].
  assert (Hc' : c' = Z.to_nat (ncount n - 1)) by lia.
  rewrite (seq_snoc 0 (S c')), flat_map_app. cbn [flat_map plus].
  rewrite Nat.ltb_irrefl, !app_nil_r.
  rewrite (seq_snoc 0 c'), flat_map_app. cbn [flat_map plus]. rewrite app_nil_r.
  assert (Hlt : Nat.ltb c' (S c') = true) by (apply Nat.ltb_lt; lia). rewrite Hlt.
  rewrite <- Hc'.
  match goal with |- exists _, (?A ++ ?B ++ _) ++ _ = _ => exists (A ++ B) end.
  rewrite <- !app_assoc. cbn [app]. reflexivity.
Qed.

Lemma last_app_cons : forall (a : list item) x b, last (a ++ x :: b) zero_item = last (x :: b) zero_item.
Proof.
  induction a as [|y a IH]; intros; [reflexivity|]. cbn [app].
  change (last (y :: a ++ x :: b) zero_item) with
    (match a ++ x :: b with [] => y | _ => last (a ++ x :: b) zero_item end).
  destruct (a ++ x :: b) eqn:E; [destruct a; discriminate|]. rewrite <- E. apply IH.
Qed.

Lemma last_cons_nonempty : forall (x : item) b, b <> [] -> last (x :: b) zero_item = last b zero_item.
Proof. intros x [|y r] H; [congruence|reflexivity]. Qed.

Lemma last_shape : forall h s id l, shape (bnodes s) h id l -> forall fuel, (h <= fuel)%nat ->
  exists id' n', move_to_last_loop fuel s id = Some id' /\ getn s id' = Some n' /\ 1 <= ncount n' /\
                 id' <> 0%N /\ last l zero_item = slot n' (ncount n' - 1).
Proof.
  induction h as [|h IH]; intros s id l Hs fuel Hf; [inversion Hs|].
  inversion Hs as [h' id' n kids Hid Hget Hcnt Hlen Hnone Hsome]; subst.
  destruct fuel as [|f]; [lia|]. cbn [move_to_last_loop].
  assert (Hgetn : getn s id = Some n).
  { unfold getn. destruct (N.eqb id 0) eqn:E; [apply N.eqb_eq in E; congruence|exact Hget]. }
  rewrite Hgetn. destruct (node_list_last n kids Hcnt) as [pre Hl]. rewrite Hl, last_app_cons.
  assert (Hslot : slot n (ncount n - 1) = nth (Z.to_nat (ncount n - 1)) (nslots n) zero_item).
  { unfold slot, zget. destruct (ncount n - 1 <? 0) eqn:E; [lia|reflexivity]. }
  destruct (nchildren n) as [ch|] eqn:Ech.
  - unfold child_id. rewrite Ech.
    assert (Hz : zget 0%N ch (ncount n) = nth (Z.to_nat (ncount n)) ch 0%N).
    { unfold zget. destruct (ncount n <? 0) eqn:E; [lia|reflexivity]. }
    rewrite Hz.
    destruct (Hsome ch eq_refl (Z.to_nat (ncount n)) ltac:(lia)) as [[H0 Hk]|[Hn0 Hsh]].
    + rewrite H0. cbn [N.eqb]. rewrite Hk. cbn [last]. exists id, n. repeat split; auto.
    + destruct (N.eqb (nth (Z.to_nat (ncount n)) ch 0%N) 0) eqn:E; [apply N.eqb_eq in E; congruence|].
      destruct (IH s _ _ Hsh f ltac:(lia)) as [id2 [n2 [Hloop [Hg [Hc' [Hne Hlast]]]]]].
      assert (Hchild : exists cn, getn s (nth (Z.to_nat (ncount n)) ch 0%N) = Some cn).
      { inversion Hsh as [h2 i2 n3 kids2 Hid2 Hget2 _ _ _ _]; subst. exists n3. unfold getn. rewrite E. exact Hget2. }
      destruct Hchild as [cn Hcn]. rewrite Hcn.
      exists id2, n2. repeat split; auto.
      rewrite last_cons_nonempty by (eapply shape_nonempty; eauto). exact Hlast.
  - rewrite (Hnone eq_refl (Z.to_nat (ncount n))). cbn [last]. exists id, n. repeat split; auto.
Qed.

Lemma nth_error_last : forall (l : list item), l <> [] -> nth_error l (pred (length l)) = Some (last l zero_item).
Proof.
  induction l as [|x r IH]; intros H; [congruence|].
  destruct r as [|y r']; [reflexivity|]. cbn [length pred]. cbn [nth_error].
  change (last (x :: y :: r') zero_item) with (last (y :: r') zero_item).
  apply (IH ltac:(discriminate)).
Qed.

Theorem last_sim : forall cfg b s, RelT b s ->
  exists b' s', sim_step cfg b s OLast = Some (b', s') /\ RelT b' s'.
Proof.
  intros cfg b s [Hi Hc Hca Hcur Hck Hsh].
  unfold sim_step. cbn [bstep ostep bres]. unfold b_last.
  destruct (bcount b =? 0) eqn:E0.
  - assert (Hnil : items s = []).
    { unfold ocount in Hc. destruct (items s); [reflexivity|cbn in Hc; lia]. }
    cbn [fst snd]. rewrite Hnil.
    exists b, s. split; [|constructor; auto; intros; lia].
    rewrite agree_intro; auto.
  - destruct (Hsh ltac:(lia)) as [h [Hshape Hh]].
    destruct (last_shape h b (broot b) (b_inorder b) Hshape (fuel_of b) Hh) as [id' [n' [Hloop [Hg [Hc' [Hne Hlast]]]]]].
    pose proof (shape_nonempty _ _ _ _ Hshape) as Hnz.
    unfold move_to_last. rewrite Hloop, Hg. cbn [fst snd].
    assert (Hneb : negb (N.eqb id' 0) = true) by (destruct (N.eqb id' 0) eqn:E; [apply N.eqb_eq in E; congruence|reflexivity]).
    rewrite Hneb.
    set (b' := load_current (set_current b id' (ncount n' - 1))).
    assert (Hb' : b' = with_cached (set_current b id' (ncount n' - 1)) true).
    { unfold b', load_current. cbn [bcur_node set_current]. destruct (N.eqb id' 0); [discriminate|reflexivity]. }
    assert (Hin : b_inorder b' = b_inorder b) by (rewrite Hb'; reflexivity).
    destruct (items s) as [|x0 r0] eqn:El; [rewrite <- Hi in Hnz; congruence|].
    rewrite <- El in *.
    exists b', (set_cur s (CAt (pred (length (items s)))) true).
    assert (Hx : nth_error (items s) (pred (length (items s))) = Some (slot n' (ncount n' - 1))).
    { rewrite <- Hlast, <- Hi. apply nth_error_last. rewrite El. discriminate. }
    assert (Hcurs : same_cursor (set_cur s (CAt (pred (length (items s)))) true) b' = true).
    { unfold same_cursor. cbn [cur set_cur items]. rewrite Hb'. cbn [bcur_node bcur_idx with_cached set_current].
      rewrite Hneb. cbn [andb].
      change (getn (with_cached (set_current b id' (ncount n' - 1)) true) id') with (getn b id'). rewrite Hg, Hx.
      rewrite item_eqb_refl.
      assert (((0 <=? ncount n' - 1) && (ncount n' - 1 <? ncount n'))%bool = true) by lia. rewrite H. reflexivity. }
    assert (Hkey : current_key (set_cur s (CAt (pred (length (items s)))) true) = bcurrent_key b').
    { unfold current_key, bcurrent_key, cur_item, cursor_item. cbn [cached cur set_cur items]. rewrite Hx.
      rewrite Hb'. cbn [bcached bcur_node bcur_idx with_cached set_current].
      change (getn (with_cached (set_current b id' (ncount n' - 1)) true) id') with (getn b id'). rewrite Hg. reflexivity. }
    split.
    + rewrite agree_intro; auto.
      * unfold ocount. cbn [items set_cur]. fold (ocount s). rewrite Hc, Hb'. reflexivity.
      * rewrite Hb'. reflexivity.
      * cbn [items set_cur]. rewrite Hin. exact Hi.
    + constructor; auto.
      * cbn [items set_cur]. rewrite Hin. exact Hi.
      * unfold ocount. cbn [items set_cur]. fold (ocount s). rewrite Hc, Hb'. reflexivity.
      * rewrite Hb'. reflexivity.
      * intros _. exists h. rewrite Hin, Hb'. cbn [bnodes broot with_cached set_current]. split; [exact Hshape|exact Hh].
Qed.

(* every sequence of First / Last calls simulates from every shaped pair of states *)
Definition is_first_last (o : op) : Prop := o = OFirst \/ o = OLast.

Theorem first_last_refines : forall cfg b s ops, RelT b s -> Forall is_first_last ops ->
  sim_from cfg b s ops = true.
Proof.
  intros cfg b s ops HR Hall.
  apply (sim_lift cfg RelT is_first_last); auto.
  intros b0 s0 o HR0 [->| ->]; [apply first_sim|apply last_sim]; exact HR0.
Qed.

(* non-vacuity: the state after three adds at slot length 2 (a root split: root + two leaves) is
   shaped and related to the specification state of the same calls, and First / Last simulate *)
Example shaped_state :
  let ops := [OAdd 1 1; OAdd 2 2; OAdd 3 3] in
  let b := fst (brun (mkCfg 2 false false) empty_bstate ops) in
  exists s, RelT b s /\ sim_from (mkCfg 2 false false) b s [OFirst; OLast; OLast; OFirst] = true.
Proof.
  cbv zeta.
  set (b := fst (brun (mkCfg 2 false false) empty_bstate [OAdd 1 1; OAdd 2 2; OAdd 3 3])).
  set (s := mkOMap [mkItem 1 1 1; mkItem 2 2 2; mkItem 3 3 3] CNone false 4%N).
  assert (HR : RelT b s).
  { constructor; try (vm_compute; reflexivity).
    intros _. exists 2%nat. split; [|vm_compute; lia].
    assert (Hb : bnodes b =
      [(1%N, mkNode 0 [mkItem 2 2 2; zero_item] 1 (Some [3%N; 2%N; 0%N]));
       (3%N, mkNode 1 [mkItem 1 1 1; zero_item] 1 None);
       (2%N, mkNode 1 [mkItem 3 3 3; zero_item] 1 None)]) by (vm_compute; reflexivity).
    assert (Hr : broot b = 1%N) by (vm_compute; reflexivity).
    assert (Hi : b_inorder b = [mkItem 1 1 1; mkItem 2 2 2; mkItem 3 3 3]) by (vm_compute; reflexivity).
    rewrite Hb, Hr, Hi.
    change [mkItem 1 1 1; mkItem 2 2 2; mkItem 3 3 3] with
      (node_list (mkNode 0 [mkItem 2 2 2; zero_item] 1 (Some [3%N; 2%N; 0%N])) [[mkItem 1 1 1]; [mkItem 3 3 3]]).
    apply Shape; try (cbn; congruence || lia || reflexivity).
    intros ch Hch i Hi'. inversion Hch; subst ch. cbn in Hi'.
      destruct i as [|[|i]]; [| |lia]; right; (split; [cbn; discriminate|]); cbn [nth].
      + change [mkItem 1 1 1] with (node_list (mkNode 1 [mkItem 1 1 1; zero_item] 1 None) []).
        apply Shape; try (cbn; congruence || lia || reflexivity).
        intros _ j. destruct j; reflexivity.
      + change [mkItem 3 3 3] with (node_list (mkNode 1 [mkItem 3 3 3; zero_item] 1 None) []).
        apply Shape; try (cbn; congruence || lia || reflexivity).
        intros _ j. destruct j; reflexivity. }
  exists s. split; [exact HR|].
  apply first_last_refines; [exact HR|]. unfold is_first_last. repeat (constructor; [tauto|]). constructor.
Qed.

(* Proto — the single-transaction commit protocol of common.Transaction over the storage
   interfaces, at interface-call granularity.

   Transcribed from /repo/common/twophasecommittransaction.go (phase1Commit, phase2Commit,
   Phase1Commit/Phase2Commit error paths), twophasecommittransaction2.go (rollback, cleanup,
   getToBeObsoleteEntries, commitStores) and noderepository.backend.go (commitNewRootNodes,
   areFetchedItemsIntact, commitUpdatedNodes, commitRemovedNodes, commitAddedNodes,
   rollback*Nodes, activateInactiveNodes, touchNodes), transactionlogger.go (log, priorityRollback)
   and /repo/handle.go.

   Abstractions: ids are naturals (UUIDs canonicalised by the harness, 0 = NilUUID); node and
   value contents are opaque (a blob is identified by its id); the B-tree layer hands the commit
   its classified node sets (record txn); L2-cache calls (locks, node cache) are not part of the
   durable state and are left out; the work-in-progress timestamp is 0, 1 (the marker written at
   activation, always "expired") or 2 (a current timestamp, never expired inside one commit).
   Definitions only; proofs are in ProtoProofs.v. *)
From Coq Require Import List ZArith NArith Bool.
Import ListNotations.
Local Open Scope N_scope.

(* ------------------------------------------------------------------ handles (handle.go) *)

Record handle := mkH { lid : N; ida : N; idb : N; activeB : bool; ver : Z; wip : N; del : bool }.

Definition active (h : handle) : N := if activeB h then idb h else ida h.
Definition inactive (h : handle) : N := if activeB h then ida h else idb h.
Definition new_handle (l : N) : handle := mkH l l 0 false 0%Z 0 false.
Definition both_in_use (h : handle) : bool := negb (ida h =? 0) && negb (idb h =? 0).
Definition set_inactive (h : handle) (p : N) (w : N) : handle :=
  if activeB h then mkH (lid h) p (idb h) true (ver h) w (del h)
  else mkH (lid h) (ida h) p false (ver h) w (del h).
(* AllocateID: refuses when both ids are in use, else puts p in the free (inactive) slot, wip := now *)
Definition allocate (h : handle) (p : N) : option handle :=
  if both_in_use h then None else Some (set_inactive h p 2).
(* IsExpiredInactive: wip > 0 and older than one hour; only the marker 1 qualifies inside one commit *)
Definition expired (h : handle) : bool := wip h =? 1.
Definition clear_inactive (h : handle) : handle := set_inactive h 0 0.
Definition set_del (h : handle) (d : bool) (w : N) : handle :=
  mkH (lid h) (ida h) (idb h) (activeB h) (ver h) w d.
(* activateInactiveNodes: flip, version + 1, wip := 1 *)
Definition flip (h : handle) : handle :=
  mkH (lid h) (ida h) (idb h) (negb (activeB h)) (ver h + 1)%Z 1 (del h).
(* touchNodes: version + 1, wip := 0 *)
Definition touch (h : handle) : handle :=
  mkH (lid h) (ida h) (idb h) (activeB h) (ver h + 1)%Z 0 (del h).

Definition handle_eqb (x y : handle) : bool :=
  (lid x =? lid y) && (ida x =? ida y) && (idb x =? idb y) && Bool.eqb (activeB x) (activeB y)
  && Z.eqb (ver x) (ver y) && (wip x =? wip y) && Bool.eqb (del x) (del y).

(* ------------------------------------------------------------------ durable state *)

Record disk := mkD {
  reg    : list handle;      (* registry: at most one handle per logical id *)
  blobs  : list N;           (* ids of the blob files present (node and value blobs) *)
  counts : list (N * Z);     (* store index -> persisted item count (storeinfo.txt) *)
  tlog   : bool;             (* this transaction's log file exists *)
  plog   : option (list handle)  (* this transaction's priority log: pre-commit handle images *)
}.

Fixpoint lookup (r : list handle) (l : N) : option handle :=
  match r with
  | [] => None
  | h :: r' => if lid h =? l then Some h else lookup r' l
  end.
Fixpoint reg_set (r : list handle) (h : handle) : list handle :=
  match r with
  | [] => [h]
  | x :: r' => if lid x =? lid h then h :: r' else x :: reg_set r' h
  end.
Fixpoint reg_del (r : list handle) (l : N) : list handle :=
  match r with
  | [] => []
  | x :: r' => if lid x =? l then r' else x :: reg_del r' l
  end.
Definition mem (x : N) (l : list N) : bool := existsb (N.eqb x) l.
Definition blob_add (b : list N) (ids : list N) : list N :=
  fold_left (fun acc i => if mem i acc then acc else acc ++ [i]) ids b.
Definition blob_del (b : list N) (ids : list N) : list N :=
  filter (fun i => negb (mem i ids)) b.
Fixpoint count_add (c : list (N * Z)) (s : N) (dz : Z) : list (N * Z) :=
  match c with
  | [] => [(s, dz)]
  | (s', z) :: c' => if s' =? s then (s', (z + dz)%Z) :: c' else (s', z) :: count_add c' s dz
  end.

(* registry.Get (hashmap.fetch): ids that are absent are skipped *)
Definition reg_get (r : list handle) (ids : list N) : list handle :=
  flat_map (fun l => match lookup r l with Some h => [h] | None => [] end) ids.

(* ------------------------------------------------------------------ interface calls *)

Inductive call :=
| TlogAdd (step : N)
| TlogRemove
| BlobAdd (ids : list N)
| BlobRemove (ids : list N)
| RegGet (ids : list N)
| RegAdd (hs : list handle)
| RegUpd (allOrNothing : bool) (hs : list handle)     (* UpdateNoLocks / Update *)
| RegRemove (ids : list N)
| SrUpdate (ds : list (N * Z))
| PlogAdd (hs : list handle)
| PlogGet
| PlogRemove.

(* effect of a call that is performed; None = the backend itself reports an error
   (registryMap.remove refuses to delete a missing item; nothing is changed then) *)
Definition apply_call (d : disk) (c : call) : option disk :=
  match c with
  | TlogAdd _ => Some (mkD (reg d) (blobs d) (counts d) true (plog d))
  | TlogRemove => if tlog d then Some (mkD (reg d) (blobs d) (counts d) false (plog d)) else None   (* removing a missing log file is an error *)
  | BlobAdd ids => Some (mkD (reg d) (blob_add (blobs d) ids) (counts d) (tlog d) (plog d))
  | BlobRemove ids => Some (mkD (reg d) (blob_del (blobs d) ids) (counts d) (tlog d) (plog d))
  | RegGet _ => Some d
  | RegAdd hs => Some (mkD (fold_left reg_set hs (reg d)) (blobs d) (counts d) (tlog d) (plog d))
  | RegUpd _ hs => Some (mkD (fold_left reg_set hs (reg d)) (blobs d) (counts d) (tlog d) (plog d))
  | RegRemove ids =>
      if forallb (fun l => match lookup (reg d) l with Some _ => true | None => false end) ids
      then Some (mkD (fold_left reg_del ids (reg d)) (blobs d) (counts d) (tlog d) (plog d))
      else None
  | SrUpdate ds => Some (mkD (reg d) (blobs d) (fold_left (fun c p => count_add c (fst p) (snd p)) ds (counts d)) (tlog d) (plog d))
  | PlogAdd hs => Some (mkD (reg d) (blobs d) (counts d) (tlog d) (Some hs))
  | PlogGet => Some d
  | PlogRemove => Some (mkD (reg d) (blobs d) (counts d) (tlog d) None)
  end.

(* ------------------------------------------------------------------ the transaction as the commit sees it *)

Record txn := mkT {
  tracked  : bool;               (* hasTrackedItems: false makes phase 1 a no-op *)
  vals     : list N;             (* value blobs written by commitTrackedItemsValues *)
  rb_vals  : list N;             (* getForRollbackTrackedItemsValues: blobs of every added/updated item *)
  obsolete : list N;             (* getObsoleteTrackedItemsValues *)
  roots    : list N;             (* new root nodes (logical id = blob id) *)
  fetched  : list (N * Z);       (* nodes read: (logical id, version read) *)
  updated  : list (N * Z * N);   (* (logical id, version read, physical id allocated for the new content) *)
  removed  : list (N * Z);
  added    : list N;             (* new non-root nodes (logical id = blob id) *)
  deltas   : list (N * Z);       (* stores whose count changes: (store, CountDelta <> 0) *)
  rb_stores: list (N * Z)        (* getRollbackStoresInfo for stores not created here: (store, -CountDelta) *)
}.

(* ------------------------------------------------------------------ execution state and monad *)

Inductive status := Running | Faulted | BackendError.

Record st := mkS {
  dk : disk;
  tr : list (call * bool);       (* calls issued, most recent first; false = the call failed *)
  fault : option nat;            (* Some n: the n-th call from now (0-based) is failed by injection *)
  cs : N                         (* transactionLog.committedState *)
}.

(* issue one call: returns false when it failed (injected, or backend error); a failed call changes nothing *)
Definition issue (c : call) (s : st) : bool * st :=
  match fault s with
  | Some O => (false, mkS (dk s) ((c, false) :: tr s) None (cs s))
  | f =>
      let f' := match f with Some (S n) => Some n | _ => None end in
      match apply_call (dk s) c with
      | Some d' => (true, mkS d' ((c, true) :: tr s) f' (cs s))
      | None => (false, mkS (dk s) ((c, false) :: tr s) f' (cs s))
      end
  end.

(* transactionLog.log: committedState := f first, then TransactionLog.Add *)
Definition log (f : N) (s : st) : bool * st :=
  issue (TlogAdd f) (mkS (dk s) (tr s) (fault s) f).

(* commit function numbers (transactionlogger.go) *)
Definition lockTrackedItems := 2.
Definition commitTrackedItemsValues := 3.
Definition commitNewRootNodes := 4.
Definition areFetchedItemsIntact := 5.
Definition commitUpdatedNodes := 6.
Definition commitRemovedNodes := 7.
Definition commitAddedNodes := 8.
Definition commitStoreInfo := 9.
Definition beforeFinalize := 10.
Definition finalizeCommit := 11.
Definition deleteObsoleteEntries := 12.
Definition deleteTrackedItemsValues := 13.

(* outcome of one step of the commit: continue, error return, or "not successful" (conflict: refetch and retry) *)
Inductive flow := Go | Stop | Conflict.

Definition seq (a : st -> flow * st) (b : st -> flow * st) (s : st) : flow * st :=
  match a s with
  | (Go, s') => b s'
  | r => r
  end.
Definition lift (a : st -> bool * st) (s : st) : flow * st :=
  match a s with (true, s') => (Go, s') | (false, s') => (Stop, s') end.
Definition when (c : bool) (a : st -> flow * st) (s : st) : flow * st := if c then a s else (Go, s).
Definition nonempty {A} (l : list A) : bool := match l with [] => false | _ => true end.

(* --- commitNewRootNodes *)
Definition p_roots (t : txn) : st -> flow * st :=
  when (nonempty (roots t))
    (seq (lift (issue (RegGet (roots t))))
      (fun s =>
         (* a root that already exists makes the step "not successful" *)
         if nonempty (reg_get (reg (dk s)) (roots t)) then (Conflict, s)
         else seq (lift (issue (BlobAdd (roots t))))
                  (lift (issue (RegAdd (map new_handle (roots t))))) s)).

(* --- areFetchedItemsIntact *)
Definition versions_match (r : list handle) (l : list (N * Z)) : bool :=
  forallb (fun p => match lookup r (fst p) with Some h => Z.eqb (ver h) (snd p) | None => true end) l.
Definition p_fetched (t : txn) : st -> flow * st :=
  when (nonempty (fetched t))
    (seq (lift (issue (RegGet (map fst (fetched t)))))
      (fun s => if versions_match (reg (dk s)) (fetched t) then (Go, s) else (Conflict, s))).

(* --- commitUpdatedNodes: per handle the claim of the inactive id *)
Definition claim (h : handle) (readver : Z) (p : N) : option handle :=
  if (del h && negb (expired h)) || negb (Z.eqb (ver h) readver) then None
  else
    let h1 := if del h && expired h then set_del h false (wip h) else h in
    match allocate h1 p with
    | Some h2 => Some h2
    | None => if expired h1 then allocate (clear_inactive h1) p else None
    end.
Fixpoint claims (r : list handle) (u : list (N * Z * N)) : option (list handle) :=
  match u with
  | [] => Some []
  | (l, v, p) :: u' =>
      match lookup r l with
      | None => None                    (* length mismatch of the registry answer: not successful *)
      | Some h => match claim h v p, claims r u' with
                  | Some h', Some hs => Some (h' :: hs)
                  | _, _ => None
                  end
      end
  end.
Definition p_updated (t : txn) : st -> flow * st :=
  when (nonempty (updated t))
    (seq (lift (issue (RegGet (map (fun x => fst (fst x)) (updated t)))))
      (fun s =>
         match claims (reg (dk s)) (updated t) with
         | None => (Conflict, s)
         | Some hs => seq (lift (issue (RegUpd false hs)))
                          (lift (issue (BlobAdd (map snd (updated t))))) s
         end)).

(* --- commitRemovedNodes *)
Fixpoint marks (r : list handle) (u : list (N * Z)) : option (list handle) :=
  match u with
  | [] => Some []
  | (l, v) :: u' =>
      match lookup r l with
      | None => marks r u'              (* an id the registry does not return is skipped by the loop *)
      | Some h => if del h || negb (Z.eqb (ver h) v) then None
                  else match marks r u' with Some hs => Some (set_del h true 2 :: hs) | None => None end
      end
  end.
Definition p_removed (t : txn) : st -> flow * st :=
  when (nonempty (removed t))
    (seq (lift (issue (RegGet (map fst (removed t)))))
      (fun s =>
         match marks (reg (dk s)) (removed t) with
         | None => (Conflict, s)
         | Some hs => lift (issue (RegUpd false hs)) s
         end)).

(* --- commitAddedNodes: register (version 1) first, then write the blobs *)
Definition added_handle (l : N) : handle := mkH l l 0 false 1%Z 0 false.
Definition p_added (t : txn) : st -> flow * st :=
  when (nonempty (added t))
    (seq (lift (issue (RegAdd (map added_handle (added t)))))
         (lift (issue (BlobAdd (added t))))).

(* handles of the updated / removed nodes as they stand in the registry now *)
Definition cur_handles (s : st) (ids : list N) : list handle := reg_get (reg (dk s)) ids.

(* --- phase1Commit, one pass of the loop with every step successful *)
Definition phase1 (t : txn) : st -> flow * st :=
  when (tracked t) (
  seq (lift (log lockTrackedItems))
 (seq (lift (log commitTrackedItemsValues))
 (seq (when (nonempty (vals t)) (lift (issue (BlobAdd (vals t)))))
 (seq (lift (log commitNewRootNodes))
 (seq (p_roots t)
 (seq (lift (log areFetchedItemsIntact))
 (seq (p_fetched t)
 (seq (p_updated t)
 (seq (lift (log commitUpdatedNodes))
 (seq (lift (log commitRemovedNodes))
 (seq (p_removed t)
 (seq (lift (log commitAddedNodes))
 (seq (p_added t)
 (seq (lift (log commitStoreInfo))
 (seq (when (nonempty (deltas t)) (lift (issue (SrUpdate (deltas t)))))
 (seq (lift (log beforeFinalize))
      (fun s =>
         let uh := cur_handles s (map (fun x => fst (fst x)) (updated t)) in
         let rh := cur_handles s (map fst (removed t)) in
         when (nonempty uh || nonempty rh) (lift (issue (PlogAdd (uh ++ rh)))) s))))))))))))))))).

(* --- rollback(ctx, true) as called on a phase-1 or phase-2 error, and rollback(ctx,false) inside the loop *)
Definition best (a : st -> bool * st) (s : st) : st := snd (a s).   (* errors are remembered as lastErr only *)
Definition undelete (hs : list handle) : list handle :=
  flat_map (fun h => if del h || negb (wip h =? 0) then [set_del h false 0] else []) hs.
Definition rb_updated_handles (hs : list handle) : list handle :=
  map (fun h => if inactive h =? 0 then set_del h (del h) 0 else clear_inactive h) hs.
Definition rb_updated_blobs (hs : list handle) : list N :=
  flat_map (fun h => if inactive h =? 0 then [] else [inactive h]) hs.

Definition rollback (t : txn) (withValues : bool) (s0 : st) : st :=
  let c := cs s0 in
  let s1 := if beforeFinalize <=? c then best (issue PlogRemove) s0 else s0 in
  let s2 := if (commitStoreInfo <? c) && nonempty (rb_stores t) then best (issue (SrUpdate (rb_stores t))) s1 else s1 in
  let s3 := if (commitAddedNodes <? c) && nonempty (added t)
            then best (issue (RegRemove (added t))) (best (issue (BlobRemove (added t))) s2) else s2 in
  let s4 := if (commitRemovedNodes <? c) && nonempty (removed t)
            then (let s' := best (issue (RegGet (map fst (removed t)))) s3 in
                  best (issue (RegUpd false (undelete (cur_handles s' (map fst (removed t)))))) s')
            else s3 in
  let s5 := if (commitUpdatedNodes <? c) && nonempty (updated t)
            then (let s' := best (issue (RegGet (map (fun x => fst (fst x)) (updated t)))) s4 in
                  let hs := cur_handles s' (map (fun x => fst (fst x)) (updated t)) in
                  best (issue (RegUpd false (rb_updated_handles hs))) (best (issue (BlobRemove (rb_updated_blobs hs))) s'))
            else s4 in
  let s6 := if (commitNewRootNodes <? c) && nonempty (roots t)
            then (let s' := best (issue (RegGet (roots t))) (best (issue (BlobRemove (roots t))) s5) in
                  let present := map lid (cur_handles s' (roots t)) in
                  if nonempty present then best (issue (RegRemove present)) s' else s')
            else s5 in
  let s7 := if withValues && (commitTrackedItemsValues <=? c) && nonempty (rb_vals t)
            then best (issue (BlobRemove (rb_vals t))) s6 else s6 in
  let s8 := best (issue TlogRemove) s7 in
  mkS (dk s8) (tr s8) (fault s8) 0.

(* --- priorityRollback of this transaction (phase-2 failure with node locks held) *)
Definition priority_rollback (s : st) : st :=
  let s1 := best (issue PlogGet) s in
  match plog (dk s1) with
  | None => best (issue PlogRemove) s1
  | Some hs => match issue (RegUpd false hs) s1 with
               | (true, s2) => best (issue PlogRemove) s2
               | (false, s2) => s2
               end
  end.

(* --- phase2Commit *)
Definition to_flip (t : txn) (s : st) : list handle :=
  map flip (cur_handles s (map (fun x => fst (fst x)) (updated t))) ++ map touch (cur_handles s (map fst (removed t))).

(* cleanup: both logging calls abort the cleanup when they fail; everything else is best effort *)
Definition cleanup (flipped : list handle) (t : txn) (s : st) : st :=
  match log deleteObsoleteEntries s with
  | (false, s1) => s1
  | (true, s1) =>
      let upd := firstn (length (updated t)) flipped in
      let rem := skipn (length (updated t)) flipped in
      let unused := map inactive upd ++ map active rem in
      let s2 := if nonempty unused then best (issue (BlobRemove unused)) s1 else s1 in
      let s3 := best (issue (RegRemove (map lid rem))) s2 in
      match log deleteTrackedItemsValues s3 with
      | (false, s4) => s4
      | (true, s4) =>
          let s5 := if nonempty (obsolete t) then best (issue (BlobRemove (obsolete t))) s4 else s4 in
          best (issue TlogRemove) s5
      end
  end.

Inductive outcome := Committed | Failed | Conflicted.

(* Commit = Phase1Commit; Phase2Commit, with the error paths of both *)
Definition commit (t : txn) (s0 : st) : outcome * st :=
  match phase1 t s0 with
  | (Stop, s1) => (Failed, rollback t true s1)
  | (Conflict, s1) => (Conflicted, rollback t false s1)
  | (Go, s1) =>
      match log finalizeCommit s1 with
      (* phase2Commit releases the node locks before returning this error, so Phase2Commit takes the
         "no node keys" branch: the priority log is just removed *)
      | (false, s2) => (Failed, rollback t true (best (issue PlogRemove) s2))
      | (true, s2) =>
          let fl := to_flip t s2 in
          if nonempty fl then
            match issue (RegUpd true fl) s2 with
            | (false, s3) => (Failed, rollback t true (priority_rollback s3))
            | (true, s3) => (Committed, cleanup fl t (best (issue PlogRemove) s3))
            end
          else (Committed, cleanup fl t s2)
      end
  end.

Definition init (d : disk) (f : option nat) : st := mkS d [] f 0.
Definition run (t : txn) (d : disk) (f : option nat) : outcome * disk * list (call * bool) :=
  let '(o, s) := commit t (init d f) in (o, dk s, rev (tr s)).

(* ------------------------------------------------------------------ observations *)

(* what a reader resolves a logical id to: the active blob of a handle that is not marked deleted *)
Definition resolve (d : disk) (l : N) : option N :=
  match lookup (reg d) l with
  | Some h => Some (active h)
  | None => None
  end.
Definition count_of (d : disk) (s : N) : Z :=
  match find (fun p => fst p =? s) (counts d) with Some p => snd p | None => 0%Z end.

(* bounded exploration, configuration 2: one transaction updates node 10, the other removes it, both from version 3 *)
From Coq Require Import List ZArith NArith Bool.
From SopVerif Require Import Proto HandleProto HandleProtoProofs HandleProtoBounded.
Import ListNotations.
Local Open Scope N_scope.

Lemma bounded_ur : complete_and_ok (explore strict (all_labels 2 [10]) 60 s_ur chk_all) = true.
Proof. vm_compute. reflexivity. Qed.

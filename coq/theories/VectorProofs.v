(* C33 — lemmas about the bookkeeping model of ai/vector: store primitives. *)
From Coq Require Import List ZArith NArith Bool Lia Permutation Sorting.Sorted.
From SopVerif Require Import Vector.
Import ListNotations.
Local Open Scope Z_scope.

(* ------------------------------------------------------------------ Content *)
Lemma cfind_cset : forall c id v id',
  cfind (cset c id v) id' = if N.eqb id id' then Some v else cfind c id'.
Proof.
  induction c as [|[i w] r IH]; intros id v id'; cbn [cset cfind].
  - reflexivity.
  - destruct (N.eqb i id) eqn:E1.
    + apply N.eqb_eq in E1; subst i. cbn [cfind].
      destruct (N.eqb id id') eqn:E2; reflexivity.
    + destruct (N.ltb id i) eqn:E3; cbn [cfind].
      * destruct (N.eqb id id') eqn:E2; [reflexivity|]. reflexivity.
      * rewrite IH. destruct (N.eqb i id') eqn:E4; [|reflexivity].
        apply N.eqb_eq in E4; subst i.
        destruct (N.eqb id id') eqn:E2; [|reflexivity].
        apply N.eqb_eq in E2; subst id'. rewrite N.eqb_refl in E1; discriminate.
Qed.

Lemma cfind_cremove : forall c id id',
  cfind (cremove c id) id' = if N.eqb id id' then None else cfind c id'.
Proof.
  induction c as [|[i w] r IH]; intros id id'; unfold cremove in *; cbn [filter cfind fst].
  - destruct (N.eqb id id'); reflexivity.
  - destruct (N.eqb i id) eqn:E1; cbn [negb cfind].
    + apply N.eqb_eq in E1; subst i. rewrite IH.
      destruct (N.eqb id id'); reflexivity.
    + rewrite IH. destruct (N.eqb i id') eqn:E4; [|reflexivity].
      apply N.eqb_eq in E4; subst i. rewrite N.eqb_sym, E1. reflexivity.
Qed.

(* strictly increasing ids: what a B-tree scan reports *)
Definition csorted (c : list centry) : Prop := StronglySorted N.lt (map fst c).

Lemma cset_ids : forall c id v x, In x (map fst (cset c id v)) <-> x = id \/ In x (map fst c).
Proof.
  induction c as [|[i w] r IH]; intros id v x; cbn [cset map fst In].
  - intuition (subst; auto).
  - destruct (N.eqb i id) eqn:E1.
    + apply N.eqb_eq in E1; subst i. cbn [map fst In]. intuition (subst; auto).
    + destruct (N.ltb id i); cbn [map fst In].
      * intuition (subst; auto).
      * rewrite IH. intuition (subst; auto).
Qed.

Lemma cset_sorted : forall c id v, csorted c -> csorted (cset c id v).
Proof.
  unfold csorted. induction c as [|[i w] r IH]; intros id v Hs; cbn [cset map fst].
  - constructor; constructor.
  - inversion Hs as [|? ? Hr Hall]; subst.
    destruct (N.eqb i id) eqn:E1.
    + apply N.eqb_eq in E1; subst i. cbn [map fst]. constructor; assumption.
    + destruct (N.ltb id i) eqn:E3; cbn [map fst].
      * apply N.ltb_lt in E3. constructor; [exact Hs|].
        constructor; [exact E3|]. eapply Forall_impl; [|exact Hall]. intros a Ha; cbn in *. lia.
      * constructor; [apply IH; exact Hr|].
        apply Forall_forall. intros x Hx. apply cset_ids in Hx. destruct Hx as [->|Hx].
        -- apply N.ltb_ge in E3. apply N.eqb_neq in E1. cbn. lia.
        -- rewrite Forall_forall in Hall. apply Hall, Hx.
Qed.

Lemma StronglySorted_filter : forall (A : Type) (R : A -> A -> Prop) (f : A -> bool) l,
  StronglySorted R l -> StronglySorted R (filter f l).
Proof.
  induction l as [|a l IH]; intros Hs; cbn [filter]; [constructor|].
  inversion Hs as [|? ? Hl Hall]; subst.
  destruct (f a); [|apply IH; exact Hl].
  constructor; [apply IH; exact Hl|].
  apply Forall_forall. intros x Hx. apply filter_In in Hx. rewrite Forall_forall in Hall. apply Hall, Hx.
Qed.

Lemma map_fst_filter_centry : forall (c : list centry) (g : N -> bool),
  map fst (filter (fun e => g (fst e)) c) = filter g (map fst c).
Proof.
  induction c as [|e r IH]; intros g; cbn [filter map]; [reflexivity|].
  destruct (g (fst e)); cbn [map]; rewrite IH; reflexivity.
Qed.

Lemma cremove_sorted : forall c id, csorted c -> csorted (cremove c id).
Proof.
  unfold csorted, cremove. intros c id Hs.
  rewrite (map_fst_filter_centry c (fun i => negb (N.eqb i id))).
  apply StronglySorted_filter, Hs.
Qed.

Lemma csorted_cfind_in : forall c id v, csorted c -> (In (id, v) c <-> cfind c id = Some v).
Proof.
  unfold csorted. induction c as [|[i w] r IH]; intros id v Hs; cbn [In cfind].
  - split; [tauto|discriminate].
  - inversion Hs as [|? ? Hr Hall]; subst. cbn [map fst] in *.
    destruct (N.eqb i id) eqn:E1.
    + apply N.eqb_eq in E1; subst i. split.
      * intros [H|H]; [inversion H; reflexivity|].
        exfalso. rewrite Forall_forall in Hall.
        assert (Hin : In id (map fst r)) by (apply in_map_iff; exists (id, v); split; [reflexivity|exact H]).
        specialize (Hall _ Hin). cbn in Hall. lia.
      * intros H; inversion H; subst. left; reflexivity.
    + rewrite <- (IH id v Hr). split.
      * intros [H|H]; [inversion H; subst; rewrite N.eqb_refl in E1; discriminate|exact H].
      * intros H; right; exact H.
Qed.

Lemma csorted_nodup : forall c, csorted c -> NoDup (map fst c).
Proof.
  unfold csorted. intros c. induction (map fst c) as [|a l IH]; intros Hs; [constructor|].
  inversion Hs as [|? ? Hl Hall]; subst. constructor; [|apply IH; exact Hl].
  intros Hin. rewrite Forall_forall in Hall. specialize (Hall _ Hin). lia.
Qed.

(* ------------------------------------------------------------------ Vectors *)
Lemma vkey_is_true : forall e c d i, vkey_is e c d i = true <-> ve_cid e = c /\ ve_dist e = d /\ ve_id e = i.
Proof.
  intros. unfold vkey_is. rewrite !andb_true_iff, !Z.eqb_eq, N.eqb_eq. tauto.
Qed.

Lemma vfind_some : forall vs c d i e, vfind vs c d i = Some e -> In e vs /\ vkey_is e c d i = true.
Proof.
  induction vs as [|x r IH]; intros c d i e H; cbn [vfind] in H; [discriminate|].
  destruct (vkey_is x c d i) eqn:E.
  - inversion H; subst. split; [left; reflexivity|exact E].
  - destruct (IH _ _ _ _ H) as [Hin Hk]. split; [right; exact Hin|exact Hk].
Qed.

Lemma vfind_none : forall vs c d i, vfind vs c d i = None <-> (forall e, In e vs -> vkey_is e c d i = false).
Proof.
  induction vs as [|x r IH]; intros c d i; cbn [vfind In].
  - split; [intros _ e []|reflexivity].
  - destruct (vkey_is x c d i) eqn:E.
    + split; [discriminate|]. intros H. specialize (H x (or_introl eq_refl)). congruence.
    + rewrite IH. split.
      * intros H e [->|Hin]; [exact E|apply H, Hin].
      * intros H e Hin. apply H. right; exact Hin.
Qed.

Lemma vfind_in_exists : forall vs e, In e vs -> exists e', vfind vs (ve_cid e) (ve_dist e) (ve_id e) = Some e'.
Proof.
  intros vs e Hin. destruct (vfind vs (ve_cid e) (ve_dist e) (ve_id e)) eqn:E; [eauto|].
  rewrite vfind_none in E. specialize (E e Hin).
  assert (vkey_is e (ve_cid e) (ve_dist e) (ve_id e) = true) by (apply vkey_is_true; auto). congruence.
Qed.

Lemma In_vremove : forall vs c d i x, In x (vremove vs c d i) <-> In x vs /\ vkey_is x c d i = false.
Proof.
  intros. unfold vremove. rewrite filter_In, negb_true_iff. tauto.
Qed.

Lemma vinsert_perm : forall vs e, Permutation (vinsert vs e) (e :: vs).
Proof.
  induction vs as [|x r IH]; intros e; cbn [vinsert]; [apply Permutation_refl|].
  destruct (vkey_lt e x); [apply Permutation_refl|].
  eapply Permutation_trans; [apply perm_skip, IH|apply perm_swap].
Qed.

Lemma In_vinsert : forall vs e x, In x (vinsert vs e) <-> x = e \/ In x vs.
Proof.
  intros. split; intros H.
  - apply (Permutation_in _ (vinsert_perm vs e)) in H. destruct H; [left; auto|right; auto].
  - apply (Permutation_in _ (Permutation_sym (vinsert_perm vs e))). destruct H; [left; auto|right; auto].
Qed.

Lemma In_vadd_fresh : forall vs e x,
  vfind vs (ve_cid e) (ve_dist e) (ve_id e) = None ->
  (In x (vadd vs e) <-> x = e \/ In x vs).
Proof. intros vs e x H. unfold vadd. rewrite H. apply In_vinsert. Qed.

Lemma NoDup_ids_vadd_fresh : forall vs e,
  vfind vs (ve_cid e) (ve_dist e) (ve_id e) = None ->
  ~ In (ve_id e) (map ve_id vs) -> NoDup (map ve_id vs) -> NoDup (map ve_id (vadd vs e)).
Proof.
  intros vs e H Hn Hd. unfold vadd. rewrite H.
  eapply Permutation_NoDup; [apply Permutation_sym, Permutation_map, vinsert_perm|].
  cbn [map]. constructor; assumption.
Qed.

Lemma NoDup_map_filter : forall (A B : Type) (f : A -> B) (g : A -> bool) l,
  NoDup (map f l) -> NoDup (map f (filter g l)).
Proof.
  induction l as [|a l IH]; intros H; cbn [filter map] in *; [constructor|].
  inversion H as [|? ? Hn Hd]; subst.
  destruct (g a); cbn [map]; [|apply IH; exact Hd].
  constructor; [|apply IH; exact Hd].
  intros Hin. apply Hn. apply in_map_iff in Hin. destruct Hin as [x [Hx Hin]].
  apply filter_In in Hin. apply in_map_iff. exists x. tauto.
Qed.

Lemma NoDup_map_inj : forall (A B : Type) (f : A -> B) l x y,
  NoDup (map f l) -> In x l -> In y l -> f x = f y -> x = y.
Proof.
  induction l as [|a l IH]; intros x y H Hx Hy Hf; [destruct Hx|].
  cbn [map] in H. inversion H as [|? ? Hn Hd]; subst.
  destruct Hx as [->|Hx], Hy as [->|Hy].
  - reflexivity.
  - exfalso. apply Hn. rewrite Hf. apply in_map, Hy.
  - exfalso. apply Hn. rewrite <- Hf. apply in_map, Hx.
  - apply IH; assumption.
Qed.

Lemma vtomb_ids : forall vs c d i, map ve_id (vtomb vs c d i) = map ve_id vs.
Proof.
  intros. unfold vtomb. rewrite map_map. apply map_ext. intros e. destruct (vkey_is e c d i); reflexivity.
Qed.

Lemma In_vtomb : forall vs c d i x,
  In x (vtomb vs c d i) <->
  exists y, In y vs /\ x = (if vkey_is y c d i then mkVE (ve_cid y) (ve_dist y) (ve_id y) true (ve_vec y) else y).
Proof.
  intros. unfold vtomb. rewrite in_map_iff. split; intros [y [H1 H2]]; exists y; split; auto.
Qed.

(* with one entry per id, vfind is decided by membership *)
Lemma vfind_unique : forall vs e,
  NoDup (map ve_id vs) -> In e vs -> vfind vs (ve_cid e) (ve_dist e) (ve_id e) = Some e.
Proof.
  intros vs e Hd Hin. destruct (vfind_in_exists vs e Hin) as [e' He']. rewrite He'.
  destruct (vfind_some _ _ _ _ _ He') as [Hin' Hk]. apply vkey_is_true in Hk.
  f_equal. eapply NoDup_map_inj; eauto. tauto.
Qed.

(* ------------------------------------------------------------------ reference map *)
Lemma rfind_filter : forall (r : rstate) id id',
  rfind (filter (fun e => negb (N.eqb (fst e) id)) r) id' = if N.eqb id id' then None else rfind r id'.
Proof.
  induction r as [|[i w] t IH]; intros id id'; cbn [filter rfind fst].
  - destruct (N.eqb id id'); reflexivity.
  - destruct (N.eqb i id) eqn:E1; cbn [negb rfind].
    + apply N.eqb_eq in E1; subst i. rewrite IH. destruct (N.eqb id id'); reflexivity.
    + rewrite IH. destruct (N.eqb i id') eqn:E4; [|reflexivity].
      apply N.eqb_eq in E4; subst i. rewrite N.eqb_sym, E1. reflexivity.
Qed.

(* ------------------------------------------------------------------ sorting of candidates *)
Definition desc (l : list (N * Z)) : Prop := StronglySorted (fun a b => snd b <= snd a) l.

Lemma insert_desc_perm : forall x l, Permutation (insert_desc x l) (x :: l).
Proof.
  induction l as [|y r IH]; cbn [insert_desc]; [apply Permutation_refl|].
  destruct (snd y <? snd x); [apply Permutation_refl|].
  eapply Permutation_trans; [apply perm_skip, IH|apply perm_swap].
Qed.

Lemma sort_desc_perm : forall l, Permutation (sort_desc l) l.
Proof.
  induction l as [|x r IH]; cbn [sort_desc]; [apply Permutation_refl|].
  eapply Permutation_trans; [apply insert_desc_perm|apply perm_skip, IH].
Qed.

Lemma insert_desc_sorted : forall x l, desc l -> desc (insert_desc x l).
Proof.
  unfold desc. induction l as [|y r IH]; intros Hs; cbn [insert_desc].
  - constructor; constructor.
  - inversion Hs as [|? ? Hr Hall]; subst.
    destruct (snd y <? snd x) eqn:E.
    + apply Z.ltb_lt in E. constructor; [exact Hs|].
      constructor; [lia|]. eapply Forall_impl; [|exact Hall]. intros a Ha; cbn in *. lia.
    + apply Z.ltb_ge in E. constructor; [apply IH; exact Hr|].
      apply Forall_forall. intros z Hz.
      apply (Permutation_in _ (insert_desc_perm x r)) in Hz. destruct Hz as [<-|Hz]; [exact E|].
      rewrite Forall_forall in Hall. apply Hall, Hz.
Qed.

Lemma sort_desc_sorted : forall l, desc (sort_desc l).
Proof.
  induction l as [|x r IH]; cbn [sort_desc]; [constructor|]. apply insert_desc_sorted, IH.
Qed.

Lemma desc_firstn : forall n l, desc l -> desc (firstn n l).
Proof.
  unfold desc. induction n as [|n IH]; intros l Hs; [constructor|].
  destruct l as [|a l]; [constructor|]. cbn [firstn].
  inversion Hs as [|? ? Hl Hall]; subst. constructor; [apply IH; exact Hl|].
  apply Forall_forall. intros x Hx. rewrite Forall_forall in Hall. apply Hall.
  eapply (In_nth_error) in Hx. destruct Hx as [k Hk].
  assert (Hin : In x l).
  { clear - Hk. revert l k Hk. induction n as [|n IHn]; intros l k Hk; [destruct k; discriminate|].
    destruct l as [|b l]; [destruct k; discriminate|]. destruct k as [|k]; cbn in Hk.
    - inversion Hk; left; reflexivity.
    - right. eapply IHn; exact Hk. }
  exact Hin.
Qed.

Lemma NoDup_firstn : forall (A : Type) n (l : list A), NoDup l -> NoDup (firstn n l).
Proof.
  induction n as [|n IH]; intros l H; [constructor|].
  destruct l as [|a l]; [constructor|]. cbn [firstn]. inversion H as [|? ? Hn Hd]; subst.
  constructor; [|apply IH; exact Hd].
  intros Hin. apply Hn. rewrite <- (firstn_skipn n l). apply in_or_app. left; exact Hin.
Qed.

Lemma firstn_map : forall (A B : Type) (f : A -> B) n l, firstn n (map f l) = map f (firstn n l).
Proof.
  induction n as [|n IH]; intros l; [reflexivity|]. destruct l; [reflexivity|]. cbn. rewrite IH. reflexivity.
Qed.

Lemma In_firstn : forall (A : Type) n (l : list A) x, In x (firstn n l) -> In x l.
Proof.
  intros A n l x H. rewrite <- (firstn_skipn n l). apply in_or_app. left; exact H.
Qed.

Lemma query_length : forall buf s probes sim k flt,
  (length (query buf s probes sim k flt) <= Z.to_nat k)%nat.
Proof. intros. unfold query. apply firstn_le_length. Qed.

(* C14: lemmas about the lifecycle model. *)
From Coq Require Import List ZArith NArith Bool Lia.
From SopVerif Require Import Lifecycle.
Import ListNotations.
Local Open Scope Z_scope.

Definition phase_ok (s : state) : Prop := phase s = -1 \/ phase s = 0 \/ phase s = 1 \/ phase s = 2.
Definition Inv (s : state) : Prop := phase_ok s /\ (committed s = true -> phase s = 2).

Lemma inv_init m d : Inv (init m d).
Proof. split; [left; reflexivity|cbn; discriminate]. Qed.

Ltac unfold_all :=
  unfold step, do_commit, guard_write, guard_read, do_newbtree, do_openbtree, do_p1, do_p2, do_rollback, do_rollback_f, do_begin,
    op_add, op_find, op_update, op_remove, undo, undo_p2, keep_created, undo_rewound,
    set_refetched, set_phase, set_committed, set_disk, set_work, set_prepared, set_open, set_handle, has_begun in *.

Ltac split_matches :=
  repeat (match goal with
          | |- context [match ?x with _ => _ end] =>
              lazymatch x with
              | context [match _ with _ => _ end] => fail
              | _ => destruct x eqn:?
              end
          end; cbn [fst snd phase committed tmode disk handle opened created work removed_db bcount wcount prepared stale] in *).

Ltac phase_cases s :=
  let H := fresh in
  match goal with
  | Hp : phase_ok s |- _ => destruct Hp as [H|[H|[H|H]]]; rewrite H in *
  end.

(* ---------------------------------------------------------------- one step *)

Lemma hb_true s : has_begun s = true <-> 0 <= phase s < 2.
Proof. unfold has_begun. rewrite andb_true_iff, Z.leb_le, Z.ltb_lt. tauto. Qed.

Lemma step_fin s c : phase s = 2 ->
  snd (step s c) = s /\
  (c = CBegin -> fst (step s c) = RErr) /\
  (forall f1 f2, c = CCommit f1 f2 -> fst (step s c) = RErr) /\
  (is_store_op c = true -> is_success (fst (step s c)) = false).
Proof.
  intros H2. destruct s as [ph cm md dk hd op cr wk rm bc wc pr sl]; cbn in H2; subst ph.
  destruct c; unfold_all; cbn;
    repeat split; try discriminate; try reflexivity; intros; try discriminate;
    split_matches; try reflexivity; try discriminate.
Qed.

Ltac solve_phase_ok :=
  first [left; reflexivity | right; left; reflexivity | right; right; left; reflexivity | right; right; right; reflexivity].

Lemma step_inv s c : Inv s -> Inv (snd (step s c)) /\ phase s <= phase (snd (step s c)) /\ tmode (snd (step s c)) = tmode s.
Proof.
  intros [Hp Hc]. unfold Inv, phase_ok in *.
  destruct s as [ph cm md dk hd op cr wk rm bc wc pr sl]; cbn in Hp, Hc.
  destruct Hp as [H|[H|[H|H]]]; subst ph;
  destruct c; unfold_all; cbn;
    split_matches; cbn;
    (split; [split; [solve_phase_ok|intros Hx; first [reflexivity | discriminate | (apply Hc in Hx; lia) | lia]]|split; [lia|reflexivity]]).
Qed.

Lemma step_unbegun s c : phase s = -1 -> c <> CBegin ->
  snd (step s c) = s /\ (is_store_op c = true -> is_success (fst (step s c)) = false) /\ (is_end c = true -> fst (step s c) = RErr).
Proof.
  intros H1 Hc. destruct s as [ph cm md dk hd op cr wk rm bc wc pr sl]; cbn in H1; subst ph.
  destruct c; try congruence; unfold_all; cbn;
    repeat split; intros; try discriminate; try reflexivity; split_matches; try reflexivity; try discriminate.
Qed.

Lemma step_begin s : phase s = -1 -> fst (step s CBegin) = ROk /\ phase (snd (step s CBegin)) = 0.
Proof. intros H. unfold_all. rewrite H. cbn. split; reflexivity. Qed.

Lemma step_begin_ok s : fst (step s CBegin) = ROk -> phase s = -1 \/ ~ phase_ok s.
Proof.
  intros H. destruct (Z.eq_dec (phase s) (-1)) as [|Hn]; [left; assumption|right]. intros Hp.
  revert H. unfold_all. phase_cases s; cbn; try discriminate. congruence.
Qed.

Lemma step_end s c : Inv s -> is_end c = true -> fst (step s c) = ROk ->
  phase (snd (step s c)) = 2 /\ (is_commit c = true -> committed (snd (step s c)) = true).
Proof.
  intros [Hp Hc] He. destruct c; try discriminate; unfold_all; phase_cases s; cbn;
    split_matches; cbn; intros; try discriminate; (split; [try reflexivity; try lia|intros; try reflexivity; try discriminate]).
  all: try (apply Hc; assumption); auto.
Qed.

Lemma step_op_begun s c : is_store_op c = true -> is_success (fst (step s c)) = true -> has_begun s = true.
Proof.
  intros Hop. destruct c; try discriminate; unfold step, guard_write, guard_read, do_newbtree, do_openbtree;
    destruct (has_begun s) eqn:Hb; try reflexivity; cbn; split_matches; cbn; intros; discriminate.
Qed.

Lemma step_rollback_committed s f : Inv s -> committed s = true -> fst (step s (CRollback f)) = RErr /\ snd (step s (CRollback f)) = s.
Proof.
  intros [_ Hc] H. pose proof (Hc H) as H2. cbn. unfold do_rollback_f. rewrite H2, H. cbn. split; reflexivity.
Qed.

(* Rollback and Commit end a begun transaction whatever they return, also when the undo fails *)
Lemma step_always_ends s c : has_begun s = true ->
  match c with CRollback _ | CCommit _ _ => True | _ => False end ->
  phase (snd (step s c)) = 2.
Proof.
  intros Hb Hc. apply hb_true in Hb.
  destruct s as [ph cm md dk hd op cr wk rm bc wc pr sl]; cbn in Hb.
  assert (Hph : ph = 0 \/ ph = 1) by lia. destruct Hph; subst ph;
  destruct c; try contradiction; unfold_all; cbn; split_matches; try reflexivity; cbn in *; discriminate.
Qed.

(* a failing Phase1Commit (begun) or Phase2Commit (phase 1) ends the transaction too *)
Lemma step_failed_phase_ends s c : has_begun s = true -> fst (step s c) = RErr ->
  match c with CP1 _ => True | CP2 _ => phase s = 1 | _ => False end ->
  phase (snd (step s c)) = 2.
Proof.
  intros Hb Hr Hc. apply hb_true in Hb.
  destruct s as [ph cm md dk hd op cr wk rm bc wc pr sl]; cbn in Hb, Hc.
  assert (Hph : ph = 0 \/ ph = 1) by lia.
  destruct c; try contradiction; destruct Hph; subst ph; try discriminate;
    revert Hr; unfold_all; cbn; split_matches; cbn; intros; try discriminate; try reflexivity; cbn in *; discriminate.
Qed.

(* ---------------------------------------------------------------- runs *)

Lemma state_after_cons s c a : state_after s (c :: a) = state_after (snd (step s c)) a.
Proof.
  unfold state_after. cbn. destruct (step s c) as [x s1]. cbn. destruct (run s1 a). reflexivity.
Qed.

Lemma state_after_nil s : state_after s [] = s.
Proof. reflexivity. Qed.

Lemma state_after_app s a b : state_after s (a ++ b) = state_after (state_after s a) b.
Proof.
  revert s. induction a as [|c a IH]; intros s; [reflexivity|].
  rewrite <- app_comm_cons, !state_after_cons. apply IH.
Qed.

Lemma result_at_cons s c a e : result_at s (c :: a) e = result_at (snd (step s c)) a e.
Proof. unfold result_at. rewrite state_after_cons. reflexivity. Qed.

Lemma inv_run s a : Inv s -> Inv (state_after s a).
Proof.
  revert s. induction a as [|c a IH]; intros s H; [exact H|].
  rewrite state_after_cons. apply IH. apply step_inv. exact H.
Qed.

Lemma mode_run s a : Inv s -> tmode (state_after s a) = tmode s.
Proof.
  revert s. induction a as [|c a IH]; intros s H; [reflexivity|].
  rewrite state_after_cons, IH by (apply step_inv; exact H). apply step_inv. exact H.
Qed.

Lemma fin_run s a : phase s = 2 -> state_after s a = s.
Proof.
  induction a as [|c a IH]; intros H; [reflexivity|].
  rewrite state_after_cons. destruct (step_fin s c H) as [Hs _]. rewrite Hs. apply IH. exact H.
Qed.

(* a begun (or finished) state has seen a successful Begin *)
Lemma begun_has_begin a : forall s, Inv s -> phase s = -1 -> 0 <= phase (state_after s a) ->
  exists a1 a2, a = a1 ++ CBegin :: a2 /\ result_at s a1 CBegin = ROk.
Proof.
  induction a as [|c a IH]; intros s Hi H1 Hge.
  - rewrite state_after_nil in Hge. lia.
  - destruct c; try (
      match goal with |- context [?c :: a] =>
        destruct (step_unbegun s c H1 ltac:(discriminate)) as [Hs _];
        rewrite state_after_cons, Hs in Hge;
        destruct (IH s Hi H1 Hge) as (a1 & a2 & -> & Hr);
        exists (c :: a1), a2; split; [reflexivity|rewrite result_at_cons, Hs; exact Hr]
      end).
    exists [], a. split; [reflexivity|]. unfold result_at. rewrite state_after_nil. apply step_begin. exact H1.
Qed.

(* once an ending call has succeeded the transaction is finished for good *)
Lemma ended_is_final a1 e a2 s : Inv s -> is_end e = true -> result_at s a1 e = ROk ->
  phase (state_after s (a1 ++ e :: a2)) = 2 /\
  state_after s (a1 ++ e :: a2) = state_after s (a1 ++ [e]) /\
  (is_commit e = true -> committed (state_after s (a1 ++ e :: a2)) = true).
Proof.
  intros Hi He Hr. unfold result_at in Hr.
  pose proof (inv_run s a1 Hi) as Hi1.
  destruct (step_end _ _ Hi1 He Hr) as [H2 Hc].
  assert (Hs : state_after s (a1 ++ e :: a2) = snd (step (state_after s a1) e)).
  { rewrite state_after_app, state_after_cons. apply fin_run. exact H2. }
  rewrite Hs. split; [exact H2|]. split; [|exact Hc].
  rewrite state_after_app, state_after_cons, state_after_nil. reflexivity.
Qed.

(* ---------------------------------------------------------------- read-only transactions *)

(* invariant of a non-writer transaction over an existing store *)
Definition ro_inv (d0 : option store) (s : state) : Prop :=
  tmode s <> ForWriting /\ prepared s = None /\ created s = false /\ disk s = d0.

Lemma step_ro d0 s c : d0 <> None -> ro_inv d0 s -> ro_inv d0 (snd (step s c)).
Proof.
  intros Hd (Hm & Hp & Hc & Hk). unfold ro_inv.
  destruct (tmode s) eqn:Em; try congruence;
    destruct c; unfold_all; cbn; rewrite ?Em, ?Hp, ?Hc; cbn;
    split_matches; cbn; rewrite ?Em, ?Hp, ?Hc; repeat split; try congruence; try assumption; try discriminate.
Qed.

Lemma run_ro d0 a : forall s, d0 <> None -> ro_inv d0 s -> ro_inv d0 (state_after s a).
Proof.
  induction a as [|c a IH]; intros s Hd H; [exact H|].
  rewrite state_after_cons. apply IH; [exact Hd|]. apply step_ro; assumption.
Qed.

(* over an absent store the only thing a non-writer can do is create it (empty) and remove it again *)
Definition ro_inv0 (s : state) : Prop :=
  tmode s <> ForWriting /\ prepared s = None /\
  ((disk s = None) \/ (disk s = Some (0, []) /\ created s = true /\ opened s = true)).

Lemma step_ro0 s c : ro_inv0 s -> ro_inv0 (snd (step s c)).
Proof.
  intros (Hm & Hp & Hd). unfold ro_inv0.
  destruct (tmode s) eqn:Em; try congruence;
    destruct Hd as [Hd|(Hd & Hc & Ho)];
    destruct c; unfold_all; cbn; rewrite ?Em, ?Hp, ?Hd, ?Hc, ?Ho; cbn;
    split_matches; cbn; rewrite ?Em, ?Hp, ?Hd, ?Hc, ?Ho; repeat split; try congruence; try discriminate; auto.
Qed.

Lemma run_ro0 a : forall s, ro_inv0 s -> ro_inv0 (state_after s a).
Proof.
  induction a as [|c a IH]; intros s H; [exact H|].
  rewrite state_after_cons. apply IH. apply step_ro0; assumption.
Qed.

(* ---------------------------------------------------------------- writers that never enter the commit protocol *)

Definition nc_inv (d0 : option store) (s : state) : Prop :=
  prepared s = None /\ created s = false /\ disk s = d0.

Lemma step_nc d0 s c : d0 <> None -> is_commit_phase c = false -> nc_inv d0 s -> nc_inv d0 (snd (step s c)).
Proof.
  intros Hd Hc (Hp & Hcr & Hk). unfold nc_inv.
  destruct c; try discriminate; unfold_all; cbn; rewrite ?Hp, ?Hcr; cbn;
    split_matches; cbn; rewrite ?Hp, ?Hcr; repeat split; try congruence; try assumption; try discriminate.
Qed.

Lemma run_nc d0 a : forall s, d0 <> None -> forallb (fun c => negb (is_commit_phase c)) a = true -> nc_inv d0 s -> nc_inv d0 (state_after s a).
Proof.
  induction a as [|c a IH]; intros s Hd Ha H; [exact H|].
  cbn in Ha. apply andb_true_iff in Ha as [Hc Ha]. apply negb_true_iff in Hc.
  rewrite state_after_cons. apply IH; [exact Hd|exact Ha|]. apply step_nc; assumption.
Qed.

(* StoreCatalog.v — model of store creation/removal (property C12).
   Transcribed from common/managebtree.go (NewBtree), common/twophasecommittransaction2.go
   (Transaction.rollback: the addActivelyPersistedItem branch and the createStore branch, both of which remove the stores the transaction created),
   fs/storerepository.go (Add: unique-name check and writes under the store-list lock; Remove),
   infs/managebtree.go (RemoveBtree = StoreRepository.Remove).  Definitions only. *)
From Coq Require Import List ZArith NArith Bool.
From SopVerif Require Import Gen.MaintConsts.
Import ListNotations.
Local Open Scope Z_scope.

(* a store as the catalog knows it: name, options (slot length, value placement ...) as one number,
   count, number of node/registry artefacts in its folder *)
Record store := mkStore { s_name : N; s_opts : Z; s_count : Z; s_artefacts : nat }.
(* storelist.txt + one folder per store (storeinfo.txt, registry segments, blobs), + the L2 cache key *)
Definition catalog := list store.

Definition sr_get (c : catalog) (n : N) : option store := find (fun s => N.eqb (s_name s) n) c.
Definition count_name (c : catalog) (n : N) : nat := length (filter (fun s => N.eqb (s_name s) n) c).

(* StoreRepository.Add, one store: under the store-list lock, refuse an existing name, else write
   the list, the folder and storeinfo.txt *)
Definition sr_add (c : catalog) (s : store) : option catalog :=
  match sr_get c (s_name s) with Some _ => None | None => Some (c ++ [s]) end.

(* StoreRepository.Remove / RemoveBtree: cache key, folder (everything inside), list entry *)
Definition sr_remove (c : catalog) (n : N) : catalog := filter (fun s => negb (N.eqb (s_name s) n)) c.

Inductive outcome := Created | Opened | Failed.

Definition fresh_store (n : N) (opts : Z) : store := mkStore n opts 0 0.

(* NewBtree in its two interface steps.  Step 1: StoreRepository.Get. *)
Definition nb_get (c : catalog) (n : N) : option store := sr_get c n.
(* Step 2, taken when step 1 found nothing: log createStore, StoreRepository.Add; on error
   `trans.StoreRepository.Remove(ctx, ns.Name)` ("cleanup the store if there was anything added"),
   then roll the transaction back. *)
Definition nb_add (c : catalog) (n : N) (opts : Z) : catalog * outcome :=
  match sr_add c (fresh_store n opts) with
  | Some c' => (c', Created)
  | None => (sr_remove c n, Failed)
  end.
(* options are compatible iff equal in this abstraction *)
Definition nb_open (found : store) (opts : Z) : outcome := if Z.eqb (s_opts found) opts then Opened else Failed.

(* NewBtree without another creator in between *)
Definition new_btree (c : catalog) (n : N) (opts : Z) : catalog * outcome :=
  match nb_get c n with
  | Some s => (c, nb_open s opts)
  | None => nb_add c n opts
  end.

(* Transaction.rollback as far as the catalog is concerned, for a transaction that created [n] and
   whose logger.committedState is [cs]:
     if cs == addActivelyPersistedItem { delete the items' values; remove the created stores;
                                         remove logs; return }
     ...
     if cs >= createStore { for created stores: StoreRepository.Remove } *)
Definition txn_rollback (cs : Z) (c : catalog) (created : list N) : catalog :=
  if Z.eqb cs addActivelyPersistedItem then fold_left sr_remove created c
  else if createStore <=? cs then fold_left sr_remove created c
  else c.

(* how a transaction that created a store can end without committing, and the logger state then:
   0 explicit Rollback, 1 NewBtree itself failed, 2 an item operation failed, 3 the commit failed *)
Definition state_at_abort (actively_persisted_add : bool) (phase : nat) : Z :=
  match phase with
  | 3%nat => lockTrackedItems          (* Phase1Commit logs lockTrackedItems first *)
  | 1%nat => createStore
  | _ => if actively_persisted_add then addActivelyPersistedItem else createStore
  end.

(* does the store exist after the program?  phase 4 = committed *)
Definition exists_after (actively_persisted_add : bool) (phase : nat) : bool :=
  match phase with
  | 4%nat => true
  | 1%nat => false    (* NewBtree: Remove + rollback in state createStore *)
  | _ => match sr_get (txn_rollback (state_at_abort actively_persisted_add phase) [fresh_store 1 0] [1%N]) 1 with
         | Some _ => true | None => false end
  end.

(* two creators of one name; [sched] lists whose step runs next (false = creator 1, true = creator 2);
   each creator does Get then Add/open.  Result: catalog and both outcomes. *)
Record creator := mkCreator { cr_saw : option (option store); cr_out : option outcome }.
Definition step_creator (c : catalog) (n : N) (opts : Z) (k : creator) : catalog * creator :=
  match cr_out k with
  | Some _ => (c, k)
  | None =>
    match cr_saw k with
    | None => (c, mkCreator (Some (nb_get c n)) None)
    | Some (Some s) => (c, mkCreator (cr_saw k) (Some (nb_open s opts)))
    | Some None => let '(c', o) := nb_add c n opts in (c', mkCreator (cr_saw k) (Some o))
    end
  end.
Fixpoint run_two (sched : list bool) (n : N) (opts : Z) (st : catalog * creator * creator) : catalog * creator * creator :=
  match sched with
  | [] => st
  | b :: r =>
    let '(c, k1, k2) := st in
    if b then let '(c', k2') := step_creator c n opts k2 in run_two r n opts (c', k1, k2')
    else let '(c', k1') := step_creator c n opts k1 in run_two r n opts (c', k1', k2)
  end.
Definition idle : creator := mkCreator None None.

(* k creators one after the other *)
Fixpoint serial (k : nat) (c : catalog) (n : N) (opts : Z) : catalog * list outcome :=
  match k with
  | O => (c, [])
  | S k' => let '(c1, o) := new_btree c n opts in let '(c2, os) := serial k' c1 n opts in (c2, o :: os)
  end.

(* ---------------------------------------------------------------- commit with conflict retries
   phase1Commit's loop as far as the catalog is concerned.  A round either commits, returns an
   error from logger state s (Phase1Commit/Phase2Commit then call rollback(ctx, true)), or detects
   a conflict in state s: `t.rollback(ctx, false)` — the PARTIAL rollback; its flag only guards the
   tracked item values, the `committedState >= createStore` clean-up runs all the same — whose
   tail rewinds committedState to `unknown`; then refetchAndMergeModifications re-reads every
   store of the transaction (a created store that is gone: "store ... not found (maybe deleted by
   rollback?)") and re-merges the existing ones ([merge_ok], an oracle); on error the FINAL
   rollback runs in state `unknown`, which is below createStore. *)
Inductive round := RoundCommitted | RoundError (s : Z) | RoundConflict (s : Z) (merge_ok : bool).

Definition present (c : catalog) (n : N) : bool := match sr_get c n with Some _ => true | None => false end.

Fixpoint commit_loop (rs : list round) (c : catalog) (created : list N) : catalog * bool :=
  match rs with
  | [] => (txn_rollback lockTrackedItems c created, false)        (* timed out / retry limit at the loop head *)
  | RoundCommitted :: _ => (c, true)
  | RoundError s :: _ => (txn_rollback s c created, false)
  | RoundConflict s merge_ok :: r =>
      let c1 := txn_rollback s c created in                       (* partial rollback, then log(unknown) *)
      if merge_ok && forallb (present c1) created
      then commit_loop r c1 created                               (* log(lockTrackedItems), next round *)
      else (txn_rollback unknown c1 created, false)               (* final rollback in state unknown *)
  end.

Definition round_state_ok (r : round) : Prop :=
  match r with
  | RoundCommitted => True
  | RoundError s | RoundConflict s _ => createStore <= s
  end.

(* BOUNDED theorems (vm_compute over a finite domain, the bound is in the statement):
   Btree refines OMap on every call sequence up to the stated length over the stated
   alphabet.  These are NOT the C17 claim; they cover the part of the refinement that
   is not proved by induction (see Props/C17.v). *)
From Coq Require Import List ZArith NArith Bool.
From SopVerif Require Import OMap Btree BtreeSim BtreeProofs.
Import ListNotations.
Local Open Scope Z_scope.

Definition alpha_L4 : list op := [OAdd 1 1; OAdd 2 2; ORemove 1; ORemove 2; OFirst; ONext; ORemoveCurrent].

(* BOUNDED: every sequence of at most 7 calls, slot length 4 (a root split needs 5 adds), duplicates allowed *)
Theorem bounded_L4_dup : forall ops, (length ops <= 7)%nat -> Forall (fun o => In o alpha_L4) ops ->
  sim_run (mkCfg 4 false false) ops = true.
Proof. apply explore_sound. vm_cast_no_check (eq_refl true). Qed.

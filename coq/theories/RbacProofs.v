(* Lemmas about the access-control model (Rbac.v). Stdlib lists only. *)
From Coq Require Import List NArith Bool Lia.
From SopVerif Require Import Gen.RbacConsts Rbac.
Import ListNotations.

(* ------------------------------------------------------------------ strings *)

Lemma str_eqb_eq : forall a b, str_eqb a b = true <-> a = b.
Proof.
  induction a as [|x a IH]; destruct b as [|y b]; cbn [str_eqb]; split; intro H;
    try reflexivity; try discriminate.
  - apply andb_true_iff in H. destruct H as [Hxy Hab]. apply N.eqb_eq in Hxy. apply IH in Hab. subst. reflexivity.
  - inversion H; subst. apply andb_true_iff. split; [apply N.eqb_refl|apply IH; reflexivity].
Qed.

Lemma str_eqb_refl : forall a, str_eqb a a = true.
Proof. intro a. apply str_eqb_eq. reflexivity. Qed.

Lemma str_eqb_neq : forall a b, str_eqb a b = false <-> a <> b.
Proof.
  intros a b. split.
  - intros H E. apply str_eqb_eq in E. congruence.
  - intro H. destruct (str_eqb a b) eqn:E; [apply str_eqb_eq in E; contradiction|reflexivity].
Qed.

Lemma str_eqb_sym : forall a b, str_eqb a b = str_eqb b a.
Proof.
  intros a b. destruct (str_eqb a b) eqn:E.
  - apply str_eqb_eq in E. subst. symmetry. apply str_eqb_refl.
  - symmetry. apply str_eqb_neq. apply str_eqb_neq in E. congruence.
Qed.

Lemma str_eq_dec : forall a b : str, {a = b} + {a <> b}.
Proof.
  intros a b. destruct (str_eqb a b) eqn:E; [left; apply str_eqb_eq; exact E|right; apply str_eqb_neq; exact E].
Qed.

Lemma mem_In : forall s l, mem s l = true <-> In s l.
Proof.
  intros s l. unfold mem. rewrite existsb_exists. split.
  - intros [x [Hin Heq]]. apply str_eqb_eq in Heq. subst. exact Hin.
  - intro Hin. exists s. split; [exact Hin|apply str_eqb_refl].
Qed.

Lemma mem_false : forall s l, mem s l = false <-> ~ In s l.
Proof.
  intros s l. split.
  - intros H Hin. apply mem_In in Hin. congruence.
  - intro H. destruct (mem s l) eqn:E; [apply mem_In in E; contradiction|reflexivity].
Qed.

Lemma lookup_In : forall (V : Type) k (m : list (str * V)) v, lookup k m = Some v -> In (k, v) m.
Proof.
  intros V k m. induction m as [|[k' v'] r IH]; intros v H; cbn [lookup] in H; [discriminate|].
  destruct (str_eqb k k') eqn:E.
  - apply str_eqb_eq in E. inversion H; subst. left. reflexivity.
  - right. apply IH. exact H.
Qed.

(* ------------------------------------------------------------------ grants *)

Definition grants_prop (acts : list str) (action : str) : Prop := In action acts \/ In grant_wildcard acts.

Lemma grants_spec : forall acts action, grants acts action = true <-> grants_prop acts action.
Proof.
  intros acts action. unfold grants, grants_prop. rewrite existsb_exists. split.
  - intros [a [Hin H]]. apply orb_true_iff in H. destruct H as [H|H]; apply str_eqb_eq in H; subst; [left|right]; exact Hin.
  - intros [H|H].
    + exists action. split; [exact H|]. rewrite str_eqb_refl. reflexivity.
    + exists grant_wildcard. split; [exact H|]. rewrite (str_eqb_refl grant_wildcard). apply orb_true_r.
Qed.

Definition role_granted_prop (c : caller) (acc : access) (action : str) : Prop :=
  exists role acts, In role (c_roles c) /\ lookup role (a_roles acc) = Some acts /\ grants_prop acts action.

Definition user_granted_prop (c : caller) (acc : access) (action : str) : Prop :=
  exists acts, lookup (c_user c) (a_users acc) = Some acts /\ grants_prop acts action.

Lemma role_granted_spec : forall c acc action, role_granted c acc action = true <-> role_granted_prop c acc action.
Proof.
  intros c acc action. unfold role_granted, role_granted_prop. rewrite existsb_exists. split.
  - intros [role [Hin H]]. destruct (lookup role (a_roles acc)) as [acts|] eqn:El; [|discriminate].
    exists role, acts. split; [exact Hin|]. split; [exact El|]. apply grants_spec. exact H.
  - intros [role [acts [Hin [Hl Hg]]]]. exists role. split; [exact Hin|]. rewrite Hl. apply grants_spec. exact Hg.
Qed.

Lemma user_granted_spec : forall c acc action, user_granted c acc action = true <-> user_granted_prop c acc action.
Proof.
  intros c acc action. unfold user_granted, user_granted_prop. split.
  - intro H. destruct (lookup (c_user c) (a_users acc)) as [acts|] eqn:El; [|discriminate].
    exists acts. split; [reflexivity|]. apply grants_spec. exact H.
  - intros [acts [Hl Hg]]. rewrite Hl. apply grants_spec. exact Hg.
Qed.

(* ------------------------------------------------------------------ Authorize *)

Definition public_rule (acc : access) (action : str) : Prop :=
  (a_vis acc = VisibilityPublic \/ a_vis acc = []) /\ (action = ActionRead \/ action = ActionList).

Lemma public_rule_spec : forall acc action,
  mem (a_vis acc) public_visibilities && mem action public_actions = true <-> public_rule acc action.
Proof.
  intros acc action. unfold public_rule. rewrite andb_true_iff, !mem_In. unfold public_visibilities, public_actions.
  cbn [In]. split.
  - intros [[H|[H|[]]] [G|[G|[]]]]; split; auto.
  - intros [[H|H] [G|G]]; split; auto.
Qed.

Definition owner_rule (c : caller) (acc : access) : Prop := a_owner acc <> [] /\ c_user c = a_owner acc.

Lemma owner_rule_spec : forall c acc,
  negb (str_eqb (a_owner acc) []) && str_eqb (c_user c) (a_owner acc) = true <-> owner_rule c acc.
Proof.
  intros c acc. unfold owner_rule. rewrite andb_true_iff, negb_true_iff, str_eqb_neq, str_eqb_eq. reflexivity.
Qed.

(* the "otherwise" clause of the property *)
Definition entitled (c : caller) (acc : access) (action : str) : Prop :=
  In RoleAdmin (c_roles c)
  \/ owner_rule c acc
  \/ public_rule acc action
  \/ role_granted_prop c acc action
  \/ user_granted_prop c acc action.

Lemma authorize_system : forall c acc action, a_vis acc = VisibilitySystem -> authorize c acc action = c_system c.
Proof. intros c acc action H. unfold authorize. rewrite H, str_eqb_refl. reflexivity. Qed.

Lemma authorize_characterisation : forall c acc action, a_vis acc <> VisibilitySystem ->
  (authorize c acc action = true <-> entitled c acc action).
Proof.
  intros c acc action Hvis. unfold authorize, entitled.
  apply str_eqb_neq in Hvis. rewrite Hvis.
  destruct (mem RoleAdmin (c_roles c)) eqn:Eadm.
  { apply mem_In in Eadm. split; [intros _; left; exact Eadm|reflexivity]. }
  apply mem_false in Eadm.
  destruct (negb (str_eqb (a_owner acc) []) && str_eqb (c_user c) (a_owner acc)) eqn:Eown.
  { apply owner_rule_spec in Eown. split; [intros _; right; left; exact Eown|reflexivity]. }
  assert (Hown : ~ owner_rule c acc) by (intro H; apply owner_rule_spec in H; congruence).
  destruct (mem (a_vis acc) public_visibilities && mem action public_actions) eqn:Epub.
  { apply public_rule_spec in Epub. split; [intros _; right; right; left; exact Epub|reflexivity]. }
  assert (Hpub : ~ public_rule acc action) by (intro H; apply public_rule_spec in H; congruence).
  destruct (role_granted c acc action) eqn:Erole.
  { apply role_granted_spec in Erole. split; [intros _; right; right; right; left; exact Erole|reflexivity]. }
  assert (Hrole : ~ role_granted_prop c acc action) by (intro H; apply role_granted_spec in H; congruence).
  rewrite user_granted_spec. split.
  - intro H. right; right; right; right. exact H.
  - intros [H|[H|[H|[H|H]]]]; try contradiction. exact H.
Qed.

(* ------------------------------------------------------------------ CheckPolicy *)

Definition core_name (name : str) : Prop :=
  name = [83; 79; 80]%N (* "SOP" *)
  \/ name = [76; 111; 110; 103; 84; 101; 114; 109; 77; 101; 109; 111; 114; 121]%N (* "LongTermMemory" *).

Definition destructive (action : str) : Prop := action = ActionWrite \/ action = ActionDelete.

Lemma is_system_readonly_spec : forall name, is_system_readonly name = true <-> core_name name.
Proof.
  intro name. unfold is_system_readonly, core_name. rewrite mem_In. unfold readonly_names. cbn [In].
  split; [intros [H|[H|[]]]; auto|intros [H|H]; auto].
Qed.

Lemma destructive_spec : forall action, mem action readonly_denied_actions = true <-> destructive action.
Proof.
  intro action. unfold destructive. rewrite mem_In. unfold readonly_denied_actions. cbn [In].
  split; [intros [H|[H|[]]]; auto|intros [H|H]; auto].
Qed.

Definition blocked (name action : str) : Prop := core_name name /\ destructive action.

Lemma blocked_spec : forall name action,
  is_system_readonly name && mem action readonly_denied_actions = true <-> blocked name action.
Proof. intros. unfold blocked. rewrite andb_true_iff, is_system_readonly_spec, destructive_spec. reflexivity. Qed.

Lemma check_policy_blocked : forall c name acc action, blocked name action ->
  check_policy c name acc action = DeniedReadOnly.
Proof. intros c name acc action H. unfold check_policy. apply blocked_spec in H. rewrite H. reflexivity. Qed.

Lemma check_policy_not_blocked : forall c name acc action, ~ blocked name action ->
  check_policy c name acc action = if authorize c acc action then Allowed else DeniedUnauthorized.
Proof.
  intros c name acc action H. unfold check_policy.
  destruct (is_system_readonly name && mem action readonly_denied_actions) eqn:E; [|reflexivity].
  apply blocked_spec in E. contradiction.
Qed.

Lemma blocked_dec : forall name action, {blocked name action} + {~ blocked name action}.
Proof.
  intros name action.
  destruct (is_system_readonly name && mem action readonly_denied_actions) eqn:E.
  - left. apply blocked_spec. exact E.
  - right. intro H. apply blocked_spec in H. congruence.
Qed.

Lemma can_perform_spec : forall c name acc action,
  can_perform c name acc action = true <-> ~ blocked name action /\ authorize c acc action = true.
Proof.
  intros c name acc action. unfold can_perform. destruct (blocked_dec name action) as [B|B].
  - rewrite (check_policy_blocked _ _ _ _ B). split; [discriminate|intros [H _]; contradiction].
  - rewrite (check_policy_not_blocked _ _ _ _ B). destruct (authorize c acc action); split; intro H; try discriminate.
    + split; [exact B|reflexivity].
    + reflexivity.
    + destruct H as [_ H]. discriminate.
Qed.

Lemma can_perform_check : forall c name acc action,
  can_perform c name acc action = true <-> check_policy c name acc action = Allowed.
Proof. intros. unfold can_perform. destruct (check_policy c name acc action); split; intro H; congruence. Qed.

(* ------------------------------------------------------------------ the capability map *)

Notation cap := action_to_ui_capability.

Lemma lookup_map_set : forall k k' v m,
  lookup k (map_set k' v m) = if str_eqb k k' then Some v else lookup k m.
Proof.
  intros k k' v m. induction m as [|[k0 v0] r IH]; cbn [map_set lookup].
  - reflexivity.
  - destruct (str_eqb k' k0) eqn:E0; cbn [lookup].
    + apply str_eqb_eq in E0. subst k0. destruct (str_eqb k k'); reflexivity.
    + rewrite IH. destruct (str_eqb k k') eqn:E1; [|reflexivity].
      apply str_eqb_eq in E1. subst k'. rewrite E0. reflexivity.
Qed.

Lemma resolve_actions_snoc : forall ev c asset acc acts a,
  resolve_actions ev c asset acc (acts ++ [a]) =
  map_set (cap a) (decision ev c asset acc a) (resolve_actions ev c asset acc acts).
Proof. intros. unfold resolve_actions. rewrite fold_left_app. reflexivity. Qed.

Definition caps_distinct (acts : list str) : Prop :=
  forall a b, In a acts -> In b acts -> cap a = cap b -> a = b.

(* the key of the map is read back as the decision of the LAST action that maps to it *)
Lemma resolve_last_wins : forall ev c asset acc l1 a l2,
  (forall b, In b l2 -> cap b <> cap a) ->
  lookup (cap a) (resolve_actions ev c asset acc (l1 ++ a :: l2)) = Some (decision ev c asset acc a).
Proof.
  intros ev c asset acc l1 a l2. revert l1. induction l2 as [|x l2 IH] using rev_ind; intros l1 H.
  - rewrite resolve_actions_snoc, lookup_map_set, str_eqb_refl. reflexivity.
  - replace (l1 ++ a :: l2 ++ [x]) with ((l1 ++ a :: l2) ++ [x]) by (rewrite <- app_assoc; reflexivity).
    rewrite resolve_actions_snoc, lookup_map_set.
    assert (Hx : cap x <> cap a) by (apply H; apply in_or_app; right; left; reflexivity).
    assert (E : str_eqb (cap a) (cap x) = false) by (apply str_eqb_neq; congruence).
    rewrite E. apply IH. intros b Hb. apply H. apply in_or_app. left. exact Hb.
Qed.

Lemma resolve_agrees : forall ev c asset acc acts, caps_distinct acts ->
  forall a, In a acts -> lookup (cap a) (resolve_actions ev c asset acc acts) = Some (decision ev c asset acc a).
Proof.
  intros ev c asset acc acts. induction acts as [|x acts IH] using rev_ind; intros Hd a Hin; [destruct Hin|].
  rewrite resolve_actions_snoc, lookup_map_set.
  destruct (str_eqb (cap a) (cap x)) eqn:E.
  - apply str_eqb_eq in E. assert (a = x).
    { apply Hd; [exact Hin|apply in_or_app; right; left; reflexivity|exact E]. }
    subst. reflexivity.
  - apply in_app_or in Hin. destruct Hin as [Hin|[Hin|[]]].
    + apply IH; [|exact Hin]. intros p q Hp Hq. apply Hd; apply in_or_app; left; assumption.
    + subst. rewrite str_eqb_refl in E. discriminate.
Qed.

Lemma resolve_keys : forall ev c asset acc acts k,
  lookup k (resolve_actions ev c asset acc acts) <> None <-> exists a, In a acts /\ cap a = k.
Proof.
  intros ev c asset acc acts k. induction acts as [|x acts IH] using rev_ind.
  - cbn. split; [congruence|intros [a [[] _]]].
  - rewrite resolve_actions_snoc, lookup_map_set. destruct (str_eqb k (cap x)) eqn:E.
    + apply str_eqb_eq in E. split; [|discriminate]. intros _. exists x. split; [apply in_or_app; right; left; reflexivity|congruence].
    + rewrite IH. split.
      * intros [a [Hin Hc]]. exists a. split; [apply in_or_app; left; exact Hin|exact Hc].
      * intros [a [Hin Hc]]. apply in_app_or in Hin. destruct Hin as [Hin|[Hin|[]]].
        -- exists a. split; assumption.
        -- subst. rewrite str_eqb_refl in E. discriminate.
Qed.

(* ------------------------------------------------------------------ the declared vocabulary never aliases *)

Lemma cap_table_key : forall a c, lookup a ui_cap_table = Some c -> In a [ActionRead; ActionWrite; ActionDelete; ActionAISelect] /\ In c declared_capabilities.
Proof.
  intros a c H. apply lookup_In in H. unfold ui_cap_table in H. cbn [In] in H.
  destruct H as [H|[H|[H|[H|[]]]]]; inversion H; subst; split; cbn [In declared_capabilities]; auto 10.
Qed.

Lemma cap_unknown : forall a, ~ In a declared_actions -> cap a = a.
Proof.
  intros a H. unfold action_to_ui_capability. destruct (lookup a ui_cap_table) as [c|] eqn:E; [|reflexivity].
  apply cap_table_key in E. destruct E as [E _]. exfalso. apply H. unfold declared_actions. cbn [In] in *.
  destruct E as [E|[E|[E|[E|[]]]]]; subst; auto 10.
Qed.

Lemma cap_declared : forall a, In a declared_actions ->
  (a = ActionList /\ cap a = ActionList) \/ (a <> ActionList /\ In (cap a) declared_capabilities).
Proof.
  intros a H. unfold declared_actions in H. cbn [In] in H.
  destruct H as [H|[H|[H|[H|[H|[]]]]]]; subst; vm_compute; first [left; split; reflexivity | right; split; [discriminate|auto 10]].
Qed.

Lemma declared_caps_distinct_closed : caps_distinct declared_actions.
Proof.
  intros a b Ha Hb. unfold declared_actions in Ha, Hb. cbn [In] in Ha, Hb.
  destruct Ha as [Ha|[Ha|[Ha|[Ha|[Ha|[]]]]]]; destruct Hb as [Hb|[Hb|[Hb|[Hb|[Hb|[]]]]]]; subst; vm_compute;
    intro H; first [reflexivity | discriminate H].
Qed.

(* a blueprint made of declared actions and of other actions whose text is not a capability key has distinct keys *)
Lemma vocabulary_caps_distinct : forall acts,
  (forall a, In a acts -> In a declared_actions \/ ~ In a declared_capabilities) -> caps_distinct acts.
Proof.
  intros acts Hv a b Ha Hb Hc.
  destruct (in_dec str_eq_dec a declared_actions) as [Da|Da]; destruct (in_dec str_eq_dec b declared_actions) as [Db|Db].
  - apply declared_caps_distinct_closed; assumption.
  - rewrite (cap_unknown b Db) in Hc. destruct (cap_declared a Da) as [[Ea Eca]|[_ Eca]].
    + congruence.
    + rewrite Hc in Eca. destruct (Hv b Hb) as [H|H]; contradiction.
  - rewrite (cap_unknown a Da) in Hc. destruct (cap_declared b Db) as [[Eb Ecb]|[_ Ecb]].
    + congruence.
    + rewrite <- Hc in Ecb. destruct (Hv a Ha) as [H|H]; contradiction.
  - rewrite (cap_unknown a Da), (cap_unknown b Db) in Hc. exact Hc.
Qed.

(* ConcBounded2.v -- second half of the exhaustive exploration (split so the two halves build in
   parallel) and the lifted theorem. *)
From Coq Require Import List NArith Bool.
From SopVerif Require Import History HistoryProofs Conc ConcProofs ConcBounded.
Import ListNotations.
Local Open Scope N_scope.

Lemma pairs_exploredB :
  forallb (fun p => forallb (fun q => pair_ok p q) partnersB) (progs2 alpha1) = true.
Proof. vm_compute. reflexivity. Qed.

Theorem pairs_all_schedules : forall p q sched,
  In p (progs2 alpha1) -> In q partners ->
  Forall (fun i => In i [1; 2]) sched ->
  all_done (run (pair_sys p q) sched) = true ->
  serializable (hist (run (pair_sys p q) sched)).
Proof.
  intros p q sched Hp Hq Hs Hd. apply ser_check_sound.
  assert (H : pair_ok p q = true).
  { unfold partners in Hq. apply in_app_or in Hq. destruct Hq as [Hq|Hq].
    - pose proof pairs_exploredA as H. rewrite forallb_forall in H. specialize (H p Hp).
      rewrite forallb_forall in H. exact (H q Hq).
    - pose proof pairs_exploredB as H. rewrite forallb_forall in H. specialize (H p Hp).
      rewrite forallb_forall in H. exact (H q Hq). }
  unfold pair_ok in H. exact (explore_sound _ _ _ _ H sched Hs Hd).
Qed.

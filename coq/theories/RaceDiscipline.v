(* C36 — lock discipline and data races: definitions only (no lemmas).

   A trace is the interleaved list of the synchronisation and memory events of
   all goroutines of one execution.  Happens-before is the closure the Go
   memory model gives for sync.Mutex / sync.RWMutex / go statements / joins
   (WaitGroup.Wait or channel receive of a completion, abstracted as Join):

     program order
     Unlock  m  -> every later Lock m and every later RLock m
     RUnlock m  -> every later Lock m            (NOT RUnlock -> RLock)
     go g       -> every later event of g
     event of g -> every later join of g
     transitivity

   A data race on x is a pair of accesses to x by different goroutines, at
   least one a write, not ordered by happens-before.

   The second half of the file is the finite site table type the translator
   tools/gen/accesssites.go instantiates (Gen/AccessSites.v). *)
From Coq Require Import List Arith Bool String.
Import ListNotations.

Definition gid := nat.
Definition mutex := nat.
Definition var := nat.

Inductive event :=
| Acq (m : mutex)      (* m.Lock() returned *)
| Rel (m : mutex)      (* m.Unlock() *)
| RAcq (m : mutex)     (* m.RLock() returned *)
| RRel (m : mutex)     (* m.RUnlock() *)
| Rd (x : var)
| Wr (x : var)
| Fork (g : gid)       (* go statement creating goroutine g *)
| Join (g : gid).      (* observes the termination of g *)

Definition trace := list (gid * event).

(* ---------------------------------------------------------------- events *)

Definition event_eqb (a b : event) : bool :=
  match a, b with
  | Acq m, Acq n | Rel m, Rel n | RAcq m, RAcq n | RRel m, RRel n => Nat.eqb m n
  | Rd x, Rd y | Wr x, Wr y => Nat.eqb x y
  | Fork g, Fork h | Join g, Join h => Nat.eqb g h
  | _, _ => false
  end.

Definition accessesb (e : event) (x : var) : bool :=
  match e with Rd y | Wr y => Nat.eqb y x | _ => false end.
Definition is_writeb (e : event) : bool :=
  match e with Wr _ => true | _ => false end.

(* synchronises-with on one mutex: release-like event, later acquire-like event *)
Definition syncb (e1 e2 : event) : bool :=
  match e1, e2 with
  | Rel m, Acq n | Rel m, RAcq n | RRel m, Acq n => Nat.eqb m n
  | _, _ => false
  end.

(* ---------------------------------------------------------------- happens-before *)

(* one happens-before edge from position i to the later position j *)
Definition edgeb (tr : trace) (i j : nat) : bool :=
  Nat.ltb i j &&
  match nth_error tr i, nth_error tr j with
  | Some (g1, e1), Some (g2, e2) =>
      Nat.eqb g1 g2                                    (* program order *)
      || syncb e1 e2                                   (* unlock -> lock *)
      || event_eqb e1 (Fork g2)                        (* go g2 -> event of g2 *)
      || event_eqb e2 (Join g1)                        (* event of g1 -> join g1 *)
  | _, _ => false
  end.

Definition edge (tr : trace) (i j : nat) : Prop := edgeb tr i j = true.

(* transitive closure, in left-linear form *)
Inductive hb (tr : trace) : nat -> nat -> Prop :=
| hb_edge : forall i j, edge tr i j -> hb tr i j
| hb_cons : forall i k j, edge tr i k -> hb tr k j -> hb tr i j.

(* decision procedure used by the non-vacuity examples: edges only go forward,
   so reachability from i to j needs at most j - i steps *)
Fixpoint reachb (tr : trace) (fuel i j : nat) : bool :=
  match fuel with
  | O => false
  | S f => edgeb tr i j
           || existsb (fun k => edgeb tr i k && reachb tr f k j) (seq (S i) (j - S i))
  end.
Definition hbb (tr : trace) (i j : nat) : bool := reachb tr (j - i) i j.

(* ---------------------------------------------------------------- races *)

Definition conflict (tr : trace) (x : var) (i j : nat) : Prop :=
  exists gi ei gj ej,
    nth_error tr i = Some (gi, ei) /\ nth_error tr j = Some (gj, ej) /\
    gi <> gj /\ accessesb ei x = true /\ accessesb ej x = true /\
    (is_writeb ei = true \/ is_writeb ej = true).

Definition race (tr : trace) (x : var) : Prop :=
  exists i j, i <> j /\ conflict tr x i j /\ ~ hb tr i j /\ ~ hb tr j i.

Definition conflictb (tr : trace) (x : var) (i j : nat) : bool :=
  match nth_error tr i, nth_error tr j with
  | Some (gi, ei), Some (gj, ej) =>
      negb (Nat.eqb gi gj) && accessesb ei x && accessesb ej x && (is_writeb ei || is_writeb ej)
  | _, _ => false
  end.

(* a racing pair i < j, searched exhaustively (examples only) *)
Definition raceb (tr : trace) (x : var) : bool :=
  existsb (fun i => existsb (fun j => Nat.ltb i j && conflictb tr x i j && negb (hbb tr i j))
                            (seq 0 (List.length tr))) (seq 0 (List.length tr)).

(* ---------------------------------------------------------------- mutex semantics *)

(* lock state: per mutex the exclusive holder and the multiset of read holders *)
Record lstate := mkL { wrh : mutex -> option gid; rdh : mutex -> list gid }.

Definition linit : lstate := mkL (fun _ => None) (fun _ => []).

Definition upd {A} (f : mutex -> A) (m : mutex) (v : A) : mutex -> A :=
  fun n => if Nat.eqb n m then v else f n.

Fixpoint remove_one (g : gid) (l : list gid) : list gid :=
  match l with
  | [] => []
  | h :: t => if Nat.eqb h g then t else h :: remove_one g t
  end.

Fixpoint memb (g : gid) (l : list gid) : bool :=
  match l with [] => false | h :: t => Nat.eqb h g || memb g t end.

Definition step (s : lstate) (ge : gid * event) : lstate :=
  let '(g, e) := ge in
  match e with
  | Acq m => mkL (upd (wrh s) m (Some g)) (rdh s)
  | Rel m => mkL (upd (wrh s) m None) (rdh s)
  | RAcq m => mkL (wrh s) (upd (rdh s) m (g :: rdh s m))
  | RRel m => mkL (wrh s) (upd (rdh s) m (remove_one g (rdh s m)))
  | _ => s
  end.

Definition opt_gid_eqb (a : option gid) (g : gid) : bool :=
  match a with Some h => Nat.eqb h g | None => false end.
Definition is_none {A} (a : option A) : bool := match a with None => true | _ => false end.
Definition is_nil {A} (l : list A) : bool := match l with [] => true | _ => false end.

(* what sync.Mutex / sync.RWMutex guarantee (Lock, RLock block until the condition holds)
   and what their contract demands of the caller (only a holder unlocks) *)
Definition ok_step (s : lstate) (ge : gid * event) : bool :=
  let '(g, e) := ge in
  match e with
  | Acq m => is_none (wrh s m) && is_nil (rdh s m)   (* a writer lock is exclusive *)
  | RAcq m => is_none (wrh s m)                      (* read locks are shared among readers only *)
  | Rel m => opt_gid_eqb (wrh s m) g                 (* only the holder releases *)
  | RRel m => memb g (rdh s m)
  | _ => true
  end.

(* lock state before the event at position n *)
Definition state_at (tr : trace) (n : nat) : lstate := fold_left step (firstn n tr) linit.

Definition wf (tr : trace) : Prop :=
  forall n ge, nth_error tr n = Some ge -> ok_step (state_at tr n) ge = true.

Fixpoint wfb_from (s : lstate) (tr : trace) : bool :=
  match tr with
  | [] => true
  | ge :: r => ok_step s ge && wfb_from (step s ge) r
  end.
Definition wfb (tr : trace) : bool := wfb_from linit tr.

(* ---------------------------------------------------------------- the discipline *)

Definition holds_excl (s : lstate) (g : gid) (m : mutex) : Prop := wrh s m = Some g.
Definition holds_shared (s : lstate) (g : gid) (m : mutex) : Prop := In g (rdh s m).

(* every access to x is made while holding m: writes exclusively, reads exclusively or shared *)
Definition disciplined (tr : trace) (x : var) (m : mutex) : Prop :=
  forall n g e, nth_error tr n = Some (g, e) -> accessesb e x = true ->
    holds_excl (state_at tr n) g m \/
    (is_writeb e = false /\ holds_shared (state_at tr n) g m).

Definition access_okb (s : lstate) (g : gid) (e : event) (x : var) (m : mutex) : bool :=
  negb (accessesb e x) || opt_gid_eqb (wrh s m) g || (negb (is_writeb e) && memb g (rdh s m)).

Fixpoint disciplinedb_from (s : lstate) (tr : trace) (x : var) (m : mutex) : bool :=
  match tr with
  | [] => true
  | (g, e) :: r => access_okb s g e x m && disciplinedb_from (step s (g, e)) r x m
  end.
Definition disciplinedb (tr : trace) (x : var) (m : mutex) : bool := disciplinedb_from linit tr x m.

(* ---------------------------------------------------------------- site tables (instantiated by Gen/AccessSites.v) *)

Inductive akind := ARd | AWr.
Inductive lmode := LExcl | LShared.

(* one syntactic access site of a shared object: where, what kind of access, and
   the locks the lockset pass found held there *)
Record site := mkSite {
  s_file : string;
  s_func : string;
  s_kind : akind;
  s_held : list (string * lmode);
  s_occ : string   (* "" or "#k": k-th unguarded site with the same file, function and kind *)
}.

Definition lmode_covers (k : akind) (md : lmode) : bool :=
  match k, md with
  | AWr, LShared => false
  | _, _ => true
  end.

(* the site respects the discipline for guard g *)
Definition guarded (g : string) (s : site) : bool :=
  existsb (fun lm => String.eqb (fst lm) g && lmode_covers (s_kind s) (snd lm)) (s_held s).

Definition kind_str (k : akind) : string := match k with ARd => "rd" | AWr => "wr" end.

(* the baseline signature "file:func:kind[#k]" of a site (no line numbers) *)
Definition site_sig (s : site) : string :=
  (s_file s ++ ":" ++ s_func s ++ ":" ++ kind_str (s_kind s) ++ s_occ s)%string.

Definition in_sigs (l : list string) (s : site) : bool := existsb (String.eqb (site_sig s)) l.

(* every site that is not one of the baseline signatures is guarded *)
Definition guarded_except (g : string) (baseline : list string) (sites : list site) : bool :=
  forallb (fun s => in_sigs baseline s || guarded g s) sites.

Definition unguarded_sites (g : string) (sites : list site) : list site :=
  filter (fun s => negb (guarded g s)) sites.

(* one shared object of the table *)
Record sobject := mkObj {
  o_name : string;
  o_guard : string;
  o_sites : list site;
  o_baseline : list string   (* signatures of the sites known to be unguarded (corpus/C36/sites.json) *)
}.

(* What the table is trusted for (hypothesis of C36_table_sound, never proved here): in the
   execution tr every access to x happens at a listed site whose kind is at least the access
   kind, and every lock the syntactic pass lists as held at that site is really held, in that
   mode, by the accessing goroutine. *)
Definition realises (mu_of : string -> mutex) (sites : list site) (tr : trace) (x : var) : Prop :=
  forall n g e, nth_error tr n = Some (g, e) -> accessesb e x = true ->
    exists s, In s sites /\ (is_writeb e = true -> s_kind s = AWr) /\
      forall l md, In (l, md) (s_held s) ->
        match md with
        | LExcl => holds_excl (state_at tr n) g (mu_of l)
        | LShared => holds_shared (state_at tr n) g (mu_of l)
        end.

(* HistoryProofs.v -- the checker of History.v is exact:
   ser_check h = true <-> serializable h, for every history. *)
From Coq Require Import List NArith Bool Permutation Lia.
From SopVerif Require Import History.
Import ListNotations.

Lemma opt_eqb_eq : forall a b, opt_eqb a b = true <-> a = b.
Proof.
  intros [x|] [y|]; cbn; split; intros H; try discriminate; try reflexivity.
  - apply N.eqb_eq in H. now subst.
  - inversion H. apply N.eqb_refl.
Qed.

Lemma lookup_notin : forall k s, ~ In k (map fst s) -> lookup k s = None.
Proof.
  induction s as [|[k' v] r IH]; cbn; intros Hn; [reflexivity|].
  destruct (N.eqb k k') eqn:E.
  - apply N.eqb_eq in E. subst. exfalso. apply Hn. now left.
  - apply IH. intros Hi. apply Hn. now right.
Qed.

Lemma state_eqb_spec : forall a b, state_eqb a b = true <-> state_eq a b.
Proof.
  intros a b. unfold state_eqb, state_eq. rewrite forallb_forall. split.
  - intros H k.
    destruct (in_dec N.eq_dec k (map fst a ++ map fst b)) as [Hi|Hn].
    + apply opt_eqb_eq. now apply H.
    + rewrite in_app_iff in Hn.
      rewrite (lookup_notin k a), (lookup_notin k b); auto.
  - intros H k _. apply opt_eqb_eq. apply H.
Qed.

Lemma explainsb_spec : forall h o, explainsb h o = true <-> explains h o.
Proof.
  intros h o. unfold explainsb, explains. destruct (run_txns (h_init h) o) as [s|].
  - rewrite state_eqb_spec. split.
    + intros H. exists s. now split.
    + intros [s' [E H]]. now inversion E; subst.
  - split; [discriminate|]. intros [s' [E _]]. discriminate.
Qed.

(* ---- permutations ---- *)

Lemma in_inserts : forall A (a : A) l p,
  In p (inserts a l) <-> exists l1 l2, l = l1 ++ l2 /\ p = l1 ++ a :: l2.
Proof.
  intros A a. induction l as [|x t IH]; intros p; cbn.
  - split.
    + intros [H|[]]. subst. exists [], []. now split.
    + intros [l1 [l2 [E1 E2]]]. left.
      symmetry in E1. apply app_eq_nil in E1. destruct E1; subst. reflexivity.
  - split.
    + intros [H|H].
      * subst. exists [], (x :: t). now split.
      * apply in_map_iff in H. destruct H as [q [Hq Hin]]. subst.
        apply IH in Hin. destruct Hin as [l1 [l2 [E1 E2]]]. subst.
        exists (x :: l1), l2. now split.
    + intros [l1 [l2 [E1 E2]]]. destruct l1 as [|y l1]; cbn in *.
      * left. subst. reflexivity.
      * right. inversion E1; subst. apply in_map_iff.
        exists (l1 ++ a :: l2). split; [reflexivity|]. apply IH. now exists l1, l2.
Qed.

Lemma perms_sound : forall A (l p : list A), In p (perms l) -> Permutation p l.
Proof.
  intros A. induction l as [|a t IH]; intros p; cbn.
  - intros [H|[]]. subst. constructor.
  - intros H. apply in_flat_map in H. destruct H as [q [Hq Hp]].
    apply in_inserts in Hp. destruct Hp as [l1 [l2 [E1 E2]]]. subst.
    apply IH in Hq. symmetry. apply Permutation_cons_app. now symmetry.
Qed.

Lemma perms_complete : forall A (l p : list A), Permutation p l -> In p (perms l).
Proof.
  intros A. induction l as [|a t IH]; intros p Hp; cbn.
  - apply Permutation_sym, Permutation_nil in Hp. subst. now left.
  - assert (Ha : In a p). { apply (Permutation_in a (Permutation_sym Hp)). now left. }
    apply in_split in Ha. destruct Ha as [l1 [l2 E]]. subst.
    apply in_flat_map. exists (l1 ++ l2). split.
    + apply IH. apply Permutation_sym in Hp. apply Permutation_cons_app_inv in Hp.
      now symmetry.
    + apply in_inserts. now exists l1, l2.
Qed.

Theorem ser_check_sound : forall h, ser_check h = true -> serializable h.
Proof.
  intros h H. unfold ser_check in H. apply existsb_exists in H.
  destruct H as [o [Ho He]]. exists o. split.
  - now apply perms_sound.
  - now apply explainsb_spec.
Qed.

Theorem ser_check_complete : forall h, serializable h -> ser_check h = true.
Proof.
  intros h [o [Hp He]]. unfold ser_check. apply existsb_exists. exists o. split.
  - now apply perms_complete.
  - now apply explainsb_spec.
Qed.

Theorem ser_check_correct : forall h, ser_check h = true <-> serializable h.
Proof. intros h. split; [apply ser_check_sound|apply ser_check_complete]. Qed.

Corollary ser_check_false : forall h, ser_check h = false -> ~ serializable h.
Proof.
  intros h H S. apply ser_check_complete in S. rewrite S in H. discriminate.
Qed.

(* a certificate order is enough *)
Lemma explains_order_serializable : forall h o,
  Permutation o (committed_of h) -> explainsb h o = true -> serializable h.
Proof. intros h o Hp He. exists o. split; [exact Hp|now apply explainsb_spec]. Qed.

(* ---- facts about the sequential semantics used by the protocol proofs ---- *)

Lemma lookup_upd_same : forall k v s, lookup k (upd k v s) = v.
Proof. intros. cbn. now rewrite N.eqb_refl. Qed.

Lemma lookup_upd_other : forall k k' v s, k <> k' -> lookup k (upd k' v s) = lookup k s.
Proof. intros. cbn. apply N.eqb_neq in H. now rewrite H. Qed.

Lemma apply_op_agree : forall o s1 s2 s1',
  lookup (op_key o) s1 = lookup (op_key o) s2 ->
  apply_op s1 o = Some s1' ->
  exists s2', apply_op s2 o = Some s2' /\
    lookup (op_key o) s1' = lookup (op_key o) s2' /\
    (forall k, k <> op_key o -> lookup k s1' = lookup k s1 /\ lookup k s2' = lookup k s2).
Proof.
  intros o s1 s2 s1' Hk H. destruct o as [k r|k v ok|k v ok|k ok]; cbn in *.
  - rewrite <- Hk. destruct (opt_eqb (lookup k s1) r); [|discriminate]. inversion H; subst.
    exists s2. repeat split; auto.
  - rewrite <- Hk. destruct (present (lookup k s1)), ok; try discriminate; inversion H; subst.
    + exists s2. repeat split; auto.
    + exists (upd k (Some v) s2). split; [reflexivity|]. split.
      * now rewrite !lookup_upd_same.
      * intros k' Hn. now rewrite !lookup_upd_other.
  - rewrite <- Hk. destruct (present (lookup k s1)), ok; try discriminate; inversion H; subst.
    + exists (upd k (Some v) s2). split; [reflexivity|]. split.
      * now rewrite !lookup_upd_same.
      * intros k' Hn. now rewrite !lookup_upd_other.
    + exists s2. repeat split; auto.
  - rewrite <- Hk. destruct (present (lookup k s1)), ok; try discriminate; inversion H; subst.
    + exists (upd k None s2). split; [reflexivity|]. split.
      * now rewrite !lookup_upd_same.
      * intros k' Hn. now rewrite !lookup_upd_other.
    + exists s2. repeat split; auto.
Qed.

(* Merge — item-level model of concurrent writers on one B-tree store (C04, C05).

   Transcribed from /repo:
     common/itemactiontracker.go   Get / Add / Update / Remove      -> t_get, do_add, do_update, do_remove
     btree/btree.go                Add, AddIfNotExist, Upsert, Update, UpdateKey, Remove, Find+GetCurrentValue -> exec_op
     btree/node.go                 add (duplicate check of a unique store)                       -> ins_u
     common/managebtree.go         refetchAndMergeClosure (replay of the tracked actions)         -> replay1 / replay
     common/twophasecommittransaction.go  phase1Commit retry loop (direct install or n merges)     -> commit_writer
     common/noderepository.backend.go     commitNewRootNodes (first root of an empty store)        -> root_step

   A store is abstracted as a key-ordered association list key -> item (id, version, value); the B-tree
   nodes are not modelled (C17). Stores with IsValueDataInNodeSegment or with values in separate segments
   (flag innode), not actively persisted. Definitions only; lemmas are in MergeProofs.v. *)
From Coq Require Import List ZArith NArith Bool.
Import ListNotations.
Local Open Scope Z_scope.

Record item := mkItem { iid : N; iver : Z; ival : N }.
Definition store := list (Z * item).

Definition item_eqb (a b : item) : bool :=
  N.eqb (iid a) (iid b) && Z.eqb (iver a) (iver b) && N.eqb (ival a) (ival b).

(* first item under key k (Find) *)
Fixpoint lookup (k : Z) (s : store) : option item :=
  match s with
  | [] => None
  | (k', it) :: r => if Z.eqb k k' then Some it else lookup k r
  end.

(* FindWithID: the item with key k and the given id (the implementation positions on the first item with
   key k and walks forward until the id matches) *)
Fixpoint find_id (k : Z) (id : N) (s : store) : option item :=
  match s with
  | [] => None
  | (k', it) :: r => if Z.eqb k k' && N.eqb (iid it) id then Some it else find_id k id r
  end.

(* insertion in key order, before the first item whose key is >= k (getIndexToInsertTo) *)
Fixpoint ins (k : Z) (it : item) (s : store) : store :=
  match s with
  | [] => [(k, it)]
  | (k', it') :: r => if Z.leb k k' then (k, it) :: s else (k', it') :: ins k it r
  end.

(* node.add: a unique store refuses a key that is present *)
Definition ins_u (unique : bool) (k : Z) (it : item) (s : store) : option store :=
  if unique then match lookup k s with Some _ => None | None => Some (ins k it s) end
  else Some (ins k it s).

Fixpoint del (k : Z) (id : N) (s : store) : store :=
  match s with
  | [] => []
  | (k', it) :: r => if Z.eqb k k' && N.eqb (iid it) id then r else (k', it) :: del k id r
  end.

Fixpoint upd (k : Z) (id : N) (it' : item) (s : store) : store :=
  match s with
  | [] => []
  | (k', it) :: r => if Z.eqb k k' && N.eqb (iid it) id then (k', it') :: r else (k', it) :: upd k id it' r
  end.

Definition keys (s : store) : list Z := map fst s.
Definition contents (s : store) : list (Z * N) := map (fun e => (fst e, ival (snd e))) s.
Definition vlookup (k : Z) (s : store) : option N := option_map ival (lookup k s).

(* adjacent equal keys of the ordered scan (the C05 observation) *)
Fixpoint adjacent_dup (l : list Z) : bool :=
  match l with
  | a :: ((b :: _) as r) => Z.eqb a b || adjacent_dup r
  | _ => false
  end.

(* ---------------------------------------------------------------- item action tracker *)

Inductive akind := AGet | AAdd | AUpd | ARem.
Definition akind_eqb (a b : akind) : bool :=
  match a, b with AGet, AGet | AAdd, AAdd | AUpd, AUpd | ARem, ARem => true | _, _ => false end.

(* one entry of itemActionTracker.items: action, key of the tracked item, item id (the map key),
   versionInDB, and the item the entry points to *)
Record tent := mkT { tk : akind; tkey : Z; tid : N; tverdb : Z; titem : item }.
Definition tracker := list tent.

Fixpoint t_find (id : N) (t : tracker) : option tent :=
  match t with [] => None | e :: r => if N.eqb (tid e) id then Some e else t_find id r end.
Fixpoint t_del (id : N) (t : tracker) : tracker :=
  match t with [] => [] | e :: r => if N.eqb (tid e) id then r else e :: t_del id r end.
(* items[id] = e : replaces in place, or appends *)
Fixpoint t_set (e : tent) (t : tracker) : tracker :=
  match t with [] => [e] | x :: r => if N.eqb (tid x) (tid e) then e :: r else x :: t_set e r end.

(* a writer's private view *)
Record wstate := mkW { wlocal : store; wtrk : tracker; wnext : N }.

Inductive opkind := OAdd | OAddNE | OUpsert | OUpdate | OUpdKey | ORemove | OGet.
Record op := mkOp { okind : opkind; okey : Z; oval : N }.

(* btree.Add (+ itemActionTracker.Add): the slot keeps version 0, the tracked item has version 1 *)
Definition do_add (unique : bool) (k : Z) (v : N) (w : wstate) : bool * wstate :=
  let id := wnext w in
  match ins_u unique k (mkItem id 0 v) (wlocal w) with
  | None => (false, w)
  | Some l => (true, mkW l (t_set (mkT AAdd k id 0 (mkItem id 1 v)) (wtrk w)) (id + 1)%N)
  end.

(* btree.Update / UpdateKey -> UpdateCurrentItem / UpdateCurrentKey (+ itemActionTracker.Update) *)
Definition do_update (k : Z) (newv : option N) (w : wstate) : bool * wstate :=
  match lookup k (wlocal w) with
  | None => (false, w)
  | Some it =>
      let v := match newv with Some v => v | None => ival it end in
      match t_find (iid it) (wtrk w) with
      | Some e =>
          if akind_eqb (tk e) AAdd
          then (* tracked as add: the tracker keeps pointing to the item as it was added *)
            (true, mkW (upd k (iid it) (mkItem (iid it) (iver it) v) (wlocal w)) (wtrk w) (wnext w))
          else
            let ver := if Z.eqb (iver it) (tverdb e) then iver it + 1 else iver it in
            let it' := mkItem (iid it) ver v in
            (true, mkW (upd k (iid it) it' (wlocal w)) (t_set (mkT AUpd k (iid it) (tverdb e) it') (wtrk w)) (wnext w))
      | None =>
          let it' := mkItem (iid it) (iver it + 1) v in
          (true, mkW (upd k (iid it) it' (wlocal w)) (t_set (mkT AUpd k (iid it) (iver it) it') (wtrk w)) (wnext w))
      end
  end.

(* btree.Remove -> RemoveCurrentItem (+ itemActionTracker.Remove): versionInDB is the CURRENT slot version *)
Definition do_remove (k : Z) (w : wstate) : bool * wstate :=
  match lookup k (wlocal w) with
  | None => (false, w)
  | Some it =>
      let l := del k (iid it) (wlocal w) in
      match t_find (iid it) (wtrk w) with
      | Some e => if akind_eqb (tk e) AAdd then (true, mkW l (t_del (iid it) (wtrk w)) (wnext w))
                  else (true, mkW l (t_set (mkT ARem k (iid it) (iver it) it) (wtrk w)) (wnext w))
      | None => (true, mkW l (t_set (mkT ARem k (iid it) (iver it) it) (wtrk w)) (wnext w))
      end
  end.

(* itemActionTracker.Get: only an untracked item gets a get entry *)
Definition t_get (k : Z) (it : item) (t : tracker) : tracker :=
  match t_find (iid it) t with Some _ => t | None => t_set (mkT AGet k (iid it) (iver it) it) t end.

Definition do_get (k : Z) (w : wstate) : bool * wstate :=
  match lookup k (wlocal w) with
  | None => (false, w)
  | Some it => (true, mkW (wlocal w) (t_get k it (wtrk w)) (wnext w))
  end.

Definition exec_op (unique : bool) (o : op) (w : wstate) : bool * wstate :=
  match okind o with
  | OAdd => do_add unique (okey o) (oval o) w
  | OAddNE => do_add true (okey o) (oval o) w
  | OUpsert => let '(ok, w') := do_add true (okey o) (oval o) w in
               if ok then (true, w') else do_update (okey o) (Some (oval o)) w
  | OUpdate => do_update (okey o) (Some (oval o)) w
  | OUpdKey => do_update (okey o) None w
  | ORemove => do_remove (okey o) w
  | OGet => do_get (okey o) w
  end.

Fixpoint exec_ops (unique : bool) (os : list op) (w : wstate) : list bool * wstate :=
  match os with
  | [] => ([], w)
  | o :: r => let '(b, w1) := exec_op unique o w in
              let '(bs, w2) := exec_ops unique r w1 in (b :: bs, w2)
  end.

(* ---------------------------------------------------------------- refetchAndMergeClosure *)

Inductive merr := EAddDup | EFind | ENewer.

(* one tracked action replayed on the refetched store; the new tracker is rebuilt by the replayed calls:
   AddItem does not call the tracker, the closure re-registers an add only when values live outside the node *)
Definition replay1 (unique innode : bool) (e : tent) (st : store * tracker) : merr + (store * tracker) :=
  let '(s, t) := st in
  match tk e with
  | AAdd =>
      match ins_u unique (tkey e) (titem e) s with
      | None => inl EAddDup
      | Some s' => inr (s', if innode then t else t_set e t)
      end
  | _ =>
      match find_id (tkey e) (tid e) s with
      | None => inl EFind
      | Some it =>
          if negb (Z.eqb (iver it) (tverdb e)) then inl ENewer
          else
            let t1 := t_get (tkey e) it t in (* GetCurrentItem *)
            match tk e with
            | ARem => inr (del (tkey e) (tid e) s, t_set (mkT ARem (tkey e) (tid e) (iver it) it) t1)
            | AUpd =>
                (* UpdateCurrentItemWithItem: the slot takes the tracked item; tracker.Update bumps the
                   version only if it still equals the version just read *)
                let ti := titem e in
                let ti' := if Z.eqb (iver ti) (iver it) then mkItem (iid ti) (iver ti + 1) (ival ti) else ti in
                inr (upd (tkey e) (tid e) ti s, t_set (mkT AUpd (tkey e) (tid e) (iver it) ti') t1)
            | _ => inr (s, t1)
            end
      end
  end.

(* the Go loop ranges over a map: the order of es is arbitrary *)
Fixpoint replay (unique innode : bool) (es : list tent) (st : store * tracker) : merr + (store * tracker) :=
  match es with
  | [] => inr st
  | e :: r => match replay1 unique innode e st with
              | inl x => inl x
              | inr st' => replay unique innode r st'
              end
  end.

(* ---------------------------------------------------------------- commit of one writer *)

(* direct path (no node conflict): the writer's nodes are installed. The nodes it touched are unchanged
   since it read them, so at item level: under every key it tracked a change for, the committed store
   takes what the writer's local view holds under that key; all other keys keep their content *)
Definition items_at (k : Z) (s : store) : store := filter (fun e => Z.eqb k (fst e)) s.
Fixpoint rmkey (k : Z) (s : store) : store :=
  match s with
  | [] => []
  | (k', it) :: r => if Z.eqb k k' then rmkey k r else (k', it) :: rmkey k r
  end.
Definition set_key (local : store) (k : Z) (s : store) : store :=
  fold_right (fun e acc => ins (fst e) (snd e) acc) (rmkey k s) (items_at k local).
Definition install1 (local : store) (e : tent) (s : store) : store :=
  match tk e with AGet => s | _ => set_key local (tkey e) s end.
Definition install (local : store) (t : tracker) (s : store) : store := fold_left (fun s e => install1 local e s) t s.

(* the node version checks let the direct path through only if the nodes the writer touched are unchanged;
   at item level: every key it tracked holds what it read *)
Definition same_at (k : Z) (a b : store) : bool :=
  match lookup k a, lookup k b with
  | None, None => true
  | Some x, Some y => item_eqb x y
  | _, _ => false
  end.
Definition direct_ok (snap cur : store) (t : tracker) : bool := forallb (fun e => same_at (tkey e) snap cur) t.

(* n refetch-and-merge rounds against the committed store cur (each round replays the tracker left by the
   previous one on a fresh copy of cur), then the merged view is installed *)
Fixpoint merges (unique innode : bool) (n : nat) (cur : store) (t : tracker) : merr + (store * tracker) :=
  match n with
  | O => inr (cur, t)
  | S O => replay unique innode t (cur, [])
  | S n' => match replay unique innode t (cur, []) with
            | inl x => inl x
            | inr (_, t') => merges unique innode n' cur t'
            end
  end.

Record writer := mkWriter { w_ops : list op; w_merges : nat }.

Definition run_ops (unique : bool) (snap : store) (nextid : N) (os : list op) : list bool * wstate :=
  exec_ops unique os (mkW snap [] nextid).

(* commit against cur of a writer that read snap *)
Definition commit_writer (unique innode : bool) (snap cur : store) (w : wstate) (n : nat) : option store :=
  match n with
  | O => if direct_ok snap cur (wtrk w) then Some (install (wlocal w) (wtrk w) cur) else None
  | _ => match merges unique innode n cur (wtrk w) with
         | inl _ => None
         | inr (s, _) => Some s
         end
  end.

(* writers commit one after the other in the given order, all having read init; ids of writer i start at
   base*(i+1) so that they are distinct. Result: None if some commit fails *)
Fixpoint run_seq (unique innode : bool) (init : store) (idbase : N) (ws : list (nat * writer)) (cur : store) : option store :=
  match ws with
  | [] => Some cur
  | (i, w) :: r =>
      let '(_, st) := run_ops unique init (idbase * N.of_nat (S i))%N (w_ops w) in
      match commit_writer unique innode init cur st (w_merges w) with
      | None => None
      | Some cur' => run_seq unique innode init idbase r cur'
      end
  end.

(* ---------------------------------------------------------------- first root of an empty store *)

(* commitNewRootNodes of writer i: registry.Get, blobStore.Add (blob id = logical id of the root), registry.Add *)
Inductive rcall := RGet | RBlob | RReg.
Record rootst := mkR { r_reg : option nat;          (* who registered the root *)
                       r_blob : option nat;         (* whose items the root blob holds *)
                       r_saw_empty : list nat;      (* writers whose Get returned an empty handle *)
                       r_ok : list nat;             (* writers whose commitNewRootNodes returned success *)
                       r_failed : list nat }.       (* writers whose registry.Add failed *)
Definition root_init := mkR None None [] [] [].
Definition memb (i : nat) (l : list nat) := existsb (Nat.eqb i) l.

Definition root_step (st : rootst) (c : nat * rcall) : rootst :=
  let '(i, call) := c in
  match call with
  | RGet => match r_reg st with
            | None => mkR (r_reg st) (r_blob st) (i :: r_saw_empty st) (r_ok st) (r_failed st)
            | Some _ => st (* a non-empty root: the writer leaves for the refetch-and-merge path *)
            end
  | RBlob => if memb i (r_saw_empty st) then mkR (r_reg st) (Some i) (r_saw_empty st) (r_ok st) (r_failed st) else st
  | RReg => if memb i (r_saw_empty st)
            then match r_reg st with
                 | None => mkR (Some i) (r_blob st) (r_saw_empty st) (i :: r_ok st) (r_failed st)
                 | Some _ => mkR (r_reg st) (r_blob st) (r_saw_empty st) (r_ok st) (i :: r_failed st)
                 end
            else st
  end.
Definition root_run (sch : list (nat * rcall)) : rootst := fold_left root_step sch root_init.

(* ---------------------------------------------------------------- sorted try-lock rounds (phase1Commit loop) *)

(* Lock(keys) of the in-memory cache: all-or-nothing try-lock in sorted key order; a contender whose keys
   are all free takes them, the others back off and retry in the next round *)
Definition lockset := list N.
Definition disjointb (a b : lockset) : bool := forallb (fun x => negb (existsb (N.eqb x) b)) a.

(* one round: contenders try in the given order; held = keys taken in this round. Returns (finished, still waiting) *)
Fixpoint lock_round (held : lockset) (cs : list (nat * lockset)) : list nat * list (nat * lockset) :=
  match cs with
  | [] => ([], [])
  | (i, ks) :: r =>
      if disjointb ks held
      then let '(f, w) := lock_round (ks ++ held) r in (i :: f, w)
      else let '(f, w) := lock_round held r in (f, (i, ks) :: w)
  end.

(* rounds until nobody waits; winners of a round commit and release before the next round *)
Fixpoint lock_rounds (fuel : nat) (cs : list (nat * lockset)) : option nat :=
  match cs with
  | [] => Some O
  | _ => match fuel with
         | O => None
         | S f => option_map S (lock_rounds f (snd (lock_round [] cs)))
         end
  end.

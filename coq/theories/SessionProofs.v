(* C35 — lemmas about the session-token model of Session.v *)
From Coq Require Import List ZArith NArith Bool Lia.
From Coq Require Import ZifyBool ZifyNat ZifyN.
From SopVerif Require Import Session.
Import ListNotations.
Local Open Scope N_scope.
Ltac Zify.zify_post_hook ::= Z.div_mod_to_equations.

Lemma bytes_eqb_eq : forall a b, bytes_eqb a b = true -> a = b.
Proof.
  induction a as [|x a IH]; destruct b as [|y b]; cbn; intros H; try discriminate; [reflexivity|].
  apply andb_prop in H. destruct H as [H1 H2]. apply N.eqb_eq in H1. subst. f_equal. exact (IH b H2).
Qed.

Lemma bytes_eqb_refl : forall a, bytes_eqb a a = true.
Proof. induction a; cbn; [reflexivity|]. rewrite N.eqb_refl. exact IHa. Qed.

Lemma token_eqb_eq : forall a b, token_eqb a b = true -> a = b.
Proof.
  destruct a as [h p s|x], b as [h' p' s'|y]; cbn; intros H; try discriminate.
  - apply andb_prop in H. destruct H as [H H3]. apply andb_prop in H. destruct H as [H1 H2].
    apply bytes_eqb_eq in H1, H2, H3. subst. reflexivity.
  - apply bytes_eqb_eq in H. subst. reflexivity.
Qed.

Lemma token_eqb_refl : forall a, token_eqb a a = true.
Proof. destruct a; cbn; rewrite ?bytes_eqb_refl; reflexivity. Qed.

Lemma find_remove : forall l k k' r, find (remove l k) k' = Some r -> find l k' = Some r.
Proof.
  induction l as [|[k0 v] l IH]; cbn; intros k k' r H; [discriminate|].
  destruct (token_eqb k k0) eqn:E.
  - destruct (token_eqb k' k0) eqn:E'; [|eauto].
    apply token_eqb_eq in E, E'. subst. specialize (IH _ _ _ H).
    (* k' = k0 = k was removed everywhere *)
    exfalso. clear IH. revert H. clear. induction l as [|[k1 v1] l IH]; cbn; [discriminate|].
    destruct (token_eqb k0 k1) eqn:E; [exact IH|]. cbn. rewrite E. exact IH.
  - cbn in H. destruct (token_eqb k' k0); [exact H|eauto].
Qed.

Lemma find_remove_same : forall l k, find (remove l k) k = None.
Proof.
  induction l as [|[k0 v] l IH]; cbn; intros k; [reflexivity|].
  destruct (token_eqb k k0) eqn:E; [apply IH|]. cbn. rewrite E. apply IH.
Qed.

Lemma find_remove_none : forall l k k', find l k' = None -> find (remove l k) k' = None.
Proof.
  intros l k k' H. destruct (find (remove l k) k') eqn:E; [|reflexivity].
  apply find_remove in E. congruence.
Qed.

(* removing k leaves a different key k' alone (k' tested against k) *)
Lemma find_remove_other : forall l k k', token_eqb k' k = false -> find (remove l k) k' = find l k'.
Proof.
  induction l as [|[k0 v] l IH]; cbn; intros k k' H; [reflexivity|].
  destruct (token_eqb k k0) eqn:E.
  - apply token_eqb_eq in E. subst k0. rewrite H. apply IH. exact H.
  - cbn. destruct (token_eqb k' k0); [reflexivity|]. apply IH. exact H.
Qed.

Lemma find_remove_opt : forall l o k' r, find (remove_opt l o) k' = Some r -> find l k' = Some r.
Proof. intros l [k|] k' r H; cbn in H; [eapply find_remove; exact H|exact H]. Qed.

Lemma unix_mono : forall a b, a <= b -> unix a <= unix b.
Proof. intros a b H. unfold unix, nanos. apply N.div_le_mono; lia. Qed.

Section Proofs.
  Variable mac : bytes -> bytes -> bytes.
  Variable b64 : bytes -> bytes.
  Variable b64d : bytes -> option bytes.
  Variable cenc : claims -> bytes.
  Variable cdec : bytes -> option claims.
  Variable header : bytes.
  Variable nonce : N -> bytes.
  Hypothesis b64_rt : forall x, b64d (b64 x) = Some x.
  Hypothesis c_rt : forall c, cdec (cenc c) = Some c.

  Notation parse' := (parse mac b64 b64d cdec).
  Notation sign' := (sign mac b64 cenc header).
  Notation sig_of' := (sig_of mac b64).
  Notation validate' := (validate mac b64 b64d cdec).
  Notation refresh' := (refresh mac b64 cenc header nonce).
  Notation create_session' := (create_session mac b64 cenc header nonce).
  Notation create_token' := (create_token mac b64 cenc header nonce).
  Notation apply' := (apply mac b64 b64d cenc cdec header nonce).
  Notation run' := (run mac b64 b64d cenc cdec header nonce).
  Notation not_forged' := (not_forged mac b64).
  Notation mk_access' := (mk_access mac b64 cenc header nonce).

  Definition rec_of_issue (k : token) (r : srec) (i : issue) : Prop :=
    (k = i_access i \/ i_refresh i = Some k) /\ r_user r = i_user i /\ r_role r = i_role i /\ r_exp r = i_exp i.

  Definition issue_wf (i : issue) : Prop :=
    exists c, i_access i = sign' (i_secret i) c /\ i_msg i = (header, b64 (cenc c)) /\
              c_sub c = i_user i /\ c_role c = i_role i /\ c_exp c = unix (i_exp i).

  Definition Inv (s : sstate) : Prop :=
    (forall k r, find (store s) k = Some r -> exists i, In i (log s) /\ rec_of_issue k r i) /\
    (forall i, In i (log s) -> issue_wf i) /\
    (forall k r, find (store s) k = Some r -> k = r_tok r \/ r_ref r = Some k).

  Lemma Inv_init : forall sec, Inv (init sec).
  Proof. intros sec. repeat split; cbn; intros; try discriminate; contradiction. Qed.

  (* a successfully parsed token carries the claims the signer put in *)
  Lemma parse_sign : forall sec c t now c',
    t = sign' sec c -> parse' sec t now = ROk c' -> c' = c.
  Proof.
    intros sec c t now c' -> H. unfold parse, sign in H.
    destruct (negb _); [discriminate|]. rewrite b64_rt, c_rt in H.
    destruct (negb _); [discriminate|]. destruct (_ <=? _); [discriminate|]. congruence.
  Qed.

  (* removal never invents entries *)
  Lemma Inv_shrink : forall s st', Inv s ->
    (forall k r, find st' k = Some r -> find (store s) k = Some r) ->
    Inv (mkS (secret s) st' (ctr s) (log s)).
  Proof.
    intros s st' (HA & HB & HC) Hsub. repeat split; cbn.
    - intros k r H. apply HA. apply Hsub. exact H.
    - exact HB.
    - intros k r H. apply HC. apply Hsub. exact H.
  Qed.

  Lemma Inv_add : forall s a rt_opt r i c2,
    Inv s ->
    r_tok r = a -> r_ref r = rt_opt ->
    i_access i = a -> i_refresh i = rt_opt -> r_user r = i_user i -> r_role r = i_role i -> r_exp r = i_exp i ->
    issue_wf i ->
    forall st', (forall k r', find st' k = Some r' ->
                  (r' = r /\ (k = a \/ rt_opt = Some k)) \/ find (store s) k = Some r') ->
    Inv (mkS (secret s) st' c2 (log s ++ [i])).
  Proof.
    intros s a rt_opt r i c2 (HA & HB & HC) Ht Hr Hia Hir Hu Hro He Hwf st' Hst. repeat split; cbn.
    - intros k r' H. destruct (Hst k r' H) as [[-> Hk]|Hold].
      + exists i. split; [apply in_or_app; right; left; reflexivity|].
        unfold rec_of_issue. rewrite Hia, Hir. auto.
      + destruct (HA k r' Hold) as (i0 & Hin & Hrec). exists i0. split; [apply in_or_app; left; exact Hin|exact Hrec].
    - intros i0 Hin. apply in_app_or in Hin. destruct Hin as [Hin|[<-|[]]]; [apply HB; exact Hin|exact Hwf].
    - intros k r' H. destruct (Hst k r' H) as [[-> Hk]|Hold]; [rewrite Ht, Hr; exact Hk|apply HC; exact Hold].
  Qed.

  Lemma mk_access_wf : forall sec user role now exp k a m rt_opt,
    mk_access' sec user role now exp k = (a, m) ->
    issue_wf (mkIssue a rt_opt user role exp sec m).
  Proof.
    intros sec user role now exp k a m rt_opt H. unfold mk_access in H. inversion H; subst. clear H.
    exists (mkClaims user role (unix now) (unix exp) (nonce k)). cbn. auto.
  Qed.

  Lemma Inv_apply : forall s o, Inv s -> Inv (apply' s o).
  Proof.
    intros s o HI. destruct o as [u r ttl rttl now|u r ttl now|t ttl n1 n2|t n1 n2|t|sec]; cbn [apply].
    - (* create_session *)
      unfold create_session. destruct (mk_access' (secret s) u r now (now + ttl) (ctr s)) as [a m] eqn:E.
      set (rt := TOpaque (nonce (ctr s + 1))). set (rc := mkRec a (Some rt) u r (now + ttl) (now + rttl)).
      destruct (find (store s) a) eqn:Fa; [cbn; apply Inv_shrink; auto|].
      destruct (find ((a, rc) :: store s) rt) eqn:Fr; [cbn; apply Inv_shrink; auto|].
      cbn [fst]. eapply (Inv_add s a (Some rt) rc); try reflexivity; [exact HI|eapply mk_access_wf; exact E|].
      intros k r' H. cbn in H.
      destruct (token_eqb k rt) eqn:E1; [apply token_eqb_eq in E1; inversion H; subst; left; auto|].
      destruct (token_eqb k a) eqn:E2; [apply token_eqb_eq in E2; inversion H; subst; left; auto|].
      right. exact H.
    - (* create_token *)
      unfold create_token. destruct (mk_access' (secret s) u r now (now + ttl) (ctr s)) as [a m] eqn:E.
      destruct (find (store s) a) eqn:Fa; [cbn; apply Inv_shrink; auto|].
      cbn [fst]. eapply (Inv_add s a None (mkRec a None u r (now + ttl) 0)); try reflexivity; [exact HI|eapply mk_access_wf; exact E|].
      intros k r' H. cbn in H.
      destruct (token_eqb k a) eqn:E2; [apply token_eqb_eq in E2; inversion H; subst; left; auto|].
      right. exact H.
    - (* refresh *)
      unfold refresh. destruct (find (store s) t) as [r|] eqn:Ft; [|exact HI].
      destruct (r_rexp r <? n1).
      + cbn. apply Inv_shrink; [exact HI|]. intros k r' H. apply find_remove_opt in H. apply find_remove in H. exact H.
      + destruct (mk_access' (secret s) (r_user r) (r_role r) n2 (n2 + ttl) (ctr s)) as [a m] eqn:E.
        set (rt := TOpaque (nonce (ctr s + 1))). set (nr := mkRec a (Some rt) (r_user r) (r_role r) (n2 + ttl) (r_rexp r)).
        destruct (find (store s) a) eqn:Fa; [cbn; apply Inv_shrink; auto|].
        destruct (find ((a, nr) :: store s) rt) eqn:Fr; [cbn; apply Inv_shrink; auto|].
        cbn [fst]. eapply (Inv_add s a (Some rt) nr); try reflexivity; [exact HI|eapply mk_access_wf; exact E|].
        intros k r' H. apply find_remove_opt in H. apply find_remove in H. cbn in H.
        destruct (token_eqb k rt) eqn:E1; [apply token_eqb_eq in E1; inversion H; subst; left; auto|].
        destruct (token_eqb k a) eqn:E2; [apply token_eqb_eq in E2; inversion H; subst; left; auto|].
        right. exact H.
    - (* validate *)
      unfold validate. destruct (parse' (secret s) t n1); [exact HI|].
      destruct (find (store s) t) as [r|] eqn:Ft; [|exact HI].
      destruct (r_exp r <? n2); [|exact HI].
      cbn. apply Inv_shrink; [exact HI|]. intros k r' H. apply find_remove_opt in H. apply find_remove in H. exact H.
    - (* revoke *)
      unfold revoke. destruct (find (store s) t) as [r|] eqn:Ft; [|exact HI].
      apply Inv_shrink; [exact HI|]. intros k r' H. apply find_remove_opt in H. apply find_remove in H. exact H.
    - (* secret change *)
      destruct HI as (HA & HB & HC). repeat split; cbn; auto.
  Qed.

  Lemma Inv_run : forall l s, Inv s -> Inv (run' s l).
  Proof. induction l as [|o l IH]; intros s H; cbn; [exact H|]. apply IH. apply Inv_apply. exact H. Qed.

  (* ---- acceptance is sound ---- *)
  Lemma accept_sound : forall s t n1 n2 s' u ro,
    Inv s -> not_forged' s t -> n1 <= n2 ->
    validate' s t n1 n2 = (s', ROk (u, ro)) ->
    exists i, In i (log s) /\ (t = i_access i \/ i_refresh i = Some t) /\
              u = i_user i /\ ro = i_role i /\ n1 <= i_exp i /\
              ((t = i_access i /\ i_secret i = secret s /\ unix n1 < unix (i_exp i)) \/
               (exists r, find (store s) t = Some r /\ n2 <= r_exp r)).
  Proof.
    intros s t n1 n2 s' u ro (HA & HB & HC) Hnf Hle Hv. unfold validate in Hv.
    destruct (parse' (secret s) t n1) as [c|e] eqn:P.
    - injection Hv as Hs' Hu' Hr'. subst s' u ro.
      destruct t as [h p sg|b]; [|cbn in P; discriminate].
      assert (Hsig : sg = sig_of' (secret s) h p).
      { unfold parse in P. destruct (bytes_eqb sg (sig_of' (secret s) h p)) eqn:E; [apply bytes_eqb_eq; exact E|cbn in P; discriminate]. }
      destruct (Hnf Hsig) as (i & Hin & Hsec & Hmsg).
      destruct (HB i Hin) as (c0 & Hacc & Hm0 & Hsub & Hrole & Hexp).
      rewrite Hm0 in Hmsg. inversion Hmsg; subst h p. subst sg.
      assert (Ht : TSigned header (b64 (cenc c0)) (sig_of' (secret s) header (b64 (cenc c0))) = sign' (i_secret i) c0).
      { unfold sign. rewrite Hsec. reflexivity. }
      pose proof (parse_sign (i_secret i) c0 _ n1 c Ht) as Hc. rewrite Hsec in Hc. specialize (Hc P). subst c.
      assert (Hlt : unix n1 < unix (i_exp i)).
      { unfold parse in P. rewrite bytes_eqb_refl in P. cbn [negb] in P.
        rewrite b64_rt, c_rt in P. destruct (negb _); [discriminate|].
        destruct (c_exp c0 <=? unix n1) eqn:El; [discriminate|]. rewrite Hexp in El. lia. }
      exists i. split; [exact Hin|]. split; [left; rewrite Hacc; exact Ht|].
      split; [auto|]. split; [auto|]. split.
      + destruct (N.le_gt_cases n1 (i_exp i)) as [Hok|Hgt]; [exact Hok|].
        pose proof (unix_mono (i_exp i) n1 ltac:(lia)). lia.
      + left. split; [rewrite Hacc; exact Ht|]. split; [exact Hsec|exact Hlt].
    - destruct (find (store s) t) as [r|] eqn:Ft; [|inversion Hv].
      destruct (r_exp r <? n2) eqn:El; [inversion Hv|]. injection Hv as Hs' Hu' Hr'. subst s' u ro.
      destruct (HA t r Ft) as (i & Hin & Hk & Hu & Hr & He).
      exists i. split; [exact Hin|]. split; [exact Hk|]. split; [exact Hu|]. split; [exact Hr|].
      split; [lia|]. right. exists r. split; [first [exact Ft|reflexivity]|lia].
  Qed.

  (* ---- revocation / rotation remove the session from the table ---- *)
  Lemma revoke_removes : forall s t r, Inv s -> find (store s) t = Some r ->
    find (store (revoke s t)) t = None /\ find (store (revoke s t)) (r_tok r) = None /\
    (forall rt, r_ref r = Some rt -> find (store (revoke s t)) rt = None).
  Proof.
    intros s t r (HA & HB & HC) Ft. unfold revoke. rewrite Ft. cbn [store].
    assert (H1 : find (remove_opt (remove (store s) (r_tok r)) (r_ref r)) (r_tok r) = None).
    { destruct (r_ref r); cbn; [apply find_remove_none|]; apply find_remove_same. }
    assert (H2 : forall rt, r_ref r = Some rt -> find (remove_opt (remove (store s) (r_tok r)) (r_ref r)) rt = None).
    { intros rt ->. cbn. apply find_remove_same. }
    split; [|split; [exact H1|exact H2]].
    destruct (HC t r Ft) as [->|Hr]; [exact H1|apply H2; exact Hr].
  Qed.

  (* after revocation only the signature fast path can still accept the token *)
  Lemma revoked_only_fast_path : forall s t r n1 n2 s' x,
    Inv s -> find (store s) t = Some r ->
    validate' (revoke s t) t n1 n2 = (s', ROk x) -> sig_valid mac b64 (secret s) t = true.
  Proof.
    intros s t r n1 n2 s' x HI Ft Hv. destruct (revoke_removes s t r HI Ft) as (Hn & _ & _).
    unfold validate in Hv. replace (secret (revoke s t)) with (secret s) in Hv by (unfold revoke; rewrite Ft; reflexivity).
    destruct (parse' (secret s) t n1) eqn:P.
    - destruct t as [h p sg|b]; [|cbn in P; discriminate]. cbn. unfold parse in P.
      destruct (bytes_eqb sg (sig_of' (secret s) h p)); [reflexivity|cbn in P; discriminate].
    - rewrite Hn in Hv. inversion Hv.
  Qed.

  (* ---- refresh ---- *)
  Lemma refresh_ok_shape : forall s t ttl n1 n2 s' a rt,
    refresh' s t ttl n1 n2 = (s', ROk (a, rt)) ->
    exists r m, find (store s) t = Some r /\ n1 <= r_rexp r /\
      mk_access' (secret s) (r_user r) (r_role r) n2 (n2 + ttl) (ctr s) = (a, m) /\
      rt = TOpaque (nonce (ctr s + 1)) /\
      secret s' = secret s /\
      log s' = log s ++ [mkIssue a (Some rt) (r_user r) (r_role r) (n2 + ttl) (secret s) m] /\
      store s' = remove_opt (remove ((rt, mkRec a (Some rt) (r_user r) (r_role r) (n2 + ttl) (r_rexp r)) ::
                                      (a, mkRec a (Some rt) (r_user r) (r_role r) (n2 + ttl) (r_rexp r)) :: store s) (r_tok r)) (r_ref r).
  Proof.
    intros s t ttl n1 n2 s' a rt H. unfold refresh in H.
    destruct (find (store s) t) as [r|] eqn:Ft; [|inversion H].
    destruct (r_rexp r <? n1) eqn:El; [inversion H|].
    destruct (mk_access' (secret s) (r_user r) (r_role r) n2 (n2 + ttl) (ctr s)) as [a0 m] eqn:E.
    destruct (find (store s) a0); [inversion H|].
    destruct (find _ (TOpaque (nonce (ctr s + 1)))); [inversion H|].
    inversion H; subst. exists r, m. apply N.ltb_ge in El.
    split; [reflexivity|]. split; [exact El|]. split; [first [exact E|reflexivity]|]. repeat split; reflexivity.
  Qed.

  (* the old refresh token (more precisely: the presented token, and both keys of its session) is gone *)
  Lemma refresh_rotates : forall s t ttl n1 n2 s' a rt,
    Inv s -> refresh' s t ttl n1 n2 = (s', ROk (a, rt)) ->
    token_eqb t a = false -> token_eqb t rt = false ->
    find (store s') t = None /\
    (forall ttl' m1 m2, fst (refresh' s' t ttl' m1 m2) = s' /\ snd (refresh' s' t ttl' m1 m2) = RErr EInvalid).
  Proof.
    intros s t ttl n1 n2 s' a rt (HA & HB & HC) H Ha Hrt.
    destruct (refresh_ok_shape _ _ _ _ _ _ _ _ H) as (r & m & Ft & _ & _ & Hrt' & _ & _ & Hst).
    assert (Hn : find (store s') t = None).
    { rewrite Hst. destruct (HC t r Ft) as [Hk|Hk].
      - rewrite <- Hk. destruct (r_ref r); cbn [remove_opt]; [apply find_remove_none|]; apply find_remove_same.
      - rewrite Hk. cbn [remove_opt]. apply find_remove_same. }
    split; [exact Hn|]. intros ttl' m1 m2. unfold refresh. rewrite Hn. split; reflexivity.
  Qed.

  (* a successful refresh opens a new access window: the returned access token expires at
     now2 + ttl and is valid (for the session's user and role) at every instant up to then,
     in particular at the instant it is issued — whatever the old ExpiresAt was *)
  Lemma refresh_fresh : forall s t ttl n1 n2 s' a rt,
    refresh' s t ttl n1 n2 = (s', ROk (a, rt)) ->
    exists r, find (store s) t = Some r /\
      (exists i, log s' = log s ++ [i] /\ i_access i = a /\ i_exp i = n2 + ttl) /\
      (token_eqb a (r_tok r) = false ->
       match r_ref r with Some x => token_eqb a x = false | None => True end ->
       forall m1 m2, m2 <= n2 + ttl -> validate' s' a m1 m2 = (s', ROk (r_user r, r_role r))).
  Proof.
    intros s t ttl n1 n2 s' a rt H.
    destruct (refresh_ok_shape _ _ _ _ _ _ _ _ H) as (r & m & Ft & _ & Hmk & Hrt & Hsec & Hlog & Hst).
    exists r. split; [exact Ft|]. split; [eexists; split; [exact Hlog|split; reflexivity]|].
    intros Hf1 Hf2 m1 m2 Hm.
    set (nr := mkRec a (Some rt) (r_user r) (r_role r) (n2 + ttl) (r_rexp r)) in *.
    assert (Hfind : find (store s') a = Some nr).
    { rewrite Hst. assert (Hx : find (remove ((rt, nr) :: (a, nr) :: store s) (r_tok r)) a = Some nr).
      { rewrite find_remove_other by exact Hf1. cbn. subst rt. destruct a as [h p sg|b].
        - cbn. rewrite !bytes_eqb_refl. reflexivity.
        - unfold mk_access, sign in Hmk. inversion Hmk. }
      destruct (r_ref r) as [x|]; cbn [remove_opt]; [rewrite find_remove_other by exact Hf2|]; exact Hx. }
    unfold validate. rewrite Hsec.
    destruct (parse' (secret s) a m1) as [c|e] eqn:P.
    - unfold mk_access in Hmk. inversion Hmk as [[Ha Hm']]. clear Hmk.
      pose proof (parse_sign (secret s) _ a m1 c (eq_sym Ha) P) as Hc. subst c. reflexivity.
    - rewrite Hfind. cbn [r_exp nr]. replace (n2 + ttl <? m2) with false by (symmetry; apply N.ltb_ge; exact Hm). reflexivity.
  Qed.

  (* "valid when issued": at the instant of the refresh itself *)
  Lemma refresh_valid_when_issued : forall s t ttl n1 n2 s' a rt,
    refresh' s t ttl n1 n2 = (s', ROk (a, rt)) ->
    exists r, find (store s) t = Some r /\
      (token_eqb a (r_tok r) = false ->
       match r_ref r with Some x => token_eqb a x = false | None => True end ->
       validate' s' a n2 n2 = (s', ROk (r_user r, r_role r))).
  Proof.
    intros s t ttl n1 n2 s' a rt H. destruct (refresh_fresh _ _ _ _ _ _ _ _ H) as (r & Ft & _ & Hv).
    exists r. split; [exact Ft|]. intros H1 H2. apply Hv; [exact H1|exact H2|]. apply N.le_add_r.
  Qed.
End Proofs.

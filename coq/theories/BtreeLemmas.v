(* Lemmas about the node-level model that hold for every input: the transcribed binary
   search (sort.Search) returns the first index satisfying a monotone predicate, hence the
   lower / upper bound of a key among the sorted occupied slots of a node. *)
From Coq Require Import List ZArith NArith Bool Lia.
From Coq Require Import ZifyBool ZifyNat ZifyN.
From SopVerif Require Import OMap OMapProofs OMapProofs2 Btree.
Import ListNotations.
Local Open Scope Z_scope.
Ltac Zify.zify_post_hook ::= Z.div_mod_to_equations.

Definition monotone (f : Z -> bool) (i j : Z) : Prop :=
  forall a b, i <= a -> a <= b -> b < j -> f a = true -> f b = true.

Lemma bsearch_spec : forall fuel f i j, 0 <= i -> i <= j -> j - i < Z.of_nat fuel -> monotone f i j ->
  let r := bsearch f i j fuel in
  i <= r <= j /\ (forall a, i <= a < r -> f a = false) /\ (forall a, r <= a < j -> f a = true).
Proof.
  induction fuel as [|fu IH]; intros f i j Hi Hij Hf Hm; [lia|].
  cbn [bsearch]. destruct (i <? j) eqn:E.
  - set (h := (i + j) / 2). assert (Hh : i <= h < j) by (unfold h; lia).
    destruct (f h) eqn:Efh.
    + assert (Hm' : monotone f i h) by (intros a b Ha Hab Hb; apply Hm; lia).
      destruct (IH f i h Hi ltac:(lia) ltac:(lia) Hm') as [Hr [Hlo Hhi]].
      cbv zeta. split; [lia|]. split; [exact Hlo|].
      intros a Ha. destruct (Z.lt_ge_cases a h) as [Hah|Hah]; [apply Hhi; lia|].
      apply (Hm h a); lia || auto.
    + assert (Hm' : monotone f (h + 1) j) by (intros a b Ha Hab Hb; apply Hm; lia).
      destruct (IH f (h + 1) j ltac:(lia) ltac:(lia) ltac:(lia) Hm') as [Hr [Hlo Hhi]].
      cbv zeta. split; [lia|]. split; [|exact Hhi].
      intros a Ha. destruct (Z.lt_ge_cases h a) as [Hah|Hah]; [apply Hlo; lia|].
      destruct (f a) eqn:Efa; [|reflexivity].
      assert (f h = true) by (apply (Hm a h); lia || auto). congruence.
  - cbv zeta. split; [lia|]. split; intros a Ha; lia.
Qed.

Lemma sort_search_spec : forall n f, 0 <= n -> monotone f 0 n ->
  let r := sort_search n f in
  0 <= r <= n /\ (forall a, 0 <= a < r -> f a = false) /\ (forall a, r <= a < n -> f a = true).
Proof.
  intros n f Hn Hm. unfold sort_search. apply bsearch_spec; auto; lia.
Qed.

(* the occupied slots of a node as a list *)
Definition occupied (n : node) : list item := firstn (Z.to_nat (ncount n)) (nslots n).

Lemma nth_error_firstn_lt : forall {A} (l : list A) c i, (i < c)%nat -> nth_error (firstn c l) i = nth_error l i.
Proof.
  intros A. induction l as [|x r IH]; intros c i H; [rewrite firstn_nil; reflexivity|].
  destruct c as [|c]; [lia|]. destruct i as [|i]; cbn; [reflexivity|]. apply IH. lia.
Qed.

Lemma slot_occupied : forall n i, 0 <= i < ncount n -> ncount n <= Z.of_nat (length (nslots n)) ->
  nth_error (occupied n) (Z.to_nat i) = Some (slot n i).
Proof.
  intros n i Hi Hc. unfold occupied, slot, zget. destruct (i <? 0) eqn:E; [lia|].
  rewrite nth_error_firstn_lt by lia.
  apply nth_error_nth'. lia.
Qed.

(* uniqueness of the lower bound position *)
Lemma lb_unique : forall l k r, sorted l -> (r <= length l)%nat ->
  (forall a, (a < r)%nat -> key_at l a < k) -> (forall a, (r <= a < length l)%nat -> k <= key_at l a) ->
  r = lb l k.
Proof.
  intros l k r Hs Hr Hlo Hhi. pose proof (lb_le l k) as Hle.
  destruct (Nat.lt_trichotomy r (lb l k)) as [H|[H|H]]; auto.
  - pose proof (lb_before_idx l k r H). specialize (Hhi r ltac:(lia)). lia.
  - pose proof (lb_after_idx l k (lb l k) Hs ltac:(lia)). specialize (Hlo (lb l k) H). lia.
Qed.

Lemma ub_unique : forall l k r, sorted l -> (r <= length l)%nat ->
  (forall a, (a < r)%nat -> key_at l a <= k) -> (forall a, (r <= a < length l)%nat -> k < key_at l a) ->
  r = ub l k.
Proof.
  intros l k r Hs Hr Hlo Hhi. pose proof (ub_le l k) as Hle.
  destruct (Nat.lt_trichotomy r (ub l k)) as [H|[H|H]]; auto.
  - pose proof (ub_before_idx l k r H). specialize (Hhi r ltac:(lia)). lia.
  - pose proof (ub_after_idx l k (ub l k) Hs ltac:(lia)). specialize (Hlo (ub l k) H). lia.
Qed.

Lemma key_at_occupied : forall n i, 0 <= i < ncount n -> ncount n <= Z.of_nat (length (nslots n)) ->
  key_at (occupied n) (Z.to_nat i) = ikey (slot n i).
Proof. intros n i Hi Hc. apply key_at_nth. apply slot_occupied; auto. Qed.

Lemma occupied_length : forall n, 0 <= ncount n <= Z.of_nat (length (nslots n)) ->
  length (occupied n) = Z.to_nat (ncount n).
Proof. intros n H. unfold occupied. rewrite firstn_length. lia. Qed.

(* node.find / getIndexToInsertTo: sort.Search(Count, key <= Slots[i].Key) is the lower bound
   of the key among the occupied slots, for every node whose occupied slots are sorted *)
Theorem node_search_is_lb : forall n key, 0 <= ncount n <= Z.of_nat (length (nslots n)) ->
  sorted (occupied n) ->
  sort_search (ncount n) (fun i => key <=? ikey (slot n i)) = Z.of_nat (lb (occupied n) key).
Proof.
  intros n key Hc Hs.
  assert (Hm : monotone (fun i => key <=? ikey (slot n i)) 0 (ncount n)).
  { intros a b Ha Hab Hb Hfa.
    pose proof (sorted_nth (occupied n) (Z.to_nat a) (Z.to_nat b) (slot n a) (slot n b) Hs ltac:(lia)
                  (slot_occupied n a ltac:(lia) ltac:(lia)) (slot_occupied n b ltac:(lia) ltac:(lia))). lia. }
  destruct (sort_search_spec (ncount n) _ ltac:(lia) Hm) as [Hr [Hlo Hhi]].
  set (r := sort_search (ncount n) (fun i => key <=? ikey (slot n i))) in *.
  pose proof (occupied_length n Hc) as Hlen.
  rewrite <- (lb_unique (occupied n) key (Z.to_nat r) Hs); [lia|lia| |].
  - intros a Ha. specialize (Hlo (Z.of_nat a) ltac:(lia)).
    pose proof (key_at_occupied n (Z.of_nat a) ltac:(lia) ltac:(lia)) as Hk.
    rewrite Nat2Z.id in Hk. rewrite Hk. lia.
  - intros a Ha. specialize (Hhi (Z.of_nat a) ltac:(lia)).
    pose proof (key_at_occupied n (Z.of_nat a) ltac:(lia) ltac:(lia)) as Hk.
    rewrite Nat2Z.id in Hk. rewrite Hk. lia.
Qed.

(* findInDescendingOrder: sort.Search(Count, key < Slots[i].Key) is the upper bound *)
Theorem node_search_is_ub : forall n key, 0 <= ncount n <= Z.of_nat (length (nslots n)) ->
  sorted (occupied n) ->
  sort_search (ncount n) (fun i => key <? ikey (slot n i)) = Z.of_nat (ub (occupied n) key).
Proof.
  intros n key Hc Hs.
  assert (Hm : monotone (fun i => key <? ikey (slot n i)) 0 (ncount n)).
  { intros a b Ha Hab Hb Hfa.
    pose proof (sorted_nth (occupied n) (Z.to_nat a) (Z.to_nat b) (slot n a) (slot n b) Hs ltac:(lia)
                  (slot_occupied n a ltac:(lia) ltac:(lia)) (slot_occupied n b ltac:(lia) ltac:(lia))). lia. }
  destruct (sort_search_spec (ncount n) _ ltac:(lia) Hm) as [Hr [Hlo Hhi]].
  set (r := sort_search (ncount n) (fun i => key <? ikey (slot n i))) in *.
  pose proof (occupied_length n Hc) as Hlen.
  rewrite <- (ub_unique (occupied n) key (Z.to_nat r) Hs); [lia|lia| |].
  - intros a Ha. specialize (Hlo (Z.of_nat a) ltac:(lia)).
    pose proof (key_at_occupied n (Z.of_nat a) ltac:(lia) ltac:(lia)) as Hk.
    rewrite Nat2Z.id in Hk. rewrite Hk. lia.
  - intros a Ha. specialize (Hhi (Z.of_nat a) ltac:(lia)).
    pose proof (key_at_occupied n (Z.of_nat a) ltac:(lia) ltac:(lia)) as Hk.
    rewrite Nat2Z.id in Hk. rewrite Hk. lia.
Qed.

(* C32: concrete executable model of search.SimpleTokenizer.Tokenize
   (strings.FieldsFunc on !IsLetter && !IsNumber, strings.ToLower, stop words), on UTF-8 byte
   strings, over the Unicode tables of the Go standard library (Gen/SearchTables.v).
   Definitions only. *)
From Coq Require Import List ZArith NArith Bool.
From SopVerif Require Import Gen.SearchTables Search.
Import ListNotations.
Local Open Scope N_scope.

Definition rune_error : N := 65533.   (* U+FFFD *)
Definition in_rng (lo hi x : N) : bool := N.leb lo x && N.leb x hi.
Definition cont (b : N) : bool := in_rng 128 191 b.

(* utf8.DecodeRuneInString: (rune, width); an invalid or short encoding is (RuneError, 1) *)
Definition decode_rune (s : bytes) : N * nat :=
  match s with
  | [] => (rune_error, 1%nat)
  | b0 :: r =>
      if N.ltb b0 128 then (b0, 1%nat)
      else if in_rng 194 223 b0 then
        match r with
        | b1 :: _ => if cont b1 then ((b0 - 192) * 64 + (b1 - 128), 2%nat) else (rune_error, 1%nat)
        | _ => (rune_error, 1%nat)
        end
      else if in_rng 224 239 b0 then
        match r with
        | b1 :: b2 :: _ =>
            let lo := if N.eqb b0 224 then 160 else 128 in
            let hi := if N.eqb b0 237 then 159 else 191 in
            if in_rng lo hi b1 && cont b2 then ((b0 - 224) * 4096 + (b1 - 128) * 64 + (b2 - 128), 3%nat)
            else (rune_error, 1%nat)
        | _ => (rune_error, 1%nat)
        end
      else if in_rng 240 244 b0 then
        match r with
        | b1 :: b2 :: b3 :: _ =>
            let lo := if N.eqb b0 240 then 144 else 128 in
            let hi := if N.eqb b0 244 then 143 else 191 in
            if in_rng lo hi b1 && cont b2 && cont b3
            then ((b0 - 240) * 262144 + (b1 - 128) * 4096 + (b2 - 128) * 64 + (b3 - 128), 4%nat)
            else (rune_error, 1%nat)
        | _ => (rune_error, 1%nat)
        end
      else (rune_error, 1%nat)
  end.

Fixpoint decode_all (fuel : nat) (s : bytes) : list N :=
  match fuel with
  | O => []
  | S f =>
      match s with
      | [] => []
      | _ => let '(c, w) := decode_rune s in c :: decode_all f (skipn w s)
      end
  end.

Definition encode_rune (c : N) : bytes :=
  if N.ltb c 128 then [c]
  else if N.ltb c 2048 then [192 + c / 64; 128 + c mod 64]
  else if N.ltb c 65536 then [224 + c / 4096; 128 + (c / 64) mod 64; 128 + c mod 64]
  else [240 + c / 262144; 128 + (c / 4096) mod 64; 128 + (c / 64) mod 64; 128 + c mod 64].

Definition in_table (c : N) (t : list (N * N * N)) : bool :=
  existsb (fun r => let '(lo, hi, st) := r in in_rng lo hi c && N.eqb ((c - lo) mod st) 0) t.

(* unicode.IsLetter || unicode.IsNumber *)
Definition is_alnum (c : N) : bool :=
  if N.ltb c 128 then in_rng 48 57 c || in_rng 65 90 c || in_rng 97 122 c
  else in_table c letter_ranges || in_table c number_ranges.

(* unicode.ToLower *)
Fixpoint lower_in (c : N) (t : list (N * N * bool * Z)) : N :=
  match t with
  | [] => c
  | (lo, hi, alt, d) :: r =>
      if in_rng lo hi c then
        (if alt then lo + (2 * ((c - lo) / 2) + 1)        (* Lo + ((r-Lo)&^1 | 1) *)
         else Z.to_N (Z.of_N c + d))
      else lower_in c r
  end.
Definition to_lower (c : N) : N :=
  if N.ltb c 128 then (if in_rng 65 90 c then c + 32 else c) else lower_in c lower_case_ranges.

(* strings.FieldsFunc(text, !alnum) on code points *)
Fixpoint fields (cs : list N) (cur : list N) : list (list N) :=
  match cs with
  | [] => match cur with [] => [] | _ => [rev cur] end
  | c :: r =>
      if is_alnum c then fields r (c :: cur)
      else match cur with [] => fields r [] | _ => rev cur :: fields r [] end
  end.

Definition lower_token (f : list N) : bytes := flat_map (fun c => encode_rune (to_lower c)) f.
Definition is_stop (t : bytes) : bool := existsb (beqb t) stop_words.

Definition tokenize (text : bytes) : list bytes :=
  filter (fun t => negb (is_stop t) && negb (match t with [] => true | _ => false end))
         (map lower_token (fields (decode_all (length text) text) [])).

(* Proofs about the retry-loop model Timeout.v *)
From Coq Require Import ZArith Bool List Lia.
From Coq Require Import ZifyBool ZifyNat.
From SopVerif Require Import Gen.Consts Gen.TimeoutConsts Timeout.
Local Open Scope Z_scope.

Lemma cut_range p t s : 0 <= s -> 0 <= cut p t s <= s.
Proof. intros H. unfold cut. destruct (lD p); lia. Qed.

Lemma not_expired p start now : expired p start now = false -> now <= limit p start /\ now - start <= lT p.
Proof.
  unfold expired, limit. intros H. apply orb_false_elim in H as [H1 H2].
  destruct (lD p) as [d|]; lia.
Qed.

(* end-time bound: invariant now <= limit + A + M at every time check *)
Lemma loop_end p start adv : wf_lp p -> (forall k, wf_round p (adv k)) ->
  forall fuel now k held, now <= limit p start + lA p + lM p ->
  let '(e, o, _, _) := loop p start now fuel k held adv in
  e <= limit p start + lA p + lM p /\ (forall ok, o = Done ok -> e <= limit p start + lA p).
Proof.
  intros (Hm & HA & HT) W. induction fuel as [|f IH]; intros now k held Hn; cbn [loop].
  - split; [exact Hn|intros ok H; discriminate].
  - destruct (expired p start now) eqn:E.
    + split; [exact Hn|intros ok H; discriminate].
    + apply not_expired in E as [E1 E2]. specialize (W k). destruct (adv k) as [d s h|d ok]; cbn in W.
      * apply IH. pose proof (cut_range p (now + d) s ltac:(lia)). lia.
      * split; [lia|intros ok' _; lia].
Qed.

(* iteration bound: the k-th passed check happens at or after start + k*m, unless the deadline cut a sleep *)
Definition progressed (p : lp) (start now : Z) (k : nat) : Prop :=
  start + Z.of_nat k * lm p <= now \/ (exists d, lD p = Some d /\ d <= now).

Lemma loop_iters p start adv : wf_lp p -> (forall k, wf_round p (adv k)) ->
  forall fuel now k held, progressed p start now k -> Z.of_nat k <= lT p / lm p + 1 ->
  let '(_, o, kf, _) := loop p start now fuel k held adv in
  Z.of_nat kf <= lT p / lm p + 1 /\ (o = Running -> kf = (k + fuel)%nat).
Proof.
  intros (Hm & HA & HT) W. induction fuel as [|f IH]; intros now k held P K; cbn [loop].
  - split; [exact K|intros _; lia].
  - destruct (expired p start now) eqn:E.
    + split; [exact K|intros H; discriminate].
    + assert (KM : Z.of_nat k * lm p <= lT p).
      { unfold expired in E. apply orb_false_elim in E as [E1 E2]. destruct P as [P|(d & Pd & P)].
        - lia.
        - rewrite Pd in E1. lia. }
      assert (K1 : Z.of_nat (S k) <= lT p / lm p + 1).
      { assert (Z.of_nat k <= lT p / lm p) by (apply Z.div_le_lower_bound; lia). lia. }
      specialize (W k). destruct (adv k) as [d s h|d ok]; cbn in W.
      * specialize (IH (now + d + cut p (now + d) s) (S k) h).
        assert (P' : progressed p start (now + d + cut p (now + d) s) (S k)).
        { unfold progressed, cut. destruct (lD p) as [dd|] eqn:ED.
          - destruct (Z_le_gt_dec s (Z.max 0 (dd - (now + d)))).
            + left. destruct P as [P|(d0 & Pd & P)]; [|exfalso; unfold expired in E; rewrite ED in E, Pd; injection Pd as <-; apply orb_false_elim in E as [E1 E2]; lia]. nia.
            + right. exists dd. split; [reflexivity|lia].
          - left. destruct P as [P|(d0 & Pd & _)]; [nia|rewrite ED in Pd; discriminate]. }
        specialize (IH P' K1). destruct (loop p start (now + d + cut p (now + d) s) f (S k) h adv) as [[[e o] kf] hh].
        destruct IH as [I1 I2]. split; [exact I1|intros R; rewrite (I2 R); lia].
      * split; [exact K1|intros H; discriminate].
Qed.

Lemma progressed_start p start : progressed p start start 0.
Proof. left. cbn. lia. Qed.

(* with enough fuel the loop never ends "still running" *)
Lemma loop_terminates p start adv fuel : wf_lp p -> (forall k, wf_round p (adv k)) ->
  lT p / lm p + 1 < Z.of_nat fuel ->
  let '(_, o, _, _) := loop p start start fuel 0%nat false adv in o <> Running.
Proof.
  intros WP W F. pose proof (loop_iters p start adv WP W fuel start 0%nat false (progressed_start p start)) as H.
  assert (K0 : Z.of_nat 0 <= lT p / lm p + 1).
  { destruct WP as (Hm & HA & HT). assert (0 <= lT p / lm p) by (apply Z.div_pos; lia). lia. }
  specialize (H K0). destruct (loop p start start fuel 0%nat false adv) as [[[e o] kf] hh].
  destruct H as [H1 H2]. intros R. specialize (H2 R). lia.
Qed.

Lemma sleep_consts : 0 < sleepMin <= sleepMax.
Proof. unfold sleepMin, sleepMax, randomSleepUnit_ms, randomSleepMaxMultiplier. lia. Qed.

Definition wf_cost (c : cost) : Prop := 0 <= cCall c /\ 0 <= nHandles c /\ 0 <= nCalls c /\ 0 <= regionWait c /\ 0 <= retryStart c.
Lemma bounds_nonneg c : wf_cost c ->
  0 <= regWriteBound c /\ 0 <= iterBound c /\ 0 <= postBound c /\ 0 <= rollbackBound c /\ 0 <= preBound c.
Proof.
  intros (A & B & C & D & E). pose proof sleep_consts.
  assert (R : 0 <= regWriteBound c) by (unfold regWriteBound; lia).
  unfold iterBound, postBound, rollbackBound, preBound, retryBackoffTotal, fibTotal. repeat split; nia.
Qed.

Lemma limit_shift maxTime D c t0 pre : 0 <= pre <= preBound c ->
  limit (mkLP maxTime D (iterBound c) sleepMin sleepMax) (t0 + pre)
  <= (match D with Some d => Z.min d (t0 + maxTime) | None => t0 + maxTime end) + preBound c.
Proof. intros H. unfold limit; cbn [lD lT]. destruct D; lia. Qed.

Lemma phase1_bounded c maxTime D t0 pre post rb post_ok fuel adv :
  wf_cost c -> 0 <= maxTime -> (match D with Some d => t0 <= d | None => True end) ->
  0 <= pre <= preBound c -> 0 <= post <= postBound c -> 0 <= rb <= rollbackBound c ->
  (forall k, wf_round (mkLP maxTime D (iterBound c) sleepMin sleepMax) (adv k)) ->
  let '(e, ok, held) := phase1 c maxTime D t0 pre post rb post_ok fuel adv in
  e <= (match D with Some d => Z.min d (t0 + maxTime) | None => t0 + maxTime end) + overheadB c
  /\ (ok = false -> held = false).
Proof.
  intros WC HT HD Hpre Hpost Hrb W. unfold phase1.
  set (p := mkLP maxTime D (iterBound c) sleepMin sleepMax) in *.
  destruct (bounds_nonneg c WC) as (B1 & B2 & B3 & B4 & B5).
  assert (WP : wf_lp p) by (unfold wf_lp, p; cbn [lm lM lA lT]; pose proof sleep_consts; lia).
  pose proof (loop_end p (t0 + pre) adv WP W fuel (t0 + pre) 0%nat false) as LE.
  assert (L0 : t0 + pre <= limit p (t0 + pre) + lA p + lM p \/ True) by (right; exact I).
  pose proof (limit_shift maxTime D c t0 pre Hpre) as LS. fold p in LS.
  destruct (Z_le_gt_dec (t0 + pre) (limit p (t0 + pre) + lA p + lM p)) as [Hle|Hgt].
  - specialize (LE Hle). destruct (loop p (t0 + pre) (t0 + pre) fuel 0%nat false adv) as [[[e o] kf] hh].
    destruct LE as [E1 E2]. cbn [lA lM p] in E1, E2. unfold overheadB.
    destruct o as [|[|]|]; try destruct post_ok; split; try (intros; reflexivity); try (intros; discriminate);
      try (specialize (E2 _ eq_refl)); pose proof sleep_consts; lia.
  - (* the deadline was already over before the loop started: the first check exits *)
    assert (X : expired p (t0 + pre) (t0 + pre) = true).
    { subst p. pose proof sleep_consts. destruct D as [d|]; unfold expired, limit in *; cbn [lD lT lA lM] in *; cbn iota beta in *; lia. }
    destruct fuel as [|f]; cbn [loop]; [|rewrite X]; unfold overheadB.
    + split; [|intros; reflexivity]. subst p. pose proof sleep_consts. destruct D as [d|]; unfold limit in *; cbn [lD lT lA lM] in *; cbn iota beta in *; lia.
    + split; [|intros; reflexivity]. subst p. pose proof sleep_consts. destruct D as [d|]; unfold limit in *; cbn [lD lT lA lM] in *; cbn iota beta in *; lia.
Qed.

(* the file-region lock-retry loop of fs/hashmap.fileregion.go is the same loop with limit
   lockSectorRetryTimeout and one try-lock per round: it ends by start + regionWaitProd *)
Lemma region_wait_bounded cc D start fuel adv :
  0 <= cc -> (forall k, wf_round (mkLP lockSectorRetryTimeout_ms D cc sleepMin sleepMax) (adv k)) ->
  let '(e, o, _, _) := loop (mkLP lockSectorRetryTimeout_ms D cc sleepMin sleepMax) start start fuel 0%nat false adv in
  e <= start + regionWaitProd cc.
Proof.
  intros Hc W. set (p := mkLP lockSectorRetryTimeout_ms D cc sleepMin sleepMax) in *.
  assert (WP : wf_lp p) by (unfold wf_lp, p; cbn [lm lM lA lT]; pose proof sleep_consts; unfold lockSectorRetryTimeout_ms; lia).
  pose proof (loop_end p start adv WP W fuel start 0%nat false) as LE.
  assert (L : limit p start <= start + lockSectorRetryTimeout_ms) by (unfold limit, p; cbn [lD lT]; destruct D; lia).
  pose proof sleep_consts.
  destruct (Z_le_gt_dec start (limit p start + lA p + lM p)) as [Hle|Hgt].
  - specialize (LE Hle). destruct (loop p start start fuel 0%nat false adv) as [[[e o] kf] hh].
    destruct LE as [E1 _]. unfold regionWaitProd. subst p; cbn [lA lM] in *. lia.
  - assert (X : expired p start start = true).
    { subst p. destruct D as [d|]; unfold expired, limit in *; cbn [lD lT lA lM] in *; cbn iota beta in *; unfold lockSectorRetryTimeout_ms in *; lia. }
    destruct fuel as [|f]; cbn [loop]; [|rewrite X]; unfold regionWaitProd, lockSectorRetryTimeout_ms; lia.
Qed.

Lemma item_verify_ok mine : snd (item_verify mine) = true -> fst (item_verify mine) = mine.
Proof.
  induction mine as [|[|] r IH]; cbn [item_verify]; auto.
  - destruct (item_verify r) as [o ok]. cbn [fst snd] in *. intros H. rewrite (IH H). reflexivity.
  - cbn. discriminate.
Qed.
Lemma item_no_leftover_on_success mine : snd (item_verify mine) = true -> forallb negb (item_leftover mine) = true.
Proof.
  intros H. unfold item_leftover. rewrite (item_verify_ok mine H). clear H.
  induction mine as [|[|] r IH]; cbn; auto.
Qed.

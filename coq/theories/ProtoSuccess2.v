(* Proofs about the commit-protocol model Proto.v, part 3: what a successful commit does to the blob store.
   - commit_success_keeps_live_blobs (C10): cleanup never deletes the active blob of a node the commit did
     not touch; commit_success_all_registered_blobs_present: if every node registered before the commit
     had its active blob, so has every node registered after it.
   - commit_success_removes_superseded (C11): the superseded blobs of updated nodes, the blobs of removed
     nodes and the obsolete value blobs are gone, and every blob present afterwards was present before or
     is one of the ids this transaction wrote.

   Hypotheses added to SW d t (ProtoSuccess.v):
   - uniq_active d: two registered logical ids do not share an active blob id.  Needed for C10 only: cleanup
     deletes BY BLOB ID the old active blobs of the updated and removed nodes, so an untouched node sharing
     such an id would lose its blob (shared_active_refuted is the witness).  Nothing is needed about
     inactive ids or about 0.
   - obs_fresh d t: obsolete t contains no active blob id of an untouched registered node (that the new ids
     are not in obsolete t is already SW_fresh_upd / SW_fresh_new).  Needed for C10 only.
   C11 needs nothing beyond SW.  What C11 does NOT say: when the pre-commit handle of an updated node carries
   a stale expired inactive id (both slots in use), claim overwrites that slot with the new physical id and
   the commit never issues a BlobRemove for the stale id; if a blob with that id exists in d it is still in
   d' (it is covered by the "blob of d" disjunct of (iv), and is an orphan the commit inherits, not one it
   creates).  stale_inactive_survives is the witness. *)
From Coq Require Import List ZArith NArith Bool Lia.
From SopVerif Require Import Proto ProtoProofs ProtoSuccess.
Import ListNotations.
Local Open Scope N_scope.

(* ------------------------------------------------------------------ blob list lemmas *)

Lemma In_blob_del_inv b ids x : In x (blob_del b ids) -> In x b /\ ~ In x ids.
Proof.
  unfold blob_del. intros H. apply filter_In in H. destruct H as [Hb Hm]. split; [exact Hb|].
  intros Hin. apply mem_In in Hin. rewrite Hin in Hm. discriminate.
Qed.

Lemma In_blob_add_inv ids : forall b x, In x (blob_add b ids) -> In x b \/ In x ids.
Proof.
  unfold blob_add. induction ids as [|i ids IH]; cbn [fold_left]; intros b x H; [left; exact H|].
  destruct (IH _ _ H) as [H1|H1]; [|right; right; exact H1].
  destruct (mem i b); [left; exact H1|].
  apply in_app_or in H1. destruct H1 as [H1|[E|[]]]; [left; exact H1|right; left; exact E].
Qed.

(* ------------------------------------------------------------------ hypotheses *)

Definition uniq_active (d : disk) : Prop :=
  forall l1 l2 h1 h2, lookup (reg d) l1 = Some h1 -> lookup (reg d) l2 = Some h2 -> active h1 = active h2 -> l1 = l2.

Definition obs_fresh (d : disk) (t : txn) : Prop :=
  forall l h, ~ In l (map (fun x => fst (fst x)) (updated t)) -> ~ In l (map fst (removed t)) ->
              lookup (reg d) l = Some h -> ~ In (active h) (obsolete t).

Lemma NoDup_map_inj {A B} (f : A -> B) (l : list A) x y :
  NoDup (map f l) -> In x l -> In y l -> f x = f y -> x = y.
Proof.
  induction l as [|a l IH]; cbn [map]; intros Hnd Hx Hy E; [contradiction|].
  inversion Hnd as [|? ? Ha Hnd']; subst. destruct Hx as [Hx|Hx]; destruct Hy as [Hy|Hy].
  - congruence.
  - subst a. exfalso. apply Ha. rewrite E. apply in_map. exact Hy.
  - subst a. exfalso. apply Ha. rewrite <- E. apply in_map. exact Hx.
  - apply IH; assumption.
Qed.

(* the list form implies the lookup form *)
Lemma uniq_active_of_nodup d : NoDup (actives d) -> uniq_active d.
Proof.
  intros Hnd l1 l2 h1 h2 E1 E2 Ea. destruct (lookup_In _ _ _ E1) as [I1 L1]. destruct (lookup_In _ _ _ E2) as [I2 L2].
  unfold actives in Hnd. rewrite (NoDup_map_inj active (reg d) h1 h2 Hnd I1 I2 Ea) in L1. congruence.
Qed.

(* ------------------------------------------------------------------ what cleanup deletes *)

(* every id in cleanup's "unused" list is the pre-commit active blob of an updated or a removed node *)
Lemma unused_char d t x : SW d t -> In x (unused d t) ->
  exists l h, (In l (ulids t) \/ In l (rlids t)) /\ lookup (reg d) l = Some h /\ x = active h.
Proof.
  intros HW. unfold unused. rewrite (updh_eq d t HW), (remh_eq d t HW), !map_map. intros H.
  apply in_app_or in H. destruct H as [H|H].
  - apply in_map_iff in H. destruct H as [h' [E Hh']]. rewrite inactive_flip in E. subst x.
    destruct (uhs_in d t HW h' Hh') as [y [h [Hy [E1 [E2 _]]]]].
    destruct (claim_props _ _ _ _ E2) as [_ [A _]]. exists (fst (fst y)), h.
    split; [left; exact (in_ulids t y Hy)|]. split; [exact E1|exact A].
  - apply in_map_iff in H. destruct H as [m [E Hm]]. rewrite active_touch in E. subst x.
    destruct (mhs_in d t HW m Hm) as [y [h [Hy [E1 [E2 _]]]]]. subst m.
    destruct (set_del_props h true 2) as [_ [A _]]. exists (fst y), h.
    split; [right; exact (in_rlids t y Hy)|]. split; [exact E1|exact A].
Qed.

Lemma unused_updated d t l v p h : SW d t -> In (l, v, p) (updated t) -> lookup (reg d) l = Some h ->
  In (active h) (unused d t).
Proof.
  intros HW Hx El. destruct (upd_in d t HW _ Hx) as [h0 [h' [Hh' [E1 [E2 _]]]]]. cbn [fst snd] in E1, E2.
  rewrite El in E1. inversion E1; subst h0. destruct (claim_props _ _ _ _ E2) as [_ [A _]].
  unfold unused. rewrite (updh_eq d t HW). apply in_or_app. left. rewrite map_map.
  apply in_map_iff. exists h'. split; [rewrite inactive_flip; exact A|exact Hh'].
Qed.

Lemma unused_removed d t l v h : SW d t -> In (l, v) (removed t) -> lookup (reg d) l = Some h ->
  In (active h) (unused d t).
Proof.
  intros HW Hx El. destruct (rem_in d t HW _ Hx) as [m [Hm Lm]]. cbn [fst] in Lm.
  destruct (mhs_in d t HW m Hm) as [y [h0 [_ [E1 [E2 L2]]]]]. rewrite <- L2, Lm, El in E1. inversion E1; subst h0.
  unfold unused. rewrite (remh_eq d t HW). apply in_or_app. right. rewrite map_map.
  apply in_map_iff. exists m. split; [|exact Hm]. rewrite active_touch. subst m.
  destruct (set_del_props h true 2) as [_ [A _]]. exact A.
Qed.

Lemma run_final d t d' tr : SW d t -> run t d None = (Committed, d', tr) -> d' = finalD d t.
Proof.
  intros HW Hrun. destruct (run_success d t (SW_Guards d t HW)) as [tr' E]. rewrite E in Hrun.
  inversion Hrun. reflexivity.
Qed.

(* ------------------------------------------------------------------ C10 *)

Theorem commit_success_keeps_live_blobs d t d' tr :
  SW d t -> uniq_active d -> obs_fresh d t -> run t d None = (Committed, d', tr) ->
  forall l h, ~ In l (map (fun x => fst (fst x)) (updated t)) -> ~ In l (map fst (removed t)) ->
              lookup (reg d) l = Some h -> In (active h) (blobs d) -> In (active h) (blobs d').
Proof.
  intros HW HU HO Hrun l h Nu Nr El Hb. rewrite (run_final d t d' tr HW Hrun).
  unfold finalD; cbn [blobs]. unfold blobs6. apply In_blob_del; [|exact (HO l h Nu Nr El)].
  apply In_blob_del.
  - unfold blobs4. do 4 apply In_blob_add. exact Hb.
  - intros Hin. destruct (unused_char d t _ HW Hin) as [l0 [h0 [Hl0 [E0 Ea]]]].
    pose proof (HU _ _ _ _ El E0 Ea) as Heq. subst l0. destruct Hl0 as [H|H]; [exact (Nu H)|exact (Nr H)].
Qed.

Theorem commit_success_all_registered_blobs_present d t d' tr :
  SW d t -> uniq_active d -> obs_fresh d t -> run t d None = (Committed, d', tr) ->
  (forall l h, lookup (reg d) l = Some h -> In (active h) (blobs d)) ->
  forall l h', lookup (reg d') l = Some h' -> In (active h') (blobs d').
Proof.
  intros HW HU HO Hrun Hall l h' El.
  destruct (commit_success_view d t d' tr HW Hrun) as [Va [Vb [Vc [Vd _]]]].
  destruct (in_dec N.eq_dec l (map (fun x => fst (fst x)) (updated t))) as [Hu|Nu].
  { apply in_map_iff in Hu. destruct Hu as [[[l0 v] p] [E Hx]]. cbn [fst] in E. subst l0.
    destruct (Va l v p Hx) as [Hres [_ Hin]]. unfold resolve in Hres. rewrite El in Hres.
    inversion Hres as [Hp]. rewrite Hp. exact Hin. }
  destruct (in_dec N.eq_dec l (map fst (removed t))) as [Hr|Nr].
  { apply in_map_iff in Hr. destruct Hr as [[l0 v] [E Hx]]. cbn [fst] in E. subst l0.
    rewrite (Vb l v Hx) in El. discriminate. }
  destruct (in_dec N.eq_dec l (roots t ++ added t)) as [Hn|Nn].
  { destruct (Vc l Hn) as [Hres Hin]. unfold resolve in Hres. rewrite El in Hres.
    inversion Hres as [Hp]. rewrite Hp. exact Hin. }
  assert (N1 : ~ In l (roots t)) by (intros H; apply Nn; apply in_or_app; left; exact H).
  assert (N4 : ~ In l (added t)) by (intros H; apply Nn; apply in_or_app; right; exact H).
  rewrite (Vd l N1 Nu Nr N4) in El.
  exact (commit_success_keeps_live_blobs d t d' tr HW HU HO Hrun l h' Nu Nr El (Hall l h' El)).
Qed.

(* ------------------------------------------------------------------ C11 *)

Theorem commit_success_removes_superseded d t d' tr :
  SW d t -> run t d None = (Committed, d', tr) ->
  (* (i)   *) (forall l v p h, In (l, v, p) (updated t) -> lookup (reg d) l = Some h -> ~ In (active h) (blobs d'))
  (* (ii)  *) /\ (forall l v h, In (l, v) (removed t) -> lookup (reg d) l = Some h -> ~ In (active h) (blobs d'))
  (* (iii) *) /\ (forall i, In i (obsolete t) -> ~ In i (blobs d'))
  (* (iv)  *) /\ (forall i, In i (blobs d') ->
                    In i (blobs d) \/ In i (vals t ++ roots t ++ added t ++ map snd (updated t))).
Proof.
  intros HW Hrun. rewrite (run_final d t d' tr HW Hrun). unfold finalD; cbn [blobs]. unfold blobs6.
  split; [|split; [|split]].
  - intros l v p h Hx El Hin. apply In_blob_del_inv in Hin. destruct Hin as [Hin _].
    apply In_blob_del_inv in Hin. destruct Hin as [_ Hn]. apply Hn. exact (unused_updated d t l v p h HW Hx El).
  - intros l v h Hx El Hin. apply In_blob_del_inv in Hin. destruct Hin as [Hin _].
    apply In_blob_del_inv in Hin. destruct Hin as [_ Hn]. apply Hn. exact (unused_removed d t l v h HW Hx El).
  - intros i Hi Hin. apply In_blob_del_inv in Hin. destruct Hin as [_ Hn]. exact (Hn Hi).
  - intros i Hin. apply In_blob_del_inv in Hin. destruct Hin as [Hin _].
    apply In_blob_del_inv in Hin. destruct Hin as [Hin _]. unfold blobs4 in Hin.
    destruct (In_blob_add_inv _ _ _ Hin) as [H4|H4]; [|right; apply in_or_app; right; apply in_or_app; right; apply in_or_app; left; exact H4].
    destruct (In_blob_add_inv _ _ _ H4) as [H3|H3]; [|right; apply in_or_app; right; apply in_or_app; right; apply in_or_app; right; exact H3].
    destruct (In_blob_add_inv _ _ _ H3) as [H2|H2]; [|right; apply in_or_app; right; apply in_or_app; left; exact H2].
    destruct (In_blob_add_inv _ _ _ H2) as [H1|H1]; [left; exact H1|right; apply in_or_app; left; exact H1].
Qed.

(* ------------------------------------------------------------------ the added hypotheses cannot be dropped *)

(* two registered nodes share the active blob 10; node 1 is updated, node 2 is untouched and loses its blob *)
Example shared_active_refuted :
  exists d t d' tr l h,
    SW d t /\ obs_fresh d t /\ run t d None = (Committed, d', tr)
    /\ ~ In l (map (fun x => fst (fst x)) (updated t)) /\ ~ In l (map fst (removed t))
    /\ lookup (reg d) l = Some h /\ In (active h) (blobs d) /\ ~ In (active h) (blobs d').
Proof.
  exists (mkD [mkH 1 10 0 false 0%Z 0 false; mkH 2 10 0 false 0%Z 0 false] [10] [] false None).
  exists (mkT true [] [] [] [] [] [(1, 0%Z, 30)] [] [] [] []).
  eexists. eexists. exists 2. eexists.
  split; [|split; [|split; [vm_compute; reflexivity|]]].
  - constructor; try reflexivity.
    + cbn. repeat (constructor; [cbn; intros H; intuition discriminate|]). constructor.
    + intros l [].
    + intros l [].
    + intros l v p [E|[]]. inversion E; subst l v p. eexists. eexists. split; reflexivity.
    + intros l v [].
    + intros x [].
    + cbn. repeat (constructor; [cbn; intros H; intuition discriminate|]). constructor.
    + intros l v p [E|[]]. inversion E; subst l v p. split; cbn; intros H; intuition discriminate.
    + intros l [].
  - intros l h _ _ _ [].
  - split; [cbn; intros H; intuition discriminate|]. split; [intros []|]. split; [reflexivity|].
    split; [left; reflexivity|]. cbn. intros H; intuition discriminate.
Qed.

(* the pre-commit handle of node 1 has both slots in use (active 10, stale expired inactive 77, wip marker 1);
   the commit reuses the slot for 30 and the blob 77 is still there afterwards *)
Example stale_inactive_survives :
  exists d t d' tr, SW d t /\ run t d None = (Committed, d', tr) /\ In 77 (blobs d) /\ In 77 (blobs d')
    /\ lookup (reg d') 1 = Some (mkH 1 10 30 true 1%Z 1 false).
Proof.
  exists (mkD [mkH 1 10 77 false 0%Z 1 false] [10; 77] [] false None).
  exists (mkT true [] [] [] [] [] [(1, 0%Z, 30)] [] [] [] []).
  eexists. eexists. split; [|split; [vm_compute; reflexivity|]].
  - constructor; try reflexivity.
    + cbn. repeat (constructor; [cbn; intros H; intuition discriminate|]). constructor.
    + intros l [].
    + intros l [].
    + intros l v p [E|[]]. inversion E; subst l v p. eexists. eexists. split; reflexivity.
    + intros l v [].
    + intros x [].
    + cbn. repeat (constructor; [cbn; intros H; intuition discriminate|]). constructor.
    + intros l v p [E|[]]. inversion E; subst l v p. split; cbn; intros H; intuition discriminate.
    + intros l [].
  - split; [right; left; reflexivity|]. split; [left; reflexivity|reflexivity].
Qed.

(* ------------------------------------------------------------------ non-vacuity on d_ex / t_ex *)

Example hyps2_nonvacuous :
  SW d_ex t_ex /\ uniq_active d_ex /\ obs_fresh d_ex t_ex
  /\ (forall l h, lookup (reg d_ex) l = Some h -> In (active h) (blobs d_ex)).
Proof.
  split; [exact SW_nonvacuous|]. split; [|split].
  - apply uniq_active_of_nodup. cbn. repeat (constructor; [cbn; intros H; intuition discriminate|]). constructor.
  - intros l h _ _ E Hin. pose proof (in_actives d_ex h l E) as Ha.
    destruct Hin as [Hin|[]]. rewrite <- Hin in Ha. cbn in Ha. intuition discriminate.
  - intros l h E. pose proof (in_actives d_ex h l E) as Ha. cbn in Ha. cbn.
    destruct Ha as [Ha|[Ha|[Ha|[]]]]; rewrite <- Ha; tauto.
Qed.

(* both theorems applied to the example: all four registered nodes of the final disk have their blob, the
   superseded blob 10, the removed node's blob 11 and the obsolete blob 50 are gone *)
Example ex_conclusions d' tr : run t_ex d_ex None = (Committed, d', tr) ->
  (forall l h', lookup (reg d') l = Some h' -> In (active h') (blobs d'))
  /\ ~ In 10 (blobs d') /\ ~ In 11 (blobs d') /\ ~ In 50 (blobs d').
Proof.
  intros Hrun. destruct hyps2_nonvacuous as [HW [HU [HO Hall]]]. split.
  - exact (commit_success_all_registered_blobs_present _ _ _ _ HW HU HO Hrun Hall).
  - destruct (commit_success_removes_superseded _ _ _ _ HW Hrun) as [Ri [Rii [Riii _]]].
    split; [|split].
    + exact (Ri 10 3%Z 30 (mkH 10 10 0 false 3%Z 0 false) (or_introl eq_refl) eq_refl).
    + exact (Rii 11 2%Z (mkH 11 11 0 false 2%Z 0 false) (or_introl eq_refl) eq_refl).
    + exact (Riii 50 (or_introl eq_refl)).
Qed.

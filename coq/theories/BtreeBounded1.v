(* BOUNDED theorems (vm_compute over a finite domain, the bound is in the statement):
   Btree refines OMap on every call sequence up to the stated length over the stated
   alphabet.  These are NOT the C17 claim; they cover the part of the refinement that
   is not proved by induction (see Props/C17.v). *)
From Coq Require Import List ZArith NArith Bool.
From SopVerif Require Import OMap Btree BtreeSim BtreeProofs.
Import ListNotations.
Local Open Scope Z_scope.

Definition alpha_mut : list op := [OAdd 1 1; OAdd 2 2; OAdd 3 3; ORemove 1; ORemove 2; ORemove 3].

(* BOUNDED: every sequence of at most 7 adds/removes over 3 keys, slot length 2, duplicates allowed *)
Theorem bounded_L2_dup_mut : forall ops, (length ops <= 7)%nat -> Forall (fun o => In o alpha_mut) ops ->
  sim_run (mkCfg 2 false false) ops = true.
Proof. apply explore_sound. vm_cast_no_check (eq_refl true). Qed.

(* BOUNDED: the same for a unique store, with conditional adds and upserts, at most 5 calls *)
Definition alpha_mut_u : list op := [OAdd 1 1; OAdd 2 2; OAdd 3 3; OAdd 4 4; ORemove 1; ORemove 2; ORemove 3; ORemove 4; OUpsert 2 9].
Theorem bounded_L2_unique_mut : forall ops, (length ops <= 5)%nat -> Forall (fun o => In o alpha_mut_u) ops ->
  sim_run (mkCfg 2 true false) ops = true.
Proof. apply explore_sound. vm_cast_no_check (eq_refl true). Qed.

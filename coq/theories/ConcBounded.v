(* ConcBounded.v -- computed facts about the model of Conc.v: the refuting schedules (witnesses for
   the _refuted theorems) and the exhaustive exploration of ALL schedules of a family of
   two-writer systems (lifted to schedules of any length by ConcProofs.explore_sound). *)
From Coq Require Import List NArith Bool.
From SopVerif Require Import History HistoryProofs Conc ConcProofs.
Import ListNotations.
Local Open Scope N_scope.

Definition sto3 : list (key * val) := [(0, 100); (1, 101); (10, 110)].

(* ---- (i) a ForReading transaction validates between two handle flips of a writer ---- *)
Definition w1_sys : sys :=
  init_sys 10 true sto3
    [new_tx 1 MW [PRd 0; PRd 10; PWr 0 5; PWr 10 6] false; new_tx 2 MR [PRd 0; PRd 10] false].
(* writer: 4 ops, end of work, lock, node lock, validate, check, FIRST flip;
   then the reader completely; then the writer finishes *)
Definition w1_sched : list N := [1;1;1;1;1;1;1;1;1;1; 2;2;2;2; 1;1;1;1].

Lemma w1_refutes : wf_sys w1_sys = true /\ all_done (run w1_sys w1_sched) = true /\
  forallb is_committed (s_txs (run w1_sys w1_sched)) = true /\
  ser_check (hist (run w1_sys w1_sched)) = false.
Proof. vm_compute. repeat split. Qed.

(* ---- (ii) write skew through the item-lock get/set window (non-atomic acquisition) ---- *)
Definition w2_sys : sys :=
  init_sys 10 false sto3
    [new_tx 1 MW [PRd 0; PWr 10 7] false; new_tx 2 MW [PRd 10; PWr 0 8] false].
(* both work; T2 does its first lock get (sees no record); T1 lock get/set/verify, node lock,
   validate, checkTrackedItems; T2 sets its records OVER T1's, verifies, ... flips,
   unlocks; T1 flips *)
Definition w2_sched : list N := [1;1;1; 2;2;2; 2; 1;1;1;1;1;1; 2;2;2;2;2;2;2;2; 1;1;1].

Lemma w2_refutes : wf_sys w2_sys = true /\ all_done (run w2_sys w2_sched) = true /\
  forallb is_committed (s_txs (run w2_sys w2_sched)) = true /\
  ser_check (hist (run w2_sys w2_sched)) = false.
Proof. vm_compute. repeat split. Qed.

(* ---- (iii) negative lookups are not tracked: skew through two absent keys, no special timing:
        both work, then commit one after the other; atomic lock acquisition ---- *)
Definition w3_sys : sys :=
  init_sys 10 true sto3
    [new_tx 1 MW [PRd 20; PAdd 30 7] false; new_tx 2 MW [PRd 30; PAdd 20 8] false].
Definition w3_sched : list N := [1;1;2;2; 1;1;1;1;1;1;1;1;1;1; 2;2;2;2;2;2;2;2;2;2].

Lemma w3_refutes : wf_sys w3_sys = true /\ all_done (run w3_sys w3_sched) = true /\
  forallb is_committed (s_txs (run w3_sys w3_sched)) = true /\
  ser_check (hist (run w3_sys w3_sched)) = false.
Proof. vm_compute. repeat split. Qed.

(* ---- C03: the count is merged before the flip ---- *)
Definition w4_sys : sys :=
  init_sys 10 true [(0, 100)]
    [new_tx 1 MW [PAdd 20 5; PAdd 21 6] false; new_tx 2 MW [PRd 20; PWr 0 9] false].
(* writer 1: 2 ops, end, lock, node lock, validate, commitStores -> paused at Check *)
Definition w4_sched : list N := [1;1;1;1;1;1;1].

Lemma w4_count_visible :
  flippers w4_sys w4_sched = [] /\ s_sto (run w4_sys w4_sched) = s_sto w4_sys /\
  s_cnt w4_sys = 1 /\ s_cnt (run w4_sys w4_sched) = 3.
Proof. vm_compute. repeat split. Qed.

(* the same writer then loses checkTrackedItems (transaction 2 took a record it conflicts with?
   no: it adds only) -- a rollback path that restores the count: writer 1 reads key 0, transaction
   2 overwrites writer 1's record on key 0 inside the non-atomic window, writer 1 fails Check *)
Definition w5_sys : sys :=
  init_sys 10 false [(0, 100)]
    [new_tx 1 MW [PRd 0; PAdd 20 5; PAdd 21 6] false; new_tx 2 MW [PWr 0 9] false].
(* T2 works and does its lock get; T1 runs to Check (count merged); T2 sets its record; T1 checks *)
Definition w5_pre : list N := [2;2;2; 1;1;1;1;1;1;1;1;1;1].
Definition w5_sched : list N := w5_pre ++ [2; 1].

Lemma w5_rollback_restores_count :
  s_cnt (run w5_sys w5_pre) = 3 /\ flippers w5_sys w5_pre = [] /\
  (exists u, find_tx (run w5_sys w5_sched) 1 = Some u /\ x_pc u = Done false) /\
  s_cnt (run w5_sys w5_sched) = 1 /\ s_sto (run w5_sys w5_sched) = s_sto w5_sys.
Proof. vm_compute. repeat split. eexists. split; reflexivity. Qed.

(* ---- all schedules of a family of two-writer systems (atomic lock acquisition) ---- *)
Definition progs2 (alpha : list pop) : list (list pop) :=
  flat_map (fun a => map (fun b => [a; b]) alpha) alpha.
Definition alpha1 : list pop := [PRd 0; PRd 10; PWr 0 5; PWr 10 6].
Definition partnersA : list (list pop) :=
  [ [PRd 0; PWr 10 8];        (* reads one leaf, writes the other: the write-skew partner *)
    [PRd 10; PWr 10 8];       (* read-modify-write *)
    [PWr 0 7; PWr 10 8] ].    (* blind writer over two nodes *)
Definition partnersB : list (list pop) :=
  [ [PRd 0; PRd 10];          (* read-only program in a ForWriting transaction *)
    [PRd 1; PWr 1 9] ].       (* another key of the node of key 0: node-lock contention only *)
Definition partners : list (list pop) := partnersA ++ partnersB.

Definition pair_sys (p q : list pop) : sys :=
  init_sys 10 true sto3 [new_tx 1 MW p false; new_tx 2 MW q false].

Definition pair_ok (p q : list pop) : bool :=
  explore (fun s => ser_check (hist s)) [1; 2] 40 (pair_sys p q).

Lemma pairs_exploredA :
  forallb (fun p => forallb (fun q => pair_ok p q) partnersA) (progs2 alpha1) = true.
Proof. vm_compute. reflexivity. Qed.

(* BtreeSim — the refinement statement between the node-level model (Btree) and the
   specification (OMap), as executable definitions.

   sim_step runs one call on both layers: the hints the specification needs
   (abstract cursor after the call, item that disappeared) are computed from the
   node-level state, and the two layers must agree on the call's result, its
   output, the count, GetCurrentKey, the cursor and the complete contents
   (in-order walk of the node structure = the spec's item list).
   "Btree refines OMap on ops" is sim_run cfg ops = true. *)
From Coq Require Import List ZArith NArith Bool.
From SopVerif Require Import OMap Btree.
Import ListNotations.
Local Open Scope Z_scope.

Fixpoint items_eqb (a b : list item) : bool :=
  match a, b with
  | [], [] => true
  | x :: a', y :: b' => item_eqb x y && items_eqb a' b'
  | _, _ => false
  end.

(* abstract cursor of a node-level state *)
Definition hint_of (b : bstate) : hint :=
  if N.eqb (bcur_node b) 0 then HNone
  else match getn b (bcur_node b) with
       | Some n => if (0 <=? bcur_idx b) && (bcur_idx b <? ncount n)
                   then HItem (iid (slot n (bcur_idx b))) else HGhost
       | None => HGhost
       end.

(* id of the first item of before that is missing from after (0: none) *)
Definition removed_id (before after : list item) : N :=
  match filter (fun x => negb (existsb (fun y => N.eqb (iid y) (iid x)) after)) before with
  | x :: _ => iid x
  | [] => 0%N
  end.

Definition same_cursor (s : omap) (b : bstate) : bool :=
  match cur s with
  | CNone => N.eqb (bcur_node b) 0
  | CGhost => negb (N.eqb (bcur_node b) 0) &&
              match getn b (bcur_node b) with
              | Some n => (bcur_idx b <? 0) || (ncount n <=? bcur_idx b)
              | None => true
              end
  | CAt i => negb (N.eqb (bcur_node b) 0) &&
             match getn b (bcur_node b), nth_error (items s) i with
             | Some n, Some x => (0 <=? bcur_idx b) && (bcur_idx b <? ncount n) && item_eqb (slot n (bcur_idx b)) x
             | _, _ => false
             end
  end.

(* the two layers after a call *)
Definition agree (s : omap) (r : result) (b : bstate) (rb : result) : bool :=
  Bool.eqb (rok r) (rok rb) && ekind_eqb (rerr r) (rerr rb) && items_eqb (rout r) (rout rb)
  && Z.eqb (ocount s) (bcount b) && item_eqb (current_key s) (bcurrent_key b)
  && Bool.eqb (cached s) (bcached b)
  && same_cursor s b && items_eqb (items s) (b_inorder b).

Definition sim_step (cfg : bcfg) (b : bstate) (s : omap) (o : op) : option (bstate * omap) :=
  let '(b', rb) := bstep cfg b o in
  let h := mkHints (hint_of b') (removed_id (b_inorder b) (b_inorder b')) in
  match ostep (cunique cfg) s o h with
  | Some (s', r) => if agree s' r b' rb then Some (b', s') else None
  | None => None
  end.

Fixpoint sim_from (cfg : bcfg) (b : bstate) (s : omap) (ops : list op) : bool :=
  match ops with
  | [] => true
  | o :: r => match sim_step cfg b s o with
              | Some (b', s') => sim_from cfg b' s' r
              | None => false
              end
  end.

Definition sim_run (cfg : bcfg) (ops : list op) : bool := sim_from cfg empty_bstate empty_omap ops.

(* depth-first exploration of every sequence of at most n calls drawn from alpha,
   sharing the work of common prefixes *)
Fixpoint explore (cfg : bcfg) (alpha : list op) (n : nat) (b : bstate) (s : omap) : bool :=
  match n with
  | O => true
  | S n' => forallb (fun o => match sim_step cfg b s o with
                              | Some (b', s') => explore cfg alpha n' b' s'
                              | None => false
                              end) alpha
  end.

(* decidable well-formedness facts used by the bounded theorems *)
Definition wf_quick (cfg : bcfg) (b : bstate) : bool :=
  sortedb (b_inorder b) && Z.eqb (bcount b) (Z.of_nat (length (b_inorder b))).

(* does a run keep the in-order walk sorted and the count exact? (no spec involved) *)
Fixpoint run_sorted (cfg : bcfg) (b : bstate) (ops : list op) : bool :=
  match ops with
  | [] => wf_quick cfg b
  | o :: r => wf_quick cfg b && run_sorted cfg (fst (bstep cfg b o)) r
  end.

(* Repl.v — model of SOP's active/passive replication of the registry and the store
   repository (fs/registry.go Replicate, fs/storerepository.go Add/Remove/Replicate,
   fs/fileiowithreplication.go, fs/replicationtracker*.go, fs/storerepository.copier.go).
   Definitions only.  Blobs are NOT part of this mechanism (they are erasure coded across
   drives by BlobStoreWithEC) and do not occur here.

   A folder ("side") is what is replicated: the store list, per-store info, and the
   registry as a map (table, logical id) -> handle.  The registry hashmap is taken as a map
   (property C21); its displaced-slot defect is outside this model.
   Maps are functions; equality of sides is pointwise (side_eq). *)
From Coq Require Import List ZArith NArith Bool.
Import ListNotations.
Local Open Scope N_scope.

Record handle := mkH { h_lid : N; h_a : N; h_b : N; h_actB : bool; h_ver : Z; h_wip : N; h_del : bool }.
Record sinfo := mkSI { si_name : N; si_count : Z; si_root : N; si_ts : N }.

Definition reg := N -> N -> option handle.          (* table -> logical id -> handle *)
Definition rset (m : reg) (t l : N) (v : option handle) : reg :=
  fun t' l' => if (t' =? t) && (l' =? l) then v else m t' l'.
Definition rdrop (m : reg) (t : N) : reg := fun t' l' => if t' =? t then None else m t' l'.

Record side := mkSide {
  s_has  : N -> bool;                 (* storelist.txt membership *)
  s_info : N -> option sinfo;         (* <store>/storeinfo.txt *)
  s_reg  : reg }.                     (* <store>/<store>-N.reg *)

Definition empty_side : side := mkSide (fun _ => false) (fun _ => None) (fun _ _ => None).

Definition fset {A} (f : N -> A) (k : N) (v : A) : N -> A := fun k' => if k' =? k then v else f k'.

(* One RegistryPayload list: (table, handles). *)
Definition payload := list (N * list handle).

(* what a transaction hands to Registry.Replicate / StoreRepository.Replicate in phase 2 *)
Record commit := mkC { c_roots : payload; c_added : payload; c_upd : payload; c_rem : payload; c_stores : list sinfo }.

(* A fault script says which passive-side write (by index within the operation) fails. *)
Definition faults := nat -> bool.
Definition nofault : faults := fun _ => false.

(* registryMap.add: one findAndAdd per handle, stops at the first error.  An id that is
   already present never yields a free slot: the call ends in an error (after its lock-retry timeout). *)
Fixpoint add_list (f : faults) (i : nat) (t : N) (hs : list handle) (m : reg) : reg * nat * bool :=
  match hs with
  | [] => (m, i, true)
  | h :: r => if f i then (m, S i, false)
              else match m t (h_lid h) with
                   | Some _ => (m, S i, false)
                   | None => add_list f (S i) t r (rset m t (h_lid h) (Some h))
                   end
  end.
Fixpoint add_payload (f : faults) (i : nat) (p : payload) (m : reg) : reg * nat * bool :=
  match p with
  | [] => (m, i, true)
  | (t, hs) :: r => let '(m1, i1, ok) := add_list f i t hs m in
                    if ok then add_payload f i1 r m1 else (m1, i1, false)
  end.

(* registryMap.set: upsert, one block write per handle, stops at the first error *)
Fixpoint set_list (f : faults) (i : nat) (t : N) (hs : list handle) (m : reg) : reg * nat * bool :=
  match hs with
  | [] => (m, i, true)
  | h :: r => if f i then (m, S i, false) else set_list f (S i) t r (rset m t (h_lid h) (Some h))
  end.
Fixpoint set_payload (f : faults) (i : nat) (p : payload) (m : reg) : reg * nat * bool :=
  match p with
  | [] => (m, i, true)
  | (t, hs) :: r => let '(m1, i1, ok) := set_list f i t hs m in
                    if ok then set_payload f i1 r m1 else (m1, i1, false)
  end.

(* registryMap.remove: per table, every id must be present (else error before any write),
   then one zeroing write per id *)
Definition isSome {A} (o : option A) : bool := match o with Some _ => true | None => false end.
Fixpoint zero_list (f : faults) (i : nat) (t : N) (hs : list handle) (m : reg) : reg * nat * bool :=
  match hs with
  | [] => (m, i, true)
  | h :: r => if f i then (m, S i, false) else zero_list f (S i) t r (rset m t (h_lid h) None)
  end.
Definition rem_list (f : faults) (i : nat) (t : N) (hs : list handle) (m : reg) : reg * nat * bool :=
  if forallb (fun h => isSome (m t (h_lid h))) hs then zero_list f i t hs m else (m, i, false).
Fixpoint rem_payload (f : faults) (i : nat) (p : payload) (m : reg) : reg * nat * bool :=
  match p with
  | [] => (m, i, true)
  | (t, hs) :: r => let '(m1, i1, ok) := rem_list f i t hs m in
                    if ok then rem_payload f i1 r m1 else (m1, i1, false)
  end.

(* registryOnDisk.Replicate: the four steps all run, each error is remembered *)
Definition replicate_reg (f : faults) (i : nat) (c : commit) (m : reg) : reg * nat * bool :=
  let '(m1, i1, ok1) := add_payload f i (c_roots c) m in
  let '(m2, i2, ok2) := add_payload f i1 (c_added c) m1 in
  let '(m3, i3, ok3) := set_payload f i2 (c_upd c) m2 in
  let '(m4, i4, ok4) := rem_payload f i3 (c_rem c) m3 in
  (m4, i4, ok1 && ok2 && ok3 && ok4).

(* StoreRepository.Replicate: one storeinfo write per store, stops at the first error *)
Fixpoint replicate_info (f : faults) (i : nat) (ss : list sinfo) (inf : N -> option sinfo) : (N -> option sinfo) * nat * bool :=
  match ss with
  | [] => (inf, i, true)
  | s :: r => if f i then (inf, S i, false) else replicate_info f (S i) r (fset inf (si_name s) (Some s))
  end.

Record world := mkW {
  w_f0 : side; w_f1 : side;
  w_tog : bool;            (* ActiveFolderToggler: true = folder 0 is active *)
  w_failed : bool;         (* FailedToReplicate *)
  w_logging : bool;        (* LogCommitChanges *)
  w_logs : list commit;    (* <active>/commitlogs/*.log, oldest first *)
  w_pcache : N -> option sinfo }. (* L2 cache entries "<passive folder>:<store>" (left from a time that folder was the active one) *)

Definition active (w : world) : side := if w_tog w then w_f0 w else w_f1 w.
Definition passive (w : world) : side := if w_tog w then w_f1 w else w_f0 w.
Definition with_sides (w : world) (a p : side) : world :=
  if w_tog w then mkW a p (w_tog w) (w_failed w) (w_logging w) (w_logs w) (w_pcache w)
  else mkW p a (w_tog w) (w_failed w) (w_logging w) (w_logs w) (w_pcache w).
Definition with_flags (w : world) (failed logging : bool) (logs : list commit) : world :=
  mkW (w_f0 w) (w_f1 w) (w_tog w) failed logging logs (w_pcache w).
Definition with_pcache (w : world) (c : N -> option sinfo) : world :=
  mkW (w_f0 w) (w_f1 w) (w_tog w) (w_failed w) (w_logging w) (w_logs w) c.

Inductive res := ROk | RErr.

(* the active-side effect of a committed transaction, after its cleanup: new roots and added
   nodes registered, updated handles flipped, removed handles deleted, store infos rewritten *)
Definition commit_active (c : commit) (a : side) : side * bool :=
  let '(m, _, ok) := replicate_reg nofault 0 c (s_reg a) in
  let '(inf, _, _) := replicate_info nofault 0 (c_stores c) (s_info a) in
  (mkSide (s_has a) inf m, ok).

(* phase 2 replication of one commit onto the passive side.  sr_late: StoreRepository.Replicate
   (which runs concurrently with Registry.Replicate) looked at FailedToReplicate only after the
   registry side had already flagged a failure.  f: faults of the registry writes, g: of the
   store-info writes (two independent write sequences). *)
Definition commit_passive (f g : faults) (sr_late : bool) (c : commit) (p : side) : side * bool :=
  let '(m, _, okr) := replicate_reg f 0 c (s_reg p) in
  if negb okr && sr_late then (mkSide (s_has p) (s_info p) m, false)
  else let '(inf, _, oks) := replicate_info g 0 (c_stores c) (s_info p) in
       (mkSide (s_has p) inf m, okr && oks).

(* fileIO.replicate of StoreRepository.Add: store list, folder, store info; stops at the first error.
   It does NOT look at FailedToReplicate and does NOT call handleFailedToReplicate. *)
Definition create_passive (f : faults) (n : N) (si : sinfo) (p : side) : side * bool :=
  if f 0%nat then (p, false) else
  let p1 := mkSide (fset (s_has p) n true) (s_info p) (s_reg p) in
  if f 1%nat then (p1, false) else
  if f 2%nat then (p1, false) else
  (mkSide (s_has p1) (fset (s_info p1) n (Some si)) (s_reg p1), true).

Definition drop_side (n : N) (s : side) : side :=
  mkSide (fset (s_has s) n false) (fset (s_info s) n None) (rdrop (s_reg s) n).

(* fileIO.replicate of StoreRepository.Remove: RemoveAll(<store>), then the store list *)
Definition drop_passive (f : faults) (i : nat) (n : N) (p : side) : side * bool :=
  if f i then (p, false) else
  let p1 := mkSide (s_has p) (fset (s_info p) n None) (rdrop (s_reg p) n) in
  if f (S i) then (p1, false) else
  (mkSide (fset (s_has p1) n false) (s_info p1) (s_reg p1), true).

(* StoreRepository.CopyToPassiveFolders: the store infos are read on the ACTIVE side (sr.Get
   before the folder toggler is flipped); then the store list is written to the passive folder
   and, per listed store, that active info is written there and the active registry segment
   files are copied over.  A listed store whose info cannot be found on the active side (dropped
   concurrently) is skipped.  The L2 cache entry "<passive folder>:<store>" of every listed store
   is evicted (copy_cache); nothing reads those entries during a reinstate. *)
Definition copy_stores (a p : side) : side :=
  mkSide (s_has a)
         (fun n => if s_has a n then s_info a n else s_info p n)
         (fun t l => if s_has a t then (if isSome (s_info a t) then s_reg a t l else s_reg p t l) else s_reg p t l).
Definition copy_cache (pc : N -> option sinfo) (a : side) : N -> option sinfo :=
  fun n => if s_has a n then None else pc n.

(* fastForward: replay each logged commit (store infos, then registry) and delete the log *)
Fixpoint fast_forward (logs : list commit) (p : side) : side * list commit * bool :=
  match logs with
  | [] => (p, [], true)
  | c :: r => let '(inf, _, oks) := replicate_info nofault 0 (c_stores c) (s_info p) in
              if negb oks then (p, logs, false) else
              let '(m, _, okr) := replicate_reg nofault 0 c (s_reg p) in
              let p1 := mkSide (s_has p) inf m in
              if negb okr then (p1, logs, false) else fast_forward r p1
  end.

Inductive op :=
| OCreate (n : N) (si : sinfo) (f : faults)       (* NewBtree of a new store: StoreRepository.Add; on error Remove + rollback *)
| OCommit (c : commit) (sr_late : bool) (f g : faults)
| ODrop (n : N) (f : faults)                      (* RemoveBtree: StoreRepository.Remove *)
| OReinstate (copy_fails : bool)                  (* ReinstateFailedDrives *)
| OFailover
| OReplaceDrive.                                  (* environment: the passive drive is swapped for an empty one *)

Definition step (w : world) (o : op) : world * res :=
  let a := active w in let p := passive w in
  match o with
  | OCreate n si f =>
      if s_has a n then (w, RErr) else
      let a1 := mkSide (fset (s_has a) n true) (fset (s_info a) n (Some si)) (s_reg a) in
      let '(p1, ok) := create_passive f n si p in
      if ok then (with_sides w a1 p1, ROk)
      else (* NewBtree: StoreRepository.Remove(name) (replicates again), Rollback, return the error *)
        let '(p2, _) := drop_passive f 3 n p1 in
        (with_sides w (drop_side n a1) p2, RErr)
  | OCommit c late f g =>
      let '(a1, _) := commit_active c a in
      let logs := if w_logging w then w_logs w ++ [c] else w_logs w in
      if w_failed w then (with_flags (with_sides w a1 p) true (w_logging w) logs, ROk)
      else let '(p1, ok) := commit_passive f g late c p in
           (with_flags (with_sides w a1 p1) (negb ok) (w_logging w) logs, ROk)
  | ODrop n f =>
      let '(p1, _) := drop_passive f 0 n p in
      (with_sides w (drop_side n a) p1, ROk)
  | OReinstate copy_fails =>
      if negb (w_failed w) then (w, RErr) else
      if copy_fails then (with_flags w true true (w_logs w), RErr) else
      let p1 := copy_stores a p in
      let pc := copy_cache (w_pcache w) a in
      let '(p2, logs, ok) := fast_forward (w_logs w) p1 in
      if ok then (with_pcache (with_flags (with_sides w a p2) false false logs) pc, ROk)
      else (with_pcache (with_flags (with_sides w a p2) true true logs) pc, RErr)
  | OFailover =>
      if w_failed w then (w, ROk)
      else (mkW (w_f0 w) (w_f1 w) (negb (w_tog w)) true (w_logging w) (w_logs w) (w_pcache w), ROk)
  | OReplaceDrive => (with_sides w a empty_side, ROk)
  end.

Fixpoint run (w : world) (ops : list op) : world * list res :=
  match ops with
  | [] => (w, [])
  | o :: r => let '(w1, x) := step w o in let '(w2, xs) := run w1 r in (w2, x :: xs)
  end.

Definition empty_world : world := mkW empty_side empty_side true false false [] (fun _ => None).

(* Lemmas about the store catalog model (property C12). *)
From Coq Require Import List ZArith NArith Bool Lia.
From SopVerif Require Import Gen.MaintConsts StoreCatalog.
Import ListNotations.
Local Open Scope Z_scope.

Lemma sr_get_remove : forall c n, sr_get (sr_remove c n) n = None.
Proof.
  intros c n. unfold sr_get, sr_remove. induction c as [|s r IH]; cbn [filter find]; [reflexivity|].
  destruct (N.eqb (s_name s) n) eqn:E; cbn [negb]; [exact IH|]. cbn [find]. rewrite E. exact IH.
Qed.

Lemma sr_get_remove_other : forall c n m, m <> n -> sr_get (sr_remove c n) m = sr_get c m.
Proof.
  intros c n m Hne. unfold sr_get, sr_remove. induction c as [|s r IH]; cbn [filter find]; [reflexivity|].
  destruct (N.eqb (s_name s) n) eqn:E; cbn [negb].
  - rewrite IH. apply N.eqb_eq in E. destruct (N.eqb (s_name s) m) eqn:E2; [apply N.eqb_eq in E2; congruence|reflexivity].
  - cbn [find]. rewrite IH. reflexivity.
Qed.

Lemma count_name_remove : forall c n, count_name (sr_remove c n) n = 0%nat.
Proof.
  intros c n. unfold count_name, sr_remove. induction c as [|s r IH]; cbn [filter length]; [reflexivity|].
  destruct (N.eqb (s_name s) n) eqn:E; cbn [negb]; [exact IH|]. cbn [filter]. rewrite E. exact IH.
Qed.

Lemma sr_get_none_count : forall c n, sr_get c n = None <-> count_name c n = 0%nat.
Proof.
  intros c n. unfold sr_get, count_name. induction c as [|s r IH]; cbn [find filter length]; [tauto|].
  destruct (N.eqb (s_name s) n); cbn [length]; [split; [discriminate|lia]|exact IH].
Qed.

Lemma sr_get_app_absent : forall c s, sr_get c (s_name s) = None -> sr_get (c ++ [s]) (s_name s) = Some s.
Proof.
  intros c s H. unfold sr_get in *. induction c as [|x r IH]; cbn [app find] in *.
  - rewrite N.eqb_refl. reflexivity.
  - destruct (N.eqb (s_name x) (s_name s)); [discriminate|]. apply IH. exact H.
Qed.

Lemma sr_get_app_other : forall c s m, m <> s_name s -> sr_get (c ++ [s]) m = sr_get c m.
Proof.
  intros c s m Hne. unfold sr_get. induction c as [|x r IH]; cbn [app find].
  - destruct (N.eqb (s_name s) m) eqn:E; [apply N.eqb_eq in E; congruence|reflexivity].
  - destruct (N.eqb (s_name x) m); [reflexivity|exact IH].
Qed.

Lemma count_name_app : forall c s n, count_name (c ++ [s]) n = (count_name c n + (if N.eqb (s_name s) n then 1 else 0))%nat.
Proof.
  intros c s n. unfold count_name. rewrite filter_app, app_length. cbn [filter]. destruct (N.eqb (s_name s) n); reflexivity.
Qed.

(* creation when the name is free *)
Lemma new_btree_creates : forall c n o, sr_get c n = None ->
  new_btree c n o = (c ++ [fresh_store n o], Created).
Proof.
  intros c n o H. unfold new_btree, nb_get, nb_add, sr_add. cbn [fresh_store s_name]. rewrite H. reflexivity.
Qed.

Lemma new_btree_opens : forall c n o s, sr_get c n = Some s -> s_opts s = o -> new_btree c n o = (c, Opened).
Proof.
  intros c n o s H Ho. unfold new_btree, nb_get, nb_open. rewrite H, Ho, Z.eqb_refl. reflexivity.
Qed.

Lemma rollback_removes_created : forall cs c n,
  createStore <= cs -> txn_rollback cs c [n] = sr_remove c n.
Proof.
  intros cs c n H2. unfold txn_rollback.
  destruct (Z.eqb cs addActivelyPersistedItem); [reflexivity|].
  assert (createStore <=? cs = true) as -> by (apply Z.leb_le; exact H2). reflexivity.
Qed.

Lemma serial_opens : forall k c n o s, sr_get c n = Some s -> s_opts s = o ->
  serial k c n o = (c, repeat Opened k).
Proof.
  induction k as [|k IH]; intros c n o s H Ho; cbn [serial repeat]; [reflexivity|].
  rewrite (new_btree_opens c n o s H Ho). rewrite (IH c n o s H Ho). reflexivity.
Qed.

Lemma serial_single : forall k c n o, sr_get c n = None ->
  serial (S k) c n o = (c ++ [fresh_store n o], Created :: repeat Opened k).
Proof.
  intros k c n o H. cbn [serial]. rewrite (new_btree_creates c n o H).
  rewrite (serial_opens k (c ++ [fresh_store n o]) n o (fresh_store n o)); [reflexivity| |reflexivity].
  apply (sr_get_app_absent c (fresh_store n o)). exact H.
Qed.

(* ---------------------------------------------------------------- commit with conflict retries *)

Lemma rollback_unknown_id : forall c l, txn_rollback unknown c l = c.
Proof. reflexivity. Qed.

Lemma present_removed : forall c n, present (sr_remove c n) n = false.
Proof. intros. unfold present. rewrite sr_get_remove. reflexivity. Qed.

Lemma commit_loop_failed_no_store : forall rs c n,
  Forall round_state_ok rs -> snd (commit_loop rs c [n]) = false ->
  sr_get (fst (commit_loop rs c [n])) n = None /\
  (forall m, m <> n -> sr_get (fst (commit_loop rs c [n])) m = sr_get c m).
Proof.
  intros rs c n HF. destruct rs as [|r rest]; cbn [commit_loop]; intros Hs.
  - rewrite rollback_removes_created by (cbv; discriminate). cbn [fst].
    split; [apply sr_get_remove|intros m Hm; apply sr_get_remove_other; exact Hm].
  - inversion HF as [|x l Hr Hrest]; subst. destruct r as [|s|s ok]; cbn [fst snd round_state_ok] in *.
    + discriminate.
    + rewrite rollback_removes_created by assumption.
      split; [apply sr_get_remove|intros m Hm; apply sr_get_remove_other; exact Hm].
    + rewrite rollback_removes_created in * by assumption.
      cbn [forallb] in *. rewrite present_removed in *. rewrite andb_false_r in *. cbn [fst snd] in *.
      rewrite rollback_unknown_id. split; [apply sr_get_remove|intros m Hm; apply sr_get_remove_other; exact Hm].
Qed.

(* as written, a creator whose first round hits a conflict can never commit: the partial rollback
   has removed its store and the refetch of the retry does not find it *)
Lemma creator_conflict_never_commits : forall s ok rest c n,
  createStore <= s ->
  snd (commit_loop (RoundConflict s ok :: rest) c [n]) = false.
Proof.
  intros s ok rest c n H1. cbn [commit_loop]. rewrite rollback_removes_created by assumption.
  cbn [forallb]. rewrite present_removed, andb_false_r. reflexivity.
Qed.

(* every way a transaction that created a store can end without committing removes the store *)
Lemma exists_after_abort : forall ap phase, phase <> 4%nat -> exists_after ap phase = false.
Proof.
  intros ap phase H. destruct phase as [|[|[|[|[|p]]]]]; try reflexivity; try congruence; destruct ap; reflexivity.
Qed.

Lemma abort_no_store : forall c n o cs,
  sr_get c n = None -> createStore <= cs ->
  let c1 := fst (new_btree c n o) in
  snd (new_btree c n o) = Created /\
  sr_get (txn_rollback cs c1 [n]) n = None /\ count_name (txn_rollback cs c1 [n]) n = 0%nat /\
  (forall m, m <> n -> sr_get (txn_rollback cs c1 [n]) m = sr_get c m).
Proof.
  intros c n o cs Habs Hcs. cbv zeta. rewrite (new_btree_creates c n o Habs). cbn [fst snd].
  rewrite (rollback_removes_created cs _ n Hcs).
  split; [reflexivity|]. split; [apply sr_get_remove|]. split; [apply count_name_remove|].
  intros m Hm. rewrite sr_get_remove_other by exact Hm. apply sr_get_app_other. cbn [fresh_store s_name]. exact Hm.
Qed.

Lemma abort_no_store_state99 : forall c n o,
  sr_get c n = None ->
  sr_get (txn_rollback addActivelyPersistedItem (fst (new_btree c n o)) [n]) n = None.
Proof.
  intros c n o H. destruct (abort_no_store c n o addActivelyPersistedItem H ltac:(cbv; discriminate)) as [_ [A _]]. exact A.
Qed.

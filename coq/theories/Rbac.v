(* Model of the access-control decisions of package sop:
     rbac.go            Authorize, IsSystemReadOnly, CheckPolicy, EnforcePolicy, CanPerformAction, GetAuthFromContext
     rbac_blueprint.go  ActionToUICapability, ResolveRBACMap
     rbac_registry.go   RegisterAssetRBAC, GetAssetBlueprint
   Strings are byte lists (list N); Go maps are association lists in which the first
   binding of a key is the one a lookup sees (a Go map has one binding per key).
   The string constants, the read-only names, the public rule's sets, the wildcard and
   the capability table come from Gen.RbacConsts (regenerated from the sources each run).
   Definitions only; lemmas live in RbacProofs.v. *)
From Coq Require Import List NArith Bool.
From SopVerif Require Import Gen.RbacConsts.
Import ListNotations.

Definition str := list N.

Fixpoint str_eqb (a b : str) : bool :=
  match a, b with
  | [], [] => true
  | x :: a', y :: b' => N.eqb x y && str_eqb a' b'
  | _, _ => false
  end.

Definition mem (s : str) (l : list str) : bool := existsb (str_eqb s) l.

Fixpoint lookup {V : Type} (k : str) (m : list (str * V)) : option V :=
  match m with
  | [] => None
  | (k', v) :: r => if str_eqb k k' then Some v else lookup k r
  end.

(* type AuthContext; the zero value is what GetAuthFromContext returns for a context without one *)
Record caller := mkCaller { c_user : str; c_roles : list str; c_system : bool }.
Definition anonymous : caller := mkCaller [] [] false.

(* type ResourceAccess *)
Record access := mkAccess {
  a_vis : str;
  a_owner : str;
  a_roles : list (str * list str);
  a_users : list (str * list str)
}.
Definition zero_access : access := mkAccess [] [] [] [].

(* the inner loop of both grant tests: a == string(action) || a == "*" *)
Definition grants (acts : list str) (action : str) : bool :=
  existsb (fun a => str_eqb a action || str_eqb a grant_wildcard) acts.

Definition role_granted (c : caller) (acc : access) (action : str) : bool :=
  existsb (fun role => match lookup role (a_roles acc) with
                       | Some acts => grants acts action
                       | None => false
                       end) (c_roles c).

Definition user_granted (c : caller) (acc : access) (action : str) : bool :=
  match lookup (c_user c) (a_users acc) with
  | Some acts => grants acts action
  | None => false
  end.

(* func Authorize, statement by statement *)
Definition authorize (c : caller) (acc : access) (action : str) : bool :=
  if str_eqb (a_vis acc) VisibilitySystem then c_system c
  else if mem RoleAdmin (c_roles c) then true
  else if negb (str_eqb (a_owner acc) []) && str_eqb (c_user c) (a_owner acc) then true
  else if mem (a_vis acc) public_visibilities && mem action public_actions then true
  else if role_granted c acc action then true
  else user_granted c acc action.

(* func IsSystemReadOnly *)
Definition is_system_readonly (name : str) : bool := mem name readonly_names.

(* error value of CheckPolicy / EnforcePolicy *)
Inductive verdict := Allowed | DeniedReadOnly | DeniedUnauthorized.

Definition verdict_code (v : verdict) : N :=
  match v with Allowed => 0 | DeniedReadOnly => 1 | DeniedUnauthorized => 2 end%N.

(* func CheckPolicy (EnforcePolicy is the same function) *)
Definition check_policy (c : caller) (name : str) (acc : access) (action : str) : verdict :=
  if is_system_readonly name && mem action readonly_denied_actions then DeniedReadOnly
  else if authorize c acc action then Allowed
  else DeniedUnauthorized.

(* func CanPerformAction *)
Definition can_perform (c : caller) (name : str) (acc : access) (action : str) : bool :=
  match check_policy c name acc action with Allowed => true | _ => false end.

(* func ActionToUICapability *)
Definition action_to_ui_capability (action : str) : str :=
  match lookup action ui_cap_table with Some cap => cap | None => action end.

(* type AssetBlueprint, the parts ResolveRBACMap reads; the evaluator is any function of the action
   (context and entitlement context are fixed during one ResolveRBACMap call) *)
Record blueprint := mkBlueprint { bp_actions : list str; bp_eval : option (str -> bool) }.

(* systemRBACMap: RegisterAssetRBAC overwrites, GetAssetBlueprint looks up *)
Definition registry := list (str * blueprint).
Definition register (assetType : str) (bp : blueprint) (reg : registry) : registry := (assetType, bp) :: reg.

(* capabilities[uiCap] = v on a Go map: overwrite in place or add *)
Fixpoint map_set (k : str) (v : bool) (m : list (str * bool)) : list (str * bool) :=
  match m with
  | [] => [(k, v)]
  | (k', v') :: r => if str_eqb k k' then (k, v) :: r else (k', v') :: map_set k v r
  end.

(* the value ResolveRBACMap stores for one action *)
Definition decision (ev : option (str -> bool)) (c : caller) (asset : str) (acc : access) (action : str) : bool :=
  match ev with
  | Some f => f action
  | None => can_perform c asset acc action
  end.

Definition resolve_actions (ev : option (str -> bool)) (c : caller) (asset : str) (acc : access)
    (acts : list str) : list (str * bool) :=
  fold_left (fun m a => map_set (action_to_ui_capability a) (decision ev c asset acc a) m) acts [].

(* func ResolveRBACMap; local = None models getLocalAccess == nil *)
Definition resolve_rbac_map (reg : registry) (c : caller) (assetType asset : str) (local : option access)
    : list (str * bool) :=
  match lookup assetType reg with
  | None => []
  | Some bp =>
      resolve_actions (bp_eval bp) c asset (match local with Some a => a | None => zero_access end) (bp_actions bp)
  end.

(* an evaluator given as a finite table (used by the correspondence cases) *)
Definition table_eval (tbl : list (str * bool)) (action : str) : bool :=
  match lookup action tbl with Some b => b | None => false end.

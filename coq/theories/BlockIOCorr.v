(* Shared by Corr/C22.v and Corr/C23.v: a fast CRC-32 on primitive 63-bit integers (used ONLY to
   evaluate recorded cases; the theorems never mention it) and the observation types the
   harnesses print. *)
From Coq Require Import List ZArith NArith Bool Uint63.
From SopVerif Require Import Lib.Bytes Gen.Consts BlockIO.
Import ListNotations.

Definition pcrc_bit (c : int) : int :=
  if Uint63.eqb (Uint63.land c 1) 1 then Uint63.lxor (Uint63.lsr c 1) 3988292384 else Uint63.lsr c 1.
Definition pcrc_byte (c : int) (b : N) : int :=
  let c := Uint63.lxor c (Uint63.of_Z (Z.of_N b)) in
  pcrc_bit (pcrc_bit (pcrc_bit (pcrc_bit (pcrc_bit (pcrc_bit (pcrc_bit (pcrc_bit c))))))).
Definition crc32p (data : list N) : N :=
  Z.to_N (Uint63.to_Z (Uint63.lxor (fold_left pcrc_byte data 4294967295%uint63) 4294967295%uint63)).

(* the two implementations agree on a real block and on the standard check value *)
Example crc32p_check :
  crc32p [49;50;51;52;53;54;55;56;57]%N = 3421780262%N /\
  crc32 [49;50;51;52;53;54;55;56;57]%N = 3421780262%N /\
  crc32p (splice (zeros DSZ) 124 (repeat 17%N 62)) = crc32 (splice (zeros DSZ) 124 (repeat 17%N 62)).
Proof. vm_compute. auto. Qed.

(* what the harness observed *)
Inductive gobs := GoFound (encoded : list N) | GoNotFound | GoErr.
Inductive uobs := UoOk | UoErr.

(* the Go decoder reads the two flag bytes as (b == 1); the harness re-encodes the handle it got *)
Definition norm_flag (b : N) : N := if N.eqb b 1 then 1%N else 0%N.
Definition norm_slot (s : list N) : list N :=
  firstn 48 s ++ map norm_flag (firstn 1 (skipn 48 s)) ++ firstn 12 (skipn 49 s) ++ map norm_flag (skipn 61 s).

Definition gres_matches (m : gres) (o : gobs) : bool :=
  match m, o with
  | GFound s, GoFound e => list_eqb (norm_slot s) e
  | GNotFound, GoNotFound => true
  | GErr _, GoErr => true
  | _, _ => false
  end.
Definition ures_matches (m : ures) (o : uobs) : bool :=
  match m, o with
  | UOk, UoOk => true
  | UErr _, UoErr => true
  | _, _ => false
  end.

(* sparse file literal -> bytes *)
Definition fo (p : N * list (N * list N)) : list N := file_of (fst p) (snd p).

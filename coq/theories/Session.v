(* C35 — model of the session-token facade of tools/httpserver/auth.go:
   signAccessToken, parseAndVerifySignedAccessToken, SessionStore.CreateToken,
   CreateSession, Refresh, ValidateToken, RevokeToken.
   Definitions only; lemmas are in SessionProofs.v.

   Time is in nanoseconds (N); the clock readings each operation takes
   (time.Now()) are inputs. A token string is either a string with exactly
   three dot-separated segments (TSigned) or any other string (TOpaque);
   HMAC-SHA256, base64url and the JSON codec of the claims are parameters. *)
From Coq Require Import List NArith Bool.
Import ListNotations.
Local Open Scope N_scope.

Definition bytes := list N.

Fixpoint bytes_eqb (a b : bytes) : bool :=
  match a, b with
  | [], [] => true
  | x :: r, y :: r' => N.eqb x y && bytes_eqb r r'
  | _, _ => false
  end.

Inductive token :=
| TSigned (h p s : bytes)     (* strings.Split(token, ".") has exactly three parts *)
| TOpaque (b : bytes).        (* any other string *)

Definition token_eqb (a b : token) : bool :=
  match a, b with
  | TSigned h p s, TSigned h' p' s' => bytes_eqb h h' && bytes_eqb p p' && bytes_eqb s s'
  | TOpaque x, TOpaque y => bytes_eqb x y
  | _, _ => false
  end.

Record claims := mkClaims { c_sub : bytes; c_role : bytes; c_iat : N; c_exp : N; c_jti : bytes }.

Definition nanos : N := 1000000000.
Definition unix (t : N) : N := t / nanos.         (* time.Time.Unix() *)

(* SessionRecord; r_ref = None for CreateToken records (RefreshToken "") whose
   RefreshExpiresAt is the zero time (0 here: earlier than every reading) *)
Record srec := mkRec {
  r_tok : token; r_ref : option token; r_user : bytes; r_role : bytes;
  r_exp : N; r_rexp : N }.

(* ghost: what the server issued *)
Record issue := mkIssue {
  i_access : token; i_refresh : option token; i_user : bytes; i_role : bytes;
  i_exp : N;            (* ExpiresAt written into the record and (as seconds) into the claims *)
  i_secret : bytes;     (* secret the access token was signed with *)
  i_msg : bytes * bytes (* header, payload that were MACed *) }.

Record sstate := mkS {
  secret : bytes;
  store : list (token * srec);     (* the "sessions" B-tree: key = token string *)
  ctr : N;                         (* draws of newToken() so far *)
  log : list issue }.

Inductive err := EInvalid | EExpired | ECollision.
Inductive res (A : Type) := ROk (a : A) | RErr (e : err).
Arguments ROk {A}. Arguments RErr {A}.

Fixpoint find (l : list (token * srec)) (k : token) : option srec :=
  match l with
  | [] => None
  | (k', v) :: r => if token_eqb k k' then Some v else find r k
  end.

Fixpoint remove (l : list (token * srec)) (k : token) : list (token * srec) :=
  match l with
  | [] => []
  | (k', v) :: r => if token_eqb k k' then remove r k else (k', v) :: remove r k
  end.

Definition remove_opt (l : list (token * srec)) (k : option token) :=
  match k with Some t => remove l t | None => l end.

Definition nonempty (b : bytes) : bool := match b with [] => false | _ => true end.

Section Model.
  Variable mac : bytes -> bytes -> bytes.          (* HMAC-SHA256 key msg *)
  Variable b64 : bytes -> bytes.                   (* base64urlEncode *)
  Variable b64d : bytes -> option bytes.           (* base64urlDecode *)
  Variable cenc : claims -> bytes.                 (* json.Marshal(signedAccessClaims) *)
  Variable cdec : bytes -> option claims.          (* json.Unmarshal *)
  Variable header : bytes.                         (* base64url of {"alg":"HS256","typ":"JWT"} *)
  Variable nonce : N -> bytes.                     (* k-th result of newToken() *)

  Definition dot : N := 46.
  Definition mac_input (h p : bytes) : bytes := h ++ [dot] ++ p.
  Definition sig_of (sec h p : bytes) : bytes := b64 (mac sec (mac_input h p)).

  Definition sign (sec : bytes) (c : claims) : token :=
    let p := b64 (cenc c) in TSigned header p (sig_of sec header p).

  (* parseAndVerifySignedAccessToken *)
  Definition parse (sec : bytes) (t : token) (now : N) : res claims :=
    match t with
    | TOpaque _ => RErr EInvalid
    | TSigned h p s =>
        if negb (bytes_eqb s (sig_of sec h p)) then RErr EInvalid else
        match b64d p with
        | None => RErr EInvalid
        | Some cj =>
            match cdec cj with
            | None => RErr EInvalid
            | Some c =>
                if negb (nonempty (c_sub c) && nonempty (c_role c) && nonempty (c_jti c)) then RErr EInvalid
                else if c_exp c <=? unix now then RErr EExpired
                else ROk c
            end
        end
    end.

  Definition mk_access (sec user role : bytes) (now exp : N) (k : N) : token * (bytes * bytes) :=
    let c := mkClaims user role (unix now) (unix exp) (nonce k) in
    (sign sec c, (header, b64 (cenc c))).

  (* CreateToken *)
  Definition create_token (s : sstate) (user role : bytes) (ttl now : N) : sstate * res token :=
    let '(a, m) := mk_access (secret s) user role now (now + ttl) (ctr s) in
    match find (store s) a with
    | Some _ => (mkS (secret s) (store s) (ctr s + 1) (log s), RErr ECollision)
    | None =>
        let r := mkRec a None user role (now + ttl) 0 in
        (mkS (secret s) ((a, r) :: store s) (ctr s + 1)
             (log s ++ [mkIssue a None user role (now + ttl) (secret s) m]), ROk a)
    end.

  (* CreateSession *)
  Definition create_session (s : sstate) (user role : bytes) (ttl rttl now : N) : sstate * res (token * token) :=
    let '(a, m) := mk_access (secret s) user role now (now + ttl) (ctr s) in
    let rt := TOpaque (nonce (ctr s + 1)) in
    let r := mkRec a (Some rt) user role (now + ttl) (now + rttl) in
    match find (store s) a, find ((a, r) :: store s) rt with
    | None, None =>
        (mkS (secret s) ((rt, r) :: (a, r) :: store s) (ctr s + 2)
             (log s ++ [mkIssue a (Some rt) user role (now + ttl) (secret s) m]), ROk (a, rt))
    | _, _ => (mkS (secret s) (store s) (ctr s + 2) (log s), RErr ECollision)
    end.

  (* Refresh: the new access token and the new record get a new access window now2 + ttl
     (ttl = SessionStore.ttl at the time of the call); RefreshExpiresAt is kept *)
  Definition refresh (s : sstate) (t : token) (ttl now1 now2 : N) : sstate * res (token * token) :=
    match find (store s) t with
    | None => (s, RErr EInvalid)
    | Some r =>
        if r_rexp r <? now1 then
          (mkS (secret s) (remove_opt (remove (store s) (r_tok r)) (r_ref r)) (ctr s) (log s), RErr EExpired)
        else
          let '(a, m) := mk_access (secret s) (r_user r) (r_role r) now2 (now2 + ttl) (ctr s) in
          let rt := TOpaque (nonce (ctr s + 1)) in
          let nr := mkRec a (Some rt) (r_user r) (r_role r) (now2 + ttl) (r_rexp r) in
          match find (store s) a, find ((a, nr) :: store s) rt with
          | None, None =>
              let st1 := (rt, nr) :: (a, nr) :: store s in
              let st2 := remove_opt (remove st1 (r_tok r)) (r_ref r) in
              (mkS (secret s) st2 (ctr s + 2)
                   (log s ++ [mkIssue a (Some rt) (r_user r) (r_role r) (now2 + ttl) (secret s) m]), ROk (a, rt))
          | _, _ => (mkS (secret s) (store s) (ctr s + 2) (log s), RErr ECollision)
          end
    end.

  (* ValidateToken: signature fast path first, session table only when it fails *)
  Definition validate (s : sstate) (t : token) (now1 now2 : N) : sstate * res (bytes * bytes) :=
    match parse (secret s) t now1 with
    | ROk c => (s, ROk (c_sub c, c_role c))
    | RErr _ =>
        match find (store s) t with
        | None => (s, RErr EInvalid)
        | Some r =>
            if r_exp r <? now2 then
              (mkS (secret s) (remove_opt (remove (store s) (r_tok r)) (r_ref r)) (ctr s) (log s), RErr EExpired)
            else (s, ROk (r_user r, r_role r))
        end
    end.

  (* RevokeToken *)
  Definition revoke (s : sstate) (t : token) : sstate :=
    match find (store s) t with
    | None => s
    | Some r => mkS (secret s) (remove_opt (remove (store s) (r_tok r)) (r_ref r)) (ctr s) (log s)
    end.

  Inductive op :=
  | OCreateSession (user role : bytes) (ttl rttl now : N)
  | OCreateToken (user role : bytes) (ttl now : N)
  | ORefresh (t : token) (ttl now1 now2 : N)
  | OValidate (t : token) (now1 now2 : N)
  | ORevoke (t : token)
  | OSecret (sec : bytes).        (* SOP_SESSION_SECRET / session_secret changed *)

  Definition apply (s : sstate) (o : op) : sstate :=
    match o with
    | OCreateSession u r ttl rttl now => fst (create_session s u r ttl rttl now)
    | OCreateToken u r ttl now => fst (create_token s u r ttl now)
    | ORefresh t ttl n1 n2 => fst (refresh s t ttl n1 n2)
    | OValidate t n1 n2 => fst (validate s t n1 n2)
    | ORevoke t => revoke s t
    | OSecret sec => mkS sec (store s) (ctr s) (log s)
    end.

  Definition run (s : sstate) (l : list op) : sstate := fold_left apply l s.

  Definition init (sec : bytes) : sstate := mkS sec [] 0 [].

  (* the signature part of t verifies under sec *)
  Definition sig_valid (sec : bytes) (t : token) : bool :=
    match t with TSigned h p s => bytes_eqb s (sig_of sec h p) | TOpaque _ => false end.

  (* (sec, header, payload) was MACed by this server *)
  Definition signed_by_server (s : sstate) (sec h p : bytes) : Prop :=
    exists i, In i (log s) /\ i_secret i = sec /\ i_msg i = (h, p).

  (* the presented token is not a forgery: if its signature verifies under the
     server's current secret then the server itself MACed that header.payload
     with that secret (HMAC unforgeability + secrecy of the secret, as a
     condition on what the adversary can present) *)
  Definition not_forged (s : sstate) (t : token) : Prop :=
    match t with
    | TSigned h p sg => sg = sig_of (secret s) h p -> signed_by_server s (secret s) h p
    | TOpaque _ => True
    end.
End Model.

(* OMap — the specification layer for C17/C18: a key-sorted list of items with a
   cursor.  Definitions only (no lemmas), everything total and computable.

   The B-tree leaves three things to its internal structure, which the spec
   therefore takes from a *hint* (the observed outcome) and only checks for
   admissibility:
     - which of several equal keys Find(key,false)/Update/Remove/a failed unique
       Add selects ("an item with that key"),
     - on a miss, whether the cursor parks on the predecessor or the successor of
       the insertion point,
     - where the (never reset) cursor reference points after a successful Add
       (any item, or an emptied slot that reads as the zero item: CGhost).
   ostep returns None when the hint is not admissible; all theorems quantify over
   every hint sequence that is accepted. *)
From Coq Require Import List ZArith NArith Bool Lia.
Import ListNotations.
Local Open Scope Z_scope.

Record item := mkItem { iid : N; ikey : Z; ival : Z }.
Definition zero_item : item := mkItem 0%N 0 0.

Definition item_eqb (a b : item) : bool :=
  N.eqb (iid a) (iid b) && Z.eqb (ikey a) (ikey b) && Z.eqb (ival a) (ival b).

Inductive cursor := CNone | CAt (i : nat) | CGhost.

Record omap := mkOMap {
  items : list item;     (* sorted by key; equal keys in insertion-defined order *)
  cur : cursor;
  cached : bool;         (* Btree.currentItem <> nil : what GetCurrentKey can see *)
  next_iid : N           (* ids of successfully added items are 1,2,3,... *)
}.

Definition empty_omap : omap := mkOMap [] CNone false 1%N.

Inductive op :=
| OAdd (k v : Z) | OAddIfNotExist (k v : Z) | OUpsert (k v : Z)
| OUpdate (k v : Z) | OUpdateKey (k : Z)
| OUpdateCurrentItem (k v : Z) | OUpdateCurrentValue (v : Z) | OUpdateCurrentKey (k : Z)
| ORemove (k : Z) | ORemoveCurrent
| OFirst | OLast | ONext | OPrev
| OFind (k : Z) (first : bool) | OFindDesc (k : Z) | OFindWithID (k : Z) (id : N)
| OGetCurrentValue | OGetCurrentItem
| ORange (from to : Z) | ORangeDesc (from to : Z).

(* error kind of a call: none / error value returned / panic *)
Inductive ekind := ENone | EErr | EPanic.
Definition ekind_eqb (a b : ekind) : bool :=
  match a, b with ENone, ENone | EErr, EErr | EPanic, EPanic => true | _, _ => false end.

Record result := mkRes { rok : bool; rerr : ekind; rout : list item }.

(* the observed abstract cursor after a call, and the item a Remove(key) deleted *)
Inductive hint := HNone | HItem (id : N) | HGhost.
Record hints := mkHints { h_cur : hint; h_rem : N }.

(* ------------------------------------------------------------------ helpers *)

Fixpoint lb (l : list item) (k : Z) : nat :=      (* first index with key >= k *)
  match l with
  | [] => 0%nat
  | x :: r => if ikey x <? k then S (lb r k) else 0%nat
  end.

Fixpoint ub (l : list item) (k : Z) : nat :=      (* first index with key > k *)
  match l with
  | [] => 0%nat
  | x :: r => if ikey x <=? k then S (ub r k) else 0%nat
  end.

Definition has_key (l : list item) (k : Z) : bool := existsb (fun x => ikey x =? k) l.

Fixpoint index_of (l : list item) (id : N) : option nat :=
  match l with
  | [] => None
  | x :: r => if N.eqb (iid x) id then Some 0%nat
              else match index_of r id with Some i => Some (S i) | None => None end
  end.

Fixpoint insert_at (n : nat) (x : item) (l : list item) : list item :=
  match n, l with
  | O, _ => x :: l
  | S n', [] => [x]
  | S n', y :: r => y :: insert_at n' x r
  end.

Fixpoint remove_at (n : nat) (l : list item) : list item :=
  match n, l with
  | _, [] => []
  | O, _ :: r => r
  | S n', y :: r => y :: remove_at n' r
  end.

Fixpoint set_at (n : nat) (x : item) (l : list item) : list item :=
  match n, l with
  | _, [] => []
  | O, _ :: r => x :: r
  | S n', y :: r => y :: set_at n' x r
  end.

Definition key_at (l : list item) (i : nat) : Z := ikey (nth i l zero_item).

Definition cur_item (s : omap) : option item :=
  match cur s with
  | CNone => None
  | CAt i => nth_error (items s) i
  | CGhost => Some zero_item
  end.

Definition selected (s : omap) : bool :=
  match cur s with CNone => false | _ => true end.

(* what GetCurrentKey() returns: key and id of the cached current item *)
Definition current_key (s : omap) : item :=
  if cached s then
    match cur_item s with Some x => mkItem (iid x) (ikey x) 0 | None => zero_item end
  else zero_item.

Definition ocount (s : omap) : Z := Z.of_nat (length (items s)).

Definition resolve (l : list item) (h : hint) : option cursor :=
  match h with
  | HNone => Some CNone
  | HGhost => Some CGhost
  | HItem id => match index_of l id with Some i => Some (CAt i) | None => None end
  end.

Definition set_cur (s : omap) (c : cursor) (ca : bool) : omap :=
  mkOMap (items s) c ca (next_iid s).

(* cursor given by the hint, required to be on an item with key k *)
Definition hint_on_key (l : list item) (h : hint) (k : Z) : option nat :=
  match resolve l h with
  | Some (CAt i) => if (Nat.ltb i (length l)) && (key_at l i =? k) then Some i else None
  | _ => None
  end.

(* cursor given by the hint, required to be next to insertion point p of a missing key *)
Definition hint_near (l : list item) (h : hint) (p : nat) : option nat :=
  match resolve l h with
  | Some (CAt i) =>
      if (Nat.ltb i (length l)) && ((Nat.eqb i p) || (Nat.eqb (S i) p)) then Some i else None
  | _ => None
  end.

Definition ok_res (b : bool) : result := mkRes b ENone [].

(* Find(k,false): the shortcut on the current item, else any item with the key *)
Definition find_any (s : omap) (k : Z) (h : hint) : option (omap * bool) :=
  let l := items s in
  match l with
  | [] => Some (s, false)
  | _ =>
    let hit := match cur_item s with Some x => ikey x =? k | None => false end in
    if selected s && hit then Some (set_cur s (cur s) true, true)
    else if has_key l k then
      match hint_on_key l h k with
      | Some i => Some (set_cur s (CAt i) true, true)
      | None => None
      end
    else
      match hint_near l h (lb l k) with
      | Some i => Some (set_cur s (CAt i) true, false)
      | None => None
      end
  end.

Definition find_first (s : omap) (k : Z) (h : hint) : option (omap * bool) :=
  let l := items s in
  match l with
  | [] => Some (s, false)
  | _ =>
    if has_key l k then Some (set_cur s (CAt (lb l k)) true, true)
    else match hint_near l h (lb l k) with
         | Some i => Some (set_cur s (CAt i) true, false)
         | None => None
         end
  end.

Definition find_desc (s : omap) (k : Z) (h : hint) : option (omap * bool) :=
  let l := items s in
  match l with
  | [] => Some (s, false)
  | _ =>
    if has_key l k then Some (set_cur s (CAt (pred (ub l k))) true, true)
    else match hint_near l h (ub l k) with
         | Some i => Some (set_cur s (CAt i) true, false)
         | None => None
         end
  end.

(* the cursor reference is not reset by a successful Add: afterwards it designates
   whatever now lives at that node slot *)
Definition havoc_ok (before after : cursor) : bool :=
  match before, after with
  | CNone, CNone => true
  | CNone, _ => false
  | _, CNone => false
  | _, _ => true
  end.

Definition do_add (uq : bool) (s : omap) (k v : Z) (h : hint) : option (omap * bool) :=
  let l := items s in
  if uq && has_key l k then
    match hint_on_key l h k with
    | Some i => Some (set_cur s (CAt i) false, false)
    | None => None
    end
  else
    let l' := insert_at (lb l k) (mkItem (next_iid s) k v) l in
    match resolve l' h with
    | Some c => if havoc_ok (cur s) c
                then Some (mkOMap l' c (cached s) (N.succ (next_iid s)), true)
                else None
    | None => None
    end.

(* UpdateCurrentItem / UpdateCurrentKey: the order-changing key is rejected; the
   error message dereferences Btree.currentItem, which is nil when not cached *)
Definition reject (s : omap) : result :=
  mkRes false (if cached s then EErr else EPanic) [].

Definition update_current (s : omap) (k : Z) (v : option Z) : omap * result :=
  match cur s with
  | CAt i =>
      match nth_error (items s) i with
      | Some x =>
          if ikey x =? k then
            match v with
            | Some v' => (mkOMap (set_at i (mkItem (iid x) k v') (items s)) (cur s) (cached s) (next_iid s), ok_res true)
            | None => (s, ok_res true)
            end
          else (s, reject s)
      | None => (s, ok_res false)
      end
  | _ => (s, ok_res false)
  end.

Definition update_current_value (s : omap) (v : Z) : omap * result :=
  match cur s with
  | CAt i =>
      match nth_error (items s) i with
      | Some x => (mkOMap (set_at i (mkItem (iid x) (ikey x) v) (items s)) (cur s) (cached s) (next_iid s), ok_res true)
      | None => (s, ok_res false)
      end
  | _ => (s, ok_res false)
  end.

Definition remove_current (s : omap) : omap * result :=
  match cur s with
  | CAt i =>
      if Nat.ltb i (length (items s))
      then (mkOMap (remove_at i (items s)) CNone false (next_iid s), ok_res true)
      else (s, ok_res false)
  | _ => (s, ok_res false)
  end.

Definition move_next (s : omap) : omap * result :=
  match items s, cur s with
  | [], _ => (s, ok_res false)
  | _, CAt i =>
      if Nat.ltb (S i) (length (items s)) then (set_cur s (CAt (S i)) true, ok_res true)
      else (set_cur s CNone false, ok_res false)
  | _, _ => (s, ok_res false)
  end.

Definition move_prev (s : omap) : omap * result :=
  match items s, cur s with
  | [], _ => (s, ok_res false)
  | _, CAt i =>
      match i with
      | S j => (set_cur s (CAt j) true, ok_res true)
      | O => (set_cur s CNone false, ok_res false)
      end
  | _, _ => (s, ok_res false)
  end.

(* FindWithID: from the first item with the key walk forward (to the end of the
   store, not the end of the key) until the id matches *)
Fixpoint scan_id (l : list item) (from : nat) (id : N) : option nat :=
  match l with
  | [] => None
  | x :: r =>
      match from with
      | S f => match scan_id r f id with Some j => Some (S j) | None => None end
      | O => if N.eqb (iid x) id then Some 0%nat
             else match scan_id r 0 id with Some j => Some (S j) | None => None end
      end
  end.

(* Range: items from index j while key <= to; returns the yielded items and the
   final cursor (on the first item beyond the bound, or none at the end) *)
Fixpoint range_from (l : list item) (j : nat) (to : Z) : list item * cursor :=
  match l with
  | [] => ([], CNone)
  | x :: r =>
      if to <? ikey x then ([], CAt j)
      else let '(ys, c) := range_from r (S j) to in (x :: ys, c)
  end.

(* RangeDesc works on the reversed prefix: l is reversed, index counts down *)
Fixpoint range_down (l : list item) (j : nat) (to : Z) : list item * cursor :=
  match l with
  | [] => ([], CNone)
  | x :: r =>
      if ikey x <? to then ([], CAt j)
      else let '(ys, c) := range_down r (pred j) to in (x :: ys, c)
  end.

Definition kv (x : item) : item := mkItem 0%N (ikey x) (ival x).

Definition do_range (s : omap) (from to : Z) : omap * result :=
  let l := items s in
  match l with
  | [] => (s, mkRes true ENone [])
  | _ =>
    let st := lb l from in
    let '(ys, c) := range_from (skipn st l) st to in
    (set_cur s c (match c with CNone => false | _ => true end), mkRes true ENone (map kv ys))
  end.

Definition do_range_desc (s : omap) (from to : Z) : omap * result :=
  let l := items s in
  match l with
  | [] => (s, mkRes true ENone [])
  | _ =>
    let e := ub l from in
    let '(ys, c) := range_down (rev (firstn e l)) (pred e) to in
    (set_cur s c (match c with CNone => false | _ => true end), mkRes true ENone (map kv ys))
  end.

Definition get_current (s : omap) (full : bool) : omap * result :=
  match cur_item s with
  | Some x => (set_cur s (cur s) true,
               mkRes true ENone [if full then x else mkItem 0%N 0 (ival x)])
  | None => (set_cur s (cur s) false, mkRes true ENone [zero_item])
  end.

Definition lift (p : omap * result) : option (omap * result) := Some p.

(* ------------------------------------------------------------------ one call *)
Definition ostep (u : bool) (s : omap) (o : op) (h : hints) : option (omap * result) :=
  match o with
  | OAdd k v =>
      match do_add u s k v (h_cur h) with Some (s', b) => Some (s', ok_res b) | None => None end
  | OAddIfNotExist k v =>
      match do_add true s k v (h_cur h) with Some (s', b) => Some (s', ok_res b) | None => None end
  | OUpsert k v =>
      if has_key (items s) k then
        (* AddIfNotExist fails and leaves the cursor on an item with the key; Update re-uses it *)
        match hint_on_key (items s) (h_cur h) k with
        | Some i => lift (update_current (set_cur s (CAt i) true) k (Some v))
        | None => None
        end
      else
        match do_add true s k v (h_cur h) with Some (s', b) => Some (s', ok_res b) | None => None end
  | OUpdate k v =>
      match find_any s k (h_cur h) with
      | Some (s', true) => lift (update_current s' k (Some v))
      | Some (s', false) => Some (s', ok_res false)
      | None => None
      end
  | OUpdateKey k =>
      match find_any s k (h_cur h) with
      | Some (s', true) => lift (update_current s' k None)
      | Some (s', false) => Some (s', ok_res false)
      | None => None
      end
  | OUpdateCurrentItem k v => lift (update_current s k (Some v))
  | OUpdateCurrentValue v => lift (update_current_value s v)
  | OUpdateCurrentKey k => lift (update_current s k None)
  | ORemove k =>
      (* a hit: the selected item is the one that disappears; a miss: the parking
         position comes from the cursor hint *)
      match find_any s k (if has_key (items s) k then HItem (h_rem h) else h_cur h) with
      | Some (s', true) => lift (remove_current s')
      | Some (s', false) => Some (s', ok_res false)
      | None => None
      end
  | ORemoveCurrent => lift (remove_current s)
  | OFirst =>
      match items s with
      | [] => Some (s, ok_res false)
      | _ => Some (set_cur s (CAt 0) true, ok_res true)
      end
  | OLast =>
      match items s with
      | [] => Some (s, ok_res false)
      | _ => Some (set_cur s (CAt (pred (length (items s)))) true, ok_res true)
      end
  | ONext => lift (move_next s)
  | OPrev => lift (move_prev s)
  | OFind k first =>
      match (if first then find_first s k (h_cur h) else find_any s k (h_cur h)) with
      | Some (s', b) => Some (s', ok_res b)
      | None => None
      end
  | OFindDesc k =>
      match find_desc s k (h_cur h) with
      | Some (s', b) => Some (s', ok_res b)
      | None => None
      end
  | OFindWithID k id =>
      match find_first s k (h_cur h) with
      | Some (s', true) =>
          match scan_id (items s) (lb (items s) k) id with
          | Some j => Some (set_cur s' (CAt j) true, ok_res true)
          | None => Some (set_cur s' CNone false, ok_res false)
          end
      | Some (s', false) => Some (s', ok_res false)
      | None => None
      end
  | OGetCurrentValue => lift (get_current s false)
  | OGetCurrentItem => lift (get_current s true)
  | ORange from to => lift (do_range s from to)
  | ORangeDesc from to => lift (do_range_desc s from to)
  end.

(* a run: None as soon as one hint is inadmissible *)
Fixpoint orun (u : bool) (s : omap) (ops : list (op * hints)) : option (omap * list result) :=
  match ops with
  | [] => Some (s, [])
  | (o, h) :: r =>
      match ostep u s o h with
      | Some (s', res) =>
          match orun u s' r with
          | Some (s'', rs) => Some (s'', res :: rs)
          | None => None
          end
      | None => None
      end
  end.

(* full scans through the public cursor operations (what a client does) *)
Fixpoint scan_next (s : omap) (fuel : nat) : list item :=
  match fuel with
  | O => []
  | S f =>
      let x := current_key s in
      let '(s', r) := move_next s in
      if rok r then x :: scan_next s' f else [x]
  end.

Definition scan_forward (u : bool) (s : omap) : list item :=
  match ostep u s OFirst (mkHints HNone 0%N) with
  | Some (s', r) => if rok r then scan_next s' (length (items s)) else []
  | None => []
  end.

Fixpoint scan_prev (s : omap) (fuel : nat) : list item :=
  match fuel with
  | O => []
  | S f =>
      let x := current_key s in
      let '(s', r) := move_prev s in
      if rok r then x :: scan_prev s' f else [x]
  end.

Definition scan_backward (u : bool) (s : omap) : list item :=
  match ostep u s OLast (mkHints HNone 0%N) with
  | Some (s', r) => if rok r then scan_prev s' (length (items s)) else []
  | None => []
  end.

Definition key_id (x : item) : item := mkItem (iid x) (ikey x) 0.

Fixpoint sortedb (l : list item) : bool :=
  match l with
  | [] => true
  | x :: r => match r with
              | [] => true
              | y :: _ => (ikey x <=? ikey y) && sortedb r
              end
  end.

(* C21 — model of the on-disk registry hash map.
   Transcribed from /repo/fs/hashmap.go (findOneFileRegion, fetch, findFileRegion, setupNewFile),
   /repo/fs/hashmap.fileregion.go (findAndAdd, updateFileRegion, markDeleteFileRegion),
   /repo/fs/registrymap.go (add, set, fetch, remove) and /repo/fs/registry.go (Add, Update,
   UpdateNoLocks, Remove, Get with a cold cache).
   A registry table is a list of segment files; a segment is hashMod blocks; a block is
   handlesPerBlock slots; a slot holds one 62-byte handle record, all-zero bytes = empty.
   Block reads return the slots last written (crash safety / corruption: C22, C23).
   DEFINITIONS ONLY (the lemmas are in HashmapProofs.v). *)
From Coq Require Import List ZArith NArith Bool.
From SopVerif Require Import Lib.Bytes Gen.Consts Gen.HandleCodec Gen.HashmapConsts Layout.
Import ListNotations.

Definition cell := handle.
Definition block := list cell.
Definition segment := list block.
Definition table := list segment.
(* segment index (file "<table>-<i+1>.reg"), block index, slot index *)
Definition pos := (nat * nat * nat)%type.

Definition zero_handle : handle := mkHandle nil_uuid nil_uuid nil_uuid false 0 0 false.

Fixpoint bytes_eqb (a b : list N) : bool :=
  match a, b with
  | [], [] => true
  | x :: a', y :: b' => N.eqb x y && bytes_eqb a' b'
  | _, _ => false
  end.
(* Go: lid == id on [16]byte arrays *)
Definition uuid_eqb (a b : uuid) : bool := bytes_eqb a b.

(* isZeroData(hbuf): the 62 record bytes are all zero. Stated on the fields (fast to evaluate);
   HashmapProofs.is_zero_bytes shows it is forallb (N.eqb 0) (encode c) for every well-formed handle. *)
Definition all_zero (l : list N) : bool := forallb (N.eqb 0) l.
Definition is_zero (c : cell) : bool :=
  all_zero (LogicalID c) && all_zero (PhysicalIDA c) && all_zero (PhysicalIDB c) && negb (IsActiveIDB c) &&
  Z.eqb (Version c) 0 && Z.eqb (WorkInProgressTimestamp c) 0 && negb (IsDeleted c).

(* sop.Handle.IsEmpty: every field zero EXCEPT IsActiveIDB, which the Go method does not test *)
Definition h_is_empty (h : handle) : bool :=
  uuid_eqb (LogicalID h) nil_uuid && negb (IsDeleted h) && uuid_eqb (PhysicalIDA h) nil_uuid &&
  uuid_eqb (PhysicalIDB h) nil_uuid && Z.eqb (Version h) 0 && Z.eqb (WorkInProgressTimestamp h) 0.

Definition nslots : nat := Z.to_nat handlesPerBlock.
(* findOneFileRegion: "if i > 1000 { return ... reached the maximum count of segment files }";
   the literal is read from the source on every run (tools/gen/hashmap.go -> Gen/HashmapConsts.v) *)
Definition maxSegments : nat := Z.to_nat maxSegmentFiles.

Definition empty_block : block := repeat zero_handle nslots.
Definition empty_segment (hm : Z) : segment := repeat empty_block (Z.to_nat hm).

Definition get_cell (t : table) (p : pos) : cell :=
  let '(i, b, j) := p in nth j (nth b (nth i t []) []) zero_handle.

Fixpoint upd_nth {A : Type} (n : nat) (f : A -> A) (l : list A) : list A :=
  match l, n with
  | [], _ => []
  | x :: r, O => f x :: r
  | x :: r, S n' => x :: upd_nth n' f r
  end.

(* updateFileBlockRegion: read the block, copy the 62 bytes into the slot, write the block *)
Definition write_cell (t : table) (p : pos) (c : cell) : table :=
  let '(i, b, j) := p in upd_nth i (upd_nth b (upd_nth j (fun _ => c))) t.

(* getBlockOffsetAndHandleInBlockOffset, as block index and slot index (Layout.id_offsets is in bytes) *)
Definition id_block (hm : Z) (id : uuid) : nat := Z.to_nat (fst (id_offsets hm id) / B_).
Definition id_slot (hm : Z) (id : uuid) : nat := Z.to_nat (snd (id_offsets hm id) / S_).

(* The order in which findOneFileRegion inspects the slots of one block:
   the ideal slot, then slots 0,1,...,65 skipping the ideal one. *)
Definition scan_order (s : nat) : list nat :=
  s :: filter (fun j => negb (Nat.eqb j s)) (seq 0 nslots).

(* One slot inspection, the same code for the ideal slot and inside the loop:
     if isZeroData(hbuf) { if forWriting { return it } } else if lid == id { return it } *)
Definition slot_hit (forWriting : bool) (id : uuid) (c : cell) : bool :=
  if is_zero c then forWriting else uuid_eqb (LogicalID c) id.

Definition find_in_block (hit : cell -> bool) (b : block) (s : nat) : option nat :=
  find (fun j => hit (nth j b zero_handle)) (scan_order s).

(* the outer loop over the existing segment files *)
Fixpoint find_seg (hit : cell -> bool) (bi s : nat) (t : table) (i : nat) : option pos :=
  match t with
  | [] => None
  | sg :: r =>
      match find_in_block hit (nth bi sg []) s with
      | Some j => Some (i, bi, j)
      | None => find_seg hit bi s r (S i)
      end
  end.

Definition find_pos (forWriting : bool) (hm : Z) (t : table) (id : uuid) : option pos :=
  find_seg (slot_hit forWriting id) (id_block hm id) (id_slot hm id) t 0.

(* findOneFileRegion(forWriting = true): a slot of an existing segment, or the ideal slot of a
   freshly created (zero-filled) segment file; None = "reached the maximum count of segment files" *)
Definition find_w (hm : Z) (t : table) (id : uuid) : option (table * pos) :=
  match find_pos true hm t id with
  | Some p => Some (t, p)
  | None =>
      if Nat.ltb (length t) maxSegments
      then Some (t ++ [empty_segment hm], (length t, id_block hm id, id_slot hm id))
      else None
  end.

(* fileRegionDetails.handle: stays the zero Handle when the slot holds zero bytes *)
Definition frd_handle (c : cell) : handle := if is_zero c then zero_handle else c.

Inductive err := EMaxSeg | EBusy | ENotFound | EDifferent.

(* findAndAdd: claim the slot when frd.handle.IsEmpty(); otherwise it retries until
   lockSectorRetryTimeoutDuration and fails with LockAcquisitionFailure *)
Definition find_and_add (hm : Z) (t : table) (h : handle) : table * option err :=
  match find_w hm t (LogicalID h) with
  | None => (t, Some EMaxSeg)
  | Some (t', p) =>
      if h_is_empty (frd_handle (get_cell t' p)) then (write_cell t' p h, None) else (t', Some EBusy)
  end.

(* registryMap.add: one findAndAdd per handle, stop at the first error *)
Fixpoint rm_add (hm : Z) (t : table) (hs : list handle) : table * option err :=
  match hs with
  | [] => (t, None)
  | h :: r =>
      match find_and_add hm t h with
      | (t', None) => rm_add hm t' r
      | (t', Some e) => (t', Some e)
      end
  end.

(* hashmap.findFileRegion: every id is resolved (for writing) BEFORE anything is written *)
Fixpoint find_file_region (hm : Z) (t : table) (ids : list uuid) : table * option (list (pos * handle)) :=
  match ids with
  | [] => (t, Some [])
  | id :: r =>
      match find_w hm t id with
      | None => (t, None)
      | Some (t', p) =>
          let frd := (p, frd_handle (get_cell t' p)) in
          let '(t'', fr) := find_file_region hm t' r in
          (t'', option_map (cons frd) fr)
      end
  end.

(* registryMap.set *)
Definition set_differs (x : (pos * handle) * handle) : bool :=
  let '((_, fh), h) := x in negb (h_is_empty fh) && negb (uuid_eqb (LogicalID fh) (LogicalID h)).

Definition rm_set (hm : Z) (t : table) (hs : list handle) : table * option err :=
  let '(t1, r) := find_file_region hm t (map LogicalID hs) in
  match r with
  | None => (t1, Some EMaxSeg)
  | Some frds =>
      if existsb set_differs (combine frds hs) then (t1, Some EDifferent)
      else (fold_left (fun t' (x : (pos * handle) * handle) => write_cell t' (fst (fst x)) (snd x)) (combine frds hs) t1, None)
  end.

(* registryMap.remove *)
Fixpoint remove_check (frds : list (pos * handle)) (ids : list uuid) : option err :=
  match frds, ids with
  | (_, fh) :: fr, id :: ir =>
      if h_is_empty fh then Some ENotFound
      else if negb (uuid_eqb (LogicalID fh) id) then Some EDifferent
      else remove_check fr ir
  | _, _ => None
  end.

Definition rm_remove (hm : Z) (t : table) (ids : list uuid) : table * option err :=
  let '(t1, r) := find_file_region hm t ids in
  match r with
  | None => (t1, Some EMaxSeg)
  | Some frds =>
      match remove_check frds ids with
      | Some e => (t1, Some e)
      | None => (fold_left (fun t' (x : pos * handle) => write_cell t' (fst x) zero_handle) frds t1, None)
      end
  end.

(* hashmap.fetch for one id (cold: nothing cached): findOneFileRegion(forWriting = false),
   "unable to find" and IsEmpty results are skipped *)
Definition lookup (hm : Z) (t : table) (id : uuid) : option handle :=
  match find_pos false hm t id with
  | None => None
  | Some p => let h := get_cell t p in if h_is_empty h then None else Some h
  end.

Definition rm_fetch (hm : Z) (t : table) (ids : list uuid) : list handle :=
  flat_map (fun id => match lookup hm t id with Some h => [h] | None => [] end) ids.

(* registryOnDisk.Update: one registryMap.set per handle (under a per-id lock), stop at the first error *)
Fixpoint reg_update (hm : Z) (t : table) (hs : list handle) : table * option err :=
  match hs with
  | [] => (t, None)
  | h :: r =>
      match rm_set hm t [h] with
      | (t', None) => reg_update hm t' r
      | (t', Some e) => (t', Some e)
      end
  end.

(* the Registry API on one registry table, lookups served from disk only *)
Inductive op :=
| Add (hs : list handle)
| Update (hs : list handle)
| UpdateNoLocks (hs : list handle)
| Remove (ids : list uuid)
| Get (ids : list uuid).

Inductive res :=
| RDone (e : option err)
| RGot (hs : list handle).

Definition step (hm : Z) (t : table) (o : op) : table * res :=
  match o with
  | Add hs => let '(t', e) := rm_add hm t hs in (t', RDone e)
  | Update hs => let '(t', e) := reg_update hm t hs in (t', RDone e)
  | UpdateNoLocks hs => let '(t', e) := rm_set hm t hs in (t', RDone e)
  | Remove ids => let '(t', e) := rm_remove hm t ids in (t', RDone e)
  | Get ids => (t, RGot (rm_fetch hm t ids))
  end.

Fixpoint run (hm : Z) (t : table) (ops : list op) : table * list res :=
  match ops with
  | [] => (t, [])
  | o :: r => let '(t', x) := step hm t o in let '(t'', xs) := run hm t' r in (t'', x :: xs)
  end.

(* ------------------------------------------------------------------ specification: a finite map *)

Definition amap := uuid -> option handle.
Definition aempty : amap := fun _ => None.
Definition aset (m : amap) (h : handle) : amap := fun id => if uuid_eqb id (LogicalID h) then Some h else m id.
Definition adel (m : amap) (k : uuid) : amap := fun id => if uuid_eqb id k then None else m id.
Definition is_some {A : Type} (o : option A) : bool := match o with Some _ => true | None => false end.

(* add refuses an id that is present (and keeps what was added before it) *)
Fixpoint spec_add (m : amap) (hs : list handle) : amap * option err :=
  match hs with
  | [] => (m, None)
  | h :: r => if is_some (m (LogicalID h)) then (m, Some EBusy) else spec_add (aset m h) r
  end.
Definition spec_set (m : amap) (hs : list handle) : amap * option err := (fold_left aset hs m, None).
(* remove of present ids succeeds; a batch naming an absent id fails and removes nothing *)
Definition spec_remove (m : amap) (ids : list uuid) : amap * option err :=
  if forallb (fun id => is_some (m id)) ids then (fold_left adel ids m, None) else (m, Some ENotFound).
Definition spec_get (m : amap) (ids : list uuid) : list handle :=
  flat_map (fun id => match m id with Some h => [h] | None => [] end) ids.

Definition spec_step (m : amap) (o : op) : amap * res :=
  match o with
  | Add hs => let '(m', e) := spec_add m hs in (m', RDone e)
  | Update hs => let '(m', e) := spec_set m hs in (m', RDone e)
  | UpdateNoLocks hs => let '(m', e) := spec_set m hs in (m', RDone e)
  | Remove ids => let '(m', e) := spec_remove m ids in (m', RDone e)
  | Get ids => (m, RGot (spec_get m ids))
  end.

Fixpoint spec_run (m : amap) (ops : list op) : amap * list res :=
  match ops with
  | [] => (m, [])
  | o :: r => let '(m', x) := spec_step m o in let '(m'', xs) := spec_run m' r in (m'', x :: xs)
  end.

(* ------------------------------------------------------------------ invariant *)

Definition wf_id (id : uuid) : Prop := length id = 16%nat /\ id <> nil_uuid.

Definition valid_pos (hm : Z) (t : table) (p : pos) : Prop :=
  let '(i, b, j) := p in (i < length t)%nat /\ (b < Z.to_nat hm)%nat /\ (j < nslots)%nat.

Definition shape (hm : Z) (t : table) : Prop :=
  Forall (fun sg => length sg = Z.to_nat hm /\ Forall (fun b : block => length b = nslots) sg) t.

(* slot p holds a record for id *)
Definition holds (t : table) (p : pos) (id : uuid) : Prop :=
  is_zero (get_cell t p) = false /\ LogicalID (get_cell t p) = id.

Definition Inv (hm : Z) (t : table) : Prop :=
  shape hm t /\
  (* no id in two slots *)
  (forall p q id, valid_pos hm t p -> valid_pos hm t q -> holds t p id -> holds t q id -> p = q) /\
  (* every record sits in the block its id hashes to (of some segment) and has a proper id *)
  (forall i b j, valid_pos hm t (i, b, j) -> is_zero (get_cell t (i, b, j)) = false ->
     b = id_block hm (LogicalID (get_cell t (i, b, j))) /\ wf_id (LogicalID (get_cell t (i, b, j)))).

(* ------------------------------------------------------------------ the hazardous pattern (S2) *)

Definition pos_eqb (p q : pos) : bool :=
  let '(a, b, c) := p in let '(a', b', c') := q in Nat.eqb a a' && Nat.eqb b b' && Nat.eqb c c'.

(* id is stored, but the slot a write would pick for it is a different one: an empty slot that
   comes earlier in id's scan order (it was vacated after id had been displaced past it) *)
Definition hazard (hm : Z) (t : table) (id : uuid) : bool :=
  match find_pos false hm t id with
  | None => false
  | Some p => match find_pos true hm t id with Some q => negb (pos_eqb p q) | None => true end
  end.

(* Histories outside the hazardous pattern. Checked along the model run:
   - no Add/Update/UpdateNoLocks/Remove names an id for which [hazard] holds at that moment;
   - UpdateNoLocks (which resolves all slots before writing any) is given present ids only, or one handle;
   - the 1000-segment limit is not reached. *)
Definition no_maxseg (e : option err) : bool := match e with Some EMaxSeg => false | _ => true end.

Fixpoint add_ok (hm : Z) (t : table) (hs : list handle) : bool :=
  match hs with
  | [] => true
  | h :: r => negb (hazard hm t (LogicalID h)) &&
      match find_and_add hm t h with
      | (t', None) => add_ok hm t' r
      | (_, e) => no_maxseg e
      end
  end.

Fixpoint update_ok (hm : Z) (t : table) (hs : list handle) : bool :=
  match hs with
  | [] => true
  | h :: r => negb (hazard hm t (LogicalID h)) &&
      match rm_set hm t [h] with
      | (t', None) => update_ok hm t' r
      | (_, e) => no_maxseg e
      end
  end.

Definition op_ok (hm : Z) (t : table) (o : op) : bool :=
  match o with
  | Add hs => add_ok hm t hs
  | Update hs => update_ok hm t hs
  | UpdateNoLocks hs =>
      forallb (fun h => negb (hazard hm t (LogicalID h))) hs &&
      (forallb (fun h => is_some (lookup hm t (LogicalID h))) hs || Nat.leb (length hs) 1) &&
      no_maxseg (snd (rm_set hm t hs))
  | Remove ids =>
      forallb (fun id => negb (hazard hm t id)) ids && no_maxseg (snd (rm_remove hm t ids))
  | Get _ => true
  end.

Fixpoint hazard_free (hm : Z) (t : table) (ops : list op) : bool :=
  match ops with
  | [] => true
  | o :: r => op_ok hm t o && hazard_free hm (fst (step hm t o)) r
  end.

Definition wf_h (h : handle) : Prop := wf_id (LogicalID h).
Definition wf_op (o : op) : Prop :=
  match o with
  | Add hs | Update hs | UpdateNoLocks hs => Forall wf_h hs
  | Remove ids | Get ids => Forall wf_id ids
  end.

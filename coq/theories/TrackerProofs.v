(* C19 proofs over Tracker.v.
   Part 1 (unbounded, all op sequences and batchings): for the three placements that are not
   "actively persisted" (in node / separate segment / separate + globally cached) the persisted
   content equals the ordered-map semantics, provided every commit reaches phase 1 with a
   non-empty tracker or an unchanged store ([tracked_or_unchanged], the guard of phase1Commit).
   Part 2: witnesses refuting the full statement (evaluated by vm_compute). *)
From Coq Require Import List ZArith NArith Bool Lia.
From SopVerif Require Import Tracker.
Import ListNotations.
Local Open Scope N_scope.

Definition sval (x : item) : val := match ival x with Some v => v | None => 0 end.
Definition mview (sl : list item) : list (key * val) := map (fun x => (ikey x, sval x)) sl.
Definition novnf (sl : list item) : Prop := Forall (fun x => ivnf x = false) sl.

Lemma mfind_mview : forall k sl, mfind k (mview sl) = option_map sval (sfind k sl).
Proof.
  unfold mview.
  intros k sl. induction sl as [|x r IH]; cbn; [reflexivity|].
  destruct (Z.eqb k (ikey x)); [reflexivity|exact IH].
Qed.

Lemma mview_sinsert : forall x sl, mview (sinsert x sl) = minsert (ikey x) (sval x) (mview sl).
Proof.
  unfold mview.
  intros x sl. induction sl as [|y r IH]; cbn; [reflexivity|].
  destruct (Z.ltb (ikey x) (ikey y)); cbn; [reflexivity|now rewrite IH].
Qed.

Lemma mview_sdel : forall k sl, mview (sdel k sl) = mdel k (mview sl).
Proof.
  unfold mview.
  intros k sl. induction sl as [|y r IH]; cbn; [reflexivity|].
  destruct (Z.eqb k (ikey y)); cbn; [reflexivity|now rewrite IH].
Qed.

Lemma mview_sset : forall x sl, mview (sset x sl) = mset (ikey x) (sval x) (mview sl).
Proof.
  unfold mview.
  intros x sl. induction sl as [|y r IH]; cbn; [reflexivity|].
  destruct (Z.eqb (ikey x) (ikey y)); cbn; [reflexivity|now rewrite IH].
Qed.

Lemma mdel_absent : forall k sl, sfind k sl = None -> mdel k (mview sl) = mview sl.
Proof.
  unfold mview. intros k sl. induction sl as [|y r IH]; cbn; [reflexivity|].
  destruct (Z.eqb k (ikey y)); [discriminate|]. intros H. now rewrite IH.
Qed.

Lemma mset_same : forall k v m, mfind k m = Some v -> mset k v m = m.
Proof.
  intros k v m. induction m as [|[k' v'] r IH]; cbn; [reflexivity|].
  destruct (Z.eqb k k') eqn:E.
  - intros H. inversion H. apply Z.eqb_eq in E. now subst.
  - intros H. now rewrite IH.
Qed.

Lemma sfind_key : forall k sl x, sfind k sl = Some x -> ikey x = k.
Proof.
  intros k sl. induction sl as [|y r IH]; cbn; [discriminate|].
  intros x. destruct (Z.eqb k (ikey y)) eqn:E.
  - intros H. inversion H. subst. apply Z.eqb_eq in E. now symmetry.
  - apply IH.
Qed.

Lemma sfind_in : forall k sl x, sfind k sl = Some x -> In x sl.
Proof.
  intros k sl. induction sl as [|y r IH]; cbn; [discriminate|].
  intros x. destruct (Z.eqb k (ikey y)).
  - intros H. inversion H. now left.
  - intros H. right. now apply IH.
Qed.

Lemma novnf_sinsert : forall x sl, ivnf x = false -> novnf sl -> novnf (sinsert x sl).
Proof.
  intros x sl Hx H. induction H as [|y r Hy Hr IH]; cbn.
  - constructor; [exact Hx|constructor].
  - destruct (Z.ltb (ikey x) (ikey y)); repeat (constructor; auto).
Qed.

Lemma novnf_sdel : forall k sl, novnf sl -> novnf (sdel k sl).
Proof.
  intros k sl H. induction H as [|y r Hy Hr IH]; cbn; [constructor|].
  destruct (Z.eqb k (ikey y)); [exact Hr|constructor; auto].
Qed.

Lemma novnf_sset : forall x sl, ivnf x = false -> novnf sl -> novnf (sset x sl).
Proof.
  intros x sl Hx H. induction H as [|y r Hy Hr IH]; cbn; [constructor|].
  destruct (Z.eqb (ikey x) (ikey y)); constructor; auto.
Qed.

(* without active persistence the tracker never touches what goes back into the slot, except the version *)
Lemma t_update_passive : forall o x t w t' w' x',
  activelyP o = false -> t_update o x t w = (t', w', x') ->
  w' = w /\ ikey x' = ikey x /\ ival x' = ival x /\ ivnf x' = ivnf x.
Proof.
  intros o x t w t' w' x' Ha. unfold t_update, actively_persist. rewrite Ha.
  destruct (aget (iid x) (items t)) as [c|].
  - destruct (cact c); intros H; inversion H; subst; cbn;
      try (destruct (Z.eqb (iver x) (cverdb c)); cbn); auto.
  - intros H; inversion H; subst; cbn; auto.
Qed.

Lemma t_get_novnf : forall o x t w r, ivnf x = false -> t_get o x t w = Some r -> snd r = x /\ snd (fst r) = w.
Proof.
  intros o x t w r Hx. unfold t_get. rewrite Hx, andb_false_r.
  destruct (aget (iid x) (items t)) as [c|].
  - destruct (cact c); cbn; destruct (ivnf (cit c)); cbn; intros H; inversion H; cbn; auto.
  - cbn. intros H; inversion H; cbn; auto.
Qed.

Lemma t_get_novnf_some : forall o x t w, ivnf x = false -> t_get o x t w <> None.
Proof.
  intros o x t w Hx. unfold t_get. rewrite Hx, andb_false_r.
  destruct (aget (iid x) (items t)) as [c|]; [destruct (cact c); cbn; destruct (ivnf (cit c))|]; cbn; discriminate.
Qed.

Lemma unfetch_passive : forall o m sl t w, activelyP o = false ->
  exists t', unfetch o m (sl, t, w) = (sl, t', w) /\ items t' = items t /\ forDel t' = forDel t.
Proof.
  intros o m sl t w Ha. unfold unfetch. destruct (tcur t) as [kc|]; [|eauto].
  destruct (match m with Some k => Z.eqb k kc | None => false end); [eauto|].
  rewrite Ha. cbn. eexists; split; [reflexivity|cbn; auto].
Qed.

Definition slots (s : session) : list item := fst (fst s).
Definition trk (s : session) : tracker := snd (fst s).

Lemma step_passive : forall o s p, activelyP o = false -> novnf (slots s) ->
  mview (slots (fst (step o s p))) = mstep (mview (slots s)) p /\ novnf (slots (fst (step o s p))).
Proof.
  intros o [[sl t] w] p Ha Hn. unfold slots in *. cbn [fst] in Hn.
  unfold step. destruct (unfetch_passive o (op_target p) sl t w Ha) as [t0 [-> _]].
  destruct p as [k v|k v|k rep|k|k]; cbn [mstep fst].
  - rewrite mfind_mview. destruct (sfind k sl) as [x|]; cbn [option_map fst]; [auto|].
    destruct (t_add o _ t0 (bump w)) as [t1 w1]. cbn [fst].
    rewrite mview_sinsert. cbn. split; [reflexivity|]. apply novnf_sinsert; auto.
  - rewrite mfind_mview. destruct (sfind k sl) as [x|] eqn:Hf; cbn [option_map fst]; [|auto].
    destruct (t_update o (set_val (Some v) x) t0 w) as [[t1 w1] x1] eqn:Hu. cbn [fst].
    destruct (t_update_passive _ _ _ _ _ _ _ Ha Hu) as [_ [Hk [Hv Hvn]]]. cbn in Hk, Hv, Hvn.
    rewrite mview_sset. unfold sval. rewrite Hv, Hk. rewrite (sfind_key _ _ _ Hf). split; [reflexivity|].
    apply novnf_sset; auto. rewrite Hvn. unfold novnf in Hn. rewrite Forall_forall in Hn. apply Hn. eapply sfind_in; eauto.
  - destruct (sfind k sl) as [x|] eqn:Hf; cbn [fst].
    + rewrite mview_sdel. split; [reflexivity|]. now apply novnf_sdel.
    + split; [|auto]. now rewrite mdel_absent.
  - destruct (sfind k sl) as [x|] eqn:Hf; cbn [fst]; [|auto].
    assert (Hx : ivnf x = false).
    { unfold novnf in Hn. rewrite Forall_forall in Hn. apply Hn. eapply sfind_in; eauto. }
    destruct (t_get o x t0 w) as [[[t1 w1] x1]|] eqn:Hg; cbn [fst]; [|auto].
    destruct (t_get_novnf _ _ _ _ _ Hx Hg) as [Hx1 _]. cbn in Hx1. subst x1.
    rewrite mview_sset. rewrite mset_same.
    + split; [reflexivity|]. apply novnf_sset; auto.
    + rewrite mfind_mview. rewrite (sfind_key _ _ _ Hf), Hf. reflexivity.
  - destruct (sfind k sl) as [x|] eqn:Hf; cbn [fst]; [|auto].
    assert (Hx : ivnf x = false).
    { unfold novnf in Hn. rewrite Forall_forall in Hn. apply Hn. eapply sfind_in; eauto. }
    destruct (t_update o x t0 w) as [[t1 w1] x1] eqn:Hu. cbn [fst].
    destruct (t_update_passive _ _ _ _ _ _ _ Ha Hu) as [_ [Hk [Hv Hvn]]].
    rewrite mview_sset. unfold sval at 1. rewrite Hv, Hk. fold (sval x). rewrite mset_same.
    + split; [reflexivity|]. apply novnf_sset; auto. now rewrite Hvn.
    + rewrite mfind_mview. rewrite (sfind_key _ _ _ Hf), Hf. reflexivity.
Qed.

Lemma steps_passive : forall o ps s, activelyP o = false -> novnf (slots s) ->
  mview (slots (fst (steps o s ps))) = mrun (mview (slots s)) ps /\ novnf (slots (fst (steps o s ps))).
Proof.
  intros o ps. induction ps as [|p r IH]; intros s Ha Hn; cbn; [auto|].
  destruct (step o s p) as [s1 a] eqn:Hs. destruct (steps o s1 r) as [s2 l] eqn:Hr. cbn [fst].
  pose proof (step_passive o s p Ha Hn) as [H1 H2]. rewrite Hs in H1, H2. cbn [fst] in H1, H2.
  pose proof (IH s1 Ha H2) as [H3 H4]. rewrite Hr in H3, H4. cbn [fst] in H3, H4.
  unfold mrun in *. rewrite H3, H1. auto.
Qed.

(* the guard of phase1Commit: "hasTrackedItems()", or nothing to persist *)
Definition tracked_or_unchanged (o : opts) (d : dstate) (ps : list op) : Prop :=
  let s := fst (steps o (begin d) ps) in items (trk s) <> [] \/ slots s = fst d.

Lemma commit_passive : forall o disk s, activelyP o = false ->
  (items (trk s) <> [] \/ slots s = disk) -> fst (commit o disk s) = slots s.
Proof.
  intros o disk [[sl t] w] Ha H. unfold commit, slots, trk in *. cbn [fst snd] in H.
  destruct (unfetch_passive o None sl t w Ha) as [t0 [-> [Hi _]]]. rewrite Hi.
  destruct (items t) as [|e r] eqn:Ht.
  - destruct H as [H|H]; [congruence|]. cbn. now symmetry.
  - destruct (get_for_rollback o t0) as [t1 ids]. destruct (commit_values o t1 w) as [t2 w2]. reflexivity.
Qed.

Theorem txn_passive : forall o d ps, activelyP o = false -> novnf (fst d) -> tracked_or_unchanged o d ps ->
  let d' := fst (fst (txn o d ps true)) in
  mview (fst d') = mrun (mview (fst d)) ps /\ novnf (fst d').
Proof.
  intros o d ps Ha Hn Ht. unfold txn. destruct (steps o (begin d) ps) as [s rs] eqn:Hs. cbn [fst].
  unfold tracked_or_unchanged in Ht. rewrite Hs in Ht. cbn [fst] in Ht.
  rewrite (commit_passive o (fst d) s Ha Ht).
  pose proof (steps_passive o ps (begin d) Ha Hn) as [H1 H2]. rewrite Hs in H1, H2. exact (conj H1 H2).
Qed.

Lemma rollback_disk : forall o disk s, fst (rollback o disk s) = disk.
Proof.
  intros o disk [[sl t] w]. unfold rollback. destruct (logged t); [|reflexivity].
  destruct (get_for_rollback o t). reflexivity.
Qed.

(* every committed transaction of the history satisfies the phase-1 guard *)
Fixpoint guarded (o : opts) (d : dstate) (h : list (list op * bool)) : Prop :=
  match h with
  | [] => True
  | (ps, cm) :: r => (cm = true -> tracked_or_unchanged o d ps) /\ guarded o (fst (fst (txn o d ps cm))) r
  end.

Definition committed_ops (h : list (list op * bool)) : list op :=
  flat_map (fun t : list op * bool => if snd t then fst t else []) h.

Theorem history_passive : forall o h d, activelyP o = false -> novnf (fst d) -> guarded o d h ->
  mview (fst (history o d h)) = mrun (mview (fst d)) (committed_ops h) /\ novnf (fst (history o d h)).
Proof.
  intros o h. induction h as [|[ps cm] r IH]; intros d Ha Hn Hg; cbn; [auto|].
  destruct Hg as [Hg1 Hg2]. destruct cm.
  - pose proof (txn_passive o d ps Ha Hn (Hg1 eq_refl)) as [H1 H2].
    destruct (IH _ Ha H2 Hg2) as [H3 H4]. split; [|exact H4].
    rewrite H3. cbn [snd fst]. unfold mrun in *. rewrite fold_left_app. now rewrite H1.
  - assert (Hd : fst (fst (fst (txn o d ps false))) = fst d).
    { unfold txn. destruct (steps o (begin d) ps) as [s rs]. cbn [fst]. apply rollback_disk. }
    assert (Hn' : novnf (fst (fst (fst (txn o d ps false))))) by (rewrite Hd; exact Hn).
    destruct (IH _ Ha Hn' Hg2) as [H3 H4]. split; [|exact H4].
    rewrite H3, Hd. reflexivity.
Qed.

(* what a fresh process reads, when no slot needs a fetch *)
Lemma view_novnf : forall d, novnf (fst d) -> view d = map (fun p => (fst p, Some (snd p))) (mview (fst d)).
Proof.
  intros [sl w] H. unfold view, mview. cbn [fst snd] in *. rewrite map_map.
  apply map_ext_in. intros x Hx. unfold novnf in H. rewrite Forall_forall in H.
  unfold fresh_read, sval. rewrite (H x Hx). destruct (ival x); reflexivity.
Qed.

(* the effective slot length is always even and within [2, 20000] (what the node split relies on) *)
Lemma slot_norm_even : forall n, Z.even (slot_norm n) = true /\ (2 <= slot_norm n <= 20000)%Z.
Proof.
  intros n. unfold slot_norm.
  set (a := if Z.leb n 0 then 2000%Z else n).
  assert (Ha : (0 < a)%Z) by (unfold a; destruct (Z.leb_spec n 0); lia).
  set (b := if Z.odd a then (a - 1)%Z else a).
  assert (Hb : Z.even b = true /\ (0 <= b)%Z).
  { unfold b. destruct (Z.odd a) eqn:E.
    - split; [|lia]. replace (a - 1)%Z with (Z.pred a) by lia. now rewrite Z.even_pred.
    - split; [|lia]. rewrite <- Z.negb_odd, E. reflexivity. }
  destruct Hb as [Hb1 Hb2].
  destruct (Z.ltb_spec b 2).
  - cbn. split; [reflexivity|lia].
  - destruct (Z.ltb_spec 20000 b); [split; [reflexivity|lia]|split; [exact Hb1|lia]].
Qed.

(* ------------------------------------------------------------------ refuting witnesses *)

Definition o_innode := mkOpts true false false.
Definition o_active := mkOpts false true false.

(* F1: the removed item 50 sits in an interior node, so the B-tree hands the tracker the item of key 51,
   which was added in the same transaction: its add entry is dropped, the tracker is empty, commit persists nothing *)
Definition h_lost : list (list op * bool) :=
  [([OAdd 50%Z 5; OAdd 60%Z 6], true); ([OAdd 51%Z 7; ORemove 50%Z 51%Z], true)].

Lemma lost_commit_witness :
  view (history o_innode d0 h_lost) = [(50%Z, Some 5); (60%Z, Some 6)] /\
  mrun [] (committed_ops h_lost) = [(51%Z, 7); (60%Z, 6)].
Proof. vm_compute. split; reflexivity. Qed.

(* F2: actively persisted store, value already out of node, a transaction that only removes *)
Definition h_remove_only : list (list op * bool) :=
  [([OAdd 1%Z 5; OAdd 2%Z 6], true); ([OUpdate 1%Z 7], true); ([ORemove 1%Z 1%Z], true)].

Lemma remove_only_witness :
  view (history o_active d0 h_remove_only) = [(1%Z, None); (2%Z, Some 6)] /\
  mrun [] (committed_ops h_remove_only) = [(2%Z, 6)].
Proof. vm_compute. split; reflexivity. Qed.

(* F3: actively persisted store: get + update of an out-of-node value overwrites the committed blob in
   place; the rollback then deletes it *)
Definition h_rollback : list (list op * bool) :=
  [([OAdd 1%Z 5; OAdd 2%Z 6], true); ([OUpdate 1%Z 7], true); ([OGet 1%Z; OUpdate 1%Z 8], false)].

Lemma rollback_witness :
  view (history o_active d0 h_rollback) = [(1%Z, None); (2%Z, Some 6)] /\
  mrun [] (committed_ops h_rollback) = [(1%Z, 7); (2%Z, 6)].
Proof. vm_compute. split; reflexivity. Qed.

(* the superseded blob of an actively persisted update is never handed to deletion: forDeletionItems is
   cleared by getForRollbackTrackedItemsValues on the commit path *)
Definition h_leak : list (list op * bool) :=
  [([OAdd 1%Z 5], true); ([OUpdate 1%Z 7], true); ([OUpdate 1%Z 8], true)].
Lemma leak_witness :
  let d := history o_active d0 h_leak in
  map iid (fst d) = [2] /\ map fst (blobs (snd d)) = [2; 1].
Proof. vm_compute. split; reflexivity. Qed.

(* F4: actively persisted store: a key-only update of an out-of-node value keeps the committed value id in its update
   entry; the rollback of a transaction that actively persisted something deletes every add/update entry's id *)
Definition h_rollback_keyonly : list (list op * bool) :=
  [([OAdd 1%Z 5; OAdd 2%Z 6], true); ([OUpdate 1%Z 7], true); ([OAdd 4%Z 9; OUpdKey 1%Z], false)].
Lemma rollback_keyonly_witness :
  view (history o_active d0 h_rollback_keyonly) = [(1%Z, None); (2%Z, Some 6)] /\
  mrun [] (committed_ops h_rollback_keyonly) = [(1%Z, 7); (2%Z, 6)].
Proof. vm_compute. split; reflexivity. Qed.

(* a committed key-only update of an out-of-node value keeps the value (the guard `Value != nil` in manage) *)
Definition h_keyonly_commit : list (list op * bool) :=
  [([OAdd 1%Z 5], true); ([OUpdate 1%Z 7], true); ([OUpdKey 1%Z], true); ([OGet 1%Z; OUpdKey 1%Z], true)].
Lemma keyonly_commit_ok : view (history o_active d0 h_keyonly_commit) = [(1%Z, Some 7)].
Proof. vm_compute. reflexivity. Qed.

(* ProtoUndo -- proofs about the commit-protocol model Proto.v, part 2: a commit that reports an error restores
   the durable state EXACTLY (not only the view of ProtoProofs.v), for every transaction, every well-formed
   pre-state and every fault position -- except at three call positions, which are classified and refuted.

   RESULTS
   * failed_commit_restores_exactly :
       wf t d -> run t d (Some n) = (o, d', tr) -> o = Failed -> leaky t d n = false -> disk_equiv d' d.
     failed_commit_restores_any: the same for an arbitrary fault argument (f : option nat).
     failed_commit_restores_strict: disk_equiv_strict (identical handles) when no updated node has wip = 1.
   * retry_after_failed_commit / retry_commits : from such a d' the fault-free run of the same transaction has the
     same outcome as from d and an equivalent final disk (full corollary, outcome and disk).
   * leak_A_blocks_retry, leak_A_details, unrestricted_statement_refuted, leak_B_orphan_registry_entry,
     leak_C_orphan_root_blob : witnesses (vm_compute) that the restriction leaky = false is needed.
   * wf_nonvacuous, leaky_positions : a concrete instance with roots, updated (one with a stale inactive id),
     removed, added nodes and count deltas; its leaky positions are exactly 6, 11, 12, 18 of 31 calls.
   * leak_E_removed_node_with_stale_inactive_id : a FOURTH defect of the same family, not in the list the file
     was asked to cover (see wf_rem and the comment at the example).

   disk_equiv: registry as EQUAL LOOKUP for every logical id (easier than "same set of handles": every call and
   every decision reads the registry through lookup, and reg_set/reg_del have direct lookup lemmas), taken
   MODULO expired inactive ids (handles compared after [norm]); same blob set; equal count_of; tlog, plog equal.
   Why modulo: see the comment at [norm].

   leaky t d n is computed from the run with the fault injected: the state in which phase 1 stops carries the
   failed call at the head of its trace and the step number in cs.  leaky_spec spells the definition out;
   leaky_trace is the same classification computed from the trace of run t d None (n-th call and the last step
   logged up to it); their agreement is checked on the concrete instance (leaky_positions), not proved in general.

   The hypothesis o = Failed is kept in the statements: o = Conflicted is NOT excluded by wf (a stale version in
   fetched/updated/removed, an existing root, an in-progress claim all give Conflicted), and the conflict path
   (rollback t false) is out of scope here.  Faults after the flip give o = Committed.

   HYPOTHESES (record wf), each needed:
   - NoDup of the registry's logical ids (reg_del removes one entry; lookup after a delete needs it);
   - tlog d = false, plog d = None (the rollback removes both files unconditionally);
   - roots/added are absent from the registry, roots disjoint from added/updated/removed ids; updated ids
     distinct and disjoint from removed ids; allocated physical ids nonzero (a zero id is not undone by
     rollbackUpdatedNodes: rb_updated_blobs skips it while BlobAdd wrote it);
   - an updated node is not marked deleted and its inactive slot is free (wip = 0, inactive = 0) or expired
     (wip = 1); a removed node is not marked deleted and has wip = 0 (finding E: with wip = 1 the undelete
     resets wip to 0 and turns a reclaimable stale id into a permanent one);
   - blob ids written are new, vals is contained in rb_vals; rb_stores negates deltas (per store sums);
   - tracked t = false -> nothing to write (otherwise phase 1 is skipped but the rollback at cs = 11 still
     applies rb_stores etc. to a disk on which nothing was done).

   DISCREPANCIES with the informal statement of the task, all faithful to the model (and to the Go code it
   transcribes): (1) exact restoration holds only modulo expired inactive ids; (2) finding E above;
   (3) p = 0 and tracked = false corner cases listed under wf.  The model itself was not changed.

   Proof structure: [desc g x] describes a disk x relative to d by the set g of forward steps whose effect it
   carries (lookup = expect g, blob set between blobs d and bexp g, counts, plog).  F1..F7 are the forward
   steps on disks, U1..U8 the undo steps; rbd is the rollback as a function on disks (rollback_dk), rbd_final
   composes the undo steps when the flags agree with committedState (progc); phase1_post threads desc through
   phase 1 at state level and yields, at the failing call, either "undoable" or the leak mark. *)
From Coq Require Import List ZArith NArith Bool Lia.
From Coq Require Import ZifyBool ZifyNat ZifyN.
From SopVerif Require Import Proto ProtoProofs.
Import ListNotations.
Local Open Scope N_scope.
Ltac Zify.zify_post_hook ::= Z.div_mod_to_equations.

(* ------------------------------------------------------------------ list-level facts *)

Definition memb (x : N) (l : list N) : bool := mem x l.

Lemma memb_true x l : memb x l = true <-> In x l.
Proof. apply mem_In. Qed.
Lemma memb_false x l : memb x l = false <-> ~ In x l.
Proof.
  split.
  - intros E Hin. apply memb_true in Hin. congruence.
  - intros Hn. destruct (memb x l) eqn:E; [apply memb_true in E; contradiction|reflexivity].
Qed.

(* registry: set *)
Lemma fold_set_spec hs : forall r l,
  (exists h, In h hs /\ lid h = l /\ lookup (fold_left reg_set hs r) l = Some h)
  \/ ((forall h, In h hs -> lid h <> l) /\ lookup (fold_left reg_set hs r) l = lookup r l).
Proof.
  induction hs as [|x hs IH]; cbn [fold_left]; intros r l.
  - right. split; [intros h []|reflexivity].
  - destruct (IH (reg_set r x) l) as [[h [Hin [Hl E]]]|[Hno E]].
    + left. exists h. split; [right; exact Hin|split; assumption].
    + rewrite lookup_reg_set in E. destruct (N.eqb_spec (lid x) l) as [Ex|Ex].
      * left. exists x. split; [left; reflexivity|split; assumption].
      * right. split; [|exact E]. intros h [Eh|Hin]; [subst h; exact Ex|apply Hno; exact Hin].
Qed.

Lemma fold_set_same hs : forall r, (forall h, In h hs -> lookup r (lid h) = Some h) ->
  forall l, lookup (fold_left reg_set hs r) l = lookup r l.
Proof.
  intros r Hs l. destruct (fold_set_spec hs r l) as [[h [Hin [Hl E]]]|[_ E]]; [|exact E].
  rewrite E. subst l. symmetry. apply Hs. exact Hin.
Qed.

Lemma lids_reg_set r x l : In l (map lid (reg_set r x)) -> l = lid x \/ In l (map lid r).
Proof.
  induction r as [|y r IH]; cbn [reg_set map]; intros H.
  - destruct H as [H|[]]. left. congruence.
  - destruct (N.eqb_spec (lid y) (lid x)) as [E|E]; cbn [map] in H.
    + destruct H as [H|H]; [left; congruence|right; right; exact H].
    + destruct H as [H|H]; [right; left; exact H|]. destruct (IH H) as [H'|H']; [left; exact H'|right; right; exact H'].
Qed.

Lemma nodup_reg_set r x : NoDup (map lid r) -> NoDup (map lid (reg_set r x)).
Proof.
  induction r as [|y r IH]; cbn [reg_set map]; intros Hnd.
  - constructor; [intros []|constructor].
  - inversion Hnd as [|? ? Hni Hnd']; subst.
    destruct (N.eqb_spec (lid y) (lid x)) as [E|E]; cbn [map].
    + constructor; [rewrite <- E; exact Hni|exact Hnd'].
    + constructor; [|apply IH; exact Hnd'].
      intros Hin. destruct (lids_reg_set _ _ _ Hin) as [H|H]; [contradiction|contradiction].
Qed.

Lemma nodup_fold_set hs : forall r, NoDup (map lid r) -> NoDup (map lid (fold_left reg_set hs r)).
Proof.
  induction hs as [|x hs IH]; cbn [fold_left]; intros r H; [exact H|]. apply IH. apply nodup_reg_set. exact H.
Qed.

(* registry: delete *)
Lemma lids_reg_del r i l : In l (map lid (reg_del r i)) -> In l (map lid r).
Proof.
  induction r as [|y r IH]; cbn [reg_del map]; intros H; [exact H|].
  destruct (lid y =? i); [right; exact H|]. cbn [map] in H. destruct H as [H|H]; [left; exact H|right; exact (IH H)].
Qed.

Lemma nodup_reg_del r i : NoDup (map lid r) -> NoDup (map lid (reg_del r i)).
Proof.
  induction r as [|y r IH]; cbn [reg_del map]; intros Hnd; [constructor|].
  inversion Hnd as [|? ? Hni Hnd']; subst. destruct (lid y =? i); [exact Hnd'|]. cbn [map].
  constructor; [|apply IH; exact Hnd']. intros Hin. apply Hni. eapply lids_reg_del; exact Hin.
Qed.

Lemma nodup_fold_del ids : forall r, NoDup (map lid r) -> NoDup (map lid (fold_left reg_del ids r)).
Proof.
  induction ids as [|x ids IH]; cbn [fold_left]; intros r H; [exact H|]. apply IH. apply nodup_reg_del. exact H.
Qed.

Lemma lookup_none_lids r l : lookup r l = None <-> ~ In l (map lid r).
Proof.
  induction r as [|y r IH]; cbn [lookup map].
  - split; [intros _ []|reflexivity].
  - destruct (N.eqb_spec (lid y) l) as [E|E].
    + split; [discriminate|]. intros H. exfalso. apply H. left. exact E.
    + rewrite IH. split; [intros H [H'|H']; [contradiction|exact (H H')]|intros H H'; apply H; right; exact H'].
Qed.

Lemma lookup_reg_del_same r l : NoDup (map lid r) -> lookup (reg_del r l) l = None.
Proof.
  induction r as [|y r IH]; cbn [reg_del map]; intros Hnd; [reflexivity|].
  inversion Hnd as [|? ? Hni Hnd']; subst.
  destruct (N.eqb_spec (lid y) l) as [E|E].
  - apply lookup_none_lids. rewrite <- E. exact Hni.
  - cbn [lookup]. destruct (N.eqb_spec (lid y) l); [contradiction|]. apply IH. exact Hnd'.
Qed.

Lemma lookup_reg_del_none r i l : lookup r l = None -> lookup (reg_del r i) l = None.
Proof.
  intros H. apply lookup_none_lids. intros Hin. apply lookup_none_lids in H. apply H. eapply lids_reg_del; exact Hin.
Qed.

Lemma lookup_fold_del_in ids : forall r l, NoDup (map lid r) -> In l ids -> lookup (fold_left reg_del ids r) l = None.
Proof.
  induction ids as [|i ids IH]; cbn [fold_left]; intros r l Hnd Hin; [contradiction|].
  destruct (in_dec N.eq_dec l ids) as [Hl|Hl].
  - apply IH; [apply nodup_reg_del; exact Hnd|exact Hl].
  - destruct Hin as [E|Hin]; [subst i|contradiction].
    rewrite lookup_fold_del by exact Hl. apply lookup_reg_del_same. exact Hnd.
Qed.

(* registry: get *)
Lemma reg_get_lookup r ids h : In h (reg_get r ids) -> exists l, In l ids /\ lookup r l = Some h /\ lid h = l.
Proof.
  unfold reg_get. intros H. apply in_flat_map in H. destruct H as [l [Hl H]].
  destruct (lookup r l) as [h'|] eqn:E; [|contradiction]. destruct H as [H|[]]. subst h'.
  exists l. split; [exact Hl|split; [exact E|]]. apply lookup_In in E. tauto.
Qed.

Lemma In_reg_get r ids l h : In l ids -> lookup r l = Some h -> In h (reg_get r ids).
Proof.
  intros Hl E. unfold reg_get. apply in_flat_map. exists l. split; [exact Hl|]. rewrite E. left. reflexivity.
Qed.

Lemma reg_get_ext r r' ids : (forall l, lookup r l = lookup r' l) -> reg_get r ids = reg_get r' ids.
Proof.
  intros H. unfold reg_get. induction ids as [|i ids IH]; cbn [flat_map]; [reflexivity|]. rewrite H, IH. reflexivity.
Qed.

(* blobs *)
Lemma blob_add_iff ids : forall b x, In x (blob_add b ids) <-> In x b \/ In x ids.
Proof.
  unfold blob_add. induction ids as [|i ids IH]; cbn [fold_left]; intros b x.
  - split; [intros H; left; exact H|intros [H|[]]; exact H].
  - rewrite IH. destruct (mem i b) eqn:E.
    + apply mem_In in E. split.
      * intros [H|H]; [left; exact H|right; right; exact H].
      * intros [H|[H|H]]; [left; exact H|subst i; left; exact E|right; exact H].
    + rewrite in_app_iff. cbn [In]. tauto.
Qed.

Lemma blob_del_iff b ids x : In x (blob_del b ids) <-> In x b /\ ~ In x ids.
Proof.
  unfold blob_del. rewrite filter_In. split; intros [H1 H2]; (split; [exact H1|]).
  - intros Hin. apply mem_In in Hin. rewrite Hin in H2. discriminate.
  - destruct (mem x ids) eqn:E; [apply mem_In in E; contradiction|reflexivity].
Qed.

(* counts *)
Definition cnt (c : list (N * Z)) (s : N) : Z :=
  match find (fun p => fst p =? s) c with Some p => snd p | None => 0%Z end.
Definition dsum (ds : list (N * Z)) (s : N) : Z :=
  fold_right (fun p acc => if fst p =? s then (snd p + acc)%Z else acc) 0%Z ds.

Lemma count_of_cnt x s : count_of x s = cnt (counts x) s.
Proof. reflexivity. Qed.

Lemma cnt_count_add c s dz s' : cnt (count_add c s dz) s' = (cnt c s' + (if (s =? s')%N then dz else 0))%Z.
Proof.
  unfold cnt. induction c as [|[s1 z] c IH]; cbn [count_add find fst snd].
  - destruct (s =? s'); cbn [snd]; lia.
  - destruct (N.eqb_spec s1 s) as [E|E]; cbn [find fst snd].
    + subst s1. destruct (s =? s'); cbn [snd]; lia.
    + destruct (N.eqb_spec s1 s') as [E2|E2]; cbn [snd].
      * destruct (N.eqb_spec s s') as [E3|E3]; [congruence|lia].
      * exact IH.
Qed.

Lemma cnt_fold ds : forall c s, cnt (fold_left (fun c p => count_add c (fst p) (snd p)) ds c) s = (cnt c s + dsum ds s)%Z.
Proof.
  induction ds as [|[s1 z] ds IH]; cbn [fold_left dsum fold_right fst snd]; intros c s; [lia|].
  rewrite IH, cnt_count_add. fold (dsum ds s). destruct (s1 =? s); lia.
Qed.

(* ------------------------------------------------------------------ handle-level facts *)

Definition rb1 (h : handle) : handle := if inactive h =? 0 then set_del h (del h) 0 else clear_inactive h.

Lemma rb_updated_handles_map hs : rb_updated_handles hs = map rb1 hs.
Proof. reflexivity. Qed.

Lemma set_inactive_lid h p w : lid (set_inactive h p w) = lid h.
Proof. unfold set_inactive. destruct (activeB h); reflexivity. Qed.

Lemma set_inactive_twice h p w : set_inactive (clear_inactive h) p w = set_inactive h p w.
Proof. unfold clear_inactive, set_inactive. destruct h as [l a b ab v w0 dl]. cbn. destruct ab; cbn; reflexivity. Qed.

(* on a handle that is not marked deleted a successful claim just fills the inactive slot *)
Lemma claim_wf h v p h' : del h = false -> claim h v p = Some h' -> h' = set_inactive h p 2.
Proof.
  intros Hd. unfold claim. rewrite Hd. cbn [andb orb].
  destruct (negb (Z.eqb (ver h) v)); [discriminate|].
  unfold allocate at 1. destruct (both_in_use h).
  - destruct (expired h); [|discriminate]. unfold allocate. destruct (both_in_use (clear_inactive h)); [discriminate|].
    intros E. inversion E. apply set_inactive_twice.
  - intros E. inversion E. reflexivity.
Qed.

Lemma claim_lid h v p h' : claim h v p = Some h' -> lid h' = lid h.
Proof.
  unfold claim. destruct ((del h && negb (expired h)) || negb (Z.eqb (ver h) v)); [discriminate|].
  set (h1 := if del h && expired h then set_del h false (wip h) else h).
  assert (E1 : lid h1 = lid h) by (unfold h1; destruct (del h && expired h); reflexivity).
  unfold allocate. destruct (both_in_use h1).
  - destruct (expired h1); [|discriminate]. destruct (both_in_use (clear_inactive h1)); [discriminate|].
    intros E. inversion E. rewrite set_inactive_lid. unfold clear_inactive. rewrite set_inactive_lid. exact E1.
  - intros E. inversion E. rewrite set_inactive_lid. exact E1.
Qed.

Lemma rb1_claimed h p : rb1 (set_inactive h p 2) = set_inactive h 0 0.
Proof.
  unfold rb1. destruct (set_inactive_props h p 2) as [_ [_ [Ei _]]]. rewrite Ei.
  destruct (N.eqb_spec p 0) as [E|E].
  - subst p. destruct h as [l a b ab v w dl]. unfold set_inactive, set_del. cbn. destruct ab; reflexivity.
  - destruct h as [l a b ab v w dl]. unfold clear_inactive, set_inactive. cbn. destruct ab; reflexivity.
Qed.

Lemma rb1_fresh h : inactive h = 0 -> wip h = 0 -> rb1 h = h.
Proof.
  intros Ei Ew. unfold rb1. rewrite Ei. cbn. destruct h as [l a b ab v w dl]. cbn in *. subst w. reflexivity.
Qed.

Lemma undelete_marked h : del h = false -> wip h = 0 -> set_del (set_del h true 2) false 0 = h.
Proof. intros Hd Hw. destruct h as [l a b ab v w dl]. cbn in *. subst. reflexivity. Qed.

(* ------------------------------------------------------------------ the equivalences

   CHOICE (stale inactive ids).  After a SUCCESSFUL commit an updated node's handle keeps the id of its old
   blob in the inactive slot with wip = 1 ("expired": cleanup deletes the blob but never clears the slot).
   So "inactive = 0" is not the normal pre-state of a node that was ever updated.  When such a node is
   updated again and the commit fails, rollbackUpdatedNodes (clear_inactive) leaves inactive = 0, wip = 0:
   the handle differs from the one in d, but only by a slot that every claimer is entitled to overwrite.
   We therefore take the registry equivalence MODULO expired inactive ids: handles are compared after
   [norm], which clears the inactive slot of a handle that is expired (wip = 1) and not marked deleted.
   [disk_equiv_strict] (equal lookups) is proved in addition for transactions whose updated nodes have wip = 0.

   FORMULATION.  Registry: equal [lookup] for every logical id (after norm), not "same set of handles":
   lookup is what every interface call and every decision of the protocol reads, and reg_set / reg_del
   have direct lookup lemmas.  Blobs: same set.  Counts: equal count_of for every store.  tlog, plog: equal. *)

Definition norm (h : handle) : handle := if (wip h =? 1) && negb (del h) then clear_inactive h else h.

Definition disk_equiv (a b : disk) : Prop :=
  (forall l, option_map norm (lookup (reg a) l) = option_map norm (lookup (reg b) l))
  /\ (forall i, In i (blobs a) <-> In i (blobs b))
  /\ (forall s, count_of a s = count_of b s)
  /\ tlog a = tlog b /\ plog a = plog b.

Definition disk_equiv_strict (a b : disk) : Prop :=
  (forall l, lookup (reg a) l = lookup (reg b) l)
  /\ (forall i, In i (blobs a) <-> In i (blobs b))
  /\ (forall s, count_of a s = count_of b s)
  /\ tlog a = tlog b /\ plog a = plog b.

Lemma strict_equiv a b : disk_equiv_strict a b -> disk_equiv a b.
Proof. intros [H1 H2]. split; [intros l; rewrite H1; reflexivity|exact H2]. Qed.

Lemma norm_cleared h : del h = false -> (wip h = 1 \/ (wip h = 0 /\ inactive h = 0)) ->
  norm (set_inactive h 0 0) = norm h.
Proof.
  intros Hd Hw. destruct h as [l a b ab v w dl]. cbn in Hd. subst dl.
  unfold norm, clear_inactive, set_inactive, inactive in *. cbn in *.
  destruct Hw as [Hw|[Hw Hi]]; subst w; destruct ab; cbn in *; subst; reflexivity.
Qed.

Lemma cleared_strict h : wip h = 0 -> inactive h = 0 -> set_inactive h 0 0 = h.
Proof.
  intros Hw Hi. destruct h as [l a b ab v w dl]. unfold set_inactive, inactive in *. cbn in *.
  destruct ab; cbn in *; subst; reflexivity.
Qed.

(* ------------------------------------------------------------------ well-formedness of (transaction, pre-state) *)

Definition ulids (t : txn) : list N := map (fun x => fst (fst x)) (updated t).
Definition rlids (t : txn) : list N := map fst (removed t).
Definition pids (t : txn) : list N := map snd (updated t).

Record wf (t : txn) (d : disk) : Prop := mkWF {
  wf_nd : NoDup (map lid (reg d));                       (* one handle per logical id *)
  wf_tlog : tlog d = false;                              (* no log files of this transaction yet *)
  wf_plog : plog d = None;
  wf_roots : forall l, In l (roots t) -> lookup (reg d) l = None;     (* new nodes are new *)
  wf_added : forall l, In l (added t) -> lookup (reg d) l = None;
  wf_ra : forall l, In l (roots t) -> ~ In l (added t);
  wf_ru : forall l, In l (roots t) -> ~ In l (ulids t);
  wf_rr : forall l, In l (roots t) -> ~ In l (rlids t);
  wf_ur : forall l, In l (ulids t) -> ~ In l (rlids t);
  wf_unodup : NoDup (ulids t);
  wf_pnz : forall x, In x (updated t) -> snd x <> 0;
  (* an updated node is not marked deleted and its inactive slot is free or expired *)
  wf_upd : forall l h0, In l (ulids t) -> lookup (reg d) l = Some h0 ->
             del h0 = false /\ (wip h0 = 1 \/ (wip h0 = 0 /\ inactive h0 = 0));
  (* a removed node is not marked deleted and carries no work-in-progress stamp (see finding E below) *)
  wf_rem : forall l h0, In l (rlids t) -> lookup (reg d) l = Some h0 -> del h0 = false /\ wip h0 = 0;
  (* blob ids written by the transaction are new; every value blob written is in the rollback list *)
  wf_b_vals : forall i, In i (vals t) -> In i (rb_vals t);
  wf_b_rbvals : forall i, In i (rb_vals t) -> ~ In i (blobs d);
  wf_b_roots : forall i, In i (roots t) -> ~ In i (blobs d);
  wf_b_pids : forall i, In i (pids t) -> ~ In i (blobs d);
  wf_b_added : forall i, In i (added t) -> ~ In i (blobs d);
  (* getRollbackStoresInfo negates the count deltas *)
  wf_counts : forall s, (dsum (deltas t) s + dsum (rb_stores t) s = 0)%Z;
  (* a transaction without tracked items (phase 1 is skipped) has nothing to write *)
  wf_untracked : tracked t = false ->
    vals t = [] /\ roots t = [] /\ updated t = [] /\ removed t = [] /\ added t = [] /\ deltas t = []
}.

Lemma pid_find (u : list (N * Z * N)) : NoDup (map (fun x => fst (fst x)) u) ->
  forall l v p, In (l, v, p) u -> find (fun x => fst (fst x) =? l) u = Some (l, v, p).
Proof.
  induction u as [|x u IH]; cbn [map find]; intros Hnd l v p Hin; [contradiction|].
  inversion Hnd as [|? ? Hni Hnd']; subst. destruct Hin as [E|Hin].
  - subst x. cbn [fst]. rewrite N.eqb_refl. reflexivity.
  - destruct (N.eqb_spec (fst (fst x)) l) as [E|E].
    + exfalso. apply Hni. rewrite E. apply in_map_iff. exists (l, v, p). split; [reflexivity|exact Hin].
    + apply IH; assumption.
Qed.

Lemma nonempty_false {A} (l : list A) : nonempty l = false -> l = [].
Proof. destruct l; [reflexivity|discriminate]. Qed.

Lemma claims_spec r u : forall hs, claims r u = Some hs ->
  (forall h, In h hs -> exists l v p h0, In (l, v, p) u /\ lookup r l = Some h0 /\ claim h0 v p = Some h)
  /\ (forall l v p, In (l, v, p) u -> exists h0 h, lookup r l = Some h0 /\ In h hs /\ claim h0 v p = Some h).
Proof.
  induction u as [|[[l v] p] u IH]; cbn [claims]; intros hs E.
  - inversion E. split; [intros h []|intros l v p []].
  - destruct (lookup r l) as [h0|] eqn:El; [|discriminate].
    destruct (claim h0 v p) as [h'|] eqn:Ec; [|discriminate].
    destruct (claims r u) as [hs'|] eqn:Ecs; [|discriminate]. inversion E; subst hs.
    destruct (IH hs' eq_refl) as [IH1 IH2]. split.
    + intros h [Eh|Hin].
      * subst h'. exists l, v, p, h0. split; [left; reflexivity|split; assumption].
      * destruct (IH1 h Hin) as [l1 [v1 [p1 [h1 [Hu Hr]]]]]. exists l1, v1, p1, h1. split; [right; exact Hu|exact Hr].
    + intros l1 v1 p1 [Eu|Hin].
      * inversion Eu; subst l1 v1 p1. exists h0, h'. split; [exact El|split; [left; reflexivity|exact Ec]].
      * destruct (IH2 _ _ _ Hin) as [h1 [h2 [H1 [H2 H3]]]]. exists h1, h2. split; [exact H1|split; [right; exact H2|exact H3]].
Qed.

Lemma marks_spec r u : forall hs, marks r u = Some hs ->
  (forall h, In h hs -> exists l v h0, In (l, v) u /\ lookup r l = Some h0 /\ h = set_del h0 true 2)
  /\ (forall l v h0, In (l, v) u -> lookup r l = Some h0 -> In (set_del h0 true 2) hs).
Proof.
  induction u as [|[l v] u IH]; cbn [marks]; intros hs E.
  - inversion E. split; [intros h []|intros l v h0 []].
  - destruct (lookup r l) as [h0|] eqn:El.
    + destruct (del h0 || negb (Z.eqb (ver h0) v)); [discriminate|].
      destruct (marks r u) as [hs'|] eqn:Em; [|discriminate]. inversion E; subst hs.
      destruct (IH hs' eq_refl) as [IH1 IH2]. split.
      * intros h [Eh|Hin].
        -- exists l, v, h0. split; [left; reflexivity|split; [exact El|symmetry; exact Eh]].
        -- destruct (IH1 h Hin) as [l1 [v1 [h1 [Hu Hr]]]]. exists l1, v1, h1. split; [right; exact Hu|exact Hr].
      * intros l1 v1 h1 [Eu|Hin] Hl.
        -- inversion Eu; subst l1 v1. rewrite El in Hl. inversion Hl. left. reflexivity.
        -- right. eapply IH2; eassumption.
    + destruct (IH hs E) as [IH1 IH2]. split.
      * intros h Hin. destruct (IH1 h Hin) as [l1 [v1 [h1 [Hu Hr]]]]. exists l1, v1, h1. split; [right; exact Hu|exact Hr].
      * intros l1 v1 h1 [Eu|Hin] Hl.
        -- inversion Eu; subst l1 v1. rewrite El in Hl. discriminate.
        -- eapply IH2; eassumption.
Qed.

(* effect of a call performed best-effort *)
Definition ap (x : disk) (c : call) : disk := match apply_call x c with Some y => y | None => x end.

(* ------------------------------------------------------------------ progress descriptions *)

(* which forward steps have left their effect on the disk:
   gv value blobs, gr roots, gu updated (claims + staged blobs), gm removed (marks), ga added,
   gc store counts, gp priority log; gk: the updated nodes' claims have been cleared by the rollback *)
Record prog := mkP { gv : bool; gr : bool; gu : bool; gm : bool; ga : bool; gc : bool; gp : bool; gk : bool }.

Section Undo.
Variable t : txn.
Variable d : disk.
Hypothesis Hwf : wf t d.

Definition pid_of (l : N) : N :=
  match find (fun x => fst (fst x) =? l) (updated t) with Some x => snd x | None => 0 end.

Lemma pid_of_in l v p : In (l, v, p) (updated t) -> pid_of l = p.
Proof. intros H. unfold pid_of. rewrite (pid_find _ (wf_unodup _ _ Hwf) _ _ _ H). reflexivity. Qed.

Lemma ulids_in l : In l (ulids t) -> exists v p, In (l, v, p) (updated t).
Proof.
  unfold ulids. intros H. apply in_map_iff in H. destruct H as [[[l1 v] p] [E H]]. cbn in E. subst l1. exists v, p. exact H.
Qed.
Lemma in_ulids l v p : In (l, v, p) (updated t) -> In l (ulids t).
Proof. intros H. unfold ulids. apply in_map_iff. exists (l, v, p). split; [reflexivity|exact H]. Qed.
Lemma in_pids l v p : In (l, v, p) (updated t) -> In p (pids t).
Proof. intros H. unfold pids. apply in_map_iff. exists (l, v, p). split; [reflexivity|exact H]. Qed.
Lemma in_rlids l v : In (l, v) (removed t) -> In l (rlids t).
Proof. intros H. unfold rlids. apply in_map_iff. exists (l, v). split; [reflexivity|exact H]. Qed.

(* the handle expected under logical id l *)
Definition expectf (k u m r a : bool) (l : N) : option handle :=
  match lookup (reg d) l with
  | Some h0 => Some (if k && memb l (ulids t) then set_inactive h0 0 0
                     else if u && memb l (ulids t) then set_inactive h0 (pid_of l) 2
                     else if m && memb l (rlids t) then set_del h0 true 2 else h0)
  | None => if r && memb l (roots t) then Some (new_handle l)
            else if a && memb l (added t) then Some (added_handle l) else None
  end.
Definition expect (g : prog) : N -> option handle := expectf (gk g) (gu g) (gm g) (gr g) (ga g).

Definition bexp (g : prog) (i : N) : Prop :=
  In i (blobs d) \/ (gv g = true /\ In i (vals t)) \/ (gr g = true /\ In i (roots t))
  \/ (gu g = true /\ In i (pids t)) \/ (ga g = true /\ In i (added t)).

Definition plog_ok (x : disk) : Prop :=
  forall hs, plog x = Some hs -> forall h, In h hs -> lookup (reg x) (lid h) = Some h.

Record desc (g : prog) (x : disk) : Prop := mkDesc {
  d_reg : forall l, lookup (reg x) l = expect g l;
  d_nd : NoDup (map lid (reg x));
  d_blo : forall i, In i (blobs d) -> In i (blobs x);
  d_bup : forall i, In i (blobs x) -> bexp g i;
  d_cnt : forall s, cnt (counts x) s = (cnt (counts d) s + (if gc g then dsum (deltas t) s else 0))%Z;
  d_plog : gp g = false -> plog x = None;
  d_plogok : plog_ok x;
  d_upres : gu g = true -> forall l, In l (ulids t) -> lookup (reg d) l <> None
}.

Lemma desc_change g g' x : desc g x ->
  (forall l, expect g' l = expect g l) -> (forall i, bexp g i -> bexp g' i) ->
  (forall s, (if gc g' then dsum (deltas t) s else 0%Z) = (if gc g then dsum (deltas t) s else 0%Z)) ->
  (gp g' = false -> gp g = false) -> (gu g' = true -> gu g = true \/ updated t = []) -> desc g' x.
Proof.
  intros [Hreg Hnd Hblo Hbup Hcnt Hpl Hpok Hup] He Hb Hc Hp Hu. constructor.
  - intros l. rewrite He. apply Hreg.
  - exact Hnd.
  - exact Hblo.
  - intros i Hi. apply Hb. apply Hbup. exact Hi.
  - intros s. rewrite Hc. apply Hcnt.
  - intros E. apply Hpl. apply Hp. exact E.
  - exact Hpok.
  - intros E l Hl. destruct (Hu E) as [E'|E']; [exact (Hup E' l Hl)|]. unfold ulids in Hl. rewrite E' in Hl. destruct Hl.
Qed.

Lemma reg_upd g g' r hs : (forall l, lookup r l = expect g l) ->
  (forall h, In h hs -> expect g' (lid h) = Some h) ->
  (forall l, (forall h, In h hs -> lid h <> l) -> expect g' l = expect g l) ->
  forall l, lookup (fold_left reg_set hs r) l = expect g' l.
Proof.
  intros Hr H1 H2 l. destruct (fold_set_spec hs r l) as [[h [Hin [Hl E]]]|[Hno E]]; rewrite E.
  - subst l. symmetry. apply H1. exact Hin.
  - rewrite Hr. symmetry. apply H2. exact Hno.
Qed.

Lemma reg_del_ g g' r ids : NoDup (map lid r) -> (forall l, lookup r l = expect g l) ->
  (forall l, In l ids -> expect g' l = None) ->
  (forall l, ~ In l ids -> expect g' l = expect g l) ->
  forall l, lookup (fold_left reg_del ids r) l = expect g' l.
Proof.
  intros Hnd Hr H1 H2 l. destruct (in_dec N.eq_dec l ids) as [Hl|Hl].
  - rewrite lookup_fold_del_in by assumption. symmetry. apply H1. exact Hl.
  - rewrite lookup_fold_del by exact Hl. rewrite Hr. symmetry. apply H2. exact Hl.
Qed.

Lemma plog_ok_none r b c tl : plog_ok (mkD r b c tl None).
Proof. intros hs E. discriminate. Qed.

(* ------------------------------------------------------------------ forward steps, at the level of disks *)

Definition P0 := mkP false false false false false false false false.
Definition P1 := mkP true false false false false false false false.
Definition P2 := mkP true true false false false false false false.
Definition P3 := mkP true true true false false false false false.
Definition P4 := mkP true true true true false false false false.
Definition P5 := mkP true true true true true false false false.
Definition P6 := mkP true true true true true true false false.
Definition P7 := mkP true true true true true true true false.

Ltac bexp_mono := unfold bexp; cbn [gv gr gu ga P0 P1 P2 P3 P4 P5 P6 P7]; intuition auto.
Ltac expand_expect := unfold expect, expectf; cbn [gk gu gm gr ga P0 P1 P2 P3 P4 P5 P6 P7].

Lemma F1 x : desc P0 x -> desc P1 (ap x (BlobAdd (vals t))).
Proof.
  intros [Hreg Hnd Hblo Hbup Hcnt Hpl Hpok Hup]. unfold ap; cbn [apply_call]. constructor; cbn [reg blobs counts plog].
  - exact Hreg.
  - exact Hnd.
  - intros i Hi. apply blob_add_iff. left. apply Hblo; exact Hi.
  - intros i Hi. apply blob_add_iff in Hi. destruct Hi as [Hi|Hi].
    + apply Hbup in Hi. revert Hi. bexp_mono.
    + right; left. split; [reflexivity|exact Hi].
  - exact Hcnt.
  - exact Hpl.
  - exact Hpok.
  - intros E; discriminate E.
Qed.

Lemma F1e x : vals t = [] -> desc P0 x -> desc P1 x.
Proof.
  intros E H. apply (desc_change P0 P1 x H); try reflexivity.
  - bexp_mono.
  - intros E'; discriminate E'.
Qed.

Lemma F2 x : desc P1 x -> desc P2 (ap (ap x (BlobAdd (roots t))) (RegAdd (map new_handle (roots t)))).
Proof.
  intros [Hreg Hnd Hblo Hbup Hcnt Hpl Hpok Hup]. unfold ap; cbn [apply_call reg blobs counts tlog plog].
  constructor; cbn [reg blobs counts plog].
  - apply (reg_upd P1 P2); [exact Hreg| |].
    + intros h Hin. apply in_map_iff in Hin. destruct Hin as [l [E Hl]]. subst h. cbn [lid new_handle].
      expand_expect. rewrite (wf_roots _ _ Hwf l Hl). apply memb_true in Hl. rewrite Hl. reflexivity.
    + intros l Hno. assert (Hn : memb l (roots t) = false).
      { apply memb_false. intros Hl. apply (Hno (new_handle l)); [apply in_map; exact Hl|reflexivity]. }
      expand_expect. rewrite Hn. cbn [andb]. reflexivity.
  - apply nodup_fold_set; exact Hnd.
  - intros i Hi. apply blob_add_iff. left. apply Hblo; exact Hi.
  - intros i Hi. apply blob_add_iff in Hi. destruct Hi as [Hi|Hi].
    + apply Hbup in Hi. revert Hi. bexp_mono.
    + right; right; left. split; [reflexivity|exact Hi].
  - exact Hcnt.
  - exact Hpl.
  - rewrite (Hpl eq_refl). apply plog_ok_none.
  - intros E; discriminate E.
Qed.

Lemma F2e x : roots t = [] -> desc P1 x -> desc P2 x.
Proof.
  intros E H. apply (desc_change P1 P2 x H); try reflexivity.
  - intros l. expand_expect. rewrite E. cbn [memb mem existsb andb]. reflexivity.
  - bexp_mono.
  - intros E'; discriminate E'.
Qed.

Lemma F3 x hs : claims (reg x) (updated t) = Some hs -> desc P2 x ->
  desc P3 (ap (ap x (RegUpd false hs)) (BlobAdd (pids t))).
Proof.
  intros Ec [Hreg Hnd Hblo Hbup Hcnt Hpl Hpok Hup]. destruct (claims_spec _ _ _ Ec) as [C1 C2].
  assert (Hpres : forall l, In l (ulids t) -> lookup (reg d) l <> None).
  { intros l Hl Ed. destruct (ulids_in l Hl) as [v [p Hu]]. destruct (C2 _ _ _ Hu) as [h0 [h [E0 _]]].
    rewrite Hreg in E0. revert E0. expand_expect. rewrite Ed.
    assert (Hn : memb l (roots t) = false) by (apply memb_false; intros Hr; exact (wf_ru _ _ Hwf l Hr Hl)).
    rewrite Hn. cbn [andb]. discriminate. }
  unfold ap; cbn [apply_call reg blobs counts tlog plog]. constructor; cbn [reg blobs counts plog].
  - apply (reg_upd P2 P3); [exact Hreg| |].
    + intros h Hin. destruct (C1 h Hin) as [l [v [p [h0 [Hu [E0 Ecl]]]]]].
      pose proof (in_ulids _ _ _ Hu) as Hl.
      assert (El : lid h = l) by (rewrite (claim_lid _ _ _ _ Ecl); apply lookup_In in E0; tauto). rewrite El.
      destruct (lookup (reg d) l) as [hd|] eqn:Ed; [|exfalso; exact (Hpres l Hl Ed)].
      rewrite Hreg in E0. revert E0. expand_expect. rewrite Ed. cbn [andb]. intros E0. inversion E0; subst h0.
      destruct (wf_upd _ _ Hwf l hd Hl Ed) as [Hdel _].
      rewrite (claim_wf _ _ _ _ Hdel Ecl). apply memb_true in Hl. rewrite Hl. rewrite (pid_of_in _ _ _ Hu). reflexivity.
    + intros l Hno. assert (Hn : memb l (ulids t) = false).
      { apply memb_false. intros Hl. destruct (ulids_in l Hl) as [v [p Hu]].
        destruct (C2 _ _ _ Hu) as [h0 [h [E0 [Hin Ecl]]]]. apply (Hno h Hin).
        rewrite (claim_lid _ _ _ _ Ecl). apply lookup_In in E0. tauto. }
      expand_expect. rewrite Hn. cbn [andb]. reflexivity.
  - apply nodup_fold_set; exact Hnd.
  - intros i Hi. apply blob_add_iff. left. apply Hblo; exact Hi.
  - intros i Hi. apply blob_add_iff in Hi. destruct Hi as [Hi|Hi].
    + apply Hbup in Hi. revert Hi. bexp_mono.
    + right; right; right; left. split; [reflexivity|exact Hi].
  - exact Hcnt.
  - exact Hpl.
  - rewrite (Hpl eq_refl). apply plog_ok_none.
  - intros _. exact Hpres.
Qed.

Lemma F3e x : updated t = [] -> desc P2 x -> desc P3 x.
Proof.
  intros E H. apply (desc_change P2 P3 x H); try reflexivity.
  - intros l. expand_expect. unfold ulids. rewrite E. cbn [map memb mem existsb andb]. reflexivity.
  - bexp_mono.
  - intros _. right. exact E.
Qed.

Lemma F4 x hs : marks (reg x) (removed t) = Some hs -> desc P3 x -> desc P4 (ap x (RegUpd false hs)).
Proof.
  intros Em [Hreg Hnd Hblo Hbup Hcnt Hpl Hpok Hup]. destruct (marks_spec _ _ _ Em) as [M1 M2].
  unfold ap; cbn [apply_call reg blobs counts tlog plog]. constructor; cbn [reg blobs counts plog].
  - apply (reg_upd P3 P4); [exact Hreg| |].
    + intros h Hin. destruct (M1 h Hin) as [l [v [h0 [Hr [E0 Eh]]]]]. pose proof (in_rlids _ _ Hr) as Hl.
      assert (El : lid h = l) by (subst h; cbn [lid set_del]; apply lookup_In in E0; tauto). rewrite El.
      assert (Hnu : memb l (ulids t) = false) by (apply memb_false; intros Hu; exact (wf_ur _ _ Hwf l Hu Hl)).
      assert (Hnr : memb l (roots t) = false) by (apply memb_false; intros Hr'; exact (wf_rr _ _ Hwf l Hr' Hl)).
      rewrite Hreg in E0. revert E0. expand_expect. rewrite Hnu, Hnr. cbn [andb].
      destruct (lookup (reg d) l) as [hd|] eqn:Ed; [|discriminate].
      intros E0. inversion E0; subst h0. apply memb_true in Hl. rewrite Hl. subst h. reflexivity.
    + intros l Hno. expand_expect. cbn [andb]. destruct (lookup (reg d) l) as [hd|] eqn:Ed; [|reflexivity].
      destruct (memb l (ulids t)) eqn:Eu; [reflexivity|].
      destruct (memb l (rlids t)) eqn:Er; [|reflexivity]. exfalso.
      apply memb_true in Er. unfold rlids in Er. apply in_map_iff in Er. destruct Er as [[l1 v] [E1 Hr]]. cbn in E1. subst l1.
      assert (E0 : lookup (reg x) l = Some hd).
      { rewrite Hreg. expand_expect. rewrite Ed, Eu. cbn [andb]. reflexivity. }
      apply (Hno _ (M2 _ _ _ Hr E0)). cbn [lid set_del]. apply lookup_In in E0. tauto.
  - apply nodup_fold_set; exact Hnd.
  - exact Hblo.
  - intros i Hi. apply Hbup in Hi. revert Hi. bexp_mono.
  - exact Hcnt.
  - exact Hpl.
  - rewrite (Hpl eq_refl). apply plog_ok_none.
  - exact Hup.
Qed.

Lemma F4e x : removed t = [] -> desc P3 x -> desc P4 x.
Proof.
  intros E H. apply (desc_change P3 P4 x H); try reflexivity.
  - intros l. expand_expect. unfold rlids. rewrite E. cbn [map memb mem existsb andb]. reflexivity.
  - bexp_mono.
  - intros _. left. reflexivity.
Qed.

Lemma F5 x : desc P4 x -> desc P5 (ap (ap x (RegAdd (map added_handle (added t)))) (BlobAdd (added t))).
Proof.
  intros [Hreg Hnd Hblo Hbup Hcnt Hpl Hpok Hup]. unfold ap; cbn [apply_call reg blobs counts tlog plog].
  constructor; cbn [reg blobs counts plog].
  - apply (reg_upd P4 P5); [exact Hreg| |].
    + intros h Hin. apply in_map_iff in Hin. destruct Hin as [l [E Hl]]. subst h. cbn [lid added_handle].
      expand_expect. rewrite (wf_added _ _ Hwf l Hl).
      assert (Hnr : memb l (roots t) = false) by (apply memb_false; intros Hr; exact (wf_ra _ _ Hwf l Hr Hl)).
      apply memb_true in Hl. rewrite Hl, Hnr. reflexivity.
    + intros l Hno. assert (Hn : memb l (added t) = false).
      { apply memb_false. intros Hl. apply (Hno (added_handle l)); [apply in_map; exact Hl|reflexivity]. }
      expand_expect. rewrite Hn. cbn [andb]. reflexivity.
  - apply nodup_fold_set; exact Hnd.
  - intros i Hi. apply blob_add_iff. left. apply Hblo; exact Hi.
  - intros i Hi. apply blob_add_iff in Hi. destruct Hi as [Hi|Hi].
    + apply Hbup in Hi. revert Hi. bexp_mono.
    + right; right; right; right. split; [reflexivity|exact Hi].
  - exact Hcnt.
  - exact Hpl.
  - rewrite (Hpl eq_refl). apply plog_ok_none.
  - exact Hup.
Qed.

Lemma F5e x : added t = [] -> desc P4 x -> desc P5 x.
Proof.
  intros E H. apply (desc_change P4 P5 x H); try reflexivity.
  - intros l. expand_expect. rewrite E. cbn [memb mem existsb andb]. reflexivity.
  - bexp_mono.
  - intros _. left. reflexivity.
Qed.

Lemma F6 x : desc P5 x -> desc P6 (ap x (SrUpdate (deltas t))).
Proof.
  intros [Hreg Hnd Hblo Hbup Hcnt Hpl Hpok Hup]. unfold ap; cbn [apply_call reg blobs counts tlog plog].
  constructor; cbn [reg blobs counts plog]; try assumption.
  intros s. rewrite cnt_fold, Hcnt. cbn [gc P5 P6]. lia.
Qed.

Lemma F6e x : deltas t = [] -> desc P5 x -> desc P6 x.
Proof.
  intros E H. apply (desc_change P5 P6 x H); try reflexivity.
  - bexp_mono.
  - intros s. cbn [gc P5 P6]. rewrite E. reflexivity.
  - intros _. left. reflexivity.
Qed.

Lemma F7 x : desc P6 x -> desc P7 (ap x (PlogAdd (reg_get (reg x) (ulids t) ++ reg_get (reg x) (rlids t)))).
Proof.
  intros [Hreg Hnd Hblo Hbup Hcnt Hpl Hpok Hup]. unfold ap; cbn [apply_call reg blobs counts tlog plog].
  constructor; cbn [reg blobs counts plog]; try assumption.
  - intros E; discriminate E.
  - intros hs E h Hin. cbn [plog reg] in *. inversion E; subst hs. apply in_app_or in Hin.
    destruct Hin as [Hin|Hin]; apply reg_get_lookup in Hin; destruct Hin as [l [_ [El Elid]]]; rewrite Elid; exact El.
Qed.

Lemma F7e x : desc P6 x -> desc P7 x.
Proof.
  intros H. apply (desc_change P6 P7 x H); try reflexivity.
  - bexp_mono.
  - intros _. left. reflexivity.
Qed.

(* ------------------------------------------------------------------ undo steps, at the level of disks *)

Lemma U1 v r u m a c p (b : bool) x : (p = true -> b = true) ->
  desc (mkP v r u m a c p false) x -> desc (mkP v r u m a c false false) (if b then ap x PlogRemove else x).
Proof.
  intros Hb H. destruct b.
  - destruct H as [Hreg Hnd Hblo Hbup Hcnt Hpl Hpok Hup]. unfold ap; cbn [apply_call].
    constructor; cbn [reg blobs counts plog]; try assumption.
    + intros _. reflexivity.
    + apply plog_ok_none.
  - destruct p; [discriminate (Hb eq_refl)|exact H].
Qed.

Lemma U2 v r u m a c x : desc (mkP v r u m a c false false) x ->
  desc (mkP v r u m a false false false) (if c && nonempty (rb_stores t) then ap x (SrUpdate (rb_stores t)) else x).
Proof.
  intros H. destruct c; [|exact H]. cbn [andb].
  destruct H as [Hreg Hnd Hblo Hbup Hcnt Hpl Hpok Hup]. destruct (nonempty (rb_stores t)) eqn:En.
  - unfold ap; cbn [apply_call]. constructor; cbn [reg blobs counts plog]; try assumption.
    intros s. rewrite cnt_fold, Hcnt. cbn [gc]. pose proof (wf_counts _ _ Hwf s). lia.
  - apply nonempty_false in En. constructor; try assumption.
    intros s. rewrite Hcnt. cbn [gc]. pose proof (wf_counts _ _ Hwf s) as Hs. rewrite En in Hs. cbn [dsum fold_right] in Hs. lia.
Qed.

Lemma U3 v r u m a x : desc (mkP v r u m a false false false) x ->
  desc (mkP v r u m false false false false)
       (if a && nonempty (added t) then ap (ap x (BlobRemove (added t))) (RegRemove (added t)) else x).
Proof.
  intros H. destruct a; [|exact H]. cbn [andb]. destruct (nonempty (added t)) eqn:En.
  - destruct H as [Hreg Hnd Hblo Hbup Hcnt Hpl Hpok Hup].
    assert (Hnr : forall l, In l (added t) -> memb l (roots t) = false).
    { intros l Hl. apply memb_false. intros Hr. exact (wf_ra _ _ Hwf l Hr Hl). }
    assert (Hchk : forallb (fun l => match lookup (reg x) l with Some _ => true | None => false end) (added t) = true).
    { apply forallb_forall. intros l Hl. rewrite Hreg. expand_expect. rewrite (wf_added _ _ Hwf l Hl), (Hnr l Hl).
      apply memb_true in Hl. rewrite Hl. rewrite andb_false_r. reflexivity. }
    unfold ap; cbn [apply_call reg blobs counts tlog plog]. rewrite Hchk.
    constructor; cbn [reg blobs counts plog]; try assumption.
    + apply (reg_del_ (mkP v r u m true false false false)); [exact Hnd|exact Hreg| |].
      * intros l Hl. expand_expect. rewrite (wf_added _ _ Hwf l Hl), (Hnr l Hl). rewrite andb_false_r. reflexivity.
      * intros l Hl. apply memb_false in Hl. expand_expect. rewrite Hl. cbn [andb]. reflexivity.
    + apply nodup_fold_del. exact Hnd.
    + intros i Hi. apply blob_del_iff. split; [apply Hblo; exact Hi|]. intros Ha. exact (wf_b_added _ _ Hwf i Ha Hi).
    + intros i Hi. apply blob_del_iff in Hi. destruct Hi as [Hi Hn]. apply Hbup in Hi. revert Hi Hn.
      unfold bexp; cbn [gv gr gu ga]. intuition congruence.
    + rewrite (Hpl eq_refl). apply plog_ok_none.
  - apply nonempty_false in En. apply (desc_change _ _ x H); try reflexivity.
    + intros l. expand_expect. rewrite En. cbn [memb mem existsb]. rewrite andb_false_r. reflexivity.
    + unfold bexp; cbn [gv gr gu ga]. rewrite En. cbn [In]. intuition congruence.
    + cbn [gu]. intros E. left. exact E.
Qed.

Lemma U4 v r u m x : desc (mkP v r u m false false false false) x ->
  desc (mkP v r u false false false false false)
       (if m && nonempty (removed t) then ap x (RegUpd false (undelete (reg_get (reg x) (rlids t)))) else x).
Proof.
  intros H. destruct m; [|exact H]. cbn [andb]. destruct (nonempty (removed t)) eqn:En.
  - destruct H as [Hreg Hnd Hblo Hbup Hcnt Hpl Hpok Hup].
    unfold ap; cbn [apply_call reg blobs counts tlog plog].
    constructor; cbn [reg blobs counts plog]; try assumption.
    + apply (reg_upd (mkP v r u true false false false false)); [exact Hreg| |].
      * intros h Hin. unfold undelete in Hin. apply in_flat_map in Hin. destruct Hin as [y [Hy Hin]].
        apply reg_get_lookup in Hy. destruct Hy as [l [Hl [E0 Elid]]].
        destruct (del y || negb (wip y =? 0)); [|contradiction]. destruct Hin as [Eh|[]]. subst h.
        cbn [lid set_del]. rewrite Elid.
        assert (Hnu : memb l (ulids t) = false) by (apply memb_false; intros Hu; exact (wf_ur _ _ Hwf l Hu Hl)).
        assert (Hnr : memb l (roots t) = false) by (apply memb_false; intros Hr'; exact (wf_rr _ _ Hwf l Hr' Hl)).
        rewrite Hreg in E0. revert E0. expand_expect. rewrite Hnu, Hnr. rewrite !andb_false_r. cbn [andb].
        destruct (lookup (reg d) l) as [hd|] eqn:Ed; [|discriminate].
        pose proof Hl as Hl'. apply memb_true in Hl'. rewrite Hl'. intros E0. inversion E0; subst y.
        destruct (wf_rem _ _ Hwf l hd Hl Ed) as [Hdel Hw]. rewrite (undelete_marked hd Hdel Hw). reflexivity.
      * intros l Hno. expand_expect. cbn [andb]. destruct (lookup (reg d) l) as [hd|] eqn:Ed; [|reflexivity].
        destruct (u && memb l (ulids t)) eqn:Eu; [reflexivity|].
        destruct (memb l (rlids t)) eqn:Er; [|reflexivity]. exfalso. apply memb_true in Er.
        assert (E0 : lookup (reg x) l = Some (set_del hd true 2)).
        { rewrite Hreg. expand_expect. rewrite Ed, Eu. cbn [andb]. apply memb_true in Er. rewrite Er. reflexivity. }
        apply (Hno (set_del (set_del hd true 2) false 0)); [|cbn [lid set_del]; apply lookup_In in Ed; tauto].
        unfold undelete. apply in_flat_map. exists (set_del hd true 2). split; [eapply In_reg_get; eassumption|].
        cbn [del set_del orb]. left. reflexivity.
    + apply nodup_fold_set. exact Hnd.
    + rewrite (Hpl eq_refl). apply plog_ok_none.
  - apply nonempty_false in En. apply (desc_change _ _ x H); try reflexivity.
    + intros l. expand_expect. unfold rlids. rewrite En. cbn [map memb mem existsb andb]. reflexivity.
    + intros i Hi. exact Hi.
    + cbn [gu]. intros E. left. exact E.
Qed.

Lemma U5 v r u x : desc (mkP v r u false false false false false) x ->
  desc (mkP v r false false false false false u)
       (if u && nonempty (updated t)
        then (let hs := reg_get (reg x) (ulids t) in
              ap (ap x (BlobRemove (rb_updated_blobs hs))) (RegUpd false (rb_updated_handles hs)))
        else x).
Proof.
  intros H. destruct u; [|exact H]. cbn [andb]. destruct (nonempty (updated t)) eqn:En.
  - destruct H as [Hreg Hnd Hblo Hbup Hcnt Hpl Hpok Hup]. cbv zeta. specialize (Hup eq_refl).
    assert (HA : forall h, In h (reg_get (reg x) (ulids t)) ->
              exists l hd, In l (ulids t) /\ lookup (reg d) l = Some hd /\ h = set_inactive hd (pid_of l) 2).
    { intros h Hh. apply reg_get_lookup in Hh. destruct Hh as [l [Hl [E0 _]]].
      destruct (lookup (reg d) l) as [hd|] eqn:Ed; [|exfalso; exact (Hup l Hl Ed)].
      exists l, hd. split; [exact Hl|split; [exact Ed|]].
      rewrite Hreg in E0. revert E0. expand_expect. rewrite Ed. apply memb_true in Hl. rewrite Hl. cbn [andb].
      intros E0. inversion E0. reflexivity. }
    assert (HB : forall l hd, In l (ulids t) -> lookup (reg d) l = Some hd ->
              In (set_inactive hd (pid_of l) 2) (reg_get (reg x) (ulids t))).
    { intros l hd Hl Ed. apply (In_reg_get _ _ l); [exact Hl|].
      rewrite Hreg. expand_expect. rewrite Ed. apply memb_true in Hl. rewrite Hl. cbn [andb]. reflexivity. }
    unfold ap; cbn [apply_call reg blobs counts tlog plog].
    constructor; cbn [reg blobs counts plog]; try assumption.
    + rewrite rb_updated_handles_map. apply (reg_upd (mkP v r true false false false false false)); [exact Hreg| |].
      * intros h' Hin. apply in_map_iff in Hin. destruct Hin as [h [Eh Hh]]. subst h'.
        destruct (HA h Hh) as [l [hd [Hl [Ed Eh]]]]. subst h. rewrite rb1_claimed, set_inactive_lid.
        assert (El : lid hd = l) by (apply lookup_In in Ed; tauto). rewrite El.
        expand_expect. rewrite Ed. apply memb_true in Hl. rewrite Hl. reflexivity.
      * intros l Hno. expand_expect. cbn [andb]. destruct (lookup (reg d) l) as [hd|] eqn:Ed; [|reflexivity].
        destruct (memb l (ulids t)) eqn:Eu; [|reflexivity]. exfalso. apply memb_true in Eu.
        apply (Hno (rb1 (set_inactive hd (pid_of l) 2))); [apply in_map; apply HB; assumption|].
        rewrite rb1_claimed, set_inactive_lid. apply lookup_In in Ed. tauto.
    + apply nodup_fold_set. exact Hnd.
    + intros i Hi. apply blob_del_iff. split; [apply Hblo; exact Hi|]. intros Hx.
      unfold rb_updated_blobs in Hx. apply in_flat_map in Hx. destruct Hx as [h [Hh Hx]].
      destruct (HA h Hh) as [l [hd [Hl [Ed Eh]]]].
      destruct (inactive h =? 0); [contradiction|]. destruct Hx as [Ex|[]].
      destruct (set_inactive_props hd (pid_of l) 2) as [_ [_ [Ei _]]]. rewrite <- Eh in Ei. rewrite Ei in Ex.
      destruct (ulids_in l Hl) as [v0 [p0 Hu]]. rewrite (pid_of_in _ _ _ Hu) in Ex. subst i.
      exact (wf_b_pids _ _ Hwf p0 (in_pids _ _ _ Hu) Hi).
    + intros i Hi. apply blob_del_iff in Hi. destruct Hi as [Hi Hn]. apply Hbup in Hi.
      assert (Hnp : ~ In i (pids t)).
      { intros Hp. apply Hn. unfold pids in Hp. apply in_map_iff in Hp. destruct Hp as [[[l v0] p0] [Ep Hu]]. cbn in Ep. subst p0.
        pose proof (in_ulids _ _ _ Hu) as Hl.
        destruct (lookup (reg d) l) as [hd|] eqn:Ed; [|exfalso; exact (Hup l Hl Ed)].
        unfold rb_updated_blobs. apply in_flat_map. exists (set_inactive hd (pid_of l) 2). split; [apply HB; assumption|].
        destruct (set_inactive_props hd (pid_of l) 2) as [_ [_ [Ei _]]]. rewrite Ei, (pid_of_in _ _ _ Hu).
        destruct (N.eqb_spec i 0) as [E0|E0]; [exact (wf_pnz _ _ Hwf _ Hu E0)|left; reflexivity]. }
      revert Hi Hnp. unfold bexp; cbn [gv gr gu ga]. intuition congruence.
    + rewrite (Hpl eq_refl). apply plog_ok_none.
    + cbn [gu]. intros E; discriminate E.
  - apply nonempty_false in En. apply (desc_change _ _ x H); try reflexivity.
    + intros l. expand_expect. unfold ulids. rewrite En. cbn [map memb mem existsb andb]. reflexivity.
    + unfold bexp, pids; cbn [gv gr gu ga]. rewrite En. cbn [map In]. intuition congruence.
    + cbn [gu]. intros E; discriminate E.
Qed.

Definition undo_roots (x : disk) : disk :=
  let x' := ap x (BlobRemove (roots t)) in
  let present := map lid (reg_get (reg x') (roots t)) in
  if nonempty present then ap x' (RegRemove present) else x'.

Lemma undo_roots_shape x :
  undo_roots x = mkD (fold_left reg_del (map lid (reg_get (reg x) (roots t))) (reg x))
                     (blob_del (blobs x) (roots t)) (counts x) (tlog x) (plog x).
Proof.
  unfold undo_roots. cbv zeta. change (reg (ap x (BlobRemove (roots t)))) with (reg x).
  set (present := map lid (reg_get (reg x) (roots t))).
  destruct (nonempty present) eqn:En.
  - assert (Hchk : forallb (fun l => match lookup (reg x) l with Some _ => true | None => false end) present = true).
    { apply forallb_forall. intros l Hl. unfold present in Hl. apply in_map_iff in Hl. destruct Hl as [h [El Hh]].
      apply reg_get_lookup in Hh. destruct Hh as [l' [_ [E0 Elid]]]. rewrite <- El, Elid, E0. reflexivity. }
    unfold ap; cbn [apply_call reg blobs counts tlog plog]. rewrite Hchk. reflexivity.
  - apply nonempty_false in En. rewrite En. reflexivity.
Qed.

Lemma U6 v r k x : desc (mkP v r false false false false false k) x ->
  desc (mkP v false false false false false false k) (if r && nonempty (roots t) then undo_roots x else x).
Proof.
  intros H. destruct r; [|exact H]. cbn [andb]. destruct (nonempty (roots t)) eqn:En.
  - destruct H as [Hreg Hnd Hblo Hbup Hcnt Hpl Hpok Hup]. rewrite undo_roots_shape.
    constructor; cbn [reg blobs counts plog]; try assumption.
    + apply (reg_del_ (mkP v true false false false false false k)); [exact Hnd|exact Hreg| |].
      * intros l Hl. apply in_map_iff in Hl. destruct Hl as [h [El Hh]].
        apply reg_get_lookup in Hh. destruct Hh as [l' [Hr [_ Elid]]].
        assert (Hr' : In l (roots t)) by (rewrite <- El, Elid; exact Hr).
        expand_expect. rewrite (wf_roots _ _ Hwf l Hr'). reflexivity.
      * intros l Hno. expand_expect. cbn [andb]. destruct (lookup (reg d) l) as [hd|] eqn:Ed; [reflexivity|].
        destruct (memb l (roots t)) eqn:Er; [|reflexivity]. exfalso. apply memb_true in Er. apply Hno.
        apply in_map_iff. exists (new_handle l). split; [reflexivity|]. apply (In_reg_get _ _ l); [exact Er|].
        rewrite Hreg. expand_expect. rewrite Ed. apply memb_true in Er. rewrite Er. reflexivity.
    + apply nodup_fold_del. exact Hnd.
    + intros i Hi. apply blob_del_iff. split; [apply Hblo; exact Hi|]. intros Ha. exact (wf_b_roots _ _ Hwf i Ha Hi).
    + intros i Hi. apply blob_del_iff in Hi. destruct Hi as [Hi Hn]. apply Hbup in Hi. revert Hi Hn.
      unfold bexp; cbn [gv gr gu ga]. intuition congruence.
    + rewrite (Hpl eq_refl). apply plog_ok_none.
  - apply nonempty_false in En. apply (desc_change _ _ x H); try reflexivity.
    + intros l. expand_expect. rewrite En. cbn [memb mem existsb andb]. reflexivity.
    + unfold bexp; cbn [gv gr gu ga]. rewrite En. cbn [In]. intuition congruence.
    + cbn [gu]. intros E; discriminate E.
Qed.

Lemma U7 v k (b : bool) x : (v = true -> b = true) -> desc (mkP v false false false false false false k) x ->
  desc (mkP false false false false false false false k)
       (if b && nonempty (rb_vals t) then ap x (BlobRemove (rb_vals t)) else x).
Proof.
  intros Hb H. destruct (b && nonempty (rb_vals t)) eqn:Ec.
  - destruct H as [Hreg Hnd Hblo Hbup Hcnt Hpl Hpok Hup]. unfold ap; cbn [apply_call].
    constructor; cbn [reg blobs counts plog]; try assumption.
    + intros i Hi. apply blob_del_iff. split; [apply Hblo; exact Hi|]. intros Ha. exact (wf_b_rbvals _ _ Hwf i Ha Hi).
    + intros i Hi. apply blob_del_iff in Hi. destruct Hi as [Hi Hn]. apply Hbup in Hi.
      assert (Hnv : ~ In i (vals t)) by (intros Hv; apply Hn; exact (wf_b_vals _ _ Hwf i Hv)).
      revert Hi Hnv. unfold bexp; cbn [gv gr gu ga]. intuition congruence.
  - apply (desc_change _ _ x H); try reflexivity.
    + intros i. unfold bexp; cbn [gv gr gu ga]. intros [Hi|[[Ev Hi]|Hi]]; [left; exact Hi| |right; right; exact Hi].
      exfalso. rewrite (Hb Ev) in Ec. cbn [andb] in Ec. apply nonempty_false in Ec.
      pose proof (wf_b_vals _ _ Hwf i Hi) as Hv. rewrite Ec in Hv. destruct Hv.
    + cbn [gu]. intros E; discriminate E.
Qed.

Lemma U8 k x : desc (mkP false false false false false false false k) x -> disk_equiv (ap x TlogRemove) d.
Proof.
  intros [Hreg Hnd Hblo Hbup Hcnt Hpl Hpok Hup].
  assert (Hshape : exists tl, ap x TlogRemove = mkD (reg x) (blobs x) (counts x) tl (plog x) /\ tl = false).
  { unfold ap; cbn [apply_call]. destruct (tlog x) eqn:Et.
    - exists false. split; reflexivity.
    - exists false. split; [|reflexivity]. destruct x as [r0 b0 c0 tl0 p0]. cbn in Et. subst tl0. reflexivity. }
  destruct Hshape as [tl [Es Etl]]. rewrite Es. subst tl. unfold disk_equiv; cbn [reg blobs counts tlog plog].
  split; [|split; [|split; [|split]]].
  - intros l. rewrite Hreg. expand_expect. cbn [andb]. destruct (lookup (reg d) l) as [hd|] eqn:Ed; [|reflexivity].
    cbn [option_map]. destruct (k && memb l (ulids t)) eqn:Ek; [|reflexivity].
    apply andb_true_iff in Ek. destruct Ek as [_ Hl]. apply memb_true in Hl.
    destruct (wf_upd _ _ Hwf l hd Hl Ed) as [Hdel Hw]. rewrite (norm_cleared hd Hdel Hw). reflexivity.
  - intros i. split; [|apply Hblo]. intros Hi. apply Hbup in Hi. revert Hi. unfold bexp; cbn [gv gr gu ga]. intuition congruence.
  - intros s. rewrite !count_of_cnt. cbn [counts]. rewrite Hcnt. cbn [gc]. lia.
  - symmetry. exact (wf_tlog _ _ Hwf).
  - rewrite (Hpl eq_refl). symmetry. exact (wf_plog _ _ Hwf).
Qed.

(* the same with equal handles, when no updated node carries an expired stale inactive id *)
Lemma U8s k x : (forall l h0, In l (ulids t) -> lookup (reg d) l = Some h0 -> wip h0 = 0) ->
  desc (mkP false false false false false false false k) x -> disk_equiv_strict (ap x TlogRemove) d.
Proof.
  intros Hs [Hreg Hnd Hblo Hbup Hcnt Hpl Hpok Hup].
  assert (Hshape : exists tl, ap x TlogRemove = mkD (reg x) (blobs x) (counts x) tl (plog x) /\ tl = false).
  { unfold ap; cbn [apply_call]. destruct (tlog x) eqn:Et.
    - exists false. split; reflexivity.
    - exists false. split; [|reflexivity]. destruct x as [r0 b0 c0 tl0 p0]. cbn in Et. subst tl0. reflexivity. }
  destruct Hshape as [tl [Es Etl]]. rewrite Es. subst tl. unfold disk_equiv_strict; cbn [reg blobs counts tlog plog].
  split; [|split; [|split; [|split]]].
  - intros l. rewrite Hreg. expand_expect. cbn [andb]. destruct (lookup (reg d) l) as [hd|] eqn:Ed; [|reflexivity].
    destruct (k && memb l (ulids t)) eqn:Ek; [|reflexivity].
    apply andb_true_iff in Ek. destruct Ek as [_ Hl]. apply memb_true in Hl.
    destruct (wf_upd _ _ Hwf l hd Hl Ed) as [Hdel Hw]. pose proof (Hs l hd Hl Ed) as Hw0.
    destruct Hw as [Hw|[_ Hi]]; [rewrite Hw0 in Hw; discriminate|]. rewrite (cleared_strict hd Hw0 Hi). reflexivity.
  - intros i. split; [|apply Hblo]. intros Hi. apply Hbup in Hi. revert Hi. unfold bexp; cbn [gv gr gu ga]. intuition congruence.
  - intros s. rewrite !count_of_cnt. cbn [counts]. rewrite Hcnt. cbn [gc]. lia.
  - symmetry. exact (wf_tlog _ _ Hwf).
  - rewrite (Hpl eq_refl). symmetry. exact (wf_plog _ _ Hwf).
Qed.

(* rollback(ctx, withValues) as a function on disks, all calls best-effort, no injected fault *)
Definition st1 (c : N) (x : disk) : disk := if beforeFinalize <=? c then ap x PlogRemove else x.
Definition st2 (c : N) (x : disk) : disk :=
  if (commitStoreInfo <? c) && nonempty (rb_stores t) then ap x (SrUpdate (rb_stores t)) else x.
Definition st3 (c : N) (x : disk) : disk :=
  if (commitAddedNodes <? c) && nonempty (added t) then ap (ap x (BlobRemove (added t))) (RegRemove (added t)) else x.
Definition st4 (c : N) (x : disk) : disk :=
  if (commitRemovedNodes <? c) && nonempty (removed t)
  then ap x (RegUpd false (undelete (reg_get (reg x) (rlids t)))) else x.
Definition st5 (c : N) (x : disk) : disk :=
  if (commitUpdatedNodes <? c) && nonempty (updated t)
  then (let hs := reg_get (reg x) (ulids t) in
        ap (ap x (BlobRemove (rb_updated_blobs hs))) (RegUpd false (rb_updated_handles hs)))
  else x.
Definition st6 (c : N) (x : disk) : disk := if (commitNewRootNodes <? c) && nonempty (roots t) then undo_roots x else x.
Definition st7 (c : N) (b : bool) (x : disk) : disk :=
  if b && (commitTrackedItemsValues <=? c) && nonempty (rb_vals t) then ap x (BlobRemove (rb_vals t)) else x.
Definition rbd (c : N) (b : bool) (x : disk) : disk :=
  ap (st7 c b (st6 c (st5 c (st4 c (st3 c (st2 c (st1 c x))))))) TlogRemove.

(* flags and committedState agree: what the rollback will undo is exactly what has been done *)
Definition progc (c : N) (v p : bool) : prog :=
  mkP v (commitNewRootNodes <? c) (commitUpdatedNodes <? c) (commitRemovedNodes <? c) (commitAddedNodes <? c)
      (commitStoreInfo <? c) p false.

Lemma rbd_final c v p x : (v = true -> (commitTrackedItemsValues <=? c) = true) -> (p = true -> (beforeFinalize <=? c) = true) ->
  desc (progc c v p) x ->
  exists k x7, desc (mkP false false false false false false false k) x7 /\ rbd c true x = ap x7 TlogRemove.
Proof.
  intros Hv Hp H. unfold progc in H. unfold rbd.
  pose proof (U1 _ _ _ _ _ _ _ (beforeFinalize <=? c) x Hp H : desc _ (st1 c x)) as H1.
  pose proof (U2 _ _ _ _ _ _ _ H1 : desc _ (st2 c (st1 c x))) as H2.
  pose proof (U3 _ _ _ _ _ _ H2 : desc _ (st3 c (st2 c (st1 c x)))) as H3.
  pose proof (U4 _ _ _ _ _ H3 : desc _ (st4 c (st3 c (st2 c (st1 c x))))) as H4.
  pose proof (U5 _ _ _ _ H4 : desc _ (st5 c (st4 c (st3 c (st2 c (st1 c x)))))) as H5.
  pose proof (U6 _ _ _ _ H5 : desc _ (st6 c (st5 c (st4 c (st3 c (st2 c (st1 c x))))))) as H6.
  pose proof (U7 _ _ (true && (commitTrackedItemsValues <=? c)) _ Hv H6) as H7.
  eexists. eexists. split; [exact H7|]. reflexivity.
Qed.

Lemma rbd_undo c v p x : (v = true -> (commitTrackedItemsValues <=? c) = true) -> (p = true -> (beforeFinalize <=? c) = true) ->
  desc (progc c v p) x -> disk_equiv (rbd c true x) d.
Proof.
  intros Hv Hp H. destruct (rbd_final c v p x Hv Hp H) as [k [x7 [H7 E]]]. rewrite E. eapply U8. exact H7.
Qed.

Lemma rbd_undo_strict c v p x : (forall l h0, In l (ulids t) -> lookup (reg d) l = Some h0 -> wip h0 = 0) ->
  (v = true -> (commitTrackedItemsValues <=? c) = true) -> (p = true -> (beforeFinalize <=? c) = true) ->
  desc (progc c v p) x -> disk_equiv_strict (rbd c true x) d.
Proof.
  intros Hs Hv Hp H. destruct (rbd_final c v p x Hv Hp H) as [k [x7 [H7 E]]]. rewrite E. eapply U8s; eassumption.
Qed.

(* ------------------------------------------------------------------ from states to disks: the rollback *)

Lemma best2 c s : fault s = None ->
  fault (best (issue c) s) = None /\ dk (best (issue c) s) = ap (dk s) c /\ cs (best (issue c) s) = cs s.
Proof. intros Hf. unfold best, issue, ap. rewrite Hf. destruct (apply_call (dk s) c); cbn; auto. Qed.

Lemma rollback_dk b s : fault s = None -> dk (rollback t b s) = rbd (cs s) b (dk s).
Proof.
  intros Hf. set (c := cs s).
  set (s1 := if beforeFinalize <=? c then best (issue PlogRemove) s else s).
  assert (H1 : fault s1 = None /\ dk s1 = st1 c (dk s)).
  { unfold s1, st1. destruct (beforeFinalize <=? c); [|split; [exact Hf|reflexivity]].
    destruct (best2 PlogRemove s Hf) as [A [B _]]. split; assumption. }
  destruct H1 as [F1 D1].
  set (s2 := if (commitStoreInfo <? c) && nonempty (rb_stores t) then best (issue (SrUpdate (rb_stores t))) s1 else s1).
  assert (H2 : fault s2 = None /\ dk s2 = st2 c (dk s1)).
  { unfold s2, st2. destruct ((commitStoreInfo <? c) && nonempty (rb_stores t)); [|split; [exact F1|reflexivity]].
    destruct (best2 (SrUpdate (rb_stores t)) s1 F1) as [A [B _]]. split; assumption. }
  destruct H2 as [F2 D2].
  set (s3 := if (commitAddedNodes <? c) && nonempty (added t)
             then best (issue (RegRemove (added t))) (best (issue (BlobRemove (added t))) s2) else s2).
  assert (H3 : fault s3 = None /\ dk s3 = st3 c (dk s2)).
  { unfold s3, st3. destruct ((commitAddedNodes <? c) && nonempty (added t)); [|split; [exact F2|reflexivity]].
    destruct (best2 (BlobRemove (added t)) s2 F2) as [A [B _]].
    destruct (best2 (RegRemove (added t)) _ A) as [A' [B' _]]. split; [exact A'|]. rewrite B', B. reflexivity. }
  destruct H3 as [F3 D3].
  set (s4 := if (commitRemovedNodes <? c) && nonempty (removed t)
             then (let s' := best (issue (RegGet (map fst (removed t)))) s3 in
                   best (issue (RegUpd false (undelete (cur_handles s' (map fst (removed t)))))) s')
             else s3).
  assert (H4 : fault s4 = None /\ dk s4 = st4 c (dk s3)).
  { unfold s4, st4. destruct ((commitRemovedNodes <? c) && nonempty (removed t)); [|split; [exact F3|reflexivity]].
    cbv zeta. destruct (best2 (RegGet (map fst (removed t))) s3 F3) as [A [B _]].
    set (s' := best (issue (RegGet (map fst (removed t)))) s3) in *.
    destruct (best2 (RegUpd false (undelete (cur_handles s' (map fst (removed t))))) s' A) as [A' [B' _]].
    split; [exact A'|]. rewrite B'. unfold cur_handles. rewrite B. reflexivity. }
  destruct H4 as [F4 D4].
  set (s5 := if (commitUpdatedNodes <? c) && nonempty (updated t)
             then (let s' := best (issue (RegGet (map (fun x => fst (fst x)) (updated t)))) s4 in
                   let hs := cur_handles s' (map (fun x => fst (fst x)) (updated t)) in
                   best (issue (RegUpd false (rb_updated_handles hs))) (best (issue (BlobRemove (rb_updated_blobs hs))) s'))
             else s4).
  assert (H5 : fault s5 = None /\ dk s5 = st5 c (dk s4)).
  { unfold s5, st5. destruct ((commitUpdatedNodes <? c) && nonempty (updated t)); [|split; [exact F4|reflexivity]].
    cbv zeta. destruct (best2 (RegGet (map (fun x => fst (fst x)) (updated t))) s4 F4) as [A [B _]].
    set (s' := best (issue (RegGet (map (fun x => fst (fst x)) (updated t)))) s4) in *.
    set (hs := cur_handles s' (map (fun x => fst (fst x)) (updated t))).
    destruct (best2 (BlobRemove (rb_updated_blobs hs)) s' A) as [A' [B' _]].
    destruct (best2 (RegUpd false (rb_updated_handles hs)) _ A') as [A'' [B'' _]].
    split; [exact A''|]. rewrite B'', B'. unfold hs, cur_handles. rewrite B. reflexivity. }
  destruct H5 as [F5 D5].
  set (s6 := if (commitNewRootNodes <? c) && nonempty (roots t)
             then (let s' := best (issue (RegGet (roots t))) (best (issue (BlobRemove (roots t))) s5) in
                   let present := map lid (cur_handles s' (roots t)) in
                   if nonempty present then best (issue (RegRemove present)) s' else s')
             else s5).
  assert (H6 : fault s6 = None /\ dk s6 = st6 c (dk s5)).
  { unfold s6, st6. destruct ((commitNewRootNodes <? c) && nonempty (roots t)); [|split; [exact F5|reflexivity]].
    cbv zeta. destruct (best2 (BlobRemove (roots t)) s5 F5) as [A [B _]].
    destruct (best2 (RegGet (roots t)) _ A) as [A2 [B2 _]].
    set (s' := best (issue (RegGet (roots t))) (best (issue (BlobRemove (roots t))) s5)) in *.
    assert (B3 : dk s' = ap (dk s5) (BlobRemove (roots t))) by (rewrite B2, B; reflexivity).
    unfold undo_roots. cbv zeta. unfold cur_handles. rewrite B3.
    destruct (nonempty (map lid (reg_get (reg (ap (dk s5) (BlobRemove (roots t)))) (roots t)))).
    - destruct (best2 (RegRemove (map lid (reg_get (reg (ap (dk s5) (BlobRemove (roots t)))) (roots t)))) s' A2) as [A3 [B4 _]].
      split; [exact A3|]. rewrite B4, B3. reflexivity.
    - split; [exact A2|exact B3]. }
  destruct H6 as [F6 D6].
  set (s7 := if b && (commitTrackedItemsValues <=? c) && nonempty (rb_vals t)
             then best (issue (BlobRemove (rb_vals t))) s6 else s6).
  assert (H7 : fault s7 = None /\ dk s7 = st7 c b (dk s6)).
  { unfold s7, st7. destruct (b && (commitTrackedItemsValues <=? c) && nonempty (rb_vals t)); [|split; [exact F6|reflexivity]].
    destruct (best2 (BlobRemove (rb_vals t)) s6 F6) as [A [B _]]. split; assumption. }
  destruct H7 as [F7 D7].
  change (dk (best (issue TlogRemove) s7) = rbd c b (dk s)).
  destruct (best2 TlogRemove s7 F7) as [_ [D8 _]]. rewrite D8, D7, D6, D5, D4, D3, D2, D1. reflexivity.
Qed.

(* ------------------------------------------------------------------ from states to disks: phase 1 *)

(* the calls of phase 1 cannot be refused by the backend *)
Definition tot (c : call) : bool := match c with RegRemove _ | TlogRemove => false | _ => true end.

Lemma tot_ap c x : tot c = true -> apply_call x c = Some (ap x c).
Proof. intros H. unfold ap. destruct c; try discriminate H; cbn [apply_call]; reflexivity. Qed.

Definition pf (f : option nat) : option nat := match f with Some (S n) => Some n | _ => None end.

Lemma issue_tot c s : tot c = true ->
  (fault s = Some O /\ issue c s = (false, mkS (dk s) ((c, false) :: tr s) None (cs s)))
  \/ (fault s <> Some O /\ issue c s = (true, mkS (ap (dk s) c) ((c, true) :: tr s) (pf (fault s)) (cs s))).
Proof.
  intros Ht. unfold issue. rewrite (tot_ap c (dk s) Ht). destruct (fault s) as [[|n]|].
  - left. split; reflexivity.
  - right. split; [discriminate|reflexivity].
  - right. split; [discriminate|reflexivity].
Qed.

(* the leak positions, recognised on the state in which phase 1 stopped:
   (C) RegAdd failed in commitNewRootNodes; (A) BlobAdd failed in commitUpdatedNodes, or the log call
   announcing commitUpdatedNodes failed (with updated nodes); (B) BlobAdd failed in commitAddedNodes *)
Definition leakmark (s : st) : bool :=
  match tr s with
  | (RegAdd _, false) :: _ => cs s =? commitNewRootNodes
  | (BlobAdd _, false) :: _ => (cs s =? areFetchedItemsIntact) || (cs s =? commitAddedNodes)
  | (TlogAdd _, false) :: _ => (cs s =? commitUpdatedNodes) && nonempty (updated t)
  | _ => false
  end.

Definition undoable (s : st) : Prop :=
  exists v p, (v = true -> (commitTrackedItemsValues <=? cs s) = true) /\ (p = true -> (beforeFinalize <=? cs s) = true)
              /\ desc (progc (cs s) v p) (dk s).

Definition compatb (g : prog) (c : N) : bool :=
  Bool.eqb (gr g) (commitNewRootNodes <? c) && Bool.eqb (gu g) (commitUpdatedNodes <? c)
  && Bool.eqb (gm g) (commitRemovedNodes <? c) && Bool.eqb (ga g) (commitAddedNodes <? c)
  && Bool.eqb (gc g) (commitStoreInfo <? c) && implb (gv g) (commitTrackedItemsValues <=? c)
  && implb (gp g) (beforeFinalize <=? c) && negb (gk g).

Lemma compat_undo g c x tr' : compatb g c = true -> desc g x -> undoable (mkS x tr' None c).
Proof.
  unfold compatb. intros Hc H. repeat (apply andb_true_iff in Hc; destruct Hc as [Hc ?]).
  destruct g as [v r u m a cc p k]. cbn [gv gr gu gm ga gc gp gk] in *.
  repeat match goal with E : Bool.eqb _ _ = true |- _ => apply eqb_prop in E end. subst r u m a cc.
  destruct k; [discriminate|]. exists v, p. cbn [cs dk]. split; [|split].
  - intros E. subst v. assumption.
  - intros E. subst p. assumption.
  - exact H.
Qed.

Definition post (g : prog) (c : N) (r : flow * st) : Prop :=
  match r with
  | (Go, s') => desc g (dk s') /\ cs s' = c
  | (Stop, s') => fault s' = None /\ (undoable s' \/ leakmark s' = true)
  | (Conflict, _) => True
  end.

Lemma post_seq g1 c1 g2 c2 a b s : post g1 c1 (a s) ->
  (forall s1, desc g1 (dk s1) -> cs s1 = c1 -> post g2 c2 (b s1)) -> post g2 c2 (seq a b s).
Proof.
  intros Ha Hb. unfold seq. destruct (a s) as [[| |] s1]; cbn [post] in *.
  - destruct Ha as [H1 H2]. apply Hb; assumption.
  - exact Ha.
  - exact I.
Qed.

Lemma post_issue g' c s : tot c = true -> desc g' (ap (dk s) c) ->
  (undoable (mkS (dk s) ((c, false) :: tr s) None (cs s)) \/ leakmark (mkS (dk s) ((c, false) :: tr s) None (cs s)) = true) ->
  post g' (cs s) (lift (issue c) s).
Proof.
  intros Ht Hok Hfail. unfold lift. destruct (issue_tot c s Ht) as [[_ E]|[_ E]]; rewrite E; cbn [post dk cs fault].
  - split; [reflexivity|exact Hfail].
  - split; [exact Hok|reflexivity].
Qed.

Lemma post_two g' c1 c2 s : tot c1 = true -> tot c2 = true -> desc g' (ap (ap (dk s) c1) c2) ->
  (undoable (mkS (dk s) ((c1, false) :: tr s) None (cs s))) ->
  leakmark (mkS (ap (dk s) c1) ((c2, false) :: (c1, true) :: tr s) None (cs s)) = true ->
  post g' (cs s) (seq (lift (issue c1)) (lift (issue c2)) s).
Proof.
  intros Ht1 Ht2 Hok Hf1 Hf2. unfold seq, lift.
  destruct (issue_tot c1 s Ht1) as [[_ E]|[_ E]]; rewrite E; cbn [post dk cs fault].
  - split; [reflexivity|left; exact Hf1].
  - set (s1 := mkS (ap (dk s) c1) ((c1, true) :: tr s) (pf (fault s)) (cs s)).
    destruct (issue_tot c2 s1 Ht2) as [[_ E2]|[_ E2]]; rewrite E2; cbn [post dk cs fault s1 tr].
    + split; [reflexivity|right; exact Hf2].
    + split; [exact Hok|reflexivity].
Qed.

Lemma desc_tlog g x f : desc g x -> desc g (ap x (TlogAdd f)).
Proof.
  intros [Hreg Hnd Hblo Hbup Hcnt Hpl Hpok Hup]. unfold ap; cbn [apply_call]. constructor; cbn [reg blobs counts plog]; assumption.
Qed.

Lemma post_log g f s : desc g (dk s) -> compatb g f = true -> post g f (lift (log f) s).
Proof.
  intros H Hc. unfold log.
  apply (post_issue g (TlogAdd f) (mkS (dk s) (tr s) (fault s) f)); [reflexivity| |]; cbn [dk tr cs].
  - apply desc_tlog. exact H.
  - left. eapply compat_undo; eassumption.
Qed.

Lemma post_log6 s : desc P3 (dk s) -> post P3 commitUpdatedNodes (lift (log commitUpdatedNodes) s).
Proof.
  intros H. unfold log.
  apply (post_issue P3 (TlogAdd commitUpdatedNodes) (mkS (dk s) (tr s) (fault s) commitUpdatedNodes)); [reflexivity| |]; cbn [dk tr cs].
  - apply desc_tlog. exact H.
  - destruct (nonempty (updated t)) eqn:En.
    + right. unfold leakmark. cbn [tr cs]. rewrite En. reflexivity.
    + left. apply nonempty_false in En. apply (compat_undo P2); [reflexivity|].
      apply (desc_change P3 P2 _ H); try reflexivity.
      * intros l. expand_expect. unfold ulids. rewrite En. cbn [map memb mem existsb andb]. reflexivity.
      * unfold bexp, pids; cbn [gv gr gu ga P2 P3]. rewrite En. cbn [map In]. intuition congruence.
      * intros E; discriminate E.
Qed.

Lemma desc_init : desc P0 d.
Proof.
  constructor.
  - intros l. expand_expect. destruct (lookup (reg d) l); reflexivity.
  - exact (wf_nd _ _ Hwf).
  - intros i Hi; exact Hi.
  - intros i Hi; left; exact Hi.
  - intros s. cbn [gc P0]. lia.
  - intros _. exact (wf_plog _ _ Hwf).
  - intros hs E. rewrite (wf_plog _ _ Hwf) in E. discriminate.
  - intros E; discriminate E.
Qed.

Lemma post_issue_c g' g0 c call s : cs s = c -> tot call = true -> desc g0 (dk s) -> compatb g0 c = true ->
  desc g' (ap (dk s) call) -> post g' c (lift (issue call) s).
Proof.
  intros Hc Ht H0 Hcp Hok. subst c. apply post_issue; [exact Ht|exact Hok|]. left. eapply compat_undo; eassumption.
Qed.

Lemma post_two_c g' g0 c c1 c2 s : cs s = c -> tot c1 = true -> tot c2 = true -> desc g0 (dk s) -> compatb g0 c = true ->
  desc g' (ap (ap (dk s) c1) c2) -> (forall x trr, leakmark (mkS x ((c2, false) :: trr) None c) = true) ->
  post g' c (seq (lift (issue c1)) (lift (issue c2)) s).
Proof.
  intros Hc Ht1 Ht2 H0 Hcp Hok Hl. subst c. apply post_two; [exact Ht1|exact Ht2|exact Hok| |apply Hl].
  eapply compat_undo; eassumption.
Qed.

Lemma ph_vals s : desc P0 (dk s) -> cs s = commitTrackedItemsValues ->
  post P1 commitTrackedItemsValues (when (nonempty (vals t)) (lift (issue (BlobAdd (vals t)))) s).
Proof.
  intros H Hc. unfold when. destruct (nonempty (vals t)) eqn:En.
  - apply (post_issue_c P1 P0); [exact Hc|reflexivity|exact H|reflexivity|apply F1; exact H].
  - cbn [post]. split; [apply F1e; [apply nonempty_false; exact En|exact H]|exact Hc].
Qed.

Lemma ph_roots s : desc P1 (dk s) -> cs s = commitNewRootNodes -> post P2 commitNewRootNodes (p_roots t s).
Proof.
  intros H Hc. unfold p_roots, when. destruct (nonempty (roots t)) eqn:En.
  - apply (post_seq P1 commitNewRootNodes).
    + apply (post_issue_c P1 P1); [exact Hc|reflexivity|exact H|reflexivity|exact H].
    + intros s1 H1 Hc1. destruct (nonempty (reg_get (reg (dk s1)) (roots t))); [exact I|].
      apply (post_two_c P2 P1); [exact Hc1|reflexivity|reflexivity|exact H1|reflexivity|apply F2; exact H1|].
      intros x trr. reflexivity.
  - cbn [post]. split; [apply F2e; [apply nonempty_false; exact En|exact H]|exact Hc].
Qed.

Lemma ph_fetched s : desc P2 (dk s) -> cs s = areFetchedItemsIntact -> post P2 areFetchedItemsIntact (p_fetched t s).
Proof.
  intros H Hc. unfold p_fetched, when. destruct (nonempty (fetched t)).
  - apply (post_seq P2 areFetchedItemsIntact).
    + apply (post_issue_c P2 P2); [exact Hc|reflexivity|exact H|reflexivity|exact H].
    + intros s1 H1 Hc1. destruct (versions_match (reg (dk s1)) (fetched t)); [|exact I]. cbn [post]. split; assumption.
  - cbn [post]. split; assumption.
Qed.

Lemma ph_updated s : desc P2 (dk s) -> cs s = areFetchedItemsIntact -> post P3 areFetchedItemsIntact (p_updated t s).
Proof.
  intros H Hc. unfold p_updated, when. destruct (nonempty (updated t)) eqn:En.
  - apply (post_seq P2 areFetchedItemsIntact).
    + apply (post_issue_c P2 P2); [exact Hc|reflexivity|exact H|reflexivity|exact H].
    + intros s1 H1 Hc1. destruct (claims (reg (dk s1)) (updated t)) as [hs|] eqn:Ec; [|exact I].
      apply (post_two_c P3 P2); [exact Hc1|reflexivity|reflexivity|exact H1|reflexivity|exact (F3 _ hs Ec H1)|].
      intros x trr. reflexivity.
  - cbn [post]. split; [apply F3e; [apply nonempty_false; exact En|exact H]|exact Hc].
Qed.

Lemma ph_removed s : desc P3 (dk s) -> cs s = commitRemovedNodes -> post P4 commitRemovedNodes (p_removed t s).
Proof.
  intros H Hc. unfold p_removed, when. destruct (nonempty (removed t)) eqn:En.
  - apply (post_seq P3 commitRemovedNodes).
    + apply (post_issue_c P3 P3); [exact Hc|reflexivity|exact H|reflexivity|exact H].
    + intros s1 H1 Hc1. destruct (marks (reg (dk s1)) (removed t)) as [hs|] eqn:Em; [|exact I].
      apply (post_issue_c P4 P3); [exact Hc1|reflexivity|exact H1|reflexivity|exact (F4 _ hs Em H1)].
  - cbn [post]. split; [apply F4e; [apply nonempty_false; exact En|exact H]|exact Hc].
Qed.

Lemma ph_added s : desc P4 (dk s) -> cs s = commitAddedNodes -> post P5 commitAddedNodes (p_added t s).
Proof.
  intros H Hc. unfold p_added, when. destruct (nonempty (added t)) eqn:En.
  - apply (post_two_c P5 P4); [exact Hc|reflexivity|reflexivity|exact H|reflexivity|apply F5; exact H|].
    intros x trr. reflexivity.
  - cbn [post]. split; [apply F5e; [apply nonempty_false; exact En|exact H]|exact Hc].
Qed.

Lemma ph_counts s : desc P5 (dk s) -> cs s = commitStoreInfo ->
  post P6 commitStoreInfo (when (nonempty (deltas t)) (lift (issue (SrUpdate (deltas t)))) s).
Proof.
  intros H Hc. unfold when. destruct (nonempty (deltas t)) eqn:En.
  - apply (post_issue_c P6 P5); [exact Hc|reflexivity|exact H|reflexivity|apply F6; exact H].
  - cbn [post]. split; [apply F6e; [apply nonempty_false; exact En|exact H]|exact Hc].
Qed.

Lemma ph_plog s : desc P6 (dk s) -> cs s = beforeFinalize ->
  post P7 beforeFinalize
    ((fun s => let uh := cur_handles s (map (fun x => fst (fst x)) (updated t)) in
               let rh := cur_handles s (map fst (removed t)) in
               when (nonempty uh || nonempty rh) (lift (issue (PlogAdd (uh ++ rh)))) s) s).
Proof.
  intros H Hc. cbv beta zeta. unfold when, cur_handles.
  destruct (nonempty (reg_get (reg (dk s)) (map (fun x => fst (fst x)) (updated t)))
            || nonempty (reg_get (reg (dk s)) (map fst (removed t)))).
  - apply (post_issue_c P7 P6); [exact Hc|reflexivity|exact H|reflexivity|exact (F7 _ H)].
  - cbn [post]. split; [apply F7e; exact H|exact Hc].
Qed.

Lemma phase1_post s : tracked t = true -> desc P0 (dk s) -> post P7 beforeFinalize (phase1 t s).
Proof.
  intros Htr H. unfold phase1, when. rewrite Htr.
  apply (post_seq P0 lockTrackedItems); [apply post_log; [exact H|reflexivity]|]. intros s1 H1 C1.
  apply (post_seq P0 commitTrackedItemsValues); [apply post_log; [exact H1|reflexivity]|]. intros s2 H2 C2.
  apply (post_seq P1 commitTrackedItemsValues); [apply ph_vals; assumption|]. intros s3 H3 C3.
  apply (post_seq P1 commitNewRootNodes); [apply post_log; [exact H3|reflexivity]|]. intros s4 H4 C4.
  apply (post_seq P2 commitNewRootNodes); [apply ph_roots; assumption|]. intros s5 H5 C5.
  apply (post_seq P2 areFetchedItemsIntact); [apply post_log; [exact H5|reflexivity]|]. intros s6 H6 C6.
  apply (post_seq P2 areFetchedItemsIntact); [apply ph_fetched; assumption|]. intros s7 H7 C7.
  apply (post_seq P3 areFetchedItemsIntact); [apply ph_updated; assumption|]. intros s8 H8 C8.
  apply (post_seq P3 commitUpdatedNodes); [apply post_log6; exact H8|]. intros s9 H9 C9.
  apply (post_seq P3 commitRemovedNodes); [apply post_log; [exact H9|reflexivity]|]. intros s10 H10 C10.
  apply (post_seq P4 commitRemovedNodes); [apply ph_removed; assumption|]. intros s11 H11 C11.
  apply (post_seq P4 commitAddedNodes); [apply post_log; [exact H11|reflexivity]|]. intros s12 H12 C12.
  apply (post_seq P5 commitAddedNodes); [apply ph_added; assumption|]. intros s13 H13 C13.
  apply (post_seq P5 commitStoreInfo); [apply post_log; [exact H13|reflexivity]|]. intros s14 H14 C14.
  apply (post_seq P6 commitStoreInfo); [apply ph_counts; assumption|]. intros s15 H15 C15.
  apply (post_seq P6 beforeFinalize); [apply post_log; [exact H15|reflexivity]|]. intros s16 H16 C16.
  apply ph_plog; assumption.
Qed.

Lemma untracked_desc x : tracked t = false -> desc P0 x -> desc P7 x.
Proof.
  intros Htr H. destruct (wf_untracked _ _ Hwf Htr) as [E1 [E2 [E3 [E4 [E5 E6]]]]].
  apply F7e, F6e, F5e, F4e, F3e, F2e, F1e; assumption.
Qed.

Definition stopped_ok (r : flow * st) : Prop :=
  match r with
  | (Go, s1) => desc P7 (dk s1)
  | (Stop, s1) => fault s1 = None /\ (undoable s1 \/ leakmark s1 = true)
  | (Conflict, _) => True
  end.

Lemma phase1_ok s : desc P0 (dk s) -> stopped_ok (phase1 t s).
Proof.
  intros H. destruct (tracked t) eqn:Htr.
  - pose proof (phase1_post s Htr H) as Hp. destruct (phase1 t s) as [[| |] s1]; cbn [post stopped_ok] in *; tauto.
  - unfold phase1, when. rewrite Htr. cbn [stopped_ok]. apply untracked_desc; assumption.
Qed.

(* ------------------------------------------------------------------ phase 2 error paths and the commit *)

Lemma desc_replay g x hs : desc g x -> plog x = Some hs -> desc g (ap x (RegUpd false hs)).
Proof.
  intros [Hreg Hnd Hblo Hbup Hcnt Hpl Hpok Hup] Ep. unfold ap; cbn [apply_call].
  assert (Hsame : forall l, lookup (fold_left reg_set hs (reg x)) l = lookup (reg x) l).
  { apply fold_set_same. intros h Hin. exact (Hpok hs Ep h Hin). }
  constructor; cbn [reg blobs counts plog]; try assumption.
  - intros l. rewrite Hsame. apply Hreg.
  - apply nodup_fold_set. exact Hnd.
  - intros hs' E h Hin. cbn [plog reg] in *. rewrite Hsame. exact (Hpok hs' E h Hin).
Qed.

Lemma desc_P7_P6 x : desc P7 x -> desc P6 (ap x PlogRemove).
Proof.
  intros H. exact (U1 true true true true true true true true x (fun _ => eq_refl) H).
Qed.

Lemma prb_ok s : fault s = None -> desc P7 (dk s) ->
  fault (priority_rollback s) = None /\ cs (priority_rollback s) = cs s /\ desc P6 (dk (priority_rollback s)).
Proof.
  intros Hf H. unfold priority_rollback.
  destruct (best2 PlogGet s Hf) as [A [B C]]. set (s1 := best (issue PlogGet) s) in *.
  assert (B' : dk s1 = dk s) by (rewrite B; reflexivity).
  destruct (plog (dk s1)) as [hs|] eqn:Ep.
  - destruct (issue_tot (RegUpd false hs) s1 eq_refl) as [[E0 _]|[_ E]]; [rewrite A in E0; discriminate|].
    rewrite E. rewrite A. cbn [pf].
    set (s2 := mkS (ap (dk s1) (RegUpd false hs)) ((RegUpd false hs, true) :: tr s1) None (cs s1)).
    destruct (best2 PlogRemove s2 eq_refl) as [A2 [B2 C2]]. split; [exact A2|split].
    + rewrite C2. cbn [cs s2]. exact C.
    + rewrite B2. cbn [dk s2]. apply desc_P7_P6. apply desc_replay; [rewrite B'; exact H|exact Ep].
  - destruct (best2 PlogRemove s1 A) as [A2 [B2 C2]]. split; [exact A2|split].
    + rewrite C2. exact C.
    + rewrite B2, B'. apply desc_P7_P6. exact H.
Qed.

(* a failed commit ends in: (a disk on which every forward step has been undone) followed by the removal of the log *)
Definition restored (x : disk) : Prop :=
  exists k x7, desc (mkP false false false false false false false k) x7 /\ x = ap x7 TlogRemove.

Lemma undoable_restores s : fault s = None -> undoable s -> restored (dk (rollback t true s)).
Proof.
  intros Hf [v [p [Hv [Hp H]]]]. rewrite (rollback_dk true s Hf).
  destruct (rbd_final _ v p _ Hv Hp H) as [k [x7 [H7 E]]]. exists k, x7. split; assumption.
Qed.

Lemma P6_restores s : fault s = None -> cs s = finalizeCommit -> desc P6 (dk s) -> restored (dk (rollback t true s)).
Proof.
  intros Hf Hc H. apply undoable_restores; [exact Hf|]. exists true, false. rewrite Hc.
  split; [intros _; reflexivity|split; [intros E; discriminate E|exact H]].
Qed.

Definition leak_of (r : flow * st) : bool := match r with (Stop, s1) => leakmark s1 | _ => false end.

Lemma commit_failed_restored s s' : desc P0 (dk s) -> commit t s = (Failed, s') ->
  leak_of (phase1 t s) = false -> restored (dk s').
Proof.
  intros H Hc Hleak. unfold commit in Hc. pose proof (phase1_ok s H) as Hp.
  destruct (phase1 t s) as [[| |] s1]; cbn [stopped_ok leak_of] in *.
  - unfold log in Hc.
    destruct (issue_tot (TlogAdd finalizeCommit) (mkS (dk s1) (tr s1) (fault s1) finalizeCommit) eq_refl) as [[_ E]|[_ E]];
      rewrite E in Hc; cbn [dk tr fault cs] in Hc.
    + inversion Hc; subst s'.
      set (s2 := mkS (dk s1) ((TlogAdd finalizeCommit, false) :: tr s1) None finalizeCommit).
      destruct (best2 PlogRemove s2 eq_refl) as [A [B C]].
      apply P6_restores; [exact A|rewrite C; reflexivity|]. rewrite B. cbn [dk s2]. apply desc_P7_P6. exact Hp.
    + set (s2 := mkS (ap (dk s1) (TlogAdd finalizeCommit)) ((TlogAdd finalizeCommit, true) :: tr s1) (pf (fault s1)) finalizeCommit) in *.
      destruct (nonempty (to_flip t s2)); [|inversion Hc].
      destruct (issue_tot (RegUpd true (to_flip t s2)) s2 eq_refl) as [[_ E3]|[_ E3]]; rewrite E3 in Hc; [|inversion Hc].
      inversion Hc; subst s'.
      set (s3 := mkS (dk s2) ((RegUpd true (to_flip t s2), false) :: tr s2) None (cs s2)).
      assert (H3 : desc P7 (dk s3)) by (cbn [dk s3 s2]; apply desc_tlog; exact Hp).
      destruct (prb_ok s3 eq_refl H3) as [A [C B]].
      apply P6_restores; [exact A|exact C|exact B].
  - inversion Hc; subst s'. destruct Hp as [Hf [Hu|Hl]]; [|rewrite Hl in Hleak; discriminate].
    apply undoable_restores; assumption.
  - inversion Hc.
Qed.

Lemma restored_equiv x : restored x -> disk_equiv x d.
Proof. intros [k [x7 [H E]]]. subst x. eapply U8. exact H. Qed.

Lemma restored_strict x : (forall l h0, In l (ulids t) -> lookup (reg d) l = Some h0 -> wip h0 = 0) ->
  restored x -> disk_equiv_strict x d.
Proof. intros Hs [k [x7 [H E]]]. subst x. eapply U8s; eassumption. Qed.

End Undo.

(* ------------------------------------------------------------------ the classification and the main theorem *)

(* leaky t d n: the call that the injected fault n hits is one of the leak positions (A), (B), (C).
   It is read off the state in which phase 1 of the faulted run stops: the failed call is the head of
   the trace (the trace up to there is the trace of the fault-free run), cs is the step it belongs to. *)
Definition leaky (t : txn) (d : disk) (n : nat) : bool := leak_of t (phase1 t (init d (Some n))).

(* the same classification computed from the trace of the fault-free run: the n-th call and the last
   step number logged up to and including it (log sets committedState before it issues TlogAdd) *)
Definition stage_at (tr0 : list (call * bool)) (n : nat) : N :=
  fold_left (fun acc cb => match fst cb with TlogAdd f => f | _ => acc end) (firstn (S n) tr0) 0.
Definition leaky_trace (t : txn) (d : disk) (n : nat) : bool :=
  let tr0 := snd (run t d None) in
  match nth_error tr0 n with
  | Some (RegAdd _, _) => stage_at tr0 n =? commitNewRootNodes
  | Some (BlobAdd _, _) => (stage_at tr0 n =? areFetchedItemsIntact) || (stage_at tr0 n =? commitAddedNodes)
  | Some (TlogAdd f, _) => (f =? commitUpdatedNodes) && nonempty (updated t)
  | _ => false
  end.

Lemma leaky_spec t d n : leaky t d n = true ->
  exists s1 c rest, phase1 t (init d (Some n)) = (Stop, s1) /\ tr s1 = (c, false) :: rest
    /\ ((exists hs, c = RegAdd hs /\ cs s1 = commitNewRootNodes)
        \/ (exists ids, c = BlobAdd ids /\ (cs s1 = areFetchedItemsIntact \/ cs s1 = commitAddedNodes))
        \/ (exists f, c = TlogAdd f /\ cs s1 = commitUpdatedNodes /\ updated t <> [])).
Proof.
  unfold leaky, leak_of. destruct (phase1 t (init d (Some n))) as [[| |] s1]; try discriminate.
  unfold leakmark. destruct (tr s1) as [|[c b] rest] eqn:Et; try discriminate.
  destruct c; try discriminate; destruct b; try discriminate; intros H; exists s1; eexists; exists rest;
    (split; [reflexivity|split; [exact Et|]]).
  - right; right. apply andb_true_iff in H. destruct H as [H1 H2]. apply N.eqb_eq in H1.
    eexists. split; [reflexivity|split; [exact H1|]]. intros E. rewrite E in H2. discriminate.
  - right; left. apply orb_true_iff in H. eexists. split; [reflexivity|].
    destruct H as [H|H]; apply N.eqb_eq in H; [left|right]; exact H.
  - left. apply N.eqb_eq in H. eexists. split; [reflexivity|exact H].
Qed.

Lemma failed_commit_restored t d f d' tr' :
  wf t d -> run t d f = (Failed, d', tr') -> leak_of t (phase1 t (init d f)) = false -> restored t d d'.
Proof.
  intros Hwf Hrun Hleak. unfold run in Hrun. destruct (commit t (init d f)) as [o1 s1] eqn:E.
  inversion Hrun; subst. apply (commit_failed_restored t d Hwf (init d f) s1); [|exact E|exact Hleak].
  cbn [dk init]. apply desc_init. exact Hwf.
Qed.

Theorem failed_commit_restores_any t d f o d' tr' :
  wf t d -> run t d f = (o, d', tr') -> o = Failed -> leak_of t (phase1 t (init d f)) = false -> disk_equiv d' d.
Proof.
  intros Hwf Hrun Ho Hleak. subst o. apply (restored_equiv t d Hwf). eapply failed_commit_restored; eassumption.
Qed.

Theorem failed_commit_restores_exactly t d n o d' tr' :
  wf t d -> run t d (Some n) = (o, d', tr') -> o = Failed -> leaky t d n = false -> disk_equiv d' d.
Proof. intros Hwf Hrun Ho Hleak. eapply failed_commit_restores_any; eassumption. Qed.

(* with identical handles when no updated node carries an expired stale inactive id *)
Theorem failed_commit_restores_strict t d n o d' tr' :
  wf t d -> (forall l h0, In l (ulids t) -> lookup (reg d) l = Some h0 -> wip h0 = 0) ->
  run t d (Some n) = (o, d', tr') -> o = Failed -> leaky t d n = false -> disk_equiv_strict d' d.
Proof.
  intros Hwf Hs Hrun Ho Hleak. subst o. apply (restored_strict t d Hwf _ Hs). eapply failed_commit_restored; eassumption.
Qed.

(* ------------------------------------------------------------------ a concrete well-formed instance *)

Definition h10 := mkH 10 100 0 false 3 0 false.          (* never updated before *)
Definition h11 := mkH 11 110 111 true 5 1 false.         (* updated before: stale id 110 in the inactive slot, wip = 1 *)
Definition h12 := mkH 12 120 0 false 2 0 false.
Definition d_ex : disk := mkD [h10; h11; h12] [100; 111; 120; 500] [(1, 10%Z)] false None.
Definition t_ex : txn :=
  mkT true [600] [600] [] [20] [(10, 3%Z)] [(10, 3%Z, 101); (11, 5%Z, 112)] [(12, 2%Z)] [30] [(1, 1%Z)] [(1, (-1)%Z)].

Example wf_nonvacuous : wf t_ex d_ex.
Proof.
  constructor.
  - cbn. repeat constructor; cbn; intuition discriminate.
  - reflexivity.
  - reflexivity.
  - intros l [E|[]]; subst; reflexivity.
  - intros l [E|[]]; subst; reflexivity.
  - intros l [E|[]] [E'|[]]; subst; discriminate.
  - intros l [E|[]] [E'|[E'|[]]]; subst; discriminate.
  - intros l [E|[]] [E'|[]]; subst; discriminate.
  - intros l [E|[E|[]]] [E'|[]]; subst; discriminate.
  - cbn. repeat constructor; cbn; intuition discriminate.
  - intros x [E|[E|[]]]; subst; cbn; discriminate.
  - intros l h0 [E|[E|[]]] E0; subst; cbn in E0; inversion E0; cbn; auto.
  - intros l h0 [E|[]] E0; subst; cbn in E0; inversion E0; cbn; auto.
  - intros i [E|[]]; subst; left; reflexivity.
  - intros i [E|[]]; subst; cbn; intuition discriminate.
  - intros i [E|[]]; subst; cbn; intuition discriminate.
  - intros i [E|[E|[]]]; subst; cbn; intuition discriminate.
  - intros i [E|[]]; subst; cbn; intuition discriminate.
  - intros s. unfold dsum, t_ex. cbn [deltas rb_stores fold_right fst snd]. destruct (N.eqb 1 s); lia.
  - intros E; discriminate E.
Qed.

(* the fault-free run commits with 31 calls; exactly the positions 6 (RegAdd of the root, C), 11 (BlobAdd of the
   staged updated nodes, A), 12 (TlogAdd commitUpdatedNodes, A) and 18 (BlobAdd of the added node, B) are leaky,
   and the classification read off the faulted run agrees with the one read off the fault-free trace *)
Example leaky_positions :
  fst (fst (run t_ex d_ex None)) = Committed
  /\ length (snd (run t_ex d_ex None)) = 31%nat
  /\ filter (leaky t_ex d_ex) (List.seq 0 40) = [6; 11; 12; 18]%nat
  /\ forallb (fun n => Bool.eqb (leaky t_ex d_ex n) (leaky_trace t_ex d_ex n)) (List.seq 0 40) = true
  /\ map (fun n => nth_error (map fst (snd (run t_ex d_ex None))) n) [6; 11; 12; 18]%nat
     = [Some (RegAdd [new_handle 20]); Some (BlobAdd [101; 112]); Some (TlogAdd commitUpdatedNodes); Some (BlobAdd [30])].
Proof. vm_compute. repeat split. Qed.

(* ------------------------------------------------------------------ refutation witnesses for the leak positions *)

(* (A) one updated node; BlobAdd of the staged blob fails after the claim was written: the commit reports an
   error, the claim (inactive id 101, wip = 2) stays, and the retry of the same transaction is a conflict *)
Definition t_A : txn := mkT true [] [] [] [] [] [(10, 3%Z, 101)] [] [] [] [].
Definition d_A : disk := mkD [h10] [100] [] false None.

Example wf_A : wf t_A d_A.
Proof.
  constructor.
  - cbn. repeat constructor; cbn; intuition discriminate.
  - reflexivity.
  - reflexivity.
  - intros l [].
  - intros l [].
  - intros l [].
  - intros l [].
  - intros l [].
  - intros l _ [].
  - cbn. repeat constructor; cbn; intuition discriminate.
  - intros x [E|[]]; subst; cbn; discriminate.
  - intros l h0 [E|[]] E0; subst; cbn in E0; inversion E0; cbn; auto.
  - intros l h0 [].
  - intros i [].
  - intros i [].
  - intros i [].
  - intros i [E|[]]; subst; cbn; intuition discriminate.
  - intros i [].
  - intros s. reflexivity.
  - intros E; discriminate E.
Qed.

Example leak_A_blocks_retry :
  exists t d n d1 tr1, run t d (Some n) = (Failed, d1, tr1) /\ (exists d2 tr2, run t d1 None = (Conflicted, d2, tr2)).
Proof.
  exists t_A, d_A, 6%nat. eexists. eexists. split; [vm_compute; reflexivity|].
  eexists. eexists. vm_compute. reflexivity.
Qed.

(* the same witness, with everything that makes it a refutation of the unrestricted statement: it is well-formed,
   the fault is at a leaky position, from d itself the transaction commits, and the handle of node 10 changed *)
Example leak_A_details :
  leaky t_A d_A 6 = true /\ leaky t_A d_A 7 = true
  /\ fst (fst (run t_A d_A None)) = Committed
  /\ lookup (reg (snd (fst (run t_A d_A (Some 6%nat))))) 10 = Some (mkH 10 100 101 false 3 2 false)
  /\ lookup (reg (snd (fst (run t_A d_A (Some 7%nat))))) 10 = Some (mkH 10 100 101 false 3 2 false)
  /\ blobs (snd (fst (run t_A d_A (Some 7%nat)))) = [100; 101].
Proof. vm_compute. repeat split. Qed.

Theorem unrestricted_statement_refuted :
  exists t d n d1 tr1, wf t d /\ run t d (Some n) = (Failed, d1, tr1) /\ ~ disk_equiv d1 d.
Proof.
  exists t_A, d_A, 6%nat. eexists. eexists. split; [exact wf_A|]. split; [vm_compute; reflexivity|].
  intros [H _]. specialize (H 10). vm_compute in H. discriminate H.
Qed.

(* (B) one added node; BlobAdd fails after RegAdd: the handle stays registered, its blob does not exist *)
Definition t_B : txn := mkT true [] [] [] [] [] [] [] [30] [] [].
Definition d_B : disk := mkD [] [] [] false None.

Example leak_B_orphan_registry_entry :
  exists t d n d1 tr1, run t d (Some n) = (Failed, d1, tr1)
    /\ lookup (reg d) 30 = None /\ lookup (reg d1) 30 = Some (added_handle 30) /\ ~ In 30 (blobs d1)
    /\ leaky t d n = true.
Proof.
  exists t_B, d_B, 8%nat. eexists. eexists. split; [vm_compute; reflexivity|].
  split; [reflexivity|]. split; [reflexivity|]. split; [intros []|vm_compute; reflexivity].
Qed.

(* (C) one new root; RegAdd fails after BlobAdd: the root blob stays, no handle refers to it *)
Definition t_C : txn := mkT true [] [] [] [20] [] [] [] [] [] [].

Example leak_C_orphan_root_blob :
  exists t d n d1 tr1, run t d (Some n) = (Failed, d1, tr1)
    /\ ~ In 20 (blobs d) /\ In 20 (blobs d1) /\ lookup (reg d1) 20 = None
    /\ leaky t d n = true.
Proof.
  exists t_C, d_B, 5%nat. eexists. eexists. split; [vm_compute; reflexivity|].
  split; [intros []|]. split; [left; reflexivity|]. split; [reflexivity|vm_compute; reflexivity].
Qed.

(* (E) why wf_rem asks wip = 0 of a removed node.  Node 11 was updated by an earlier transaction (stale id 110
   in its inactive slot, wip = 1: expired, any updater may reclaim the slot).  A transaction removes it and its
   commit fails AFTER commitRemovedNodes (here: the log call announcing commitAddedNodes, not a leaky position);
   rollbackRemovedNodes writes del := false, wip := 0 and keeps the stale id.  Now both ids are in use and the
   slot is not expired any more: a transaction updating node 11, which commits from d, conflicts from d1. *)
Definition t_E : txn := mkT true [] [] [] [] [] [] [(11, 5%Z)] [] [] [].
Definition d_E : disk := mkD [h11] [111] [] false None.
Definition t_U : txn := mkT true [] [] [] [] [] [(11, 5%Z, 113)] [] [] [] [].

Example leak_E_removed_node_with_stale_inactive_id :
  exists n d1 tr1, run t_E d_E (Some n) = (Failed, d1, tr1) /\ leaky t_E d_E n = false
    /\ lookup (reg d_E) 11 = Some (mkH 11 110 111 true 5 1 false)
    /\ lookup (reg d1) 11 = Some (mkH 11 110 111 true 5 0 false)
    /\ fst (fst (run t_U d_E None)) = Committed /\ fst (fst (run t_U d1 None)) = Conflicted.
Proof.
  exists 8%nat. eexists. eexists. split; [vm_compute; reflexivity|]. vm_compute. repeat split.
Qed.

(* ================================================================== the retry after a failed commit

   Consequence of the main theorem: from the disk d' left by a failed commit (non-leaky fault position) the
   fault-free run of the same transaction has the same outcome as from d, and the final disks are equivalent.
   The relation kept between the two runs: equal lookups except on the updated nodes, where the handle of the
   first run may be the cleared version (inactive = 0, wip = 0) of a "free" handle of the second; the first
   RegUpd of commitUpdatedNodes overwrites exactly these handles with identical claims, from then on the
   registries agree on every id. *)

Lemma lookup_app a b l : lookup (a ++ b) l = match lookup a l with Some h => Some h | None => lookup b l end.
Proof. induction a as [|x a IH]; cbn [app lookup]; [reflexivity|]. destruct (lid x =? l); [reflexivity|exact IH]. Qed.

Lemma fold_set_lookup hs : forall r l,
  lookup (fold_left reg_set hs r) l = match lookup (rev hs) l with Some h => Some h | None => lookup r l end.
Proof.
  induction hs as [|x hs IH]; cbn [fold_left rev]; intros r l; [reflexivity|].
  rewrite IH, lookup_app, lookup_reg_set. cbn [lookup]. destruct (lookup (rev hs) l); [reflexivity|].
  destruct (lid x =? l); reflexivity.
Qed.

Lemma fold_del_lookup ids r l : NoDup (map lid r) ->
  lookup (fold_left reg_del ids r) l = if memb l ids then None else lookup r l.
Proof.
  intros Hnd. destruct (memb l ids) eqn:E.
  - apply lookup_fold_del_in; [exact Hnd|apply memb_true; exact E].
  - apply lookup_fold_del. apply memb_false; exact E.
Qed.

Definition free (h : handle) : Prop := del h = false /\ (wip h = 1 \/ (wip h = 0 /\ inactive h = 0)).

Definition lrel (U : list N) (r1 r2 : list handle) : Prop :=
  forall l, lookup r1 l = lookup r2 l
            \/ (In l U /\ exists h2, lookup r2 l = Some h2 /\ free h2 /\ lookup r1 l = Some (set_inactive h2 0 0)).

Record dR (U : list N) (x1 x2 : disk) : Prop := mkDR {
  r_reg : lrel U (reg x1) (reg x2);
  r_nd1 : NoDup (map lid (reg x1));
  r_nd2 : NoDup (map lid (reg x2));
  r_blobs : forall i, In i (blobs x1) <-> In i (blobs x2);
  r_cnt : forall s, cnt (counts x1) s = cnt (counts x2) s;
  r_tlog : tlog x1 = tlog x2;
  r_plog : plog x1 = plog x2
}.

Lemma lrel_nil r1 r2 : lrel [] r1 r2 -> forall l, lookup r1 l = lookup r2 l.
Proof. intros H l. destruct (H l) as [E|[[] _]]. exact E. Qed.

Lemma dR_mono U x1 x2 : dR [] x1 x2 -> dR U x1 x2.
Proof.
  intros [H1 H2 H3 H4 H5 H6 H7]. constructor; try assumption. intros l. left. exact (lrel_nil _ _ H1 l).
Qed.

Lemma lrel_present U r1 r2 l : lrel U r1 r2 ->
  (match lookup r1 l with Some _ => true | None => false end) = (match lookup r2 l with Some _ => true | None => false end).
Proof. intros H. destruct (H l) as [E|[_ [h2 [E2 [_ E1]]]]]; [rewrite E; reflexivity|rewrite E1, E2; reflexivity]. Qed.

Lemma dR_equiv U x1 x2 : dR U x1 x2 -> disk_equiv x1 x2.
Proof.
  intros [H1 H2 H3 H4 H5 H6 H7]. split; [|split; [exact H4|split; [|split; assumption]]].
  - intros l. destruct (H1 l) as [E|[_ [h2 [E2 [[Hd Hw] E1]]]]]; [rewrite E; reflexivity|].
    rewrite E1, E2. cbn [option_map]. rewrite (norm_cleared h2 Hd Hw). reflexivity.
  - intros s. rewrite !count_of_cnt. apply H5.
Qed.

Definition isS {A} (o : option A) : bool := match o with Some _ => true | None => false end.

Lemma ap_R U c x1 x2 : dR U x1 x2 ->
  isS (apply_call x1 c) = isS (apply_call x2 c) /\ dR U (ap x1 c) (ap x2 c).
Proof.
  intros [H1 H2 H3 H4 H5 H6 H7]. unfold ap.
  destruct c as [f| |ids|ids|ids|hs|b hs|ids|ds|hs| |]; cbn [apply_call isS].
  - split; [reflexivity|]. constructor; cbn [reg blobs counts tlog plog]; try assumption; reflexivity.
  - rewrite H6. destruct (tlog x2) eqn:Et; cbn [isS]; (split; [reflexivity|]).
    + constructor; cbn [reg blobs counts tlog plog]; try assumption. reflexivity.
    + constructor; try assumption; congruence.
  - split; [reflexivity|]. constructor; cbn [reg blobs counts tlog plog]; try assumption.
    intros i. rewrite !blob_add_iff, H4. reflexivity.
  - split; [reflexivity|]. constructor; cbn [reg blobs counts tlog plog]; try assumption.
    intros i. rewrite !blob_del_iff, H4. reflexivity.
  - split; [reflexivity|]. constructor; assumption.
  - split; [reflexivity|]. constructor; cbn [reg blobs counts tlog plog]; try assumption.
    + intros l. rewrite !fold_set_lookup. destruct (lookup (rev hs) l); [left; reflexivity|apply H1].
    + apply nodup_fold_set; exact H2.
    + apply nodup_fold_set; exact H3.
  - split; [reflexivity|]. constructor; cbn [reg blobs counts tlog plog]; try assumption.
    + intros l. rewrite !fold_set_lookup. destruct (lookup (rev hs) l); [left; reflexivity|apply H1].
    + apply nodup_fold_set; exact H2.
    + apply nodup_fold_set; exact H3.
  - assert (Ef : forallb (fun l => match lookup (reg x1) l with Some _ => true | None => false end) ids
               = forallb (fun l => match lookup (reg x2) l with Some _ => true | None => false end) ids).
    { induction ids as [|i ids IH]; cbn [forallb]; [reflexivity|]. rewrite IH, (lrel_present U _ _ i H1). reflexivity. }
    rewrite Ef. clear Ef. destruct (forallb _ ids); cbn [isS]; (split; [reflexivity|]); [|constructor; assumption].
    constructor; cbn [reg blobs counts tlog plog]; try assumption.
    + intros l. rewrite !fold_del_lookup by assumption. destruct (memb l ids); [left; reflexivity|apply H1].
    + apply nodup_fold_del; exact H2.
    + apply nodup_fold_del; exact H3.
  - split; [reflexivity|]. constructor; cbn [reg blobs counts tlog plog]; try assumption.
    intros s. rewrite !cnt_fold, H5. reflexivity.
  - split; [reflexivity|]. constructor; cbn [reg blobs counts tlog plog]; try assumption. reflexivity.
  - split; [reflexivity|]. constructor; assumption.
  - split; [reflexivity|]. constructor; cbn [reg blobs counts tlog plog]; try assumption. reflexivity.
Qed.

(* the claims overwrite every handle on which the two registries may differ *)
Lemma ap_R_claims U b hs x1 x2 : dR U x1 x2 -> (forall l, In l U -> In l (map lid hs)) ->
  dR [] (ap x1 (RegUpd b hs)) (ap x2 (RegUpd b hs)).
Proof.
  intros [H1 H2 H3 H4 H5 H6 H7] HU. unfold ap; cbn [apply_call].
  constructor; cbn [reg blobs counts tlog plog]; try assumption.
  - intros l. left. rewrite !fold_set_lookup. destruct (lookup (rev hs) l) eqn:El; [reflexivity|].
    destruct (H1 l) as [E|[Hl _]]; [exact E|]. exfalso.
    apply lookup_none_lids in El. apply El. rewrite map_rev. apply in_rev. rewrite rev_involutive. exact (HU l Hl).
  - apply nodup_fold_set; exact H2.
  - apply nodup_fold_set; exact H3.
Qed.

Lemma issue_nf c s : fault s = None ->
  issue c s = (isS (apply_call (dk s) c),
               mkS (ap (dk s) c) ((c, isS (apply_call (dk s) c)) :: tr s) None (cs s)).
Proof. intros Hf. unfold issue, ap. rewrite Hf. destruct (apply_call (dk s) c); reflexivity. Qed.

Lemma nonempty_map {A B} (f : A -> B) (l : list A) : nonempty (map f l) = nonempty l.
Proof. destruct l; reflexivity. Qed.

Lemma reg_get_lids U r1 r2 ids : lrel U r1 r2 -> map lid (reg_get r1 ids) = map lid (reg_get r2 ids).
Proof.
  intros H. unfold reg_get. induction ids as [|i ids IH]; cbn [flat_map]; [reflexivity|].
  rewrite !map_app, IH. f_equal. destruct (H i) as [E|[_ [h2 [E2 [_ E1]]]]].
  - rewrite E. reflexivity.
  - rewrite E1, E2. cbn [map]. rewrite set_inactive_lid. reflexivity.
Qed.

Lemma reg_get_eq r1 r2 ids : (forall l, In l ids -> lookup r1 l = lookup r2 l) -> reg_get r1 ids = reg_get r2 ids.
Proof.
  intros H. unfold reg_get. induction ids as [|i ids IH]; cbn [flat_map]; [reflexivity|].
  rewrite (H i (or_introl eq_refl)), IH; [reflexivity|]. intros l Hl. apply H. right. exact Hl.
Qed.

Lemma versions_match_R U r1 r2 f : lrel U r1 r2 -> versions_match r1 f = versions_match r2 f.
Proof.
  intros H. unfold versions_match. induction f as [|p f IH]; cbn [forallb]; [reflexivity|]. rewrite IH. f_equal.
  destruct (H (fst p)) as [E|[_ [h2 [E2 [_ E1]]]]].
  - rewrite E. reflexivity.
  - rewrite E1, E2. destruct (set_inactive_props h2 0 0) as [_ [_ [_ Ev]]]. rewrite Ev. reflexivity.
Qed.

Lemma both_in_use_inactive0 h : inactive h = 0 -> both_in_use h = false.
Proof.
  destruct h as [l a b ab v w dl]. unfold inactive, both_in_use. cbn. destruct ab; intros E; subst; cbn.
  - reflexivity.
  - apply andb_false_r.
Qed.

Lemma claim_free h v p : free h -> claim h v p = if Z.eqb (ver h) v then Some (set_inactive h p 2) else None.
Proof.
  intros [Hd Hw]. unfold claim. rewrite Hd. cbn [andb orb]. destruct (Z.eqb (ver h) v); cbn [negb]; [|reflexivity].
  unfold allocate at 1. destruct (both_in_use h) eqn:Eb; [|reflexivity].
  destruct Hw as [Hw|[_ Hi]]; [|rewrite (both_in_use_inactive0 h Hi) in Eb; discriminate].
  unfold expired. rewrite Hw. cbn [N.eqb Pos.eqb]. unfold allocate.
  assert (Ei : inactive (clear_inactive h) = 0).
  { unfold clear_inactive. destruct (set_inactive_props h 0 0) as [_ [_ [Ei _]]]. exact Ei. }
  rewrite (both_in_use_inactive0 _ Ei). rewrite set_inactive_twice. reflexivity.
Qed.

Lemma free_cleared h : free h -> free (set_inactive h 0 0).
Proof.
  intros [Hd _]. destruct (set_inactive_props h 0 0) as [_ [_ [Ei _]]]. split.
  - destruct h as [l a b ab v w dl]. unfold set_inactive. cbn in *. destruct ab; exact Hd.
  - right. split; [|exact Ei]. destruct h as [l a b ab v w dl]. unfold set_inactive. cbn. destruct ab; reflexivity.
Qed.

Lemma claim_cleared h v p : free h -> claim (set_inactive h 0 0) v p = claim h v p.
Proof.
  intros Hf. rewrite (claim_free _ v p (free_cleared h Hf)), (claim_free h v p Hf).
  destruct (set_inactive_props h 0 0) as [_ [_ [_ Ev]]]. rewrite Ev.
  change (set_inactive h 0 0) with (clear_inactive h). rewrite set_inactive_twice. reflexivity.
Qed.

Lemma claims_R U r1 r2 u : lrel U r1 r2 -> claims r1 u = claims r2 u.
Proof.
  intros H. induction u as [|[[l v] p] u IH]; cbn [claims]; [reflexivity|]. rewrite IH.
  destruct (H l) as [E|[_ [h2 [E2 [Hf E1]]]]].
  - rewrite E. reflexivity.
  - rewrite E1, E2. rewrite (claim_cleared h2 v p Hf). reflexivity.
Qed.

Lemma marks_ext r1 r2 u : (forall l, In l (map fst u) -> lookup r1 l = lookup r2 l) -> marks r1 u = marks r2 u.
Proof.
  intros H. induction u as [|[l v] u IH]; cbn [marks]; [reflexivity|].
  rewrite (H l (or_introl eq_refl)), IH; [reflexivity|]. intros l' Hl. apply H. right. exact Hl.
Qed.

Section Retry.
Variable t : txn.
Hypothesis Hur : forall l, In l (ulids t) -> ~ In l (rlids t).
Hypothesis Hunt : tracked t = false -> updated t = [].

(* the relation between the states of the two runs; w: the updated nodes have not been claimed yet *)
Definition SRm (w : bool) (s1 s2 : st) : Prop :=
  fault s1 = None /\ fault s2 = None /\ cs s1 = cs s2 /\
  (if w then cs s1 <= areFetchedItemsIntact /\ dR (ulids t) (dk s1) (dk s2) else dR [] (dk s1) (dk s2)).

Lemma SRm_dR w s1 s2 : SRm w s1 s2 -> dR (ulids t) (dk s1) (dk s2).
Proof. intros [_ [_ [_ H]]]. destruct w; [tauto|apply dR_mono; exact H]. Qed.

Lemma SRm_lrel w s1 s2 : SRm w s1 s2 -> lrel (ulids t) (reg (dk s1)) (reg (dk s2)).
Proof. intros H. exact (r_reg _ _ _ (SRm_dR _ _ _ H)). Qed.

Definition cong (w : bool) (p : st -> flow * st) : Prop :=
  forall s1 s2, SRm w s1 s2 -> fst (p s1) = fst (p s2) /\ SRm w (snd (p s1)) (snd (p s2)).

Lemma issue_SR w c s1 s2 : SRm w s1 s2 ->
  fst (issue c s1) = fst (issue c s2) /\ SRm w (snd (issue c s1)) (snd (issue c s2)).
Proof.
  intros [F1 [F2 [Hc HR]]]. rewrite (issue_nf c s1 F1), (issue_nf c s2 F2). cbn [fst snd]. unfold SRm. cbn [fault cs dk].
  destruct w.
  - destruct HR as [Hle HR]. destruct (ap_R _ c _ _ HR) as [E R']. split; [exact E|]. tauto.
  - destruct (ap_R _ c _ _ HR) as [E R']. split; [exact E|]. tauto.
Qed.

Lemma best_SR w c s1 s2 : SRm w s1 s2 -> SRm w (best (issue c) s1) (best (issue c) s2).
Proof. intros H. unfold best. exact (proj2 (issue_SR w c s1 s2 H)). Qed.

Lemma log_SR w f s1 s2 : (w = true -> f <= areFetchedItemsIntact) -> SRm w s1 s2 ->
  fst (log f s1) = fst (log f s2) /\ SRm w (snd (log f s1)) (snd (log f s2)).
Proof.
  intros Hf [F1 [F2 [Hc HR]]]. unfold log. apply issue_SR. unfold SRm. cbn [fault cs dk].
  split; [exact F1|split; [exact F2|split; [reflexivity|]]]. destruct w; [|exact HR]. split; [apply Hf; reflexivity|tauto].
Qed.

Lemma cong_lift (w : bool) (a : st -> bool * st) :
  (forall s1 s2, SRm w s1 s2 -> fst (a s1) = fst (a s2) /\ SRm w (snd (a s1)) (snd (a s2))) -> cong w (lift a).
Proof.
  intros Ha s1 s2 HS. unfold lift. destruct (Ha s1 s2 HS) as [E R].
  destruct (a s1) as [b1 s1'], (a s2) as [b2 s2']. cbn [fst snd] in *. subst b2. destruct b1; cbn [fst snd]; split; auto.
Qed.

Lemma cong_issue w c : cong w (lift (issue c)).
Proof. apply cong_lift. intros s1 s2. apply issue_SR. Qed.

Lemma cong_log w f : (w = true -> f <= areFetchedItemsIntact) -> cong w (lift (log f)).
Proof. intros Hf. apply cong_lift. intros s1 s2. apply log_SR. exact Hf. Qed.

Lemma cong_seq w a b : cong w a -> cong w b -> cong w (seq a b).
Proof.
  intros Ha Hb s1 s2 HS. unfold seq. destruct (Ha s1 s2 HS) as [E R].
  destruct (a s1) as [f1 s1'], (a s2) as [f2 s2']. cbn [fst snd] in *. subst f2.
  destruct f1; [apply Hb; exact R|cbn [fst snd]; split; auto|cbn [fst snd]; split; auto].
Qed.

Lemma cong_when w c p : cong w p -> cong w (when c p).
Proof. intros Hp s1 s2 HS. unfold when. destruct c; [apply Hp; exact HS|cbn [fst snd]; split; auto]. Qed.

Lemma cong_roots w : cong w (p_roots t).
Proof.
  unfold p_roots. apply cong_when. apply cong_seq; [apply cong_issue|]. intros s1 s2 HS.
  assert (En : nonempty (reg_get (reg (dk s1)) (roots t)) = nonempty (reg_get (reg (dk s2)) (roots t))).
  { rewrite <- (nonempty_map lid (reg_get (reg (dk s1)) (roots t))), <- (nonempty_map lid (reg_get (reg (dk s2)) (roots t))).
    rewrite (reg_get_lids _ _ _ (roots t) (SRm_lrel _ _ _ HS)). reflexivity. }
  rewrite En. destruct (nonempty (reg_get (reg (dk s2)) (roots t))); [cbn [fst snd]; split; auto|].
  apply cong_seq; [apply cong_issue|apply cong_issue|exact HS].
Qed.

Lemma cong_fetched w : cong w (p_fetched t).
Proof.
  unfold p_fetched. apply cong_when. apply cong_seq; [apply cong_issue|]. intros s1 s2 HS.
  rewrite (versions_match_R _ _ _ (fetched t) (SRm_lrel _ _ _ HS)).
  destruct (versions_match (reg (dk s2)) (fetched t)); cbn [fst snd]; split; auto.
Qed.

Definition Mixed (r1 r2 : flow * st) : Prop :=
  fst r1 = fst r2 /\ (SRm true (snd r1) (snd r2) \/ SRm false (snd r1) (snd r2))
  /\ (fst r1 = Go -> SRm false (snd r1) (snd r2)).

Lemma upd_R s1 s2 : SRm true s1 s2 -> Mixed (p_updated t s1) (p_updated t s2).
Proof.
  intros HS. unfold p_updated, when. destruct (nonempty (updated t)) eqn:En.
  - unfold seq at 1 3. destruct (cong_issue true (RegGet (map (fun x => fst (fst x)) (updated t))) s1 s2 HS) as [E R].
    destruct (lift (issue (RegGet (map (fun x => fst (fst x)) (updated t)))) s1) as [f1 s1'].
    destruct (lift (issue (RegGet (map (fun x => fst (fst x)) (updated t)))) s2) as [f2 s2']. cbn [fst snd] in *. subst f2.
    destruct f1; [|split; [reflexivity|split; [left; exact R|intros E; discriminate E]]
                  |split; [reflexivity|split; [left; exact R|intros E; discriminate E]]].
    rewrite (claims_R _ _ _ (updated t) (SRm_lrel _ _ _ R)).
    destruct (claims (reg (dk s2')) (updated t)) as [hs|] eqn:Ec;
      [|split; [reflexivity|split; [left; exact R|intros E; discriminate E]]].
    destruct R as [F1 [F2 [Hc [Hle HR]]]].
    unfold seq, lift at 1 3. rewrite (issue_nf _ s1' F1), (issue_nf _ s2' F2). cbn [apply_call isS].
    set (s1'' := mkS (ap (dk s1') (RegUpd false hs)) ((RegUpd false hs, true) :: tr s1') None (cs s1')).
    set (s2'' := mkS (ap (dk s2') (RegUpd false hs)) ((RegUpd false hs, true) :: tr s2') None (cs s2')).
    assert (R2 : SRm false s1'' s2'').
    { unfold SRm. cbn [fault cs dk s1'' s2'']. split; [reflexivity|split; [reflexivity|split; [exact Hc|]]].
      apply (ap_R_claims (ulids t)); [exact HR|]. intros l Hl.
      unfold ulids in Hl. apply in_map_iff in Hl. destruct Hl as [[[l1 v] p] [El Hu]]. cbn in El. subst l1.
      destruct (claims_spec _ _ _ Ec) as [_ C2]. destruct (C2 _ _ _ Hu) as [h0 [h [E0 [Hin Ecl]]]].
      apply in_map_iff. exists h. split; [|exact Hin]. rewrite (claim_lid _ _ _ _ Ecl). apply lookup_In in E0. tauto. }
    destruct (cong_issue false (BlobAdd (map snd (updated t))) s1'' s2'' R2) as [E R3].
    split; [exact E|split; [right; exact R3|intros _; exact R3]].
  - apply nonempty_false in En. cbn [fst snd Mixed]. unfold Mixed. cbn [fst snd].
    split; [reflexivity|]. assert (R : SRm false s1 s2).
    { destruct HS as [F1 [F2 [Hc [_ HR]]]]. unfold SRm. split; [exact F1|split; [exact F2|split; [exact Hc|]]].
      unfold ulids in HR. rewrite En in HR. exact HR. }
    split; [right; exact R|intros _; exact R].
Qed.

Lemma cong_removed : cong false (p_removed t).
Proof.
  unfold p_removed. apply cong_when. apply cong_seq; [apply cong_issue|]. intros s1 s2 HS.
  assert (Em : marks (reg (dk s1)) (removed t) = marks (reg (dk s2)) (removed t)).
  { apply marks_ext. intros l _. destruct HS as [_ [_ [_ HR]]]. exact (lrel_nil _ _ (r_reg _ _ _ HR) l). }
  rewrite Em. destruct (marks (reg (dk s2)) (removed t)) as [hs|]; [apply cong_issue; exact HS|cbn [fst snd]; split; auto].
Qed.

Lemma cong_added w : cong w (p_added t).
Proof. unfold p_added. apply cong_when. apply cong_seq; apply cong_issue. Qed.

Lemma cong_plog : cong false
  (fun s => let uh := cur_handles s (map (fun x => fst (fst x)) (updated t)) in
            let rh := cur_handles s (map fst (removed t)) in
            when (nonempty uh || nonempty rh) (lift (issue (PlogAdd (uh ++ rh)))) s).
Proof.
  intros s1 s2 HS. cbv zeta. unfold cur_handles.
  assert (El : forall l, lookup (reg (dk s1)) l = lookup (reg (dk s2)) l).
  { destruct HS as [_ [_ [_ HR]]]. exact (lrel_nil _ _ (r_reg _ _ _ HR)). }
  rewrite (reg_get_ext _ _ (map (fun x => fst (fst x)) (updated t)) El), (reg_get_ext _ _ (map fst (removed t)) El).
  apply cong_when; [apply cong_issue|exact HS].
Qed.

Lemma mix_w a b : cong true a -> (forall s1 s2, SRm true s1 s2 -> Mixed (b s1) (b s2)) ->
  forall s1 s2, SRm true s1 s2 -> Mixed (seq a b s1) (seq a b s2).
Proof.
  intros Ha Hb s1 s2 HS. unfold seq. destruct (Ha s1 s2 HS) as [E R].
  destruct (a s1) as [f1 s1'], (a s2) as [f2 s2']. cbn [fst snd] in *. subst f2.
  destruct f1; [apply Hb; exact R| |]; (split; [reflexivity|split; [left; exact R|intros E; discriminate E]]).
Qed.

Lemma mix_u b : cong false b -> forall s1 s2, SRm true s1 s2 -> Mixed (seq (p_updated t) b s1) (seq (p_updated t) b s2).
Proof.
  intros Hb s1 s2 HS. unfold seq. destruct (upd_R s1 s2 HS) as [E [Hor HGo]].
  destruct (p_updated t s1) as [f1 s1'], (p_updated t s2) as [f2 s2']. cbn [fst snd] in *. subst f2.
  destruct f1.
  - destruct (Hb s1' s2' (HGo eq_refl)) as [E R]. split; [exact E|split; [right; exact R|intros _; exact R]].
  - split; [reflexivity|split; [exact Hor|intros E; discriminate E]].
  - split; [reflexivity|split; [exact Hor|intros E; discriminate E]].
Qed.

Lemma phase1_R s1 s2 : SRm true s1 s2 -> Mixed (phase1 t s1) (phase1 t s2).
Proof.
  intros HS. unfold phase1, when. destruct (tracked t) eqn:Htr.
  - revert s1 s2 HS.
    apply mix_w; [apply cong_log; intros _; discriminate|].
    apply mix_w; [apply cong_log; intros _; discriminate|].
    apply mix_w; [apply cong_when; apply cong_issue|].
    apply mix_w; [apply cong_log; intros _; discriminate|].
    apply mix_w; [apply cong_roots|].
    apply mix_w; [apply cong_log; intros _; discriminate|].
    apply mix_w; [apply cong_fetched|].
    apply mix_u.
    repeat (apply cong_seq; [first [apply cong_log; intros E; discriminate E | apply cong_removed | apply cong_added
                                   | apply cong_when; apply cong_issue]|]).
    apply cong_plog.
  - assert (R : SRm false s1 s2).
    { destruct HS as [F1 [F2 [Hc [_ HR]]]]. unfold SRm. split; [exact F1|split; [exact F2|split; [exact Hc|]]].
      unfold ulids in HR. rewrite (Hunt eq_refl) in HR. exact HR. }
    split; [reflexivity|split; [right; exact R|intros _; exact R]].
Qed.

Lemma if_ap_R U (cnd : bool) c x1 x2 : dR U x1 x2 -> dR U (if cnd then ap x1 c else x1) (if cnd then ap x2 c else x2).
Proof. intros H. destruct cnd; [exact (proj2 (ap_R U c x1 x2 H))|exact H]. Qed.

Lemma rbd_R U c b x1 x2 : (forall l, In l U -> ~ In l (rlids t)) -> (U = [] \/ (commitUpdatedNodes <? c) = false) ->
  dR U x1 x2 -> dR U (rbd t c b x1) (rbd t c b x2).
Proof.
  intros Hdis Hskip H. unfold rbd.
  assert (H1 : dR U (st1 c x1) (st1 c x2)) by (unfold st1; apply if_ap_R; exact H).
  set (a1 := st1 c x1) in *. set (a2 := st1 c x2) in *.
  assert (H2 : dR U (st2 t c a1) (st2 t c a2)) by (unfold st2; apply if_ap_R; exact H1).
  set (b1 := st2 t c a1) in *. set (b2 := st2 t c a2) in *.
  assert (H3 : dR U (st3 t c b1) (st3 t c b2)).
  { unfold st3. destruct ((commitAddedNodes <? c) && nonempty (added t)); [|exact H2].
    apply ap_R. apply ap_R. exact H2. }
  set (c1 := st3 t c b1) in *. set (c2 := st3 t c b2) in *.
  assert (H4 : dR U (st4 t c c1) (st4 t c c2)).
  { unfold st4. destruct ((commitRemovedNodes <? c) && nonempty (removed t)); [|exact H3].
    rewrite (reg_get_eq (reg c1) (reg c2) (rlids t)); [apply ap_R; exact H3|].
    intros l Hl. destruct (r_reg _ _ _ H3 l) as [E|[HU _]]; [exact E|exfalso; exact (Hdis l HU Hl)]. }
  set (e1 := st4 t c c1) in *. set (e2 := st4 t c c2) in *.
  assert (H5 : dR U (st5 t c e1) (st5 t c e2)).
  { unfold st5. destruct Hskip as [EU|Ec].
    - destruct ((commitUpdatedNodes <? c) && nonempty (updated t)); [|exact H4]. cbv zeta.
      assert (El : forall l, lookup (reg e1) l = lookup (reg e2) l).
      { apply lrel_nil. rewrite <- EU. exact (r_reg _ _ _ H4). }
      rewrite (reg_get_ext _ _ (ulids t) El). apply ap_R. apply ap_R. exact H4.
    - rewrite Ec. cbn [andb]. exact H4. }
  set (g1 := st5 t c e1) in *. set (g2 := st5 t c e2) in *.
  assert (H6 : dR U (st6 t c g1) (st6 t c g2)).
  { unfold st6. destruct ((commitNewRootNodes <? c) && nonempty (roots t)); [|exact H5].
    unfold undo_roots. cbv zeta. pose proof (proj2 (ap_R U (BlobRemove (roots t)) _ _ H5)) as H5'.
    rewrite (reg_get_lids U _ _ (roots t) (r_reg _ _ _ H5')).
    destruct (nonempty (map lid (reg_get (reg (ap g2 (BlobRemove (roots t)))) (roots t)))); [apply ap_R|]; exact H5'. }
  set (k1 := st6 t c g1) in *. set (k2 := st6 t c g2) in *.
  assert (H7 : dR U (st7 t c b k1) (st7 t c b k2)) by (unfold st7; apply if_ap_R; exact H6).
  apply ap_R. exact H7.
Qed.

Lemma rollback_R w b s1 s2 : SRm w s1 s2 -> dR (ulids t) (dk (rollback t b s1)) (dk (rollback t b s2)).
Proof.
  intros [F1 [F2 [Hc HR]]]. rewrite (rollback_dk t b s1 F1), (rollback_dk t b s2 F2). rewrite <- Hc. destruct w.
  - destruct HR as [Hle HR]. apply rbd_R; [exact Hur| |exact HR]. right. apply N.ltb_ge.
    unfold commitUpdatedNodes, areFetchedItemsIntact in *. lia.
  - apply dR_mono. apply rbd_R; [intros l []|left; reflexivity|exact HR].
Qed.

Lemma prb_R s1 s2 : SRm false s1 s2 -> SRm false (priority_rollback s1) (priority_rollback s2).
Proof.
  intros HS. unfold priority_rollback. pose proof (best_SR false PlogGet s1 s2 HS) as H1.
  set (a1 := best (issue PlogGet) s1) in *. set (a2 := best (issue PlogGet) s2) in *.
  assert (Ep : plog (dk a1) = plog (dk a2)) by (destruct H1 as [_ [_ [_ HR]]]; exact (r_plog _ _ _ HR)).
  rewrite Ep. destruct (plog (dk a2)) as [hs|]; [|apply best_SR; exact H1].
  destruct (issue_SR false (RegUpd false hs) a1 a2 H1) as [E R].
  destruct (issue (RegUpd false hs) a1) as [b1 c1], (issue (RegUpd false hs) a2) as [b2 c2]. cbn [fst snd] in *. subst b2.
  destruct b1; [apply best_SR; exact R|exact R].
Qed.

Lemma cleanup_R fl s1 s2 : SRm false s1 s2 -> SRm false (cleanup fl t s1) (cleanup fl t s2).
Proof.
  intros HS. unfold cleanup.
  destruct (log_SR false deleteObsoleteEntries s1 s2 (fun E => False_ind _ (Bool.diff_false_true E)) HS) as [E R].
  destruct (log deleteObsoleteEntries s1) as [b1 c1], (log deleteObsoleteEntries s2) as [b2 c2]. cbn [fst snd] in *. subst b2.
  destruct b1; [|exact R]. cbv zeta.
  set (u := map inactive (firstn (length (updated t)) fl) ++ map active (skipn (length (updated t)) fl)).
  assert (R2 : SRm false (if nonempty u then best (issue (BlobRemove u)) c1 else c1)
                         (if nonempty u then best (issue (BlobRemove u)) c2 else c2))
    by (destruct (nonempty u); [apply best_SR|]; exact R).
  set (e1 := if nonempty u then best (issue (BlobRemove u)) c1 else c1) in *.
  set (e2 := if nonempty u then best (issue (BlobRemove u)) c2 else c2) in *.
  pose proof (best_SR false (RegRemove (map lid (skipn (length (updated t)) fl))) e1 e2 R2) as R3.
  set (g1 := best (issue (RegRemove (map lid (skipn (length (updated t)) fl)))) e1) in *.
  set (g2 := best (issue (RegRemove (map lid (skipn (length (updated t)) fl)))) e2) in *.
  destruct (log_SR false deleteTrackedItemsValues g1 g2 (fun E => False_ind _ (Bool.diff_false_true E)) R3) as [E4 R4].
  destruct (log deleteTrackedItemsValues g1) as [b1 k1], (log deleteTrackedItemsValues g2) as [b2 k2]. cbn [fst snd] in *. subst b2.
  destruct b1; [|exact R4]. apply best_SR. destruct (nonempty (obsolete t)); [apply best_SR|]; exact R4.
Qed.

Lemma commit_R s1 s2 : SRm true s1 s2 ->
  fst (commit t s1) = fst (commit t s2) /\ dR (ulids t) (dk (snd (commit t s1))) (dk (snd (commit t s2))).
Proof.
  intros HS. unfold commit. destruct (phase1_R s1 s2 HS) as [E [Hor HGo]].
  destruct (phase1 t s1) as [f1 p1], (phase1 t s2) as [f2 p2]. cbn [fst snd] in *. subst f2. destruct f1.
  - specialize (HGo eq_refl).
    destruct (log_SR false finalizeCommit p1 p2 (fun E => False_ind _ (Bool.diff_false_true E)) HGo) as [E R].
    destruct (log finalizeCommit p1) as [b1 q1], (log finalizeCommit p2) as [b2 q2]. cbn [fst snd] in *. subst b2.
    destruct b1.
    + assert (Efl : to_flip t q1 = to_flip t q2).
      { unfold to_flip, cur_handles.
        assert (El : forall l, lookup (reg (dk q1)) l = lookup (reg (dk q2)) l)
          by (destruct R as [_ [_ [_ HR]]]; exact (lrel_nil _ _ (r_reg _ _ _ HR))).
        rewrite (reg_get_ext _ _ (map (fun x => fst (fst x)) (updated t)) El), (reg_get_ext _ _ (map fst (removed t)) El).
        reflexivity. }
      rewrite Efl. destruct (nonempty (to_flip t q2)).
      * destruct (issue_SR false (RegUpd true (to_flip t q2)) q1 q2 R) as [E3 R3].
        destruct (issue (RegUpd true (to_flip t q2)) q1) as [b1 r1], (issue (RegUpd true (to_flip t q2)) q2) as [b2 r2].
        cbn [fst snd] in *. subst b2. destruct b1; cbn [fst snd]; (split; [reflexivity|]).
        -- apply (SRm_dR false). apply cleanup_R. apply best_SR. exact R3.
        -- apply (rollback_R false). apply prb_R. exact R3.
      * cbn [fst snd]. split; [reflexivity|]. apply (SRm_dR false). apply cleanup_R. exact R.
    + cbn [fst snd]. split; [reflexivity|]. apply (rollback_R false). apply best_SR. exact R.
  - cbn [fst snd]. split; [reflexivity|]. destruct Hor as [R|R]; [apply (rollback_R true)|apply (rollback_R false)]; exact R.
  - cbn [fst snd]. split; [reflexivity|]. destruct Hor as [R|R]; [apply (rollback_R true)|apply (rollback_R false)]; exact R.
Qed.

End Retry.

Lemma restored_R t d x : wf t d -> restored t d x -> dR (ulids t) x d.
Proof.
  intros Hwf [k [x7 [H E]]]. subst x. destruct (U8 t d Hwf k x7 H) as [_ [Hb [Hc [Htl Hpl]]]].
  assert (Er : reg (ap x7 TlogRemove) = reg x7) by (unfold ap; cbn [apply_call]; destruct (tlog x7); reflexivity).
  constructor; try assumption.
  - intros l. rewrite Er, (d_reg t d _ _ H l). unfold expect, expectf. cbn [gk gu gm gr ga andb].
    destruct (lookup (reg d) l) as [hd|] eqn:Ed; [|left; reflexivity].
    destruct (k && memb l (ulids t)) eqn:Ek; [|left; reflexivity].
    apply andb_true_iff in Ek. destruct Ek as [_ Hl]. apply memb_true in Hl.
    right. split; [exact Hl|]. exists hd. split; [reflexivity|split; [exact (wf_upd _ _ Hwf l hd Hl Ed)|reflexivity]].
  - rewrite Er. exact (d_nd t d _ _ H).
  - exact (wf_nd _ _ Hwf).
Qed.

(* retry: from the disk left by a failed commit (fault at a non-leaky position) the fault-free run of the same
   transaction has the same outcome as from the original disk, and equivalent final disks *)
Theorem retry_after_failed_commit t d n o d' tr' :
  wf t d -> run t d (Some n) = (o, d', tr') -> o = Failed -> leaky t d n = false ->
  forall o1 d1 tr1 o2 d2 tr2, run t d None = (o1, d1, tr1) -> run t d' None = (o2, d2, tr2) ->
    o2 = o1 /\ disk_equiv d2 d1.
Proof.
  intros Hwf Hrun Ho Hleak o1 d1 tr1 o2 d2 tr2 H1 H2. subst o.
  pose proof (restored_R t d d' Hwf (failed_commit_restored t d (Some n) d' tr' Hwf Hrun Hleak)) as HR.
  unfold run in H1, H2.
  destruct (commit t (init d None)) as [oa sa] eqn:Ea. destruct (commit t (init d' None)) as [ob sb] eqn:Eb.
  inversion H1; inversion H2; subst.
  assert (HS : SRm t true (init d' None) (init d None)).
  { unfold SRm, init. cbn [fault cs dk]. split; [reflexivity|split; [reflexivity|split; [reflexivity|split; [|exact HR]]]].
    unfold areFetchedItemsIntact. lia. }
  assert (Hunt : tracked t = false -> updated t = []) by (intros E; destruct (wf_untracked _ _ Hwf E) as [_ [_ [E3 _]]]; exact E3).
  destruct (commit_R t (wf_ur _ _ Hwf) Hunt _ _ HS) as [E R]. rewrite Ea, Eb in E, R. cbn [fst snd] in E, R.
  split; [exact E|]. eapply dR_equiv. exact R.
Qed.

(* in particular: when the transaction commits from d, the retry commits *)
Corollary retry_commits t d n d' tr' d1 tr1 :
  wf t d -> run t d (Some n) = (Failed, d', tr') -> leaky t d n = false -> run t d None = (Committed, d1, tr1) ->
  exists d2 tr2, run t d' None = (Committed, d2, tr2) /\ disk_equiv d2 d1.
Proof.
  intros Hwf Hrun Hleak H1. destruct (run t d' None) as [[o2 d2] tr2] eqn:E2.
  destruct (retry_after_failed_commit t d n Failed d' tr' Hwf Hrun eq_refl Hleak _ _ _ _ _ _ H1 E2) as [Eo Hd].
  subst o2. exists d2, tr2. split; [reflexivity|exact Hd].
Qed.

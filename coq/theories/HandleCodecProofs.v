From Coq Require Import List ZArith NArith Lia.
From SopVerif Require Import Lib.Bytes Lib.BytesProofs Gen.Consts Gen.HandleCodec Layout.
Import ListNotations.
Local Open Scope Z_scope.

Ltac codec_step :=
  first [ rewrite dec_enc_uuid by assumption
        | rewrite dec_enc_bool
        | rewrite dec_enc_i32 by (split; assumption)
        | rewrite dec_enc_i64 by (split; assumption) ].

Lemma decode_encode h : wf_handle h -> decode (encode h) = Some h.
Proof.
  unfold wf_handle, wf_uuid. intros Hwf.
  repeat match goal with H : _ /\ _ |- _ => destruct H end.
  unfold decode, encode.
  repeat codec_step. destruct h; reflexivity.
Qed.

Lemma encode_length h : wf_handle h -> Z.of_nat (length (encode h)) = HandleSizeInBytes.
Proof.
  unfold wf_handle, wf_uuid. intros Hwf.
  repeat match goal with H : _ /\ _ |- _ => destruct H end.
  unfold encode.
  repeat rewrite app_length.
  repeat first [ rewrite enc_uuid_length by assumption | rewrite enc_bool_length | rewrite enc_i32_length | rewrite enc_i64_length ].
  reflexivity.
Qed.

Lemma encode_injective h1 h2 : wf_handle h1 -> wf_handle h2 -> encode h1 = encode h2 -> h1 = h2.
Proof.
  intros H1 H2 E. apply decode_encode in H1. apply decode_encode in H2.
  rewrite E in H1. congruence.
Qed.

Lemma encode_wf_bytes h : wf_handle h -> wf_bytes (encode h).
Proof.
  unfold wf_handle, wf_uuid. intros Hwf.
  repeat match goal with H : _ /\ _ |- _ => destruct H end.
  unfold encode, wf_bytes.
  repeat (apply Forall_app; split); try assumption; try apply le_bytes_wf; try constructor;
    try (match goal with |- wf_byte (if ?b then _ else _) => destruct b; unfold wf_byte; lia end); constructor.
Qed.

(* ---- layout ---- *)

Lemma layout_fits : handlesPerBlock * S_ + crc_len <= B_.
Proof. vm_compute. discriminate. Qed.

Lemma slot_size_is_record_size : S_ = HandleSizeInBytes.
Proof. reflexivity. Qed.

Lemma S_pos : 0 < S_. Proof. reflexivity. Qed.
Lemma hpb_pos : 0 < handlesPerBlock. Proof. reflexivity. Qed.

Lemma slots_disjoint i j : 0 <= i -> 0 <= j -> i <> j -> disjoint (slot_range i) (slot_range j).
Proof.
  intros Hi Hj Hne. unfold disjoint, slot_range; cbn [fst snd]. pose proof S_pos.
  destruct (Z_lt_le_dec i j); [left|right]; nia.
Qed.

Lemma slot_inside_data i : 0 <= i < handlesPerBlock -> inside (slot_range i) (0, B_ - crc_len).
Proof.
  intros Hi. unfold inside, slot_range; cbn [fst snd]. pose proof S_pos. pose proof layout_fits.
  split; nia.
Qed.

Lemma slot_crc_disjoint i : 0 <= i < handlesPerBlock -> disjoint (slot_range i) crc_range.
Proof.
  intros Hi. pose proof (slot_inside_data i Hi) as [_ H]. unfold disjoint, crc_range; cbn [fst snd] in *.
  left; exact H.
Qed.

Lemma offset_is_slot low : 0 <= low ->
  exists i, 0 <= i < handlesPerBlock /\ handleInBlockOffset low = fst (slot_range i)
            /\ handleInBlockOffset low + S_ <= B_ - crc_len.
Proof.
  intros Hlow. exists (low mod handlesPerBlock).
  pose proof (Z.mod_pos_bound low handlesPerBlock hpb_pos) as Hm.
  split; [exact Hm|]. split; [reflexivity|].
  pose proof (slot_inside_data _ Hm) as [_ H]. unfold slot_range in H; cbn [fst snd] in H.
  unfold handleInBlockOffset. exact H.
Qed.

Lemma block_offset_aligned hashMod high : 0 < hashMod -> 0 <= high ->
  exists k, 0 <= k < hashMod /\ blockOffset hashMod high = k * B_.
Proof.
  intros Hm Hh. exists (high mod hashMod). split; [apply Z.mod_pos_bound; exact Hm|reflexivity].
Qed.

Lemma write_slot_length b i h : wf_handle h -> Z.of_nat (length b) = B_ -> 0 <= i < handlesPerBlock ->
  length (write_slot b i (encode h)) = length b.
Proof.
  intros Hwf Hb Hi. unfold write_slot. apply splice_length.
  pose proof (encode_length h Hwf) as Hl. pose proof (slot_inside_data i Hi) as [Hlo Hhi].
  unfold slot_range in *; cbn [fst snd] in *. unfold S_ in *. unfold crc_len in *. lia.
Qed.

(* writing slot i changes no byte outside slot i *)
Lemma write_slot_local b i h k x : wf_handle h -> Z.of_nat (length b) = B_ -> 0 <= i < handlesPerBlock ->
  0 <= k -> ~ (fst (slot_range i) <= k < snd (slot_range i)) ->
  nth (Z.to_nat k) (write_slot b i (encode h)) x = nth (Z.to_nat k) b x.
Proof.
  intros Hwf Hb Hi Hk Hout. unfold write_slot.
  pose proof (encode_length h Hwf) as Hl. pose proof (slot_inside_data i Hi) as [Hlo Hhi].
  unfold slot_range in *; cbn [fst snd] in *. unfold S_, crc_len in *.
  apply splice_nth_outside; lia.
Qed.

Lemma write_slot_reads_back b i h k x : wf_handle h -> Z.of_nat (length b) = B_ -> 0 <= i < handlesPerBlock ->
  0 <= k < S_ ->
  nth (Z.to_nat (i * S_ + k)) (write_slot b i (encode h)) x = nth (Z.to_nat k) (encode h) x.
Proof.
  intros Hwf Hb Hi Hk. unfold write_slot.
  pose proof (encode_length h Hwf) as Hl. pose proof (slot_inside_data i Hi) as [Hlo Hhi].
  unfold slot_range in *; cbn [fst snd] in *. unfold S_, crc_len in *.
  rewrite splice_nth_inside by lia. f_equal. lia.
Qed.

(* other slots and the checksum area are untouched *)
Lemma write_slot_other_slot b i j h k x : wf_handle h -> Z.of_nat (length b) = B_ ->
  0 <= i < handlesPerBlock -> 0 <= j < handlesPerBlock -> i <> j ->
  fst (slot_range j) <= k < snd (slot_range j) ->
  nth (Z.to_nat k) (write_slot b i (encode h)) x = nth (Z.to_nat k) b x.
Proof.
  intros Hwf Hb Hi Hj Hne Hk. apply write_slot_local; try assumption.
  - unfold slot_range in Hk; cbn [fst snd] in Hk. pose proof S_pos. nia.
  - pose proof (slots_disjoint i j ltac:(lia) ltac:(lia) Hne) as D. unfold disjoint in D. lia.
Qed.

Lemma write_slot_crc_untouched b i h k x : wf_handle h -> Z.of_nat (length b) = B_ ->
  0 <= i < handlesPerBlock -> fst crc_range <= k < snd crc_range ->
  nth (Z.to_nat k) (write_slot b i (encode h)) x = nth (Z.to_nat k) b x.
Proof.
  intros Hwf Hb Hi Hk. apply write_slot_local; try assumption.
  - unfold crc_range in Hk; cbn [fst snd] in Hk. pose proof layout_fits. pose proof S_pos. pose proof hpb_pos. nia.
  - pose proof (slot_crc_disjoint i Hi) as D. unfold disjoint in D.
    destruct D as [D|D]; [lia|]. unfold crc_range, slot_range in *; cbn [fst snd] in *. 
    pose proof S_pos. pose proof (slot_inside_data i Hi) as [? ?]. cbn [fst snd] in *. lia.
Qed.

Lemma write_crc_data_untouched b c k x : Z.of_nat (length b) = B_ -> 0 <= k < B_ - crc_len ->
  nth (Z.to_nat k) (write_crc b c) x = nth (Z.to_nat k) b x.
Proof.
  intros Hb Hk. unfold write_crc. apply splice_nth_outside; rewrite le_bytes_length.
  - pose proof layout_fits. pose proof S_pos. pose proof hpb_pos. unfold crc_len in *. cbn [length]. nia.
  - left. unfold crc_len in *. lia.
Qed.

(* Proofs about the commit-protocol model Proto.v, part 1: a commit that does not report success
   leaves every pre-existing node resolving to the same, still present, blob (for every transaction,
   every initial state and every injected fault position). *)
From Coq Require Import List ZArith NArith Bool Lia.
From SopVerif Require Import Proto.
Import ListNotations.
Local Open Scope N_scope.

(* ------------------------------------------------------------------ registry and blob list lemmas *)

Lemma lookup_In r l h : lookup r l = Some h -> In h r /\ lid h = l.
Proof.
  induction r as [|x r IH]; cbn [lookup]; [discriminate|].
  destruct (N.eqb_spec (lid x) l) as [E|E]; intros H.
  - inversion H; subst. split; [left; reflexivity|reflexivity].
  - destruct (IH H) as [Hin Hl]. split; [right; exact Hin|exact Hl].
Qed.

Lemma lookup_reg_set r x l : lookup (reg_set r x) l = if lid x =? l then Some x else lookup r l.
Proof.
  induction r as [|y r IH]; cbn [reg_set lookup].
  - destruct (lid x =? l); reflexivity.
  - destruct (N.eqb_spec (lid y) (lid x)) as [E|E]; cbn [lookup].
    + rewrite E. destruct (lid x =? l); reflexivity.
    + destruct (N.eqb_spec (lid y) l) as [E2|E2].
      * destruct (N.eqb_spec (lid x) l) as [E3|E3]; [congruence|reflexivity].
      * exact IH.
Qed.

Lemma In_reg_set r x h : In h (reg_set r x) -> h = x \/ In h r.
Proof.
  induction r as [|y r IH]; cbn [reg_set]; intros H.
  - destruct H as [H|[]]; left; congruence.
  - destruct (lid y =? lid x).
    + destruct H as [H|H]; [left; congruence|right; right; exact H].
    + destruct H as [H|H]; [right; left; exact H|].
      destruct (IH H) as [H'|H']; [left; exact H'|right; right; exact H'].
Qed.

Lemma In_fold_set hs : forall r h, In h (fold_left reg_set hs r) -> In h hs \/ In h r.
Proof.
  induction hs as [|x hs IH]; cbn [fold_left]; intros r h H; [right; exact H|].
  destruct (IH _ _ H) as [H1|H1]; [left; right; exact H1|].
  destruct (In_reg_set _ _ _ H1) as [H2|H2]; [left; left; congruence|right; exact H2].
Qed.

Lemma dom_fold_set hs : forall r l h, lookup r l = Some h -> exists h', lookup (fold_left reg_set hs r) l = Some h'.
Proof.
  induction hs as [|x hs IH]; cbn [fold_left]; intros r l h H; [eauto|].
  destruct (N.eqb_spec (lid x) l) as [E|E].
  - apply (IH _ l x). rewrite lookup_reg_set. destruct (N.eqb_spec (lid x) l); [reflexivity|contradiction].
  - apply (IH _ l h). rewrite lookup_reg_set. destruct (N.eqb_spec (lid x) l); [contradiction|exact H].
Qed.

Lemma In_reg_del r l h : In h (reg_del r l) -> In h r.
Proof.
  induction r as [|y r IH]; cbn [reg_del]; intros H; [exact H|].
  destruct (lid y =? l); [right; exact H|].
  destruct H as [H|H]; [left; exact H|right; exact (IH H)].
Qed.

Lemma lookup_reg_del_other r l l' : l <> l' -> lookup (reg_del r l') l = lookup r l.
Proof.
  intros Hne. induction r as [|y r IH]; cbn [reg_del lookup]; [reflexivity|].
  destruct (N.eqb_spec (lid y) l') as [E|E].
  - destruct (N.eqb_spec (lid y) l) as [E2|E2]; [congruence|reflexivity].
  - cbn [lookup]. destruct (lid y =? l); [reflexivity|exact IH].
Qed.

Lemma In_fold_del ids : forall r h, In h (fold_left reg_del ids r) -> In h r.
Proof.
  induction ids as [|i ids IH]; cbn [fold_left]; intros r h H; [exact H|].
  apply (In_reg_del r i). apply IH. exact H.
Qed.

Lemma lookup_fold_del ids : forall r l, ~ In l ids -> lookup (fold_left reg_del ids r) l = lookup r l.
Proof.
  induction ids as [|i ids IH]; cbn [fold_left]; intros r l Hn; [reflexivity|].
  rewrite IH by (intros H; apply Hn; right; exact H).
  apply lookup_reg_del_other. intros E; apply Hn; left; congruence.
Qed.

Lemma mem_In x l : mem x l = true <-> In x l.
Proof.
  unfold mem. rewrite existsb_exists. split.
  - intros [y [Hy E]]. apply N.eqb_eq in E. subst. exact Hy.
  - intros H. exists x. split; [exact H|apply N.eqb_refl].
Qed.

Lemma In_blob_add ids : forall b x, In x b -> In x (blob_add b ids).
Proof.
  unfold blob_add. induction ids as [|i ids IH]; cbn [fold_left]; intros b x H; [exact H|].
  apply IH. destruct (mem i b); [exact H|apply in_or_app; left; exact H].
Qed.

Lemma In_blob_del b ids x : In x b -> ~ In x ids -> In x (blob_del b ids).
Proof.
  intros H Hn. unfold blob_del. apply filter_In. split; [exact H|].
  destruct (mem x ids) eqn:E; [apply mem_In in E; contradiction|reflexivity].
Qed.

Lemma reg_get_In r ids h : In h (reg_get r ids) -> In h r /\ In (lid h) ids.
Proof.
  unfold reg_get. intros H. apply in_flat_map in H. destruct H as [l [Hl H]].
  destruct (lookup r l) as [h'|] eqn:E; [|contradiction].
  destruct H as [H|[]]. subst h'. destruct (lookup_In _ _ _ E) as [Hin Hlid].
  split; [exact Hin|rewrite Hlid; exact Hl].
Qed.

(* ------------------------------------------------------------------ the invariant *)

Definition actives (d0 : disk) : list N := map active (reg d0).

(* h carries the same active blob and version as the pre-commit handle of its logical id (if there is one),
   and its inactive id is not the active blob of any pre-commit node *)
Definition okh (d0 : disk) (h : handle) : Prop :=
  (forall h0, lookup (reg d0) (lid h) = Some h0 -> active h = active h0 /\ ver h = ver h0)
  /\ ~ In (inactive h) (actives d0).

Record J (d0 d : disk) : Prop := mkJ {
  J_dom : forall l h0, lookup (reg d0) l = Some h0 -> exists h, lookup (reg d) l = Some h;
  J_ok : forall h, In h (reg d) -> okh d0 h;
  J_blob : forall l h0, lookup (reg d0) l = Some h0 -> In (active h0) (blobs d0) -> In (active h0) (blobs d);
  J_plog : forall hs, plog d = Some hs -> Forall (okh d0) hs
}.

Definition call_ok (d0 : disk) (c : call) : Prop :=
  match c with
  | RegAdd hs | RegUpd _ hs | PlogAdd hs => Forall (okh d0) hs
  | RegRemove ids => Forall (fun l => lookup (reg d0) l = None) ids
  | BlobRemove ids => Forall (fun i => ~ In i (actives d0)) ids
  | _ => True
  end.

Lemma active_in_actives d0 l h0 : lookup (reg d0) l = Some h0 -> In (active h0) (actives d0).
Proof. intros H. apply lookup_In in H. destruct H as [H _]. unfold actives. apply in_map. exact H. Qed.

Lemma apply_call_J d0 d c d' : J d0 d -> call_ok d0 c -> apply_call d c = Some d' -> J d0 d'.
Proof.
  intros [Hdom Hok Hblob Hpl] Hc Ha.
  destruct c as [s| |ids|ids|ids|hs|b hs|ids|ds|hs| |]; cbn [apply_call call_ok] in *.
  - inversion Ha; subst; constructor; assumption.
  - destruct (tlog d); inversion Ha; subst; constructor; assumption.
  - inversion Ha; subst; constructor; cbn [reg blobs plog]; try assumption.
    intros l h0 H1 H2. apply In_blob_add. eapply Hblob; eassumption.
  - inversion Ha; subst; constructor; cbn [reg blobs plog]; try assumption.
    intros l h0 H1 H2. apply In_blob_del; [eapply Hblob; eassumption|].
    intros Hin. rewrite Forall_forall in Hc. apply (Hc _ Hin). eapply active_in_actives; eassumption.
  - inversion Ha; subst; constructor; assumption.
  - inversion Ha; subst; constructor; cbn [reg blobs plog]; try assumption.
    + intros l h0 H1. destruct (Hdom _ _ H1) as [h Hh]. eapply dom_fold_set; eassumption.
    + intros h Hin. destruct (In_fold_set _ _ _ Hin) as [H|H]; [rewrite Forall_forall in Hc; exact (Hc _ H)|exact (Hok _ H)].
  - inversion Ha; subst; constructor; cbn [reg blobs plog]; try assumption.
    + intros l h0 H1. destruct (Hdom _ _ H1) as [h Hh]. eapply dom_fold_set; eassumption.
    + intros h Hin. destruct (In_fold_set _ _ _ Hin) as [H|H]; [rewrite Forall_forall in Hc; exact (Hc _ H)|exact (Hok _ H)].
  - destruct (forallb _ ids); [|discriminate]. inversion Ha; subst; constructor; cbn [reg blobs plog]; try assumption.
    + intros l h0 H1. destruct (Hdom _ _ H1) as [h Hh]. exists h.
      rewrite lookup_fold_del; [exact Hh|]. intros Hin. rewrite Forall_forall in Hc. rewrite (Hc _ Hin) in H1. discriminate.
    + intros h Hin. apply Hok. eapply In_fold_del; eassumption.
  - inversion Ha; subst; constructor; assumption.
  - inversion Ha; subst; constructor; cbn [reg blobs plog]; try assumption.
    intros hs' E. inversion E; subst. exact Hc.
  - inversion Ha; subst; constructor; assumption.
  - inversion Ha; subst; constructor; cbn [reg blobs plog]; try assumption. intros hs' E; discriminate.
Qed.

(* ------------------------------------------------------------------ programs preserve the invariant *)

Definition Jst (d0 : disk) (s : st) : Prop := J d0 (dk s).

Lemma issue_dk_fail c s s' : issue c s = (false, s') -> dk s' = dk s.
Proof.
  unfold issue. destruct (fault s) as [[|n]|]; intros H.
  - inversion H; reflexivity.
  - destruct (apply_call (dk s) c); inversion H; reflexivity.
  - destruct (apply_call (dk s) c); inversion H; reflexivity.
Qed.

Lemma issue_J d0 c s : Jst d0 s -> call_ok d0 c -> Jst d0 (snd (issue c s)).
Proof.
  unfold Jst, issue. intros HJ Hc. destruct (fault s) as [[|n]|]; cbn [snd dk]; try exact HJ;
    destruct (apply_call (dk s) c) as [d'|] eqn:E; cbn [snd dk]; try exact HJ; eapply apply_call_J; eassumption.
Qed.

Lemma log_J d0 f s : Jst d0 s -> Jst d0 (snd (log f s)).
Proof. intros H. unfold log. apply issue_J; [exact H|exact I]. Qed.

Definition pres (d0 : disk) (p : st -> flow * st) : Prop := forall s, Jst d0 s -> Jst d0 (snd (p s)).

Lemma pres_seq d0 a b : pres d0 a -> pres d0 b -> pres d0 (seq a b).
Proof.
  intros Ha Hb s HJ. unfold seq. specialize (Ha s HJ). destruct (a s) as [[| |] s']; cbn [snd] in *; try exact Ha.
  apply Hb. exact Ha.
Qed.

Lemma pres_lift_issue d0 c : call_ok d0 c -> pres d0 (lift (issue c)).
Proof.
  intros Hc s HJ. unfold lift. pose proof (issue_J d0 c s HJ Hc) as H. destruct (issue c s) as [[|] s']; exact H.
Qed.

Lemma pres_lift_log d0 f : pres d0 (lift (log f)).
Proof.
  intros s HJ. unfold lift. pose proof (log_J d0 f s HJ) as H. destruct (log f s) as [[|] s']; exact H.
Qed.

Lemma pres_when d0 c p : pres d0 p -> pres d0 (when c p).
Proof. intros Hp s HJ. unfold when. destruct c; [apply Hp; exact HJ|exact HJ]. Qed.

Lemma best_J d0 c s : Jst d0 s -> call_ok d0 c -> Jst d0 (best (issue c) s).
Proof. intros. unfold best. apply issue_J; assumption. Qed.

(* what the transaction must satisfy with respect to the pre-commit state *)
Record W (d0 : disk) (t : txn) : Prop := mkW {
  W_zero : ~ In 0 (actives d0);
  W_roots : Forall (fun l => lookup (reg d0) l = None) (roots t);
  W_added : Forall (fun l => lookup (reg d0) l = None) (added t);
  W_added_blob : Forall (fun l => ~ In l (actives d0)) (added t);
  W_roots_blob : Forall (fun l => ~ In l (actives d0)) (roots t);
  W_pids : Forall (fun x => ~ In (snd x) (actives d0)) (updated t);
  W_rbvals : Forall (fun i => ~ In i (actives d0)) (rb_vals t)
}.

Lemma okh_new d0 l : ~ In 0 (actives d0) -> lookup (reg d0) l = None -> okh d0 (new_handle l).
Proof.
  intros Hz Hn. split.
  - cbn [lid new_handle]. intros h0 E. rewrite Hn in E. discriminate.
  - cbn. exact Hz.
Qed.
Lemma okh_added d0 l : ~ In 0 (actives d0) -> lookup (reg d0) l = None -> okh d0 (added_handle l).
Proof.
  intros Hz Hn. split.
  - cbn [lid added_handle]. intros h0 E. rewrite Hn in E. discriminate.
  - cbn. exact Hz.
Qed.

Lemma set_del_props h d w : lid (set_del h d w) = lid h /\ active (set_del h d w) = active h
  /\ inactive (set_del h d w) = inactive h /\ ver (set_del h d w) = ver h.
Proof. unfold set_del, active, inactive; cbn. repeat split. Qed.

Lemma set_inactive_props h p w : lid (set_inactive h p w) = lid h /\ active (set_inactive h p w) = active h
  /\ inactive (set_inactive h p w) = p /\ ver (set_inactive h p w) = ver h.
Proof. unfold set_inactive, active, inactive. destruct (activeB h) eqn:E; cbn; rewrite ?E; repeat split. Qed.

Lemma okh_set_del d0 h d w : okh d0 h -> okh d0 (set_del h d w).
Proof.
  intros [H1 H2]. destruct (set_del_props h d w) as [E1 [E2 [E3 E4]]]. split.
  - rewrite E1, E2, E4. exact H1.
  - rewrite E3. exact H2.
Qed.

Lemma okh_set_inactive d0 h p w : okh d0 h -> ~ In p (actives d0) -> okh d0 (set_inactive h p w).
Proof.
  intros [H1 H2] Hp. destruct (set_inactive_props h p w) as [E1 [E2 [E3 E4]]]. split.
  - rewrite E1, E2, E4. exact H1.
  - rewrite E3. exact Hp.
Qed.

Lemma allocate_ok d0 h p h' : okh d0 h -> ~ In p (actives d0) -> allocate h p = Some h' -> okh d0 h'.
Proof.
  unfold allocate. intros Hh Hp. destruct (both_in_use h); [discriminate|]. intros E; inversion E; subst.
  apply okh_set_inactive; assumption.
Qed.

Lemma claim_ok d0 h v p h' : ~ In 0 (actives d0) -> okh d0 h -> ~ In p (actives d0) -> claim h v p = Some h' -> okh d0 h'.
Proof.
  intros Hz Hh Hp. unfold claim.
  destruct ((del h && negb (expired h)) || negb (Z.eqb (ver h) v)); [discriminate|].
  set (h1 := if del h && expired h then set_del h false (wip h) else h).
  assert (H1 : okh d0 h1) by (unfold h1; destruct (del h && expired h); [apply okh_set_del|]; exact Hh).
  destruct (allocate h1 p) as [h2|] eqn:E.
  - intros E2; inversion E2; subst. eapply allocate_ok; eassumption.
  - destruct (expired h1); [|discriminate]. intros E2.
    eapply allocate_ok; [|exact Hp|exact E2]. unfold clear_inactive. apply okh_set_inactive; assumption.
Qed.

Lemma claims_ok d0 r : ~ In 0 (actives d0) -> (forall h, In h r -> okh d0 h) ->
  forall u hs, Forall (fun x => ~ In (snd x) (actives d0)) u -> claims r u = Some hs -> Forall (okh d0) hs.
Proof.
  intros Hz Hr. induction u as [|[[l v] p] u IH]; cbn [claims]; intros hs Hu E.
  - inversion E; constructor.
  - inversion Hu as [|? ? Hp Hu']; subst. cbn [snd] in Hp.
    destruct (lookup r l) as [h|] eqn:El; [|discriminate].
    destruct (claim h v p) as [h'|] eqn:Ec; [|discriminate].
    destruct (claims r u) as [hs'|] eqn:Ecs; [|discriminate]. inversion E; subst.
    constructor; [|apply IH; [exact Hu'|reflexivity]].
    eapply claim_ok; [exact Hz| |exact Hp|exact Ec]. apply Hr. apply lookup_In in El. tauto.
Qed.

Lemma marks_ok d0 r : (forall h, In h r -> okh d0 h) ->
  forall u hs, marks r u = Some hs -> Forall (okh d0) hs.
Proof.
  intros Hr. induction u as [|[l v] u IH]; cbn [marks]; intros hs E.
  - inversion E; constructor.
  - destruct (lookup r l) as [h|] eqn:El; [|apply IH; exact E].
    destruct (del h || negb (Z.eqb (ver h) v)); [discriminate|].
    destruct (marks r u) as [hs'|] eqn:Em; [|discriminate]. inversion E; subst.
    constructor; [|apply IH; reflexivity]. apply okh_set_del. apply Hr. apply lookup_In in El. tauto.
Qed.

Lemma cur_handles_ok d0 s ids : Jst d0 s -> Forall (okh d0) (cur_handles s ids).
Proof.
  intros HJ. apply Forall_forall. intros h Hin. unfold cur_handles in Hin.
  apply reg_get_In in Hin. destruct Hin as [Hin _]. exact (J_ok _ _ HJ _ Hin).
Qed.

Section Phases.
Variable d0 : disk.
Variable t : txn.
Hypothesis HW : W d0 t.

Lemma pres_roots : pres d0 (p_roots t).
Proof.
  unfold p_roots. apply pres_when. apply pres_seq; [apply pres_lift_issue; exact I|].
  intros s HJ. destruct (nonempty (reg_get (reg (dk s)) (roots t))); [exact HJ|].
  apply pres_seq; [apply pres_lift_issue; exact I| |exact HJ].
  apply pres_lift_issue. cbn [call_ok]. apply Forall_forall. intros h Hin. apply in_map_iff in Hin.
  destruct Hin as [l [E Hl]]. subst h. apply okh_new; [exact (W_zero _ _ HW)|].
  pose proof (W_roots _ _ HW) as Hr. rewrite Forall_forall in Hr. exact (Hr _ Hl).
Qed.

Lemma pres_fetched : pres d0 (p_fetched t).
Proof.
  unfold p_fetched. apply pres_when. apply pres_seq; [apply pres_lift_issue; exact I|].
  intros s HJ. destruct (versions_match _ _); exact HJ.
Qed.

Lemma pres_updated : pres d0 (p_updated t).
Proof.
  unfold p_updated. apply pres_when. apply pres_seq; [apply pres_lift_issue; exact I|].
  intros s HJ. destruct (claims (reg (dk s)) (updated t)) as [hs|] eqn:E; [|exact HJ].
  apply pres_seq; [| |exact HJ].
  - apply pres_lift_issue. cbn [call_ok].
    eapply claims_ok; [exact (W_zero _ _ HW)|exact (J_ok _ _ HJ)|exact (W_pids _ _ HW)|exact E].
  - apply pres_lift_issue. exact I.
Qed.

Lemma pres_removed : pres d0 (p_removed t).
Proof.
  unfold p_removed. apply pres_when. apply pres_seq; [apply pres_lift_issue; exact I|].
  intros s HJ. destruct (marks (reg (dk s)) (removed t)) as [hs|] eqn:E; [|exact HJ].
  apply pres_lift_issue; [|exact HJ]. cbn [call_ok]. eapply marks_ok; [exact (J_ok _ _ HJ)|exact E].
Qed.

Lemma pres_added : pres d0 (p_added t).
Proof.
  unfold p_added. apply pres_when. apply pres_seq; [|apply pres_lift_issue; exact I].
  apply pres_lift_issue. cbn [call_ok]. apply Forall_forall. intros h Hin. apply in_map_iff in Hin.
  destruct Hin as [l [E Hl]]. subst h. apply okh_added; [exact (W_zero _ _ HW)|].
  pose proof (W_added _ _ HW) as Hr. rewrite Forall_forall in Hr. exact (Hr _ Hl).
Qed.

Lemma pres_phase1 : pres d0 (phase1 t).
Proof.
  unfold phase1. apply pres_when.
  repeat (apply pres_seq; [first [apply pres_lift_log | apply pres_roots | apply pres_fetched | apply pres_updated
                                  | apply pres_removed | apply pres_added
                                  | apply pres_when; apply pres_lift_issue; exact I]|]).
  intros s HJ. apply pres_when; [|exact HJ]. apply pres_lift_issue. cbn [call_ok].
  apply Forall_app. split; apply cur_handles_ok; exact HJ.
Qed.

Lemma Forall_undelete hs : Forall (okh d0) hs -> Forall (okh d0) (undelete hs).
Proof.
  intros H. unfold undelete. apply Forall_forall. intros h Hin. apply in_flat_map in Hin.
  destruct Hin as [x [Hx Hin]]. rewrite Forall_forall in H. specialize (H _ Hx).
  destruct (del x || negb (wip x =? 0)); [|contradiction]. destruct Hin as [E|[]]. subst h. apply okh_set_del. exact H.
Qed.

Lemma Forall_rb_updated hs : Forall (okh d0) hs -> Forall (okh d0) (rb_updated_handles hs).
Proof.
  intros H. unfold rb_updated_handles. apply Forall_forall. intros h Hin. apply in_map_iff in Hin.
  destruct Hin as [x [E Hx]]. rewrite Forall_forall in H. specialize (H _ Hx). subst h.
  destruct (inactive x =? 0); [apply okh_set_del; exact H|].
  unfold clear_inactive. apply okh_set_inactive; [exact H|exact (W_zero _ _ HW)].
Qed.

Lemma Forall_rb_blobs hs : Forall (okh d0) hs -> Forall (fun i => ~ In i (actives d0)) (rb_updated_blobs hs).
Proof.
  intros H. unfold rb_updated_blobs. apply Forall_forall. intros i Hin. apply in_flat_map in Hin.
  destruct Hin as [x [Hx Hin]]. rewrite Forall_forall in H. specialize (H _ Hx).
  destruct (inactive x =? 0); [contradiction|]. destruct Hin as [E|[]]. subst i. exact (proj2 H).
Qed.

Lemma rollback_J b s : Jst d0 s -> Jst d0 (rollback t b s).
Proof.
  intros HJ. unfold rollback.
  set (s1 := if beforeFinalize <=? cs s then best (issue PlogRemove) s else s).
  assert (H1 : Jst d0 s1) by (unfold s1; destruct (beforeFinalize <=? cs s); [apply best_J; [exact HJ|exact I]|exact HJ]).
  set (s2 := if (commitStoreInfo <? cs s) && nonempty (rb_stores t) then best (issue (SrUpdate (rb_stores t))) s1 else s1).
  assert (H2 : Jst d0 s2) by (unfold s2; destruct ((commitStoreInfo <? cs s) && nonempty (rb_stores t)); [apply best_J; [exact H1|exact I]|exact H1]).
  set (s3 := if (commitAddedNodes <? cs s) && nonempty (added t)
             then best (issue (RegRemove (added t))) (best (issue (BlobRemove (added t))) s2) else s2).
  assert (H3 : Jst d0 s3).
  { unfold s3. destruct ((commitAddedNodes <? cs s) && nonempty (added t)); [|exact H2].
    apply best_J; [apply best_J; [exact H2|exact (W_added_blob _ _ HW)]|exact (W_added _ _ HW)]. }
  set (s4 := if (commitRemovedNodes <? cs s) && nonempty (removed t)
             then (let s' := best (issue (RegGet (map fst (removed t)))) s3 in
                   best (issue (RegUpd false (undelete (cur_handles s' (map fst (removed t)))))) s')
             else s3).
  assert (H4 : Jst d0 s4).
  { unfold s4. destruct ((commitRemovedNodes <? cs s) && nonempty (removed t)); [|exact H3].
    cbv zeta. assert (Hs' : Jst d0 (best (issue (RegGet (map fst (removed t)))) s3)) by (apply best_J; [exact H3|exact I]).
    apply best_J; [exact Hs'|]. cbn [call_ok]. apply Forall_undelete. apply cur_handles_ok. exact Hs'. }
  set (s5 := if (commitUpdatedNodes <? cs s) && nonempty (updated t)
             then (let s' := best (issue (RegGet (map (fun x => fst (fst x)) (updated t)))) s4 in
                   let hs := cur_handles s' (map (fun x => fst (fst x)) (updated t)) in
                   best (issue (RegUpd false (rb_updated_handles hs))) (best (issue (BlobRemove (rb_updated_blobs hs))) s'))
             else s4).
  assert (H5 : Jst d0 s5).
  { unfold s5. destruct ((commitUpdatedNodes <? cs s) && nonempty (updated t)); [|exact H4].
    cbv zeta. assert (Hs' : Jst d0 (best (issue (RegGet (map (fun x => fst (fst x)) (updated t)))) s4)) by (apply best_J; [exact H4|exact I]).
    pose proof (cur_handles_ok d0 _ (map (fun x => fst (fst x)) (updated t)) Hs') as Hcur.
    apply best_J; [apply best_J; [exact Hs'|]|].
    - cbn [call_ok]. apply Forall_rb_blobs. exact Hcur.
    - cbn [call_ok]. apply Forall_rb_updated. exact Hcur. }
  set (s6 := if (commitNewRootNodes <? cs s) && nonempty (roots t)
             then (let s' := best (issue (RegGet (roots t))) (best (issue (BlobRemove (roots t))) s5) in
                   let present := map lid (cur_handles s' (roots t)) in
                   if nonempty present then best (issue (RegRemove present)) s' else s')
             else s5).
  assert (H6 : Jst d0 s6).
  { unfold s6. destruct ((commitNewRootNodes <? cs s) && nonempty (roots t)); [|exact H5].
    cbv zeta.
    assert (Hs' : Jst d0 (best (issue (RegGet (roots t))) (best (issue (BlobRemove (roots t))) s5))).
    { apply best_J; [apply best_J; [exact H5|exact (W_roots_blob _ _ HW)]|exact I]. }
    match goal with |- Jst _ (if ?c then _ else _) => destruct c end; [|exact Hs']. apply best_J; [exact Hs'|]. cbn [call_ok].
    apply Forall_forall. intros l Hin. apply in_map_iff in Hin. destruct Hin as [h [E Hh]]. subst l.
    unfold cur_handles in Hh. apply reg_get_In in Hh. destruct Hh as [_ Hr].
    pose proof (W_roots _ _ HW) as Hroots. rewrite Forall_forall in Hroots. exact (Hroots _ Hr). }
  set (s7 := if b && (commitTrackedItemsValues <=? cs s) && nonempty (rb_vals t)
             then best (issue (BlobRemove (rb_vals t))) s6 else s6).
  assert (H7 : Jst d0 s7).
  { unfold s7. destruct (b && (commitTrackedItemsValues <=? cs s) && nonempty (rb_vals t)); [|exact H6].
    apply best_J; [exact H6|exact (W_rbvals _ _ HW)]. }
  unfold Jst. cbn [dk]. apply (best_J d0 TlogRemove s7 H7 I).
Qed.

Lemma priority_rollback_J s : Jst d0 s -> Jst d0 (priority_rollback s).
Proof.
  intros HJ. unfold priority_rollback.
  assert (H1 : Jst d0 (best (issue PlogGet) s)) by (apply best_J; [exact HJ|exact I]).
  destruct (plog (dk (best (issue PlogGet) s))) as [hs|] eqn:E.
  - pose proof (issue_J d0 (RegUpd false hs) _ H1 (J_plog _ _ H1 _ E)) as H2.
    destruct (issue (RegUpd false hs) (best (issue PlogGet) s)) as [[|] s2]; cbn [snd] in H2; [|exact H2].
    apply best_J; [exact H2|exact I].
  - apply best_J; [exact H1|exact I].
Qed.

(* main result of this part: whatever the fault position, a commit that does not report success preserves J *)
Theorem commit_not_committed_J s o s' : Jst d0 s -> commit t s = (o, s') -> o <> Committed -> Jst d0 s'.
Proof.
  intros HJ E Hne. unfold commit in E.
  pose proof (pres_phase1 s HJ) as H1. destruct (phase1 t s) as [[| |] s1]; cbn [snd] in H1.
  - pose proof (log_J d0 finalizeCommit s1 H1) as H2.
    destruct (log finalizeCommit s1) as [[|] s2]; cbn [snd] in H2.
    + destruct (nonempty (to_flip t s2)).
      * destruct (issue (RegUpd true (to_flip t s2)) s2) as [[|] s3] eqn:E3.
        -- inversion E; subst. contradiction.
        -- inversion E; subst. apply rollback_J. apply priority_rollback_J.
           unfold Jst. rewrite (issue_dk_fail _ _ _ E3). exact H2.
      * inversion E; subst. contradiction.
    + inversion E; subst. apply rollback_J. apply best_J; [exact H2|exact I].
  - inversion E; subst. apply rollback_J. exact H1.
  - inversion E; subst. apply rollback_J. exact H1.
Qed.

End Phases.

(* ------------------------------------------------------------------ the initial state satisfies the invariant *)

Record wf_disk (d : disk) : Prop := mkWf {
  wf_nodup : NoDup (map lid (reg d));
  wf_inactive : forall h, In h (reg d) -> ~ In (inactive h) (actives d);
  wf_plog : plog d = None
}.

Lemma lookup_nodup r h : NoDup (map lid r) -> In h r -> lookup r (lid h) = Some h.
Proof.
  induction r as [|x r IH]; cbn [map lookup]; intros Hnd Hin; [contradiction|].
  inversion Hnd as [|? ? Hnotin Hnd']; subst. destruct Hin as [E|Hin].
  - subst x. rewrite N.eqb_refl. reflexivity.
  - destruct (N.eqb_spec (lid x) (lid h)) as [E|E].
    + exfalso. apply Hnotin. rewrite E. apply in_map. exact Hin.
    + apply IH; assumption.
Qed.

Lemma J_init d : wf_disk d -> J d d.
Proof.
  intros [Hnd Hin Hpl]. constructor.
  - intros l h0 H. exists h0. exact H.
  - intros h Hh. split.
    + intros h0 E. rewrite (lookup_nodup _ _ Hnd Hh) in E. inversion E; subst. split; reflexivity.
    + apply Hin. exact Hh.
  - intros l h0 _ H. exact H.
  - intros hs E. rewrite Hpl in E. discriminate.
Qed.

(* every pre-existing logical id still resolves to the same blob, and that blob is still present *)
Theorem failed_commit_preserves_view t d f o d' tr' :
  wf_disk d -> W d t -> run t d f = (o, d', tr') -> o <> Committed ->
  forall l h0, lookup (reg d) l = Some h0 ->
    resolve d' l = Some (active h0)
    /\ (exists h, lookup (reg d') l = Some h /\ ver h = ver h0)
    /\ (In (active h0) (blobs d) -> In (active h0) (blobs d')).
Proof.
  intros Hwf HW Hrun Hne l h0 Hl. unfold run in Hrun.
  destruct (commit t (init d f)) as [o1 s1] eqn:E. inversion Hrun; subst.
  assert (HJ : Jst d s1).
  { eapply commit_not_committed_J; [exact HW| |exact E|exact Hne]. unfold Jst, init; cbn [dk]. apply J_init. exact Hwf. }
  destruct (J_dom _ _ HJ _ _ Hl) as [h Hh].
  pose proof (lookup_In _ _ _ Hh) as [Hin Hlid].
  destruct (J_ok _ _ HJ _ Hin) as [Hag _]. rewrite Hlid in Hag. destruct (Hag _ Hl) as [Ha Hv].
  split; [|split].
  - unfold resolve. rewrite Hh. rewrite Ha. reflexivity.
  - exists h. split; [exact Hh|exact Hv].
  - intros Hb. exact (J_blob _ _ HJ _ _ Hl Hb).
Qed.

(* C38 — lemmas about the heap model of Alias.v *)
From Coq Require Import List NArith Bool Arith Lia.
From SopVerif Require Import Alias.
Import ListNotations.

(* every reference inside the heap points into the heap *)
Definition closed (h : heap) : Prop :=
  forall i c j, nth_error h i = Some c -> nxt c = Some j -> j < length h.

Definition valid (h : heap) (o : option nat) : Prop :=
  match o with Some i => i < length h | None => True end.

Lemma nth_error_app_l : forall (A : Type) (h t : list A) i, i < length h -> nth_error (h ++ t) i = nth_error h i.
Proof. intros A h t i Hi. apply nth_error_app1. exact Hi. Qed.

(* the deep content of a chain does not change when the heap grows *)
Lemma snap_stable_app : forall f h t o, closed h -> valid h o -> snap_from f (h ++ t) o = snap_from f h o.
Proof.
  induction f as [|f IH]; intros h t o Hc Hv; [reflexivity|].
  destruct o as [i|]; [|reflexivity]. cbn [snap_from]. cbn [valid] in Hv.
  rewrite nth_error_app_l by exact Hv.
  destruct (nth_error h i) as [c|] eqn:E; [|reflexivity].
  f_equal. apply IH; [exact Hc|].
  destruct (nxt c) as [j|] eqn:Ej; cbn [valid]; [|exact I]. exact (Hc i c j E Ej).
Qed.

Lemma closed_app_cell : forall h c, closed h -> valid h (nxt c) -> closed (h ++ [c]).
Proof.
  intros h c Hc Hv i c' j Hn Hj. rewrite app_length. cbn [length].
  destruct (Nat.lt_ge_cases i (length h)) as [Hi|Hi].
  - rewrite nth_error_app_l in Hn by exact Hi. specialize (Hc i c' j Hn Hj). lia.
  - rewrite nth_error_app2 in Hn by exact Hi.
    destruct (i - length h) as [|m] eqn:Em; cbn in Hn.
    + inversion Hn; subst c'. unfold valid in Hv. rewrite Hj in Hv. lia.
    + destruct m; discriminate.
Qed.

(* decode allocates at the end of the heap and round-trips *)
Lemma alloc_chain_spec : forall d h, closed h ->
  exists t, fst (alloc_chain h d) = h ++ t /\ closed (h ++ t) /\ valid (h ++ t) (snd (alloc_chain h d)) /\
            (forall f, length d <= f -> snap_from f (h ++ t) (snd (alloc_chain h d)) = d).
Proof.
  induction d as [|x xs IH]; intros h Hc.
  - exists []. cbn. rewrite app_nil_r. repeat split; try assumption. intros f _. destruct f; reflexivity.
  - destruct (IH h Hc) as (t & Ht & Hct & Hv & Hs).
    cbn [alloc_chain]. destruct (alloc_chain h xs) as [h1 nx] eqn:E. cbn [fst snd] in *. subst h1.
    exists (t ++ [mkCell x nx]). rewrite app_assoc. cbn [fst snd].
    assert (Hc2 : closed ((h ++ t) ++ [mkCell x nx])) by (apply closed_app_cell; assumption).
    repeat split.
    + exact Hc2.
    + cbn [valid]. rewrite !app_length. cbn [length]. lia.
    + intros f Hf. destruct f as [|f]; [cbn in Hf; lia|].
      cbn [snap_from]. rewrite nth_error_app2 by lia. rewrite Nat.sub_diag. cbn [nth_error pay nxt].
      f_equal. rewrite snap_stable_app by assumption. apply Hs. cbn in Hf. lia.
Qed.

Lemma alloc_node_app : forall d h, closed h ->
  exists t, fst (alloc_node h d) = h ++ t /\ closed (h ++ t).
Proof.
  induction d as [|[k v] r IH]; intros h Hc.
  - exists []. cbn. rewrite app_nil_r. split; [reflexivity|exact Hc].
  - destruct (IH h Hc) as (t & Ht & Hct).
    cbn [alloc_node]. destruct (alloc_node h r) as [h1 n] eqn:E. cbn [fst] in Ht. subst h1.
    destruct (alloc_chain_spec v (h ++ t) Hct) as (t2 & Ht2 & Hc2 & Hv2 & _).
    destruct (alloc_chain (h ++ t) v) as [h2 c] eqn:E2. cbn [fst snd] in *. subst h2.
    destruct c as [i|]; cbn [fst].
    + exists (t ++ t2). rewrite app_assoc. split; [reflexivity|exact Hc2].
    + exists (t ++ t2 ++ [mkCell 0 None]). rewrite !app_assoc. split; [reflexivity|].
      rewrite <- app_assoc. rewrite app_assoc. apply closed_app_cell; [|exact I].
      rewrite <- app_assoc in Hc2. rewrite app_assoc in Hc2. rewrite <- app_assoc. rewrite app_assoc. exact Hc2.
Qed.

Lemma fetch_app : forall s, closed (hp s) ->
  exists t, hp (fst (fetch s)) = hp s ++ t /\ closed (hp s ++ t) /\ hs (fst (fetch s)) = hs s.
Proof.
  intros s Hc. unfold fetch. destruct (txn s).
  - exists []. cbn. rewrite app_nil_r. auto.
  - destruct (l1 s).
    + exists []. cbn. rewrite app_nil_r. auto.
    + destruct (alloc_node_app (dur s) (hp s) Hc) as (t & Ht & Hct).
      destruct (alloc_node (hp s) (dur s)) as [h1 n] eqn:E. cbn [fst] in Ht. subst h1.
      exists t. cbn. auto.
Qed.

Definition all_value_handles (l : list handle) : Prop :=
  forall i x, nth_error l i = Some x -> exists p nx, x = HVal p nx.

(* a caller that holds only GetCurrentValue results and writes only to its own
   copy (depth 0 / replacement / write-back) never overwrites an existing cell:
   the heap only grows *)
Lemma private_step_grows : forall s a, closed (hp s) -> all_value_handles (hs s) -> private_act a = true ->
  exists t, hp (fst (step s a)) = hp s ++ t.
Proof.
  intros s a Hc Hh Hp. destruct a as [k ap|hi depth v|hi d|k hi]; cbn [step].
  - destruct (fetch_app s Hc) as (t & Ht & _ & _). destruct (fetch s) as [s1 n] eqn:E. cbn [fst] in Ht.
    destruct (lookup n k); cbn [fst]; exists t; exact Ht.
  - destruct (nth_error (hs s) hi) as [x|] eqn:E; [|exists []; cbn; rewrite app_nil_r; reflexivity].
    destruct (Hh hi x E) as (p & nx & ->).
    destruct depth; [|discriminate Hp]. exists []. cbn. rewrite app_nil_r. reflexivity.
  - destruct (nth_error (hs s) hi) as [x|] eqn:E; [|exists []; cbn; rewrite app_nil_r; reflexivity].
    destruct (Hh hi x E) as (p & nx & ->).
    destruct d as [|x xs]; [exists []; cbn; rewrite app_nil_r; reflexivity|].
    destruct (alloc_chain_spec xs (hp s) Hc) as (t & Ht & _).
    destruct (alloc_chain (hp s) xs) as [h1 nx1] eqn:E1. cbn [fst] in Ht. exists t. cbn. exact Ht.
  - destruct (nth_error (hs s) hi) as [x|] eqn:E; [|exists []; cbn; rewrite app_nil_r; reflexivity].
    destruct (fetch_app s Hc) as (t & Ht & _ & _). destruct (fetch s) as [s1 n] eqn:E1. cbn [fst] in Ht.
    destruct (lookup n k); cbn [fst hp].
    + exists (t ++ [match x with
                    | HVal p nx => mkCell p nx
                    | HItem c => match nth_error (hp s1) c with Some x0 => x0 | None => mkCell 0 None end
                    end]). rewrite Ht. rewrite app_assoc. reflexivity.
    + exists t. exact Ht.
Qed.

(* hence the deep content of everything that existed before the step — every
   value any node, cache entry or other reader can reach — is unchanged *)
Lemma private_step_preserves : forall s a i, closed (hp s) -> all_value_handles (hs s) -> private_act a = true ->
  i < length (hp s) -> snapshot (hp (fst (step s a))) i = snapshot (hp s) i.
Proof.
  intros s a i Hc Hh Hp Hi. destruct (private_step_grows s a Hc Hh Hp) as (t & Ht).
  rewrite Ht. unfold snapshot. apply snap_stable_app; [exact Hc|exact Hi].
Qed.

(* a read that is not served by the L1 cache returns the committed data *)
Lemma alloc_node_lookup : forall d h k v, closed h -> lookup d k = Some v -> 1 <= length v <= chain_fuel ->
  exists c, lookup (snd (alloc_node h d)) k = Some c /\ snapshot (fst (alloc_node h d)) c = v.
Proof.
  induction d as [|[k' v'] r IH]; intros h k v Hc Hl Hlen; [discriminate Hl|].
  cbn [lookup] in Hl. cbn [alloc_node].
  destruct (alloc_node_app r h Hc) as (t & Ht & Hct).
  destruct (alloc_node h r) as [h1 n] eqn:E. cbn [fst] in Ht. subst h1.
  destruct (alloc_chain_spec v' (h ++ t) Hct) as (t2 & Ht2 & Hc2 & Hv2 & Hs2).
  destruct (alloc_chain (h ++ t) v') as [h2 c] eqn:E2. cbn [fst snd] in *. subst h2.
  destruct (N.eqb k k') eqn:Ek.
  - inversion Hl; subst v'. destruct c as [i|].
    + exists i. cbn [snd fst lookup]. rewrite Ek. split; [reflexivity|]. unfold snapshot. apply Hs2. lia.
    + exfalso. specialize (Hs2 chain_fuel (proj2 Hlen)). cbn in Hs2. destruct v; [cbn in Hlen; lia|discriminate].
  - specialize (IH h k v Hc Hl Hlen). rewrite E in IH. cbn [fst snd] in IH. destruct IH as (c0 & Hl0 & Hs0).
    assert (Hv0 : c0 < length (h ++ t)).
    { unfold snapshot in Hs0. cbn [chain_fuel snap_from] in Hs0.
      destruct (nth_error (h ++ t) c0) eqn:En; [apply nth_error_Some; congruence|].
      subst v. cbn in Hlen. lia. }
    destruct c as [i|]; cbn [snd fst lookup]; rewrite Ek; exists c0; (split; [exact Hl0|]).
    + unfold snapshot. rewrite snap_stable_app; [exact Hs0|exact Hct|exact Hv0].
    + unfold snapshot. rewrite <- app_assoc. rewrite snap_stable_app; [exact Hs0|exact Hct|exact Hv0].
Qed.

Lemma cold_read_committed : forall s k v a, closed (hp s) -> l1 s = None -> txn s = None ->
  lookup (dur s) k = Some v -> 1 <= length v <= chain_fuel ->
  snd (step s (ARead k a)) = (true, v).
Proof.
  intros s k v a Hc Hl Ht Hk Hlen. cbn [step]. unfold fetch. rewrite Ht, Hl.
  destruct (alloc_node_lookup (dur s) (hp s) k v Hc Hk Hlen) as (c & Hlk & Hsn).
  destruct (alloc_node (hp s) (dur s)) as [h1 n] eqn:E. cbn [fst snd] in *.
  rewrite Hlk. cbn [snd hp]. f_equal.
  destruct a; cbn [handle_snap]; [|exact Hsn].
  unfold snapshot in Hsn. cbn [chain_fuel snap_from] in Hsn.
  destruct (nth_error h1 c) as [cl|] eqn:En.
  - cbn [handle_snap chain_fuel pred]. exact Hsn.
  - subst v. cbn in Hlen. lia.
Qed.

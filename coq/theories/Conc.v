(* Conc.v -- abstract interleaving model of SOP's optimistic commit protocol at the granularity
   C02/C03 need.  Definitions only (executable).

   Scope.  Key k lives in B-tree node [k / span] (a fixed partition: node splits/merges and removes
   are outside this model and are covered by the harness oracle only).  Every present key has a
   committed value and an item version (btree.Item.Version, bumped by each committed update); the
   store has a persisted count.  Transactions run a list of reads / updates / adds and then commit
   or roll back.

   Micro-steps of a ForWriting commit (one schedule entry = one micro-step of one transaction):
     LGet   itemActionTracker.lock, first GetStructs : look at the item lock records
     LSet   itemActionTracker.lock, SetStructs       : write own records over whatever is there now
     LVer   itemActionTracker.lock, second GetStructs: verify
            (with [atomic_lock] the three are ONE step: hypothesis "atomic item-lock acquisition")
     NLock  Transaction.phase1Commit: l2Cache.Lock on the updated nodes (all or nothing; waits otherwise)
     Valid  areFetchedItemsIntact + commitUpdatedNodes version checks + refetchAndMerge, abstracted to
            what they decide together: every tracked item still has the item version that was read
     CStore commitStores: StoreRepository.Update merges the count delta into storeinfo.txt (phase 1!)
     Check  itemActionTracker.checkTrackedItems (a missing record is NOT a conflict, as in the code)
     Flip   phase2Commit registry.UpdateNoLocks(allOrNothing): ONE node (handle) per micro-step
     UnN    unlockNodesKeys                  UnI  itemActionTracker.unlock (delete own records)
   A ForReading commit is commitForReaderTransaction: Valid only, no lock records, no node locks.
   Lock records are single-slot per item ([lockRecord]: owner, action); get/get is compatible and the
   second getter does NOT write a record (as in the code).  Locks never expire in this model
   (hypothesis "no lock expiry during commit"). *)
From Coq Require Import List NArith Bool.
From SopVerif Require Import History.
Import ListNotations.
Local Open Scope N_scope.

(* ---- association lists ---- *)
Fixpoint aget {B} (k : N) (l : list (N * B)) : option B :=
  match l with [] => None | (k', v) :: r => if N.eqb k k' then Some v else aget k r end.
Fixpoint adel {B} (k : N) (l : list (N * B)) : list (N * B) :=
  match l with [] => [] | (k', v) :: r => if N.eqb k k' then adel k r else (k', v) :: adel k r end.
Definition aset {B} (k : N) (v : B) (l : list (N * B)) : list (N * B) := (k, v) :: adel k l.

Inductive mode := MW | MR.
Inductive pop := PRd (k : key) | PWr (k : key) (v : val) | PAdd (k : key) (v : val).
Inductive act := AG | AU.

Inductive pc :=
| Work | LGet | LSet | LVer | NLock | Valid | CStore | Check
| Flip (rest : list N) | UnN | UnI | Done (committed : bool).

Record tx := mkTx {
  x_id : N; x_mode : mode;
  x_prog : list pop;                 (* operations still to run *)
  x_abort : bool;                    (* the program ends with Rollback instead of Commit *)
  x_seen : list (key * (N * val));   (* first touch of every tracked item: version and value read *)
  x_wbuf : list (key * val);         (* staged writes *)
  x_res : list op;                   (* API answers so far, newest first *)
  x_toset : list key;                (* lock: records to write *)
  x_pc : pc
}.

Record sys := mkSys {
  s_span : N;                        (* keys per node *)
  s_atomic : bool;                   (* atomic item-lock acquisition *)
  s_sto0 : list (key * val);         (* content before the run *)
  s_sto : list (key * val);          (* committed (visible) content *)
  s_ver : list (key * N);            (* committed item versions *)
  s_cnt : N;                         (* StoreInfo.Count as stored in storeinfo.txt (what Count() of a new reader returns) *)
  s_nlk : list (N * N);              (* node -> holder *)
  s_rec : list (key * (N * act));    (* item lock records *)
  s_txs : list tx
}.

Definition node_of (s : sys) (k : key) : N := k / s_span s.
Definition sval (s : sys) (k : key) : val := match aget k (s_sto s) with Some v => v | None => 0 end.
Definition sver (s : sys) (k : key) : N := match aget k (s_ver s) with Some v => v | None => 0 end.

Definition my_act (t : tx) (k : key) : act :=
  match aget k (x_wbuf t) with Some _ => AU | None => AG end.
Definition act_eqb (a b : act) : bool := match a, b with AG, AG => true | AU, AU => true | _, _ => false end.
Definition both_get (a b : act) : bool := match a, b with AG, AG => true | _, _ => false end.

Definition tracked (t : tx) : list key := map fst (x_seen t).

Fixpoint dedup (l : list N) : list N :=
  match l with [] => [] | a :: r => if existsb (N.eqb a) r then dedup r else a :: dedup r end.
Definition upd_nodes (s : sys) (t : tx) : list N := dedup (map (fun p => node_of s (fst p)) (x_wbuf t)).

(* ---- pieces of the protocol ---- *)

(* lock, first get: None = conflict, Some l = records to write *)
Fixpoint lock_get (s : sys) (t : tx) (ks : list key) : option (list key) :=
  match ks with
  | [] => Some []
  | k :: r =>
      match aget k (s_rec s) with
      | None => option_map (cons k) (lock_get s t r)
      | Some (o, a) =>
          if N.eqb o (x_id t) then lock_get s t r
          else if both_get a (my_act t k) then lock_get s t r
          else None
      end
  end.

Definition lock_set (s : sys) (t : tx) : list (key * (N * act)) :=
  fold_left (fun r k => aset k (x_id t, my_act t k) r) (x_toset t) (s_rec s).

(* lock, verifying get: false = failed *)
Definition lock_verify (s : sys) (t : tx) : bool :=
  forallb (fun k => match aget k (s_rec s) with
                    | None => false
                    | Some (o, a) => N.eqb o (x_id t) || both_get a (my_act t k)
                    end) (x_toset t).

(* checkTrackedItems: a missing record is not a conflict *)
Definition check_tracked (s : sys) (t : tx) : bool :=
  forallb (fun k => match aget k (s_rec s) with
                    | None => true
                    | Some (o, a) => N.eqb o (x_id t) || both_get a (my_act t k)
                    end) (tracked t).

(* keys this transaction adds: staged but never read from the store (addAction items are neither
   lock-recorded nor version-checked; the replayed AddItem of refetchAndMerge fails on a duplicate) *)
Definition adds (t : tx) : list key :=
  filter (fun k => match aget k (x_seen t) with Some _ => false | None => true end) (map fst (x_wbuf t)).

Definition validate (s : sys) (t : tx) : bool :=
  forallb (fun p => N.eqb (sver s (fst p)) (fst (snd p))) (x_seen t)
  && forallb (fun k => match aget k (s_sto s) with None => true | Some _ => false end) (adds t).

Definition nodes_free (s : sys) (t : tx) : bool :=
  forallb (fun n => match aget n (s_nlk s) with None => true | Some o => N.eqb o (x_id t) end) (upd_nodes s t).

Definition drop_my_recs (i : N) (r : list (key * (N * act))) : list (key * (N * act)) :=
  filter (fun p => negb (N.eqb (fst (snd p)) i)) r.
Definition drop_my_nlk (i : N) (l : list (N * N)) : list (N * N) :=
  filter (fun p => negb (N.eqb (snd p) i)) l.

Definition set_tx (s : sys) (t : tx) : list tx :=
  map (fun u => if N.eqb (x_id u) (x_id t) then t else u) (s_txs s).

Definition with_pc (t : tx) (p : pc) : tx :=
  mkTx (x_id t) (x_mode t) (x_prog t) (x_abort t) (x_seen t) (x_wbuf t) (x_res t) (x_toset t) p.

Definition sys_tx (s : sys) (t : tx) : sys :=
  mkSys (s_span s) (s_atomic s) (s_sto0 s) (s_sto s) (s_ver s) (s_cnt s) (s_nlk s) (s_rec s) (set_tx s t).

(* rollback of a transaction that holds locks: nothing was flipped yet, release everything *)
Definition abort_tx (s : sys) (t : tx) : sys :=
  mkSys (s_span s) (s_atomic s) (s_sto0 s) (s_sto s) (s_ver s) (s_cnt s)
        (drop_my_nlk (x_id t) (s_nlk s)) (drop_my_recs (x_id t) (s_rec s)) (set_tx s (with_pc t (Done false))).

Definition flip_node (s : sys) (t : tx) (n : N) : sys :=
  let ws := filter (fun p => N.eqb (node_of s (fst p)) n) (x_wbuf t) in
  mkSys (s_span s) (s_atomic s) (s_sto0 s)
        (fold_left (fun st p => aset (fst p) (snd p) st) ws (s_sto s))
        (fold_left (fun vr p => aset (fst p) (sver s (fst p) + 1) vr) ws (s_ver s))
        (s_cnt s) (s_nlk s) (s_rec s) (s_txs s).

(* one operation of the working phase.  A Find that does not find the key is NOT tracked (btree.Find
   registers nothing with the item action tracker; only GetCurrentValue/GetCurrentItem do). *)
Definition work_op (s : sys) (t : tx) (o : pop) (rest : list pop) : tx :=
  let touch k v0 := match aget k (x_seen t) with Some _ => x_seen t | None => (k, (sver s k, v0)) :: x_seen t end in
  match o with
  | PRd k =>
      match aget k (x_wbuf t) with
      | Some v => mkTx (x_id t) (x_mode t) rest (x_abort t) (x_seen t) (x_wbuf t) (OGet k (Some v) :: x_res t) (x_toset t) Work
      | None =>
          match aget k (x_seen t) with
          | Some (_, v) => mkTx (x_id t) (x_mode t) rest (x_abort t) (x_seen t) (x_wbuf t) (OGet k (Some v) :: x_res t) (x_toset t) Work
          | None =>
              match aget k (s_sto s) with
              | Some v => mkTx (x_id t) (x_mode t) rest (x_abort t) (touch k v) (x_wbuf t) (OGet k (Some v) :: x_res t) (x_toset t) Work
              | None => mkTx (x_id t) (x_mode t) rest (x_abort t) (x_seen t) (x_wbuf t) (OGet k None :: x_res t) (x_toset t) Work
              end
          end
      end
  | PWr k v =>
      match aget k (x_wbuf t), aget k (x_seen t), aget k (s_sto s) with
      | Some _, _, _ =>    (* own staged item: stays what it was (add or update) *)
          mkTx (x_id t) (x_mode t) rest (x_abort t) (x_seen t) (aset k v (x_wbuf t)) (OUpd k v true :: x_res t) (x_toset t) Work
      | None, Some _, _ =>
          mkTx (x_id t) (x_mode t) rest (x_abort t) (x_seen t) (aset k v (x_wbuf t)) (OUpd k v true :: x_res t) (x_toset t) Work
      | None, None, Some v0 =>
          mkTx (x_id t) (x_mode t) rest (x_abort t) (touch k v0) (aset k v (x_wbuf t)) (OUpd k v true :: x_res t) (x_toset t) Work
      | None, None, None =>
          mkTx (x_id t) (x_mode t) rest (x_abort t) (x_seen t) (x_wbuf t) (OUpd k v false :: x_res t) (x_toset t) Work
      end
  | PAdd k v =>
      match aget k (x_wbuf t), aget k (x_seen t), aget k (s_sto s) with
      | None, None, None =>
          mkTx (x_id t) (x_mode t) rest (x_abort t) (x_seen t) (aset k v (x_wbuf t)) (OAdd k v true :: x_res t) (x_toset t) Work
      | _, _, _ =>
          mkTx (x_id t) (x_mode t) rest (x_abort t) (x_seen t) (x_wbuf t) (OAdd k v false :: x_res t) (x_toset t) Work
      end
  end.

Definition cnt_delta (t : tx) : N := N.of_nat (length (adds t)).
Definition uncount (s : sys) (t : tx) : sys :=
  mkSys (s_span s) (s_atomic s) (s_sto0 s) (s_sto s) (s_ver s) (s_cnt s - cnt_delta t) (s_nlk s) (s_rec s) (s_txs s).

Definition after_check (s : sys) (t : tx) : pc :=
  match upd_nodes s t with [] => UnN | l => Flip l end.

(* one micro-step of transaction [t]; None = cannot move (finished, or waiting for a node lock) *)
Definition step_tx (s : sys) (t : tx) : option sys :=
  match x_pc t with
  | Work =>
      match x_prog t with
      | o :: rest => Some (sys_tx s (work_op s t o rest))
      | [] =>
          if x_abort t then Some (sys_tx s (with_pc t (Done false)))
          else match x_mode t with
               | MR => Some (sys_tx s (with_pc t Valid))
               | MW => match x_seen t, x_wbuf t with
                       | [], [] => Some (sys_tx s (with_pc t (Done true)))   (* hasTrackedItems = false *)
                       | _, _ => Some (sys_tx s (with_pc t LGet))
                       end
               end
      end
  | LGet =>
      match lock_get s t (tracked t) with
      | None => Some (abort_tx s t)
      | Some l =>
          let t1 := mkTx (x_id t) (x_mode t) (x_prog t) (x_abort t) (x_seen t) (x_wbuf t) (x_res t) l LSet in
          if s_atomic s then
            Some (mkSys (s_span s) (s_atomic s) (s_sto0 s) (s_sto s) (s_ver s) (s_cnt s) (s_nlk s)
                        (lock_set s t1) (set_tx s (with_pc t1 NLock)))
          else Some (sys_tx s (match l with [] => with_pc t1 NLock | _ => t1 end))
      end
  | LSet =>
      Some (mkSys (s_span s) (s_atomic s) (s_sto0 s) (s_sto s) (s_ver s) (s_cnt s) (s_nlk s)
                  (lock_set s t) (set_tx s (with_pc t LVer)))
  | LVer => if lock_verify s t then Some (sys_tx s (with_pc t NLock)) else Some (abort_tx s t)
  | NLock =>
      if nodes_free s t then
        Some (mkSys (s_span s) (s_atomic s) (s_sto0 s) (s_sto s) (s_ver s) (s_cnt s)
                    (fold_left (fun l n => aset n (x_id t) l) (upd_nodes s t) (s_nlk s))
                    (s_rec s) (set_tx s (with_pc t Valid)))
      else None
  | Valid =>
      if validate s t then
        match x_mode t with
        | MR => Some (sys_tx s (with_pc t (Done true)))
        | MW => Some (sys_tx s (with_pc t (if N.eqb (cnt_delta t) 0 then Check else CStore)))   (* commitStores does nothing when the delta is 0 *)
        end
      else Some (abort_tx s t)
  | CStore =>   (* commitStores: the count delta is merged into storeinfo.txt in PHASE 1 *)
      Some (mkSys (s_span s) (s_atomic s) (s_sto0 s) (s_sto s) (s_ver s) (s_cnt s + cnt_delta t) (s_nlk s)
                  (s_rec s) (set_tx s (with_pc t Check)))
  | Check =>
      if check_tracked s t then Some (sys_tx s (with_pc t (after_check s t)))
      else Some (abort_tx (uncount s t) t)      (* rollback re-applies the negated delta *)
  | Flip [] => Some (sys_tx s (with_pc t UnN))
  | Flip (n :: rest) =>
      let s' := flip_node s t n in
      Some (sys_tx s' (with_pc t (match rest with [] => UnN | _ => Flip rest end)))
  | UnN =>
      Some (mkSys (s_span s) (s_atomic s) (s_sto0 s) (s_sto s) (s_ver s) (s_cnt s)
                  (drop_my_nlk (x_id t) (s_nlk s)) (s_rec s) (set_tx s (with_pc t UnI)))
  | UnI =>
      Some (mkSys (s_span s) (s_atomic s) (s_sto0 s) (s_sto s) (s_ver s) (s_cnt s) (s_nlk s)
                  (drop_my_recs (x_id t) (s_rec s)) (set_tx s (with_pc t (Done true))))
  | Done _ => None
  end.

Definition find_tx (s : sys) (i : N) : option tx := find (fun t => N.eqb (x_id t) i) (s_txs s).

Definition stepo (s : sys) (i : N) : option sys :=
  match find_tx s i with Some t => step_tx s t | None => None end.

Definition step (s : sys) (i : N) : sys := match stepo s i with Some s' => s' | None => s end.

(* a schedule is a list of transaction ids *)
Definition run (s : sys) (sched : list N) : sys := fold_left step sched s.

Definition is_done (t : tx) : bool := match x_pc t with Done _ => true | _ => false end.
Definition is_committed (t : tx) : bool := match x_pc t with Done true => true | _ => false end.
Definition all_done (s : sys) : bool := forallb is_done (s_txs s).

Definition to_state (l : list (key * val)) : state := map (fun p => (fst p, Some (snd p))) l.

Definition hist (s : sys) : history :=
  mkHist (to_state (s_sto0 s))
         (map (fun t => mkTxn (x_id t) (rev (x_res t)) (is_committed t)) (s_txs s))
         (to_state (s_sto s)).

(* ---- initial systems ---- *)
Definition new_tx (i : N) (m : mode) (p : list pop) (ab : bool) : tx := mkTx i m p ab [] [] [] [] Work.

Definition init_sys (span : N) (atomic : bool) (sto : list (key * val)) (txs : list tx) : sys :=
  mkSys span atomic sto sto [] (N.of_nat (length sto)) [] [] txs.

Definition pop_key (o : pop) : key := match o with PRd k => k | PWr k _ => k | PAdd k _ => k end.

(* guard: transaction ids are distinct *)
Definition wf_sys (s : sys) : bool :=
  Nat.eqb (length (dedup (map x_id (s_txs s)))) (length (s_txs s)).

(* ---- exhaustive exploration of all schedules of a finite system ---- *)
Fixpoint explore (P : sys -> bool) (ts : list N) (fuel : nat) (s : sys) : bool :=
  match fuel with
  | O => false
  | S f =>
      (if all_done s then P s else true)
      && forallb (fun i => match stepo s i with None => true | Some s' => explore P ts f s' end) ts
  end.

(* what another transaction can see of the store *)
Definition visible (s : sys) : list (key * val) := s_sto s.

(* has transaction i started to flip?  (its phase-2 registry write) *)
Definition flipping_or_later (t : tx) : bool :=
  match x_pc t with Flip _ | UnN | UnI | Done true => true | _ => false end.

(* ConcProofs.v -- facts about the interleaving model of Conc.v that hold for EVERY system and
   EVERY schedule: exploration soundness, "only a Flip step changes what other transactions can
   see", "a transaction that started flipping stays past the flip", "a transaction that ended
   rolled back never flipped". *)
From Coq Require Import List NArith Bool Lia.
From SopVerif Require Import History Conc.
Import ListNotations.
Local Open Scope N_scope.

(* ---- exhaustive exploration is sound for schedules of any length ---- *)

Lemma explore_step : forall P ts fuel s i,
  explore P ts fuel s = true -> In i ts ->
  exists fuel', explore P ts fuel' (step s i) = true.
Proof.
  intros P ts fuel s i H Hi. destruct fuel as [|f]; [discriminate|].
  pose proof H as H0. cbn [explore] in H. apply andb_prop in H. destruct H as [_ H].
  rewrite forallb_forall in H. specialize (H i Hi). unfold step.
  destruct (stepo s i) as [s'|] eqn:E.
  - now exists f.
  - now exists (S f).
Qed.

Lemma explore_run : forall P ts sched fuel s,
  explore P ts fuel s = true -> Forall (fun i => In i ts) sched ->
  exists fuel', explore P ts fuel' (run s sched) = true.
Proof.
  intros P ts. induction sched as [|i r IH]; intros fuel s H Hs; cbn.
  - now exists fuel.
  - inversion Hs; subst. destruct (explore_step P ts fuel s i H H2) as [f' Hf].
    unfold run in IH. now apply (IH f').
Qed.

Lemma explore_done : forall P ts fuel s,
  explore P ts fuel s = true -> all_done s = true -> P s = true.
Proof.
  intros P ts fuel s H Hd. destruct fuel as [|f]; [discriminate|].
  cbn [explore] in H. apply andb_prop in H. destruct H as [H _]. now rewrite Hd in H.
Qed.

Theorem explore_sound : forall P ts fuel s0,
  explore P ts fuel s0 = true ->
  forall sched, Forall (fun i => In i ts) sched ->
    all_done (run s0 sched) = true -> P (run s0 sched) = true.
Proof.
  intros P ts fuel s0 H sched Hs Hd.
  destruct (explore_run P ts sched fuel s0 H Hs) as [f' Hf].
  now apply (explore_done P ts f').
Qed.

(* ---- what a step can change ---- *)

Definition is_flip (p : pc) : bool := match p with Flip (_ :: _) => true | _ => false end.

Lemma step_tx_sto : forall s t s', step_tx s t = Some s' -> is_flip (x_pc t) = false ->
  s_sto s' = s_sto s /\ s_ver s' = s_ver s /\ s_sto0 s' = s_sto0 s.
Proof.
  intros s t s' H Hf. unfold step_tx in H.
  destruct (x_pc t) as [| | | | | | | |l| | |c] eqn:Epc.
  - destruct (x_prog t); [|inversion H; subst; now cbn].
    destruct (x_abort t); [inversion H; subst; now cbn|].
    destruct (x_mode t); [|inversion H; subst; now cbn].
    destruct (x_seen t); destruct (x_wbuf t); inversion H; subst; now cbn.
  - destruct (lock_get s t (tracked t)); [|inversion H; subst; now cbn].
    destruct (s_atomic s); [inversion H; subst; now cbn|].
    inversion H; subst; now cbn.
  - inversion H; subst; now cbn.
  - destruct (lock_verify s t); inversion H; subst; now cbn.
  - destruct (nodes_free s t); inversion H; subst; now cbn.
  - destruct (validate s t); [|inversion H; subst; now cbn].
    destruct (x_mode t); inversion H; subst; now cbn.
  - inversion H; subst; now cbn.
  - destruct (check_tracked s t); inversion H; subst; now cbn.
  - destruct l; [inversion H; subst; now cbn|]. cbn in Hf. discriminate.
  - inversion H; subst; now cbn.
  - inversion H; subst; now cbn.
  - discriminate.
Qed.

(* ---- transaction table bookkeeping ---- *)

Lemma find_set_same : forall l t',
  (exists t, find (fun u => N.eqb (x_id u) (x_id t')) l = Some t) ->
  find (fun u => N.eqb (x_id u) (x_id t')) (map (fun u => if N.eqb (x_id u) (x_id t') then t' else u) l) = Some t'.
Proof.
  induction l as [|u r IH]; intros t' [t Ht]; cbn in *; [discriminate|].
  destruct (N.eqb (x_id u) (x_id t')) eqn:E.
  - now rewrite N.eqb_refl.
  - rewrite E. apply IH. now exists t.
Qed.

Lemma find_set_other : forall l j t',
  j <> x_id t' ->
  find (fun u => N.eqb (x_id u) j) (map (fun u => if N.eqb (x_id u) (x_id t') then t' else u) l)
  = find (fun u => N.eqb (x_id u) j) l.
Proof.
  induction l as [|u r IH]; intros j t' Hne; cbn; [reflexivity|].
  destruct (N.eqb (x_id u) (x_id t')) eqn:E.
  - apply N.eqb_eq in E.
    assert (N.eqb (x_id t') j = false) as Hn by (apply N.eqb_neq; congruence).
    rewrite Hn. rewrite E, Hn. now apply IH.
  - destruct (N.eqb (x_id u) j); [reflexivity|]. now apply IH.
Qed.

(* the transaction record that a step of [t] installs *)
Definition pc_after (s : sys) (t : tx) (s' : sys) : option pc :=
  option_map x_pc (find_tx s' (x_id t)).

(* every step of [t] leaves a record with the same id in the table, others untouched;
   and the new program counter is one of the successors below *)
Definition pc_succ (p q : pc) : Prop :=
  match p with
  | Work => q = Work \/ q = Done false \/ q = Valid \/ q = Done true \/ q = LGet
  | LGet => q = Done false \/ q = NLock \/ q = LSet
  | LSet => q = LVer
  | LVer => q = NLock \/ q = Done false
  | NLock => q = Valid
  | Valid => q = Done true \/ q = CStore \/ q = Check \/ q = Done false
  | CStore => q = Check
  | Check => q = UnN \/ (exists l, q = Flip l) \/ q = Done false
  | Flip _ => q = UnN \/ (exists l, q = Flip l)
  | UnN => q = UnI
  | UnI => q = Done true
  | Done _ => False
  end.

Ltac fin := cbn; repeat match goal with |- _ /\ _ => split end;
  try reflexivity; try (intros; congruence); try (intros; cbn; eauto 8).

Ltac use_K K :=
  match goal with
  | |- context [mkSys _ _ _ ?A ?B ?C ?N ?R (set_tx _ ?T)] =>
      let K1 := fresh "K1" in let K2 := fresh "K2" in
      destruct (K T A B C N R eq_refl) as [K1 K2];
      split; [|exact K2]; eexists; split; [exact K1|]; fin
  | |- context [sys_tx ?S ?T] =>
      let K1 := fresh "K1" in let K2 := fresh "K2" in
      destruct (K T (s_sto S) (s_ver S) (s_cnt S) (s_nlk S) (s_rec S) eq_refl) as [K1 K2];
      split; [|exact K2]; eexists; split; [exact K1|]; fin
  end.

Lemma step_tx_table : forall s t s', find_tx s (x_id t) = Some t -> step_tx s t = Some s' ->
  (exists t', find_tx s' (x_id t) = Some t' /\ x_id t' = x_id t /\ x_mode t' = x_mode t /\ pc_succ (x_pc t) (x_pc t')
              /\ (x_pc t = Valid -> x_mode t = MR -> x_pc t' = Done true \/ x_pc t' = Done false)
              /\ (x_pc t = Work -> x_mode t = MR -> x_pc t' = Work \/ x_pc t' = Done false \/ x_pc t' = Valid)) /\
  (forall j, j <> x_id t -> find_tx s' j = find_tx s j).
Proof.
  intros s t s' Hf H.
  assert (Hex : exists t0, find (fun u => N.eqb (x_id u) (x_id t)) (s_txs s) = Some t0) by (now exists t).
  assert (K : forall t' sto ver cnt nlk rc, x_id t' = x_id t ->
            find_tx (mkSys (s_span s) (s_atomic s) (s_sto0 s) sto ver cnt nlk rc (set_tx s t')) (x_id t) = Some t'
            /\ (forall j, j <> x_id t ->
                 find_tx (mkSys (s_span s) (s_atomic s) (s_sto0 s) sto ver cnt nlk rc (set_tx s t')) j = find_tx s j)).
  { intros t' sto ver cnt nlk rc Hid. unfold find_tx, set_tx. cbn. split.
    - rewrite <- Hid. apply find_set_same. rewrite Hid. exact Hex.
    - intros j Hj. apply find_set_other. congruence. }
  unfold step_tx in H.
  destruct (x_pc t) as [| | | | | | | |l| | |c] eqn:Epc.
  - destruct (x_prog t) as [|o rest] eqn:Ep.
    + destruct (x_abort t); [inversion H; subst; use_K K|].
      destruct (x_mode t) eqn:Em; [|inversion H; subst; use_K K].
      destruct (x_seen t); destruct (x_wbuf t); inversion H; subst; use_K K.
    + inversion H; subst.
      assert (Hid : x_id (work_op s t o rest) = x_id t) by (destruct o; cbn; repeat match goal with |- context [match ?x with _ => _ end] => destruct x end; reflexivity).
      assert (Hm : x_mode (work_op s t o rest) = x_mode t) by (destruct o; cbn; repeat match goal with |- context [match ?x with _ => _ end] => destruct x end; reflexivity).
      assert (Hp : x_pc (work_op s t o rest) = Work) by (destruct o; cbn; repeat match goal with |- context [match ?x with _ => _ end] => destruct x end; reflexivity).
      destruct (K (work_op s t o rest) (s_sto s) (s_ver s) (s_cnt s) (s_nlk s) (s_rec s) Hid) as [K1 K2].
      split; [|exact K2]. eexists; split; [exact K1|]. rewrite Hp, Hm. fin.
  - destruct (lock_get s t (tracked t)) as [l|]; [|inversion H; subst; unfold abort_tx; use_K K].
    destruct (s_atomic s); [inversion H; subst; use_K K|].
    inversion H; subst. destruct l; use_K K.
  - inversion H; subst. use_K K.
  - destruct (lock_verify s t); inversion H; subst; [|unfold abort_tx]; use_K K.
  - destruct (nodes_free s t); inversion H; subst. use_K K.
  - destruct (validate s t); [|inversion H; subst; unfold abort_tx; use_K K].
    destruct (x_mode t) eqn:Em; inversion H; subst; [destruct (N.eqb (cnt_delta t) 0)|]; use_K K.
  - inversion H; subst. use_K K.
  - destruct (check_tracked s t); inversion H; subst; [|unfold abort_tx, uncount; cbn [s_span s_atomic s_sto0 s_sto s_ver s_cnt s_nlk s_rec s_txs]; use_K K].
    use_K K. unfold after_check. destruct (upd_nodes s t); eauto 6.
  - destruct l as [|n rest]; inversion H; subst; [use_K K|].
    unfold sys_tx, flip_node; cbn [s_span s_atomic s_sto0 s_sto s_ver s_cnt s_nlk s_rec s_txs].
    use_K K. destruct rest; eauto 6.
  - inversion H; subst. use_K K.
  - inversion H; subst. use_K K.
  - discriminate.
Qed.

(* ---- runs ---- *)

(* ids of the transactions that executed a phase-2 flip micro-step along the run, in order *)
Fixpoint flippers (s : sys) (sched : list N) : list N :=
  match sched with
  | [] => []
  | i :: r =>
      (match find_tx s i with
       | Some t => if is_flip (x_pc t) then [i] else []
       | None => []
       end) ++ flippers (step s i) r
  end.

Lemma find_tx_id : forall s i t, find_tx s i = Some t -> x_id t = i.
Proof.
  intros s i t H. unfold find_tx in H. apply find_some in H. destruct H as [_ H].
  now apply N.eqb_eq in H.
Qed.

Lemma step_no_flip_sto : forall s i,
  (match find_tx s i with Some t => is_flip (x_pc t) | None => false end) = false ->
  s_sto (step s i) = s_sto s /\ s_ver (step s i) = s_ver s /\ s_sto0 (step s i) = s_sto0 s.
Proof.
  intros s i H. unfold step, stepo. destruct (find_tx s i) as [t|]; [|auto].
  destruct (step_tx s t) as [s'|] eqn:E; [|auto]. now apply (step_tx_sto s t s').
Qed.

Lemma run_no_flip_sto : forall sched s, flippers s sched = [] ->
  s_sto (run s sched) = s_sto s /\ s_ver (run s sched) = s_ver s /\ s_sto0 (run s sched) = s_sto0 s.
Proof.
  induction sched as [|i r IH]; intros s H; cbn in *; [auto|].
  apply app_eq_nil in H. destruct H as [H1 H2].
  destruct (IH (step s i) H2) as [A [B C]]. unfold run in *. rewrite A, B, C.
  apply step_no_flip_sto. destruct (find_tx s i) as [t|]; [|reflexivity].
  destruct (is_flip (x_pc t)); [discriminate|reflexivity].
Qed.

(* a transaction that reached its phase-2 flip *)
Definition started (t : tx) : bool :=
  match x_pc t with Flip _ | UnN | UnI | Done true => true | _ => false end.

Lemma step_started : forall s i j u, find_tx s j = Some u -> started u = true ->
  exists u', find_tx (step s i) j = Some u' /\ started u' = true.
Proof.
  intros s i j u Hu Hs. unfold step, stepo.
  destruct (find_tx s i) as [t|] eqn:Ft; [|now exists u].
  destruct (step_tx s t) as [s'|] eqn:E; [|now exists u].
  pose proof (find_tx_id s i t Ft) as Hid. rewrite <- Hid in Ft.
  destruct (step_tx_table s t s' Ft E) as [[t' [F' [_ [_ [Hp _]]]]] Ho].
  destruct (N.eq_dec j (x_id t)) as [Ej|Ej].
  - subst j. rewrite Ft in Hu. inversion Hu; subst u. exists t'. split; [exact F'|].
    unfold started in *. destruct (x_pc t) as [| | | | | | | |l| | |[|]]; try discriminate; cbn in Hp.
    + destruct Hp as [Hp|[l' Hp]]; now rewrite Hp.
    + now rewrite Hp.
    + now rewrite Hp.
    + contradiction.
  - exists u. split; [|exact Hs]. now rewrite (Ho j Ej).
Qed.

Lemma run_started : forall sched s j u, find_tx s j = Some u -> started u = true ->
  exists u', find_tx (run s sched) j = Some u' /\ started u' = true.
Proof.
  induction sched as [|i r IH]; intros s j u Hu Hs; cbn; [now exists u|].
  destruct (step_started s i j u Hu Hs) as [u1 [H1 H2]]. now apply (IH (step s i) j u1).
Qed.

Lemma flipper_started : forall s i t, find_tx s i = Some t -> is_flip (x_pc t) = true ->
  exists u, find_tx (step s i) i = Some u /\ started u = true.
Proof.
  intros s i t Ft Hf. apply (step_started s i i t Ft).
  unfold started. destruct (x_pc t); try discriminate; reflexivity.
Qed.

(* whoever is not past the flip at the end never executed a flip step *)
Lemma not_started_never_flipped : forall sched s j u,
  find_tx (run s sched) j = Some u -> started u = false -> ~ In j (flippers s sched).
Proof.
  induction sched as [|i r IH]; intros s j u Hu Hs Hin; cbn in *; [contradiction|].
  apply in_app_or in Hin. destruct Hin as [Hin|Hin].
  - destruct (find_tx s i) as [t|] eqn:Ft; [|contradiction].
    destruct (is_flip (x_pc t)) eqn:Hf; [|contradiction].
    destruct Hin as [Hin|[]]. subst j.
    destruct (flipper_started s i t Ft Hf) as [u1 [H1 H2]].
    destruct (run_started r (step s i) i u1 H1 H2) as [u2 [H3 H4]].
    unfold run in *. rewrite H3 in Hu. inversion Hu; subst. rewrite H4 in Hs. discriminate.
  - now apply (IH (step s i) j u Hu Hs).
Qed.

(* read-only transactions: Work -> Valid -> Done, never a flip *)
Definition reader_pc (t : tx) : bool :=
  match x_mode t with
  | MW => true
  | MR => match x_pc t with Work | Valid | Done _ => true | _ => false end
  end.

Lemma step_reader_pc : forall s i,
  (forall j u, find_tx s j = Some u -> reader_pc u = true) ->
  (forall j u, find_tx (step s i) j = Some u -> reader_pc u = true).
Proof.
  intros s i Inv j u Hu. unfold step, stepo in Hu.
  destruct (find_tx s i) as [t|] eqn:Ft; [|now apply (Inv j)].
  destruct (step_tx s t) as [s'|] eqn:E; [|now apply (Inv j)].
  pose proof (find_tx_id s i t Ft) as Hid. rewrite <- Hid in Ft.
  destruct (step_tx_table s t s' Ft E) as [[t' [F' [_ [Hm [Hp [HV HW]]]]]] Ho].
  destruct (N.eq_dec j (x_id t)) as [Ej|Ej].
  - subst j. rewrite F' in Hu. inversion Hu; subst u.
    pose proof (Inv _ _ Ft) as It. unfold reader_pc in *. rewrite Hm.
    destruct (x_mode t) eqn:Em; [reflexivity|].
    destruct (x_pc t) eqn:Ep; try discriminate.
    + destruct (HW eq_refl eq_refl) as [X|[X|X]]; now rewrite X.
    + destruct (HV eq_refl eq_refl) as [X|X]; now rewrite X.
    + cbn in Hp. contradiction.
  - rewrite (Ho j Ej) in Hu. now apply (Inv j).
Qed.

Lemma flippers_writers : forall sched s,
  (forall j u, find_tx s j = Some u -> reader_pc u = true) ->
  forall j, In j (flippers s sched) -> exists u, find_tx s j = Some u /\ x_mode u = MW.
Proof.
  induction sched as [|i r IH]; intros s Inv j Hin; cbn in *; [contradiction|].
  apply in_app_or in Hin. destruct Hin as [Hin|Hin].
  - destruct (find_tx s i) as [t|] eqn:Ft; [|contradiction].
    destruct (is_flip (x_pc t)) eqn:Hf; [|contradiction].
    destruct Hin as [Hin|[]]. subst j. exists t. split; [exact Ft|].
    pose proof (Inv _ _ Ft) as It. unfold reader_pc in It.
    destruct (x_mode t); [reflexivity|]. destruct (x_pc t); discriminate.
  - destruct (IH (step s i) (step_reader_pc s i Inv) j Hin) as [u [Hu Hm]].
    (* the mode of a transaction never changes *)
    unfold step, stepo in Hu.
    destruct (find_tx s i) as [t|] eqn:Ft; [|now exists u].
    destruct (step_tx s t) as [s'|] eqn:E; [|now exists u].
    pose proof (find_tx_id s i t Ft) as Hid. rewrite <- Hid in Ft.
    destruct (step_tx_table s t s' Ft E) as [[t' [F' [_ [Hm' _]]]] Ho].
    destruct (N.eq_dec j (x_id t)) as [Ej|Ej].
    + subst j. rewrite F' in Hu. inversion Hu; subst u. exists t. split; [exact Ft|congruence].
    + rewrite (Ho j Ej) in Hu. now exists u.
Qed.

(* rollback releases every lock of the transaction *)
Lemma abort_releases : forall s t,
  (forall k o a, aget k (s_rec (abort_tx s t)) = Some (o, a) -> o <> x_id t) /\
  (forall n o, aget n (s_nlk (abort_tx s t)) = Some o -> o <> x_id t).
Proof.
  intros s t. cbn. split.
  - intros k o a. generalize (s_rec s). induction l as [|[k' [o' a']] r IH]; cbn; [discriminate|].
    destruct (N.eqb o' (x_id t)) eqn:E; cbn; [exact IH|].
    destruct (N.eqb k k'); [|exact IH]. intros X; inversion X; subst. now apply N.eqb_neq.
  - intros n o. generalize (s_nlk s). induction l as [|[n' o'] r IH]; cbn; [discriminate|].
    destruct (N.eqb o' (x_id t)) eqn:E; cbn; [exact IH|].
    destruct (N.eqb n n'); [|exact IH]. intros X; inversion X; subst. now apply N.eqb_neq.
Qed.

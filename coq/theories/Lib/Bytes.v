(* Byte-level primitives shared by the codec models. Bytes are N < 256. *)
From Coq Require Import List ZArith NArith Lia Bool.
Import ListNotations.

Definition uuid := list N.
Definition wf_byte (b : N) : Prop := (b < 256)%N.
Definition wf_bytes (l : list N) : Prop := Forall wf_byte l.
Definition wf_uuid (u : uuid) : Prop := length u = 16%nat /\ wf_bytes u.
Definition nil_uuid : uuid := repeat 0%N 16.
Definition zero_uuid : uuid := nil_uuid.
Definition zero_bool : bool := false.
Definition zero_i32 : Z := 0%Z.
Definition zero_i64 : Z := 0%Z.

Fixpoint le_bytes (n : nat) (v : N) : list N :=
  match n with
  | O => []
  | S n' => (v mod 256)%N :: le_bytes n' (v / 256)%N
  end.

Fixpoint le_val (bs : list N) : N :=
  match bs with
  | [] => 0%N
  | b :: r => (b + 256 * le_val r)%N
  end.

Definition be_val (bs : list N) : N := le_val (rev bs).

Definition take (n : nat) (bs : list N) : option (list N * list N) :=
  if Nat.ltb (length bs) n then None else Some (firstn n bs, skipn n bs).

(* two's complement reinterpretation of an unsigned w-bit value *)
Definition wrap_signed (w : Z) (u : Z) : Z :=
  if (u <? 2 ^ (w - 1))%Z then u else (u - 2 ^ w)%Z.

Definition enc_uuid (u : uuid) : list N := u.
Definition dec_uuid (bs : list N) : option (uuid * list N) := take 16 bs.

Definition enc_bool (b : bool) : list N := [if b then 1%N else 0%N].
Definition dec_bool (bs : list N) : option (bool * list N) :=
  match bs with [] => None | b :: r => Some (N.eqb b 1, r) end.

Definition enc_i32 (z : Z) : list N := le_bytes 4 (Z.to_N (z mod 2 ^ 32)).
Definition dec_i32 (bs : list N) : option (Z * list N) :=
  match take 4 bs with
  | None => None
  | Some (x, r) => Some (wrap_signed 32 (Z.of_N (le_val x)), r)
  end.

Definition enc_i64 (z : Z) : list N := le_bytes 8 (Z.to_N (z mod 2 ^ 64)).
Definition dec_i64 (bs : list N) : option (Z * list N) :=
  match take 8 bs with
  | None => None
  | Some (x, r) => Some (wrap_signed 64 (Z.of_N (le_val x)), r)
  end.

(* Replace the n bytes at offset off of block b by data d (copy(dst[off:off+n], d)). *)
Definition splice (b : list N) (off : nat) (d : list N) : list N :=
  firstn off b ++ d ++ skipn (off + length d) b.

Definition mismatches {A : Type} (chk : A -> bool) (l : list A) : list nat :=
  let fix go (i : nat) (l : list A) : list nat :=
    match l with
    | [] => []
    | x :: r => if chk x then go (S i) r else i :: go (S i) r
    end in go 0%nat l.

From Coq Require Import List ZArith NArith Lia Bool ZifyN ZifyNat ZifyBool.
From SopVerif Require Import Lib.Bytes.
Import ListNotations.
Ltac Zify.zify_post_hook ::= Z.div_mod_to_equations.

Lemma le_bytes_length n v : length (le_bytes n v) = n.
Proof. revert v; induction n as [|n IH]; intros v; cbn [le_bytes length]; [reflexivity|]. now rewrite IH. Qed.

Lemma le_bytes_wf n v : wf_bytes (le_bytes n v).
Proof.
  revert v; induction n as [|n IH]; intros v; cbn [le_bytes]; constructor.
  - unfold wf_byte. apply N.mod_lt. discriminate.
  - apply IH.
Qed.

Lemma le_val_le_bytes n v : (v < 256 ^ N.of_nat n)%N -> le_val (le_bytes n v) = v.
Proof.
  revert v; induction n as [|n IH]; intros v Hv.
  - cbn in *. lia.
  - cbn [le_bytes le_val]. rewrite IH.
    + pose proof (N.div_mod v 256). lia.
    + rewrite Nat2N.inj_succ, N.pow_succ_r' in Hv.
      apply N.div_lt_upper_bound; [discriminate|exact Hv].
Qed.

Lemma le_bytes_le_val bs : wf_bytes bs -> le_bytes (length bs) (le_val bs) = bs.
Proof.
  induction bs as [|b r IH]; intros Hwf; [reflexivity|].
  inversion Hwf as [|? ? Hb Hr]; subst. unfold wf_byte in Hb.
  cbn [length le_bytes le_val].
  replace ((b + 256 * le_val r) mod 256)%N with b by lia.
  replace ((b + 256 * le_val r) / 256)%N with (le_val r) by lia.
  now rewrite IH.
Qed.

Lemma le_val_bound bs : wf_bytes bs -> (le_val bs < 256 ^ N.of_nat (length bs))%N.
Proof.
  induction bs as [|b r IH]; intros Hwf; [cbn; lia|].
  inversion Hwf as [|? ? Hb Hr]; subst. unfold wf_byte in Hb. specialize (IH Hr).
  cbn [length le_val]. rewrite Nat2N.inj_succ, N.pow_succ_r'. lia.
Qed.

Lemma take_app n a r : length a = n -> take n (a ++ r) = Some (a, r).
Proof.
  intros H. unfold take. rewrite app_length.
  destruct (Nat.ltb_spec (length a + length r) n) as [Hlt|Hge]; [lia|].
  subst n. rewrite firstn_app, skipn_app, firstn_all, skipn_all, Nat.sub_diag.
  cbn. now rewrite app_nil_r.
Qed.

Lemma take_some n bs x r : take n bs = Some (x, r) -> bs = x ++ r /\ length x = n.
Proof.
  unfold take. destruct (Nat.ltb_spec (length bs) n) as [Hlt|Hge]; [discriminate|].
  intros H; inversion H; subst. split; [symmetry; apply firstn_skipn|].
  apply firstn_length_le; exact Hge.
Qed.

Lemma dec_enc_uuid u r : length u = 16%nat -> dec_uuid (enc_uuid u ++ r) = Some (u, r).
Proof. intros H. unfold dec_uuid, enc_uuid. now apply take_app. Qed.

Lemma dec_enc_bool b r : dec_bool (enc_bool b ++ r) = Some (b, r).
Proof. destruct b; reflexivity. Qed.

Lemma wrap_signed_mod w z : (0 < w)%Z -> (- 2 ^ (w - 1) <= z < 2 ^ (w - 1))%Z ->
  wrap_signed w (z mod 2 ^ w) = z.
Proof.
  intros Hw Hz. unfold wrap_signed.
  assert (Hp : (2 ^ w = 2 * 2 ^ (w - 1))%Z).
  { replace w with (Z.succ (w - 1)) at 1 by lia. rewrite Z.pow_succ_r by lia. reflexivity. }
  assert (Hpos : (0 < 2 ^ (w - 1))%Z) by (apply Z.pow_pos_nonneg; lia).
  destruct (Z.ltb_spec (z mod 2 ^ w) (2 ^ (w - 1))) as [Hlt|Hge].
  - destruct (Z_lt_le_dec z 0) as [Hneg|Hnn].
    + exfalso. assert (z mod 2 ^ w = z + 2 ^ w)%Z.
      { symmetry. apply Z.mod_unique with (q := (-1)%Z); lia. }
      lia.
    + apply Z.mod_small. lia.
  - destruct (Z_lt_le_dec z 0) as [Hneg|Hnn].
    + assert (z mod 2 ^ w = z + 2 ^ w)%Z.
      { symmetry. apply Z.mod_unique with (q := (-1)%Z); lia. }
      lia.
    + exfalso. rewrite Z.mod_small in Hge by lia. lia.
Qed.

Lemma dec_enc_i32 z r : (- 2 ^ 31 <= z < 2 ^ 31)%Z -> dec_i32 (enc_i32 z ++ r) = Some (z, r).
Proof.
  intros Hz. unfold dec_i32, enc_i32. rewrite take_app by apply le_bytes_length.
  rewrite le_val_le_bytes.
  - rewrite Z2N.id by (apply Z.mod_pos_bound; lia).
    now rewrite (wrap_signed_mod 32) by lia.
  - assert (0 <= z mod 2 ^ 32 < 2 ^ 32)%Z by (apply Z.mod_pos_bound; lia).
    change (256 ^ N.of_nat 4)%N with (Z.to_N (2 ^ 32)). lia.
Qed.

Lemma dec_enc_i64 z r : (- 2 ^ 63 <= z < 2 ^ 63)%Z -> dec_i64 (enc_i64 z ++ r) = Some (z, r).
Proof.
  intros Hz. unfold dec_i64, enc_i64. rewrite take_app by apply le_bytes_length.
  rewrite le_val_le_bytes.
  - rewrite Z2N.id by (apply Z.mod_pos_bound; lia).
    now rewrite (wrap_signed_mod 64) by lia.
  - assert (0 <= z mod 2 ^ 64 < 2 ^ 64)%Z by (apply Z.mod_pos_bound; lia).
    change (256 ^ N.of_nat 8)%N with (Z.to_N (2 ^ 64)). lia.
Qed.

Lemma enc_uuid_length u : length u = 16%nat -> length (enc_uuid u) = 16%nat.
Proof. auto. Qed.
Lemma enc_bool_length b : length (enc_bool b) = 1%nat.
Proof. reflexivity. Qed.
Lemma enc_i32_length z : length (enc_i32 z) = 4%nat.
Proof. apply le_bytes_length. Qed.
Lemma enc_i64_length z : length (enc_i64 z) = 8%nat.
Proof. apply le_bytes_length. Qed.

Lemma splice_length b off d : (off + length d <= length b)%nat -> length (splice b off d) = length b.
Proof.
  intros H. unfold splice. rewrite !app_length, firstn_length_le, skipn_length by lia. lia.
Qed.

Lemma splice_nth_outside b off d i x :
  (off + length d <= length b)%nat -> (i < off \/ off + length d <= i)%nat ->
  nth i (splice b off d) x = nth i b x.
Proof.
  intros Hfit Hi. unfold splice.
  destruct Hi as [Hlt|Hge].
  - rewrite app_nth1 by (rewrite firstn_length_le; lia).
    rewrite <- (firstn_skipn off b) at 2. rewrite app_nth1 by (rewrite firstn_length_le; lia). reflexivity.
  - rewrite app_nth2 by (rewrite firstn_length_le; lia). rewrite firstn_length_le by lia.
    rewrite app_nth2 by lia.
    rewrite <- (firstn_skipn (off + length d) b) at 2.
    rewrite app_nth2 by (rewrite firstn_length_le; lia). rewrite firstn_length_le by lia.
    f_equal. lia.
Qed.

Lemma splice_nth_inside b off d i x :
  (off + length d <= length b)%nat -> (off <= i < off + length d)%nat ->
  nth i (splice b off d) x = nth (i - off) d x.
Proof.
  intros Hfit Hi. unfold splice.
  rewrite app_nth2 by (rewrite firstn_length_le; lia). rewrite firstn_length_le by lia.
  rewrite app_nth1 by lia. reflexivity.
Qed.

(* C33 — refinement of the bookkeeping model to the reference semantics id |-> (vector, payload)
   for index-mode runs with deduplication on (the default configuration). *)
From Coq Require Import List ZArith NArith Bool Lia Permutation Sorting.Sorted.
From SopVerif Require Import Vector VectorProofs.
Import ListNotations.
Local Open Scope Z_scope.

Record Inv (s : st) (r : rstate) : Prop := mkInv {
  inv_act : 0 <= active s;
  inv_csorted : csorted (content s);
  inv_vnodup : NoDup (map ve_id (vectors s));
  inv_v : forall e, In e (vectors s) ->
    exists k p, cfind (content s) (ve_id e) = Some (k, p)
      /\ resolve (active s) k = (ve_cid e, ve_dist e)
      /\ ve_del e = ck_del k
      /\ (ck_del k = false -> rfind r (ve_id e) = Some (ve_vec e, p));
  inv_c : forall id k p, cfind (content s) id = Some (k, p) ->
    fst (resolve (active s) k) <> 0 /\ ck_ver k <= active s /\ ck_nver k <= active s
    /\ (ck_del k = true -> rfind r id = None)
    /\ exists e, In e (vectors s) /\ ve_id e = id /\ (ve_cid e, ve_dist e) = resolve (active s) k;
  inv_n : forall id, cfind (content s) id = None -> rfind r id = None;
  inv_temp : temp s = []
}.

Lemma inv_init : Inv init [].
Proof.
  constructor; cbn.
  - lia.
  - constructor.
  - constructor.
  - intros e [].
  - intros id k p H; discriminate.
  - intros; reflexivity.
  - reflexivity.
Qed.

(* ------------------------------------------------------------------ Get *)
Definition strip (x : option (vec * N * Z)) : option (vec * N) :=
  match x with Some (v, p, _) => Some (v, p) | None => None end.

Lemma inv_get : forall s r id, Inv s r -> strip (get false s id) = rfind r id.
Proof.
  intros s r id I. unfold get. destruct (cfind (content s) id) as [[k p]|] eqn:Hc.
  - destruct (inv_c s r I id k p Hc) as [Hnz [_ [_ [Hdel [e [Hin [Hid Hkey]]]]]]].
    destruct (ck_del k) eqn:Hd.
    + cbn. symmetry. apply Hdel. reflexivity.
    + destruct (resolve (active s) k) as [c d] eqn:Hr. cbn [fst] in Hnz.
      destruct (c =? 0) eqn:Hz; [apply Z.eqb_eq in Hz; contradiction|].
      inversion Hkey; subst c d. rewrite <- Hid.
      rewrite (vfind_unique (vectors s) e (inv_vnodup s r I) Hin). cbn.
      destruct (inv_v s r I e Hin) as [k' [p' [Hc' [_ [_ Hlive]]]]].
      rewrite Hid in Hc'. rewrite Hc in Hc'. inversion Hc'; subst k' p'.
      symmetry. apply Hlive. exact Hd.
  - cbn. symmetry. apply (inv_n s r I). exact Hc.
Qed.

(* ------------------------------------------------------------------ Upsert (index path, dedup on) *)
Definition dedup_removed (s : st) (id : N) : list vent :=
  match cfind (content s) id with
  | Some (k, _) =>
      let '(oc, od) := resolve (active s) k in
      let oc := if oc =? 0 then 1 else oc in
      vremove (vectors s) oc od id
  | None => vectors s
  end.

Lemma upsert_index_unfold : forall s id v p a,
  upsert_index true s id v p a =
  mkSt (active s) (cset (content s) id (mkCK (fst a) (snd a) (active s) false 0 0 0, p))
       (vadd (dedup_removed s id) (mkVE (fst a) (snd a) id false v)) (temp s).
Proof.
  intros. unfold upsert_index, dedup_removed. cbn [andb].
  destruct (cfind (content s) id) as [[k q]|]; [|reflexivity].
  destruct (resolve (active s) k); reflexivity.
Qed.

Lemma dedup_removed_spec : forall s r id, Inv s r ->
  (forall x, In x (dedup_removed s id) <-> In x (vectors s) /\ ve_id x <> id)
  /\ NoDup (map ve_id (dedup_removed s id)).
Proof.
  intros s r id I. unfold dedup_removed.
  destruct (cfind (content s) id) as [[k q]|] eqn:Hc.
  - destruct (inv_c s r I id k q Hc) as [Hnz [_ [_ [_ [e [Hin [Hid Hkey]]]]]]].
    destruct (resolve (active s) k) as [oc od] eqn:Hr. cbn [fst] in Hnz.
    destruct (oc =? 0) eqn:Hz; [apply Z.eqb_eq in Hz; contradiction|].
    injection Hkey as Hc1 Hd1.
    split.
    + intros x. rewrite In_vremove. split.
      * intros [Hx Hk]. split; [exact Hx|]. intros Hxi.
        assert (x = e) by (eapply NoDup_map_inj; [apply (inv_vnodup s r I)|exact Hx|exact Hin|congruence]).
        subst x. assert (vkey_is e oc od id = true) by (apply vkey_is_true; auto). congruence.
      * intros [Hx Hne]. split; [exact Hx|].
        destruct (vkey_is x oc od id) eqn:E; [|reflexivity].
        apply vkey_is_true in E. tauto.
    + apply NoDup_map_filter. apply (inv_vnodup s r I).
  - split; [|apply (inv_vnodup s r I)].
    intros x. split; [|tauto]. intros Hx. split; [exact Hx|].
    intros Hxi. destruct (inv_v s r I x Hx) as [k [p [Hc' _]]]. rewrite Hxi in Hc'. congruence.
Qed.

Lemma resolve_fresh : forall a act, resolve act (mkCK (fst a) (snd a) act false 0 0 0) = (fst a, snd a).
Proof. intros. unfold resolve. cbn. rewrite Z.eqb_refl. reflexivity. Qed.

Lemma inv_upsert : forall s r id v p a, Inv s r -> fst a <> 0 ->
  Inv (upsert_index true s id v p a) ((id, (v, p)) :: r).
Proof.
  intros s r id v p a I Ha. rewrite upsert_index_unfold.
  destruct (dedup_removed_spec s r id I) as [Hvs1 Hnd1].
  set (enew := mkVE (fst a) (snd a) id false v) in *.
  set (K := mkCK (fst a) (snd a) (active s) false 0 0 0) in *.
  assert (Hfresh : vfind (dedup_removed s id) (ve_cid enew) (ve_dist enew) (ve_id enew) = None).
  { apply vfind_none. intros e He. apply Hvs1 in He. destruct He as [_ Hne].
    destruct (vkey_is e (ve_cid enew) (ve_dist enew) (ve_id enew)) eqn:E; [|reflexivity].
    apply vkey_is_true in E. cbn in E. tauto. }
  assert (Hnotin : ~ In (ve_id enew) (map ve_id (dedup_removed s id))).
  { intros Hin. apply in_map_iff in Hin. destruct Hin as [x [Hx Hin]]. apply Hvs1 in Hin. cbn in Hx. tauto. }
  assert (Hmem : forall x, In x (vadd (dedup_removed s id) enew) <-> x = enew \/ (In x (vectors s) /\ ve_id x <> id)).
  { intros x. rewrite (In_vadd_fresh _ _ _ Hfresh). rewrite Hvs1. tauto. }
  constructor; cbn [active content vectors temp].
  - apply (inv_act s r I).
  - apply cset_sorted, (inv_csorted s r I).
  - apply NoDup_ids_vadd_fresh; assumption.
  - intros e He. apply Hmem in He. destruct He as [->|[He Hne]].
    + exists K, p. cbn [ve_id ve_cid ve_dist ve_del ve_vec enew]. rewrite cfind_cset, N.eqb_refl.
      split; [reflexivity|]. split; [apply resolve_fresh|]. split; [reflexivity|].
      intros _. cbn [rfind]. rewrite N.eqb_refl. reflexivity.
    + destruct (inv_v s r I e He) as [k [q [Hc [Hr [Hd Hl]]]]].
      exists k, q. rewrite cfind_cset. apply N.eqb_neq in Hne. rewrite N.eqb_sym, Hne.
      split; [exact Hc|]. split; [exact Hr|]. split; [exact Hd|].
      intros Hdd. cbn [rfind]. rewrite N.eqb_sym, Hne. apply Hl, Hdd.
  - intros id' k q Hc. rewrite cfind_cset in Hc. destruct (N.eqb id id') eqn:E.
    + apply N.eqb_eq in E; subst id'. inversion Hc; subst k q. unfold K.
      rewrite resolve_fresh. cbn [fst ck_ver ck_nver ck_del].
      split; [exact Ha|]. split; [lia|]. split; [apply (inv_act s r I)|]. split; [discriminate|].
      exists enew. split; [apply Hmem; left; reflexivity|]. split; reflexivity.
    + destruct (inv_c s r I id' k q Hc) as [Hnz [Hv1 [Hv2 [Hdel [e [Hin [Hid Hkey]]]]]]].
      split; [exact Hnz|]. split; [exact Hv1|]. split; [exact Hv2|]. split.
      * intros Hd. cbn [rfind]. rewrite E. apply Hdel, Hd.
      * exists e. split; [|split; assumption]. apply Hmem. right. split; [exact Hin|].
        intros Heq. rewrite Heq in Hid. subst id'. rewrite N.eqb_refl in E. discriminate.
  - intros id' Hc. rewrite cfind_cset in Hc. destruct (N.eqb id id') eqn:E; [discriminate|].
    cbn [rfind]. rewrite E. apply (inv_n s r I), Hc.
  - apply (inv_temp s r I).
Qed.

(* ------------------------------------------------------------------ Delete (index mode) *)
Definition del_key (act : Z) (k : ckey) : ckey :=
  if negb (ck_ver k =? act) && (ck_nver k =? act)
  then mkCK (ck_ncid k) (ck_ndist k) (ck_nver k) true 0 0 0
  else mkCK (ck_cid k) (ck_dist k) (ck_ver k) true (ck_ncid k) (ck_ndist k) (ck_nver k).

Lemma del_key_resolve : forall act k,
  resolve act (del_key act k) = resolve act k /\ (ck_cid (del_key act k), ck_dist (del_key act k)) = resolve act k
  /\ ck_del (del_key act k) = true
  /\ (ck_ver k <= act -> ck_nver k <= act -> 0 <= act -> ck_ver (del_key act k) <= act /\ ck_nver (del_key act k) <= act).
Proof.
  intros act k. unfold del_key, resolve.
  destruct (negb (ck_ver k =? act) && (ck_nver k =? act)) eqn:E; cbn [ck_cid ck_dist ck_ver ck_del ck_ncid ck_ndist ck_nver].
  - apply andb_true_iff in E. destruct E as [E1 E2]. apply Z.eqb_eq in E2. rewrite E2, Z.eqb_refl. cbn.
    repeat split; lia.
  - rewrite E. repeat split; lia.
Qed.

Lemma inv_delete : forall s r id, Inv s r ->
  Inv (delete false s id) (filter (fun e => negb (N.eqb (fst e) id)) r).
Proof.
  intros s r id I. unfold delete.
  destruct (cfind (content s) id) as [[k p]|] eqn:Hc.
  - fold (del_key (active s) k).
    destruct (del_key_resolve (active s) k) as [Hres [Hmain [Hdel Hvers]]].
    destruct (inv_c s r I id k p Hc) as [Hnz [Hv1 [Hv2 [_ [e [Hin [Hid Hkey]]]]]]].
    set (k2 := del_key (active s) k) in *.
    destruct (resolve (active s) k) as [c d] eqn:Hr. cbn [fst] in Hnz.
    injection Hmain as Hm1 Hm2. rewrite Hm1, Hm2.
    destruct (c =? 0) eqn:Hz; [apply Z.eqb_eq in Hz; contradiction|].
    injection Hkey as Hk1 Hk2.
    assert (Hek : vkey_is e c d id = true) by (apply vkey_is_true; auto).
    assert (Honly : forall y, In y (vectors s) -> vkey_is y c d id = true -> y = e).
    { intros y Hy Hyk. apply vkey_is_true in Hyk.
      eapply NoDup_map_inj; [apply (inv_vnodup s r I)|exact Hy|exact Hin|]. destruct Hyk as [_ [_ ->]]. auto. }
    constructor; cbn [active content vectors temp].
    + apply (inv_act s r I).
    + apply cset_sorted, (inv_csorted s r I).
    + rewrite vtomb_ids. apply (inv_vnodup s r I).
    + intros x Hx. apply In_vtomb in Hx. destruct Hx as [y [Hy ->]].
      destruct (vkey_is y c d id) eqn:Eyk.
      * assert (y = e) by (apply Honly; assumption). subst y.
        cbn [ve_id ve_cid ve_dist ve_del ve_vec]. rewrite Hid. exists k2, p.
        rewrite cfind_cset, N.eqb_refl. split; [reflexivity|]. split; [rewrite Hres; congruence|].
        split; [symmetry; exact Hdel|]. intros Hd. rewrite Hdel in Hd. discriminate.
      * destruct (inv_v s r I y Hy) as [ky [py [Hcy [Hry [Hdy Hly]]]]].
        assert (Hne : ve_id y <> id).
        { intros Heq. rewrite Heq, Hc in Hcy. inversion Hcy; subst ky py.
          rewrite Hr in Hry. inversion Hry as [[Hy1 Hy2]].
          assert (vkey_is y c d id = true) by (apply vkey_is_true; auto). congruence. }
        apply N.eqb_neq in Hne. exists ky, py. rewrite cfind_cset, N.eqb_sym, Hne.
        split; [exact Hcy|]. split; [exact Hry|]. split; [exact Hdy|].
        intros Hd. rewrite rfind_filter, N.eqb_sym, Hne. apply Hly, Hd.
    + intros id' k' q Hc'. rewrite cfind_cset in Hc'. destruct (N.eqb id id') eqn:E.
      * apply N.eqb_eq in E; subst id'. inversion Hc'; subst k' q.
        rewrite Hres. cbn [fst]. split; [exact Hnz|].
        destruct (Hvers Hv1 Hv2 (inv_act s r I)) as [Hw1 Hw2].
        split; [exact Hw1|]. split; [exact Hw2|]. split.
        -- intros _. rewrite rfind_filter, N.eqb_refl. reflexivity.
        -- exists (mkVE (ve_cid e) (ve_dist e) (ve_id e) true (ve_vec e)).
           split; [apply In_vtomb; exists e; rewrite Hek; auto|]. cbn. split; [exact Hid|congruence].
      * destruct (inv_c s r I id' k' q Hc') as [Hnz' [Hw1 [Hw2 [Hdel' [e' [Hin' [Hid' Hkey']]]]]]].
        split; [exact Hnz'|]. split; [exact Hw1|]. split; [exact Hw2|]. split.
        -- intros Hd. rewrite rfind_filter, E. apply Hdel', Hd.
        -- exists e'. split; [|split; assumption]. apply In_vtomb. exists e'. split; [exact Hin'|].
           destruct (vkey_is e' c d id) eqn:E'; [|reflexivity].
           apply vkey_is_true in E'. destruct E' as [_ [_ E']]. apply N.eqb_neq in E. congruence.
    + intros id' Hc'. rewrite cfind_cset in Hc'. destruct (N.eqb id id') eqn:E; [discriminate|].
      rewrite rfind_filter, E. apply (inv_n s r I), Hc'.
    + apply (inv_temp s r I).
  - (* nothing stored under id: Delete is a no-op *)
    constructor; try apply I.
    + intros e He. destruct (inv_v s r I e He) as [k [p [Hce [Hr [Hd Hl]]]]].
      exists k, p. split; [exact Hce|]. split; [exact Hr|]. split; [exact Hd|].
      intros Hdd. rewrite rfind_filter. destruct (N.eqb id (ve_id e)) eqn:E.
      * apply N.eqb_eq in E. rewrite <- E in Hce. congruence.
      * apply Hl, Hdd.
    + intros id' k p Hc'. destruct (inv_c s r I id' k p Hc') as [H1 [H2 [H3 [H4 H5]]]].
      split; [exact H1|]. split; [exact H2|]. split; [exact H3|]. split; [|exact H5].
      intros Hd. rewrite rfind_filter. destruct (N.eqb id id'); [reflexivity|apply H4, Hd].
    + intros id' Hc'. rewrite rfind_filter. destruct (N.eqb id id'); [reflexivity|apply (inv_n s r I), Hc'].
Qed.

(* ------------------------------------------------------------------ Optimize (index mode, dedup on) *)
Definition bump (act : Z) (a : Z * Z) (k : ckey) : ckey :=
  let k1 := if ck_nver k =? act
            then mkCK (ck_ncid k) (ck_ndist k) (ck_nver k) (ck_del k) (ck_ncid k) (ck_ndist k) (ck_nver k)
            else k in
  mkCK (ck_cid k1) (ck_dist k1) (ck_ver k1) (ck_del k1) (fst a) (snd a) (act + 1).
Definition assign (mig : list ((N * vec) * (Z * Z))) (e : vent) : Z * Z :=
  alookup idvec_eqb mig (ve_id e, ve_vec e) (-1, MAXF).
Definition newent (mig : list ((N * vec) * (Z * Z))) (e : vent) : vent :=
  mkVE (fst (assign mig e)) (snd (assign mig e)) (ve_id e) false (ve_vec e).

Section Opt.
Variable close : Z -> Z -> bool.
Hypothesis close_refl : forall d, close d d = true.
Variable act : Z.
Variable mig : list ((N * vec) * (Z * Z)).

Lemma migrate_one_live : forall c nv e k p,
  cfind c (ve_id e) = Some (k, p) -> ck_del k = false -> resolve act k = (ve_cid e, ve_dist e) ->
  migrate_one close true act mig (c, nv) e =
  (cset c (ve_id e) (bump act (assign mig e) k, p), vadd nv (newent mig e)).
Proof.
  intros c nv e k p Hc Hd Hr. unfold migrate_one. cbn [negb]. rewrite Hc, Hd, Hr.
  rewrite Z.eqb_refl, close_refl. cbn [andb]. rewrite Hc. reflexivity.
Qed.

Lemma migrate_one_dead : forall c nv e k p,
  cfind c (ve_id e) = Some (k, p) -> ck_del k = true ->
  migrate_one close true act mig (c, nv) e = (cremove c (ve_id e), nv).
Proof.
  intros c nv e k p Hc Hd. unfold migrate_one. cbn [negb]. rewrite Hc, Hd. reflexivity.
Qed.

Lemma migrate_fold : forall es c nv c' nv',
  NoDup (map ve_id es) ->
  (forall e, In e es -> exists k p, cfind c (ve_id e) = Some (k, p) /\ resolve act k = (ve_cid e, ve_dist e)) ->
  (forall x, In x nv -> ~ In (ve_id x) (map ve_id es)) ->
  NoDup (map ve_id nv) ->
  fold_left (migrate_one close true act mig) es (c, nv) = (c', nv') ->
  (forall id, ~ In id (map ve_id es) -> cfind c' id = cfind c id)
  /\ (forall e k p, In e es -> cfind c (ve_id e) = Some (k, p) ->
        cfind c' (ve_id e) = if ck_del k then None else Some (bump act (assign mig e) k, p))
  /\ (forall x, In x nv' <-> In x nv \/ exists e k p, In e es /\ cfind c (ve_id e) = Some (k, p) /\ ck_del k = false /\ x = newent mig e)
  /\ NoDup (map ve_id nv')
  /\ (csorted c -> csorted c').
Proof.
  induction es as [|e es IH]; intros c nv c' nv' Hnd Hc Hnv Hndv Hfold.
  - cbn in Hfold. inversion Hfold; subst c' nv'. split; [reflexivity|].
    split; [intros e k p []|]. split; [|split; [exact Hndv|auto]].
    intros x. split; [auto|]. intros [H|[e [k [p [[] _]]]]]. exact H.
  - cbn [fold_left] in Hfold. cbn [map] in Hnd. inversion Hnd as [|? ? Hnotin Hnd']; subst.
    destruct (Hc e (or_introl eq_refl)) as [k [p [Hce Hre]]].
    assert (Hother : forall e0, In e0 es -> ve_id e0 <> ve_id e).
    { intros e0 H0 Heq. apply Hnotin. rewrite <- Heq. apply in_map, H0. }
    destruct (ck_del k) eqn:Hd.
    + rewrite (migrate_one_dead c nv e k p Hce Hd) in Hfold.
      assert (Hc1 : forall id, id <> ve_id e -> cfind (cremove c (ve_id e)) id = cfind c id).
      { intros id Hne. rewrite cfind_cremove. apply N.eqb_neq in Hne. rewrite N.eqb_sym, Hne. reflexivity. }
      destruct (IH (cremove c (ve_id e)) nv c' nv' Hnd') as [Ha [Hb [Hm [Hn Hs]]]]; [| | exact Hndv | exact Hfold |].
      * intros e0 H0. destruct (Hc e0 (or_intror H0)) as [k0 [p0 [H1 H2]]]. exists k0, p0.
        rewrite Hc1; [auto|apply Hother, H0].
      * intros x Hx Hin. apply (Hnv x Hx). right. exact Hin.
      * split; [|split; [|split; [|split]]].
        -- intros id Hid. cbn [map In] in Hid. rewrite Ha by tauto. apply Hc1. intros ->. tauto.
        -- intros e0 k0 p0 [<-|H0] Hc0.
           ++ rewrite Hce in Hc0. inversion Hc0; subst k0 p0. rewrite Hd.
              rewrite Ha by exact Hnotin. rewrite cfind_cremove, N.eqb_refl. reflexivity.
           ++ apply Hb; [exact H0|]. rewrite Hc1; [exact Hc0|apply Hother, H0].
        -- intros x. rewrite Hm. split.
           ++ intros [H|[e0 [k0 [p0 [H0 [H1 [H2 H3]]]]]]]; [left; exact H|right].
              exists e0, k0, p0. split; [right; exact H0|]. rewrite Hc1 in H1 by (apply Hother, H0). auto.
           ++ intros [H|[e0 [k0 [p0 [[<-|H0] [H1 [H2 H3]]]]]]]; [left; exact H| |right].
              ** rewrite Hce in H1. inversion H1; subst k0 p0. congruence.
              ** exists e0, k0, p0. split; [exact H0|]. rewrite Hc1 by (apply Hother, H0). auto.
        -- exact Hn.
        -- intros Hcs. apply Hs, cremove_sorted, Hcs.
    + rewrite (migrate_one_live c nv e k p Hce Hd Hre) in Hfold.
      set (c1 := cset c (ve_id e) (bump act (assign mig e) k, p)) in *.
      set (en := newent mig e) in *.
      assert (Hc1 : forall id, id <> ve_id e -> cfind c1 id = cfind c id).
      { intros id Hne. unfold c1. rewrite cfind_cset. apply N.eqb_neq in Hne. rewrite N.eqb_sym, Hne. reflexivity. }
      assert (Hnvid : ~ In (ve_id e) (map ve_id nv)).
      { intros Hin. apply in_map_iff in Hin. destruct Hin as [x [Hx Hin]]. apply (Hnv x Hin). rewrite Hx. left; reflexivity. }
      assert (Hfresh : vfind nv (ve_cid en) (ve_dist en) (ve_id en) = None).
      { apply vfind_none. intros x Hx. destruct (vkey_is x (ve_cid en) (ve_dist en) (ve_id en)) eqn:E; [|reflexivity].
        apply vkey_is_true in E. destruct E as [_ [_ E]]. exfalso. apply Hnvid. cbn in E. rewrite <- E. apply in_map, Hx. }
      destruct (IH c1 (vadd nv en) c' nv' Hnd') as [Ha [Hb [Hm [Hn Hs]]]]; [| | | exact Hfold |].
      * intros e0 H0. destruct (Hc e0 (or_intror H0)) as [k0 [p0 [H1 H2]]]. exists k0, p0.
        rewrite Hc1; [auto|apply Hother, H0].
      * intros x Hx Hin. apply (In_vadd_fresh _ _ _ Hfresh) in Hx. destruct Hx as [->|Hx].
        -- cbn in Hin. contradiction.
        -- apply (Hnv x Hx). right. exact Hin.
      * apply NoDup_ids_vadd_fresh; [exact Hfresh|exact Hnvid|exact Hndv].
      * split; [|split; [|split; [|split]]].
        -- intros id Hid. cbn [map In] in Hid. rewrite Ha by tauto. apply Hc1. intros ->. tauto.
        -- intros e0 k0 p0 [<-|H0] Hc0.
           ++ rewrite Hce in Hc0. inversion Hc0; subst k0 p0. rewrite Hd.
              rewrite Ha by exact Hnotin. unfold c1. rewrite cfind_cset, N.eqb_refl. reflexivity.
           ++ apply Hb; [exact H0|]. rewrite Hc1; [exact Hc0|apply Hother, H0].
        -- intros x. rewrite Hm. rewrite (In_vadd_fresh _ _ _ Hfresh). split.
           ++ intros [[->|H]|[e0 [k0 [p0 [H0 [H1 [H2 H3]]]]]]].
              ** right. exists e, k, p. split; [left; reflexivity|]. auto.
              ** left; exact H.
              ** right. exists e0, k0, p0. split; [right; exact H0|]. rewrite Hc1 in H1 by (apply Hother, H0). auto.
           ++ intros [H|[e0 [k0 [p0 [[<-|H0] [H1 [H2 H3]]]]]]].
              ** left; right; exact H.
              ** left; left. exact H3.
              ** right. exists e0, k0, p0. split; [exact H0|]. rewrite Hc1 by (apply Hother, H0). auto.
        -- exact Hn.
        -- intros Hcs. apply Hs. unfold c1. apply cset_sorted, Hcs.
Qed.
End Opt.

Lemma alookup_cases : forall (A B : Type) (eqb : A -> A -> bool) (l : list (A * B)) a d,
  alookup eqb l a d = d \/ exists x, In x l /\ snd x = alookup eqb l a d.
Proof.
  induction l as [|[x y] r IH]; intros a d; cbn [alookup]; [left; reflexivity|].
  destruct (eqb x a).
  - right. exists (x, y). split; [left; reflexivity|reflexivity].
  - destruct (IH a d) as [H|[z [Hz1 Hz2]]]; [left; exact H|right]. exists z. split; [right; exact Hz1|exact Hz2].
Qed.

Lemma assign_nonzero : forall mig e,
  forallb (fun x : (N * vec) * (Z * Z) => negb (fst (snd x) =? 0)) mig = true -> fst (assign mig e) <> 0.
Proof.
  intros mig e H. unfold assign.
  destruct (alookup_cases _ _ idvec_eqb mig (ve_id e, ve_vec e) (-1, MAXF)) as [->|[x [Hx1 Hx2]]].
  - cbn. lia.
  - rewrite forallb_forall in H. specialize (H x Hx1). rewrite <- Hx2.
    apply negb_true_iff, Z.eqb_neq in H. exact H.
Qed.

Lemma bump_resolve : forall act a k, ck_ver k <= act -> ck_nver k <= act ->
  resolve (act + 1) (bump act a k) = a /\ ck_del (bump act a k) = ck_del k
  /\ ck_ver (bump act a k) <= act + 1 /\ ck_nver (bump act a k) <= act + 1.
Proof.
  intros act a k H1 H2. unfold bump, resolve.
  destruct (ck_nver k =? act) eqn:E; cbn [ck_cid ck_dist ck_ver ck_del ck_ncid ck_ndist ck_nver].
  - rewrite Z.eqb_refl. apply Z.eqb_eq in E.
    replace (ck_nver k =? act + 1) with false by (symmetry; apply Z.eqb_neq; lia).
    cbn. destruct a; repeat split; cbn; lia.
  - rewrite Z.eqb_refl.
    replace (ck_ver k =? act + 1) with false by (symmetry; apply Z.eqb_neq; lia).
    cbn. destruct a; repeat split; cbn; lia.
Qed.

Lemma inv_optimize : forall close, (forall d, close d d = true) ->
  forall s r cs mig, Inv s r ->
  forallb (fun x : (N * vec) * (Z * Z) => negb (fst (snd x) =? 0)) mig = true ->
  Inv (optimize close false true s cs mig) r.
Proof.
  intros close close_refl s r cs mig I Hmig. unfold optimize.
  destruct (fold_left (migrate_one close true (active s) mig) (vectors s) (content s, [])) as [c2 nv] eqn:Hf.
  destruct (migrate_fold close close_refl (active s) mig (vectors s) (content s) [] c2 nv
              (inv_vnodup s r I)) as [Ha [Hb [Hm [Hn Hs]]]]; [| |constructor|exact Hf|].
  { intros e He. destruct (inv_v s r I e He) as [k [p [H1 [H2 _]]]]. exists k, p. auto. }
  { intros x []. }
  assert (Hm' : forall x, In x nv <-> exists e k p, In e (vectors s) /\ cfind (content s) (ve_id e) = Some (k, p) /\ ck_del k = false /\ x = newent mig e).
  { intros x. rewrite Hm. split; [intros [[]|H]; exact H|intros H; right; exact H]. }
  pose proof (inv_act s r I) as Hact.
  constructor; cbn [active content vectors temp].
  - lia.
  - apply Hs, (inv_csorted s r I).
  - exact Hn.
  - intros x Hx. apply Hm' in Hx. destruct Hx as [e [k [p [He [Hc [Hd ->]]]]]].
    destruct (inv_c s r I _ k p Hc) as [_ [Hv1 [Hv2 _]]].
    destruct (bump_resolve (active s) (assign mig e) k Hv1 Hv2) as [Hr [Hdel _]].
    exists (bump (active s) (assign mig e) k), p. cbn [newent ve_id ve_cid ve_dist ve_del ve_vec].
    rewrite (Hb e k p He Hc), Hd. split; [reflexivity|]. split; [rewrite Hr; destruct (assign mig e); reflexivity|].
    split; [rewrite Hdel, Hd; reflexivity|]. intros _.
    destruct (inv_v s r I e He) as [k' [p' [Hc' [_ [_ Hl]]]]]. rewrite Hc in Hc'. inversion Hc'; subst k' p'.
    apply Hl, Hd.
  - intros id k' p' Hc'.
    destruct (in_dec N.eq_dec id (map ve_id (vectors s))) as [Hin|Hnin].
    + apply in_map_iff in Hin. destruct Hin as [e [Hid He]]. subst id.
      destruct (inv_v s r I e He) as [k [p [Hc [_ _]]]].
      rewrite (Hb e k p He Hc) in Hc'. destruct (ck_del k) eqn:Hd; [discriminate|].
      inversion Hc'; subst k' p'.
      destruct (inv_c s r I _ k p Hc) as [_ [Hv1 [Hv2 _]]].
      destruct (bump_resolve (active s) (assign mig e) k Hv1 Hv2) as [Hr [Hdel [Hw1 Hw2]]].
      rewrite Hr. split; [apply assign_nonzero, Hmig|]. split; [exact Hw1|]. split; [exact Hw2|].
      split; [rewrite Hdel, Hd; discriminate|].
      exists (newent mig e). split; [apply Hm'; exists e, k, p; auto|]. split; [reflexivity|].
      cbn. destruct (assign mig e); reflexivity.
    + rewrite (Ha id Hnin) in Hc'. destruct (inv_c s r I id k' p' Hc') as [_ [_ [_ [_ [e [He [Hid _]]]]]]].
      exfalso. apply Hnin. rewrite <- Hid. apply in_map, He.
  - intros id Hc'.
    destruct (in_dec N.eq_dec id (map ve_id (vectors s))) as [Hin|Hnin].
    + apply in_map_iff in Hin. destruct Hin as [e [Hid He]]. subst id.
      destruct (inv_v s r I e He) as [k [p [Hc [_ _]]]].
      rewrite (Hb e k p He Hc) in Hc'. destruct (ck_del k) eqn:Hd; [|discriminate].
      destruct (inv_c s r I _ k p Hc) as [_ [_ [_ [Hdel _]]]]. apply Hdel, Hd.
    + rewrite (Ha id Hnin) in Hc'. apply (inv_n s r I), Hc'.
  - reflexivity.
Qed.

(* ------------------------------------------------------------------ runs *)
Lemma inv_step : forall close, (forall d, close d d = true) ->
  forall s r o, Inv s r -> op_index_dedup o = true -> Inv (step close s o) (rstep r o).
Proof.
  intros close Hcl s r o I Ho. destruct o as [buf dedup id v p a|buf id|buf dedup cs mig]; cbn [op_index_dedup] in Ho; cbn [step rstep].
  - apply andb_true_iff in Ho. destruct Ho as [Ho Ha]. apply andb_true_iff in Ho. destruct Ho as [Hb Hd].
    apply negb_true_iff in Hb. subst buf dedup. unfold upsert. apply inv_upsert; [exact I|].
    apply negb_true_iff, Z.eqb_neq in Ha. exact Ha.
  - apply negb_true_iff in Ho. subst buf. apply inv_delete, I.
  - apply andb_true_iff in Ho. destruct Ho as [Ho Hm]. apply andb_true_iff in Ho. destruct Ho as [Hb Hd].
    apply negb_true_iff in Hb. subst buf dedup. apply inv_optimize; assumption.
Qed.

Lemma inv_run : forall close, (forall d, close d d = true) ->
  forall ops s r, Inv s r -> forallb op_index_dedup ops = true -> Inv (run close s ops) (rrun r ops).
Proof.
  intros close Hcl. induction ops as [|o ops IH]; intros s r I Hall; cbn [run rrun fold_left]; [exact I|].
  cbn [forallb] in Hall. apply andb_true_iff in Hall. destruct Hall as [Ho Hall].
  apply IH; [apply inv_step; assumption|exact Hall].
Qed.

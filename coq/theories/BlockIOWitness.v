(* Concrete blocks (real CRC-32) used by the _refuted theorems and non-vacuity examples of C22/C23. *)
From Coq Require Import List ZArith NArith Bool Arith Lia.
From SopVerif Require Import Lib.Bytes Lib.BytesProofs Gen.Consts BlockIO BlockIOProofs.
Import ListNotations.
Local Open Scope N_scope.

(* a 62-byte handle record: logical id, physical ids A/B, active flag, version, timestamp, deleted *)
Definition w_id (x : N) : list N := repeat x 16.
Definition w_handle (lid ver : N) : list N :=
  w_id lid ++ w_id 34 ++ w_id 0 ++ [0] ++ le_bytes 4 ver ++ le_bytes 8 0 ++ [0].
Definition w_off : nat := 124.                                   (* slot 2 *)
Definition w_old : list N := marshal crc32 (splice (zeros DSZ) w_off (w_handle 17 3)).
Definition w_new : list N := new_block crc32 w_old w_off (w_handle 17 7).
(* one flipped bit in the stored version field (3 -> 7), checksum trailer untouched *)
Definition w_corrupt : list N := splice w_old (w_off + 49) [7].

Lemma w_old_facts : length w_old = BSZ /\ valid crc32 w_old = true /\ slot_at w_old w_off = w_handle 17 3.
Proof. vm_compute. auto. Qed.
Lemma w_new_facts : length w_new = BSZ /\ valid crc32 w_new = true /\ slot_at w_new w_off = w_handle 17 7
  /\ list_eqb w_old w_new = false.
Proof. vm_compute. auto. Qed.
Lemma w_corrupt_facts :
  length w_corrupt = BSZ /\ valid crc32 w_corrupt = false /\
  list_eqb w_corrupt w_old = false /\ list_eqb w_corrupt w_new = false /\
  mix 200 w_new w_old = w_corrupt.
Proof. vm_compute. auto 10. Qed.
Lemma w_slot_ok : slot_ok w_off (w_handle 17 7).
Proof. vm_compute. split; [lia|reflexivity]. Qed.

(* S3 on the reader of /repo: lookup serves the flipped record, an update of another record
   re-checksums the corrupted block *)
Lemma w_get_serves_corrupt :
  reg_get crc32 false (mkDisk w_corrupt None) (w_id 17) w_off = (mkDisk w_corrupt None, GFound (w_handle 17 7)).
Proof. vm_compute. reflexivity. Qed.
Lemma w_update_launders_corrupt :
  let r := reg_update crc32 false (mkDisk w_corrupt None) (w_id 18) 0 (w_handle 18 1) in
  snd r = UOk /\ valid crc32 (blk (fst r)) = true /\ slot_at (blk (fst r)) w_off = w_handle 17 7 /\
  cow (fst r) = None.
Proof. vm_compute. auto. Qed.
